(** C06 -- squawk equals the octal identity code of the latest DF5/DF21 reply.
    Only statements, [exact], [Check] and [Print Assumptions] live here. *)
From SQ Require Import Base Id13 SquawkProof Update Footprint RowFacts.
Local Open Scope N_scope.

(** For every frame long enough to have bits 20..32 (all 14- and 28-nibble frames), whatever
    the other bits, the decoder returns the four octal digits A B C D of the identity field,
    read with the standard's bit numbering ([id_spec]); in particular it cannot panic. *)
Theorem C06_field : forall m, (8 <= List.length m)%nat -> wf m -> squawk m = Ok (Some (id_spec m)).
Proof. exact squawk_correct. Qed.

Check C06_field : forall m, (8 <= List.length m)%nat -> wf m -> squawk m = Ok (Some (id_spec m)).
Print Assumptions C06_field.

(** squitter path (Plane::update): a DF5/DF21 frame sets the squawk to the decoded identity ... *)
Theorem C06_update_sets : forall obs now r m df relaxed r',
  plane_update obs now r m df relaxed = Ok r' -> df = 5 \/ df = 21 ->
  (8 <= List.length m)%nat -> wf m -> r_squawk r' = Some (id_spec m).
Proof. exact plane_update_squawk_spec. Qed.
Check C06_update_sets : forall obs now r m df relaxed r',
  plane_update obs now r m df relaxed = Ok r' -> df = 5 \/ df = 21 ->
  (8 <= List.length m)%nat -> wf m -> r_squawk r' = Some (id_spec m).
Print Assumptions C06_update_sets.

(** ... and no frame of any other downlink format changes it *)
Theorem C06_update_keeps : forall obs now r m df relaxed r',
  plane_update obs now r m df relaxed = Ok r' -> df <> 5 -> df <> 21 -> r_squawk r' = r_squawk r.
Proof. exact plane_update_squawk_keeps. Qed.
Check C06_update_keeps : forall obs now r m df relaxed r',
  plane_update obs now r m df relaxed = Ok r' -> df <> 5 -> df <> 21 -> r_squawk r' = r_squawk r.
Print Assumptions C06_update_keeps.

(** downlink path (DF::from_message + update_from_downlink): only a DF5 short reply changes it *)
Theorem C06_downlink_keeps : forall obs now r d,
  dl_df d <> Some 5 -> r_squawk (update_from_downlink obs now r d) = r_squawk r.
Proof. exact downlink_squawk_keeps. Qed.
Check C06_downlink_keeps : forall obs now r d,
  dl_df d <> Some 5 -> r_squawk (update_from_downlink obs now r d) = r_squawk r.
Print Assumptions C06_downlink_keeps.

Theorem C06_downlink_sets : forall obs now r m s,
  srt_from_message m = Ok s -> s_df s = Some 5 -> s_icao s <> None ->
  (8 <= List.length m)%nat -> wf m ->
  r_squawk (update_from_downlink obs now r (DSrt s)) = Some (id_spec m).
Proof. exact downlink_squawk_spec. Qed.
Check C06_downlink_sets : forall obs now r m s,
  srt_from_message m = Ok s -> s_df s = Some 5 -> s_icao s <> None ->
  (8 <= List.length m)%nat -> wf m ->
  r_squawk (update_from_downlink obs now r (DSrt s)) = Some (id_spec m).
Print Assumptions C06_downlink_sets.

(** non-vacuity: the recorded DF5 reply 2800189A8E0F41 (squawk 5611 in the unit tests) *)
Example C06_example :
  squawk [2;8;0;0;1;8;9;10;8;14;0;15;4;1] = Ok (Some (id_spec [2;8;0;0;1;8;9;10;8;14;0;15;4;1]))
  /\ id_spec [2;8;0;0;1;8;9;10;8;14;0;15;4;1] = 5611%N.
Proof. split; vm_compute; reflexivity. Qed.

(** ---- through the whole pipeline: one reader step on an existing row, every option record (both update paths) ---- *)
From SQ Require Import Base Table Update Id13 TableProofs TotalPipeline EndToEnd.
Local Open Scope N_scope.

(** an accepted DF5/DF21 line for an aircraft already in the table sets its squawk to the identity code of that frame *)
Theorem C06_end_to_end : forall (o : opts) (now : Z) (s : state) (line : list N) (s' : state) (rf : bool) (df a : N) (r : row) (m : list N), step_line o now s line = Ok (s', rf, Applied df a) -> lookup (tbl s) a = Some r -> (0 < delete_after o)%Z -> get_message line = Ok (Some m) -> df = 5 \/ df = 21 -> exists r' : row, lookup (tbl s') a = Some r' /\ r_squawk r' = Some (id_spec m).
Proof. exact squawk_end_to_end. Qed.
Check C06_end_to_end : forall (o : opts) (now : Z) (s : state) (line : list N) (s' : state) (rf : bool) (df a : N) (r : row) (m : list N), step_line o now s line = Ok (s', rf, Applied df a) -> lookup (tbl s) a = Some r -> (0 < delete_after o)%Z -> get_message line = Ok (Some m) -> df = 5 \/ df = 21 -> exists r' : row, lookup (tbl s') a = Some r' /\ r_squawk r' = Some (id_spec m).
Print Assumptions C06_end_to_end.

(** an accepted line of any other downlink format leaves the squawk as it was *)
Theorem C06_end_to_end_untouched : forall (o : opts) (now : Z) (s : state) (line : list N) (s' : state) (rf : bool) (df a : N) (r : row), step_line o now s line = Ok (s', rf, Applied df a) -> lookup (tbl s) a = Some r -> (0 < delete_after o)%Z -> df <> 5 -> df <> 21 -> exists r' : row, lookup (tbl s') a = Some r' /\ r_squawk r' = r_squawk r.
Proof. exact squawk_untouched_end_to_end. Qed.
Check C06_end_to_end_untouched : forall (o : opts) (now : Z) (s : state) (line : list N) (s' : state) (rf : bool) (df a : N) (r : row), step_line o now s line = Ok (s', rf, Applied df a) -> lookup (tbl s) a = Some r -> (0 < delete_after o)%Z -> df <> 5 -> df <> 21 -> exists r' : row, lookup (tbl s') a = Some r' /\ r_squawk r' = r_squawk r.
Print Assumptions C06_end_to_end_untouched.

(** non-vacuity: a concrete DF5 line goes through the theorem for both -U settings *)
Theorem C06_end_to_end_witness : forall u : bool, exists (s' : state) (rf : bool) (r' : row), step_line (ex_opts u) 1000 (ex_state 8360486) ex_line5 = Ok (s', rf, Applied 5 8360486) /\ lookup (tbl s') 8360486 = Some r' /\ r_squawk r' = Some (id_spec ex_m5) /\ id_spec ex_m5 = 3615.
Proof. exact witness_df5_squawk. Qed.
Check C06_end_to_end_witness : forall u : bool, exists (s' : state) (rf : bool) (r' : row), step_line (ex_opts u) 1000 (ex_state 8360486) ex_line5 = Ok (s', rf, Applied 5 8360486) /\ lookup (tbl s') 8360486 = Some r' /\ r_squawk r' = Some (id_spec ex_m5) /\ id_spec ex_m5 = 3615.
Print Assumptions C06_end_to_end_witness.



(** ---- over ALL histories: the squawk shown is that of the most recent DF5/DF21 reply ---- *)
From SQ Require Import Base Table Update Id13 TableProofs LatestWins.
Local Open Scope N_scope.

(** for every stream, the squawk column of the final table equals a reference fold that only knows the classification of each line, the specified identity code of DF5/21 frames and which rows survive -- frames of other formats and of other aircraft never matter *)
Theorem C06_latest_wins : forall o : opts, (0 < delete_after o)%Z -> forall (now : Z) (s : state) (ls : list (option (list N))) (s' : state), run_lines o now s ls = Ok s' -> NoDup (keys (tbl s)) -> forall a : N, option_map r_squawk (lookup (tbl s') a) = rlookup (sq_ref_run o (proj r_squawk (tbl s)) (history o now s ls)) a.
Proof. exact squawk_latest_wins. Qed.
Check C06_latest_wins : forall o : opts, (0 < delete_after o)%Z -> forall (now : Z) (s : state) (ls : list (option (list N))) (s' : state), run_lines o now s ls = Ok s' -> NoDup (keys (tbl s)) -> forall a : N, option_map r_squawk (lookup (tbl s') a) = rlookup (sq_ref_run o (proj r_squawk (tbl s)) (history o now s ls)) a.
Print Assumptions C06_latest_wins.

(** in particular: after the last DF5/DF21 line of an aircraft (DF21 only if the row already existed) the squawk shown is that line's identity code, whatever follows from other formats *)
Theorem C06_latest_reply : forall o : opts, (0 < delete_after o)%Z -> forall (now : Z) (s : state) (pre : list (option (list N))) (line : list N) (post : list (option (list N))) (s' : state) (df a : N) (m : list N), run_lines o now s (pre ++ Some line :: post) = Ok s' -> classify o line = Ok (Applied df a) -> get_message line = Ok (Some m) -> df = 5 \/ df = 21 /\ (forall s1 : state, run_lines o now s pre = Ok s1 -> In a (keys (tbl s1))) -> (forall l : option (list N), In l post -> sq_line o a l = false) -> exists r : row, lookup (tbl s') a = Some r /\ r_squawk r = Some (id_spec m).
Proof. exact squawk_is_latest_df5_21. Qed.
Check C06_latest_reply : forall o : opts, (0 < delete_after o)%Z -> forall (now : Z) (s : state) (pre : list (option (list N))) (line : list N) (post : list (option (list N))) (s' : state) (df a : N) (m : list N), run_lines o now s (pre ++ Some line :: post) = Ok s' -> classify o line = Ok (Applied df a) -> get_message line = Ok (Some m) -> df = 5 \/ df = 21 /\ (forall s1 : state, run_lines o now s pre = Ok s1 -> In a (keys (tbl s1))) -> (forall l : option (list N), In l post -> sq_line o a l = false) -> exists r : row, lookup (tbl s') a = Some r /\ r_squawk r = Some (id_spec m).
Print Assumptions C06_latest_reply.

(** the stated exception is real: a DF21 reply that creates the row contributes the address only *)
Theorem C06_creating_df21 : forall o : opts, (0 < delete_after o)%Z -> forall (now : Z) (s : state) (pre : list (option (list N))) (line : list N) (post : list (option (list N))) (s' : state) (a : N) (m : list N), run_lines o now s (pre ++ Some line :: post) = Ok s' -> classify o line = Ok (Applied 21 a) -> get_message line = Ok (Some m) -> (forall s1 : state, run_lines o now s pre = Ok s1 -> lookup (tbl s1) a = None) -> (forall l : option (list N), In l post -> sq_line o a l = false) -> exists r : row, lookup (tbl s') a = Some r /\ r_squawk r = None.
Proof. exact squawk_df21_creating. Qed.
Check C06_creating_df21 : forall o : opts, (0 < delete_after o)%Z -> forall (now : Z) (s : state) (pre : list (option (list N))) (line : list N) (post : list (option (list N))) (s' : state) (a : N) (m : list N), run_lines o now s (pre ++ Some line :: post) = Ok s' -> classify o line = Ok (Applied 21 a) -> get_message line = Ok (Some m) -> (forall s1 : state, run_lines o now s pre = Ok s1 -> lookup (tbl s1) a = None) -> (forall l : option (list N), In l post -> sq_line o a l = false) -> exists r : row, lookup (tbl s') a = Some r /\ r_squawk r = None.
Print Assumptions C06_creating_df21.

(** non-vacuity: a concrete interleaved history of five aircraft (DF5/17/21, junk, non-UTF-8) run through model and reference fold, both -U settings *)
Theorem C06_history_witness : forall u : bool, exists s' : state, run_lines (EndToEnd.ex_opts u) 1000 wit_s0 wit_lines = Ok s' /\ proj r_squawk (tbl s') = [(1340132, Some 3615); (8360486, Some 3615); (4735190, None); (4219421, None); (11283562, None)] /\ sq_ref_run (EndToEnd.ex_opts u) [] (history (EndToEnd.ex_opts u) 1000 wit_s0 wit_lines) = [(1340132, Some 3615); (8360486, Some 3615); (4735190, None); (4219421, None); (11283562, None)] /\ proj r_ais (tbl s') = [(1340132, None); (8360486, None); (4735190, Some [75; 76; 77; 49; 48; 50; 51]); ( 4219421, None); (11283562, None)] /\ cs_ref_run (EndToEnd.ex_opts u) [] (history (EndToEnd.ex_opts u) 1000 wit_s0 wit_lines) = [(1340132, None); (8360486, None); (4735190, Some [75; 76; 77; 49; 48; 50; 51]); ( 4219421, None); (11283562, None)].
Proof. exact witness_history. Qed.
Check C06_history_witness : forall u : bool, exists s' : state, run_lines (EndToEnd.ex_opts u) 1000 wit_s0 wit_lines = Ok s' /\ proj r_squawk (tbl s') = [(1340132, Some 3615); (8360486, Some 3615); (4735190, None); (4219421, None); (11283562, None)] /\ sq_ref_run (EndToEnd.ex_opts u) [] (history (EndToEnd.ex_opts u) 1000 wit_s0 wit_lines) = [(1340132, Some 3615); (8360486, Some 3615); (4735190, None); (4219421, None); (11283562, None)] /\ proj r_ais (tbl s') = [(1340132, None); (8360486, None); (4735190, Some [75; 76; 77; 49; 48; 50; 51]); ( 4219421, None); (11283562, None)] /\ cs_ref_run (EndToEnd.ex_opts u) [] (history (EndToEnd.ex_opts u) 1000 wit_s0 wit_lines) = [(1340132, None); (8360486, None); (4735190, Some [75; 76; 77; 49; 48; 50; 51]); ( 4219421, None); (11283562, None)].
Print Assumptions C06_history_witness.



(** ---- the frame that creates the row ---- *)
From SQ Require Import Base Table Update EndToEnd EndToEnd2.


(** a DF5 reply that creates the row delivers its identity code *)
Theorem C06_new_row : forall (o : opts) (now : Z) (s : state) (line : list N) (s' : state) (rf : bool) (a : N) (m : list N), step_line o now s line = Ok (s', rf, Applied 5 a) -> lookup (tbl s) a = None -> (0 < delete_after o)%Z -> get_message line = Ok (Some m) -> exists r' : row, lookup (tbl s') a = Some r' /\ r_squawk r' = Some (Id13.id_spec m).
Proof. exact squawk_new_row. Qed.
Check C06_new_row : forall (o : opts) (now : Z) (s : state) (line : list N) (s' : state) (rf : bool) (a : N) (m : list N), step_line o now s line = Ok (s', rf, Applied 5 a) -> lookup (tbl s) a = None -> (0 < delete_after o)%Z -> get_message line = Ok (Some m) -> exists r' : row, lookup (tbl s') a = Some r' /\ r_squawk r' = Some (Id13.id_spec m).
Print Assumptions C06_new_row.


