(** C06 -- squawk equals the octal identity code of the latest DF5/DF21 reply.
    Only statements, [exact], [Check] and [Print Assumptions] live here. *)
From SQ Require Import Base Id13 SquawkProof Update Footprint RowFacts.
Local Open Scope N_scope.

(** For every frame long enough to have bits 20..32 (all 14- and 28-nibble frames), whatever
    the other bits, the decoder returns the four octal digits A B C D of the identity field,
    read with the standard's bit numbering ([id_spec]); in particular it cannot panic. *)
Theorem C06_field : forall m, (8 <= List.length m)%nat -> wf m -> squawk m = Ok (Some (id_spec m)).
Proof. exact squawk_correct. Qed.

Check C06_field : forall m, (8 <= List.length m)%nat -> wf m -> squawk m = Ok (Some (id_spec m)).
Print Assumptions C06_field.

(** squitter path (Plane::update): a DF5/DF21 frame sets the squawk to the decoded identity ... *)
Theorem C06_update_sets : forall obs now r m df relaxed r',
  plane_update obs now r m df relaxed = Ok r' -> df = 5 \/ df = 21 ->
  (8 <= List.length m)%nat -> wf m -> r_squawk r' = Some (id_spec m).
Proof. exact plane_update_squawk_spec. Qed.
Check C06_update_sets : forall obs now r m df relaxed r',
  plane_update obs now r m df relaxed = Ok r' -> df = 5 \/ df = 21 ->
  (8 <= List.length m)%nat -> wf m -> r_squawk r' = Some (id_spec m).
Print Assumptions C06_update_sets.

(** ... and no frame of any other downlink format changes it *)
Theorem C06_update_keeps : forall obs now r m df relaxed r',
  plane_update obs now r m df relaxed = Ok r' -> df <> 5 -> df <> 21 -> r_squawk r' = r_squawk r.
Proof. exact plane_update_squawk_keeps. Qed.
Check C06_update_keeps : forall obs now r m df relaxed r',
  plane_update obs now r m df relaxed = Ok r' -> df <> 5 -> df <> 21 -> r_squawk r' = r_squawk r.
Print Assumptions C06_update_keeps.

(** downlink path (DF::from_message + update_from_downlink): only a DF5 short reply changes it *)
Theorem C06_downlink_keeps : forall obs now r d,
  dl_df d <> Some 5 -> r_squawk (update_from_downlink obs now r d) = r_squawk r.
Proof. exact downlink_squawk_keeps. Qed.
Check C06_downlink_keeps : forall obs now r d,
  dl_df d <> Some 5 -> r_squawk (update_from_downlink obs now r d) = r_squawk r.
Print Assumptions C06_downlink_keeps.

Theorem C06_downlink_sets : forall obs now r m s,
  srt_from_message m = Ok s -> s_df s = Some 5 -> s_icao s <> None ->
  (8 <= List.length m)%nat -> wf m ->
  r_squawk (update_from_downlink obs now r (DSrt s)) = Some (id_spec m).
Proof. exact downlink_squawk_spec. Qed.
Check C06_downlink_sets : forall obs now r m s,
  srt_from_message m = Ok s -> s_df s = Some 5 -> s_icao s <> None ->
  (8 <= List.length m)%nat -> wf m ->
  r_squawk (update_from_downlink obs now r (DSrt s)) = Some (id_spec m).
Print Assumptions C06_downlink_sets.

(** non-vacuity: the recorded DF5 reply 2800189A8E0F41 (squawk 5611 in the unit tests) *)
Example C06_example :
  squawk [2;8;0;0;1;8;9;10;8;14;0;15;4;1] = Ok (Some (id_spec [2;8;0;0;1;8;9;10;8;14;0;15;4;1]))
  /\ id_spec [2;8;0;0;1;8;9;10;8;14;0;15;4;1] = 5611%N.
Proof. split; vm_compute; reflexivity. Qed.
