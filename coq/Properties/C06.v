(** C06 -- squawk equals the octal identity code of the latest DF5/DF21 reply.
    Only statements, [exact], [Check] and [Print Assumptions] live here. *)
From SQ Require Import Base Id13 SquawkProof Update Footprint RowFacts.
Local Open Scope N_scope.

(** For every frame long enough to have bits 20..32 (all 14- and 28-nibble frames), whatever
    the other bits, the decoder returns the four octal digits A B C D of the identity field,
    read with the standard's bit numbering ([id_spec]); in particular it cannot panic. *)
Theorem C06_field : forall m, (8 <= List.length m)%nat -> wf m -> squawk m = Ok (Some (id_spec m)).
Proof. exact squawk_correct. Qed.

Check C06_field : forall m, (8 <= List.length m)%nat -> wf m -> squawk m = Ok (Some (id_spec m)).
Print Assumptions C06_field.

(** squitter path (Plane::update): a DF5/DF21 frame sets the squawk to the decoded identity ... *)
Theorem C06_update_sets : forall obs now r m df relaxed r',
  plane_update obs now r m df relaxed = Ok r' -> df = 5 \/ df = 21 ->
  (8 <= List.length m)%nat -> wf m -> r_squawk r' = Some (id_spec m).
Proof. exact plane_update_squawk_spec. Qed.
Check C06_update_sets : forall obs now r m df relaxed r',
  plane_update obs now r m df relaxed = Ok r' -> df = 5 \/ df = 21 ->
  (8 <= List.length m)%nat -> wf m -> r_squawk r' = Some (id_spec m).
Print Assumptions C06_update_sets.

(** ... and no frame of any other downlink format changes it *)
Theorem C06_update_keeps : forall obs now r m df relaxed r',
  plane_update obs now r m df relaxed = Ok r' -> df <> 5 -> df <> 21 -> r_squawk r' = r_squawk r.
Proof. exact plane_update_squawk_keeps. Qed.
Check C06_update_keeps : forall obs now r m df relaxed r',
  plane_update obs now r m df relaxed = Ok r' -> df <> 5 -> df <> 21 -> r_squawk r' = r_squawk r.
Print Assumptions C06_update_keeps.

(** downlink path (DF::from_message + update_from_downlink): only a DF5 short reply changes it *)
Theorem C06_downlink_keeps : forall obs now r d,
  dl_df d <> Some 5 -> r_squawk (update_from_downlink obs now r d) = r_squawk r.
Proof. exact downlink_squawk_keeps. Qed.
Check C06_downlink_keeps : forall obs now r d,
  dl_df d <> Some 5 -> r_squawk (update_from_downlink obs now r d) = r_squawk r.
Print Assumptions C06_downlink_keeps.

Theorem C06_downlink_sets : forall obs now r m s,
  srt_from_message m = Ok s -> s_df s = Some 5 -> s_icao s <> None ->
  (8 <= List.length m)%nat -> wf m ->
  r_squawk (update_from_downlink obs now r (DSrt s)) = Some (id_spec m).
Proof. exact downlink_squawk_spec. Qed.
Check C06_downlink_sets : forall obs now r m s,
  srt_from_message m = Ok s -> s_df s = Some 5 -> s_icao s <> None ->
  (8 <= List.length m)%nat -> wf m ->
  r_squawk (update_from_downlink obs now r (DSrt s)) = Some (id_spec m).
Print Assumptions C06_downlink_sets.

(** non-vacuity: the recorded DF5 reply 2800189A8E0F41 (squawk 5611 in the unit tests) *)
Example C06_example :
  squawk [2;8;0;0;1;8;9;10;8;14;0;15;4;1] = Ok (Some (id_spec [2;8;0;0;1;8;9;10;8;14;0;15;4;1]))
  /\ id_spec [2;8;0;0;1;8;9;10;8;14;0;15;4;1] = 5611%N.
Proof. split; vm_compute; reflexivity. Qed.

(** ---- through the whole pipeline: one reader step on an existing row, every option record (both update paths) ---- *)
From SQ Require Import Base Table Update Id13 TableProofs TotalPipeline EndToEnd.
Local Open Scope N_scope.

(** an accepted DF5/DF21 line for an aircraft already in the table sets its squawk to the identity code of that frame *)
Theorem C06_end_to_end : forall (o : opts) (now : Z) (s : state) (line : list N) (s' : state) (rf : bool) (df a : N) (r : row) (m : list N), step_line o now s line = Ok (s', rf, Applied df a) -> lookup (tbl s) a = Some r -> (0 < delete_after o)%Z -> get_message line = Ok (Some m) -> df = 5 \/ df = 21 -> exists r' : row, lookup (tbl s') a = Some r' /\ r_squawk r' = Some (id_spec m).
Proof. exact squawk_end_to_end. Qed.
Check C06_end_to_end : forall (o : opts) (now : Z) (s : state) (line : list N) (s' : state) (rf : bool) (df a : N) (r : row) (m : list N), step_line o now s line = Ok (s', rf, Applied df a) -> lookup (tbl s) a = Some r -> (0 < delete_after o)%Z -> get_message line = Ok (Some m) -> df = 5 \/ df = 21 -> exists r' : row, lookup (tbl s') a = Some r' /\ r_squawk r' = Some (id_spec m).
Print Assumptions C06_end_to_end.

(** an accepted line of any other downlink format leaves the squawk as it was *)
Theorem C06_end_to_end_untouched : forall (o : opts) (now : Z) (s : state) (line : list N) (s' : state) (rf : bool) (df a : N) (r : row), step_line o now s line = Ok (s', rf, Applied df a) -> lookup (tbl s) a = Some r -> (0 < delete_after o)%Z -> df <> 5 -> df <> 21 -> exists r' : row, lookup (tbl s') a = Some r' /\ r_squawk r' = r_squawk r.
Proof. exact squawk_untouched_end_to_end. Qed.
Check C06_end_to_end_untouched : forall (o : opts) (now : Z) (s : state) (line : list N) (s' : state) (rf : bool) (df a : N) (r : row), step_line o now s line = Ok (s', rf, Applied df a) -> lookup (tbl s) a = Some r -> (0 < delete_after o)%Z -> df <> 5 -> df <> 21 -> exists r' : row, lookup (tbl s') a = Some r' /\ r_squawk r' = r_squawk r.
Print Assumptions C06_end_to_end_untouched.

(** non-vacuity: a concrete DF5 line goes through the theorem for both -U settings *)
Theorem C06_end_to_end_witness : forall u : bool, exists (s' : state) (rf : bool) (r' : row), step_line (ex_opts u) 1000 (ex_state 8360486) ex_line5 = Ok (s', rf, Applied 5 8360486) /\ lookup (tbl s') 8360486 = Some r' /\ r_squawk r' = Some (id_spec ex_m5) /\ id_spec ex_m5 = 3615.
Proof. exact witness_df5_squawk. Qed.
Check C06_end_to_end_witness : forall u : bool, exists (s' : state) (rf : bool) (r' : row), step_line (ex_opts u) 1000 (ex_state 8360486) ex_line5 = Ok (s', rf, Applied 5 8360486) /\ lookup (tbl s') 8360486 = Some r' /\ r_squawk r' = Some (id_spec ex_m5) /\ id_spec ex_m5 = 3615.
Print Assumptions C06_end_to_end_witness.


