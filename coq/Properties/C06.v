(** C06 -- squawk equals the octal identity code of the latest DF5/DF21 reply.
    Only statements, [exact], [Check] and [Print Assumptions] live here. *)
From SQ Require Import Base Id13 SquawkProof.

(** For every frame long enough to have bits 20..32 (all 14- and 28-nibble frames), whatever
    the other bits, the decoder returns the four octal digits A B C D of the identity field,
    read with the standard's bit numbering ([id_spec]); in particular it cannot panic. *)
Theorem C06_field : forall m, (8 <= List.length m)%nat -> wf m -> squawk m = Ok (Some (id_spec m)).
Proof. exact squawk_correct. Qed.

Check C06_field : forall m, (8 <= List.length m)%nat -> wf m -> squawk m = Ok (Some (id_spec m)).
Print Assumptions C06_field.

(** non-vacuity: the recorded DF5 reply 2800189A8E0F41 (squawk 5611 in the unit tests) *)
Example C06_example :
  squawk [2;8;0;0;1;8;9;10;8;14;0;15;4;1] = Ok (Some (id_spec [2;8;0;0;1;8;9;10;8;14;0;15;4;1]))
  /\ id_spec [2;8;0;0;1;8;9;10;8;14;0;15;4;1] = 5611%N.
Proof. split; vm_compute; reflexivity. Qed.
