(** C08 -- airborne position is the correct global CPR decode or is left unchanged. *)
From SQ Require Import Base Cpr Update Tables NLTable CprProof.
From Coq Require Import Reals QArith Qabs.
Local Open Scope N_scope.

(** the position is left exactly as it was when the pairing guard fails (a CPR field is 0, the slots hold different kinds, the frames are 10 s or more apart) or the type code is not a position type *)
Theorem C08_unchanged_without_valid_pair : forall (obs : option (Q * Q)) (r : row) (tc form : N), pos_guard r = false \/ ~ 5 <= tc <= 18 -> update_position obs r tc form = r.
Proof. exact update_position_unchanged. Qed.
Check C08_unchanged_without_valid_pair : forall (obs : option (Q * Q)) (r : row) (tc form : N), pos_guard r = false \/ ~ 5 <= tc <= 18 -> update_position obs r tc form = r.
Print Assumptions C08_unchanged_without_valid_pair.

(** dichotomy: either the pair commits the CPR decode, or nothing at all changes *)
Theorem C08_commit_or_unchanged : forall (obs : option (Q * Q)) (r : row) (tc form : N), (exists la lo : Q, pos_commits r tc form la lo /\ update_position obs r tc form = pos_commit obs r la lo) \/ (forall la lo : Q, ~ pos_commits r tc form la lo) /\ update_position obs r tc form = r.
Proof. exact update_position_cases. Qed.
Check C08_commit_or_unchanged : forall (obs : option (Q * Q)) (r : row) (tc form : N), (exists la lo : Q, pos_commits r tc form la lo /\ update_position obs r tc form = pos_commit obs r la lo) \/ (forall la lo : Q, ~ pos_commits r tc form la lo) /\ update_position obs r tc form = r.
Print Assumptions C08_commit_or_unchanged.

(** a changed position is in range, is the CPR decode of the two stored frames anchored on the frame just received, and carries the position time *)
Theorem C08_committed_position : forall (obs : option (Q * Q)) (r : row) (tc form : N) (r' : row), update_position obs r tc form = r' -> (lat r', lon r') <> (lat r, lon r) -> (-90 <= lat r')%Q /\ (lat r' <= 90)%Q /\ (-180 <= lon r')%Q /\ (lon r' <= 180)%Q /\ position_t r' = Some (timestamp r) /\ pos_guard r = true /\ (exists coeff : Z, (5 <= tc <= 8 /\ coeff = 4%Z \/ 9 <= tc <= 18 /\ coeff = 1%Z) /\ cpr_location (cpr_lat0 r) (cpr_lat1 r) (cpr_lon0 r) (cpr_lon1 r) form coeff = Some (lat r', lon r')).
Proof. exact update_position_range. Qed.
Check C08_committed_position : forall (obs : option (Q * Q)) (r : row) (tc form : N) (r' : row), update_position obs r tc form = r' -> (lat r', lon r') <> (lat r, lon r) -> (-90 <= lat r')%Q /\ (lat r' <= 90)%Q /\ (-180 <= lon r')%Q /\ (lon r' <= 180)%Q /\ position_t r' = Some (timestamp r) /\ pos_guard r = true /\ (exists coeff : Z, (5 <= tc <= 8 /\ coeff = 4%Z \/ 9 <= tc <= 18 /\ coeff = 1%Z) /\ cpr_location (cpr_lat0 r) (cpr_lat1 r) (cpr_lon0 r) (cpr_lon1 r) form coeff = Some (lat r', lon r')).
Print Assumptions C08_committed_position.

(** frames 10 whole seconds or more apart never produce a position *)
Theorem C08_time_window : forall (obs : option (Q * Q)) (r : row) (tc form : N), (Z.abs (num_seconds (cpr_t0 r) (cpr_t1 r)) >= 10)%Z -> update_position obs r tc form = r.
Proof. exact update_position_time_window. Qed.
Check C08_time_window : forall (obs : option (Q * Q)) (r : row) (tc form : N), (Z.abs (num_seconds (cpr_t0 r) (cpr_t1 r)) >= 10)%Z -> update_position obs r tc form = r.
Print Assumptions C08_time_window.

(** a surface frame is never paired with an airborne one *)
Theorem C08_mixed_kinds : forall (obs : option (Q * Q)) (r : row) (tc form : N), cpr_s0 r <> cpr_s1 r -> update_position obs r tc form = r.
Proof. exact update_position_mixed. Qed.
Check C08_mixed_kinds : forall (obs : option (Q * Q)) (r : row) (tc form : N), cpr_s0 r <> cpr_s1 r -> update_position obs r tc form = r.
Print Assumptions C08_mixed_kinds.

(** a pair whose recovered latitudes lie in different NL zones changes nothing *)
Theorem C08_zone_straddling : forall (obs : option (Q * Q)) (r : row) (tc form : N), nl (cpr_rlat0 (cpr_lat0 r) (cpr_lat1 r)) <> nl (cpr_rlat1 (cpr_lat0 r) (cpr_lat1 r)) -> update_position obs r tc form = r.
Proof. exact update_position_straddle. Qed.
Check C08_zone_straddling : forall (obs : option (Q * Q)) (r : row) (tc form : N), nl (cpr_rlat0 (cpr_lat0 r) (cpr_lat1 r)) <> nl (cpr_rlat1 (cpr_lat0 r) (cpr_lat1 r)) -> update_position obs r tc form = r.
Print Assumptions C08_zone_straddling.

(** a row created from a single message shows no position *)
Theorem C08_single_frame_squitter_path : forall (obs : option (Q * Q)) (now : Z) (m : list N) (df a : N) (relaxed : bool) (r' : row), row_from_message obs now m df a relaxed = Ok r' -> lat r' = 0%Q /\ lon r' = 0%Q /\ Row.dist r' = None /\ position_t r' = None.
Proof. exact row_from_message_no_position. Qed.
Check C08_single_frame_squitter_path : forall (obs : option (Q * Q)) (now : Z) (m : list N) (df a : N) (relaxed : bool) (r' : row), row_from_message obs now m df a relaxed = Ok r' -> lat r' = 0%Q /\ lon r' = 0%Q /\ Row.dist r' = None /\ position_t r' = None.
Print Assumptions C08_single_frame_squitter_path.

(** likewise on the downlink path *)
Theorem C08_single_frame_downlink_path : forall (obs : option (Q * Q)) (now : Z) (d : downlink) (a : N), let r' := row_from_downlink obs now d a in lat r' = 0%Q /\ lon r' = 0%Q /\ Row.dist r' = None /\ position_t r' = None.
Proof. exact row_from_downlink_no_position. Qed.
Check C08_single_frame_downlink_path : forall (obs : option (Q * Q)) (now : Z) (d : downlink) (a : N), let r' := row_from_downlink obs now d a in lat r' = 0%Q /\ lon r' = 0%Q /\ Row.dist r' = None /\ position_t r' = None.
Print Assumptions C08_single_frame_downlink_path.

(** without an observer the distance is never touched *)
Theorem C08_distance_without_observer : forall (r : row) (tc form : N), Row.dist (update_position None r tc form) = Row.dist r.
Proof. exact update_position_dist_none. Qed.
Check C08_distance_without_observer : forall (r : row) (tc form : N), Row.dist (update_position None r tc form) = Row.dist r.
Print Assumptions C08_distance_without_observer.

(** with an observer a committed position carries the distance to exactly that observer *)
Theorem C08_distance_with_observer : forall (ola olo : Q) (r : row) (tc form : N) (la lo : Q), pos_commits r tc form la lo -> let r' := update_position (Some (ola, olo)) r tc form in Row.dist r' = Some (lat r', lon r', ola, olo).
Proof. exact update_position_dist_some. Qed.
Check C08_distance_with_observer : forall (ola olo : Q) (r : row) (tc form : N) (la lo : Q), pos_commits r tc form la lo -> let r' := update_position (Some (ola, olo)) r tc form in Row.dist r' = Some (lat r', lon r', ola, olo).
Print Assumptions C08_distance_with_observer.

(** CPR latitude decoding is correct in exact arithmetic: for every latitude in (-89, 89) the latitude recovered from the standard even/odd encodings is within 6/2^18 degrees (2.5 m) of the encoded one *)
Theorem C08_latitude_even_correct : forall (lat : Q) (yz0 yz1 : N), (-89 < lat)%Q -> (lat < 89)%Q -> Z.of_N yz0 = cpr_enc 6 lat -> Z.of_N yz1 = cpr_enc (360 # 59) lat -> (Qabs (cpr_rlat0 yz0 yz1 - lat) <= 6 * (1 # 262144))%Q.
Proof. exact cpr_rlat0_correct. Qed.
Check C08_latitude_even_correct : forall (lat : Q) (yz0 yz1 : N), (-89 < lat)%Q -> (lat < 89)%Q -> Z.of_N yz0 = cpr_enc 6 lat -> Z.of_N yz1 = cpr_enc (360 # 59) lat -> (Qabs (cpr_rlat0 yz0 yz1 - lat) <= 6 * (1 # 262144))%Q.
Print Assumptions C08_latitude_even_correct.

(** the same for the odd frame (within (360/59)/2^18 degrees) *)
Theorem C08_latitude_odd_correct : forall (lat : Q) (yz0 yz1 : N), (-89 < lat)%Q -> (lat < 89)%Q -> Z.of_N yz0 = cpr_enc 6 lat -> Z.of_N yz1 = cpr_enc (360 # 59) lat -> (Qabs (cpr_rlat1 yz0 yz1 - lat) <= (360 # 59) * (1 # 262144))%Q.
Proof. exact cpr_rlat1_correct. Qed.
Check C08_latitude_odd_correct : forall (lat : Q) (yz0 yz1 : N), (-89 < lat)%Q -> (lat < 89)%Q -> Z.of_N yz0 = cpr_enc 6 lat -> Z.of_N yz1 = cpr_enc (360 # 59) lat -> (Qabs (cpr_rlat1 yz0 yz1 - lat) <= (360 # 59) * (1 # 262144))%Q.
Print Assumptions C08_latitude_odd_correct.

(** hence the latitude shown after a commit is within that bound of the encoded latitude *)
Theorem C08_latitude_at_row_level : forall (obs : option (Q * Q)) (r : row) (tc form : N) (truelat la lo : Q), (-89 < truelat)%Q -> (truelat < 89)%Q -> Z.of_N (cpr_lat0 r) = cpr_enc 6 truelat -> Z.of_N (cpr_lat1 r) = cpr_enc (360 # 59) truelat -> pos_commits r tc form la lo -> (Qabs (lat (update_position obs r tc form) - truelat) <= (if form =? 1 then 360 # 59 else 6) * (1 # 262144))%Q.
Proof. exact update_position_lat_correct. Qed.
Check C08_latitude_at_row_level : forall (obs : option (Q * Q)) (r : row) (tc form : N) (truelat la lo : Q), (-89 < truelat)%Q -> (truelat < 89)%Q -> Z.of_N (cpr_lat0 r) = cpr_enc 6 truelat -> Z.of_N (cpr_lat1 r) = cpr_enc (360 # 59) truelat -> pos_commits r tc form la lo -> (Qabs (lat (update_position obs r tc form) - truelat) <= (if form =? 1 then 360 # 59 else 6) * (1 # 262144))%Q.
Print Assumptions C08_latitude_at_row_level.

(** every boundary of the NL table regenerated from position.rs is the DO-260B transition latitude (closed form with acos) correctly rounded to 8 decimals *)
Theorem C08_nl_table_is_do260b : forall (b : Q) (k : Z), In (b, k) nl_table -> (Rabs (nl_lat k - Q2R b) < nl_half)%R.
Proof. exact nl_table_lat_half. Qed.
Check C08_nl_table_is_do260b : forall (b : Q) (k : Z), In (b, k) nl_table -> (Rabs (nl_lat k - Q2R b) < nl_half)%R.
Print Assumptions C08_nl_table_is_do260b.

(** the table lists NL = 59 down to 2 *)
Theorem C08_nl_table_shape : map snd nl_table = map Z.of_nat (rev (seq 2 58)).
Proof. exact nl_table_values. Qed.
Check C08_nl_table_shape : map snd nl_table = map Z.of_nat (rev (seq 2 58)).
Print Assumptions C08_nl_table_shape.

(** with strictly increasing boundaries *)
Theorem C08_nl_table_increasing : Sorted.StronglySorted Qlt (map fst nl_table).
Proof. exact nl_table_increasing. Qed.
Check C08_nl_table_increasing : Sorted.StronglySorted Qlt (map fst nl_table).
Print Assumptions C08_nl_table_increasing.

(** and the lookup returns NL = v exactly on [b_(v+1), b_v) *)
Theorem C08_nl_lookup_band : forall (lat b : Q) (v : Z) (b' : Q), In (b, v) nl_table -> In (b', (v + 1)%Z) nl_table -> (b' <= Qabs lat)%Q -> (Qabs lat < b)%Q -> nl lat = v.
Proof. exact nl_band. Qed.
Check C08_nl_lookup_band : forall (lat b : Q) (v : Z) (b' : Q), In (b, v) nl_table -> In (b', (v + 1)%Z) nl_table -> (b' <= Qabs lat)%Q -> (Qabs lat < b)%Q -> nl lat = v.
Print Assumptions C08_nl_lookup_band.

(** non-vacuity: the encoder hypotheses of the latitude theorem are met by a real position (52.2572 N encodes to 93000 / 73974... as in the textbook frame) *)
Theorem C08_encoder_example : cpr_enc 6 52.2572 = 93000%Z /\ cpr_enc (360 # 59) 52.2572 = 73974%Z /\ cpr_rlat0 93000 73974 == 428091 # 8192.
Proof. exact cpr_enc_example. Qed.
Check C08_encoder_example : cpr_enc 6 52.2572 = 93000%Z /\ cpr_enc (360 # 59) 52.2572 = 73974%Z /\ cpr_rlat0 93000 73974 == 428091 # 8192.
Print Assumptions C08_encoder_example.



(** ---- CPR decoding correctness in exact arithmetic, latitude AND longitude (airborne) ---- *)
From SQ Require Import Base Cpr Update CprProof CprLon.
From Coq Require Import QArith Qabs.
Local Open Scope N_scope.

(** the longitude recovered from the standard even/odd encodings of one longitude is within Dlon/2^18 degrees of it (modulo 360), even frame *)
Theorem C08_longitude_even_correct : forall (NL : Z) (lon : Q) (xz0 xz1 : N), (1 <= NL <= 59)%Z -> Z.of_N xz0 = cpr_enc (360 / inject_Z NL) lon -> Z.of_N xz1 = cpr_enc (360 / inject_Z (Z.max (NL - 1) 1)) lon -> exists k : Z, (Qabs (cpr_lon NL NL xz0 xz1 0 1 - lon - 360 * inject_Z k) <= 360 / inject_Z NL * (1 # 262144))%Q.
Proof. exact cpr_lon_even_correct. Qed.
Check C08_longitude_even_correct : forall (NL : Z) (lon : Q) (xz0 xz1 : N), (1 <= NL <= 59)%Z -> Z.of_N xz0 = cpr_enc (360 / inject_Z NL) lon -> Z.of_N xz1 = cpr_enc (360 / inject_Z (Z.max (NL - 1) 1)) lon -> exists k : Z, (Qabs (cpr_lon NL NL xz0 xz1 0 1 - lon - 360 * inject_Z k) <= 360 / inject_Z NL * (1 # 262144))%Q.
Print Assumptions C08_longitude_even_correct.

(** the same anchored on the odd frame (including NL = 1) *)
Theorem C08_longitude_odd_correct : forall (NL : Z) (lon : Q) (xz0 xz1 : N), (1 <= NL <= 59)%Z -> Z.of_N xz0 = cpr_enc (360 / inject_Z NL) lon -> Z.of_N xz1 = cpr_enc (360 / inject_Z (Z.max (NL - 1) 1)) lon -> exists k : Z, (Qabs (cpr_lon NL NL xz0 xz1 1 1 - lon - 360 * inject_Z k) <= 360 / inject_Z (Z.max (NL - 1) 1) * (1 # 262144))%Q.
Proof. exact cpr_lon_odd_correct. Qed.
Check C08_longitude_odd_correct : forall (NL : Z) (lon : Q) (xz0 xz1 : N), (1 <= NL <= 59)%Z -> Z.of_N xz0 = cpr_enc (360 / inject_Z NL) lon -> Z.of_N xz1 = cpr_enc (360 / inject_Z (Z.max (NL - 1) 1)) lon -> exists k : Z, (Qabs (cpr_lon NL NL xz0 xz1 1 1 - lon - 360 * inject_Z k) <= 360 / inject_Z (Z.max (NL - 1) 1) * (1 # 262144))%Q.
Print Assumptions C08_longitude_odd_correct.

(** generalisation to two different longitudes (aircraft moved between the frames) within the unambiguous range *)
Theorem C08_longitude_two_positions : forall (NL : Z) (lonA lonB : Q) (xz0 xz1 : N), (1 <= NL <= 59)%Z -> Z.of_N xz0 = cpr_enc (360 / inject_Z NL) lonA -> Z.of_N xz1 = cpr_enc (360 / inject_Z (Z.max (NL - 1) 1)) lonB -> (Qabs (lonB - lonA) * inject_Z (NL * (NL - 1)) <= 179)%Q -> forall form : N, (form =? 1) = false -> exists k : Z, (Qabs (cpr_lon NL NL xz0 xz1 form 1 - lonA - 360 * inject_Z k) <= 360 / inject_Z NL * (1 # 262144))%Q.
Proof. exact cpr_lon_even_correct2. Qed.
Check C08_longitude_two_positions : forall (NL : Z) (lonA lonB : Q) (xz0 xz1 : N), (1 <= NL <= 59)%Z -> Z.of_N xz0 = cpr_enc (360 / inject_Z NL) lonA -> Z.of_N xz1 = cpr_enc (360 / inject_Z (Z.max (NL - 1) 1)) lonB -> (Qabs (lonB - lonA) * inject_Z (NL * (NL - 1)) <= 179)%Q -> forall form : N, (form =? 1) = false -> exists k : Z, (Qabs (cpr_lon NL NL xz0 xz1 form 1 - lonA - 360 * inject_Z k) <= 360 / inject_Z NL * (1 # 262144))%Q.
Print Assumptions C08_longitude_two_positions.

(** whatever cpr_location returns for the standard encodings of a position with |lat| < 89 is within Dlat/2^18 of the latitude and Dlon/2^18 of the longitude (modulo 360), with longitude in [-180, 180) *)
Theorem C08_decode_correct : forall (yz0 yz1 xz0 xz1 form : N) (truelat truelon la lo : Q), (-89 < truelat)%Q -> (truelat < 89)%Q -> Z.of_N yz0 = cpr_enc 6 truelat -> Z.of_N yz1 = cpr_enc (360 # 59) truelat -> let NL := nl (cpr_rlat0 yz0 yz1) in Z.of_N xz0 = cpr_enc (360 / inject_Z NL) truelon -> Z.of_N xz1 = cpr_enc (360 / inject_Z (Z.max (NL - 1) 1)) truelon -> cpr_location yz0 yz1 xz0 xz1 form 1 = Some (la, lo) -> (Qabs (la - truelat) <= (if form =? 1 then 360 # 59 else 6) * (1 # 262144))%Q /\ (-180 <= lo < 180)%Q /\ (exists k : Z, (Qabs (lo - truelon - 360 * inject_Z k) <= 360 / inject_Z (if form =? 1 then Z.max (NL - 1) 1 else NL) * (1 # 262144))%Q).
Proof. exact cpr_location_airborne_correct. Qed.
Check C08_decode_correct : forall (yz0 yz1 xz0 xz1 form : N) (truelat truelon la lo : Q), (-89 < truelat)%Q -> (truelat < 89)%Q -> Z.of_N yz0 = cpr_enc 6 truelat -> Z.of_N yz1 = cpr_enc (360 # 59) truelat -> let NL := nl (cpr_rlat0 yz0 yz1) in Z.of_N xz0 = cpr_enc (360 / inject_Z NL) truelon -> Z.of_N xz1 = cpr_enc (360 / inject_Z (Z.max (NL - 1) 1)) truelon -> cpr_location yz0 yz1 xz0 xz1 form 1 = Some (la, lo) -> (Qabs (la - truelat) <= (if form =? 1 then 360 # 59 else 6) * (1 # 262144))%Q /\ (-180 <= lo < 180)%Q /\ (exists k : Z, (Qabs (lo - truelon - 360 * inject_Z k) <= 360 / inject_Z (if form =? 1 then Z.max (NL - 1) 1 else NL) * (1 # 262144))%Q).
Print Assumptions C08_decode_correct.

(** row level: when the two slots hold the DO-260B encodings of one true position and the pair commits, the position shown is within (360/59)/2^18 deg of the true latitude and 360/NL/2^18 deg of the true longitude -- a few metres, for either frame order, anywhere between 89S and 89N *)
Theorem C08_position_shown_is_correct : forall (obs : option (Q * Q)) (r : row) (tc form : N) (truelat truelon la lo : Q), (-89 < truelat)%Q -> (truelat < 89)%Q -> 9 <= tc <= 18 -> (Z.of_N (cpr_lat0 r), Z.of_N (cpr_lon0 r)) = std_enc0 truelat truelon -> (Z.of_N (cpr_lat1 r), Z.of_N (cpr_lon1 r)) = std_enc1 truelat truelon -> pos_commits r tc form la lo -> let NL := nl (enc_rlat 6 truelat) in let r' := update_position obs r tc form in (Qabs (lat r' - truelat) <= (if form =? 1 then 360 # 59 else 6) * (1 # 262144))%Q /\ (-180 <= lon r' < 180)%Q /\ (exists k : Z, (Qabs (lon r' - truelon - 360 * inject_Z k) <= 360 / inject_Z (if form =? 1 then Z.max (NL - 1) 1 else NL) * (1 # 262144))%Q).
Proof. exact update_position_airborne_std. Qed.
Check C08_position_shown_is_correct : forall (obs : option (Q * Q)) (r : row) (tc form : N) (truelat truelon la lo : Q), (-89 < truelat)%Q -> (truelat < 89)%Q -> 9 <= tc <= 18 -> (Z.of_N (cpr_lat0 r), Z.of_N (cpr_lon0 r)) = std_enc0 truelat truelon -> (Z.of_N (cpr_lat1 r), Z.of_N (cpr_lon1 r)) = std_enc1 truelat truelon -> pos_commits r tc form la lo -> let NL := nl (enc_rlat 6 truelat) in let r' := update_position obs r tc form in (Qabs (lat r' - truelat) <= (if form =? 1 then 360 # 59 else 6) * (1 # 262144))%Q /\ (-180 <= lon r' < 180)%Q /\ (exists k : Z, (Qabs (lon r' - truelon - 360 * inject_Z k) <= 360 / inject_Z (if form =? 1 then Z.max (NL - 1) 1 else NL) * (1 # 262144))%Q).
Print Assumptions C08_position_shown_is_correct.

(** non-vacuity: the textbook position encodes to the textbook fields *)
Theorem C08_encoder_example_lon : std_enc0 52.2572 3.91937 = (93000%Z, 51372%Z) /\ std_enc1 52.2572 3.91937 = (73974%Z, 49945%Z) /\ match cpr_location 93000 73974 51372 49945 0 1 with | Some (la, lo) => la == 428091 # 8192 /\ lo == 64215 # 16384 | None => False end.
Proof. exact std_enc_example. Qed.
Check C08_encoder_example_lon : std_enc0 52.2572 3.91937 = (93000%Z, 51372%Z) /\ std_enc1 52.2572 3.91937 = (73974%Z, 49945%Z) /\ match cpr_location 93000 73974 51372 49945 0 1 with | Some (la, lo) => la == 428091 # 8192 /\ lo == 64215 # 16384 | None => False end.
Print Assumptions C08_encoder_example_lon.


