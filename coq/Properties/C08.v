(** C08 -- airborne position is the correct global CPR decode or is left unchanged. *)
From SQ Require Import Base Cpr Update Tables NLTable CprProof.
From Coq Require Import Reals QArith Qabs.
Local Open Scope N_scope.

(** the position is left exactly as it was when the pairing guard fails (a CPR field is 0, the slots hold different kinds, the frames are 10 s or more apart) or the type code is not a position type *)
Theorem C08_unchanged_without_valid_pair : forall (obs : option (Q * Q)) (r : row) (tc form : N), pos_guard r = false \/ ~ 5 <= tc <= 18 -> update_position obs r tc form = r.
Proof. exact update_position_unchanged. Qed.
Check C08_unchanged_without_valid_pair : forall (obs : option (Q * Q)) (r : row) (tc form : N), pos_guard r = false \/ ~ 5 <= tc <= 18 -> update_position obs r tc form = r.
Print Assumptions C08_unchanged_without_valid_pair.

(** dichotomy: either the pair commits the CPR decode, or nothing at all changes *)
Theorem C08_commit_or_unchanged : forall (obs : option (Q * Q)) (r : row) (tc form : N), (exists la lo : Q, pos_commits r tc form la lo /\ update_position obs r tc form = pos_commit obs r la lo) \/ (forall la lo : Q, ~ pos_commits r tc form la lo) /\ update_position obs r tc form = r.
Proof. exact update_position_cases. Qed.
Check C08_commit_or_unchanged : forall (obs : option (Q * Q)) (r : row) (tc form : N), (exists la lo : Q, pos_commits r tc form la lo /\ update_position obs r tc form = pos_commit obs r la lo) \/ (forall la lo : Q, ~ pos_commits r tc form la lo) /\ update_position obs r tc form = r.
Print Assumptions C08_commit_or_unchanged.

(** a changed position is in range, is the CPR decode of the two stored frames anchored on the frame just received, and carries the position time *)
Theorem C08_committed_position : forall (obs : option (Q * Q)) (r : row) (tc form : N) (r' : row), update_position obs r tc form = r' -> (lat r', lon r') <> (lat r, lon r) -> (-90 <= lat r')%Q /\ (lat r' <= 90)%Q /\ (-180 <= lon r')%Q /\ (lon r' <= 180)%Q /\ position_t r' = Some (timestamp r) /\ pos_guard r = true /\ (exists coeff : Z, (5 <= tc <= 8 /\ coeff = 4%Z \/ 9 <= tc <= 18 /\ coeff = 1%Z) /\ cpr_location (cpr_lat0 r) (cpr_lat1 r) (cpr_lon0 r) (cpr_lon1 r) form coeff = Some (lat r', lon r')).
Proof. exact update_position_range. Qed.
Check C08_committed_position : forall (obs : option (Q * Q)) (r : row) (tc form : N) (r' : row), update_position obs r tc form = r' -> (lat r', lon r') <> (lat r, lon r) -> (-90 <= lat r')%Q /\ (lat r' <= 90)%Q /\ (-180 <= lon r')%Q /\ (lon r' <= 180)%Q /\ position_t r' = Some (timestamp r) /\ pos_guard r = true /\ (exists coeff : Z, (5 <= tc <= 8 /\ coeff = 4%Z \/ 9 <= tc <= 18 /\ coeff = 1%Z) /\ cpr_location (cpr_lat0 r) (cpr_lat1 r) (cpr_lon0 r) (cpr_lon1 r) form coeff = Some (lat r', lon r')).
Print Assumptions C08_committed_position.

(** frames 10 whole seconds or more apart never produce a position *)
Theorem C08_time_window : forall (obs : option (Q * Q)) (r : row) (tc form : N), (Z.abs (num_seconds (cpr_t0 r) (cpr_t1 r)) >= 10)%Z -> update_position obs r tc form = r.
Proof. exact update_position_time_window. Qed.
Check C08_time_window : forall (obs : option (Q * Q)) (r : row) (tc form : N), (Z.abs (num_seconds (cpr_t0 r) (cpr_t1 r)) >= 10)%Z -> update_position obs r tc form = r.
Print Assumptions C08_time_window.

(** a surface frame is never paired with an airborne one *)
Theorem C08_mixed_kinds : forall (obs : option (Q * Q)) (r : row) (tc form : N), cpr_s0 r <> cpr_s1 r -> update_position obs r tc form = r.
Proof. exact update_position_mixed. Qed.
Check C08_mixed_kinds : forall (obs : option (Q * Q)) (r : row) (tc form : N), cpr_s0 r <> cpr_s1 r -> update_position obs r tc form = r.
Print Assumptions C08_mixed_kinds.

(** a pair whose recovered latitudes lie in different NL zones changes nothing *)
Theorem C08_zone_straddling : forall (obs : option (Q * Q)) (r : row) (tc form : N), nl (cpr_rlat0 (cpr_lat0 r) (cpr_lat1 r)) <> nl (cpr_rlat1 (cpr_lat0 r) (cpr_lat1 r)) -> update_position obs r tc form = r.
Proof. exact update_position_straddle. Qed.
Check C08_zone_straddling : forall (obs : option (Q * Q)) (r : row) (tc form : N), nl (cpr_rlat0 (cpr_lat0 r) (cpr_lat1 r)) <> nl (cpr_rlat1 (cpr_lat0 r) (cpr_lat1 r)) -> update_position obs r tc form = r.
Print Assumptions C08_zone_straddling.

(** a row created from a single message shows no position *)
Theorem C08_single_frame_squitter_path : forall (obs : option (Q * Q)) (now : Z) (m : list N) (df a : N) (relaxed : bool) (r' : row), row_from_message obs now m df a relaxed = Ok r' -> lat r' = 0%Q /\ lon r' = 0%Q /\ Row.dist r' = None /\ position_t r' = None.
Proof. exact row_from_message_no_position. Qed.
Check C08_single_frame_squitter_path : forall (obs : option (Q * Q)) (now : Z) (m : list N) (df a : N) (relaxed : bool) (r' : row), row_from_message obs now m df a relaxed = Ok r' -> lat r' = 0%Q /\ lon r' = 0%Q /\ Row.dist r' = None /\ position_t r' = None.
Print Assumptions C08_single_frame_squitter_path.

(** likewise on the downlink path *)
Theorem C08_single_frame_downlink_path : forall (obs : option (Q * Q)) (now : Z) (d : downlink) (a : N), let r' := row_from_downlink obs now d a in lat r' = 0%Q /\ lon r' = 0%Q /\ Row.dist r' = None /\ position_t r' = None.
Proof. exact row_from_downlink_no_position. Qed.
Check C08_single_frame_downlink_path : forall (obs : option (Q * Q)) (now : Z) (d : downlink) (a : N), let r' := row_from_downlink obs now d a in lat r' = 0%Q /\ lon r' = 0%Q /\ Row.dist r' = None /\ position_t r' = None.
Print Assumptions C08_single_frame_downlink_path.

(** without an observer the distance is never touched *)
Theorem C08_distance_without_observer : forall (r : row) (tc form : N), Row.dist (update_position None r tc form) = Row.dist r.
Proof. exact update_position_dist_none. Qed.
Check C08_distance_without_observer : forall (r : row) (tc form : N), Row.dist (update_position None r tc form) = Row.dist r.
Print Assumptions C08_distance_without_observer.

(** with an observer a committed position carries the distance to exactly that observer *)
Theorem C08_distance_with_observer : forall (ola olo : Q) (r : row) (tc form : N) (la lo : Q), pos_commits r tc form la lo -> let r' := update_position (Some (ola, olo)) r tc form in Row.dist r' = Some (lat r', lon r', ola, olo).
Proof. exact update_position_dist_some. Qed.
Check C08_distance_with_observer : forall (ola olo : Q) (r : row) (tc form : N) (la lo : Q), pos_commits r tc form la lo -> let r' := update_position (Some (ola, olo)) r tc form in Row.dist r' = Some (lat r', lon r', ola, olo).
Print Assumptions C08_distance_with_observer.

(** CPR latitude decoding is correct in exact arithmetic: for every latitude in (-89, 89) the latitude recovered from the standard even/odd encodings is within 6/2^18 degrees (2.5 m) of the encoded one *)
Theorem C08_latitude_even_correct : forall (lat : Q) (yz0 yz1 : N), (-89 < lat)%Q -> (lat < 89)%Q -> Z.of_N yz0 = cpr_enc 6 lat -> Z.of_N yz1 = cpr_enc (360 # 59) lat -> (Qabs (cpr_rlat0 yz0 yz1 - lat) <= 6 * (1 # 262144))%Q.
Proof. exact cpr_rlat0_correct. Qed.
Check C08_latitude_even_correct : forall (lat : Q) (yz0 yz1 : N), (-89 < lat)%Q -> (lat < 89)%Q -> Z.of_N yz0 = cpr_enc 6 lat -> Z.of_N yz1 = cpr_enc (360 # 59) lat -> (Qabs (cpr_rlat0 yz0 yz1 - lat) <= 6 * (1 # 262144))%Q.
Print Assumptions C08_latitude_even_correct.

(** the same for the odd frame (within (360/59)/2^18 degrees) *)
Theorem C08_latitude_odd_correct : forall (lat : Q) (yz0 yz1 : N), (-89 < lat)%Q -> (lat < 89)%Q -> Z.of_N yz0 = cpr_enc 6 lat -> Z.of_N yz1 = cpr_enc (360 # 59) lat -> (Qabs (cpr_rlat1 yz0 yz1 - lat) <= (360 # 59) * (1 # 262144))%Q.
Proof. exact cpr_rlat1_correct. Qed.
Check C08_latitude_odd_correct : forall (lat : Q) (yz0 yz1 : N), (-89 < lat)%Q -> (lat < 89)%Q -> Z.of_N yz0 = cpr_enc 6 lat -> Z.of_N yz1 = cpr_enc (360 # 59) lat -> (Qabs (cpr_rlat1 yz0 yz1 - lat) <= (360 # 59) * (1 # 262144))%Q.
Print Assumptions C08_latitude_odd_correct.

(** hence the latitude shown after a commit is within that bound of the encoded latitude *)
Theorem C08_latitude_at_row_level : forall (obs : option (Q * Q)) (r : row) (tc form : N) (truelat la lo : Q), (-89 < truelat)%Q -> (truelat < 89)%Q -> Z.of_N (cpr_lat0 r) = cpr_enc 6 truelat -> Z.of_N (cpr_lat1 r) = cpr_enc (360 # 59) truelat -> pos_commits r tc form la lo -> (Qabs (lat (update_position obs r tc form) - truelat) <= (if form =? 1 then 360 # 59 else 6) * (1 # 262144))%Q.
Proof. exact update_position_lat_correct. Qed.
Check C08_latitude_at_row_level : forall (obs : option (Q * Q)) (r : row) (tc form : N) (truelat la lo : Q), (-89 < truelat)%Q -> (truelat < 89)%Q -> Z.of_N (cpr_lat0 r) = cpr_enc 6 truelat -> Z.of_N (cpr_lat1 r) = cpr_enc (360 # 59) truelat -> pos_commits r tc form la lo -> (Qabs (lat (update_position obs r tc form) - truelat) <= (if form =? 1 then 360 # 59 else 6) * (1 # 262144))%Q.
Print Assumptions C08_latitude_at_row_level.

(** every boundary of the NL table regenerated from position.rs is the DO-260B transition latitude (closed form with acos) correctly rounded to 8 decimals *)
Theorem C08_nl_table_is_do260b : forall (b : Q) (k : Z), In (b, k) nl_table -> (Rabs (nl_lat k - Q2R b) < nl_half)%R.
Proof. exact nl_table_lat_half. Qed.
Check C08_nl_table_is_do260b : forall (b : Q) (k : Z), In (b, k) nl_table -> (Rabs (nl_lat k - Q2R b) < nl_half)%R.
Print Assumptions C08_nl_table_is_do260b.

(** the table lists NL = 59 down to 2 *)
Theorem C08_nl_table_shape : map snd nl_table = map Z.of_nat (rev (seq 2 58)).
Proof. exact nl_table_values. Qed.
Check C08_nl_table_shape : map snd nl_table = map Z.of_nat (rev (seq 2 58)).
Print Assumptions C08_nl_table_shape.

(** with strictly increasing boundaries *)
Theorem C08_nl_table_increasing : Sorted.StronglySorted Qlt (map fst nl_table).
Proof. exact nl_table_increasing. Qed.
Check C08_nl_table_increasing : Sorted.StronglySorted Qlt (map fst nl_table).
Print Assumptions C08_nl_table_increasing.

(** and the lookup returns NL = v exactly on [b_(v+1), b_v) *)
Theorem C08_nl_lookup_band : forall (lat b : Q) (v : Z) (b' : Q), In (b, v) nl_table -> In (b', (v + 1)%Z) nl_table -> (b' <= Qabs lat)%Q -> (Qabs lat < b)%Q -> nl lat = v.
Proof. exact nl_band. Qed.
Check C08_nl_lookup_band : forall (lat b : Q) (v : Z) (b' : Q), In (b, v) nl_table -> In (b', (v + 1)%Z) nl_table -> (b' <= Qabs lat)%Q -> (Qabs lat < b)%Q -> nl lat = v.
Print Assumptions C08_nl_lookup_band.

(** non-vacuity: the encoder hypotheses of the latitude theorem are met by a real position (52.2572 N encodes to 93000 / 73974... as in the textbook frame) *)
Theorem C08_encoder_example : cpr_enc 6 52.2572 = 93000%Z /\ cpr_enc (360 # 59) 52.2572 = 73974%Z /\ cpr_rlat0 93000 73974 == 428091 # 8192.
Proof. exact cpr_enc_example. Qed.
Check C08_encoder_example : cpr_enc 6 52.2572 = 93000%Z /\ cpr_enc (360 # 59) 52.2572 = 73974%Z /\ cpr_rlat0 93000 73974 == 428091 # 8192.
Print Assumptions C08_encoder_example.


