(** C08 -- placeholder until Proofs/CprProof.v and Proofs/NLTable.v are integrated *)
From SQ Require Import Base Cpr.
Theorem C08_pmod_example : pmod (-7) 3 = 2%Z /\ pmod 7 3 = 1%Z.
Proof. split; reflexivity. Qed.
Check C08_pmod_example : pmod (-7) 3 = 2%Z /\ pmod 7 3 = 1%Z.
Print Assumptions C08_pmod_example.
