(** C10 -- Comm-B data are shown only when valid, advertised and correctly decoded. *)
From SQ Require Import Base Bds Update Footprint Doc9871 BdsProof.
Local Open Scope N_scope.

(** with no -R and a recorded capability of 3 or less a DF20/21 reply changes no Comm-B derived field of the row (27 fields listed) *)
Theorem C10_gate_closed : forall (obs : option (Q * Q)) (now : Z) (r : row) (m : list N) (df : N) (relaxed : bool) (r' : row), plane_update obs now r m df relaxed = Ok r' -> relaxed = false -> cap_ca r <= 3 -> df = 20 \/ df = 21 -> r_ais r' = r_ais r /\ threat r' = threat r /\ cap r' = cap r /\ selected_altitude r' = selected_altitude r /\ target_alt_source r' = target_alt_source r /\ baro_setting r' = baro_setting r /\ roll_angle r' = roll_angle r /\ track r' = track r /\ track_angle_rate r' = track_angle_rate r /\ grspeed r' = grspeed r /\ true_airspeed r' = true_airspeed r /\ bds50_t r' = bds50_t r /\ track_source r' = track_source r /\ track_t r' = track_t r /\ r_heading r' = r_heading r /\ indicated_airspeed r' = indicated_airspeed r /\ mach r' = mach r /\ vrate r' = vrate r /\ vrate_source r' = vrate_source r /\ heading_source r' = heading_source r /\ heading_t r' = heading_t r /\ temperature r' = temperature r /\ wind r' = wind r /\ humidity r' = humidity r /\ turbulence r' = turbulence r /\ pressure r' = pressure r /\ cap_ca r' = cap_ca r.
Proof. exact gate_closed. Qed.
Check C10_gate_closed : forall (obs : option (Q * Q)) (now : Z) (r : row) (m : list N) (df : N) (relaxed : bool) (r' : row), plane_update obs now r m df relaxed = Ok r' -> relaxed = false -> cap_ca r <= 3 -> df = 20 \/ df = 21 -> r_ais r' = r_ais r /\ threat r' = threat r /\ cap r' = cap r /\ selected_altitude r' = selected_altitude r /\ target_alt_source r' = target_alt_source r /\ baro_setting r' = baro_setting r /\ roll_angle r' = roll_angle r /\ track r' = track r /\ track_angle_rate r' = track_angle_rate r /\ grspeed r' = grspeed r /\ true_airspeed r' = true_airspeed r /\ bds50_t r' = bds50_t r /\ track_source r' = track_source r /\ track_t r' = track_t r /\ r_heading r' = r_heading r /\ indicated_airspeed r' = indicated_airspeed r /\ mach r' = mach r /\ vrate r' = vrate r /\ vrate_source r' = vrate_source r /\ heading_source r' = heading_source r /\ heading_t r' = heading_t r /\ temperature r' = temperature r /\ wind r' = wind r /\ humidity r' = humidity r /\ turbulence r' = turbulence r /\ pressure r' = pressure r /\ cap_ca r' = cap_ca r.
Print Assumptions C10_gate_closed.

(** conversely a changed Comm-B field means -R or a recorded capability above 3 *)
Theorem C10_gate_open_needed : forall (obs : option (Q * Q)) (now : Z) (r : row) (m : list N) (df : N) (relaxed : bool) (r' : row) (f : fld), plane_update obs now r m df relaxed = Ok r' -> df = 20 \/ df = 21 -> memf f fp_mode_s = true -> ~ same f r r' -> relaxed = true \/ 3 < cap_ca r.
Proof. exact gate_open_needs. Qed.
Check C10_gate_open_needed : forall (obs : option (Q * Q)) (now : Z) (r : row) (m : list N) (df : N) (relaxed : bool) (r' : row) (f : fld), plane_update obs now r m df relaxed = Ok r' -> df = 20 \/ df = 21 -> memf f fp_mode_s = true -> ~ same f r r' -> relaxed = true \/ 3 < cap_ca r.
Print Assumptions C10_gate_open_needed.

(** without -R, a BDS 4,0 register that BDS 1,7 has not advertised changes none of its fields *)
Theorem C10_advert_40 : forall (r : row) (m : list N) (r' : row), update_from_mode_s r m false = Ok r' -> c40 (cap r) = false -> selected_altitude r' = selected_altitude r /\ baro_setting r' = baro_setting r /\ target_alt_source r' = target_alt_source r.
Proof. exact advert_40_strong. Qed.
Check C10_advert_40 : forall (r : row) (m : list N) (r' : row), update_from_mode_s r m false = Ok r' -> c40 (cap r) = false -> selected_altitude r' = selected_altitude r /\ baro_setting r' = baro_setting r /\ target_alt_source r' = target_alt_source r.
Print Assumptions C10_advert_40.

(** likewise BDS 5,0 (roll, track rate, TAS, and track / ground speed stay) *)
Theorem C10_advert_50 : forall (r : row) (m : list N) (r' : row), update_from_mode_s r m false = Ok r' -> c50 (cap r) = false -> roll_angle r' = roll_angle r /\ track_angle_rate r' = track_angle_rate r /\ true_airspeed r' = true_airspeed r /\ bds50_t r' = bds50_t r /\ track r' = track r /\ grspeed r' = grspeed r /\ track_source r' = track_source r /\ track_t r' = track_t r.
Proof. exact advert_50_strong. Qed.
Check C10_advert_50 : forall (r : row) (m : list N) (r' : row), update_from_mode_s r m false = Ok r' -> c50 (cap r) = false -> roll_angle r' = roll_angle r /\ track_angle_rate r' = track_angle_rate r /\ true_airspeed r' = true_airspeed r /\ bds50_t r' = bds50_t r /\ track r' = track r /\ grspeed r' = grspeed r /\ track_source r' = track_source r /\ track_t r' = track_t r.
Print Assumptions C10_advert_50.

(** likewise BDS 6,0 (heading, IAS, Mach, vertical rate stay) *)
Theorem C10_advert_60 : forall (r : row) (m : list N) (r' : row), update_from_mode_s r m false = Ok r' -> c60 (cap r) = false -> r_heading r' = r_heading r /\ indicated_airspeed r' = indicated_airspeed r /\ mach r' = mach r /\ vrate r' = vrate r /\ vrate_source r' = vrate_source r /\ heading_source r' = heading_source r /\ heading_t r' = heading_t r.
Proof. exact advert_60_strong. Qed.
Check C10_advert_60 : forall (r : row) (m : list N) (r' : row), update_from_mode_s r m false = Ok r' -> c60 (cap r) = false -> r_heading r' = r_heading r /\ indicated_airspeed r' = indicated_airspeed r /\ mach r' = mach r /\ vrate r' = vrate r /\ vrate_source r' = vrate_source r /\ heading_source r' = heading_source r /\ heading_t r' = heading_t r.
Print Assumptions C10_advert_60.

(** the register inference is first-match in the fixed precedence 1,7 > 4,0 > 5,0 > 6,0 > 4,4 > 4,5: exactly one outcome happens, later registers only if the earlier tests failed or were not advertised *)
Theorem C10_first_match : forall (r : row) (m : list N) (relaxed : bool) (r' : row), update_from_mode_s r m relaxed = Ok r' -> mode_s_outcome r m relaxed r'.
Proof. exact update_from_mode_s_outcome. Qed.
Check C10_first_match : forall (r : row) (m : list N) (relaxed : bool) (r' : row), update_from_mode_s r m relaxed = Ok r' -> mode_s_outcome r m relaxed r'.
Print Assumptions C10_first_match.

(** if the selected altitude changes then the MB field is a valid BDS 4,0 register (status bits 33,46,59 set, value fields non-zero, reserved bits 72-79 and 84-85 zero) and the new values are the Doc 9871 decodings *)
Theorem C10_valid_40 : forall (r : row) (m : list N) (relaxed : bool) (r' : row), wf m -> Datatypes.length m = 28%nat -> update_from_mode_s r m relaxed = Ok r' -> selected_altitude r' <> selected_altitude r -> bds40_valid m /\ selected_altitude r' = Some (sel_alt_spec (field m 34 45)) /\ baro_setting r' = Some (baro_spec (field m 60 71)).
Proof. exact valid_40_doc. Qed.
Check C10_valid_40 : forall (r : row) (m : list N) (relaxed : bool) (r' : row), wf m -> Datatypes.length m = 28%nat -> update_from_mode_s r m relaxed = Ok r' -> selected_altitude r' <> selected_altitude r -> bds40_valid m /\ selected_altitude r' = Some (sel_alt_spec (field m 34 45)) /\ baro_setting r' = Some (baro_spec (field m 60 71)).
Print Assumptions C10_valid_40.

(** if the roll angle changes then the MB field is a valid BDS 5,0 register (all five status bits set, fields non-zero, plausible) and roll, track, ground speed, track rate and TAS are the Doc 9871 decodings *)
Theorem C10_valid_50 : forall (r : row) (m : list N) (relaxed : bool) (r' : row), wf m -> Datatypes.length m = 28%nat -> update_from_mode_s r m relaxed = Ok r' -> roll_angle r' <> roll_angle r -> bds50_valid m /\ roll_angle r' = Some (roll_spec (bit_at m 34) (field m 35 43)) /\ track r' = Some (angle_spec (bit_at m 45) (field m 46 55)) /\ grspeed r' = Some (speed2_spec (field m 57 66)) /\ true_airspeed r' = Some (speed2_spec (field m 79 88)) /\ track_angle_rate r' = Some (tar_spec (bit_at m 68) (field m 69 77)).
Proof. exact valid_50_doc. Qed.
Check C10_valid_50 : forall (r : row) (m : list N) (relaxed : bool) (r' : row), wf m -> Datatypes.length m = 28%nat -> update_from_mode_s r m relaxed = Ok r' -> roll_angle r' <> roll_angle r -> bds50_valid m /\ roll_angle r' = Some (roll_spec (bit_at m 34) (field m 35 43)) /\ track r' = Some (angle_spec (bit_at m 45) (field m 46 55)) /\ grspeed r' = Some (speed2_spec (field m 57 66)) /\ true_airspeed r' = Some (speed2_spec (field m 79 88)) /\ track_angle_rate r' = Some (tar_spec (bit_at m 68) (field m 69 77)).
Print Assumptions C10_valid_50.

(** if the Mach number changes then the MB field is a valid BDS 6,0 register and heading, IAS, Mach and vertical rate are the Doc 9871 decodings *)
Theorem C10_valid_60 : forall (r : row) (m : list N) (relaxed : bool) (r' : row), wf m -> Datatypes.length m = 28%nat -> update_from_mode_s r m relaxed = Ok r' -> mach r' <> mach r -> bds60_valid m /\ r_heading r' = Some (angle_spec (bit_at m 34) (field m 35 44)) /\ indicated_airspeed r' = Some (ias_spec (field m 46 55)) /\ mach r' = Some (mach_spec (field m 57 66)).
Proof. exact valid_60_doc. Qed.
Check C10_valid_60 : forall (r : row) (m : list N) (relaxed : bool) (r' : row), wf m -> Datatypes.length m = 28%nat -> update_from_mode_s r m relaxed = Ok r' -> mach r' <> mach r -> bds60_valid m /\ r_heading r' = Some (angle_spec (bit_at m 34) (field m 35 44)) /\ indicated_airspeed r' = Some (ias_spec (field m 46 55)) /\ mach r' = Some (mach_spec (field m 57 66)).
Print Assumptions C10_valid_60.

(** the BDS 4,0 test returns exactly the Doc 9871 record when the validity predicate holds and nothing otherwise (soundness and completeness) *)
Theorem C10_register_40 : forall m : list N, wf m -> Datatypes.length m = 28%nat -> is_bds_4_0 m = Ok (if bds40_ok m then Some (bds40_doc m) else None).
Proof. exact is_bds_4_0_char. Qed.
Check C10_register_40 : forall m : list N, wf m -> Datatypes.length m = 28%nat -> is_bds_4_0 m = Ok (if bds40_ok m then Some (bds40_doc m) else None).
Print Assumptions C10_register_40.

(** the same for BDS 5,0 *)
Theorem C10_register_50 : forall m : list N, wf m -> Datatypes.length m = 28%nat -> is_bds_5_0 m = Ok (if bds50_ok m then Some (bds50_doc m) else None).
Proof. exact is_bds_5_0_char. Qed.
Check C10_register_50 : forall m : list N, wf m -> Datatypes.length m = 28%nat -> is_bds_5_0 m = Ok (if bds50_ok m then Some (bds50_doc m) else None).
Print Assumptions C10_register_50.

(** the same for BDS 6,0 *)
Theorem C10_register_60 : forall m : list N, wf m -> Datatypes.length m = 28%nat -> is_bds_6_0 m = Ok (if bds60_ok m then Some (bds60_doc m) else None).
Proof. exact is_bds_6_0_char. Qed.
Check C10_register_60 : forall m : list N, wf m -> Datatypes.length m = 28%nat -> is_bds_6_0 m = Ok (if bds60_ok m then Some (bds60_doc m) else None).
Print Assumptions C10_register_60.

(** what 'valid BDS 5,0' means: the five status bits, non-zero fields, |roll| <= 50, GS <= 600, TAS <= 500, |GS - TAS| < 200 *)
Theorem C10_valid_50_meaning : forall m : list N, bds50_ok m = true <-> bds50_valid m.
Proof. exact bds50_ok_iff. Qed.
Check C10_valid_50_meaning : forall m : list N, bds50_ok m = true <-> bds50_valid m.
Print Assumptions C10_valid_50_meaning.

(** what 'valid BDS 6,0' means: the five status bits, non-zero fields, Mach <= 1, |rates| <= 6000 *)
Theorem C10_valid_60_meaning : forall m : list N, bds60_ok m = true <-> bds60_valid m.
Proof. exact bds60_ok_iff. Qed.
Check C10_valid_60_meaning : forall m : list N, bds60_ok m = true <-> bds60_valid m.
Print Assumptions C10_valid_60_meaning.

(** what 'valid BDS 4,0' means: three status bits, non-zero fields, reserved bits zero *)
Theorem C10_valid_40_meaning : forall m : list N, bds40_ok m = true <-> bds40_valid m.
Proof. exact bds40_ok_iff. Qed.
Check C10_valid_40_meaning : forall m : list N, bds40_ok m = true <-> bds40_valid m.
Print Assumptions C10_valid_40_meaning.

(** signed fields are two's complement and integer results are floors: the model's roll arithmetic equals floor((value - 512 sign) * 45 / 256) *)
Theorem C10_roll_is_floor : forall s v : N, s = 0 \/ s = 1 -> (let x := (Z.of_N v * 45 ÷ 256)%Z in if s =? 0 then x else (x - 90)%Z) = roll_spec s v.
Proof. exact roll_model. Qed.
Check C10_roll_is_floor : forall s v : N, s = 0 \/ s = 1 -> (let x := (Z.of_N v * 45 ÷ 256)%Z in if s =? 0 then x else (x - 90)%Z) = roll_spec s v.
Print Assumptions C10_roll_is_floor.

(** completeness spelled out: a valid BDS 5,0 MB field is decoded as that register, for turns in either direction *)
Theorem C10_complete_50 : forall m : list N, wf m -> Datatypes.length m = 28%nat -> bds50_valid m -> is_bds_5_0 m = Ok (Some (bds50_value m)).
Proof. exact is_bds_5_0_complete. Qed.
Check C10_complete_50 : forall m : list N, wf m -> Datatypes.length m = 28%nat -> bds50_valid m -> is_bds_5_0 m = Ok (Some (bds50_value m)).
Print Assumptions C10_complete_50.

(** and a valid BDS 6,0 one, for climbs and descents *)
Theorem C10_complete_60 : forall m : list N, wf m -> Datatypes.length m = 28%nat -> bds60_valid m -> is_bds_6_0 m = Ok (Some (bds60_value m)).
Proof. exact is_bds_6_0_complete. Qed.
Check C10_complete_60 : forall m : list N, wf m -> Datatypes.length m = 28%nat -> bds60_valid m -> is_bds_6_0 m = Ok (Some (bds60_value m)).
Print Assumptions C10_complete_60.

(** non-vacuity: a published BDS 5,0 sample reply decodes to roll 2, track 114, GS 438, TAS 424 *)
Theorem C10_example_50 : bds50_ok sample50 = true /\ bds50_doc sample50 = {| b50_roll := Some 2%Z; b50_track := Some 114; b50_tar := Some 0%Z; b50_gs := Some 438; b50_tas := Some 424 |} /\ is_bds_5_0 sample50 = Ok (Some (bds50_doc sample50)).
Proof. exact sample50_ok. Qed.
Check C10_example_50 : bds50_ok sample50 = true /\ bds50_doc sample50 = {| b50_roll := Some 2%Z; b50_track := Some 114; b50_tar := Some 0%Z; b50_gs := Some 438; b50_tas := Some 424 |} /\ is_bds_5_0 sample50 = Ok (Some (bds50_doc sample50)).
Print Assumptions C10_example_50.


