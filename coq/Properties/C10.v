(** C10 -- Comm-B data are shown only when valid, advertised and correctly decoded. *)
From SQ Require Import Base Bds Update Footprint Doc9871 BdsProof.
Local Open Scope N_scope.

(** with no -R and a recorded capability of 3 or less a DF20/21 reply changes no Comm-B derived field of the row (27 fields listed) *)
Theorem C10_gate_closed : forall (obs : option (Q * Q)) (now : Z) (r : row) (m : list N) (df : N) (relaxed : bool) (r' : row), plane_update obs now r m df relaxed = Ok r' -> relaxed = false -> cap_ca r <= 3 -> df = 20 \/ df = 21 -> r_ais r' = r_ais r /\ threat r' = threat r /\ cap r' = cap r /\ selected_altitude r' = selected_altitude r /\ target_alt_source r' = target_alt_source r /\ baro_setting r' = baro_setting r /\ roll_angle r' = roll_angle r /\ track r' = track r /\ track_angle_rate r' = track_angle_rate r /\ grspeed r' = grspeed r /\ true_airspeed r' = true_airspeed r /\ bds50_t r' = bds50_t r /\ track_source r' = track_source r /\ track_t r' = track_t r /\ r_heading r' = r_heading r /\ indicated_airspeed r' = indicated_airspeed r /\ mach r' = mach r /\ vrate r' = vrate r /\ vrate_source r' = vrate_source r /\ heading_source r' = heading_source r /\ heading_t r' = heading_t r /\ temperature r' = temperature r /\ wind r' = wind r /\ humidity r' = humidity r /\ turbulence r' = turbulence r /\ pressure r' = pressure r /\ cap_ca r' = cap_ca r.
Proof. exact gate_closed. Qed.
Check C10_gate_closed : forall (obs : option (Q * Q)) (now : Z) (r : row) (m : list N) (df : N) (relaxed : bool) (r' : row), plane_update obs now r m df relaxed = Ok r' -> relaxed = false -> cap_ca r <= 3 -> df = 20 \/ df = 21 -> r_ais r' = r_ais r /\ threat r' = threat r /\ cap r' = cap r /\ selected_altitude r' = selected_altitude r /\ target_alt_source r' = target_alt_source r /\ baro_setting r' = baro_setting r /\ roll_angle r' = roll_angle r /\ track r' = track r /\ track_angle_rate r' = track_angle_rate r /\ grspeed r' = grspeed r /\ true_airspeed r' = true_airspeed r /\ bds50_t r' = bds50_t r /\ track_source r' = track_source r /\ track_t r' = track_t r /\ r_heading r' = r_heading r /\ indicated_airspeed r' = indicated_airspeed r /\ mach r' = mach r /\ vrate r' = vrate r /\ vrate_source r' = vrate_source r /\ heading_source r' = heading_source r /\ heading_t r' = heading_t r /\ temperature r' = temperature r /\ wind r' = wind r /\ humidity r' = humidity r /\ turbulence r' = turbulence r /\ pressure r' = pressure r /\ cap_ca r' = cap_ca r.
Print Assumptions C10_gate_closed.

(** conversely a changed Comm-B field means -R or a recorded capability above 3 *)
Theorem C10_gate_open_needed : forall (obs : option (Q * Q)) (now : Z) (r : row) (m : list N) (df : N) (relaxed : bool) (r' : row) (f : fld), plane_update obs now r m df relaxed = Ok r' -> df = 20 \/ df = 21 -> memf f fp_mode_s = true -> ~ same f r r' -> relaxed = true \/ 3 < cap_ca r.
Proof. exact gate_open_needs. Qed.
Check C10_gate_open_needed : forall (obs : option (Q * Q)) (now : Z) (r : row) (m : list N) (df : N) (relaxed : bool) (r' : row) (f : fld), plane_update obs now r m df relaxed = Ok r' -> df = 20 \/ df = 21 -> memf f fp_mode_s = true -> ~ same f r r' -> relaxed = true \/ 3 < cap_ca r.
Print Assumptions C10_gate_open_needed.

(** without -R, a BDS 4,0 register that BDS 1,7 has not advertised changes none of its fields *)
Theorem C10_advert_40 : forall (r : row) (m : list N) (r' : row), update_from_mode_s r m false = Ok r' -> c40 (cap r) = false -> selected_altitude r' = selected_altitude r /\ baro_setting r' = baro_setting r /\ target_alt_source r' = target_alt_source r.
Proof. exact advert_40_strong. Qed.
Check C10_advert_40 : forall (r : row) (m : list N) (r' : row), update_from_mode_s r m false = Ok r' -> c40 (cap r) = false -> selected_altitude r' = selected_altitude r /\ baro_setting r' = baro_setting r /\ target_alt_source r' = target_alt_source r.
Print Assumptions C10_advert_40.

(** likewise BDS 5,0 (roll, track rate, TAS, and track / ground speed stay) *)
Theorem C10_advert_50 : forall (r : row) (m : list N) (r' : row), update_from_mode_s r m false = Ok r' -> c50 (cap r) = false -> roll_angle r' = roll_angle r /\ track_angle_rate r' = track_angle_rate r /\ true_airspeed r' = true_airspeed r /\ bds50_t r' = bds50_t r /\ track r' = track r /\ grspeed r' = grspeed r /\ track_source r' = track_source r /\ track_t r' = track_t r.
Proof. exact advert_50_strong. Qed.
Check C10_advert_50 : forall (r : row) (m : list N) (r' : row), update_from_mode_s r m false = Ok r' -> c50 (cap r) = false -> roll_angle r' = roll_angle r /\ track_angle_rate r' = track_angle_rate r /\ true_airspeed r' = true_airspeed r /\ bds50_t r' = bds50_t r /\ track r' = track r /\ grspeed r' = grspeed r /\ track_source r' = track_source r /\ track_t r' = track_t r.
Print Assumptions C10_advert_50.

(** likewise BDS 6,0 (heading, IAS, Mach, vertical rate stay) *)
Theorem C10_advert_60 : forall (r : row) (m : list N) (r' : row), update_from_mode_s r m false = Ok r' -> c60 (cap r) = false -> r_heading r' = r_heading r /\ indicated_airspeed r' = indicated_airspeed r /\ mach r' = mach r /\ vrate r' = vrate r /\ vrate_source r' = vrate_source r /\ heading_source r' = heading_source r /\ heading_t r' = heading_t r.
Proof. exact advert_60_strong. Qed.
Check C10_advert_60 : forall (r : row) (m : list N) (r' : row), update_from_mode_s r m false = Ok r' -> c60 (cap r) = false -> r_heading r' = r_heading r /\ indicated_airspeed r' = indicated_airspeed r /\ mach r' = mach r /\ vrate r' = vrate r /\ vrate_source r' = vrate_source r /\ heading_source r' = heading_source r /\ heading_t r' = heading_t r.
Print Assumptions C10_advert_60.

(** the register inference is first-match in the fixed precedence 1,7 > 4,0 > 5,0 > 6,0 > 4,4 > 4,5: exactly one outcome happens, later registers only if the earlier tests failed or were not advertised *)
Theorem C10_first_match : forall (r : row) (m : list N) (relaxed : bool) (r' : row), update_from_mode_s r m relaxed = Ok r' -> mode_s_outcome r m relaxed r'.
Proof. exact update_from_mode_s_outcome. Qed.
Check C10_first_match : forall (r : row) (m : list N) (relaxed : bool) (r' : row), update_from_mode_s r m relaxed = Ok r' -> mode_s_outcome r m relaxed r'.
Print Assumptions C10_first_match.

(** if the selected altitude changes then the MB field is a valid BDS 4,0 register (status bits 33,46,59 set, value fields non-zero, reserved bits 72-79 and 84-85 zero) and the new values are the Doc 9871 decodings *)
Theorem C10_valid_40 : forall (r : row) (m : list N) (relaxed : bool) (r' : row), wf m -> Datatypes.length m = 28%nat -> update_from_mode_s r m relaxed = Ok r' -> selected_altitude r' <> selected_altitude r -> bds40_valid m /\ selected_altitude r' = Some (sel_alt_spec (field m 34 45)) /\ baro_setting r' = Some (baro_spec (field m 60 71)).
Proof. exact valid_40_doc. Qed.
Check C10_valid_40 : forall (r : row) (m : list N) (relaxed : bool) (r' : row), wf m -> Datatypes.length m = 28%nat -> update_from_mode_s r m relaxed = Ok r' -> selected_altitude r' <> selected_altitude r -> bds40_valid m /\ selected_altitude r' = Some (sel_alt_spec (field m 34 45)) /\ baro_setting r' = Some (baro_spec (field m 60 71)).
Print Assumptions C10_valid_40.

(** if the roll angle changes then the MB field is a valid BDS 5,0 register (all five status bits set, fields non-zero, plausible) and roll, track, ground speed, track rate and TAS are the Doc 9871 decodings *)
Theorem C10_valid_50 : forall (r : row) (m : list N) (relaxed : bool) (r' : row), wf m -> Datatypes.length m = 28%nat -> update_from_mode_s r m relaxed = Ok r' -> roll_angle r' <> roll_angle r -> bds50_valid m /\ roll_angle r' = Some (roll_spec (bit_at m 34) (field m 35 43)) /\ track r' = Some (angle_spec (bit_at m 45) (field m 46 55)) /\ grspeed r' = Some (speed2_spec (field m 57 66)) /\ true_airspeed r' = Some (speed2_spec (field m 79 88)) /\ track_angle_rate r' = Some (tar_spec (bit_at m 68) (field m 69 77)).
Proof. exact valid_50_doc. Qed.
Check C10_valid_50 : forall (r : row) (m : list N) (relaxed : bool) (r' : row), wf m -> Datatypes.length m = 28%nat -> update_from_mode_s r m relaxed = Ok r' -> roll_angle r' <> roll_angle r -> bds50_valid m /\ roll_angle r' = Some (roll_spec (bit_at m 34) (field m 35 43)) /\ track r' = Some (angle_spec (bit_at m 45) (field m 46 55)) /\ grspeed r' = Some (speed2_spec (field m 57 66)) /\ true_airspeed r' = Some (speed2_spec (field m 79 88)) /\ track_angle_rate r' = Some (tar_spec (bit_at m 68) (field m 69 77)).
Print Assumptions C10_valid_50.

(** if the Mach number changes then the MB field is a valid BDS 6,0 register and heading, IAS, Mach and vertical rate are the Doc 9871 decodings *)
Theorem C10_valid_60 : forall (r : row) (m : list N) (relaxed : bool) (r' : row), wf m -> Datatypes.length m = 28%nat -> update_from_mode_s r m relaxed = Ok r' -> mach r' <> mach r -> bds60_valid m /\ r_heading r' = Some (angle_spec (bit_at m 34) (field m 35 44)) /\ indicated_airspeed r' = Some (ias_spec (field m 46 55)) /\ mach r' = Some (mach_spec (field m 57 66)).
Proof. exact valid_60_doc. Qed.
Check C10_valid_60 : forall (r : row) (m : list N) (relaxed : bool) (r' : row), wf m -> Datatypes.length m = 28%nat -> update_from_mode_s r m relaxed = Ok r' -> mach r' <> mach r -> bds60_valid m /\ r_heading r' = Some (angle_spec (bit_at m 34) (field m 35 44)) /\ indicated_airspeed r' = Some (ias_spec (field m 46 55)) /\ mach r' = Some (mach_spec (field m 57 66)).
Print Assumptions C10_valid_60.

(** the BDS 4,0 test returns exactly the Doc 9871 record when the validity predicate holds and nothing otherwise (soundness and completeness) *)
Theorem C10_register_40 : forall m : list N, wf m -> Datatypes.length m = 28%nat -> is_bds_4_0 m = Ok (if bds40_ok m then Some (bds40_doc m) else None).
Proof. exact is_bds_4_0_char. Qed.
Check C10_register_40 : forall m : list N, wf m -> Datatypes.length m = 28%nat -> is_bds_4_0 m = Ok (if bds40_ok m then Some (bds40_doc m) else None).
Print Assumptions C10_register_40.

(** the same for BDS 5,0 *)
Theorem C10_register_50 : forall m : list N, wf m -> Datatypes.length m = 28%nat -> is_bds_5_0 m = Ok (if bds50_ok m then Some (bds50_doc m) else None).
Proof. exact is_bds_5_0_char. Qed.
Check C10_register_50 : forall m : list N, wf m -> Datatypes.length m = 28%nat -> is_bds_5_0 m = Ok (if bds50_ok m then Some (bds50_doc m) else None).
Print Assumptions C10_register_50.

(** the same for BDS 6,0 *)
Theorem C10_register_60 : forall m : list N, wf m -> Datatypes.length m = 28%nat -> is_bds_6_0 m = Ok (if bds60_ok m then Some (bds60_doc m) else None).
Proof. exact is_bds_6_0_char. Qed.
Check C10_register_60 : forall m : list N, wf m -> Datatypes.length m = 28%nat -> is_bds_6_0 m = Ok (if bds60_ok m then Some (bds60_doc m) else None).
Print Assumptions C10_register_60.

(** what 'valid BDS 5,0' means: the five status bits, non-zero fields, |roll| <= 50, GS <= 600, TAS <= 500, |GS - TAS| < 200 *)
Theorem C10_valid_50_meaning : forall m : list N, bds50_ok m = true <-> bds50_valid m.
Proof. exact bds50_ok_iff. Qed.
Check C10_valid_50_meaning : forall m : list N, bds50_ok m = true <-> bds50_valid m.
Print Assumptions C10_valid_50_meaning.

(** what 'valid BDS 6,0' means: the five status bits, non-zero fields, Mach <= 1, |rates| <= 6000 *)
Theorem C10_valid_60_meaning : forall m : list N, bds60_ok m = true <-> bds60_valid m.
Proof. exact bds60_ok_iff. Qed.
Check C10_valid_60_meaning : forall m : list N, bds60_ok m = true <-> bds60_valid m.
Print Assumptions C10_valid_60_meaning.

(** what 'valid BDS 4,0' means: three status bits, non-zero fields, reserved bits zero *)
Theorem C10_valid_40_meaning : forall m : list N, bds40_ok m = true <-> bds40_valid m.
Proof. exact bds40_ok_iff. Qed.
Check C10_valid_40_meaning : forall m : list N, bds40_ok m = true <-> bds40_valid m.
Print Assumptions C10_valid_40_meaning.

(** signed fields are two's complement and integer results are floors: the model's roll arithmetic equals floor((value - 512 sign) * 45 / 256) *)
Theorem C10_roll_is_floor : forall s v : N, s = 0 \/ s = 1 -> (let x := (Z.of_N v * 45 ÷ 256)%Z in if s =? 0 then x else (x - 90)%Z) = roll_spec s v.
Proof. exact roll_model. Qed.
Check C10_roll_is_floor : forall s v : N, s = 0 \/ s = 1 -> (let x := (Z.of_N v * 45 ÷ 256)%Z in if s =? 0 then x else (x - 90)%Z) = roll_spec s v.
Print Assumptions C10_roll_is_floor.

(** completeness spelled out: a valid BDS 5,0 MB field is decoded as that register, for turns in either direction *)
Theorem C10_complete_50 : forall m : list N, wf m -> Datatypes.length m = 28%nat -> bds50_valid m -> is_bds_5_0 m = Ok (Some (bds50_value m)).
Proof. exact is_bds_5_0_complete. Qed.
Check C10_complete_50 : forall m : list N, wf m -> Datatypes.length m = 28%nat -> bds50_valid m -> is_bds_5_0 m = Ok (Some (bds50_value m)).
Print Assumptions C10_complete_50.

(** and a valid BDS 6,0 one, for climbs and descents *)
Theorem C10_complete_60 : forall m : list N, wf m -> Datatypes.length m = 28%nat -> bds60_valid m -> is_bds_6_0 m = Ok (Some (bds60_value m)).
Proof. exact is_bds_6_0_complete. Qed.
Check C10_complete_60 : forall m : list N, wf m -> Datatypes.length m = 28%nat -> bds60_valid m -> is_bds_6_0 m = Ok (Some (bds60_value m)).
Print Assumptions C10_complete_60.

(** non-vacuity: a published BDS 5,0 sample reply decodes to roll 2, track 114, GS 438, TAS 424 *)
Theorem C10_example_50 : bds50_ok sample50 = true /\ bds50_doc sample50 = {| b50_roll := Some 2%Z; b50_track := Some 114; b50_tar := Some 0%Z; b50_gs := Some 438; b50_tas := Some 424 |} /\ is_bds_5_0 sample50 = Ok (Some (bds50_doc sample50)).
Proof. exact sample50_ok. Qed.
Check C10_example_50 : bds50_ok sample50 = true /\ bds50_doc sample50 = {| b50_roll := Some 2%Z; b50_track := Some 114; b50_tar := Some 0%Z; b50_gs := Some 438; b50_tas := Some 424 |} /\ is_bds_5_0 sample50 = Ok (Some (bds50_doc sample50)).
Print Assumptions C10_example_50.



(** ---- the stages of the Comm-B decoder, with exact results ---- *)
From SQ Require Import Base Update Footprint BdsProof CommBStages.


(** a reply identified as BDS 2,0 changes the callsign and nothing else *)
Theorem C10_stage_20 : forall (r : row) (m : list N) (relaxed : bool) (r' : row), bds m = Ok (2, 0) -> update_from_mode_s r m relaxed = Ok r' -> exists a : option (list N), ais m = Ok a /\ r' = r <| r_ais := a |>.
Proof. exact commb_20. Qed.
Check C10_stage_20 : forall (r : row) (m : list N) (relaxed : bool) (r' : row), bds m = Ok (2, 0) -> update_from_mode_s r m relaxed = Ok r' -> exists a : option (list N), ais m = Ok a /\ r' = r <| r_ais := a |>.
Print Assumptions C10_stage_20.

(** a reply identified as BDS 3,0 sets the threat marker to the decoded value and nothing else *)
Theorem C10_stage_30 : forall (r : row) (m : list N) (relaxed : bool) (r' : row), bds m = Ok (3, 0) -> update_from_mode_s r m relaxed = Ok r' -> exists t : option N, threat_encounter m = Ok t /\ r' = r <| threat := t |>.
Proof. exact commb_30. Qed.
Check C10_stage_30 : forall (r : row) (m : list N) (relaxed : bool) (r' : row), bds m = Ok (3, 0) -> update_from_mode_s r m relaxed = Ok r' -> exists t : option N, threat_encounter m = Ok t /\ r' = r <| threat := t |>.
Print Assumptions C10_stage_30.

(** ... in particular a report without a threat bit clears the marker *)
Theorem C10_stage_30_clears : forall (r : row) (m : list N) (relaxed : bool) (r' : row), bds m = Ok (3, 0) -> threat_encounter m = Ok None -> update_from_mode_s r m relaxed = Ok r' -> r' = r <| threat := None |>.
Proof. exact commb_30_clears. Qed.
Check C10_stage_30_clears : forall (r : row) (m : list N) (relaxed : bool) (r' : row), bds m = Ok (3, 0) -> threat_encounter m = Ok None -> update_from_mode_s r m relaxed = Ok r' -> r' = r <| threat := None |>.
Print Assumptions C10_stage_30_clears.

(** BDS 1,0 is recognised and changes nothing *)
Theorem C10_stage_10 : forall (r : row) (m : list N) (relaxed : bool) (r' : row), bds m = Ok (1, 0) -> update_from_mode_s r m relaxed = Ok r' -> r' = r.
Proof. exact commb_10. Qed.
Check C10_stage_10 : forall (r : row) (m : list N) (relaxed : bool) (r' : row), bds m = Ok (1, 0) -> update_from_mode_s r m relaxed = Ok r' -> r' = r.
Print Assumptions C10_stage_10.

(** a BDS 1,7 capability report REPLACES the recorded register flags (the latest report counts) and changes nothing else *)
Theorem C10_stage_17_latest : forall (r : row) (m : list N) (relaxed : bool) (r' : row) (c : capability), bds m = Ok (0, 0) -> is_bds_1_7 m = Ok (Some c) -> update_from_mode_s r m relaxed = Ok r' -> r' = r <| cap := c |>.
Proof. exact commb_17_latest. Qed.
Check C10_stage_17_latest : forall (r : row) (m : list N) (relaxed : bool) (r' : row) (c : capability), bds m = Ok (0, 0) -> is_bds_1_7 m = Ok (Some c) -> update_from_mode_s r m relaxed = Ok r' -> r' = r <| cap := c |>.
Print Assumptions C10_stage_17_latest.

(** a reply that no stage recognises (or whose register is gated off) leaves the row as it was *)
Theorem C10_nothing_recognised : forall (r : row) (m : list N) (relaxed : bool) (r' : row), bds m = Ok (0, 0) -> is_bds_1_7 m = Ok None -> relaxed || c40 (cap r) = false \/ is_bds_4_0 m = Ok None -> relaxed || c50 (cap r) = false \/ is_bds_5_0 m = Ok None -> relaxed || c60 (cap r) = false \/ is_bds_6_0 m = Ok None -> is_bds_4_4 m = Ok None -> is_bds_4_5 m = Ok None -> update_from_mode_s r m relaxed = Ok r' -> r' = r.
Proof. exact commb_none. Qed.
Check C10_nothing_recognised : forall (r : row) (m : list N) (relaxed : bool) (r' : row), bds m = Ok (0, 0) -> is_bds_1_7 m = Ok None -> relaxed || c40 (cap r) = false \/ is_bds_4_0 m = Ok None -> relaxed || c50 (cap r) = false \/ is_bds_5_0 m = Ok None -> relaxed || c60 (cap r) = false \/ is_bds_6_0 m = Ok None -> is_bds_4_4 m = Ok None -> is_bds_4_5 m = Ok None -> update_from_mode_s r m relaxed = Ok r' -> r' = r.
Print Assumptions C10_nothing_recognised.

(** an all-zero MB field is recognised by no stage: the row is unchanged *)
Theorem C10_empty_mb : forall m : list N, wf m -> Datatypes.length m = 28%nat -> field m 33 88 = 0 -> forall (r : row) (relaxed : bool), update_from_mode_s r m relaxed = Ok r.
Proof. exact commb_empty. Qed.
Check C10_empty_mb : forall m : list N, wf m -> Datatypes.length m = 28%nat -> field m 33 88 = 0 -> forall (r : row) (relaxed : bool), update_from_mode_s r m relaxed = Ok r.
Print Assumptions C10_empty_mb.

(** temperature, wind, humidity, turbulence and pressure change only through a recognised BDS 4,4 / 4,5 register *)
Theorem C10_weather_only_from_44_45 : forall (r : row) (m : list N) (relaxed : bool) (r' : row), update_from_mode_s r m relaxed = Ok r' -> temperature r' <> temperature r \/ wind r' <> wind r \/ humidity r' <> humidity r \/ turbulence r' <> turbulence r \/ pressure r' <> pressure r -> bds m = Ok (0, 0) /\ ((exists v : meteo, is_bds_4_4 m = Ok (Some v)) \/ (exists t : Q, is_bds_4_5 m = Ok (Some t))).
Proof. exact weather_only_from_44_45. Qed.
Check C10_weather_only_from_44_45 : forall (r : row) (m : list N) (relaxed : bool) (r' : row), update_from_mode_s r m relaxed = Ok r' -> temperature r' <> temperature r \/ wind r' <> wind r \/ humidity r' <> humidity r \/ turbulence r' <> turbulence r \/ pressure r' <> pressure r -> bds m = Ok (0, 0) /\ ((exists v : meteo, is_bds_4_4 m = Ok (Some v)) \/ (exists t : Q, is_bds_4_5 m = Ok (Some t))).
Print Assumptions C10_weather_only_from_44_45.

(** through the pipeline: a DF20/21 BDS 2,0 reply on an existing row with the gate open sets the callsign to its eight characters *)
Theorem C10_callsign_end_to_end : forall (o : Table.opts) (now : Z) (s : Table.state) (line : list N) (s' : Table.state) (rf : bool) (df a : N) (r : row) (m : list N), Table.step_line o now s line = Ok (s', rf, Table.Applied df a) -> df = 20 \/ df = 21 -> Table.lookup (Table.tbl s) a = Some r -> (0 < Table.delete_after o)%Z -> get_message line = Ok (Some m) -> Table.relaxed o = true \/ 3 < cap_ca r -> bds m = Ok (2, 0) -> exists r' : row, Table.lookup (Table.tbl s') a = Some r' /\ r_ais r' = Some (Ia5.ais_spec m).
Proof. exact callsign_commb_end_to_end. Qed.
Check C10_callsign_end_to_end : forall (o : Table.opts) (now : Z) (s : Table.state) (line : list N) (s' : Table.state) (rf : bool) (df a : N) (r : row) (m : list N), Table.step_line o now s line = Ok (s', rf, Table.Applied df a) -> df = 20 \/ df = 21 -> Table.lookup (Table.tbl s) a = Some r -> (0 < Table.delete_after o)%Z -> get_message line = Ok (Some m) -> Table.relaxed o = true \/ 3 < cap_ca r -> bds m = Ok (2, 0) -> exists r' : row, Table.lookup (Table.tbl s') a = Some r' /\ r_ais r' = Some (Ia5.ais_spec m).
Print Assumptions C10_callsign_end_to_end.

(** ... a BDS 3,0 reply sets the threat marker per the two threat bits *)
Theorem C10_threat_end_to_end : forall (o : Table.opts) (now : Z) (s : Table.state) (line : list N) (s' : Table.state) (rf : bool) (df a : N) (r : row) (m : list N), Table.step_line o now s line = Ok (s', rf, Table.Applied df a) -> df = 20 \/ df = 21 -> Table.lookup (Table.tbl s) a = Some r -> (0 < Table.delete_after o)%Z -> get_message line = Ok (Some m) -> Table.relaxed o = true \/ 3 < cap_ca r -> bds m = Ok (3, 0) -> exists r' : row, Table.lookup (Table.tbl s') a = Some r' /\ threat r' = threat_spec m.
Proof. exact threat_commb_end_to_end. Qed.
Check C10_threat_end_to_end : forall (o : Table.opts) (now : Z) (s : Table.state) (line : list N) (s' : Table.state) (rf : bool) (df a : N) (r : row) (m : list N), Table.step_line o now s line = Ok (s', rf, Table.Applied df a) -> df = 20 \/ df = 21 -> Table.lookup (Table.tbl s) a = Some r -> (0 < Table.delete_after o)%Z -> get_message line = Ok (Some m) -> Table.relaxed o = true \/ 3 < cap_ca r -> bds m = Ok (3, 0) -> exists r' : row, Table.lookup (Table.tbl s') a = Some r' /\ threat r' = threat_spec m.
Print Assumptions C10_threat_end_to_end.

(** ... a BDS 1,7 report replaces the recorded register flags *)
Theorem C10_capability_end_to_end : forall (o : Table.opts) (now : Z) (s : Table.state) (line : list N) (s' : Table.state) (rf : bool) (df a : N) (r : row) (m : list N) (c : capability), Table.step_line o now s line = Ok (s', rf, Table.Applied df a) -> df = 20 \/ df = 21 -> Table.lookup (Table.tbl s) a = Some r -> (0 < Table.delete_after o)%Z -> get_message line = Ok (Some m) -> Table.relaxed o = true \/ 3 < cap_ca r -> bds m = Ok (0, 0) -> is_bds_1_7 m = Ok (Some c) -> exists r' : row, Table.lookup (Table.tbl s') a = Some r' /\ cap r' = c.
Proof. exact capability_commb_end_to_end. Qed.
Check C10_capability_end_to_end : forall (o : Table.opts) (now : Z) (s : Table.state) (line : list N) (s' : Table.state) (rf : bool) (df a : N) (r : row) (m : list N) (c : capability), Table.step_line o now s line = Ok (s', rf, Table.Applied df a) -> df = 20 \/ df = 21 -> Table.lookup (Table.tbl s) a = Some r -> (0 < Table.delete_after o)%Z -> get_message line = Ok (Some m) -> Table.relaxed o = true \/ 3 < cap_ca r -> bds m = Ok (0, 0) -> is_bds_1_7 m = Ok (Some c) -> exists r' : row, Table.lookup (Table.tbl s') a = Some r' /\ cap r' = c.
Print Assumptions C10_capability_end_to_end.

(** ... a reply with an empty MB field changes only stamp, format and the altitude / identity of its surveillance part *)
Theorem C10_empty_end_to_end : forall (o : Table.opts) (now : Z) (s : Table.state) (line : list N) (s' : Table.state) (rf : bool) (df a : N) (r : row) (m : list N), Table.step_line o now s line = Ok (s', rf, Table.Applied df a) -> df = 20 \/ df = 21 -> Table.lookup (Table.tbl s) a = Some r -> (0 < Table.delete_after o)%Z -> get_message line = Ok (Some m) -> field m 33 88 = 0 -> exists r' : row, Table.lookup (Table.tbl s') a = Some r' /\ modifies [F_timestamp; F_last_df; F_altitude; F_altitude_source; F_squawk] r r'.
Proof. exact empty_commb_end_to_end. Qed.
Check C10_empty_end_to_end : forall (o : Table.opts) (now : Z) (s : Table.state) (line : list N) (s' : Table.state) (rf : bool) (df a : N) (r : row) (m : list N), Table.step_line o now s line = Ok (s', rf, Table.Applied df a) -> df = 20 \/ df = 21 -> Table.lookup (Table.tbl s) a = Some r -> (0 < Table.delete_after o)%Z -> get_message line = Ok (Some m) -> field m 33 88 = 0 -> exists r' : row, Table.lookup (Table.tbl s') a = Some r' /\ modifies [F_timestamp; F_last_df; F_altitude; F_altitude_source; F_squawk] r r'.
Print Assumptions C10_empty_end_to_end.


