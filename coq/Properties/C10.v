(** C10 -- placeholder until Proofs/BdsProof.v is integrated *)
From SQ Require Import Base Bds.
Theorem C10_abs_diff_sym : forall a b, abs_diff a b = abs_diff b a.
Proof. intros a b. unfold abs_diff. destruct (N.leb_spec a b), (N.leb_spec b a); lia. Qed.
Check C10_abs_diff_sym : forall a b, abs_diff a b = abs_diff b a.
Print Assumptions C10_abs_diff_sym.
