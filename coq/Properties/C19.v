(** C19 -- placeholder until Proofs/OptionsProof.v is integrated *)
From SQ Require Import Base Table.
Theorem C19_quiet_iff_Q : forall o, quiet o = existsb (fun c => N.eqb c 81) (display_info o).
Proof. reflexivity. Qed.
Check C19_quiet_iff_Q : forall o, quiet o = existsb (fun c => N.eqb c 81) (display_info o).
Print Assumptions C19_quiet_iff_Q.
