(** C19 -- presentation options never change what is decoded; -U is decode-neutral. *)
From SQ Require Import Base Table Update OptionsProof.
Local Open Scope N_scope.

(** one step: option records that agree on use_update, relaxed, filter, delete_after and observer produce the same table (and sweep counter) from the same line, whatever -i -o -c -u are *)
Theorem C19_presentation_step : forall (o1 o2 : opts) (now : Z) (s1 s2 : state) (line : list N) (s1' : state) (rf1 : bool) (oc1 : line_outcome), same_core o1 o2 -> tbl s1 = tbl s2 -> cleanup_count (cnt s1) = cleanup_count (cnt s2) -> step_line o1 now s1 line = Ok (s1', rf1, oc1) -> exists (s2' : state) (rf2 : bool), step_line o2 now s2 line = Ok (s2', rf2, oc1) /\ tbl s2' = tbl s1' /\ cleanup_count (cnt s2') = cleanup_count (cnt s1').
Proof. exact presentation_step. Qed.
Check C19_presentation_step : forall (o1 o2 : opts) (now : Z) (s1 s2 : state) (line : list N) (s1' : state) (rf1 : bool) (oc1 : line_outcome), same_core o1 o2 -> tbl s1 = tbl s2 -> cleanup_count (cnt s1) = cleanup_count (cnt s2) -> step_line o1 now s1 line = Ok (s1', rf1, oc1) -> exists (s2' : state) (rf2 : bool), step_line o2 now s2 line = Ok (s2', rf2, oc1) /\ tbl s2' = tbl s1' /\ cleanup_count (cnt s2') = cleanup_count (cnt s1').
Print Assumptions C19_presentation_step.

(** the same for every stream, by induction *)
Theorem C19_presentation_stream : forall (o1 o2 : opts) (now : Z) (ls : list (option (list N))) (s1 s2 s1' : state), same_core o1 o2 -> tbl s1 = tbl s2 -> cleanup_count (cnt s1) = cleanup_count (cnt s2) -> run_lines o1 now s1 ls = Ok s1' -> exists s2' : state, run_lines o2 now s2 ls = Ok s2' /\ tbl s2' = tbl s1' /\ cleanup_count (cnt s2') = cleanup_count (cnt s1').
Proof. exact presentation_run. Qed.
Check C19_presentation_stream : forall (o1 o2 : opts) (now : Z) (ls : list (option (list N))) (s1 s2 s1' : state), same_core o1 o2 -> tbl s1 = tbl s2 -> cleanup_count (cnt s1) = cleanup_count (cnt s2) -> run_lines o1 now s1 ls = Ok s1' -> exists s2' : state, run_lines o2 now s2 ls = Ok s2' /\ tbl s2' = tbl s1' /\ cleanup_count (cnt s2') = cleanup_count (cnt s1').
Print Assumptions C19_presentation_stream.

(** hence the whole reader run computes the same table *)
Theorem C19_presentation : forall (o1 o2 : opts) (now : Z) (t : table) (bs : list N), same_core o1 o2 -> read_lines o1 now t bs = read_lines o2 now t bs.
Proof. exact presentation_read_lines. Qed.
Check C19_presentation : forall (o1 o2 : opts) (now : Z) (t : table) (bs : list N), same_core o1 o2 -> read_lines o1 now t bs = read_lines o2 now t bs.
Print Assumptions C19_presentation.

(** option records differing only in -O give tables with the same aircraft in which every row agrees on every field except the distance *)
Theorem C19_observer_only_distance : forall (o1 o2 : opts) (now : Z) (t : table) (bs : list N) (t1 : table), only_observer o1 o2 -> read_lines o1 now t bs = Ok t1 -> exists t2 : table, read_lines o2 now t bs = Ok t2 /\ tbl_rel t1 t2.
Proof. exact observer_only_distance. Qed.
Check C19_observer_only_distance : forall (o1 o2 : opts) (now : Z) (t : table) (bs : list N) (t1 : table), only_observer o1 o2 -> read_lines o1 now t bs = Ok t1 -> exists t2 : table, read_lines o2 now t bs = Ok t2 /\ tbl_rel t1 t2.
Print Assumptions C19_observer_only_distance.

(** (what the relation means for a row looked up by address) *)
Theorem C19_observer_rows : forall (t1 t2 : table) (a : N) (r1 : row), tbl_rel t1 t2 -> lookup t1 a = Some r1 -> exists r2 : row, lookup t2 a = Some r2 /\ (forall f : Footprint.fld, f <> Footprint.F_dist -> Footprint.same f r1 r2).
Proof. exact tbl_rel_lookup. Qed.
Check C19_observer_rows : forall (t1 t2 : table) (a : N) (r1 : row), tbl_rel t1 t2 -> lookup t1 a = Some r1 -> exists r2 : row, lookup t2 a = Some r2 /\ (forall f : Footprint.fld, f <> Footprint.F_dist -> Footprint.same f r1 r2).
Print Assumptions C19_observer_rows.

(** -U neutrality, one frame on an existing row: for a DF4/5/11/17 frame whose carried value is valid (DF4: a decodable altitude) the squitter path and the downlink path agree on callsign, altitude, squawk, position, distance, ground speed, track, vertical rate, category, surveillance status, the CPR slots, position time and last-contact time, whenever the two rows agreed on them before *)
Theorem C19_U_neutral_frame : forall (obs : option (Q * Q)) (now : Z) (r1 r2 : row) (m : list N) (df : N) (d : downlink) (rel : bool) (r1' : row) (a : N), agree r1 r2 -> get_downlink_format m = Ok (Some df) -> get_icao m df = Ok (Some a) -> df = 4 \/ df = 5 \/ df = 11 \/ df = 17 -> (df = 4 -> exists alt : N, altitude m 4 = Ok (Some alt)) -> df_from_message m = Ok (Some d) -> plane_update obs now r1 m df rel = Ok r1' -> agree r1' (update_from_downlink obs now r2 d).
Proof. exact u_neutral. Qed.
Check C19_U_neutral_frame : forall (obs : option (Q * Q)) (now : Z) (r1 r2 : row) (m : list N) (df : N) (d : downlink) (rel : bool) (r1' : row) (a : N), agree r1 r2 -> get_downlink_format m = Ok (Some df) -> get_icao m df = Ok (Some a) -> df = 4 \/ df = 5 \/ df = 11 \/ df = 17 -> (df = 4 -> exists alt : N, altitude m 4 = Ok (Some alt)) -> df_from_message m = Ok (Some d) -> plane_update obs now r1 m df rel = Ok r1' -> agree r1' (update_from_downlink obs now r2 d).
Print Assumptions C19_U_neutral_frame.

(** lifted to the table update under use_update = true vs false *)
Theorem C19_U_neutral_table : forall (o1 o2 : opts) (now : Z) (t : table) (d : downlink) (m : list N) (df a : N) (r : row) (t1 : table), use_update o1 = true -> use_update o2 = false -> relaxed o1 = relaxed o2 -> observer o1 = observer o2 -> lookup t a = Some r -> get_downlink_format m = Ok (Some df) -> get_icao m df = Ok (Some a) -> df = 4 \/ df = 5 \/ df = 11 \/ df = 17 -> (df = 4 -> exists alt : N, altitude m 4 = Ok (Some alt)) -> df_from_message m = Ok (Some d) -> update_aircraft o1 now t d m df a = Ok t1 -> exists (t2 : table) (ra rb : row), update_aircraft o2 now t d m df a = Ok t2 /\ lookup t1 a = Some ra /\ lookup t2 a = Some rb /\ agree ra rb /\ TableProofs.keys t1 = TableProofs.keys t2.
Proof. exact u_neutral_update_aircraft. Qed.
Check C19_U_neutral_table : forall (o1 o2 : opts) (now : Z) (t : table) (d : downlink) (m : list N) (df a : N) (r : row) (t1 : table), use_update o1 = true -> use_update o2 = false -> relaxed o1 = relaxed o2 -> observer o1 = observer o2 -> lookup t a = Some r -> get_downlink_format m = Ok (Some df) -> get_icao m df = Ok (Some a) -> df = 4 \/ df = 5 \/ df = 11 \/ df = 17 -> (df = 4 -> exists alt : N, altitude m 4 = Ok (Some alt)) -> df_from_message m = Ok (Some d) -> update_aircraft o1 now t d m df a = Ok t1 -> exists (t2 : table) (ra rb : row), update_aircraft o2 now t d m df a = Ok t2 /\ lookup t1 a = Some ra /\ lookup t2 a = Some rb /\ agree ra rb /\ TableProofs.keys t1 = TableProofs.keys t2.
Print Assumptions C19_U_neutral_table.


