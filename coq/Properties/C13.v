(** C13 -- unusable lines affect nothing but themselves. *)
From SQ Require Import Base Table TableProofs TotalPipeline.

(** [effective o l]: the chunk is valid UTF-8 text, is taken as a frame, has a non-zero address and
    passes -f.  Processing any stream from any state gives exactly the state obtained from the
    subsequence of its effective lines -- table AND counters; in particular junk never ends the
    processing early and never changes how another line is treated. *)
Theorem C13_accepted_subsequence : forall o now s ls,
  run_lines o now s ls = run_lines o now s (filter (effective o) ls).
Proof.
  intros o now s ls. destruct (run_lines_total o now s ls) as [s' H].
  rewrite H. symmetry. apply run_lines_filter. exact H.
Qed.
Check C13_accepted_subsequence : forall o now s ls,
  run_lines o now s ls = run_lines o now s (filter (effective o) ls).
Print Assumptions C13_accepted_subsequence.

(** a single ineffective line is the identity on the whole state and prints nothing *)
Theorem C13_junk_is_identity : forall o now s l x,
  step o now s l = Ok x -> effective o l = false -> x = (s, false, Skipped).
Proof. exact step_ineffective. Qed.
Check C13_junk_is_identity : forall o now s l x,
  step o now s l = Ok x -> effective o l = false -> x = (s, false, Skipped).
Print Assumptions C13_junk_is_identity.

(** bytes that are not UTF-8 form an ineffective chunk *)
Theorem C13_not_utf8 : forall o, effective o None = false.
Proof. reflexivity. Qed.
Check C13_not_utf8 : forall o, effective o None = false.
Print Assumptions C13_not_utf8.

Example C13_example :
  text_lines [255; 254; 10; 56; 68; 10] = [None; Some [56; 68]].
Proof. vm_compute. reflexivity. Qed.
