(** C13 -- unusable lines affect nothing but themselves. *)
From SQ Require Import Base Table TableProofs TotalPipeline.

(** [effective o l]: the chunk is valid UTF-8 text, is taken as a frame, has a non-zero address and
    passes -f.  Processing any stream from any state gives exactly the state obtained from the
    subsequence of its effective lines -- table AND counters; in particular junk never ends the
    processing early and never changes how another line is treated. *)
Theorem C13_accepted_subsequence : forall o now s ls,
  run_lines o now s ls = run_lines o now s (filter (effective o) ls).
Proof.
  intros o now s ls. destruct (run_lines_total o now s ls) as [s' H].
  rewrite H. symmetry. apply run_lines_filter. exact H.
Qed.
Check C13_accepted_subsequence : forall o now s ls,
  run_lines o now s ls = run_lines o now s (filter (effective o) ls).
Print Assumptions C13_accepted_subsequence.

(** a single ineffective line is the identity on the whole state and prints nothing *)
Theorem C13_junk_is_identity : forall o now s l x,
  step o now s l = Ok x -> effective o l = false -> x = (s, false, Skipped).
Proof. exact step_ineffective. Qed.
Check C13_junk_is_identity : forall o now s l x,
  step o now s l = Ok x -> effective o l = false -> x = (s, false, Skipped).
Print Assumptions C13_junk_is_identity.

(** bytes that are not UTF-8 form an ineffective chunk *)
Theorem C13_not_utf8 : forall o, effective o None = false.
Proof. reflexivity. Qed.
Check C13_not_utf8 : forall o, effective o None = false.
Print Assumptions C13_not_utf8.

Example C13_example :
  text_lines [255; 254; 10; 56; 68; 10] = [None; Some [56; 68]].
Proof. vm_compute. reflexivity. Qed.

(** ---- at the byte level: junk lines inserted at line boundaries ---- *)
From SQ Require Import Base Table TableProofs JunkBytes.


(** inserting a junk line (any bytes without LF that form an ineffective chunk) plus its LF at ANY line boundary of ANY byte stream leaves the result of read_lines unchanged *)
Theorem C13_junk_line_insertion : forall (o : opts) (now : Z) (t : table) (pre junk post : list N), pre = [] \/ (exists p : list N, pre = p ++ [10]) -> ~ In 10 junk -> effective o (chunk_line junk) = false -> read_lines o now t (pre ++ junk ++ 10 :: post) = read_lines o now t (pre ++ post).
Proof. exact junk_line_insertion. Qed.
Check C13_junk_line_insertion : forall (o : opts) (now : Z) (t : table) (pre junk post : list N), pre = [] \/ (exists p : list N, pre = p ++ [10]) -> ~ In 10 junk -> effective o (chunk_line junk) = false -> read_lines o now t (pre ++ junk ++ 10 :: post) = read_lines o now t (pre ++ post).
Print Assumptions C13_junk_line_insertion.

(** ... the same for table AND counters, from any state *)
Theorem C13_junk_line_insertion_state : forall (o : opts) (now : Z) (s : state) (pre junk post : list N), pre = [] \/ (exists p : list N, pre = p ++ [10]) -> ~ In 10 junk -> effective o (chunk_line junk) = false -> run_lines o now s (text_lines (pre ++ junk ++ 10 :: post)) = run_lines o now s (text_lines (pre ++ post)).
Proof. exact junk_line_insertion_state. Qed.
Check C13_junk_line_insertion_state : forall (o : opts) (now : Z) (s : state) (pre junk post : list N), pre = [] \/ (exists p : list N, pre = p ++ [10]) -> ~ In 10 junk -> effective o (chunk_line junk) = false -> run_lines o now s (text_lines (pre ++ junk ++ 10 :: post)) = run_lines o now s (text_lines (pre ++ post)).
Print Assumptions C13_junk_line_insertion_state.

(** junk without a terminating LF at the end of the stream *)
Theorem C13_junk_tail : forall (o : opts) (now : Z) (t : table) (pre junk : list N), pre = [] \/ (exists p : list N, pre = p ++ [10]) -> ~ In 10 junk -> effective o (chunk_line junk) = false -> read_lines o now t (pre ++ junk) = read_lines o now t pre.
Proof. exact junk_tail. Qed.
Check C13_junk_tail : forall (o : opts) (now : Z) (t : table) (pre junk : list N), pre = [] \/ (exists p : list N, pre = p ++ [10]) -> ~ In 10 junk -> effective o (chunk_line junk) = false -> read_lines o now t (pre ++ junk) = read_lines o now t pre.
Print Assumptions C13_junk_tail.

(** any number of junk lines woven between the lines of a stream: the result is that of the stream without them *)
Theorem C13_junk_lines_weave : forall (o : opts) (now : Z) (t : table) (segs : list (list N * bool)), Forall (fun s : list N * bool => ~ In 10 (fst s) /\ (snd s = true -> effective o (chunk_line (fst s)) = false)) segs -> read_lines o now t (weave segs) = read_lines o now t (weave (filter (fun s : list N * bool => negb (snd s)) segs)).
Proof. exact junk_lines_weave. Qed.
Check C13_junk_lines_weave : forall (o : opts) (now : Z) (t : table) (segs : list (list N * bool)), Forall (fun s : list N * bool => ~ In 10 (fst s) /\ (snd s = true -> effective o (chunk_line (fst s)) = false)) segs -> read_lines o now t (weave segs) = read_lines o now t (weave (filter (fun s : list N * bool => negb (snd s)) segs)).
Print Assumptions C13_junk_lines_weave.

(** ... with an arbitrary unterminated last line *)
Theorem C13_junk_lines_weave_last : forall (o : opts) (now : Z) (t : table) (segs : list (list N * bool)) (last : list N), Forall (fun s : list N * bool => ~ In 10 (fst s) /\ (snd s = true -> effective o (chunk_line (fst s)) = false)) segs -> read_lines o now t (weave segs ++ last) = read_lines o now t (weave (filter (fun s : list N * bool => negb (snd s)) segs) ++ last).
Proof. exact junk_lines_weave_last. Qed.
Check C13_junk_lines_weave_last : forall (o : opts) (now : Z) (t : table) (segs : list (list N * bool)) (last : list N), Forall (fun s : list N * bool => ~ In 10 (fst s) /\ (snd s = true -> effective o (chunk_line (fst s)) = false)) segs -> read_lines o now t (weave segs ++ last) = read_lines o now t (weave (filter (fun s : list N * bool => negb (snd s)) segs) ++ last).
Print Assumptions C13_junk_lines_weave_last.

(** byte-level sufficient conditions for junk: a chunk that is not valid UTF-8 (e.g. bytes 0x80-0xFF, a truncated multi-byte character) *)
Theorem C13_not_utf8_bytes : forall (o : opts) (l : list N), valid_utf8 l = false -> effective o (chunk_line l) = false.
Proof. exact not_utf8_ineffective. Qed.
Check C13_not_utf8_bytes : forall (o : opts) (l : list N), valid_utf8 l = false -> effective o (chunk_line l) = false.
Print Assumptions C13_not_utf8_bytes.

(** any chunk whose number of hex-digit bytes is not 14, 26, 28 or 40 -- whatever else it contains (NUL, CR, multi-byte characters, any length) *)
Theorem C13_wrong_hex_count : forall (o : opts) (l : list N), let n := Datatypes.length (filter hex_byte l) in n <> 14%nat /\ n <> 28%nat /\ n <> 26%nat /\ n <> 40%nat -> effective o (chunk_line l) = false.
Proof. exact hex_count_ineffective. Qed.
Check C13_wrong_hex_count : forall (o : opts) (l : list N), let n := Datatypes.length (filter hex_byte l) in n <> 14%nat /\ n <> 28%nat /\ n <> 26%nat /\ n <> 40%nat -> effective o (chunk_line l) = false.
Print Assumptions C13_wrong_hex_count.

(** the empty line *)
Theorem C13_empty_line : forall o : opts, effective o (chunk_line []) = false.
Proof. exact empty_line_ineffective. Qed.
Check C13_empty_line : forall o : opts, effective o (chunk_line []) = false.
Print Assumptions C13_empty_line.

(** a lone CR *)
Theorem C13_lone_cr : forall o : opts, effective o (chunk_line [13]) = false.
Proof. exact cr_line_ineffective. Qed.
Check C13_lone_cr : forall o : opts, effective o (chunk_line [13]) = false.
Print Assumptions C13_lone_cr.

(** a line without any hex digit *)
Theorem C13_no_hex : forall (o : opts) (l : list N), (forall b : N, In b l -> hex_byte b = false) -> effective o (chunk_line l) = false.
Proof. exact no_hex_ineffective. Qed.
Check C13_no_hex : forall (o : opts) (l : list N), (forall b : N, In b l -> hex_byte b = false) -> effective o (chunk_line l) = false.
Print Assumptions C13_no_hex.

(** an over-long line: more than 40 hex digits (e.g. > 64 KiB of them) *)
Theorem C13_over_long : forall (o : opts) (l : list N), (40 < Datatypes.length (filter hex_byte l))%nat -> effective o (chunk_line l) = false.
Proof. exact too_many_hex_ineffective. Qed.
Check C13_over_long : forall (o : opts) (l : list N), (40 < Datatypes.length (filter hex_byte l))%nat -> effective o (chunk_line l) = false.
Print Assumptions C13_over_long.

(** a truncated frame: fewer than 14 bytes *)
Theorem C13_truncated : forall (o : opts) (l : list N), (Datatypes.length l < 14)%nat -> effective o (chunk_line l) = false.
Proof. exact short_line_ineffective. Qed.
Check C13_truncated : forall (o : opts) (l : list N), (Datatypes.length l < 14)%nat -> effective o (chunk_line l) = false.
Print Assumptions C13_truncated.


