(** C12 -- rows live exactly as long as the aircraft is being heard. *)
From SQ Require Import Base Table Update TableProofs ExpiryProof.
Local Open Scope N_scope.

(** every applied frame of any format, on either update path, leaves its row present with last-contact time = now (age restarts at 0) *)
Theorem C12_refresh : forall o now s line s' rf df a,
  step_line o now s line = Ok (s', rf, Applied df a) -> (0 < delete_after o)%Z ->
  exists r, lookup (tbl s') a = Some r /\ timestamp r = now.
Proof. exact refresh. Qed.
Check C12_refresh : forall o now s line s' rf df a,
  step_line o now s line = Ok (s', rf, Applied df a) -> (0 < delete_after o)%Z ->
  exists r, lookup (tbl s') a = Some r /\ timestamp r = now.
Print Assumptions C12_refresh.

(** the squitter path stamps the row *)
Theorem C12_timestamp_squitter_path : forall obs now r m df relaxed r',
  plane_update obs now r m df relaxed = Ok r' -> timestamp r' = now.
Proof. exact plane_update_timestamp. Qed.
Check C12_timestamp_squitter_path : forall obs now r m df relaxed r',
  plane_update obs now r m df relaxed = Ok r' -> timestamp r' = now.
Print Assumptions C12_timestamp_squitter_path.

(** the downlink (default) path stamps the row too *)
Theorem C12_timestamp_downlink_path : forall obs now r d,
  timestamp (update_from_downlink obs now r d) = now.
Proof. exact update_from_downlink_timestamp. Qed.
Check C12_timestamp_downlink_path : forall obs now r d,
  timestamp (update_from_downlink obs now r d) = now.
Print Assumptions C12_timestamp_downlink_path.

(** a row younger than delete_after whole seconds survives any applied frame of another aircraft (sweep or not) *)
Theorem C12_present : forall o now s line s' rf df a b r,
  step_line o now s line = Ok (s', rf, Applied df a) -> b <> a ->
  lookup (tbl s) b = Some r -> (num_seconds now (timestamp r) < delete_after o)%Z ->
  lookup (tbl s') b = Some r.
Proof. exact present_strong. Qed.
Check C12_present : forall o now s line s' rf df a b r,
  step_line o now s line = Ok (s', rf, Applied df a) -> b <> a ->
  lookup (tbl s) b = Some r -> (num_seconds now (timestamp r) < delete_after o)%Z ->
  lookup (tbl s') b = Some r.
Print Assumptions C12_present.

(** when the sweep runs (counter above 10) every surviving row is younger than delete_after: all stale rows are removed *)
Theorem C12_removed : forall o now s line s' rf df a,
  step_line o now s line = Ok (s', rf, Applied df a) -> 10 < cleanup_count (cnt s) ->
  forall b r, lookup (tbl s') b = Some r -> (num_seconds now (timestamp r) < delete_after o)%Z.
Proof. exact removed_strong. Qed.
Check C12_removed : forall o now s line s' rf df a,
  step_line o now s line = Ok (s', rf, Applied df a) -> 10 < cleanup_count (cnt s) ->
  forall b r, lookup (tbl s') b = Some r -> (num_seconds now (timestamp r) < delete_after o)%Z.
Print Assumptions C12_removed.

(** at a sweep a row of another aircraft stays iff its age is below the limit *)
Theorem C12_sweep_exact : forall o now s line s' rf df a b r,
  step_line o now s line = Ok (s', rf, Applied df a) -> 10 < cleanup_count (cnt s) ->
  NoDup (keys (tbl s)) -> b <> a -> lookup (tbl s) b = Some r ->
  lookup (tbl s') b =
    if (num_seconds now (timestamp r) <? delete_after o)%Z then Some r else None.
Proof. exact sweep_exact. Qed.
Check C12_sweep_exact : forall o now s line s' rf df a b r,
  step_line o now s line = Ok (s', rf, Applied df a) -> 10 < cleanup_count (cnt s) ->
  NoDup (keys (tbl s)) -> b <> a -> lookup (tbl s) b = Some r ->
  lookup (tbl s') b =
    if (num_seconds now (timestamp r) <? delete_after o)%Z then Some r else None.
Print Assumptions C12_sweep_exact.

(** the sweep counter: reset to 1 at a sweep, +1 otherwise *)
Theorem C12_cadence : forall o now s line s' rf df a,
  step_line o now s line = Ok (s', rf, Applied df a) ->
  cleanup_count (cnt s') = (if 10 <? cleanup_count (cnt s) then 1 else cleanup_count (cnt s) + 1).
Proof. exact cadence_applied. Qed.
Check C12_cadence : forall o now s line s' rf df a,
  step_line o now s line = Ok (s', rf, Applied df a) ->
  cleanup_count (cnt s') = (if 10 <? cleanup_count (cnt s) then 1 else cleanup_count (cnt s) + 1).
Print Assumptions C12_cadence.

(** from any reachable counter value a sweep happens within 12 applied frames *)
Theorem C12_sweep_within_12 : forall o now ls s s',
  run_lines o now s ls = Ok s' -> cleanup_count (cnt s) <= 11 -> (12 <= n_applied o ls)%nat ->
  exists pre line post s1 s2 rf df a,
    ls = pre ++ Some line :: post /\
    run_lines o now s pre = Ok s1 /\
    step_line o now s1 line = Ok (s2, rf, Applied df a) /\
    10 < cleanup_count (cnt s1) /\
    (n_applied o pre < 12)%nat /\
    run_lines o now s2 post = Ok s'.
Proof. exact sweep_within_12. Qed.
Check C12_sweep_within_12 : forall o now ls s s',
  run_lines o now s ls = Ok s' -> cleanup_count (cnt s) <= 11 -> (12 <= n_applied o ls)%nat ->
  exists pre line post s1 s2 rf df a,
    ls = pre ++ Some line :: post /\
    run_lines o now s pre = Ok s1 /\
    step_line o now s1 line = Ok (s2, rf, Applied df a) /\
    10 < cleanup_count (cnt s1) /\
    (n_applied o pre < 12)%nat /\
    run_lines o now s2 post = Ok s'.
Print Assumptions C12_sweep_within_12.

(** in a fresh reader run the first sweep is exactly the 12th applied frame *)
Theorem C12_first_sweep_is_12th : forall o now t ls s',
  run_lines o now (mkState t (counters_new now (update_s o))) ls = Ok s' ->
  (12 <= n_applied o ls)%nat ->
  exists pre line post s1 s2 rf df a,
    ls = pre ++ Some line :: post /\
    run_lines o now (mkState t (counters_new now (update_s o))) pre = Ok s1 /\
    step_line o now s1 line = Ok (s2, rf, Applied df a) /\
    10 < cleanup_count (cnt s1) /\
    n_applied o pre = 11%nat /\
    run_lines o now s2 post = Ok s'.
Proof. exact reader_first_sweep. Qed.
Check C12_first_sweep_is_12th : forall o now t ls s',
  run_lines o now (mkState t (counters_new now (update_s o))) ls = Ok s' ->
  (12 <= n_applied o ls)%nat ->
  exists pre line post s1 s2 rf df a,
    ls = pre ++ Some line :: post /\
    run_lines o now (mkState t (counters_new now (update_s o))) pre = Ok s1 /\
    step_line o now s1 line = Ok (s2, rf, Applied df a) /\
    10 < cleanup_count (cnt s1) /\
    n_applied o pre = 11%nat /\
    run_lines o now s2 post = Ok s'.
Print Assumptions C12_first_sweep_is_12th.

(** a frame for an address that is not in the table starts a fresh row that remembers nothing *)
Theorem C12_fresh : forall o now t d m df a t',
  update_aircraft o now t d m df a = Ok t' -> lookup t a = None ->
  lookup t' a = Some (row_from_downlink (observer o) now d a).
Proof. exact fresh. Qed.
Check C12_fresh : forall o now t d m df a t',
  update_aircraft o now t d m df a = Ok t' -> lookup t a = None ->
  lookup t' a = Some (row_from_downlink (observer o) now d a).
Print Assumptions C12_fresh.

(** after a sweep at time T and any continuation in which time does not run backwards, every row was refreshed within delete_after seconds before T or later: the table is bounded by the addresses heard in that window *)
Theorem C12_bound : forall o T s line s1 rf df a post s2 (L : list N),
  step_line o T s line = Ok (s1, rf, Applied df a) -> 10 < cleanup_count (cnt s) ->
  (0 < delete_after o)%Z -> NoDup (keys (tbl s)) ->
  run_timed o s1 post = Ok s2 -> Forall (fun p => (T <= fst p)%Z) post ->
  (forall b r, lookup (tbl s2) b = Some r ->
               (num_seconds T (timestamp r) < delete_after o)%Z -> In b L) ->
  (List.length (tbl s2) <= List.length L)%nat.
Proof. exact survivors_bound. Qed.
Check C12_bound : forall o T s line s1 rf df a post s2 (L : list N),
  step_line o T s line = Ok (s1, rf, Applied df a) -> 10 < cleanup_count (cnt s) ->
  (0 < delete_after o)%Z -> NoDup (keys (tbl s)) ->
  run_timed o s1 post = Ok s2 -> Forall (fun p => (T <= fst p)%Z) post ->
  (forall b r, lookup (tbl s2) b = Some r ->
               (num_seconds T (timestamp r) < delete_after o)%Z -> In b L) ->
  (List.length (tbl s2) <= List.length L)%nat.
Print Assumptions C12_bound.
