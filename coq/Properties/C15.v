(** C15 -- every refresh lists each aircraft once, ordered by the requested key. *)
From Coq Require Import Permutation Sorted.
From SQ Require Import Base Table Sort SortProof.
Local Open Scope N_scope.

(** the printed order is a permutation of the table, for every table, key functions and -o list *)
Theorem C15_permutation : forall dkey ob t, Permutation (print_order dkey ob t) t.
Proof. exact print_order_perm. Qed.
Check C15_permutation : forall dkey ob t, Permutation (print_order dkey ob t) t.
Print Assumptions C15_permutation.

(** each tracked aircraft is listed exactly once *)
Theorem C15_each_once : forall dkey ob t, NoDup (map fst t) ->
  NoDup (map fst (print_order dkey ob t)) /\ forall a, In a (map fst t) <-> In a (map fst (print_order dkey ob t)).
Proof. exact print_order_once. Qed.
Check C15_each_once : forall dkey ob t, NoDup (map fst t) ->
  NoDup (map fst (print_order dkey ob t)) /\ forall a, In a (map fst t) <-> In a (map fst (print_order dkey ob t)).
Print Assumptions C15_each_once.

(** the rows are monotone in the key of the last recognised letter of -o (descending for the
    reversing letters A and D; S, E, V, C are ascending in the negated key) *)
Theorem C15_sorted_by_last_key : forall dkey ob t pre c post key rv,
  List.concat ob = pre ++ c :: post -> sort_action_of dkey c = SortBy key rv ->
  (forall x, In x post -> sort_action_of dkey x = NoSort) ->
  StronglySorted (fun a b => if rv then (key (snd b) <= key (snd a))%Z else (key (snd a) <= key (snd b))%Z)
                 (print_order dkey ob t).
Proof. exact print_order_sorted_last. Qed.
Check C15_sorted_by_last_key : forall dkey ob t pre c post key rv,
  List.concat ob = pre ++ c :: post -> sort_action_of dkey c = SortBy key rv ->
  (forall x, In x post -> sort_action_of dkey x = NoSort) ->
  StronglySorted (fun a b => if rv then (key (snd b) <= key (snd a))%Z else (key (snd a) <= key (snd b))%Z)
                 (print_order dkey ob t).
Print Assumptions C15_sorted_by_last_key.

(** with no recognised key the rows are in strictly ascending address order *)
Theorem C15_default_address_order : forall dkey ob t,
  (forall x, In x (List.concat ob) -> sort_action_of dkey x = NoSort) -> NoDup (map fst t) ->
  StronglySorted (fun a b => fst a < fst b) (print_order dkey ob t).
Proof. exact print_order_default_strict. Qed.
Check C15_default_address_order : forall dkey ob t,
  (forall x, In x (List.concat ob) -> sort_action_of dkey x = NoSort) -> NoDup (map fst t) ->
  StronglySorted (fun a b => fst a < fst b) (print_order dkey ob t).
Print Assumptions C15_default_address_order.

(** ties keep the order of the previous pass (stable sort) *)
Theorem C15_stable : forall (A : Type) (key : A -> Z) (k : Z) (l : list A),
  filter (fun z => (key z =? k)%Z) (stable_sort key l) = filter (fun z => (key z =? k)%Z) l.
Proof. intros A. exact (@stable_sort_filter A). Qed.
Check C15_stable : forall (A : Type) (key : A -> Z) (k : Z) (l : list A),
  filter (fun z => (key z =? k)%Z) (stable_sort key l) = filter (fun z => (key z =? k)%Z) l.
Print Assumptions C15_stable.

Example C15_example : sort_action_of (fun _ => 0%Z) 115 <> NoSort /\ sort_action_of (fun _ => 0%Z) 120 = NoSort.
Proof. split; [discriminate | reflexivity]. Qed.

(** ---- the letter table of -o against the model's sort actions; ties; the frame ---- *)
From SQ Require Import Base Table Sort Display Obs SortLetters.


(** specification-side letter table (s, a/A, v/V, N/S, W/E, d/D, c/C with their keys and directions, written without reference to the model's sort_action_of): with c the last recognised letter, the rows are monotone in that letter's key in that letter's direction *)
Theorem C15_letters_sorted : forall (dkey : row -> Z) (ob : list (list N)) (t : table) (pre : list N) (c : N) (post : list N) (k : row -> Z) (d : direction), List.concat ob = pre ++ c :: post -> letter_spec dkey c = Some (k, d) -> (forall x : N, In x post -> letter_spec dkey x = None) -> Sorted.StronglySorted (monotone_by k d) (print_order dkey ob t).
Proof. exact letters_sorted. Qed.
Check C15_letters_sorted : forall (dkey : row -> Z) (ob : list (list N)) (t : table) (pre : list N) (c : N) (post : list N) (k : row -> Z) (d : direction), List.concat ob = pre ++ c :: post -> letter_spec dkey c = Some (k, d) -> (forall x : N, In x post -> letter_spec dkey x = None) -> Sorted.StronglySorted (monotone_by k d) (print_order dkey ob t).
Print Assumptions C15_letters_sorted.

(** the letters that sort are exactly the thirteen of the table; every other character of -o is ignored *)
Theorem C15_letter_table_complete : forall (dkey : row -> Z) (c : N), letter_spec dkey c = None <-> sort_action_of dkey c = NoSort.
Proof. exact letter_spec_none_iff. Qed.
Check C15_letter_table_complete : forall (dkey : row -> Z) (c : N), letter_spec dkey c = None <-> sort_action_of dkey c = NoSort.
Print Assumptions C15_letter_table_complete.

(** no letter of the table in -o: strictly ascending address order *)
Theorem C15_letters_default : forall (dkey : row -> Z) (ob : list (list N)) (t : list (N * row)), (forall x : N, In x (List.concat ob) -> letter_spec dkey x = None) -> NoDup (map fst t) -> Sorted.StronglySorted (fun a b : N * row => fst a < fst b) (print_order dkey ob t).
Proof. exact letters_default. Qed.
Check C15_letters_default : forall (dkey : row -> Z) (ob : list (list N)) (t : list (N * row)), (forall x : N, In x (List.concat ob) -> letter_spec dkey x = None) -> NoDup (map fst t) -> Sorted.StronglySorted (fun a b : N * row => fst a < fst b) (print_order dkey ob t).
Print Assumptions C15_letters_default.

(** rows that tie on the last key keep the order the earlier letters (and finally the address) gave them (non-reversing letters) *)
Theorem C15_ties_keep_previous_order : forall (dkey : row -> Z) (ob : list (list N)) (t : table) (pre : list N) (c : N) (post : list N) (k : row -> Z) (d : direction) (v : Z), List.concat ob = pre ++ c :: post -> letter_spec dkey c = Some (k, d) -> c <> 65 -> c <> 68 -> (forall x : N, In x post -> letter_spec dkey x = None) -> filter (fun p : N * row => (k (snd p) =? v)%Z) (print_order dkey ob t) = filter (fun p : N * row => (k (snd p) =? v)%Z) (fold_left (apply_sort dkey) pre (stable_sort (fun p : N * row => Z.of_N (fst p)) t)).
Proof. exact ties_keep_previous_order_spec. Qed.
Check C15_ties_keep_previous_order : forall (dkey : row -> Z) (ob : list (list N)) (t : table) (pre : list N) (c : N) (post : list N) (k : row -> Z) (d : direction) (v : Z), List.concat ob = pre ++ c :: post -> letter_spec dkey c = Some (k, d) -> c <> 65 -> c <> 68 -> (forall x : N, In x post -> letter_spec dkey x = None) -> filter (fun p : N * row => (k (snd p) =? v)%Z) (print_order dkey ob t) = filter (fun p : N * row => (k (snd p) =? v)%Z) (fold_left (apply_sort dkey) pre (stable_sort (fun p : N * row => Z.of_N (fst p)) t)).
Print Assumptions C15_ties_keep_previous_order.

(** for A and D (sort ascending, then reverse) tie groups appear in the reverse of the earlier order *)
Theorem C15_ties_reversed_for_A_D : forall (dkey : row -> Z) (ob : list (list N)) (t : table) (pre : list N) (c : N) (post : list N) (k : row -> Z) (d : direction) (v : Z), List.concat ob = pre ++ c :: post -> letter_spec dkey c = Some (k, d) -> c = 65 \/ c = 68 -> (forall x : N, In x post -> letter_spec dkey x = None) -> filter (fun p : N * row => (k (snd p) =? v)%Z) (print_order dkey ob t) = rev (filter (fun p : N * row => (k (snd p) =? v)%Z) (fold_left (apply_sort dkey) pre (stable_sort (fun p : N * row => Z.of_N (fst p)) t))).
Proof. exact ties_reversed_for_A_D_spec. Qed.
Check C15_ties_reversed_for_A_D : forall (dkey : row -> Z) (ob : list (list N)) (t : table) (pre : list N) (c : N) (post : list N) (k : row -> Z) (d : direction) (v : Z), List.concat ob = pre ++ c :: post -> letter_spec dkey c = Some (k, d) -> c = 65 \/ c = 68 -> (forall x : N, In x post -> letter_spec dkey x = None) -> filter (fun p : N * row => (k (snd p) =? v)%Z) (print_order dkey ob t) = rev (filter (fun p : N * row => (k (snd p) =? v)%Z) (fold_left (apply_sort dkey) pre (stable_sort (fun p : N * row => Z.of_N (fst p)) t))).
Print Assumptions C15_ties_reversed_for_A_D.

(** a refresh is: header, separator, one rendered row per element of the print order, separator, optional counter line *)
Theorem C15_frame_rows : forall (o : opts) (now : Z) (dkey : row -> Z) (dcell : row -> bytes) (s : state), render_frame o now dkey dcell s = [header_line o; separator_line o] ++ map (fun p : N * row => render_row o now dcell (snd p)) (print_order dkey (order_by o) (tbl s)) ++ [separator_line o] ++ (if count_df o then [counter_line (cnt s)] else []).
Proof. exact frame_rows. Qed.
Check C15_frame_rows : forall (o : opts) (now : Z) (dkey : row -> Z) (dcell : row -> bytes) (s : state), render_frame o now dkey dcell s = [header_line o; separator_line o] ++ map (fun p : N * row => render_row o now dcell (snd p)) (print_order dkey (order_by o) (tbl s)) ++ [separator_line o] ++ (if count_df o then [counter_line (cnt s)] else []).
Print Assumptions C15_frame_rows.

(** a refresh has exactly one line per tracked aircraft besides the three (four with -c) fixed lines *)
Theorem C15_frame_row_count : forall (o : opts) (now : Z) (dkey : row -> Z) (dcell : row -> bytes) (s : state), Datatypes.length (render_frame o now dkey dcell s) = (3 + Datatypes.length (tbl s) + (if count_df o then 1 else 0))%nat.
Proof. exact frame_row_count. Qed.
Check C15_frame_row_count : forall (o : opts) (now : Z) (dkey : row -> Z) (dcell : row -> bytes) (s : state), Datatypes.length (render_frame o now dkey dcell s) = (3 + Datatypes.length (tbl s) + (if count_df o then 1 else 0))%nat.
Print Assumptions C15_frame_row_count.

(** with one row per address the addresses listed are a duplicate-free permutation of the table's addresses *)
Theorem C15_frame_lists_each_once : forall (o : opts) (dkey : row -> Z) (s : state), NoDup (TableProofs.keys (tbl s)) -> NoDup (map fst (print_order dkey (order_by o) (tbl s))) /\ Permutation.Permutation (map fst (print_order dkey (order_by o) (tbl s))) (TableProofs.keys (tbl s)).
Proof. exact frame_lists_each_once. Qed.
Check C15_frame_lists_each_once : forall (o : opts) (dkey : row -> Z) (s : state), NoDup (TableProofs.keys (tbl s)) -> NoDup (map fst (print_order dkey (order_by o) (tbl s))) /\ Permutation.Permutation (map fst (print_order dkey (order_by o) (tbl s))) (TableProofs.keys (tbl s)).
Print Assumptions C15_frame_lists_each_once.

(** for every state reachable from the empty table by any lines and options *)
Theorem C15_reachable_frame_lists_each_once : forall (o : opts) (now : Z) (ls : list (option (list N))) (s : state) (dkey : row -> Z), run_lines o now {| tbl := []; cnt := counters_new now (update_s o) |} ls = Ok s -> NoDup (map fst (print_order dkey (order_by o) (tbl s))) /\ Permutation.Permutation (map fst (print_order dkey (order_by o) (tbl s))) (TableProofs.keys (tbl s)).
Proof. exact reachable_frame_lists_each_once. Qed.
Check C15_reachable_frame_lists_each_once : forall (o : opts) (now : Z) (ls : list (option (list N))) (s : state) (dkey : row -> Z), run_lines o now {| tbl := []; cnt := counters_new now (update_s o) |} ls = Ok s -> NoDup (map fst (print_order dkey (order_by o) (tbl s))) /\ Permutation.Permutation (map fst (print_order dkey (order_by o) (tbl s))) (TableProofs.keys (tbl s)).
Print Assumptions C15_reachable_frame_lists_each_once.

(** every refresh the CLI model prints while reading any byte stream is the rendering of the state after some prefix of the lines, and lists each aircraft tracked at that moment exactly once *)
Theorem C15_cli_every_refresh_lists_each_once : forall (o : opts) (now : Z) (bs : bytes) (frames : list (list bytes)) (f : list bytes), run_cli o now bs = Ok frames -> In f frames -> exists (pre suf : list (option (list N))) (s : state), text_lines bs = pre ++ suf /\ run_lines o now {| tbl := []; cnt := counters_new now (update_s o) |} pre = Ok s /\ f = render_frame o now (fun _ : row => 0%Z) (fun _ : row => str "?????") s /\ Datatypes.length f = (3 + Datatypes.length (tbl s) + (if count_df o then 1 else 0))%nat /\ NoDup (map fst (print_order (fun _ : row => 0%Z) (order_by o) (tbl s))) /\ Permutation.Permutation (map fst (print_order (fun _ : row => 0%Z) (order_by o) (tbl s))) (TableProofs.keys (tbl s)).
Proof. exact cli_every_refresh_lists_each_once. Qed.
Check C15_cli_every_refresh_lists_each_once : forall (o : opts) (now : Z) (bs : bytes) (frames : list (list bytes)) (f : list bytes), run_cli o now bs = Ok frames -> In f frames -> exists (pre suf : list (option (list N))) (s : state), text_lines bs = pre ++ suf /\ run_lines o now {| tbl := []; cnt := counters_new now (update_s o) |} pre = Ok s /\ f = render_frame o now (fun _ : row => 0%Z) (fun _ : row => str "?????") s /\ Datatypes.length f = (3 + Datatypes.length (tbl s) + (if count_df o then 1 else 0))%nat /\ NoDup (map fst (print_order (fun _ : row => 0%Z) (order_by o) (tbl s))) /\ Permutation.Permutation (map fst (print_order (fun _ : row => 0%Z) (order_by o) (tbl s))) (TableProofs.keys (tbl s)).
Print Assumptions C15_cli_every_refresh_lists_each_once.


