(** C15 -- every refresh lists each aircraft once, ordered by the requested key. *)
From Coq Require Import Permutation Sorted.
From SQ Require Import Base Table Sort SortProof.
Local Open Scope N_scope.

(** the printed order is a permutation of the table, for every table, key functions and -o list *)
Theorem C15_permutation : forall dkey ob t, Permutation (print_order dkey ob t) t.
Proof. exact print_order_perm. Qed.
Check C15_permutation : forall dkey ob t, Permutation (print_order dkey ob t) t.
Print Assumptions C15_permutation.

(** each tracked aircraft is listed exactly once *)
Theorem C15_each_once : forall dkey ob t, NoDup (map fst t) ->
  NoDup (map fst (print_order dkey ob t)) /\ forall a, In a (map fst t) <-> In a (map fst (print_order dkey ob t)).
Proof. exact print_order_once. Qed.
Check C15_each_once : forall dkey ob t, NoDup (map fst t) ->
  NoDup (map fst (print_order dkey ob t)) /\ forall a, In a (map fst t) <-> In a (map fst (print_order dkey ob t)).
Print Assumptions C15_each_once.

(** the rows are monotone in the key of the last recognised letter of -o (descending for the
    reversing letters A and D; S, E, V, C are ascending in the negated key) *)
Theorem C15_sorted_by_last_key : forall dkey ob t pre c post key rv,
  List.concat ob = pre ++ c :: post -> sort_action_of dkey c = SortBy key rv ->
  (forall x, In x post -> sort_action_of dkey x = NoSort) ->
  StronglySorted (fun a b => if rv then (key (snd b) <= key (snd a))%Z else (key (snd a) <= key (snd b))%Z)
                 (print_order dkey ob t).
Proof. exact print_order_sorted_last. Qed.
Check C15_sorted_by_last_key : forall dkey ob t pre c post key rv,
  List.concat ob = pre ++ c :: post -> sort_action_of dkey c = SortBy key rv ->
  (forall x, In x post -> sort_action_of dkey x = NoSort) ->
  StronglySorted (fun a b => if rv then (key (snd b) <= key (snd a))%Z else (key (snd a) <= key (snd b))%Z)
                 (print_order dkey ob t).
Print Assumptions C15_sorted_by_last_key.

(** with no recognised key the rows are in strictly ascending address order *)
Theorem C15_default_address_order : forall dkey ob t,
  (forall x, In x (List.concat ob) -> sort_action_of dkey x = NoSort) -> NoDup (map fst t) ->
  StronglySorted (fun a b => fst a < fst b) (print_order dkey ob t).
Proof. exact print_order_default_strict. Qed.
Check C15_default_address_order : forall dkey ob t,
  (forall x, In x (List.concat ob) -> sort_action_of dkey x = NoSort) -> NoDup (map fst t) ->
  StronglySorted (fun a b => fst a < fst b) (print_order dkey ob t).
Print Assumptions C15_default_address_order.

(** ties keep the order of the previous pass (stable sort) *)
Theorem C15_stable : forall (A : Type) (key : A -> Z) (k : Z) (l : list A),
  filter (fun z => (key z =? k)%Z) (stable_sort key l) = filter (fun z => (key z =? k)%Z) l.
Proof. intros A. exact (@stable_sort_filter A). Qed.
Check C15_stable : forall (A : Type) (key : A -> Z) (k : Z) (l : list A),
  filter (fun z => (key z =? k)%Z) (stable_sort key l) = filter (fun z => (key z =? k)%Z) l.
Print Assumptions C15_stable.

Example C15_example : sort_action_of (fun _ => 0%Z) 115 <> NoSort /\ sort_action_of (fun _ => 0%Z) 120 = NoSort.
Proof. split; [discriminate | reflexivity]. Qed.
