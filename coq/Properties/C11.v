(** C11 -- no cross-talk (first part; the general carrier theorem is added when Proofs/CrossTalk.v is integrated) *)
From SQ Require Import Base Update Footprint RowFacts.
Local Open Scope N_scope.

(** what each update path may modify at all: the footprints, for every frame *)
Theorem C11_footprint_squitter_path : forall obs now r m df relaxed r' tc st,
  (is_ext df = true -> get_message_type m = Ok (tc, st)) ->
  plane_update obs now r m df relaxed = Ok r' -> modifies (fp_update df tc st) r r'.
Proof. exact plane_update_fp. Qed.
Check C11_footprint_squitter_path : forall obs now r m df relaxed r' tc st,
  (is_ext df = true -> get_message_type m = Ok (tc, st)) ->
  plane_update obs now r m df relaxed = Ok r' -> modifies (fp_update df tc st) r r'.
Print Assumptions C11_footprint_squitter_path.

Theorem C11_footprint_downlink_path : forall obs now r d,
  modifies (fp_downlink d) r (update_from_downlink obs now r d).
Proof. exact update_from_downlink_fp. Qed.
Check C11_footprint_downlink_path : forall obs now r d,
  modifies (fp_downlink d) r (update_from_downlink obs now r d).
Print Assumptions C11_footprint_downlink_path.

(** ---- the reader step as a whole: which row and which update function ---- *)
From SQ Require Import Base Table Update TableProofs TotalPipeline EndToEnd.
Local Open Scope N_scope.

(** an applied line for an aircraft already in the table replaces its row by the result of exactly one of the two update functions on the decoded frame, selected by DF < 20 and -U *)
Theorem C11_step_existing_row : forall (o : opts) (now : Z) (s : state) (line : list N) (s' : state) (rf : bool) (df a : N) (r : row), step_line o now s line = Ok (s', rf, Applied df a) -> lookup (tbl s) a = Some r -> (0 < delete_after o)%Z -> exists (m : list N) (d : downlink), get_message line = Ok (Some m) /\ frame_ok m /\ get_downlink_format m = Ok (Some df) /\ get_icao m df = Ok (Some a) /\ df_from_message m = Ok (Some d) /\ (exists r' : row, lookup (tbl s') a = Some r' /\ ((df <? 20) && negb (use_update o) = true /\ r' = update_from_downlink (observer o) now r d \/ (df <? 20) && negb (use_update o) = false /\ plane_update (observer o) now r m df (relaxed o) = Ok r')).
Proof. exact step_line_existing_row. Qed.
Check C11_step_existing_row : forall (o : opts) (now : Z) (s : state) (line : list N) (s' : state) (rf : bool) (df a : N) (r : row), step_line o now s line = Ok (s', rf, Applied df a) -> lookup (tbl s) a = Some r -> (0 < delete_after o)%Z -> exists (m : list N) (d : downlink), get_message line = Ok (Some m) /\ frame_ok m /\ get_downlink_format m = Ok (Some df) /\ get_icao m df = Ok (Some a) /\ df_from_message m = Ok (Some d) /\ (exists r' : row, lookup (tbl s') a = Some r' /\ ((df <? 20) && negb (use_update o) = true /\ r' = update_from_downlink (observer o) now r d \/ (df <? 20) && negb (use_update o) = false /\ plane_update (observer o) now r m df (relaxed o) = Ok r')).
Print Assumptions C11_step_existing_row.

(** an applied line for an unknown aircraft creates the fresh row of that frame *)
Theorem C11_step_new_row : forall (o : opts) (now : Z) (s : state) (line : list N) (s' : state) (rf : bool) (df a : N), step_line o now s line = Ok (s', rf, Applied df a) -> lookup (tbl s) a = None -> (0 < delete_after o)%Z -> exists (m : list N) (d : downlink), get_message line = Ok (Some m) /\ frame_ok m /\ get_downlink_format m = Ok (Some df) /\ get_icao m df = Ok (Some a) /\ df_from_message m = Ok (Some d) /\ lookup (tbl s') a = Some (row_from_downlink (observer o) now d a).
Proof. exact step_line_new_row. Qed.
Check C11_step_new_row : forall (o : opts) (now : Z) (s : state) (line : list N) (s' : state) (rf : bool) (df a : N), step_line o now s line = Ok (s', rf, Applied df a) -> lookup (tbl s) a = None -> (0 < delete_after o)%Z -> exists (m : list N) (d : downlink), get_message line = Ok (Some m) /\ frame_ok m /\ get_downlink_format m = Ok (Some df) /\ get_icao m df = Ok (Some a) /\ df_from_message m = Ok (Some d) /\ lookup (tbl s') a = Some (row_from_downlink (observer o) now d a).
Print Assumptions C11_step_new_row.



(** ---- over ALL histories, generically: the latest carrier frame wins ---- *)
From SQ Require Import Base Table Update TableProofs LatestWins.
Local Open Scope N_scope.

(** for ANY projection of the row and carrier/value functions satisfying the three one-step facts (sets, keeps, born), every trace of reader steps -- any number of reader runs, any times -- shows at each address the value of a reference fold over the same lines *)
Theorem C11_latest_wins_generic : forall (o : opts) (V : Type) (p : row -> V) (carries : list N -> N -> bool) (val : list N -> V) (born : list N -> N -> V) (wild : list N -> N -> bool), (forall (now : Z) (s : state) (line : list N) (s' : state) (rf : bool) (df a : N) (r : row) (m : list N), step_line o now s line = Ok (s', rf, Applied df a) -> lookup (tbl s) a = Some r -> get_message line = Ok (Some m) -> wild m df = false -> carries m df = true -> exists r' : row, lookup (tbl s') a = Some r' /\ p r' = val m) -> (forall (now : Z) (s : state) (line : list N) (s' : state) (rf : bool) (df a : N) (r : row) (m : list N), step_line o now s line = Ok (s', rf, Applied df a) -> lookup (tbl s) a = Some r -> get_message line = Ok (Some m) -> wild m df = false -> carries m df = false -> exists r' : row, lookup (tbl s') a = Some r' /\ p r' = p r) -> (forall (now : Z) (s : state) (line : list N) (s' : state) (rf : bool) (df a : N) (m : list N), step_line o now s line = Ok (s', rf, Applied df a) -> lookup (tbl s) a = None -> get_message line = Ok (Some m) -> wild m df = false -> exists r' : row, lookup (tbl s') a = Some r' /\ p r' = born m df) -> forall (t : table) (h : list event) (t' : table), trace o t h t' -> NoDup (keys t) -> forall a : N, (forall e : event, In e h -> line_test o wild a (fst e) = false) -> option_map p (lookup t' a) = rlookup (ref_run o V carries val born (proj p t) h) a.
Proof. exact latest_wins_trace. Qed.
Check C11_latest_wins_generic : forall (o : opts) (V : Type) (p : row -> V) (carries : list N -> N -> bool) (val : list N -> V) (born : list N -> N -> V) (wild : list N -> N -> bool), (forall (now : Z) (s : state) (line : list N) (s' : state) (rf : bool) (df a : N) (r : row) (m : list N), step_line o now s line = Ok (s', rf, Applied df a) -> lookup (tbl s) a = Some r -> get_message line = Ok (Some m) -> wild m df = false -> carries m df = true -> exists r' : row, lookup (tbl s') a = Some r' /\ p r' = val m) -> (forall (now : Z) (s : state) (line : list N) (s' : state) (rf : bool) (df a : N) (r : row) (m : list N), step_line o now s line = Ok (s', rf, Applied df a) -> lookup (tbl s) a = Some r -> get_message line = Ok (Some m) -> wild m df = false -> carries m df = false -> exists r' : row, lookup (tbl s') a = Some r' /\ p r' = p r) -> (forall (now : Z) (s : state) (line : list N) (s' : state) (rf : bool) (df a : N) (m : list N), step_line o now s line = Ok (s', rf, Applied df a) -> lookup (tbl s) a = None -> get_message line = Ok (Some m) -> wild m df = false -> exists r' : row, lookup (tbl s') a = Some r' /\ p r' = born m df) -> forall (t : table) (h : list event) (t' : table), trace o t h t' -> NoDup (keys t) -> forall a : N, (forall e : event, In e h -> line_test o wild a (fst e) = false) -> option_map p (lookup t' a) = rlookup (ref_run o V carries val born (proj p t) h) a.
Print Assumptions C11_latest_wins_generic.

(** hence the most recent carrier frame of an aircraft determines the parameter, as long as the row is not swept *)
Theorem C11_latest_carrier_wins : forall o : opts, (0 < delete_after o)%Z -> forall (V : Type) (p : row -> V) (carries : list N -> N -> bool) (val : list N -> V) (born : list N -> N -> V) (wild : list N -> N -> bool), (forall (now : Z) (s : state) (line : list N) (s' : state) (rf : bool) (df a : N) (r : row) (m : list N), step_line o now s line = Ok (s', rf, Applied df a) -> lookup (tbl s) a = Some r -> get_message line = Ok (Some m) -> wild m df = false -> carries m df = true -> exists r' : row, lookup (tbl s') a = Some r' /\ p r' = val m) -> (forall (now : Z) (s : state) (line : list N) (s' : state) (rf : bool) (df a : N) (r : row) (m : list N), step_line o now s line = Ok (s', rf, Applied df a) -> lookup (tbl s) a = Some r -> get_message line = Ok (Some m) -> wild m df = false -> carries m df = false -> exists r' : row, lookup (tbl s') a = Some r' /\ p r' = p r) -> (forall (now : Z) (s : state) (line : list N) (s' : state) (rf : bool) (df a : N) (m : list N), step_line o now s line = Ok (s', rf, Applied df a) -> lookup (tbl s) a = None -> get_message line = Ok (Some m) -> wild m df = false -> exists r' : row, lookup (tbl s') a = Some r' /\ p r' = born m df) -> forall (t1 : table) (line ks : list N) (post : list (option (list N) * list N)) (t' : table) (df a : N) (m : list N), NoDup (keys t1) -> trace o t1 ((Some line, ks) :: post) t' -> classify o line = Ok (Applied df a) -> get_message line = Ok (Some m) -> carries m df = true -> wild m df = false -> In a (keys t1) \/ born m df = val m -> (forall e : option (list N) * list N, In e post -> line_test o carries a (fst e) = false /\ line_test o wild a (fst e) = false /\ In a (snd e)) -> exists r : row, lookup t' a = Some r /\ p r = val m.
Proof. exact latest_carrier_wins. Qed.
Check C11_latest_carrier_wins : forall o : opts, (0 < delete_after o)%Z -> forall (V : Type) (p : row -> V) (carries : list N -> N -> bool) (val : list N -> V) (born : list N -> N -> V) (wild : list N -> N -> bool), (forall (now : Z) (s : state) (line : list N) (s' : state) (rf : bool) (df a : N) (r : row) (m : list N), step_line o now s line = Ok (s', rf, Applied df a) -> lookup (tbl s) a = Some r -> get_message line = Ok (Some m) -> wild m df = false -> carries m df = true -> exists r' : row, lookup (tbl s') a = Some r' /\ p r' = val m) -> (forall (now : Z) (s : state) (line : list N) (s' : state) (rf : bool) (df a : N) (r : row) (m : list N), step_line o now s line = Ok (s', rf, Applied df a) -> lookup (tbl s) a = Some r -> get_message line = Ok (Some m) -> wild m df = false -> carries m df = false -> exists r' : row, lookup (tbl s') a = Some r' /\ p r' = p r) -> (forall (now : Z) (s : state) (line : list N) (s' : state) (rf : bool) (df a : N) (m : list N), step_line o now s line = Ok (s', rf, Applied df a) -> lookup (tbl s) a = None -> get_message line = Ok (Some m) -> wild m df = false -> exists r' : row, lookup (tbl s') a = Some r' /\ p r' = born m df) -> forall (t1 : table) (line ks : list N) (post : list (option (list N) * list N)) (t' : table) (df a : N) (m : list N), NoDup (keys t1) -> trace o t1 ((Some line, ks) :: post) t' -> classify o line = Ok (Applied df a) -> get_message line = Ok (Some m) -> carries m df = true -> wild m df = false -> In a (keys t1) \/ born m df = val m -> (forall e : option (list N) * list N, In e post -> line_test o carries a (fst e) = false /\ line_test o wild a (fst e) = false /\ In a (snd e)) -> exists r : row, lookup t' a = Some r /\ p r = val m.
Print Assumptions C11_latest_carrier_wins.

(** instance: the callsign is that of the latest identification squitter (aircraft without DF18/20/21 traffic) *)
Theorem C11_callsign_latest : forall o : opts, (0 < delete_after o)%Z -> forall (now : Z) (s : state) (pre : list (option (list N))) (line : list N) (post : list (option (list N))) (s' : state) (a : N) (m : list N), run_lines o now s (pre ++ Some line :: post) = Ok s' -> classify o line = Ok (Applied 17 a) -> get_message line = Ok (Some m) -> 1 <= field m 33 37 <= 4 -> (forall l : option (list N), In l post -> cs_line o a l = false /\ cs_wild_line o a l = false) -> exists r : row, lookup (tbl s') a = Some r /\ r_ais r = Some (Ia5.ais_spec m).
Proof. exact callsign_is_latest_ident. Qed.
Check C11_callsign_latest : forall o : opts, (0 < delete_after o)%Z -> forall (now : Z) (s : state) (pre : list (option (list N))) (line : list N) (post : list (option (list N))) (s' : state) (a : N) (m : list N), run_lines o now s (pre ++ Some line :: post) = Ok s' -> classify o line = Ok (Applied 17 a) -> get_message line = Ok (Some m) -> 1 <= field m 33 37 <= 4 -> (forall l : option (list N), In l post -> cs_line o a l = false /\ cs_wild_line o a l = false) -> exists r : row, lookup (tbl s') a = Some r /\ r_ais r = Some (Ia5.ais_spec m).
Print Assumptions C11_callsign_latest.

(** every reader run is such a trace *)
Theorem C11_reader_run_is_trace : forall (o : opts) (now : Z) (ls : list (option (list N))) (s s' : state), run_lines o now s ls = Ok s' -> trace o (tbl s) (history o now s ls) (tbl s').
Proof. exact run_lines_trace. Qed.
Check C11_reader_run_is_trace : forall (o : opts) (now : Z) (ls : list (option (list N))) (s s' : state), run_lines o now s ls = Ok s' -> trace o (tbl s) (history o now s ls) (tbl s').
Print Assumptions C11_reader_run_is_trace.



(** ---- the carrier table of the property and no cross-talk against it ---- *)
From SQ Require Import Base Update Footprint Carriers CrossTalk DownlinkIdem.


(** the carrier table written from the property text (Spec/Carriers.v: which DF / type code / subtype may carry which field) coincides with the proved footprint of the squitter path: no clause of the table is looser than the code *)
Theorem C11_carrier_table_exact : forall (f : fld) (df tc st : N), carrier f df tc st = memf f (fp_update df tc st).
Proof. exact carrier_exact. Qed.
Check C11_carrier_table_exact : forall (f : fld) (df tc st : N), carrier f df tc st = memf f (fp_update df tc st).
Print Assumptions C11_carrier_table_exact.

(** squitter path (-U, and every DF20/21): a frame that is not a carrier of field f leaves f unchanged *)
Theorem C11_no_crosstalk_squitter_path : forall (obs : option (Q * Q)) (now : Z) (r : row) (m : list N) (df : N) (relaxed : bool) (r' : row) (f : fld), plane_update obs now r m df relaxed = Ok r' -> (forall tc st : N, (is_ext df = true -> get_message_type m = Ok (tc, st)) -> carrier f df tc st = false) -> same f r r'.
Proof. exact no_crosstalk_squitter_path. Qed.
Check C11_no_crosstalk_squitter_path : forall (obs : option (Q * Q)) (now : Z) (r : row) (m : list N) (df : N) (relaxed : bool) (r' : row) (f : fld), plane_update obs now r m df relaxed = Ok r' -> (forall tc st : N, (is_ext df = true -> get_message_type m = Ok (tc, st)) -> carrier f df tc st = false) -> same f r r'.
Print Assumptions C11_no_crosstalk_squitter_path.

(** ... for the short / non-extended formats, whatever the other bits *)
Theorem C11_no_crosstalk_short : forall (obs : option (Q * Q)) (now : Z) (r : row) (m : list N) (df : N) (relaxed : bool) (r' : row) (f : fld), plane_update obs now r m df relaxed = Ok r' -> is_ext df = false -> carrier f df 0 0 = false -> same f r r'.
Proof. exact no_crosstalk_squitter_short. Qed.
Check C11_no_crosstalk_short : forall (obs : option (Q * Q)) (now : Z) (r : row) (m : list N) (df : N) (relaxed : bool) (r' : row) (f : fld), plane_update obs now r m df relaxed = Ok r' -> is_ext df = false -> carrier f df 0 0 = false -> same f r r'.
Print Assumptions C11_no_crosstalk_short.

(** ... for DF17/18 by type code and subtype *)
Theorem C11_no_crosstalk_ext : forall (obs : option (Q * Q)) (now : Z) (r : row) (m : list N) (df : N) (relaxed : bool) (r' : row) (f : fld) (tc st : N), plane_update obs now r m df relaxed = Ok r' -> get_message_type m = Ok (tc, st) -> carrier f df tc st = false -> same f r r'.
Proof. exact no_crosstalk_squitter_ext. Qed.
Check C11_no_crosstalk_ext : forall (obs : option (Q * Q)) (now : Z) (r : row) (m : list N) (df : N) (relaxed : bool) (r' : row) (f : fld) (tc st : N), plane_update obs now r m df relaxed = Ok r' -> get_message_type m = Ok (tc, st) -> carrier f df tc st = false -> same f r r'.
Print Assumptions C11_no_crosstalk_ext.

(** downlink (default) path: a decoded downlink that is not a carrier of f leaves f unchanged *)
Theorem C11_no_crosstalk_downlink_path : forall (obs : option (Q * Q)) (now : Z) (r : row) (d : downlink) (f : fld), carrier_dl f d = false -> same f r (update_from_downlink obs now r d).
Proof. exact no_crosstalk_downlink_path. Qed.
Check C11_no_crosstalk_downlink_path : forall (obs : option (Q * Q)) (now : Z) (r : row) (d : downlink) (f : fld), carrier_dl f d = false -> same f r (update_from_downlink obs now r d).
Print Assumptions C11_no_crosstalk_downlink_path.

(** downlink path stated on the received frame *)
Theorem C11_no_crosstalk_downlink_message : forall (obs : option (Q * Q)) (now : Z) (r : row) (m : list N) (df : N) (d : downlink) (f : fld), get_downlink_format m = Ok (Some df) -> df_from_message m = Ok (Some d) -> (forall tc st : N, (df = 17 -> get_message_type m = Ok (tc, st)) -> carrier f df tc st = false) -> f <> F_icao -> same f r (update_from_downlink obs now r d).
Proof. exact no_crosstalk_downlink_message. Qed.
Check C11_no_crosstalk_downlink_message : forall (obs : option (Q * Q)) (now : Z) (r : row) (m : list N) (df : N) (d : downlink) (f : fld), get_downlink_format m = Ok (Some df) -> df_from_message m = Ok (Some d) -> (forall tc st : N, (df = 17 -> get_message_type m = Ok (tc, st)) -> carrier f df tc st = false) -> f <> F_icao -> same f r (update_from_downlink obs now r d).
Print Assumptions C11_no_crosstalk_downlink_message.

(** idempotence: applying the same decoded frame again at the same instant changes nothing (default path, all formats and type codes, including position frames) *)
Theorem C11_refeed_idempotent : forall (obs : option (Q * Q)) (now : Z) (r : row) (d : downlink), update_from_downlink obs now (update_from_downlink obs now r d) d = update_from_downlink obs now r d.
Proof. exact downlink_idempotent. Qed.
Check C11_refeed_idempotent : forall (obs : option (Q * Q)) (now : Z) (r : row) (d : downlink), update_from_downlink obs now (update_from_downlink obs now r d) d = update_from_downlink obs now r d.
Print Assumptions C11_refeed_idempotent.



(** ---- creation by Comm-B, capability, stamps -- through the whole pipeline ---- *)
From SQ Require Import Base Table Update EndToEnd EndToEnd2.


(** the frame that creates a row contributes, if it is DF20/21, the address (and format) only: the new row is the blank row of that address *)
Theorem C11_comm_b_new_row : forall (o : opts) (now : Z) (s : state) (line : list N) (s' : state) (rf : bool) (df a : N), step_line o now s line = Ok (s', rf, Applied df a) -> lookup (tbl s) a = None -> (0 < delete_after o)%Z -> df = 20 \/ df = 21 -> lookup (tbl s') a = Some (row_new now <| icao := a |> <| reg := icao_to_country a |> <| last_df := df |>).
Proof. exact comm_b_new_row. Qed.
Check C11_comm_b_new_row : forall (o : opts) (now : Z) (s : state) (line : list N) (s' : state) (rf : bool) (df a : N), step_line o now s line = Ok (s', rf, Applied df a) -> lookup (tbl s) a = None -> (0 < delete_after o)%Z -> df = 20 \/ df = 21 -> lookup (tbl s') a = Some (row_new now <| icao := a |> <| reg := icao_to_country a |> <| last_df := df |>).
Print Assumptions C11_comm_b_new_row.

(** capability: an accepted DF11 sets the recorded capability to its CA field, on both paths *)
Theorem C11_capability_df11 : forall (o : opts) (now : Z) (s : state) (line : list N) (s' : state) (rf : bool) (a : N) (r : row) (m : list N), step_line o now s line = Ok (s', rf, Applied 11 a) -> lookup (tbl s) a = Some r -> (0 < delete_after o)%Z -> get_message line = Ok (Some m) -> exists r' : row, lookup (tbl s') a = Some r' /\ cap_ca r' = field m 6 8.
Proof. exact capability_df11. Qed.
Check C11_capability_df11 : forall (o : opts) (now : Z) (s : state) (line : list N) (s' : state) (rf : bool) (a : N) (r : row) (m : list N), step_line o now s line = Ok (s', rf, Applied 11 a) -> lookup (tbl s) a = Some r -> (0 < delete_after o)%Z -> get_message line = Ok (Some m) -> exists r' : row, lookup (tbl s') a = Some r' /\ cap_ca r' = field m 6 8.
Print Assumptions C11_capability_df11.

(** a DF17 frame sets it under -U and leaves it alone otherwise *)
Theorem C11_capability_df17 : forall (o : opts) (now : Z) (s : state) (line : list N) (s' : state) (rf : bool) (a : N) (r : row) (m : list N), step_line o now s line = Ok (s', rf, Applied 17 a) -> lookup (tbl s) a = Some r -> (0 < delete_after o)%Z -> get_message line = Ok (Some m) -> exists r' : row, lookup (tbl s') a = Some r' /\ cap_ca r' = (if use_update o then field m 6 8 else cap_ca r).
Proof. exact capability_df17. Qed.
Check C11_capability_df17 : forall (o : opts) (now : Z) (s : state) (line : list N) (s' : state) (rf : bool) (a : N) (r : row) (m : list N), step_line o now s line = Ok (s', rf, Applied 17 a) -> lookup (tbl s) a = Some r -> (0 < delete_after o)%Z -> get_message line = Ok (Some m) -> exists r' : row, lookup (tbl s') a = Some r' /\ cap_ca r' = (if use_update o then field m 6 8 else cap_ca r).
Print Assumptions C11_capability_df17.

(** every applied frame refreshes the time stamp; the last-format marker is the frame's format except for DF18/19 on the default path (which leave it) *)
Theorem C11_stamps_existing : forall (o : opts) (now : Z) (s : state) (line : list N) (s' : state) (rf : bool) (df a : N) (r : row), step_line o now s line = Ok (s', rf, Applied df a) -> lookup (tbl s) a = Some r -> (0 < delete_after o)%Z -> exists r' : row, lookup (tbl s') a = Some r' /\ timestamp r' = now /\ last_df r' = (if negb (use_update o) && ((df =? 18) || (df =? 19)) then last_df r else df).
Proof. exact stamps_existing_row. Qed.
Check C11_stamps_existing : forall (o : opts) (now : Z) (s : state) (line : list N) (s' : state) (rf : bool) (df a : N) (r : row), step_line o now s line = Ok (s', rf, Applied df a) -> lookup (tbl s) a = Some r -> (0 < delete_after o)%Z -> exists r' : row, lookup (tbl s') a = Some r' /\ timestamp r' = now /\ last_df r' = (if negb (use_update o) && ((df =? 18) || (df =? 19)) then last_df r else df).
Print Assumptions C11_stamps_existing.

(** ... and for a new row *)
Theorem C11_stamps_new : forall (o : opts) (now : Z) (s : state) (line : list N) (s' : state) (rf : bool) (df a : N), step_line o now s line = Ok (s', rf, Applied df a) -> lookup (tbl s) a = None -> (0 < delete_after o)%Z -> exists r' : row, lookup (tbl s') a = Some r' /\ timestamp r' = now /\ last_df r' = (if dl_keeps_df df then df else 0).
Proof. exact stamps_new_row. Qed.
Check C11_stamps_new : forall (o : opts) (now : Z) (s : state) (line : list N) (s' : state) (rf : bool) (df a : N), step_line o now s line = Ok (s', rf, Applied df a) -> lookup (tbl s) a = None -> (0 < delete_after o)%Z -> exists r' : row, lookup (tbl s') a = Some r' /\ timestamp r' = now /\ last_df r' = (if dl_keeps_df df then df else 0).
Print Assumptions C11_stamps_new.


