(** C11 -- no cross-talk (first part; the general carrier theorem is added when Proofs/CrossTalk.v is integrated) *)
From SQ Require Import Base Update Footprint RowFacts.
Local Open Scope N_scope.

(** what each update path may modify at all: the footprints, for every frame *)
Theorem C11_footprint_squitter_path : forall obs now r m df relaxed r' tc st,
  (is_ext df = true -> get_message_type m = Ok (tc, st)) ->
  plane_update obs now r m df relaxed = Ok r' -> modifies (fp_update df tc st) r r'.
Proof. exact plane_update_fp. Qed.
Check C11_footprint_squitter_path : forall obs now r m df relaxed r' tc st,
  (is_ext df = true -> get_message_type m = Ok (tc, st)) ->
  plane_update obs now r m df relaxed = Ok r' -> modifies (fp_update df tc st) r r'.
Print Assumptions C11_footprint_squitter_path.

Theorem C11_footprint_downlink_path : forall obs now r d,
  modifies (fp_downlink d) r (update_from_downlink obs now r d).
Proof. exact update_from_downlink_fp. Qed.
Check C11_footprint_downlink_path : forall obs now r d,
  modifies (fp_downlink d) r (update_from_downlink obs now r d).
Print Assumptions C11_footprint_downlink_path.

(** ---- the reader step as a whole: which row and which update function ---- *)
From SQ Require Import Base Table Update TableProofs TotalPipeline EndToEnd.
Local Open Scope N_scope.

(** an applied line for an aircraft already in the table replaces its row by the result of exactly one of the two update functions on the decoded frame, selected by DF < 20 and -U *)
Theorem C11_step_existing_row : forall (o : opts) (now : Z) (s : state) (line : list N) (s' : state) (rf : bool) (df a : N) (r : row), step_line o now s line = Ok (s', rf, Applied df a) -> lookup (tbl s) a = Some r -> (0 < delete_after o)%Z -> exists (m : list N) (d : downlink), get_message line = Ok (Some m) /\ frame_ok m /\ get_downlink_format m = Ok (Some df) /\ get_icao m df = Ok (Some a) /\ df_from_message m = Ok (Some d) /\ (exists r' : row, lookup (tbl s') a = Some r' /\ ((df <? 20) && negb (use_update o) = true /\ r' = update_from_downlink (observer o) now r d \/ (df <? 20) && negb (use_update o) = false /\ plane_update (observer o) now r m df (relaxed o) = Ok r')).
Proof. exact step_line_existing_row. Qed.
Check C11_step_existing_row : forall (o : opts) (now : Z) (s : state) (line : list N) (s' : state) (rf : bool) (df a : N) (r : row), step_line o now s line = Ok (s', rf, Applied df a) -> lookup (tbl s) a = Some r -> (0 < delete_after o)%Z -> exists (m : list N) (d : downlink), get_message line = Ok (Some m) /\ frame_ok m /\ get_downlink_format m = Ok (Some df) /\ get_icao m df = Ok (Some a) /\ df_from_message m = Ok (Some d) /\ (exists r' : row, lookup (tbl s') a = Some r' /\ ((df <? 20) && negb (use_update o) = true /\ r' = update_from_downlink (observer o) now r d \/ (df <? 20) && negb (use_update o) = false /\ plane_update (observer o) now r m df (relaxed o) = Ok r')).
Print Assumptions C11_step_existing_row.

(** an applied line for an unknown aircraft creates the fresh row of that frame *)
Theorem C11_step_new_row : forall (o : opts) (now : Z) (s : state) (line : list N) (s' : state) (rf : bool) (df a : N), step_line o now s line = Ok (s', rf, Applied df a) -> lookup (tbl s) a = None -> (0 < delete_after o)%Z -> exists (m : list N) (d : downlink), get_message line = Ok (Some m) /\ frame_ok m /\ get_downlink_format m = Ok (Some df) /\ get_icao m df = Ok (Some a) /\ df_from_message m = Ok (Some d) /\ lookup (tbl s') a = Some (row_from_downlink (observer o) now d a).
Proof. exact step_line_new_row. Qed.
Check C11_step_new_row : forall (o : opts) (now : Z) (s : state) (line : list N) (s' : state) (rf : bool) (df a : N), step_line o now s line = Ok (s', rf, Applied df a) -> lookup (tbl s) a = None -> (0 < delete_after o)%Z -> exists (m : list N) (d : downlink), get_message line = Ok (Some m) /\ frame_ok m /\ get_downlink_format m = Ok (Some df) /\ get_icao m df = Ok (Some a) /\ df_from_message m = Ok (Some d) /\ lookup (tbl s') a = Some (row_from_downlink (observer o) now d a).
Print Assumptions C11_step_new_row.


