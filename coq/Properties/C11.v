(** C11 -- no cross-talk (first part; the general carrier theorem is added when Proofs/CrossTalk.v is integrated) *)
From SQ Require Import Base Update Footprint RowFacts.
Local Open Scope N_scope.

(** what each update path may modify at all: the footprints, for every frame *)
Theorem C11_footprint_squitter_path : forall obs now r m df relaxed r' tc st,
  (is_ext df = true -> get_message_type m = Ok (tc, st)) ->
  plane_update obs now r m df relaxed = Ok r' -> modifies (fp_update df tc st) r r'.
Proof. exact plane_update_fp. Qed.
Check C11_footprint_squitter_path : forall obs now r m df relaxed r' tc st,
  (is_ext df = true -> get_message_type m = Ok (tc, st)) ->
  plane_update obs now r m df relaxed = Ok r' -> modifies (fp_update df tc st) r r'.
Print Assumptions C11_footprint_squitter_path.

Theorem C11_footprint_downlink_path : forall obs now r d,
  modifies (fp_downlink d) r (update_from_downlink obs now r d).
Proof. exact update_from_downlink_fp. Qed.
Check C11_footprint_downlink_path : forall obs now r d,
  modifies (fp_downlink d) r (update_from_downlink obs now r d).
Print Assumptions C11_footprint_downlink_path.
