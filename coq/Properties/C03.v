(** C03 -- every frame is attributed to exactly the address it encodes; rows are isolated.
     *)
From SQ Require Import Base Frame Table TableProofs CrcSpec TotalPipeline FrameProofs.
Local Open Scope N_scope.

(** an applied line creates/keeps the row of its address and can modify that row only: every other
    row present afterwards is exactly what it was (a row may only vanish through the expiry sweep,
    property C12), and no new key other than the frame's address appears *)
Theorem C03_isolation : forall o now s line s' rf df a,
  step_line o now s line = Ok (s', rf, Applied df a) -> NoDup (keys (tbl s)) ->
  (forall b r, b <> a -> lookup (tbl s') b = Some r -> lookup (tbl s) b = Some r) /\
  (forall b, In b (keys (tbl s')) -> b = a \/ In b (keys (tbl s))).
Proof. intros o now s line s' rf df a H ND. apply (step_line_applied _ _ _ _ _ _ _ _ H ND). Qed.
Check C03_isolation : forall o now s line s' rf df a,
  step_line o now s line = Ok (s', rf, Applied df a) -> NoDup (keys (tbl s)) ->
  (forall b r, b <> a -> lookup (tbl s') b = Some r -> lookup (tbl s) b = Some r) /\
  (forall b, In b (keys (tbl s')) -> b = a \/ In b (keys (tbl s))).
Print Assumptions C03_isolation.

(** the table never holds two rows for one address, after any history from an empty table *)
Theorem C03_one_row_per_address : forall o now ls s',
  run_lines o now (mkState [] (counters_new now (update_s o))) ls = Ok s' -> NoDup (keys (tbl s')).
Proof. intros o now ls s' H. eapply run_lines_nodup; [exact H | constructor]. Qed.
Check C03_one_row_per_address : forall o now ls s',
  run_lines o now (mkState [] (counters_new now (update_s o))) ls = Ok s' -> NoDup (keys (tbl s')).
Print Assumptions C03_one_row_per_address.

(** a frame whose address is zero is dropped *)
Theorem C03_zero_address_dropped : forall m df a, get_icao m df = Ok (Some a) -> a <> 0.
Proof.
  unfold get_icao, nonzero, ofilter. intros m df a H.
  destruct (ap_format df).
  - destruct (Nat.ltb _ _); [discriminate|].
    destruct (range_value m _ _) as [[r|]|]; cbn [bind] in H; try discriminate.
    destruct (get_crc m df) as [c|]; cbn [bind] in H; [|discriminate].
    destruct (negb (N.lxor r c =? 0)) eqn:E; inversion H; subst.
    apply negb_true_iff in E. apply N.eqb_neq in E. exact E.
  - destruct (range_value m 9 32) as [[r|]|]; cbn [bind] in H; try discriminate.
    destruct (negb (r =? 0)) eqn:E; inversion H; subst.
    apply negb_true_iff in E. apply N.eqb_neq in E. exact E.
Qed.
Check C03_zero_address_dropped : forall m df a, get_icao m df = Ok (Some a) -> a <> 0.
Print Assumptions C03_zero_address_dropped.

(** address recovery: the AA field (bits 9-32) for DF11/17/18 and every non-AP format, and for
    DF0/4/5/16/20/21 the last 24 bits XOR the CRC-24 (polynomial long division by 0x1FFF409,
    Spec/CrcSpec.v) of all preceding bits -- for ALL payloads and addresses *)
Theorem C03_address : forall m df, frame_ok m -> (df < 16 <-> List.length m = 14%nat) ->
  get_icao m df = Ok (nonzero (Some (addr_spec m df))).
Proof. exact get_icao_spec. Qed.
Check C03_address : forall m df, frame_ok m -> (df < 16 <-> List.length m = 14%nat) ->
  get_icao m df = Ok (nonzero (Some (addr_spec m df))).
Print Assumptions C03_address.

Example C03_example : get_icao [10;0;0;0;1;8;3;8;3;0;0;0;0;0;0;0;0;0;0;0;0;0;7;10;13;10;5;9] 20 = Ok (Some 7453696).
Proof. vm_compute. reflexivity. Qed.

(** ---- over all histories: a row is filed under the address it shows ---- *)
From SQ Require Import Base Table Update ExpiryProof RowIdentity.


(** invariant of the reader step: every row (k, r) of the table has icao r = k, the country of k, k non-zero and below 2^24 *)
Theorem C03_row_identity_step : forall (o : opts) (now : Z) (s : state) (line : list N) (s' : state) (rf : bool) (oc : line_outcome), step_line o now s line = Ok (s', rf, oc) -> row_ident (tbl s) -> row_ident (tbl s').
Proof. exact step_line_row_ident. Qed.
Check C03_row_identity_step : forall (o : opts) (now : Z) (s : state) (line : list N) (s' : state) (rf : bool) (oc : line_outcome), step_line o now s line = Ok (s', rf, oc) -> row_ident (tbl s) -> row_ident (tbl s').
Print Assumptions C03_row_identity_step.

(** ... preserved by any list of lines *)
Theorem C03_row_identity_run : forall (o : opts) (now : Z) (ls : list (option (list N))) (s s' : state), run_lines o now s ls = Ok s' -> row_ident (tbl s) -> row_ident (tbl s').
Proof. exact run_lines_row_ident. Qed.
Check C03_row_identity_run : forall (o : opts) (now : Z) (ls : list (option (list N))) (s s' : state), run_lines o now s ls = Ok s' -> row_ident (tbl s) -> row_ident (tbl s').
Print Assumptions C03_row_identity_run.

(** ... and by any timed history (every line at its own clock value) *)
Theorem C03_row_identity_timed : forall (o : opts) (ls : list (Z * list N)) (s s' : state), run_timed o s ls = Ok s' -> row_ident (tbl s) -> row_ident (tbl s').
Proof. exact run_timed_row_ident. Qed.
Check C03_row_identity_timed : forall (o : opts) (ls : list (Z * list N)) (s s' : state), run_timed o s ls = Ok s' -> row_ident (tbl s) -> row_ident (tbl s').
Print Assumptions C03_row_identity_timed.

(** every row of every table reachable from the empty one shows the address it is filed under: no frame is ever attributed to another address, and the address is a non-zero 24-bit value *)
Theorem C03_row_identity_reachable : forall (o : opts) (now : Z) (bs : list N) (t' : table), read_lines o now [] bs = Ok t' -> forall (k : N) (r : row), lookup t' k = Some r -> icao r = k /\ reg r = icao_to_country k /\ k <> 0 /\ k < 16777216.
Proof. exact reachable_row_ident. Qed.
Check C03_row_identity_reachable : forall (o : opts) (now : Z) (bs : list N) (t' : table), read_lines o now [] bs = Ok t' -> forall (k : N) (r : row), lookup t' k = Some r -> icao r = k /\ reg r = icao_to_country k /\ k <> 0 /\ k < 16777216.
Print Assumptions C03_row_identity_reachable.


