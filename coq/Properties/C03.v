(** C03 -- every frame is attributed to exactly the address it encodes; rows are isolated.
    (address recovery = AA field or AP xor CRC-24: see the CRC theorems below once integrated) *)
From SQ Require Import Base Table TableProofs.
Local Open Scope N_scope.

(** an applied line creates/keeps the row of its address and can modify that row only: every other
    row present afterwards is exactly what it was (a row may only vanish through the expiry sweep,
    property C12), and no new key other than the frame's address appears *)
Theorem C03_isolation : forall o now s line s' rf df a,
  step_line o now s line = Ok (s', rf, Applied df a) -> NoDup (keys (tbl s)) ->
  (forall b r, b <> a -> lookup (tbl s') b = Some r -> lookup (tbl s) b = Some r) /\
  (forall b, In b (keys (tbl s')) -> b = a \/ In b (keys (tbl s))).
Proof. intros o now s line s' rf df a H ND. apply (step_line_applied _ _ _ _ _ _ _ _ H ND). Qed.
Check C03_isolation : forall o now s line s' rf df a,
  step_line o now s line = Ok (s', rf, Applied df a) -> NoDup (keys (tbl s)) ->
  (forall b r, b <> a -> lookup (tbl s') b = Some r -> lookup (tbl s) b = Some r) /\
  (forall b, In b (keys (tbl s')) -> b = a \/ In b (keys (tbl s))).
Print Assumptions C03_isolation.

(** the table never holds two rows for one address, after any history from an empty table *)
Theorem C03_one_row_per_address : forall o now ls s',
  run_lines o now (mkState [] (counters_new now (update_s o))) ls = Ok s' -> NoDup (keys (tbl s')).
Proof. intros o now ls s' H. eapply run_lines_nodup; [exact H | constructor]. Qed.
Check C03_one_row_per_address : forall o now ls s',
  run_lines o now (mkState [] (counters_new now (update_s o))) ls = Ok s' -> NoDup (keys (tbl s')).
Print Assumptions C03_one_row_per_address.

(** a frame whose address is zero is dropped *)
Theorem C03_zero_address_dropped : forall m df a, get_icao m df = Ok (Some a) -> a <> 0.
Proof.
  unfold get_icao, nonzero, ofilter. intros m df a H.
  destruct (ap_format df).
  - destruct (Nat.ltb _ _); [discriminate|].
    destruct (range_value m _ _) as [[r|]|]; cbn [bind] in H; try discriminate.
    destruct (get_crc m df) as [c|]; cbn [bind] in H; [|discriminate].
    destruct (negb (N.lxor r c =? 0)) eqn:E; inversion H; subst.
    apply negb_true_iff in E. apply N.eqb_neq in E. exact E.
  - destruct (range_value m 9 32) as [[r|]|]; cbn [bind] in H; try discriminate.
    destruct (negb (r =? 0)) eqn:E; inversion H; subst.
    apply negb_true_iff in E. apply N.eqb_neq in E. exact E.
Qed.
Check C03_zero_address_dropped : forall m df a, get_icao m df = Ok (Some a) -> a <> 0.
Print Assumptions C03_zero_address_dropped.
