(** C17 -- registration country follows the ICAO address allocation for all 2^24 addresses. *)
From SQ Require Import Base Row Update Annex10 CountryProof.
Local Open Scope N_scope.

(** for every 24-bit address the code shown is the code of the Annex 10 block containing it, and
    "??" outside every block (the prefix table is regenerated from country_icao_mask.rs on each run) *)
Theorem C17_country : forall a, a < 16777216 -> icao_to_country a = country_spec a.
Proof. exact country_correct. Qed.
Check C17_country : forall a, a < 16777216 -> icao_to_country a = country_spec a.
Print Assumptions C17_country.

(** no address belongs to two blocks *)
Theorem C17_blocks_disjoint : forall a b1 b2,
  In b1 annex_blocks -> In b2 annex_blocks -> in_block a b1 -> in_block a b2 -> b1 = b2.
Proof. exact blocks_disjoint. Qed.
Check C17_blocks_disjoint : forall a b1 b2,
  In b1 annex_blocks -> In b2 annex_blocks -> in_block a b1 -> in_block a b2 -> b1 = b2.
Print Assumptions C17_blocks_disjoint.

(** the code is fixed when the row is created and depends on the address only *)
Theorem C17_row : forall obs now d a, reg (row_from_downlink obs now d a) = icao_to_country a.
Proof. exact row_reg. Qed.
Check C17_row : forall obs now d a, reg (row_from_downlink obs now d a) = icao_to_country a.
Print Assumptions C17_row.

Example C17_example :
  country_spec 0xA00000 = "US"%string /\ country_spec 0xAFFFFF = "US"%string /\
  country_spec 0x4CA000 = "IE"%string /\ country_spec 0x4CAFFF = "IE"%string /\
  country_spec 0x3C0000 = "DE"%string /\ country_spec 0x3FFFFF = "DE"%string /\
  country_spec 0xD09000 = "??"%string.
Proof. vm_compute. repeat split. Qed.

(** ---- over all histories: the country shown is the country of the row's address ---- *)
From SQ Require Import Base Table Update RowIdentity CountryProof.


(** in every table reachable from the empty one by any byte stream and option set, the country field of each row is icao_to_country of its key (no update function ever writes it), which by C17_country is the Annex 10 block code *)
Theorem C17_reachable_rows : forall (o : opts) (now : Z) (bs : list N) (t' : table), read_lines o now [] bs = Ok t' -> forall (k : N) (r : row), lookup t' k = Some r -> icao r = k /\ reg r = icao_to_country k /\ k <> 0 /\ k < 16777216.
Proof. exact reachable_row_ident. Qed.
Check C17_reachable_rows : forall (o : opts) (now : Z) (bs : list N) (t' : table), read_lines o now [] bs = Ok t' -> forall (k : N) (r : row), lookup t' k = Some r -> icao r = k /\ reg r = icao_to_country k /\ k <> 0 /\ k < 16777216.
Print Assumptions C17_reachable_rows.


