(** C07 -- callsign and emitter category are decoded character-exactly. *)
From SQ Require Import Base Decode Update Ia5 IdentProof Obs.
Local Open Scope N_scope.

(** for every frame with bits 41-88 the callsign is the eight 6-bit characters of that field, in
    order, through the IA5 subset, all other codes omitted -- and the decoder cannot panic *)
Theorem C07_callsign : forall m, wf m -> (22 <= List.length m)%nat -> ais m = Ok (Some (ais_spec m)).
Proof. exact ais_correct. Qed.
Check C07_callsign : forall m, wf m -> (22 <= List.length m)%nat -> ais m = Ok (Some (ais_spec m)).
Print Assumptions C07_callsign.

(** wake class letter for ALL (type code, category) pairs, over the regenerated table *)
Theorem C07_wake : forall tc ca, get_wake_turbulence_category (tc, ca) = wake_spec tc ca.
Proof. exact wake_correct. Qed.
Check C07_wake : forall tc ca, get_wake_turbulence_category (tc, ca) = wake_spec tc ca.
Print Assumptions C07_wake.

(** an identification squitter (TC 1-4) records callsign, type code and category on the squitter path *)
Theorem C07_update : forall obs r m df r' tc st,
  get_message_type m = Ok (tc, st) -> in_tc 1 4 tc = true ->
  update_from_ext obs r m df = Ok r' ->
  exists a, ais m = Ok a /\ r_ais r' = a /\ category r' = (tc, st).
Proof. exact update_from_ext_ident. Qed.
Check C07_update : forall obs r m df r' tc st,
  get_message_type m = Ok (tc, st) -> in_tc 1 4 tc = true ->
  update_from_ext obs r m df = Ok r' ->
  exists a, ais m = Ok a /\ r_ais r' = a /\ category r' = (tc, st).
Print Assumptions C07_update.

Example C07_example :
  ais_spec [8;13;4;0;6;11;9;0;2;0;1;5;10;6;7;8;13;4;13;2;2;0;10;10;4;11;13;10] = str "EZY85MH".
Proof. vm_compute. reflexivity. Qed.

(** ---- through the whole pipeline ---- *)
From SQ Require Import Base Table Update Ia5 TableProofs TotalPipeline EndToEnd.
Local Open Scope N_scope.

(** an accepted identification squitter (TC 1-4) for an aircraft already in the table sets callsign and category, on both paths *)
Theorem C07_end_to_end : forall (o : opts) (now : Z) (s : state) (line : list N) (s' : state) (rf : bool) (a : N) (r : row) (m : list N), step_line o now s line = Ok (s', rf, Applied 17 a) -> lookup (tbl s) a = Some r -> (0 < delete_after o)%Z -> get_message line = Ok (Some m) -> 1 <= field m 33 37 <= 4 -> exists r' : row, lookup (tbl s') a = Some r' /\ r_ais r' = Some (ais_spec m) /\ category r' = (field m 33 37, field m 38 40).
Proof. exact callsign_end_to_end. Qed.
Check C07_end_to_end : forall (o : opts) (now : Z) (s : state) (line : list N) (s' : state) (rf : bool) (a : N) (r : row) (m : list N), step_line o now s line = Ok (s', rf, Applied 17 a) -> lookup (tbl s) a = Some r -> (0 < delete_after o)%Z -> get_message line = Ok (Some m) -> 1 <= field m 33 37 <= 4 -> exists r' : row, lookup (tbl s') a = Some r' /\ r_ais r' = Some (ais_spec m) /\ category r' = (field m 33 37, field m 38 40).
Print Assumptions C07_end_to_end.



(** ---- over ALL histories ---- *)
From SQ Require Import Base Table Update Ia5 TableProofs LatestWins.
Local Open Scope N_scope.

(** the callsign column after any stream equals the reference fold (latest TC 1-4 squitter wins) at every aircraft that received no DF18/20/21 frame *)
Theorem C07_latest_wins : forall o : opts, (0 < delete_after o)%Z -> forall (now : Z) (s : state) (ls : list (option (list N))) (s' : state), run_lines o now s ls = Ok s' -> NoDup (keys (tbl s)) -> forall a : N, (forall l : option (list N), In l ls -> cs_wild_line o a l = false) -> option_map r_ais (lookup (tbl s') a) = rlookup (cs_ref_run o (proj r_ais (tbl s)) (history o now s ls)) a.
Proof. exact callsign_latest_wins. Qed.
Check C07_latest_wins : forall o : opts, (0 < delete_after o)%Z -> forall (now : Z) (s : state) (ls : list (option (list N))) (s' : state), run_lines o now s ls = Ok s' -> NoDup (keys (tbl s)) -> forall a : N, (forall l : option (list N), In l ls -> cs_wild_line o a l = false) -> option_map r_ais (lookup (tbl s') a) = rlookup (cs_ref_run o (proj r_ais (tbl s)) (history o now s ls)) a.
Print Assumptions C07_latest_wins.



(** ---- the frame that creates the row ---- *)
From SQ Require Import Base Table Update EndToEnd EndToEnd2.


(** an identification squitter that creates the row delivers callsign and category *)
Theorem C07_new_row : forall (o : opts) (now : Z) (s : state) (line : list N) (s' : state) (rf : bool) (a : N) (m : list N), step_line o now s line = Ok (s', rf, Applied 17 a) -> lookup (tbl s) a = None -> (0 < delete_after o)%Z -> get_message line = Ok (Some m) -> 1 <= field m 33 37 <= 4 -> exists r' : row, lookup (tbl s') a = Some r' /\ r_ais r' = Some (Ia5.ais_spec m) /\ category r' = (field m 33 37, field m 38 40).
Proof. exact callsign_new_row. Qed.
Check C07_new_row : forall (o : opts) (now : Z) (s : state) (line : list N) (s' : state) (rf : bool) (a : N) (m : list N), step_line o now s line = Ok (s', rf, Applied 17 a) -> lookup (tbl s) a = None -> (0 < delete_after o)%Z -> get_message line = Ok (Some m) -> 1 <= field m 33 37 <= 4 -> exists r' : row, lookup (tbl s') a = Some r' /\ r_ais r' = Some (Ia5.ais_spec m) /\ category r' = (field m 33 37, field m 38 40).
Print Assumptions C07_new_row.


