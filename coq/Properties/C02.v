(** C02 -- a line is a frame iff its hex digits form a 56/112-bit frame of matching DF. *)
From SQ Require Import Base Frame Table TableProofs CrcSpec TotalPipeline FrameProofs.
Local Open Scope N_scope.

(** hex digits are exactly the ASCII characters 0-9, A-F, a-f (either case), with their value *)
Theorem C02_hex_digit : forall b v,
  hexval b = Some v <->
  (48 <= b <= 57 /\ v = b - 48) \/ (65 <= b <= 70 /\ v = b - 55) \/ (97 <= b <= 102 /\ v = b - 87).
Proof. exact hexval_spec. Qed.
Check C02_hex_digit : forall b v,
  hexval b = Some v <->
  (48 <= b <= 57 /\ v = b - 48) \/ (65 <= b <= 70 /\ v = b - 55) \/ (97 <= b <= 102 /\ v = b - 87).
Print Assumptions C02_hex_digit.

(** the payload: 14 or 28 digits, or 26 or 40 digits of which the first 12 are dropped *)
Theorem C02_payload : forall line p,
  payload line = Some p <->
  ((List.length (digits line) = 14%nat \/ List.length (digits line) = 28%nat) /\ p = digits line) \/
  ((List.length (digits line) = 26%nat \/ List.length (digits line) = 40%nat) /\ p = skipn 12 (digits line)).
Proof. exact payload_spec. Qed.
Check C02_payload : forall line p,
  payload line = Some p <->
  ((List.length (digits line) = 14%nat \/ List.length (digits line) = 28%nat) /\ p = digits line) \/
  ((List.length (digits line) = 26%nat \/ List.length (digits line) = 40%nat) /\ p = skipn 12 (digits line)).
Print Assumptions C02_payload.

(** a line is taken as a frame exactly when its payload exists, its length agrees with its DF
    (DF 0-15: 14 digits, DF 16-31: 28 digits; DF < 16 iff first digit < 8) and the parity
    condition of its format holds (C04); it can never panic *)
Theorem C02_iff : forall line p,
  get_message line = Ok (Some p) <-> payload line = Some p /\ frame_ok p /\ parity_ok p.
Proof. exact get_message_iff. Qed.
Check C02_iff : forall line p,
  get_message line = Ok (Some p) <-> payload line = Some p /\ frame_ok p /\ parity_ok p.
Print Assumptions C02_iff.

Theorem C02_df_length : forall m, frame_ok m ->
  exists df, get_downlink_format m = Ok (Some df) /\ df < 32 /\ (df < 16 <-> List.length m = 14%nat).
Proof. exact df_of_frame. Qed.
Check C02_df_length : forall m, frame_ok m ->
  exists df, get_downlink_format m = Ok (Some df) /\ df < 32 /\ (df < 16 <-> List.length m = 14%nat).
Print Assumptions C02_df_length.

(** the whole step depends only on the digit sequence: case, '*', '@', ';', blanks, CR and any
    other non-hex decoration never change it *)
Theorem C02_decoration : forall o now s l l',
  digits l = digits l' -> step_line o now s l = step_line o now s l'.
Proof. exact step_line_digits. Qed.
Check C02_decoration : forall o now s l l',
  digits l = digits l' -> step_line o now s l = step_line o now s l'.
Print Assumptions C02_decoration.

(** a line that is not taken as a frame leaves table and counters untouched and prints nothing *)
Theorem C02_reject_inert : forall o now s line,
  get_message line = Ok None -> step_line o now s line = Ok (s, false, Skipped).
Proof. exact step_line_rejected. Qed.
Check C02_reject_inert : forall o now s line,
  get_message line = Ok None -> step_line o now s line = Ok (s, false, Skipped).
Print Assumptions C02_reject_inert.

Example C02_example :
  get_message (Obs.str "*8D40621D58C382D690C8AC2863A7;") = get_message (Obs.str "8d40621d58c382d690c8ac2863a7")
  /\ get_message (Obs.str "8D40621D58C382") = Ok None.
Proof. split; vm_compute; reflexivity. Qed.
