(** C01 -- no input line or option set can crash or wedge the decoder.
    [Panic] in the model stands for every Rust panic source the model represents: slice index
    out of range, sub-slice out of range, [expect]/[unwrap] on [None], unsigned subtraction
    underflow.  The theorems quantify over ALL byte streams, tables, option records and times. *)
From SQ Require Import Base Table Display TotalPipeline.

(** reading any byte stream into any table never panics (file source: one call per file) *)
Theorem C01_reader_total : forall o now t bs, exists t', read_lines o now t bs = Ok t'.
Proof. exact read_lines_total. Qed.
Check C01_reader_total : forall o now t bs, exists t', read_lines o now t bs = Ok t'.
Print Assumptions C01_reader_total.

(** the same including everything that is printed while reading *)
Theorem C01_cli_total : forall o now bs, exists fr, run_cli o now bs = Ok fr.
Proof. exact run_cli_total. Qed.
Check C01_cli_total : forall o now bs, exists fr, run_cli o now bs = Ok fr.
Print Assumptions C01_cli_total.

(** any list of lines (text or undecodable chunks) is processed to its end from any state *)
Theorem C01_lines_total : forall o now s ls, exists s', run_lines o now s ls = Ok s'.
Proof. exact run_lines_total. Qed.
Check C01_lines_total : forall o now s ls, exists s', run_lines o now s ls = Ok s'.
Print Assumptions C01_lines_total.

(** progress: the lines after any prefix (hostile or not) are processed from the state the
    prefix leaves behind -- there is no early exit *)
Theorem C01_progress : forall o now s l1 l2,
  run_lines o now s (l1 ++ l2) = (s1 <- run_lines o now s l1 ;; run_lines o now s1 l2).
Proof. exact run_lines_app. Qed.
Check C01_progress : forall o now s l1 l2,
  run_lines o now s (l1 ++ l2) = (s1 <- run_lines o now s l1 ;; run_lines o now s1 l2).
Print Assumptions C01_progress.

(** what is handed to the decoders is always a well-formed frame whose length matches its DF *)
Theorem C01_frames_wellformed : forall line,
  exists r, get_message line = Ok r /\ (forall m, r = Some m -> frame_ok m).
Proof. exact get_message_total. Qed.
Check C01_frames_wellformed : forall line,
  exists r, get_message line = Ok r /\ (forall m, r = Some m -> frame_ok m).
Print Assumptions C01_frames_wellformed.

(** non-vacuity and necessity of the length gate: without it a short frame announcing a long
    format does panic in the model (this was defect D1 of the pinned code) *)
Example C01_gate_needed : exists w, srt_from_message [8;0;0;0;0;0;0;0;0;0;0;0;0;0] = Panic w.
Proof. exact short_frame_long_df_panics. Qed.

(** ---- the one accumulator that grows with the input: the -c counters against their declared integer type ---- *)
From SQ Require Import Base Tables Table TableProofs CounterWidth.


(** for every stream of at most df_counter_max lines (df_counter_max is regenerated from the type declared in src/counters.rs) every counter stays within that type: the addition in update_count cannot overflow *)
Theorem C01_counters_cannot_overflow : forall (o : opts) (now : Z) (ls : list (option (list N))) (s s' : state), run_lines o now s ls = Ok s' -> df_count (cnt s) = [] -> (Z.of_nat (Datatypes.length ls) <= df_counter_max)%Z -> forall d : N, (0 <= cnt_get (df_count (cnt s')) d <= df_counter_max)%Z.
Proof. exact counters_fit. Qed.
Check C01_counters_cannot_overflow : forall (o : opts) (now : Z) (ls : list (option (list N))) (s s' : state), run_lines o now s ls = Ok s' -> df_count (cnt s) = [] -> (Z.of_nat (Datatypes.length ls) <= df_counter_max)%Z -> forall d : N, (0 <= cnt_get (df_count (cnt s')) d <= df_counter_max)%Z.
Print Assumptions C01_counters_cannot_overflow.

(** and that bound is at least 2^63-1 lines per reader run (defect D14: it was 2^31-1) *)
Theorem C01_counter_capacity : (2 ^ 63 - 1 <= df_counter_max)%Z.
Proof. exact counter_capacity. Qed.
Check C01_counter_capacity : (2 ^ 63 - 1 <= df_counter_max)%Z.
Print Assumptions C01_counter_capacity.


