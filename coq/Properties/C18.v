(** C18 -- TCP feed interruptions never stop decoding or lose the table (the loop's logic). *)
From SQ Require Import Base Table Display TableProofs TotalPipeline.
Local Open Scope N_scope.

Lemma run_tcp_table_total o now : forall conns t, exists t', run_tcp_table o now t conns = Ok t'.
Proof.
  induction conns as [|bs rest IH]; intros t; cbn [run_tcp_table]; [eexists; reflexivity|].
  destruct (read_lines_total o now t bs) as [t1 E]. rewrite E. cbn [bind]. apply IH.
Qed.

Lemma run_tcp_table_app o now : forall c1 c2 t,
  run_tcp_table o now t (c1 ++ c2) = (t1 <- run_tcp_table o now t c1 ;; run_tcp_table o now t1 c2).
Proof.
  induction c1 as [|bs rest IH]; intros c2 t; cbn [run_tcp_table app bind]; [reflexivity|].
  destruct (read_lines o now t bs) as [t1|]; cbn [bind]; [apply IH | reflexivity].
Qed.

(** whatever the connections deliver -- nothing, junk, a partial line -- the loop never panics and
    always continues with the next connection *)
Theorem C18_never_stops : forall o now conns t, exists t', run_tcp_table o now t conns = Ok t'.
Proof. intros. apply run_tcp_table_total. Qed.
Check C18_never_stops : forall o now conns t, exists t', run_tcp_table o now t conns = Ok t'.
Print Assumptions C18_never_stops.

(** the table after an interruption is the table before it, carried into the next connection: the
    session's result is the fold of the per-connection reads *)
Theorem C18_table_kept : forall o now c1 c2 t,
  run_tcp_table o now t (c1 ++ c2) = (t1 <- run_tcp_table o now t c1 ;; run_tcp_table o now t1 c2).
Proof. intros. apply run_tcp_table_app. Qed.
Check C18_table_kept : forall o now c1 c2 t,
  run_tcp_table o now t (c1 ++ c2) = (t1 <- run_tcp_table o now t c1 ;; run_tcp_table o now t1 c2).
Print Assumptions C18_table_kept.

(** a connection that delivers nothing (refused, or accepted and closed at once) changes nothing *)
Theorem C18_empty_connection : forall o now t, read_lines o now t [] = Ok t.
Proof. reflexivity. Qed.
Check C18_empty_connection : forall o now t, read_lines o now t [] = Ok t.
Print Assumptions C18_empty_connection.

(** a connection delivering only ineffective lines (junk, a partial frame) leaves the state as it was *)
Theorem C18_junk_connection : forall o now ls s s',
  (forall l, In l ls -> effective o l = false) -> run_lines o now s ls = Ok s' -> s' = s.
Proof. exact run_lines_all_ineffective. Qed.
Check C18_junk_connection : forall o now ls s s',
  (forall l, In l ls -> effective o l = false) -> run_lines o now s ls = Ok s' -> s' = s.
Print Assumptions C18_junk_connection.

(** ---- the loop with its retry pauses ---- *)
From SQ Require Import Base Table Display TcpLoop.


(** for every sequence of connection attempts -- refused, closed by the peer, reset in the middle of a line, junk -- the loop (with its pauses) never panics or terminates *)
Theorem C18_loop_never_stops : forall (o : opts) (now : Z) (evs : list conn_event) (t : table), exists (t' : table) (ps : list N), run_tcp_loop o now t evs = Ok (t', ps).
Proof. exact tcp_loop_total. Qed.
Check C18_loop_never_stops : forall (o : opts) (now : Z) (evs : list conn_event) (t : table), exists (t' : table) (ps : list N), run_tcp_loop o now t evs = Ok (t', ps).
Print Assumptions C18_loop_never_stops.

(** the table at the end is the fold of read_lines over the byte strings that were delivered: refused attempts and pauses do not touch it, a reset keeps everything read before it *)
Theorem C18_loop_table : forall (o : opts) (now : Z) (evs : list conn_event) (t t' : table) (ps : list N), run_tcp_loop o now t evs = Ok (t', ps) -> run_tcp_table o now t (List.concat (map delivered evs)) = Ok t'.
Proof. exact tcp_loop_table. Qed.
Check C18_loop_table : forall (o : opts) (now : Z) (evs : list conn_event) (t t' : table) (ps : list N), run_tcp_loop o now t evs = Ok (t', ps) -> run_tcp_table o now t (List.concat (map delivered evs)) = Ok t'.
Print Assumptions C18_loop_table.

(** one pause per attempt: 5 s after every failed attempt (refused, or ended by a read error), none after a connection the peer closed cleanly *)
Theorem C18_retry_schedule : forall (o : opts) (now : Z) (evs : list conn_event) (t t' : table) (ps : list N), run_tcp_loop o now t evs = Ok (t', ps) -> ps = map (fun e : conn_event => if failed e then 5 else 0) evs.
Proof. exact tcp_loop_pauses. Qed.
Check C18_retry_schedule : forall (o : opts) (now : Z) (evs : list conn_event) (t t' : table) (ps : list N), run_tcp_loop o now t evs = Ok (t', ps) -> ps = map (fun e : conn_event => if failed e then 5 else 0) evs.
Print Assumptions C18_retry_schedule.

(** every failed attempt is followed by a 5 s pause *)
Theorem C18_retry_after_failure : forall (o : opts) (now : Z) (evs : list conn_event) (t t' : table) (ps : list N) (k : nat) (e : conn_event), run_tcp_loop o now t evs = Ok (t', ps) -> nth_error evs k = Some e -> failed e = true -> nth_error ps k = Some 5.
Proof. exact tcp_retry_after_failure. Qed.
Check C18_retry_after_failure : forall (o : opts) (now : Z) (evs : list conn_event) (t t' : table) (ps : list N) (k : nat) (e : conn_event), run_tcp_loop o now t evs = Ok (t', ps) -> nth_error evs k = Some e -> failed e = true -> nth_error ps k = Some 5.
Print Assumptions C18_retry_after_failure.

(** a healthy connection after any sequence of faults is decoded into the table kept so far *)
Theorem C18_resumes : forall (o : opts) (now : Z) (faults : list conn_event) (bs : list N) (t : table), exists (t1 t2 : table) (ps : list N), run_tcp_loop o now t faults = Ok (t1, ps) /\ read_lines o now t1 bs = Ok t2 /\ run_tcp_loop o now t (faults ++ [Delivered bs true]) = Ok (t2, ps ++ [0]).
Proof. exact tcp_resumes. Qed.
Check C18_resumes : forall (o : opts) (now : Z) (faults : list conn_event) (bs : list N) (t : table), exists (t1 t2 : table) (ps : list N), run_tcp_loop o now t faults = Ok (t1, ps) /\ read_lines o now t1 bs = Ok t2 /\ run_tcp_loop o now t (faults ++ [Delivered bs true]) = Ok (t2, ps ++ [0]).
Print Assumptions C18_resumes.


