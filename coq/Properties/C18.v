(** C18 -- TCP feed interruptions never stop decoding or lose the table (the loop's logic). *)
From SQ Require Import Base Table Display TableProofs TotalPipeline.
Local Open Scope N_scope.

Lemma run_tcp_table_total o now : forall conns t, exists t', run_tcp_table o now t conns = Ok t'.
Proof.
  induction conns as [|bs rest IH]; intros t; cbn [run_tcp_table]; [eexists; reflexivity|].
  destruct (read_lines_total o now t bs) as [t1 E]. rewrite E. cbn [bind]. apply IH.
Qed.

Lemma run_tcp_table_app o now : forall c1 c2 t,
  run_tcp_table o now t (c1 ++ c2) = (t1 <- run_tcp_table o now t c1 ;; run_tcp_table o now t1 c2).
Proof.
  induction c1 as [|bs rest IH]; intros c2 t; cbn [run_tcp_table app bind]; [reflexivity|].
  destruct (read_lines o now t bs) as [t1|]; cbn [bind]; [apply IH | reflexivity].
Qed.

(** whatever the connections deliver -- nothing, junk, a partial line -- the loop never panics and
    always continues with the next connection *)
Theorem C18_never_stops : forall o now conns t, exists t', run_tcp_table o now t conns = Ok t'.
Proof. intros. apply run_tcp_table_total. Qed.
Check C18_never_stops : forall o now conns t, exists t', run_tcp_table o now t conns = Ok t'.
Print Assumptions C18_never_stops.

(** the table after an interruption is the table before it, carried into the next connection: the
    session's result is the fold of the per-connection reads *)
Theorem C18_table_kept : forall o now c1 c2 t,
  run_tcp_table o now t (c1 ++ c2) = (t1 <- run_tcp_table o now t c1 ;; run_tcp_table o now t1 c2).
Proof. intros. apply run_tcp_table_app. Qed.
Check C18_table_kept : forall o now c1 c2 t,
  run_tcp_table o now t (c1 ++ c2) = (t1 <- run_tcp_table o now t c1 ;; run_tcp_table o now t1 c2).
Print Assumptions C18_table_kept.

(** a connection that delivers nothing (refused, or accepted and closed at once) changes nothing *)
Theorem C18_empty_connection : forall o now t, read_lines o now t [] = Ok t.
Proof. reflexivity. Qed.
Check C18_empty_connection : forall o now t, read_lines o now t [] = Ok t.
Print Assumptions C18_empty_connection.

(** a connection delivering only ineffective lines (junk, a partial frame) leaves the state as it was *)
Theorem C18_junk_connection : forall o now ls s s',
  (forall l, In l ls -> effective o l = false) -> run_lines o now s ls = Ok s' -> s' = s.
Proof. exact run_lines_all_ineffective. Qed.
Check C18_junk_connection : forall o now ls s s',
  (forall l, In l ls -> effective o l = false) -> run_lines o now s ls = Ok s' -> s' = s.
Print Assumptions C18_junk_connection.
