(** C04 -- squitters with failing parity never change the table. *)
From SQ Require Import Base Frame Table TableProofs CrcSpec CrcProof TotalPipeline FrameProofs.
Local Open Scope N_scope.

(** [syndrome f n]: remainder of the whole n-bit frame f divided by the Mode S generator
    0x1FFF409 (schoolbook GF(2) long division, Spec/CrcSpec.v).  An accepted DF17/18 frame has
    syndrome 0; an accepted DF11 frame has the upper 17 bits of its syndrome 0. *)
Theorem C04_gate : forall line m,
  get_message line = Ok (Some m) ->
  (field m 1 5 = 17 \/ field m 1 5 = 18 -> syndrome (field m 1 (frame_bits m)) (frame_bits m) = 0) /\
  (field m 1 5 = 11 -> N.land (syndrome (field m 1 (frame_bits m)) (frame_bits m)) df11_mask_ = 0).
Proof. exact accepted_squitter_parity. Qed.
Check C04_gate : forall line m,
  get_message line = Ok (Some m) ->
  (field m 1 5 = 17 \/ field m 1 5 = 18 -> syndrome (field m 1 (frame_bits m)) (frame_bits m) = 0) /\
  (field m 1 5 = 11 -> N.land (syndrome (field m 1 (frame_bits m)) (frame_bits m)) df11_mask_ = 0).
Print Assumptions C04_gate.

(** every other DF11/17/18 line leaves table and counters completely unchanged, at any point of
    any history (a one-step statement used under the fold, cf. C13) *)
Theorem C04_bad_parity_inert : forall o now s line p,
  payload line = Some p -> ~ parity_ok p -> step_line o now s line = Ok (s, false, Skipped).
Proof. exact bad_parity_inert. Qed.
Check C04_bad_parity_inert : forall o now s line p,
  payload line = Some p -> ~ parity_ok p -> step_line o now s line = Ok (s, false, Skipped).
Print Assumptions C04_bad_parity_inert.

(** the model's CRC is the polynomial long division, for ALL payloads (GF(2)-linearity + basis) *)
Theorem C04_crc112 : forall m, wf m -> List.length m = 28%nat -> crc112 m = Ok (crc_spec (field m 1 88) 88).
Proof. exact crc112_field. Qed.
Check C04_crc112 : forall m, wf m -> List.length m = 28%nat -> crc112 m = Ok (crc_spec (field m 1 88) 88).
Print Assumptions C04_crc112.
Theorem C04_crc56 : forall m, wf m -> (8 <= List.length m)%nat -> crc56 m = Ok (crc_spec (field m 1 32) 32).
Proof. exact crc56_field. Qed.
Check C04_crc56 : forall m, wf m -> (8 <= List.length m)%nat -> crc56 m = Ok (crc_spec (field m 1 32) 32).
Print Assumptions C04_crc56.

(** a valid squitter hit by any 1- or 2-bit error in bits 6..112 has non-zero syndrome ... *)
Theorem C04_detects_1_2_bit : forall f i j,
  syndrome f 112 = 0 -> (6 <= i)%nat -> (i <= j)%nat -> (j <= 112)%nat ->
  syndrome (N.lxor f (err2 112 i j)) 112 <> 0.
Proof. intros f i j F Hi Hij Hj. apply lxor_syndrome_detect; [exact F | apply syndrome_1_2_bit_112; assumption]. Qed.
Check C04_detects_1_2_bit : forall f i j,
  syndrome f 112 = 0 -> (6 <= i)%nat -> (i <= j)%nat -> (j <= 112)%nat ->
  syndrome (N.lxor f (err2 112 i j)) 112 <> 0.
Print Assumptions C04_detects_1_2_bit.

(** ... and so has one hit by any non-zero burst of at most 24 bits, at any offset *)
Theorem C04_detects_burst : forall f n b s,
  syndrome f n = 0 -> b <> 0 -> b < 2 ^ 24 -> (s + 24 <= n)%nat ->
  syndrome (N.lxor f (N.shiftl b (N.of_nat s))) n <> 0.
Proof. intros f n b s F Hb Hlt Hs. apply lxor_syndrome_detect; [exact F | apply syndrome_burst; assumption]. Qed.
Check C04_detects_burst : forall f n b s,
  syndrome f n = 0 -> b <> 0 -> b < 2 ^ 24 -> (s + 24 <= n)%nat ->
  syndrome (N.lxor f (N.shiftl b (N.of_nat s))) n <> 0.
Print Assumptions C04_detects_burst.

(** DF11: 1- and 2-bit errors are caught by the 17 protected bits exactly when they are not
    confined to the 7 interrogator-code bits 50..56 *)
Theorem C04_df11_1_2_bit : forall i j,
  (1 <= i)%nat -> (i <= j)%nat -> (j <= 56)%nat ->
  (N.land (syndrome (err2 56 i j) 56) df11_mask = 0 <-> (50 <= i)%nat).
Proof. exact syndrome_1_2_bit_56_df11. Qed.
Check C04_df11_1_2_bit : forall i j,
  (1 <= i)%nat -> (i <= j)%nat -> (j <= 56)%nat ->
  (N.land (syndrome (err2 56 i j) 56) df11_mask = 0 <-> (50 <= i)%nat).
Print Assumptions C04_df11_1_2_bit.

Example C04_example : syndrome 0x8D40621D58C382D690C8AC2863A7 112 = 0
  /\ syndrome 0x8D40621D58C382D690C8AC000000 112 <> 0.
Proof. split; vm_compute; [reflexivity | discriminate]. Qed.
