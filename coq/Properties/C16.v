(** C16 -- DF filter admits only the listed formats; DF counters are exact. *)
From SQ Require Import Base Table TableProofs Display.
Local Open Scope N_scope.

(** with -f L a line is applied only if its downlink format is listed ... *)
Theorem C16_filter_admits_only_listed : forall o now s line s' rf df a only,
  step_line o now s line = Ok (s', rf, Applied df a) -> filter_df o = Some only -> In df only.
Proof.
  intros o now s line s' rf df a only H F.
  eapply classify_filter; [eapply step_line_classify; exact H | exact F].
Qed.
Check C16_filter_admits_only_listed : forall o now s line s' rf df a only,
  step_line o now s line = Ok (s', rf, Applied df a) -> filter_df o = Some only -> In df only.
Print Assumptions C16_filter_admits_only_listed.

(** ... and every line that is not applied leaves table and counters untouched *)
Theorem C16_unlisted_inert : forall o now s line s' rf,
  step_line o now s line = Ok (s', rf, Skipped) -> s' = s /\ rf = false.
Proof. exact step_line_skipped. Qed.
Check C16_unlisted_inert : forall o now s line s' rf,
  step_line o now s line = Ok (s', rf, Skipped) -> s' = s /\ rf = false.
Print Assumptions C16_unlisted_inert.

(** counters: after any stream, for every DF the counter equals the number of applied lines of
    that DF (accepted, non-zero address, passed the filter); keys ascending, counts positive;
    without -c nothing is counted.  Counters start empty for each read_lines call. *)
Theorem C16_counters_exact : forall o now ls s s',
  run_lines o now s ls = Ok s' -> df_count (cnt s) = [] ->
  ascending (df_count (cnt s')) /\
  forall d, cnt_get (df_count (cnt s')) d = (if count_df o then count_applied o ls d else 0%Z).
Proof.
  intros o now ls s s' H E.
  assert (ascending (df_count (cnt s))) as A by (rewrite E; exact I).
  destruct (run_lines_counts o now ls s s' H A) as [A' G]. split; [exact A'|].
  intros d. rewrite G, E. reflexivity.
Qed.
Check C16_counters_exact : forall o now ls s s',
  run_lines o now s ls = Ok s' -> df_count (cnt s) = [] ->
  ascending (df_count (cnt s')) /\
  forall d, cnt_get (df_count (cnt s')) d = (if count_df o then count_applied o ls d else 0%Z).
Print Assumptions C16_counters_exact.

Example C16_example : counter_line (mkCnt [(4, 2%Z); (17, 5%Z)] 0 0%Z)
  = Obs.str "DF4:2 DF17:5 ".
Proof. vm_compute. reflexivity. Qed.

(** ---- the filter in both directions ---- *)
From SQ Require Import Base Table TableProofs FilterProof.


(** a line is applied exactly when it is a frame with a non-zero address whose downlink format is listed -- in any order, with or without repetition -- or no -f is given *)
Theorem C16_applied_iff : forall (o : opts) (line : list N) (df a : N), classify o line = Ok (Applied df a) <-> (exists m : list N, get_message line = Ok (Some m) /\ get_downlink_format m = Ok (Some df) /\ get_icao m df = Ok (Some a) /\ passes o df).
Proof. exact classify_spec. Qed.
Check C16_applied_iff : forall (o : opts) (line : list N) (df a : N), classify o line = Ok (Applied df a) <-> (exists m : list N, get_message line = Ok (Some m) /\ get_downlink_format m = Ok (Some df) /\ get_icao m df = Ok (Some a) /\ passes o df).
Print Assumptions C16_applied_iff.

(** the converse of C16_filter_admits_only_listed: a frame of a listed format IS applied, from any state *)
Theorem C16_listed_is_applied : forall (o : opts) (now : Z) (s : state) (line m : list N) (df a : N), get_message line = Ok (Some m) -> get_downlink_format m = Ok (Some df) -> get_icao m df = Ok (Some a) -> passes o df -> exists (s' : state) (rf : bool), step_line o now s line = Ok (s', rf, Applied df a).
Proof. exact listed_is_applied. Qed.
Check C16_listed_is_applied : forall (o : opts) (now : Z) (s : state) (line m : list N) (df a : N), get_message line = Ok (Some m) -> get_downlink_format m = Ok (Some df) -> get_icao m df = Ok (Some a) -> passes o df -> exists (s' : state) (rf : bool), step_line o now s line = Ok (s', rf, Applied df a).
Print Assumptions C16_listed_is_applied.

(** two -f lists with the same members treat every line alike (e.g. -f 21 -f 4 and -f 4 -f 21) *)
Theorem C16_filter_order_irrelevant : forall (o1 o2 : opts) (line : list N), (forall df : N, passes o1 df <-> passes o2 df) -> classify o1 line = classify o2 line.
Proof. exact filter_order_irrelevant. Qed.
Check C16_filter_order_irrelevant : forall (o1 o2 : opts) (line : list N), (forall df : N, passes o1 df <-> passes o2 df) -> classify o1 line = classify o2 line.
Print Assumptions C16_filter_order_irrelevant.



(** ---- counter width: the model's unbounded counters against the declared integer type of df_count (regenerated) ---- *)
From SQ Require Import Base Tables Table TableProofs CounterWidth.


(** for every stream of at most df_counter_max lines every counter of the model lies within the range of the code's counter type: the model's exact count is what the code computes (no overflow, no wrap) *)
Theorem C16_counters_fit : forall (o : opts) (now : Z) (ls : list (option (list N))) (s s' : state), run_lines o now s ls = Ok s' -> df_count (cnt s) = [] -> (Z.of_nat (Datatypes.length ls) <= df_counter_max)%Z -> forall d : N, (0 <= cnt_get (df_count (cnt s')) d <= df_counter_max)%Z.
Proof. exact counters_fit. Qed.
Check C16_counters_fit : forall (o : opts) (now : Z) (ls : list (option (list N))) (s s' : state), run_lines o now s ls = Ok s' -> df_count (cnt s) = [] -> (Z.of_nat (Datatypes.length ls) <= df_counter_max)%Z -> forall d : N, (0 <= cnt_get (df_count (cnt s')) d <= df_counter_max)%Z.
Print Assumptions C16_counters_fit.

(** the declared counter type (df_counter_max is regenerated from src/counters.rs) holds at least 2^63-1: no reader run can deliver that many frames (defect D14: with the original i32 this is false and the count wraps after 2^31 frames) *)
Theorem C16_counter_capacity : (2 ^ 63 - 1 <= df_counter_max)%Z.
Proof. exact counter_capacity. Qed.
Check C16_counter_capacity : (2 ^ 63 - 1 <= df_counter_max)%Z.
Print Assumptions C16_counter_capacity.


