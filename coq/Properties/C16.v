(** C16 -- DF filter admits only the listed formats; DF counters are exact. *)
From SQ Require Import Base Table TableProofs Display.
Local Open Scope N_scope.

(** with -f L a line is applied only if its downlink format is listed ... *)
Theorem C16_filter_admits_only_listed : forall o now s line s' rf df a only,
  step_line o now s line = Ok (s', rf, Applied df a) -> filter_df o = Some only -> In df only.
Proof.
  intros o now s line s' rf df a only H F.
  eapply classify_filter; [eapply step_line_classify; exact H | exact F].
Qed.
Check C16_filter_admits_only_listed : forall o now s line s' rf df a only,
  step_line o now s line = Ok (s', rf, Applied df a) -> filter_df o = Some only -> In df only.
Print Assumptions C16_filter_admits_only_listed.

(** ... and every line that is not applied leaves table and counters untouched *)
Theorem C16_unlisted_inert : forall o now s line s' rf,
  step_line o now s line = Ok (s', rf, Skipped) -> s' = s /\ rf = false.
Proof. exact step_line_skipped. Qed.
Check C16_unlisted_inert : forall o now s line s' rf,
  step_line o now s line = Ok (s', rf, Skipped) -> s' = s /\ rf = false.
Print Assumptions C16_unlisted_inert.

(** counters: after any stream, for every DF the counter equals the number of applied lines of
    that DF (accepted, non-zero address, passed the filter); keys ascending, counts positive;
    without -c nothing is counted.  Counters start empty for each read_lines call. *)
Theorem C16_counters_exact : forall o now ls s s',
  run_lines o now s ls = Ok s' -> df_count (cnt s) = [] ->
  ascending (df_count (cnt s')) /\
  forall d, cnt_get (df_count (cnt s')) d = (if count_df o then count_applied o ls d else 0%Z).
Proof.
  intros o now ls s s' H E.
  assert (ascending (df_count (cnt s))) as A by (rewrite E; exact I).
  destruct (run_lines_counts o now ls s s' H A) as [A' G]. split; [exact A'|].
  intros d. rewrite G, E. reflexivity.
Qed.
Check C16_counters_exact : forall o now ls s s',
  run_lines o now s ls = Ok s' -> df_count (cnt s) = [] ->
  ascending (df_count (cnt s')) /\
  forall d, cnt_get (df_count (cnt s')) d = (if count_df o then count_applied o ls d else 0%Z).
Print Assumptions C16_counters_exact.

Example C16_example : counter_line (mkCnt [(4, 2%Z); (17, 5%Z)] 0 0%Z)
  = Obs.str "DF4:2 DF17:5 ".
Proof. vm_compute. reflexivity. Qed.
