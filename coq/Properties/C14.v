(** C14 -- placeholder until Proofs/LayoutProof.v is integrated *)
From SQ Require Import Base Display.
Theorem C14_counter_line_empty : counter_line (mkCnt [] 0 0%Z) = [].
Proof. reflexivity. Qed.
Check C14_counter_line_empty : counter_line (mkCnt [] 0 0%Z) = [].
Print Assumptions C14_counter_line_empty.
