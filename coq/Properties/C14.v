(** C14 -- printed rows render the table faithfully under their column headers. *)
From SQ Require Import Base Table Sort Display LayoutProof.
Local Open Scope N_scope.

(** header and separator have the same display width for every option record *)
Theorem C14_header_separator_width : forall o : opts, Datatypes.length (header_line o) = Datatypes.length (separator_line o).
Proof. exact header_separator_same_width. Qed.
Check C14_header_separator_width : forall o : opts, Datatypes.length (header_line o) = Datatypes.length (separator_line o).
Print Assumptions C14_header_separator_width.

(** whenever every value fits its column, a row has exactly the header's width -- all rows, all 32 flag sets *)
Theorem C14_row_width : forall (o : opts) (now : Z) (dcell : row -> Obs.bytes) (r : row), fits_with dcell o now r -> Datatypes.length (render_row o now dcell r) = Datatypes.length (header_line o).
Proof. exact row_width. Qed.
Check C14_row_width : forall (o : opts) (now : Z) (dcell : row -> Obs.bytes) (r : row), fits_with dcell o now r -> Datatypes.length (render_row o now dcell r) = Datatypes.length (header_line o).
Print Assumptions C14_row_width.

(** the same under plain arithmetic bounds on the values (|lat| <= 99, |lon| <= 999, altitude < 100000, ...) *)
Theorem C14_row_width_bounds : forall (o : opts) (now : Z) (dcell : row -> Obs.bytes) (r : row), fits_bounds dcell o now r -> Datatypes.length (render_row o now dcell r) = Datatypes.length (header_line o).
Proof. exact row_width_bounds. Qed.
Check C14_row_width_bounds : forall (o : opts) (now : Z) (dcell : row -> Obs.bytes) (r : row), fits_bounds dcell o now r -> Datatypes.length (render_row o now dcell r) = Datatypes.length (header_line o).
Print Assumptions C14_row_width_bounds.

(** every cell starts exactly under its header column: the first k cells and the first k header columns have equal width, for every k *)
Theorem C14_cells_under_columns : forall (o : opts) (now : Z) (dcell : row -> Obs.bytes) (r : row), fits_with dcell o now r -> forall k : nat, Datatypes.length (enabled o (firstn k (cells now dcell r))) = Datatypes.length (List.concat (map (header_cell o) (firstn k Tables.header_cols))).
Proof. exact cell_offsets. Qed.
Check C14_cells_under_columns : forall (o : opts) (now : Z) (dcell : row -> Obs.bytes) (r : row), fits_with dcell o now r -> forall k : nat, Datatypes.length (enabled o (firstn k (cells now dcell r))) = Datatypes.length (List.concat (map (header_cell o) (firstn k Tables.header_cols))).
Print Assumptions C14_cells_under_columns.

(** the 33 cells correspond one-to-one, in order, to the header columns: same group, and width = column width + separator when displayed *)
Theorem C14_cells_match_columns : forall (dcell : row -> Obs.bytes) (o : opts) (now : Z) (r : row), fits_with dcell o now r -> Forall2 (cell_ok o) (cells now dcell r) Tables.header_cols.
Proof. exact cells_aligned. Qed.
Check C14_cells_match_columns : forall (dcell : row -> Obs.bytes) (o : opts) (now : Z) (r : row), fits_with dcell o now r -> Forall2 (cell_ok o) (cells now dcell r) Tables.header_cols.
Print Assumptions C14_cells_match_columns.

(** a rendered row is the concatenation of the cells of the enabled groups followed by the last-contact age *)
Theorem C14_row_is_its_cells : forall (o : opts) (now : Z) (dcell : row -> Obs.bytes) (r : row), render_row o now dcell r = enabled o (cells now dcell r) ++ age_cell now r.
Proof. exact row_cells. Qed.
Check C14_row_is_its_cells : forall (o : opts) (now : Z) (dcell : row -> Obs.bytes) (r : row), render_row o now dcell r = enabled o (cells now dcell r) ++ age_cell now r.
Print Assumptions C14_row_is_its_cells.

(** an unknown value renders as blanks (per column: the precise condition under which the cell is all spaces) *)
Theorem C14_blank_when_unknown : forall (now : Z) (dcell : row -> Obs.bytes) (r : row), Forall2 (fun (c : string * Obs.bytes) (unknown : Prop) => unknown -> blank (snd c)) (cells now dcell r) (unknown_conds r).
Proof. exact blank_when_unknown. Qed.
Check C14_blank_when_unknown : forall (now : Z) (dcell : row -> Obs.bytes) (r : row), Forall2 (fun (c : string * Obs.bytes) (unknown : Prop) => unknown -> blank (snd c)) (cells now dcell r) (unknown_conds r).
Print Assumptions C14_blank_when_unknown.

(** a row about which nothing is known is the address followed by blanks, at full width *)
Theorem C14_blank_row : forall (o : opts) (now : Z) (dcell : row -> Obs.bytes) (a : N), render_row o now dcell (row_new now <| icao := a |>) = Obs.hex_go 6 a [] ++ spaces (54 + (if fl_altitude o then 17%nat else 0%nat) + 18 + (if fl_speed o then 13%nat else 0%nat) + (if fl_angles o then 8%nat else 0%nat) + (if fl_weather o then 26%nat else 0%nat)) ++ (if fl_extra o then [48; 48] ++ spaces 15 else []) ++ [32; 48].
Proof. exact row_new_render. Qed.
Check C14_blank_row : forall (o : opts) (now : Z) (dcell : row -> Obs.bytes) (a : N), render_row o now dcell (row_new now <| icao := a |>) = Obs.hex_go 6 a [] ++ spaces (54 + (if fl_altitude o then 17%nat else 0%nat) + 18 + (if fl_speed o then 13%nat else 0%nat) + (if fl_angles o then 8%nat else 0%nat) + (if fl_weather o then 26%nat else 0%nat)) ++ (if fl_extra o then [48; 48] ++ spaces 15 else []) ++ [32; 48].
Print Assumptions C14_blank_row.

(** the header consists of the base columns plus exactly the columns of the groups whose letter is given: width = 80 + 17 [A] + 13 [s] + 8 [a] + 26 [w] + 17 [e] *)
Theorem C14_groups_in_header : forall o : opts, Datatypes.length (header_line o) = (80 + (if fl_altitude o then 17 else 0) + (if fl_speed o then 13 else 0) + (if fl_angles o then 8 else 0) + (if fl_weather o then 26 else 0) + (if fl_extra o then 17 else 0))%nat.
Proof. exact header_groups_width. Qed.
Check C14_groups_in_header : forall o : opts, Datatypes.length (header_line o) = (80 + (if fl_altitude o then 17 else 0) + (if fl_speed o then 13 else 0) + (if fl_angles o then 8 else 0) + (if fl_weather o then 26 else 0) + (if fl_extra o then 17 else 0))%nat.
Print Assumptions C14_groups_in_header.

(** and rows have the same group widths *)
Theorem C14_groups_in_rows : forall (o : opts) (now : Z) (dcell : row -> Obs.bytes) (r : row), fits_with dcell o now r -> Datatypes.length (render_row o now dcell r) = (80 + (if fl_altitude o then 17 else 0) + (if fl_speed o then 13 else 0) + (if fl_angles o then 8 else 0) + (if fl_weather o then 26 else 0) + (if fl_extra o then 17 else 0))%nat.
Proof. exact row_groups_width. Qed.
Check C14_groups_in_rows : forall (o : opts) (now : Z) (dcell : row -> Obs.bytes) (r : row), fits_with dcell o now r -> Datatypes.length (render_row o now dcell r) = (80 + (if fl_altitude o then 17 else 0) + (if fl_speed o then 13 else 0) + (if fl_angles o then 8 else 0) + (if fl_weather o then 26 else 0) + (if fl_extra o then 17 else 0))%nat.
Print Assumptions C14_groups_in_rows.

(** a group is shown iff its letter (A, s, a, w, e) is among the -i letters *)
Theorem C14_group_letters : forall (o : opts) (g : string), group_on o g = true <-> g = ""%string \/ g = "altitude"%string /\ In 65 (display_info o) \/ g = "speed"%string /\ In 115 (display_info o) \/ g = "angles"%string /\ In 97 (display_info o) \/ g = "weather"%string /\ In 119 (display_info o) \/ g = "extra"%string /\ In 101 (display_info o).
Proof. exact group_on_iff. Qed.
Check C14_group_letters : forall (o : opts) (g : string), group_on o g = true <-> g = ""%string \/ g = "altitude"%string /\ In 65 (display_info o) \/ g = "speed"%string /\ In 115 (display_info o) \/ g = "angles"%string /\ In 97 (display_info o) \/ g = "weather"%string /\ In 119 (display_info o) \/ g = "extra"%string /\ In 101 (display_info o).
Print Assumptions C14_group_letters.

(** all lines of a printed frame (header, separator, rows, separator) have identical display width when every row fits *)
Theorem C14_frame_lines : forall (o : opts) (now : Z) (dkey : row -> Z) (dcell : row -> Obs.bytes) (s : state), (forall p : N * row, In p (tbl s) -> fits_with dcell o now (snd p)) -> Forall (fun l : list N => Datatypes.length l = Datatypes.length (header_line o)) ([header_line o; separator_line o] ++ map (fun p : N * row => render_row o now dcell (snd p)) (print_order dkey (order_by o) (tbl s)) ++ [separator_line o]).
Proof. exact frame_lines_same_width. Qed.
Check C14_frame_lines : forall (o : opts) (now : Z) (dkey : row -> Z) (dcell : row -> Obs.bytes) (s : state), (forall p : N * row, In p (tbl s) -> fits_with dcell o now (snd p)) -> Forall (fun l : list N => Datatypes.length l = Datatypes.length (header_line o)) ([header_line o; separator_line o] ++ map (fun p : N * row => render_row o now dcell (snd p)) (print_order dkey (order_by o) (tbl s)) ++ [separator_line o]).
Print Assumptions C14_frame_lines.

(** non-vacuity: the 'fits' premise is satisfiable *)
Theorem C14_fits_satisfiable : forall (dcell : row -> Obs.bytes) (o : opts) (now : Z) (a : N), fits_with dcell o now (row_new now <| icao := a |>).
Proof. exact row_new_fits. Qed.
Check C14_fits_satisfiable : forall (dcell : row -> Obs.bytes) (o : opts) (now : Z) (a : N), fits_with dcell o now (row_new now <| icao := a |>).
Print Assumptions C14_fits_satisfiable.



(** ---- what the cells contain (not only how wide they are) ---- *)
From SQ Require Import Base Display LayoutProof CellContents.


(** the number printer emits decimal digits only *)
Theorem C14_number_digits : forall n : N, Forall (fun c : N => 48 <= c <= 57) (Obs.dec n).
Proof. exact dec_digits_all. Qed.
Check C14_number_digits : forall n : N, Forall (fun c : N => 48 <= c <= 57) (Obs.dec n).
Print Assumptions C14_number_digits.

(** ... which read back as the number (no digit lost or permuted), for every number below 10^400 *)
Theorem C14_number_value : forall n : N, n < 10 ^ 400 -> value_of (Obs.dec n) 0 = n.
Proof. exact dec_value. Qed.
Check C14_number_value : forall n : N, n < 10 ^ 400 -> value_of (Obs.dec n) 0 = n.
Print Assumptions C14_number_value.

(** ... without a leading zero *)
Theorem C14_number_no_leading_zero : forall n : N, 0 < n -> n < 10 ^ 400 -> hd 0 (Obs.dec n) <> 48.
Proof. exact dec_no_leading_zero. Qed.
Check C14_number_no_leading_zero : forall n : N, 0 < n -> n < 10 ^ 400 -> hd 0 (Obs.dec n) <> 48.
Print Assumptions C14_number_no_leading_zero.

(** signed numbers: a minus sign followed by the digits of the absolute value *)
Theorem C14_signed_number : forall z : Z, Obs.decz z = (if (z <? 0)%Z then [45] else []) ++ Obs.dec (Z.to_N (Z.abs z)).
Proof. exact decz_value. Qed.
Check C14_signed_number : forall z : Z, Obs.decz z = (if (z <? 0)%Z then [45] else []) ++ Obs.dec (Z.to_N (Z.abs z)).
Print Assumptions C14_signed_number.

(** hex digits are 0-9 A-F *)
Theorem C14_hex_digit : forall d : N, d < 16 -> Obs.hexdigit d = nth (N.to_nat d) (Obs.str "0123456789ABCDEF") 0.
Proof. exact hexdigit_spec. Qed.
Check C14_hex_digit : forall d : N, d < 16 -> Obs.hexdigit d = nth (N.to_nat d) (Obs.str "0123456789ABCDEF") 0.
Print Assumptions C14_hex_digit.

(** the SQWK cell of a known code is exactly four decimal digits with that value (leading zeros kept), followed by the threat marker position *)
Theorem C14_squawk_cell : forall (now : Z) (dcell : row -> Obs.bytes) (r : row) (s : N), r_squawk r = Some s -> s < 10000 -> exists ds : list N, cell_named now dcell r "SQWK" = ds ++ threat_mark r /\ Datatypes.length ds = 4%nat /\ Forall (fun c : N => 48 <= c <= 57) ds /\ value_of ds 0 = s.
Proof. exact squawk_cell_some. Qed.
Check C14_squawk_cell : forall (now : Z) (dcell : row -> Obs.bytes) (r : row) (s : N), r_squawk r = Some s -> s < 10000 -> exists ds : list N, cell_named now dcell r "SQWK" = ds ++ threat_mark r /\ Datatypes.length ds = 4%nat /\ Forall (fun c : N => 48 <= c <= 57) ds /\ value_of ds 0 = s.
Print Assumptions C14_squawk_cell.

(** ... and four blanks when unknown *)
Theorem C14_squawk_cell_blank : forall (now : Z) (dcell : row -> Obs.bytes) (r : row), r_squawk r = None -> cell_named now dcell r "SQWK" = [32; 32; 32; 32] ++ threat_mark r.
Proof. exact squawk_cell_none. Qed.
Check C14_squawk_cell_blank : forall (now : Z) (dcell : row -> Obs.bytes) (r : row), r_squawk r = None -> cell_named now dcell r "SQWK" = [32; 32; 32; 32] ++ threat_mark r.
Print Assumptions C14_squawk_cell_blank.

(** the W cell shows the wake-class letter of the recorded category per the specification, or a blank *)
Theorem C14_wake_cell : forall (now : Z) (dcell : row -> Obs.bytes) (r : row), cell_named now dcell r "W" = match Ia5.wake_spec (fst (category r)) (snd (category r)) with | Some w => [w; 32] | None => [32; 32] end.
Proof. exact wake_cell. Qed.
Check C14_wake_cell : forall (now : Z) (dcell : row -> Obs.bytes) (r : row), cell_named now dcell r "W" = match Ia5.wake_spec (fst (category r)) (snd (category r)) with | Some w => [w; 32] | None => [32; 32] end.
Print Assumptions C14_wake_cell.

(** ALT B: the altitude right-aligned in 5 columns followed by its source mark *)
Theorem C14_altitude_cell : forall (now : Z) (dcell : row -> Obs.bytes) (r : row) (a : N), r_altitude r = Some a -> a < 100000 -> exists body : list N, cell_named now dcell r "ALT B" = body ++ [altitude_source r] /\ right_aligned 5 (Obs.dec a) body.
Proof. exact altitude_cell_some. Qed.
Check C14_altitude_cell : forall (now : Z) (dcell : row -> Obs.bytes) (r : row) (a : N), r_altitude r = Some a -> a < 100000 -> exists body : list N, cell_named now dcell r "ALT B" = body ++ [altitude_source r] /\ right_aligned 5 (Obs.dec a) body.
Print Assumptions C14_altitude_cell.

(** ... all blank, mark included, when unknown *)
Theorem C14_altitude_cell_blank : forall (now : Z) (dcell : row -> Obs.bytes) (r : row), r_altitude r = None -> cell_named now dcell r "ALT B" = spaces 6.
Proof. exact altitude_cell_none. Qed.
Check C14_altitude_cell_blank : forall (now : Z) (dcell : row -> Obs.bytes) (r : row), r_altitude r = None -> cell_named now dcell r "ALT B" = spaces 6.
Print Assumptions C14_altitude_cell_blank.

(** TRK: value right-aligned in 3 columns plus source mark *)
Theorem C14_track_cell : forall (now : Z) (dcell : row -> Obs.bytes) (r : row) (v : N), track r = Some v -> v < 1000 -> exists body : list N, cell_named now dcell r "TRK" = body ++ [track_source r] /\ right_aligned 3 (Obs.dec v) body.
Proof. exact track_cell_some. Qed.
Check C14_track_cell : forall (now : Z) (dcell : row -> Obs.bytes) (r : row) (v : N), track r = Some v -> v < 1000 -> exists body : list N, cell_named now dcell r "TRK" = body ++ [track_source r] /\ right_aligned 3 (Obs.dec v) body.
Print Assumptions C14_track_cell.

(** ... all blank, mark included, when unknown *)
Theorem C14_track_cell_blank : forall (now : Z) (dcell : row -> Obs.bytes) (r : row), track r = None -> cell_named now dcell r "TRK" = spaces 4.
Proof. exact track_cell_none. Qed.
Check C14_track_cell_blank : forall (now : Z) (dcell : row -> Obs.bytes) (r : row), track r = None -> cell_named now dcell r "TRK" = spaces 4.
Print Assumptions C14_track_cell_blank.

(** HDG likewise *)
Theorem C14_heading_cell_blank : forall (now : Z) (dcell : row -> Obs.bytes) (r : row), r_heading r = None -> cell_named now dcell r "HDG" = spaces 4.
Proof. exact heading_cell_none. Qed.
Check C14_heading_cell_blank : forall (now : Z) (dcell : row -> Obs.bytes) (r : row), r_heading r = None -> cell_named now dcell r "HDG" = spaces 4.
Print Assumptions C14_heading_cell_blank.

(** VRATE: signed value right-aligned in 5 columns plus source mark *)
Theorem C14_vrate_cell : forall (now : Z) (dcell : row -> Obs.bytes) (r : row) (v : Z), vrate r = Some v -> (-10000 < v < 100000)%Z -> exists body : list N, cell_named now dcell r "VRATE" = body ++ [vrate_source r] /\ right_aligned 5 (Obs.decz v) body.
Proof. exact vrate_cell_some. Qed.
Check C14_vrate_cell : forall (now : Z) (dcell : row -> Obs.bytes) (r : row) (v : Z), vrate r = Some v -> (-10000 < v < 100000)%Z -> exists body : list N, cell_named now dcell r "VRATE" = body ++ [vrate_source r] /\ right_aligned 5 (Obs.decz v) body.
Print Assumptions C14_vrate_cell.

(** ... all blank when unknown *)
Theorem C14_vrate_cell_blank : forall (now : Z) (dcell : row -> Obs.bytes) (r : row), vrate r = None -> cell_named now dcell r "VRATE" = spaces 6.
Proof. exact vrate_cell_none. Qed.
Check C14_vrate_cell_blank : forall (now : Z) (dcell : row -> Obs.bytes) (r : row), vrate r = None -> cell_named now dcell r "VRATE" = spaces 6.
Print Assumptions C14_vrate_cell_blank.

(** PTH: one character per age (position, track, heading): the hex digit of (age / 10 s) mod 16, or a blank *)
Theorem C14_age_digits : forall (now : Z) (dcell : row -> Obs.bytes) (r : row), cell_named now dcell r "PTH" = [age_char now (position_t r); age_char now (track_t r); age_char now (heading_t r); 32].
Proof. exact pth_cell. Qed.
Check C14_age_digits : forall (now : Z) (dcell : row -> Obs.bytes) (r : row), cell_named now dcell r "PTH" = [age_char now (position_t r); age_char now (track_t r); age_char now (heading_t r); 32].
Print Assumptions C14_age_digits.

(** the age digit wraps every 160 s and never leaves 0-F *)
Theorem C14_age_digit : forall now t : Z, (0 <= num_seconds now t)%Z -> age10 now (Some t) = [Obs.hexdigit (Z.to_N ((num_seconds now t / 10) mod 16))].
Proof. exact age10_some. Qed.
Check C14_age_digit : forall now t : Z, (0 <= num_seconds now t)%Z -> age10 now (Some t) = [Obs.hexdigit (Z.to_N ((num_seconds now t / 10) mod 16))].
Print Assumptions C14_age_digit.

(** LC: for 0 <= age < 100 two characters whose value is the age *)
Theorem C14_last_contact_cell : forall (now : Z) (r : row), let a := num_seconds now (timestamp r) in (0 <= a < 100)%Z -> age_cell now r = (if (a <? 10)%Z then [32; 48 + Z.to_N a] else [48 + Z.to_N a / 10; 48 + Z.to_N a mod 10]) /\ Datatypes.length (age_cell now r) = 2%nat /\ value_of (age_cell now r) 0 = Z.to_N a.
Proof. exact age_cell_value. Qed.
Check C14_last_contact_cell : forall (now : Z) (r : row), let a := num_seconds now (timestamp r) in (0 <= a < 100)%Z -> age_cell now r = (if (a <? 10)%Z then [32; 48 + Z.to_N a] else [48 + Z.to_N a / 10; 48 + Z.to_N a mod 10]) /\ Datatypes.length (age_cell now r) = 2%nat /\ value_of (age_cell now r) 0 = Z.to_N a.
Print Assumptions C14_last_contact_cell.

(** RG: the country code in full (never truncated), padded to two columns *)
Theorem C14_country_cell : forall (now : Z) (dcell : row -> Obs.bytes) (r : row), cell_named now dcell r "RG" = Obs.str (reg r) ++ spaces (2 - length (reg r)) ++ [32].
Proof. exact country_cell. Qed.
Check C14_country_cell : forall (now : Z) (dcell : row -> Obs.bytes) (r : row), cell_named now dcell r "RG" = Obs.str (reg r) ++ spaces (2 - length (reg r)) ++ [32].
Print Assumptions C14_country_cell.

(** LATITUDE / LONGITUDE digits: sign, integer part, point, five decimals, together the value rounded half-to-even at 1e-5 *)
Theorem C14_position_cells : forall q : Q, (Qabs.Qabs q <= 999)%Q -> let n := round_half_even (Qabs.Qabs q * 100000) in exists ip fd : list N, fmt_fixed 5 q = (if Qlt_bool q 0 then [45] else []) ++ ip ++ [46] ++ fd /\ ip = Obs.dec (Z.to_N (n / 100000)) /\ (1 <= Datatypes.length ip <= 3)%nat /\ Datatypes.length fd = 5%nat /\ Forall (fun c : N => 48 <= c <= 57) (ip ++ fd) /\ Z.of_N (value_of (ip ++ fd) 0) = n /\ (Qabs.Qabs ((n # 1) - Qabs.Qabs q * 100000) <= 1 # 2)%Q.
Proof. exact fmt_fixed_5. Qed.
Check C14_position_cells : forall q : Q, (Qabs.Qabs q <= 999)%Q -> let n := round_half_even (Qabs.Qabs q * 100000) in exists ip fd : list N, fmt_fixed 5 q = (if Qlt_bool q 0 then [45] else []) ++ ip ++ [46] ++ fd /\ ip = Obs.dec (Z.to_N (n / 100000)) /\ (1 <= Datatypes.length ip <= 3)%nat /\ Datatypes.length fd = 5%nat /\ Forall (fun c : N => 48 <= c <= 57) (ip ++ fd) /\ Z.of_N (value_of (ip ++ fd) 0) = n /\ (Qabs.Qabs ((n # 1) - Qabs.Qabs q * 100000) <= 1 # 2)%Q.
Print Assumptions C14_position_cells.

(** ... both blank while no position is known *)
Theorem C14_position_hidden : forall (now : Z) (dcell : row -> Obs.bytes) (r : row), pos_shown r = false -> cell_named now dcell r "LATITUDE" = spaces 10 /\ cell_named now dcell r "LONGITUDE" = spaces 12.
Proof. exact position_cells_hidden. Qed.
Check C14_position_hidden : forall (now : Z) (dcell : row -> Obs.bytes) (r : row), pos_shown r = false -> cell_named now dcell r "LATITUDE" = spaces 10 /\ cell_named now dcell r "LONGITUDE" = spaces 12.
Print Assumptions C14_position_hidden.


