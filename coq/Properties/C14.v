(** C14 -- printed rows render the table faithfully under their column headers. *)
From SQ Require Import Base Table Sort Display LayoutProof.
Local Open Scope N_scope.

(** header and separator have the same display width for every option record *)
Theorem C14_header_separator_width : forall o : opts, Datatypes.length (header_line o) = Datatypes.length (separator_line o).
Proof. exact header_separator_same_width. Qed.
Check C14_header_separator_width : forall o : opts, Datatypes.length (header_line o) = Datatypes.length (separator_line o).
Print Assumptions C14_header_separator_width.

(** whenever every value fits its column, a row has exactly the header's width -- all rows, all 32 flag sets *)
Theorem C14_row_width : forall (o : opts) (now : Z) (dcell : row -> Obs.bytes) (r : row), fits_with dcell o now r -> Datatypes.length (render_row o now dcell r) = Datatypes.length (header_line o).
Proof. exact row_width. Qed.
Check C14_row_width : forall (o : opts) (now : Z) (dcell : row -> Obs.bytes) (r : row), fits_with dcell o now r -> Datatypes.length (render_row o now dcell r) = Datatypes.length (header_line o).
Print Assumptions C14_row_width.

(** the same under plain arithmetic bounds on the values (|lat| <= 99, |lon| <= 999, altitude < 100000, ...) *)
Theorem C14_row_width_bounds : forall (o : opts) (now : Z) (dcell : row -> Obs.bytes) (r : row), fits_bounds dcell o now r -> Datatypes.length (render_row o now dcell r) = Datatypes.length (header_line o).
Proof. exact row_width_bounds. Qed.
Check C14_row_width_bounds : forall (o : opts) (now : Z) (dcell : row -> Obs.bytes) (r : row), fits_bounds dcell o now r -> Datatypes.length (render_row o now dcell r) = Datatypes.length (header_line o).
Print Assumptions C14_row_width_bounds.

(** every cell starts exactly under its header column: the first k cells and the first k header columns have equal width, for every k *)
Theorem C14_cells_under_columns : forall (o : opts) (now : Z) (dcell : row -> Obs.bytes) (r : row), fits_with dcell o now r -> forall k : nat, Datatypes.length (enabled o (firstn k (cells now dcell r))) = Datatypes.length (List.concat (map (header_cell o) (firstn k Tables.header_cols))).
Proof. exact cell_offsets. Qed.
Check C14_cells_under_columns : forall (o : opts) (now : Z) (dcell : row -> Obs.bytes) (r : row), fits_with dcell o now r -> forall k : nat, Datatypes.length (enabled o (firstn k (cells now dcell r))) = Datatypes.length (List.concat (map (header_cell o) (firstn k Tables.header_cols))).
Print Assumptions C14_cells_under_columns.

(** the 33 cells correspond one-to-one, in order, to the header columns: same group, and width = column width + separator when displayed *)
Theorem C14_cells_match_columns : forall (dcell : row -> Obs.bytes) (o : opts) (now : Z) (r : row), fits_with dcell o now r -> Forall2 (cell_ok o) (cells now dcell r) Tables.header_cols.
Proof. exact cells_aligned. Qed.
Check C14_cells_match_columns : forall (dcell : row -> Obs.bytes) (o : opts) (now : Z) (r : row), fits_with dcell o now r -> Forall2 (cell_ok o) (cells now dcell r) Tables.header_cols.
Print Assumptions C14_cells_match_columns.

(** a rendered row is the concatenation of the cells of the enabled groups followed by the last-contact age *)
Theorem C14_row_is_its_cells : forall (o : opts) (now : Z) (dcell : row -> Obs.bytes) (r : row), render_row o now dcell r = enabled o (cells now dcell r) ++ age_cell now r.
Proof. exact row_cells. Qed.
Check C14_row_is_its_cells : forall (o : opts) (now : Z) (dcell : row -> Obs.bytes) (r : row), render_row o now dcell r = enabled o (cells now dcell r) ++ age_cell now r.
Print Assumptions C14_row_is_its_cells.

(** an unknown value renders as blanks (per column: the precise condition under which the cell is all spaces) *)
Theorem C14_blank_when_unknown : forall (now : Z) (dcell : row -> Obs.bytes) (r : row), Forall2 (fun (c : string * Obs.bytes) (unknown : Prop) => unknown -> blank (snd c)) (cells now dcell r) (unknown_conds r).
Proof. exact blank_when_unknown. Qed.
Check C14_blank_when_unknown : forall (now : Z) (dcell : row -> Obs.bytes) (r : row), Forall2 (fun (c : string * Obs.bytes) (unknown : Prop) => unknown -> blank (snd c)) (cells now dcell r) (unknown_conds r).
Print Assumptions C14_blank_when_unknown.

(** a row about which nothing is known is the address followed by blanks, at full width *)
Theorem C14_blank_row : forall (o : opts) (now : Z) (dcell : row -> Obs.bytes) (a : N), render_row o now dcell (row_new now <| icao := a |>) = Obs.hex_go 6 a [] ++ spaces (54 + (if fl_altitude o then 17%nat else 0%nat) + 18 + (if fl_speed o then 13%nat else 0%nat) + (if fl_angles o then 8%nat else 0%nat) + (if fl_weather o then 26%nat else 0%nat)) ++ (if fl_extra o then [48; 48] ++ spaces 15 else []) ++ [32; 48].
Proof. exact row_new_render. Qed.
Check C14_blank_row : forall (o : opts) (now : Z) (dcell : row -> Obs.bytes) (a : N), render_row o now dcell (row_new now <| icao := a |>) = Obs.hex_go 6 a [] ++ spaces (54 + (if fl_altitude o then 17%nat else 0%nat) + 18 + (if fl_speed o then 13%nat else 0%nat) + (if fl_angles o then 8%nat else 0%nat) + (if fl_weather o then 26%nat else 0%nat)) ++ (if fl_extra o then [48; 48] ++ spaces 15 else []) ++ [32; 48].
Print Assumptions C14_blank_row.

(** the header consists of the base columns plus exactly the columns of the groups whose letter is given: width = 80 + 17 [A] + 13 [s] + 8 [a] + 26 [w] + 17 [e] *)
Theorem C14_groups_in_header : forall o : opts, Datatypes.length (header_line o) = (80 + (if fl_altitude o then 17 else 0) + (if fl_speed o then 13 else 0) + (if fl_angles o then 8 else 0) + (if fl_weather o then 26 else 0) + (if fl_extra o then 17 else 0))%nat.
Proof. exact header_groups_width. Qed.
Check C14_groups_in_header : forall o : opts, Datatypes.length (header_line o) = (80 + (if fl_altitude o then 17 else 0) + (if fl_speed o then 13 else 0) + (if fl_angles o then 8 else 0) + (if fl_weather o then 26 else 0) + (if fl_extra o then 17 else 0))%nat.
Print Assumptions C14_groups_in_header.

(** and rows have the same group widths *)
Theorem C14_groups_in_rows : forall (o : opts) (now : Z) (dcell : row -> Obs.bytes) (r : row), fits_with dcell o now r -> Datatypes.length (render_row o now dcell r) = (80 + (if fl_altitude o then 17 else 0) + (if fl_speed o then 13 else 0) + (if fl_angles o then 8 else 0) + (if fl_weather o then 26 else 0) + (if fl_extra o then 17 else 0))%nat.
Proof. exact row_groups_width. Qed.
Check C14_groups_in_rows : forall (o : opts) (now : Z) (dcell : row -> Obs.bytes) (r : row), fits_with dcell o now r -> Datatypes.length (render_row o now dcell r) = (80 + (if fl_altitude o then 17 else 0) + (if fl_speed o then 13 else 0) + (if fl_angles o then 8 else 0) + (if fl_weather o then 26 else 0) + (if fl_extra o then 17 else 0))%nat.
Print Assumptions C14_groups_in_rows.

(** a group is shown iff its letter (A, s, a, w, e) is among the -i letters *)
Theorem C14_group_letters : forall (o : opts) (g : string), group_on o g = true <-> g = ""%string \/ g = "altitude"%string /\ In 65 (display_info o) \/ g = "speed"%string /\ In 115 (display_info o) \/ g = "angles"%string /\ In 97 (display_info o) \/ g = "weather"%string /\ In 119 (display_info o) \/ g = "extra"%string /\ In 101 (display_info o).
Proof. exact group_on_iff. Qed.
Check C14_group_letters : forall (o : opts) (g : string), group_on o g = true <-> g = ""%string \/ g = "altitude"%string /\ In 65 (display_info o) \/ g = "speed"%string /\ In 115 (display_info o) \/ g = "angles"%string /\ In 97 (display_info o) \/ g = "weather"%string /\ In 119 (display_info o) \/ g = "extra"%string /\ In 101 (display_info o).
Print Assumptions C14_group_letters.

(** all lines of a printed frame (header, separator, rows, separator) have identical display width when every row fits *)
Theorem C14_frame_lines : forall (o : opts) (now : Z) (dkey : row -> Z) (dcell : row -> Obs.bytes) (s : state), (forall p : N * row, In p (tbl s) -> fits_with dcell o now (snd p)) -> Forall (fun l : list N => Datatypes.length l = Datatypes.length (header_line o)) ([header_line o; separator_line o] ++ map (fun p : N * row => render_row o now dcell (snd p)) (print_order dkey (order_by o) (tbl s)) ++ [separator_line o]).
Proof. exact frame_lines_same_width. Qed.
Check C14_frame_lines : forall (o : opts) (now : Z) (dkey : row -> Z) (dcell : row -> Obs.bytes) (s : state), (forall p : N * row, In p (tbl s) -> fits_with dcell o now (snd p)) -> Forall (fun l : list N => Datatypes.length l = Datatypes.length (header_line o)) ([header_line o; separator_line o] ++ map (fun p : N * row => render_row o now dcell (snd p)) (print_order dkey (order_by o) (tbl s)) ++ [separator_line o]).
Print Assumptions C14_frame_lines.

(** non-vacuity: the 'fits' premise is satisfiable *)
Theorem C14_fits_satisfiable : forall (dcell : row -> Obs.bytes) (o : opts) (now : Z) (a : N), fits_with dcell o now (row_new now <| icao := a |>).
Proof. exact row_new_fits. Qed.
Check C14_fits_satisfiable : forall (dcell : row -> Obs.bytes) (o : opts) (now : Z) (a : N), fits_with dcell o now (row_new now <| icao := a |>).
Print Assumptions C14_fits_satisfiable.


