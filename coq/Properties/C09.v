(** C09 -- ground speed, track and vertical rate follow the TC19 velocity encoding. *)
From Coq Require Import Reals.
From SQ Require Import Base Decode Velocity Update VelSpec VelProof TrackSound.
Local Open Scope N_scope.

(** vertical rate: +/-64*(field-1) ft/min, field 0 = no value; for every 112-bit frame, no panic *)
Theorem C09_vrate : forall m, wf m -> List.length m = 28%nat ->
  vertical_rate m = Ok (vrate_spec (bit_at m 69) (field m 70 78)).
Proof. exact vertical_rate_correct. Qed.
Check C09_vrate : forall m, wf m -> List.length m = 28%nat ->
  vertical_rate m = Ok (vrate_spec (bit_at m 69) (field m 70 78)).
Print Assumptions C09_vrate.

(** ground speed and track from the signed components (field-1); a component field of 0 = no value *)
Theorem C09_velocity : forall m ss, wf m -> List.length m = 28%nat ->
  track_and_groundspeed m ss =
    Ok (vel_spec ss (bit_at m 46) (field m 47 56) (bit_at m 57) (field m 58 67)).
Proof. exact track_and_groundspeed_correct. Qed.
Check C09_velocity : forall m ss, wf m -> List.length m = 28%nat ->
  track_and_groundspeed m ss =
    Ok (vel_spec ss (bit_at m 46) (field m 47 56) (bit_at m 57) (field m 58 67)).
Print Assumptions C09_velocity.

(** the ground speed is floor(sqrt(vx^2 + vy^2)) ... *)
Theorem C09_gs_floor_sqrt : forall a b,
  let g := N.sqrt (a * a + b * b) in g * g <= a * a + b * b < (g + 1) * (g + 1).
Proof. exact gs_is_floor_sqrt. Qed.
Check C09_gs_floor_sqrt : forall a b,
  let g := N.sqrt (a * a + b * b) in g * g <= a * a + b * b < (g + 1) * (g + 1).
Print Assumptions C09_gs_floor_sqrt.

(** ... and the track is floor(atan2(Vew, Vns)) in degrees, normalised to [0, 360), in the reals
    (proved from 89 Interval-checked enclosures of tan(k deg) and a 91k-case gap check) *)
Theorem C09_track_floor_atan2 : forall sx sy a b,
  (0 <= a <= 1023)%Z -> (0 <= b <= 1023)%Z -> (a, b) <> (0, 0)%Z ->
  let t := track_of sx a sy b in
  let ang := norm360 (atan2deg (signed sx a) (signed sy b)) in
  (0 <= t < 360)%Z /\ (IZR t <= ang < IZR t + 1)%R.
Proof. exact track_of_sound. Qed.
Check C09_track_floor_atan2 : forall sx sy a b,
  (0 <= a <= 1023)%Z -> (0 <= b <= 1023)%Z -> (a, b) <> (0, 0)%Z ->
  let t := track_of sx a sy b in
  let ang := norm360 (atan2deg (signed sx a) (signed sy b)) in
  (0 <= t < 360)%Z /\ (IZR t <= ang < IZR t + 1)%R.
Print Assumptions C09_track_floor_atan2.

(** the decoded values reach the row on the squitter path (first and n-th frame alike) ... *)
Theorem C09_update : forall r m st r',
  update_from_ext_19 r m st = Ok r' ->
  exists v, vertical_rate m = Ok v /\ vrate r' = v /\
  (st = 1 \/ st = 2 -> exists t g, track_and_groundspeed m (st =? 2) = Ok (t, g) /\ track r' = t /\ grspeed r' = g).
Proof. exact update_from_ext_19_vel. Qed.
Check C09_update : forall r m st r',
  update_from_ext_19 r m st = Ok r' ->
  exists v, vertical_rate m = Ok v /\ vrate r' = v /\
  (st = 1 \/ st = 2 -> exists t g, track_and_groundspeed m (st =? 2) = Ok (t, g) /\ track r' = t /\ grspeed r' = g).
Print Assumptions C09_update.

(** ... and on the downlink path (the default one): exactly what DF::from_message decoded *)
Theorem C09_downlink : forall r e,
  vrate (amend_from_ext_19 r e) = e_vrate e /\
  (snd (e_mt e) = 1 \/ snd (e_mt e) = 2 ->
   track (amend_from_ext_19 r e) = e_track e /\ grspeed (amend_from_ext_19 r e) = e_grspeed e).
Proof. exact amend_from_ext_19_vel. Qed.
Check C09_downlink : forall r e,
  vrate (amend_from_ext_19 r e) = e_vrate e /\
  (snd (e_mt e) = 1 \/ snd (e_mt e) = 2 ->
   track (amend_from_ext_19 r e) = e_track e /\ grspeed (amend_from_ext_19 r e) = e_grspeed e).
Print Assumptions C09_downlink.

(** the unit-test frame: 416 kt / 321 deg *)
Example C09_example : vel_spec false 1 262 0 325 = (Some 321, Some 416).
Proof. vm_compute. reflexivity. Qed.

(** ---- through the whole pipeline ---- *)
From SQ Require Import Base Table Update Velocity VelSpec TableProofs TotalPipeline EndToEnd.
Local Open Scope N_scope.

(** an accepted TC19 squitter for an aircraft already in the table sets vertical rate (and for subtypes 1/2 ground speed and track) to the specified values, on both update paths -- first and later frames, with and without -U *)
Theorem C09_end_to_end : forall (o : opts) (now : Z) (s : state) (line : list N) (s' : state) (rf : bool) (a : N) (r : row) (m : list N), step_line o now s line = Ok (s', rf, Applied 17 a) -> lookup (tbl s) a = Some r -> (0 < delete_after o)%Z -> get_message line = Ok (Some m) -> field m 33 37 = 19 -> exists r' : row, lookup (tbl s') a = Some r' /\ vrate r' = vrate_spec (bit_at m 69) (field m 70 78) /\ (field m 38 40 = 1 \/ field m 38 40 = 2 -> (track r', grspeed r') = vel_spec (field m 38 40 =? 2) (bit_at m 46) (field m 47 56) (bit_at m 57) (field m 58 67)).
Proof. exact velocity_end_to_end. Qed.
Check C09_end_to_end : forall (o : opts) (now : Z) (s : state) (line : list N) (s' : state) (rf : bool) (a : N) (r : row) (m : list N), step_line o now s line = Ok (s', rf, Applied 17 a) -> lookup (tbl s) a = Some r -> (0 < delete_after o)%Z -> get_message line = Ok (Some m) -> field m 33 37 = 19 -> exists r' : row, lookup (tbl s') a = Some r' /\ vrate r' = vrate_spec (bit_at m 69) (field m 70 78) /\ (field m 38 40 = 1 \/ field m 38 40 = 2 -> (track r', grspeed r') = vel_spec (field m 38 40 =? 2) (bit_at m 46) (field m 47 56) (bit_at m 57) (field m 58 67)).
Print Assumptions C09_end_to_end.



(** ---- the frame that creates the row ---- *)
From SQ Require Import Base Table Update EndToEnd EndToEnd2.


(** a velocity squitter that creates the row delivers vertical rate, ground speed and track *)
Theorem C09_new_row : forall (o : opts) (now : Z) (s : state) (line : list N) (s' : state) (rf : bool) (a : N) (m : list N), step_line o now s line = Ok (s', rf, Applied 17 a) -> lookup (tbl s) a = None -> (0 < delete_after o)%Z -> get_message line = Ok (Some m) -> field m 33 37 = 19 -> exists r' : row, lookup (tbl s') a = Some r' /\ vrate r' = VelSpec.vrate_spec (bit_at m 69) (field m 70 78) /\ (field m 38 40 = 1 \/ field m 38 40 = 2 -> (track r', grspeed r') = VelSpec.vel_spec (field m 38 40 =? 2) (bit_at m 46) (field m 47 56) (bit_at m 57) (field m 58 67)).
Proof. exact velocity_new_row. Qed.
Check C09_new_row : forall (o : opts) (now : Z) (s : state) (line : list N) (s' : state) (rf : bool) (a : N) (m : list N), step_line o now s line = Ok (s', rf, Applied 17 a) -> lookup (tbl s) a = None -> (0 < delete_after o)%Z -> get_message line = Ok (Some m) -> field m 33 37 = 19 -> exists r' : row, lookup (tbl s') a = Some r' /\ vrate r' = VelSpec.vrate_spec (bit_at m 69) (field m 70 78) /\ (field m 38 40 = 1 \/ field m 38 40 = 2 -> (track r', grspeed r') = VelSpec.vel_spec (field m 38 40 =? 2) (bit_at m 46) (field m 47 56) (bit_at m 57) (field m 58 67)).
Print Assumptions C09_new_row.


