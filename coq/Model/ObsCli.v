(** case kind C: the CLI on one file at time 0 with --update=-1: every printed frame *)
From SQ Require Export Display.
From SQ Require Import Obs.
Local Open Scope N_scope.

Definition run_c (o : opts) (body : bytes) : bytes * bytes :=
  match split_on 58 body [] with
  | _ :: rest :: _ =>
      match run_cli o 0 (seg_bytes rest) with
      | Ok frames => (str "ok", join [30] (map (join [29]) frames))
      | Panic _ => (str "panic", [])
      end
  | _ => (str "skip", [])
  end.

(** case kind T: a TCP session = the byte blobs of its connections in order; observation = final table *)
Definition run_t (o : opts) (body : bytes) : bytes * bytes :=
  let blobs := map (fun s => match split_on 58 s [] with _ :: rest :: _ => seg_bytes rest | _ => [] end)
                   (filter (fun s => negb (Nat.eqb (List.length s) 0)) (split 59 body)) in
  match run_tcp_table o 0 [] blobs with
  | Ok t => (str "ok", dump_table 0 t)
  | Panic _ => (str "panic", [])
  end.

Definition run_case2 (line : bytes) : bytes :=
  match split 9 line with
  | id :: kind :: os :: body :: _ =>
      match kind with
      | [67] => let '(oc, obs) := run_c (parse_opts os) body in id ++ [9] ++ oc ++ [9] ++ obs
      | [84] => let '(oc, obs) := run_t (parse_opts os) body in id ++ [9] ++ oc ++ [9] ++ obs
      | _ => run_case line
      end
  | _ => []
  end.
