(** case kind C: the CLI on one file at time 0 with --update=-1: every printed frame *)
From SQ Require Export Display.
From SQ Require Import Obs.
Local Open Scope N_scope.

Definition run_c (o : opts) (body : bytes) : bytes * bytes :=
  match split_on 58 body [] with
  | _ :: rest :: _ =>
      match run_cli o 0 (seg_bytes rest) with
      | Ok frames => (str "ok", join [30] (map (join [29]) frames))
      | Panic _ => (str "panic", [])
      end
  | _ => (str "skip", [])
  end.

(** case kind T: a TCP session = its connection attempts in order.  The number before ':' is the
    scripted peer's event type: 3 / 8 = the attempt is refused (8: for minutes); 2 / 7 = bytes then a reset (read error);
    anything else = bytes (possibly none) then a clean close or a connection that stays open.
    Observation = the retry pauses after each attempt, then the final table. *)
Fixpoint num_of (l : bytes) (acc : N) : N :=
  match l with
  | [] => acc
  | c :: t => if (48 <=? c) && (c <=? 57) then num_of t (10 * acc + (c - 48)) else acc
  end.

Definition tcp_event (s : bytes) : conn_event :=
  match split_on 58 s [] with
  | ty :: rest :: _ =>
      let k := num_of ty 0 in
      if (k =? 3) || (k =? 8) || (k =? 12) then Refused
      else Delivered (seg_bytes rest) (negb ((k =? 2) || (k =? 7)))
  | _ => Delivered [] true
  end.

Definition run_t (o : opts) (body : bytes) : bytes * bytes :=
  let evs := map tcp_event (filter (fun s => negb (Nat.eqb (List.length s) 0)) (split 59 body)) in
  match run_tcp_loop o 0 [] evs with
  | Ok (t, ps) => (str "ok", str "pauses=" ++ join [59] (map dec ps) ++ [35] ++ dump_table 0 t)
  | Panic _ => (str "panic", [])
  end.

(** case kind D: the history of kind H, observed through the row renderer: after every segment each row is shown
    as the table line the program would print at that moment (blanks written as '_'); the -i letters select the
    column groups, the reader itself stays quiet *)
Definition dump_disp (o : opts) (now : Z) (t : table) : bytes :=
  join [124] (map (fun '(k, r) =>
                     kv "key" (hex6 k)
                     ++ kv "disp" (map (fun c => if c =? 32 then 95 else c) (render_row o now (fun _ => str "?????") r)))
                  (sort_table t)).

Fixpoint run_segs_d (o : opts) (t : table) (segs : list bytes) (acc : list bytes) : bool * list bytes :=
  match segs with
  | [] => (true, rev_append acc [])
  | s :: rest =>
      match s with
      | [] => run_segs_d o t rest acc
      | _ =>
        match split_on 58 s [] with
        | ts :: body :: _ =>
            let now := parse_z ts in
            match read_lines o now t (seg_bytes body) with
            | Ok t' => run_segs_d o t' rest (dump_disp o now t' :: acc)
            | Panic _ => (false, rev_append acc [])
            end
        | _ => run_segs_d o t rest acc
        end
      end
  end.

Definition run_d (o : opts) (body : bytes) : bytes * bytes :=
  let '(ok, ds) := run_segs_d o [] (split 59 body) [] in
  (if ok then str "ok" else str "panic", join [35] ds).

Definition run_case2 (line : bytes) : bytes :=
  match split 9 line with
  | id :: kind :: os :: body :: _ =>
      match kind with
      | [67] => let '(oc, obs) := run_c (parse_opts os) body in id ++ [9] ++ oc ++ [9] ++ obs
      | [84] => let '(oc, obs) := run_t (parse_opts os) body in id ++ [9] ++ oc ++ [9] ++ obs
      | [68] => let '(oc, obs) := run_d (parse_opts os) body in id ++ [9] ++ oc ++ [9] ++ obs
      | _ => run_case line
      end
  | _ => []
  end.
