(** src/decoder/utils/calc.rs : bit addressing of the nibble vector. *)
From SQ Require Export Machine.

(** [bit_location(position)]: (position-1)>>2 , (position-1)&3 ; position >= 1 *)
Definition bit_location (p : nat) : res (nat * nat) :=
  match p with
  | O => Panic "attempt to subtract with overflow"
  | S q => Ok (Nat.div q 4, Nat.modulo q 4)
  end.

Definition range_value (m : list N) (sb eb : nat) : res (option N) :=
  '(sby, sbi) <- bit_location sb ;;
  '(eby, ebi) <- bit_location eb ;;
  if (Nat.ltb eby sby || (Nat.eqb eby sby && Nat.ltb ebi sbi))%bool then Ok None else
  match (eby - sby)%nat with
  | O =>
      x <- idx m sby ;;
      Ok (Some (N.shiftr (N.land x (N.shiftr 15 (N.of_nat sbi))) (N.of_nat (3 - ebi))))
  | S O =>
      x <- idx m sby ;;
      y <- idx m eby ;;
      Ok (Some (N.lor (shl32 (N.land x (N.shiftr 15 (N.of_nat sbi))) (N.of_nat (ebi + 1)))
                      (N.shiftr y (N.of_nat (3 - ebi)))))
  | _ =>
      x <- idx m sby ;;
      mid <- slice m (sby + 1) eby ;;
      y <- idx m eby ;;
      let acc := fold_left (fun a z => N.lor (shl32 a 4) (N.land z 15)) mid
                           (N.land x (N.shiftr 15 (N.of_nat sbi))) in
      Ok (Some (N.lor (shl32 acc (N.of_nat (ebi + 1))) (N.shiftr y (N.of_nat (3 - ebi)))))
  end.

(** single bit [(message[ibyte] >> (3 - ibit)) & 1] ; flag 0 means "no flag" *)
Definition flag_value (m : list N) (flag : nat) : res N :=
  match flag with
  | O => Ok 0
  | _ =>
      '(fby, fbi) <- bit_location flag ;;
      x <- idx m fby ;;
      Ok (N.land (N.shiftr x (N.of_nat (3 - fbi))) 1)
  end.

Definition flag_and_range_value (m : list N) (flag sb eb : nat) : res (option (N * N)) :=
  f <- flag_value m flag ;;
  v <- range_value m sb eb ;;
  Ok (omap (fun v => (f, v)) v).

Definition status_flag_and_range_value (m : list N) (status flag sb eb : nat)
  : res (option (N * N * N)) :=
  s <- flag_value m status ;;
  fv <- flag_and_range_value m flag sb eb ;;
  Ok (omap (fun '(f, v) => (s, f, v)) fv).

(** well-formed nibble vector: every element is a hex digit *)
Definition wf (m : list N) : Prop := Forall (fun x => x < 16) m.
Definition wfb (m : list N) : bool := forallb (fun x => x <? 16) m.
