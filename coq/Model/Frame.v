(** Line -> frame: src/decoder/utils/format.rs (clean_squitter), utils.rs (get_message),
    utils/crc.rs (crc56, crc112, reminder), adsb/icao.rs (get_icao), downlink.rs. *)
From SQ Require Export Nibbles.

(** [char::to_digit(16)] on one byte of a valid UTF-8 string.  Bytes >= 0x80 only occur
    inside multi-byte characters, which are never digits. *)
Definition hexval (b : N) : option N :=
  if (48 <=? b) && (b <=? 57) then Some (b - 48)
  else if (65 <=? b) && (b <=? 70) then Some (b - 55)
  else if (97 <=? b) && (b <=? 102) then Some (b - 87)
  else None.

Fixpoint filter_map {A B} (f : A -> option B) (l : list A) : list B :=
  match l with
  | [] => []
  | a :: t => match f a with Some b => b :: filter_map f t | None => filter_map f t end
  end.

Definition digits (line : list N) : list N := filter_map hexval line.

(** clean_squitter: 14|28 digits kept, 26|40 digits lose their first 12 *)
Definition clean_squitter (line : list N) : option (list N) :=
  let d := digits line in
  match List.length d with
  | 14%nat | 28%nat => Some d
  | 26%nat | 40%nat => Some (skipn 12 d)
  | _ => None
  end.

(** ---- CRC ---- *)
Definition poly : N := 4294575232. (* 0xFFFA0480 *)
Definition msb32 (d : N) : bool := negb (N.land d 2147483648 =? 0).

Definition crc56_step (d : N) : N :=
  shl32 (if msb32 d then N.lxor d poly else d) 1.

Fixpoint iter {A} (n : nat) (f : A -> A) (a : A) : A :=
  match n with O => a | S k => iter k f (f a) end.

Definition expect {A} (o : option A) (why : string) : res A :=
  match o with Some a => Ok a | None => Panic why end.

Definition crc56 (m : list N) : res N :=
  d <- range_value m 1 32 ;;
  d <- expect d "Cannot set data in crc56." ;;
  Ok (N.shiftr (iter 32 crc56_step d) 8).

Definition crc112_step (s : N * N * N) : N * N * N :=
  let '(d, d1, d2) := s in
  let d := if msb32 d then N.lxor d poly else d in
  let d := shl32 d 1 in
  let d := if msb32 d1 then N.lor d 1 else d in
  let d1 := shl32 d1 1 in
  let d1 := if msb32 d2 then N.lor d1 1 else d1 in
  let d2 := shl32 d2 1 in
  (d, d1, d2).

Definition crc112 (m : list N) : res N :=
  d <- range_value m 1 32 ;;
  d <- expect d "Cannot set data in crc112." ;;
  d1 <- range_value m 33 64 ;;
  d1 <- expect d1 "Cannot set data1 in crc112." ;;
  d2 <- range_value m 65 88 ;;
  d2 <- expect (omap (fun x => shl32 x 8) d2) "Cannot set data2 in crc112." ;;
  let '(d, _, _) := iter 88 crc112_step (d, d1, d2) in
  Ok (N.shiftr d 8).

Definition get_crc (m : list N) (df : N) : res N :=
  if df <=? 15 then crc56 m else crc112 m.

(** reminder(): the part of the frame's CRC remainder that must be zero *)
Definition reminder (m : list N) : res N :=
  match List.length m with
  | 14%nat =>
      crc <- crc56 m ;;
      p <- range_value m (56 - 23) 56 ;;
      p <- expect p "Cannot set parity in reminder." ;;
      df <- range_value m 1 5 ;;
      let r := N.lxor crc p in
      Ok (match df with
          | Some 17 | Some 18 => r
          | Some 11 => N.land r 16777088 (* 0xFFFF80 *)
          | _ => 0 end)
  | 28%nat =>
      crc <- crc112 m ;;
      p <- range_value m (112 - 23) 112 ;;
      p <- expect p "Cannot set parity in reminder." ;;
      df <- range_value m 1 5 ;;
      let r := N.lxor crc p in
      Ok (match df with
          | Some 17 | Some 18 => r
          | Some 11 => N.land r 16777088
          | _ => 0 end)
  | _ => Ok 16777215
  end.

(** get_message: clean, length 14|28, DF/length agreement, parity *)
Definition get_message (line : list N) : res (option (list N)) :=
  match clean_squitter line with
  | None => Ok None
  | Some m =>
      if negb (Nat.eqb (List.length m) 14 || Nat.eqb (List.length m) 28) then Ok None else
      m0 <- idx m 0 ;;
      if negb (Bool.eqb (m0 <? 8) (Nat.eqb (List.length m) 14)) then Ok None else
      r <- reminder m ;;
      if r =? 0 then Ok (Some m) else Ok None
  end.

Definition get_downlink_format (m : list N) : res (option N) := range_value m 1 5.

Definition nonzero (o : option N) : option N := ofilter (fun x => negb (x =? 0)) o.

Definition ap_format (df : N) : bool :=
  (df =? 0) || (df =? 4) || (df =? 5) || (df =? 16) || (df =? 20) || (df =? 21).

Definition get_icao (m : list N) (df : N) : res (option N) :=
  if ap_format df then
    let len := (List.length m * 4)%nat in
    if Nat.ltb len 23 then Panic "attempt to subtract with overflow" else
    r <- range_value m (len - 23) len ;;
    match r with
    | None => Ok None
    | Some r => c <- get_crc m df ;; Ok (nonzero (Some (N.lxor r c)))
    end
  else
    r <- range_value m 9 32 ;; Ok (nonzero r).

(** utils.rs *)
Definition get_message_type (m : list N) : res (N * N) :=
  a <- idx m 8 ;; b <- idx m 9 ;;
  Ok (N.lor (N.shiftl a 1) (N.shiftr b 3), N.land b 7).

Definition get_capability (m : list N) : res N :=
  a <- idx m 1 ;; Ok (N.land a 7).
