(** src/decoder/plane.rs : the aircraft row.  Times are Z milliseconds, chars are code points. *)
From SQ Require Export Bds.
From SQ Require Import Tables.
From RecordUpdate Require Export RecordSet.
Export RecordSetNotations.
Local Open Scope N_scope.

Record row := mkRow {
  icao : N;
  cap_ca : N;
  cap : capability;
  category : N * N;
  reg : string;
  r_ais : option (list N);
  r_altitude : option N;
  altitude_gnss_ : option N;
  altitude_source : N;
  selected_altitude : option N;
  baro_setting : option N;
  target_alt_source : N;
  r_squawk : option N;
  surv_status : N;
  threat : option N;
  vrate : option Z;
  vrate_source : N;
  cpr_lat0 : N; cpr_lat1 : N; cpr_lon0 : N; cpr_lon1 : N;
  cpr_t0 : Z; cpr_t1 : Z;
  cpr_s0 : bool; cpr_s1 : bool;
  lat : Q; lon : Q;
  dist : option (Q * Q * Q * Q);     (* (lat, lon, observer lat, observer lon) the distance was computed from *)
  grspeed : option N;
  true_airspeed : option N;
  indicated_airspeed : option N;
  mach : option Q;
  ground_mov : option Q;
  turn : N;
  track : option N;
  track_source : N;
  r_heading : option N;
  heading_source : N;
  roll_angle : option Z;
  track_angle_rate : option Z;
  bds50_t : option Z;
  temperature : option Q;
  wind : option (N * N);
  turbulence : option N;
  humidity : option N;
  pressure : option N;
  timestamp : Z;
  position_t : option Z;
  track_t : option Z;
  heading_t : option Z;
  last_tc : N;
  last_df : N;
  adsb_version : option N
}.

#[export] Instance eta_row : Settable _ := settable! mkRow
  < icao; cap_ca; cap; category; reg; r_ais; r_altitude; altitude_gnss_; altitude_source;
    selected_altitude; baro_setting; target_alt_source; r_squawk; surv_status; threat; vrate;
    vrate_source; cpr_lat0; cpr_lat1; cpr_lon0; cpr_lon1; cpr_t0; cpr_t1; cpr_s0; cpr_s1;
    lat; lon; dist; grspeed; true_airspeed; indicated_airspeed; mach; ground_mov; turn; track;
    track_source; r_heading; heading_source; roll_angle; track_angle_rate; bds50_t; temperature;
    wind; turbulence; humidity; pressure; timestamp; position_t; track_t; heading_t; last_tc;
    last_df; adsb_version >.

Definition SP : N := 32.  (* ' ' *)

(** Plane::new() at time [now] *)
Definition row_new (now : Z) : row :=
  mkRow 0 0 cap_default (0, 0) EmptyString None None None SP None None SP None SP None None 95
        0 0 0 0 now now false false 0%Q 0%Q None None None None None None 0 None SP None SP
        None None None None None None None None now None None None 0 0 None.

(** country/country_icao_mask.rs over the regenerated arm list (source order = precedence) *)
Fixpoint country_go (arms : list (N * N * string)) (a : N) : string :=
  match arms with
  | [] => country_default
  | (sh, pat, code) :: t => if N.shiftr a sh =? pat then code else country_go t a
  end.
Definition icao_to_country (a : N) : string := country_go country_arms a.
