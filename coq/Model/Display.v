(** src/decoder/plane/header.rs and simple_display.rs : what a refresh prints.
    Strings are lists of code points. *)
From SQ Require Export Sort.
From SQ Require Import Tables Obs.
From Coq Require Import Qround Qreduction.
Local Open Scope N_scope.

Definition spaces (n : nat) : bytes := repeat 32 n.
(** {:>w} / {:w} on a value already rendered: pads, never truncates *)
Definition pad_left (w : nat) (s : bytes) : bytes := spaces (w - List.length s) ++ s.
Definition pad_right (w : nat) (s : bytes) : bytes := s ++ spaces (w - List.length s).
Definition zero_pad (w : nat) (s : bytes) : bytes := repeat 48 (w - List.length s) ++ s.

(** fixed-point rendering of a rational with [p] decimals, round half to even, as Rust's
    float formatting does on the exact value *)
Definition round_half_even (q : Q) : Z :=
  let f := Qfloor q in
  let r := (q - (f # 1))%Q in
  match Qcompare r (1 # 2) with
  | Lt => f
  | Gt => (f + 1)%Z
  | Eq => if Z.even f then f else (f + 1)%Z
  end.

Definition fmt_fixed (p : nat) (q : Q) : bytes :=
  let scale := (10 ^ Z.of_nat p)%Z in
  let neg := Qlt_bool q 0 in
  let a := Qabs.Qabs q in
  let n := round_half_even (a * (scale # 1))%Q in
  let ip := (n / scale)%Z in
  let fp := (n mod scale)%Z in
  let body := decz ip ++ (match p with O => [] | _ => [46] ++ zero_pad p (decz fp) end) in
  (* Rust prints "-0.0" for small negatives that round to zero: keep the sign *)
  if neg then 45 :: body else body.

Definition has_flag (o : opts) (c : N) : bool := existsb (fun x => x =? c) (display_info o).
Definition fl_weather o := has_flag o 119.
Definition fl_angles o := has_flag o 97.
Definition fl_speed o := has_flag o 115.
Definition fl_altitude o := has_flag o 65.
Definition fl_extra o := has_flag o 101.

Definition group_on (o : opts) (g : string) : bool :=
  if String.eqb g "" then true
  else if String.eqb g "altitude" then fl_altitude o
  else if String.eqb g "speed" then fl_speed o
  else if String.eqb g "angles" then fl_angles o
  else if String.eqb g "weather" then fl_weather o
  else if String.eqb g "extra" then fl_extra o
  else false.

(** header.rs over the regenerated column list *)
Definition header_line (o : opts) : bytes :=
  List.concat (map (fun '(g, name, w) => if group_on o g then pad_left w (str name) ++ [32] else []) header_cols)
  ++ str header_tail.
Definition separator_line (o : opts) : bytes :=
  List.concat (map (fun '(g, name, w) => if group_on o g then repeat 45 w ++ [32] else []) header_cols)
  ++ str separator_tail.

Definition cell_oN (w : nat) (v : option N) : bytes :=
  match v with Some x => pad_left w (dec x) ++ [32] | None => spaces w ++ [32] end.
Definition cell_oZ (w : nat) (v : option Z) : bytes :=
  match v with Some x => pad_left w (decz x) ++ [32] | None => spaces w ++ [32] end.

Definition age10 (now : Z) (t : option Z) : bytes :=
  match t with
  | Some t => [hexdigit (Z.to_N (Z.land (Z.quot (num_seconds now t) 10) 15))]
  | None => [32]
  end.

(** distance cell: the model has no haversine; [dcell] renders it (supplied by the caller) *)
Definition render_row (o : opts) (now : Z) (dcell : row -> bytes) (r : row) : bytes :=
  zero_pad 6 (hex_go 6 (icao r) []) ++ [32]
  ++ pad_right 2 (str (reg r)) ++ [32]
  ++ (match r_squawk r with Some s => zero_pad 4 (dec s) | None => spaces 4 end)
  ++ (match threat r with Some c => [c] | None => [32] end)
  ++ (match get_wake_turbulence_category (category r) with Some w => [w; 32] | None => [32; 32] end)
  ++ (match r_ais r with Some a => pad_right 8 a ++ [32] | None => spaces 8 ++ [32] end)
  ++ (if negb (Qeq_bool (lat r) 0) && negb (Qeq_bool (lon r) 0)
      then pad_left 9 (fmt_fixed 5 (lat r)) ++ [32] ++ pad_left 11 (fmt_fixed 5 (lon r)) ++ [32]
      else spaces 9 ++ [32] ++ spaces 11 ++ [32])
  ++ (match dist r with Some _ => pad_left 5 (dcell r) ++ [32] | None => spaces 5 ++ [32] end)
  ++ (match r_altitude r with Some a => pad_left 5 (dec a) ++ [altitude_source r] | None => spaces 5 ++ [32] end)
  ++ (if fl_altitude o then
        cell_oN 5 (altitude_gnss_ r)
        ++ (match selected_altitude r with Some a => pad_left 5 (dec a) ++ [target_alt_source r] | None => spaces 5 ++ [32] end)
        ++ cell_oN 4 (baro_setting r)
      else [])
  ++ (match vrate r with Some v => pad_left 5 (decz v) ++ [vrate_source r] | None => spaces 6 end)
  ++ (match track r with Some v => pad_left 3 (dec v) ++ [track_source r] | None => spaces 4 end)
  ++ (match r_heading r with Some v => pad_left 3 (dec v) ++ [heading_source r] | None => spaces 4 end)
  ++ cell_oN 3 (grspeed r)
  ++ (if fl_speed o then
        cell_oN 3 (true_airspeed r) ++ cell_oN 3 (indicated_airspeed r)
        ++ (match mach r with Some q => pad_left 4 (fmt_fixed 2 q) ++ [32] | None => spaces 4 ++ [32] end)
      else [])
  ++ (if fl_angles o then cell_oZ 3 (roll_angle r) ++ cell_oZ 3 (track_angle_rate r) else [])
  ++ (if fl_weather o then
        (match temperature r with Some q => pad_left 5 (fmt_fixed 1 q) ++ [32] | None => spaces 5 ++ [32] end)
        ++ (match wind r with
            | Some (a, b) => pad_left 3 (dec a) ++ [32] ++ pad_left 3 (dec b) ++ [32]
            | None => spaces 7 ++ [32] end)
        ++ cell_oN 3 (humidity r) ++ cell_oN 4 (pressure r) ++ cell_oN 2 (turbulence r)
      else [])
  ++ (if fl_extra o then
        dec (fst (category r)) ++ dec (snd (category r)) ++ [32]
        ++ (if negb (last_df r =? 0) then pad_left 2 (dec (last_df r)) ++ [32] else spaces 2 ++ [32])
        ++ (if negb (last_tc r =? 0) then pad_left 2 (dec (last_tc r)) ++ [32] else spaces 2 ++ [32])
        ++ (match adsb_version r with Some v => pad_right 1 (dec v) ++ [32] | None => [32; 32] end)
        ++ [surv_status r; 32]
        ++ age10 now (position_t r) ++ age10 now (track_t r)
        ++ (match heading_t r with Some _ => age10 now (heading_t r) ++ [32] | None => [32; 32] end)
      else [])
  ++ pad_left 2 (decz (num_seconds now (timestamp r))).

Definition counter_line (c : counters) : bytes :=
  List.concat (map (fun '(df, n) => str "DF" ++ dec df ++ [58] ++ decz n ++ [32]) (df_count c)).

(** one refresh: header, separator, rows in print order, separator, optional counter line *)
Definition render_frame (o : opts) (now : Z) (dkey : row -> Z) (dcell : row -> bytes) (s : state)
  : list bytes :=
  [header_line o; separator_line o]
  ++ map (fun p => render_row o now dcell (snd p)) (print_order dkey (order_by o) (tbl s))
  ++ [separator_line o]
  ++ (if count_df o then [counter_line (cnt s)] else []).

(** the CLI on a file: every frame printed while reading [bs] at time [now] *)
Fixpoint run_cli_lines (o : opts) (now : Z) (s : state) (ls : list (option (list N))) (acc : list (list bytes))
  : res (list (list bytes)) :=
  match ls with
  | [] => Ok (rev_append acc [])
  | l :: t =>
      '(s', refresh, _) <- step o now s l ;;
      run_cli_lines o now s' t
        (if refresh then render_frame o now (fun _ => 0%Z) (fun _ => str "?????") s' :: acc else acc)
  end.

Definition run_cli (o : opts) (now : Z) (bs : bytes) : res (list (list bytes)) :=
  run_cli_lines o now (mkState [] (counters_new now (update_s o))) (text_lines bs) [].

(** TCP source: connect_and_read_tcp holds ONE table across connections; each connection is a
    fresh read_lines call (fresh counters) over the bytes that connection delivered.  Refused
    attempts and the 5 s pauses deliver nothing and are therefore not events of this model. *)
Fixpoint run_tcp_table (o : opts) (now : Z) (t : table) (conns : list bytes) : res table :=
  match conns with
  | [] => Ok t
  | bs :: rest => t' <- read_lines o now t bs ;; run_tcp_table o now t' rest
  end.

(** The loop with its retry pauses.  Each iteration is one connection attempt: it is refused, or it
    delivers some bytes and then ends either cleanly (EOF: read_lines returns Ok, the loop reconnects
    at once) or with a read error such as a reset (read_lines returns Err, the loop sleeps 5 s).
    The observable schedule is the list of pauses (seconds) the loop makes after each attempt. *)
Inductive conn_event := Refused | Delivered (bs : bytes) (clean : bool).

Definition pause_after (e : conn_event) : N :=
  match e with Delivered _ true => 0 | _ => 5 end.

Fixpoint run_tcp_loop (o : opts) (now : Z) (t : table) (evs : list conn_event) : res (table * list N) :=
  match evs with
  | [] => Ok (t, [])
  | e :: rest =>
      t' <- match e with Refused => Ok t | Delivered bs _ => read_lines o now t bs end ;;
      '(t2, ps) <- run_tcp_loop o now t' rest ;;
      Ok (t2, pause_after e :: ps)
  end.
