(** Executable interface of the model for the correspondence check: parses one case line
    (same grammar the Rust harness reads) and prints the canonical observation.  Everything
    is bytes ([list N]); the OCaml driver only converts lines to and from [list N]. *)
From SQ Require Export Table.
From Coq Require Import Qreduction.
Local Open Scope N_scope.

Definition bytes := list N.

Fixpoint str (s : string) : bytes :=
  match s with
  | EmptyString => []
  | String c t => N_of_ascii c :: str t
  end.

Fixpoint dec_go (fuel : nat) (n : N) (acc : bytes) : bytes :=
  match fuel with
  | O => acc
  | S f => let acc' := (48 + n mod 10) :: acc in
           if n <? 10 then acc' else dec_go f (n / 10) acc'
  end.
Definition dec (n : N) : bytes := dec_go 400 n [].
Definition decz (z : Z) : bytes :=
  match z with
  | Zneg p => 45 :: dec (Npos p)
  | _ => dec (Z.to_N z)
  end.
Definition hexdigit (d : N) : N := if d <? 10 then 48 + d else 55 + d.
Fixpoint hex_go (k : nat) (n : N) (acc : bytes) : bytes :=
  match k with
  | O => acc
  | S k' => hex_go k' (n / 16) (hexdigit (n mod 16) :: acc)
  end.
Definition hex6 (n : N) : bytes := if n <? 16777216 then hex_go 6 n [] else hex_go 8 n [].
Definition qstr (q : Q) : bytes :=
  let q := Qred q in decz (Qnum q) ++ [47] ++ dec (Npos (Qden q)).

Definition oN (o : option N) : bytes := match o with Some n => dec n | None => [45] end.
Definition oZ (o : option Z) : bytes := match o with Some n => decz n | None => [45] end.
Definition oQ (o : option Q) : bytes := match o with Some n => qstr n | None => [45] end.
Definition bit (b : bool) : bytes := if b then [49] else [48].
Definition age (now t : Z) : bytes := decz (num_seconds now t).
Definition oage (now : Z) (t : option Z) : bytes := match t with Some t => age now t | None => [45] end.

Definition kv (k : string) (v : bytes) : bytes := str k ++ [61] ++ v ++ [32].

Definition dump_row (now : Z) (r : row) : bytes :=
  kv "icao" (hex6 (icao r)) ++ kv "ca" (dec (cap_ca r)) ++ kv "cf" (dec (c_flags (cap r)))
  ++ kv "cb" (bit (c20 (cap r)) ++ bit (c40 (cap r)) ++ bit (c44 (cap r)) ++ bit (c50 (cap r)) ++ bit (c60 (cap r)))
  ++ kv "cat" (dec (fst (category r)) ++ [46] ++ dec (snd (category r)))
  ++ kv "reg" (match reg r with EmptyString => [45] | s => str s end)
  ++ kv "ais" (match r_ais r with Some s => [34] ++ s ++ [34] | None => [45] end)
  ++ kv "alt" (oN (r_altitude r)) ++ kv "altg" (oN (altitude_gnss_ r)) ++ kv "alts" (dec (altitude_source r))
  ++ kv "sela" (oN (selected_altitude r)) ++ kv "baro" (oN (baro_setting r))
  ++ kv "tas_" (dec (target_alt_source r)) ++ kv "sq" (oN (r_squawk r)) ++ kv "ss" (dec (surv_status r))
  ++ kv "te" (oN (threat r)) ++ kv "vr" (oZ (vrate r)) ++ kv "vrs" (dec (vrate_source r))
  ++ kv "cl0" (dec (cpr_lat0 r)) ++ kv "cl1" (dec (cpr_lat1 r))
  ++ kv "co0" (dec (cpr_lon0 r)) ++ kv "co1" (dec (cpr_lon1 r))
  ++ kv "cs" (bit (cpr_s0 r) ++ bit (cpr_s1 r))
  ++ kv "ct0" (age now (cpr_t0 r)) ++ kv "ct1" (age now (cpr_t1 r))
  ++ kv "lat" (qstr (lat r)) ++ kv "lon" (qstr (lon r))
  ++ kv "dist" (match dist r with
                | Some (a, b, c, d) => str "D:" ++ qstr a ++ [59] ++ qstr b ++ [59] ++ qstr c ++ [59] ++ qstr d
                | None => [45] end)
  ++ kv "gs" (oN (grspeed r)) ++ kv "tas" (oN (true_airspeed r)) ++ kv "ias" (oN (indicated_airspeed r))
  ++ kv "mach" (oQ (mach r)) ++ kv "gm" (oQ (ground_mov r)) ++ kv "turn" (dec (turn r))
  ++ kv "trk" (oN (track r)) ++ kv "trks" (dec (track_source r))
  ++ kv "hdg" (oN (r_heading r)) ++ kv "hdgs" (dec (heading_source r))
  ++ kv "roll" (oZ (roll_angle r)) ++ kv "tar" (oZ (track_angle_rate r))
  ++ kv "b5t" (oage now (bds50_t r)) ++ kv "temp" (oQ (temperature r))
  ++ kv "wind" (match wind r with Some (a, b) => dec a ++ [46] ++ dec b | None => [45] end)
  ++ kv "turb" (oN (turbulence r)) ++ kv "hum" (oN (humidity r)) ++ kv "pres" (oN (pressure r))
  ++ kv "ts" (age now (timestamp r)) ++ kv "pt" (oage now (position_t r))
  ++ kv "tt" (oage now (track_t r)) ++ kv "ht" (oage now (heading_t r))
  ++ kv "ltc" (dec (last_tc r)) ++ kv "ldf" (dec (last_df r))
  ++ str "ver=" ++ oN (adsb_version r).

(** rows in ascending key order *)
Fixpoint insert_sorted (x : N * row) (l : table) : table :=
  match l with
  | [] => [x]
  | y :: t => if fst x <=? fst y then x :: l else y :: insert_sorted x t
  end.
Definition sort_table (t : table) : table := fold_right insert_sorted [] t.

Fixpoint join (sep : bytes) (l : list bytes) : bytes :=
  match l with
  | [] => []
  | [x] => x
  | x :: t => x ++ sep ++ join sep t
  end.

Definition dump_table (now : Z) (t : table) : bytes :=
  join [124] (map (fun '(k, r) => kv "key" (hex6 k) ++ dump_row now r) (sort_table t)).

(** ---- parsing ---- *)
Fixpoint split_on (sep : N) (l : bytes) (cur : bytes) : list bytes :=
  match l with
  | [] => [rev_append cur []]
  | b :: t => if b =? sep then rev_append cur [] :: split_on sep t [] else split_on sep t (b :: cur)
  end.
Definition split (sep : N) (l : bytes) : list bytes := split_on sep l [].

Definition hexv (b : N) : N := match hexval b with Some v => v | None => 0 end.
Fixpoint unhex (l : bytes) : bytes :=
  match l with
  | a :: b :: t => (hexv a * 16 + hexv b) :: unhex t
  | _ => []
  end.
Definition parse_dec (l : bytes) : N := fold_left (fun a b => a * 10 + (b - 48)) l 0.
Definition parse_z (l : bytes) : Z :=
  match l with
  | 45 :: t => (- Z.of_N (parse_dec t))%Z
  | _ => Z.of_N (parse_dec l)
  end.
Definition is_digit (b : N) : bool := (48 <=? b) && (b <=? 57).

(** "[+-]digits[.digits]" -> Q ; anything else -> None *)
Definition parse_q (l : bytes) : option Q :=
  let '(neg, l) := match l with 45 :: t => (true, t) | 43 :: t => (false, t) | _ => (false, l) end in
  match split 46 l with
  | [ip] =>
      if forallb is_digit ip && negb (Nat.eqb (List.length ip) 0)
      then Some ((if neg then Z.opp else id) (Z.of_N (parse_dec ip)) # 1)%Q else None
  | [ip; fp] =>
      if forallb is_digit ip && forallb is_digit fp && negb (Nat.eqb (List.length ip + List.length fp) 0)
      then Some (Qmake ((if neg then Z.opp else id) (Z.of_N (parse_dec (ip ++ fp))))
                       (Z.to_pos (10 ^ Z.of_nat (List.length fp))))
      else None
  | _ => None
  end.

(** char::is_whitespace on ASCII + the common Unicode blanks are filtered by the Rust code;
    the generators only use ASCII blanks *)
Definition is_ws (b : N) : bool := (b =? 32) || ((9 <=? b) && (b <=? 13)).

(** observer.rs Coordinates::from_str *)
Definition parse_observer (s : bytes) : option (Q * Q) :=
  match split 44 s with
  | [a; b] =>
      match parse_q (filter (fun c => negb (is_ws c)) a), parse_q (filter (fun c => negb (is_ws c)) b) with
      | Some la, Some lo => Some (la, lo)
      | _, _ => None
      end
  | _ => None
  end.

Definition opts_default : opts := mkOpts false false None false [81] [] 3 60 None.

Definition parse_opt (o : opts) (kvp : bytes) : opts :=
  match split 61 kvp with
  | [k; v] =>
      let on := match v with [49] => true | _ => false end in
      match k with
      | [85] => mkOpts on (relaxed o) (filter_df o) (count_df o) (display_info o) (order_by o) (update_s o) (delete_after o) (observer o)
      | [82] => mkOpts (use_update o) on (filter_df o) (count_df o) (display_info o) (order_by o) (update_s o) (delete_after o) (observer o)
      | [102] => mkOpts (use_update o) (relaxed o) (Some (map parse_dec (split 43 v))) (count_df o) (display_info o) (order_by o) (update_s o) (delete_after o) (observer o)
      | [99] => mkOpts (use_update o) (relaxed o) (filter_df o) on (display_info o) (order_by o) (update_s o) (delete_after o) (observer o)
      | [105] => mkOpts (use_update o) (relaxed o) (filter_df o) (count_df o) (List.concat (split 43 v)) (order_by o) (update_s o) (delete_after o) (observer o)
      | [111] => mkOpts (use_update o) (relaxed o) (filter_df o) (count_df o) (display_info o) (split 43 v) (update_s o) (delete_after o) (observer o)
      | [117] => mkOpts (use_update o) (relaxed o) (filter_df o) (count_df o) (display_info o) (order_by o) (parse_z v) (delete_after o) (observer o)
      | [100] => mkOpts (use_update o) (relaxed o) (filter_df o) (count_df o) (display_info o) (order_by o) (update_s o) (parse_z v) (observer o)
      | [79] => mkOpts (use_update o) (relaxed o) (filter_df o) (count_df o) (display_info o) (order_by o) (update_s o) (delete_after o) (parse_observer (unhex v))
      | _ => o
      end
  | _ => o
  end.

Definition parse_opts (s : bytes) : opts :=
  fold_left parse_opt (split 44 s) opts_default.

(** segment body -> bytes of the file the reader sees *)
Definition seg_bytes (rest : bytes) : bytes :=
  match rest with
  | 33 :: blob => unhex blob
  | _ => List.concat (map (fun l => match l with
                               | [] => []
                               | [46] => [10]
                               | _ => unhex l ++ [10] end) (split 44 rest))
  end.

Fixpoint run_segs (o : opts) (t : table) (segs : list bytes) (acc : list bytes) : bool * list bytes :=
  match segs with
  | [] => (true, rev_append acc [])
  | s :: rest =>
      match s with
      | [] => run_segs o t rest acc
      | _ =>
        match split_on 58 s [] with
        | ts :: body :: _ =>
            let now := parse_z ts in
            match read_lines o now t (seg_bytes body) with
            | Ok t' => run_segs o t' rest (dump_table now t' :: acc)
            | Panic _ => (false, rev_append acc [])
            end
        | _ => run_segs o t rest acc
        end
      end
  end.

Definition run_h (o : opts) (body : bytes) : bytes * bytes :=
  let '(ok, ds) := run_segs o [] (split 59 body) [] in
  (if ok then str "ok" else str "panic", join [35] ds).

Definition run_g (body : bytes) : bytes * bytes :=
  let line := unhex body in
  if negb (valid_utf8 line) then (str "ok", str "notutf8") else
  match get_message line with
  | Panic _ => (str "panic", [])
  | Ok None => (str "ok", str "msg=-")
  | Ok (Some m) =>
      let hm := str "msg=" ++ map hexdigit m in
      match get_downlink_format m with
      | Panic _ => (str "panic", [])
      | Ok None => (str "ok", hm ++ str " df=-")
      | Ok (Some df) =>
          match get_icao m df with
          | Panic _ => (str "panic", [])
          | Ok ic => (str "ok", hm ++ str " df=" ++ dec df ++ str " icao="
                                 ++ match ic with Some a => hex6 a | None => [45] end)
          end
      end
  end.

Definition ounwrap (o : option N) : N := match o with Some v => v | None => 0 end.

Definition dump_compact (r : row) : bytes :=
  str "trk=" ++ oN (track r) ++ str " gs=" ++ oN (grspeed r) ++ str " vr=" ++ oZ (vrate r).

Fixpoint run_m_go (o : opts) (compact path_m : bool) (r : option row) (ms : list bytes) (acc : list bytes)
  : bool * list bytes :=
  match ms with
  | [] => (true, rev_append acc [])
  | [] :: rest => run_m_go o compact path_m r rest acc
  | hm :: rest =>
      let m := map hexv hm in
      let step : res (option row) :=
        dfo <- get_downlink_format m ;;
        let df := ounwrap dfo in
        ao <- get_icao m df ;;
        let a := ounwrap ao in
        if path_m then
          match r with
          | None => r' <- row_from_message (observer o) 0 m df a (relaxed o) ;; Ok (Some r')
          | Some r => r' <- plane_update (observer o) 0 r m df (relaxed o) ;; Ok (Some r')
          end
        else
          d <- df_from_message m ;;
          match d with
          | None => Ok r
          | Some d =>
              match r with
              | None => Ok (Some (row_from_downlink (observer o) 0 d a))
              | Some r => Ok (Some (update_from_downlink (observer o) 0 r d))
              end
          end in
      match step with
      | Panic _ => (false, rev_append acc [])
      | Ok None => run_m_go o compact path_m r rest acc
      | Ok (Some r') => run_m_go o compact path_m (Some r') rest ((if compact then dump_compact r' else dump_row 0 r') :: acc)
      end
  end.

Definition run_m (o : opts) (body : bytes) : bytes * bytes :=
  match split_on 58 body [] with
  | p :: rest :: _ =>
      let '(compact, p) := match p with 118 :: t => (true, t) | _ => (false, p) end in
      let '(ok, ds) := run_m_go o compact (match p with [109] => true | _ => false end) None (split 44 rest) [] in
      (if ok then str "ok" else str "panic", if ok then join [35] ds else [])
  | _ => (str "skip", [])
  end.

(** kind K: country codes of the addresses start, start+step, ... (count of them) *)
Fixpoint run_k_go (n : nat) (a step : N) (acc : list bytes) : list bytes :=
  match n with
  | O => rev_append acc []
  | S k => run_k_go k (a + step) step (str (icao_to_country a) :: acc)
  end.
Definition run_k (body : bytes) : bytes * bytes :=
  match split 58 body with
  | [s; c; st] => (str "ok", join [44] (run_k_go (N.to_nat (parse_dec c)) (parse_dec s) (parse_dec st) []))
  | _ => (str "skip", [])
  end.

(** one case line in, one observation line out *)
Definition run_case (line : bytes) : bytes :=
  match split 9 line with
  | id :: kind :: os :: body :: _ =>
      let o := parse_opts os in
      let '(oc, obs) :=
        match kind with
        | [72] => run_h o body
        | [71] => run_g body
        | [77] => run_m o body
        | [75] => run_k body
        | _ => (str "skip", [])
        end in
      id ++ [9] ++ oc ++ [9] ++ obs
  | _ => []
  end.
