(** Field decoders: src/decoder/utils/{ma_code,me_code}.rs, adsb/*.rs, ehs/*.rs, meteo.rs.
    Rust [char] values are code points ([N]); strings are lists of code points. *)
From SQ Require Export Frame.
From SQ Require Import Tables.

(** ---- utils/ma_code.rs : 14-bit working code from bits 20..32 (table regenerated) ---- *)
Fixpoint ma_go (m : list N) (bs : list (nat * N)) (i : N) (acc : N) : res N :=
  match bs with
  | [] => Ok acc
  | (by_, bi) :: t =>
      x <- idx m by_ ;;
      ma_go m t (i + 1) (N.lor acc (N.shiftl (N.land (N.shiftr x bi) 1) (ma_top - i)))
  end.
Definition ma_code (m : list N) : res (option N) :=
  c <- ma_go m ma_bits 0 0 ;; Ok (Some c).

(** utils/me_code.rs *)
Definition me_code (m : list N) : res (option N) :=
  fv <- flag_and_range_value m 48 41 52 ;;
  Ok (omap (fun '(f, v) => (N.lor (N.shiftl v 2) f) mod 65536) fv).

(** ---- adsb/altitude/graytobin.rs ---- *)
Definition ebit (c k : N) : N := N.land (N.shiftr c k) 1.

Fixpoint gray_loop (k : nat) (n mask : N) (cp : bool) (result : N) : N :=
  match k with
  | O => result
  | S k' =>
      let cp := if negb (N.land n mask =? 0) then negb cp else cp in
      let result := if cp then N.lor result mask else result in
      gray_loop k' n (N.shiftr mask 1) cp result
  end.

Definition graytobin (m : list N) : res (N * N) :=
  c <- ma_code m ;;
  match c with
  | None => Ok (0, 0)
  | Some code =>
      let n := N.lor (N.shiftl (ebit code 4) 10)
               (N.lor (N.shiftl (ebit code 2) 9)
               (N.lor (N.shiftl (ebit code 12) 8)
               (N.lor (N.shiftl (ebit code 10) 7)
               (N.lor (N.shiftl (ebit code 8) 6)
               (N.lor (N.shiftl (ebit code 7) 5)
               (N.lor (N.shiftl (ebit code 5) 4)
               (N.lor (N.shiftl (ebit code 3) 3)
               (N.lor (N.shiftl (ebit code 13) 2)
               (N.lor (N.shiftl (ebit code 11) 1)
                      (ebit code 13)))))))))) in
      let result := gray_loop 16 n 128 false 0 in
      let sub := N.land n 7 in
      let high := N.shiftr result 3 in
      let low :=
        if N.land high 1 =? 0 then
          (if sub =? 4 then 4 else if sub =? 6 then 3 else if sub =? 3 then 1
           else if sub =? 2 then 2 else 0)
        else
          (if sub =? 1 then 4 else if sub =? 3 then 3 else if sub =? 6 then 1
           else if sub =? 2 then 2 else 0) in
      Ok (high, low)
  end.

(** f32 product [x as f32 * 0.31] truncated to u32 (metric branch, M=1).
    0.31f32 = 10401874 * 2^-25; the product is rounded to 24 significant bits, ties to even. *)
Definition f32_mul031_trunc (x : N) : N :=
  let p := x * 10401874 in                  (* exact product, scaled by 2^25 *)
  if p =? 0 then 0 else
  let e := N.log2 p in
  let r :=
    if e <=? 23 then p else
    let sh := e - 23 in
    let q := N.shiftr p sh in
    let rem := p mod (2 ^ sh) in
    let half := 2 ^ (sh - 1) in
    let q := if (half <? rem) || ((rem =? half) && N.odd q) then q + 1 else q in
    N.shiftl q sh in
  N.shiftr r 25.

(** adsb/altitude.rs *)
Definition altitude_value (m : list N) (code : option N) : res (option N) :=
  match code with
  | None => Ok None
  | Some code =>
      if N.land code 2 =? 0 then
        if N.land code 1 =? 0 then
          if N.shiftr code 2 =? 0 then Ok None else
          '(high, low) <- graytobin m ;;
          let value := high * 500 + low * 100 in
          if 1200 <=? value then Ok (Some (value - 1200)) else Ok None
        else
          let n := N.lor (N.shiftl (N.shiftr code 7) 4) (N.land (N.shiftr code 2) 15) in
          if 1000 <=? n * 25 then Ok (Some (n * 25 - 1000)) else Ok None
      else
        let n := N.lor (N.land (N.shiftl (N.shiftr code 7) 4) 2032) (N.land (N.shiftr code 2) 15) in
        Ok (Some (f32_mul031_trunc n))
  end.

Definition altitude (m : list N) (df : N) : res (option N) :=
  code <- (if df =? 17 then me_code m else ma_code m) ;;
  a <- altitude_value m code ;;
  Ok (ofilter (fun a => a <? 100000) a).

(** adsb/squawk.rs *)
Definition squawk_of_code (code : N) : N :=
  (N.lor (N.shiftl (ebit code 8) 2) (N.lor (N.shiftl (ebit code 10) 1) (ebit code 12))) * 1000
  + (N.lor (N.shiftl (ebit code 3) 2) (N.lor (N.shiftl (ebit code 5) 1) (ebit code 7))) * 100
  + (N.lor (N.shiftl (ebit code 9) 2) (N.lor (N.shiftl (ebit code 11) 1) (ebit code 13))) * 10
  + (N.lor (N.shiftl (ebit code 2) 2) (N.lor (N.shiftl (ebit code 4) 1) (ebit code 6))).
Definition squawk (m : list N) : res (option N) :=
  c <- ma_code m ;; Ok (omap squawk_of_code c).

(** adsb/ais.rs *)
Definition ia5 (ch : N) : N :=
  if (48 <=? ch) && (ch <=? 57) then ch
  else if (1 <=? ch) && (ch <=? 26) then N.lor ch 64
  else 32.

Definition ais (m : list N) : res (option (list N)) :=
  m10 <- idx m 10 ;; m11 <- idx m 11 ;; m12 <- idx m 12 ;; m13 <- idx m 13 ;;
  m14 <- idx m 14 ;; m15 <- idx m 15 ;; m16 <- idx m 16 ;; m17 <- idx m 17 ;;
  m18 <- idx m 18 ;; m19 <- idx m 19 ;; m20 <- idx m 20 ;; m21 <- idx m 21 ;;
  let cs := [ N.lor (N.shiftl m10 2) (N.shiftr m11 2);
              N.lor (N.shiftl (N.land m11 3) 4) m12;
              N.lor (N.shiftl m13 2) (N.shiftr m14 2);
              N.lor (N.shiftl (N.land m14 3) 4) m15;
              N.lor (N.shiftl m16 2) (N.shiftr m17 2);
              N.lor (N.shiftl (N.land m17 3) 4) m18;
              N.lor (N.shiftl m19 2) (N.shiftr m20 2);
              N.lor (N.shiftl (N.land m20 3) 4) m21 ] in
  Ok (Some (filter (fun c => negb (c =? 32)) (map ia5 cs))).

(** adsb/icao.rs : wake turbulence letter (table regenerated) *)
Fixpoint wake_lookup (t : list (N * N * N)) (vc : N * N) : option N :=
  match t with
  | [] => None
  | (a, b, c) :: t' => if (a =? fst vc) && (b =? snd vc) then Some c else wake_lookup t' vc
  end.
Definition get_wake_turbulence_category (vc : N * N) : option N := wake_lookup wake_table vc.

(** adsb/acas.rs *)
Definition threat_encounter (m : list N) : res (option N) :=
  m14 <- idx m 14 ;; m10 <- idx m 10 ;;
  if N.land m14 1 =? 1 then Ok (Some 8306)            (* U+2072 *)
  else if N.land (N.shiftr m10 3) 1 =? 1 then Ok (Some 8305) (* U+2071 *)
  else Ok None.

(** adsb/surveillance_status.rs *)
Definition surveillance_status (m : list N) : res N :=
  m9 <- idx m 9 ;;
  let v := N.shiftr (N.land m9 7) 1 in
  Ok (if v =? 0 then 78 else if v =? 1 then 80 else if v =? 2 then 84 else if v =? 3 then 83 else 32).

Definition version (m : list N) : res (option N) := range_value m 73 75.

(** adsb/vertical_rate.rs (value 0 = no information) *)
Definition vertical_rate (m : list N) : res (option Z) :=
  fv <- flag_and_range_value m 69 70 78 ;;
  match ofilter (fun '(_, v) => negb (v =? 0)) fv with
  | None => Ok None
  | Some (sign, value) =>
      v1 <- u32_sub value 1 ;;
      let v := Z.of_N (N.shiftl v1 6) in
      Ok (Some (if sign =? 1 then (- v)%Z else v))
  end.

(** adsb/altitude/delta.rs, gnss.rs *)
Definition altitude_delta (m : list N) : res (option Z) :=
  fv <- flag_and_range_value m 81 82 88 ;;
  Ok (omap (fun '(sign, value) => if sign =? 1 then (- (Z.of_N value) * 25)%Z else (Z.of_N value * 25)%Z)
           (ofilter (fun '(_, v) => negb (v =? 0)) fv)).
Definition altitude_gnss (m : list N) : res (option N) := range_value m 49 60.

(** adsb/ground_movement.rs (values are exact binary fractions) *)
Definition ground_movement (m : list N) : res (option Q) :=
  v <- range_value m 38 44 ;;
  Ok (match v with
      | None => None
      | Some v =>
          let z := Z.of_N v in
          if v =? 1 then Some 0%Q
          else if (2 <=? v) && (v <=? 8) then Some (z # 8)
          else if (9 <=? v) && (v <=? 12) then Some (z # 4)
          else if (13 <=? v) && (v <=? 38) then Some (z # 2)
          else if (39 <=? v) && (v <=? 93) then Some (z # 1)
          else if (94 <=? v) && (v <=? 108) then Some (z * 2 # 1)
          else if (109 <=? v) && (v <=? 123) then Some (z * 5 # 1)
          else if v =? 124 then Some (175 # 1)
          else None
      end).

(** ehs/base.rs *)
Definition ground_track (m : list N) : res (option N) :=
  fv <- flag_and_range_value m 45 46 52 ;;
  Ok (omap (fun '(_, v) => N.shiftr (v * 360) 7) (ofilter (fun '(f, _) => f =? 1) fv)).

Definition heading (m : list N) : res (option N) := range_value m 47 56.
