(** The two update paths of a row:
    - squitter path  Plane::update            (src/decoder/plane/from_squitter*.rs)
    - downlink path  DF::from_message + Plane::update_from_downlink
                     (src/decoder/downlink/*.rs, src/decoder/plane/from_downlink*.rs)
    and update_position (src/decoder/plane/update_position.rs). *)
From SQ Require Export Row.
Local Open Scope N_scope.

Definition in_tc (lo hi tc : N) : bool := (lo <=? tc) && (tc <=? hi).

(** update_position *)
Definition update_position (obs : option (Q * Q)) (r : row) (tc form : N) : row :=
  if negb (cpr_lat0 r =? 0) && negb (cpr_lat1 r =? 0) && negb (cpr_lon0 r =? 0)
     && negb (cpr_lon1 r =? 0) && Bool.eqb (cpr_s0 r) (cpr_s1 r)
     && (Z.abs (num_seconds (cpr_t0 r) (cpr_t1 r)) <? 10)%Z
  then
    let loc :=
      if in_tc 5 8 tc then cpr_location (cpr_lat0 r) (cpr_lat1 r) (cpr_lon0 r) (cpr_lon1 r) form 4
      else if in_tc 9 18 tc then cpr_location (cpr_lat0 r) (cpr_lat1 r) (cpr_lon0 r) (cpr_lon1 r) form 1
      else None in
    match loc with
    | Some (la, lo) =>
        if Qle_bool (-90) la && Qle_bool la 90 && Qle_bool (-180) lo && Qle_bool lo 180 then
          let r := r <| lat := la |> <| lon := lo |> in
          let r := match obs with
                   | Some (ola, olo) => r <| dist := Some (la, lo, ola, olo) |>
                   | None => r end in
          r <| position_t := Some (timestamp r) |>
        else r
    | None => r
    end
  else r.

Definition store_cpr (obs : option (Q * Q)) (r : row) (tc : N) (c : N * N * N) : row :=
  let '(form, la, lo) := c in
  let surf := in_tc 5 8 tc in
  let r := if form =? 1
           then r <| cpr_lat1 := la |> <| cpr_lon1 := lo |> <| cpr_t1 := timestamp r |> <| cpr_s1 := surf |>
           else r <| cpr_lat0 := la |> <| cpr_lon0 := lo |> <| cpr_t0 := timestamp r |> <| cpr_s0 := surf |> in
  update_position obs r tc form.

(** (altitude as i32 + delta) as u32 *)
Definition gnss_of (alt : N) (delta : Z) : N := Z.to_N ((Z.of_N alt + delta) mod 4294967296)%Z.

(** ================= squitter path ================= *)

Definition update_from_bcast (r : row) (m : list N) (df : N) : res row :=
  r <- (if (df =? 4) || (df =? 20)
        then a <- altitude m df ;; Ok (r <| r_altitude := a |> <| altitude_source := SP |>)
        else Ok r) ;;
  r <- (if (df =? 5) || (df =? 21)
        then s <- squawk m ;; Ok (r <| r_squawk := s |>)
        else Ok r) ;;
  if (df =? 11) || (df =? 17)
  then c <- get_capability m ;; Ok (r <| cap_ca := c |>)
  else Ok r.

Definition update_cpr (obs : option (Q * Q)) (r : row) (m : list N) (tc : N) : res row :=
  c <- cpr m ;;
  match ofilter (fun '(form, _, _) => form <=? 1) c with
  | Some c => Ok (store_cpr obs r tc c)
  | None => Ok r
  end.

Definition update_from_ext_19 (r : row) (m : list N) (st : N) : res row :=
  v <- vertical_rate m ;;
  let r := r <| vrate := v |> <| vrate_source := SP |> in
  r <- match r_altitude r with
       | Some alt =>
           d <- altitude_delta m ;;
           Ok (match d with Some d => r <| altitude_gnss_ := Some (gnss_of alt d) |> | None => r end)
       | None => Ok r
       end ;;
  if st =? 1 then
    '(t, g) <- track_and_groundspeed m false ;;
    Ok (r <| track := t |> <| grspeed := g |> <| track_source := 8321 |>)
  else if st =? 2 then
    '(t, g) <- track_and_groundspeed m true ;;
    Ok (r <| track := t |> <| grspeed := g |> <| track_source := 8322 |>)
  else if (st =? 3) || (st =? 4) then
    h <- heading m ;;
    Ok (r <| r_heading := h |> <| heading_source := 8323 |> <| altitude_source := 34 |>)
  else Ok r.

Definition update_from_ext (obs : option (Q * Q)) (r : row) (m : list N) (df : N) : res row :=
  '(tc, st) <- get_message_type m ;;
  let r := r <| last_tc := tc |> in
  if in_tc 1 4 tc then
    a <- ais m ;; Ok (r <| r_ais := a |> <| category := (tc, st) |>)
  else if in_tc 5 8 tc then
    g <- ground_movement m ;;
    t <- ground_track m ;;
    update_cpr obs (r <| ground_mov := g |> <| r_altitude := None |> <| altitude_source := 8304 |>
                      <| track := t |> <| track_source := SP |>) m tc
  else if in_tc 9 18 tc then
    a <- altitude m df ;;
    s <- surveillance_status m ;;
    update_cpr obs (r <| r_altitude := a |> <| altitude_source := SP |> <| surv_status := s |>) m tc
  else if tc =? 19 then update_from_ext_19 r m st
  else if in_tc 20 22 tc then
    g <- altitude_gnss m ;;
    s <- surveillance_status m ;;
    Ok (r <| altitude_gnss_ := g |> <| surv_status := s |>)
  else if tc =? 31 then
    v <- version m ;; Ok (r <| adsb_version := v |>)
  else Ok r.

Definition tas_char (v : option N) : N :=
  match v with
  | Some v => if v =? 1 then 8321 else if v =? 2 then 8322 else if v =? 3 then 8323 else SP
  | None => SP
  end.

Definition update_from_mode_s (r : row) (m : list N) (relaxed : bool) : res row :=
  b <- bds m ;;
  r <- (if (fst b =? 2) && (snd b =? 0) then a <- ais m ;; Ok (r <| r_ais := a |>) else Ok r) ;;
  r <- (if (fst b =? 3) && (snd b =? 0) then t <- threat_encounter m ;; Ok (r <| threat := t |>) else Ok r) ;;
  let zero := (fst b =? 0) && (snd b =? 0) in
  (* 1,7 *)
  '(r, zero) <- (if zero then
                   c <- is_bds_1_7 m ;;
                   match c with Some c => Ok (r <| cap := c |>, false) | None => Ok (r, true) end
                 else Ok (r, false)) ;;
  (* 4,0 *)
  '(r, zero) <- (if zero && (relaxed || c40 (cap r)) then
                   v <- is_bds_4_0 m ;;
                   match v with
                   | Some v => Ok (r <| selected_altitude := oor (b40_mcp v) (b40_fms v) |>
                                     <| target_alt_source := tas_char (b40_src v) |>
                                     <| baro_setting := b40_baro v |>, false)
                   | None => Ok (r, true) end
                 else Ok (r, zero)) ;;
  (* 5,0 *)
  '(r, zero) <- (if zero && (relaxed || c50 (cap r)) then
                   v <- is_bds_5_0 m ;;
                   match v with
                   | Some v => Ok (r <| roll_angle := b50_roll v |> <| track := b50_track v |>
                                     <| track_angle_rate := b50_tar v |> <| grspeed := b50_gs v |>
                                     <| true_airspeed := b50_tas v |> <| bds50_t := Some (timestamp r) |>
                                     <| track_source := 8325 |> <| track_t := Some (timestamp r) |>, false)
                   | None => Ok (r, true) end
                 else Ok (r, zero)) ;;
  (* 6,0 *)
  '(r, zero) <- (if zero && (relaxed || c60 (cap r)) then
                   v <- is_bds_6_0 m ;;
                   match v with
                   | Some v =>
                       let r := r <| r_heading := b60_hdg v |> <| indicated_airspeed := b60_ias v |>
                                  <| mach := b60_mach v |> in
                       let r := if is_some (b60_baro_rate v)
                                then r <| vrate_source := 8326 |> <| vrate := b60_baro_rate v |>
                                else r <| vrate_source := 8305 |> <| vrate := b60_ivv v |> in
                       Ok (r <| heading_source := 8326 |> <| heading_t := Some (timestamp r) |>, false)
                   | None => Ok (r, true) end
                 else Ok (r, zero)) ;;
  (* 4,4 *)
  '(r, zero) <- (if zero then
                   v <- is_bds_4_4 m ;;
                   match v with
                   | Some v =>
                       let r := r <| temperature := me_temp v |> in
                       let r := if is_some (me_wind v) then r <| wind := me_wind v |> else r in
                       Ok (r <| humidity := me_hum v |> <| turbulence := me_turb v |>
                             <| pressure := me_pres v |>, false)
                   | None => Ok (r, true) end
                 else Ok (r, zero)) ;;
  (* 4,5 *)
  if zero then
    v <- is_bds_4_5 m ;;
    match v with Some t => Ok (r <| temperature := Some t |>) | None => Ok r end
  else Ok r.

(** Plane::update(message, df, relaxed) at time [now] *)
Definition plane_update (obs : option (Q * Q)) (now : Z) (r : row) (m : list N) (df : N)
           (relaxed : bool) : res row :=
  let r := r <| timestamp := now |> <| last_df := df |> in
  r <- update_from_bcast r m df ;;
  r <- (if (df =? 17) || (df =? 18) then update_from_ext obs r m df else Ok r) ;;
  if (relaxed || (3 <? cap_ca r)) && ((df =? 20) || (df =? 21))
  then update_from_mode_s r m relaxed
  else Ok r.

(** ================= downlink path ================= *)

Record srt := mkSrt { s_df : option N; s_icao : option N; s_squawk : option N;
                      s_cap : option N; s_alt : option N }.
Definition srt_new : srt := mkSrt None None None None None.

Definition srt_from_message (m : list N) : res srt :=
  df <- get_downlink_format m ;;
  match df with
  | None => Ok srt_new
  | Some df =>
      ic <- get_icao m df ;;
      if df =? 4 then a <- altitude m df ;; Ok (mkSrt (Some df) ic None None a)
      else if df =? 5 then s <- squawk m ;; Ok (mkSrt (Some df) ic s None None)
      else if df =? 11 then c <- get_capability m ;; Ok (mkSrt (Some df) ic None (Some c) None)
      else Ok (mkSrt (Some df) ic None None None)
  end.

Record ext := mkExt {
  e_df : option N; e_icao : option N; e_cap : N; e_mt : N * N;
  e_ais : option (list N); e_cpr : option (N * N * N); e_gm : option Q;
  e_grspeed : option N; e_track : option N; e_track_source : option N;
  e_heading : option N; e_altitude : option N; e_alt_delta : option Z;
  e_alt_gnss : option N; e_vrate : option Z; e_ss : option N; e_version : option N }.
#[export] Instance eta_ext : Settable _ := settable! mkExt
  < e_df; e_icao; e_cap; e_mt; e_ais; e_cpr; e_gm; e_grspeed; e_track; e_track_source;
    e_heading; e_altitude; e_alt_delta; e_alt_gnss; e_vrate; e_ss; e_version >.
Definition ext_new : ext :=
  mkExt None None 0 (0, 0) None None None None None None None None None None None None None.

Definition ext_from_message (m : list N) : res ext :=
  df <- get_downlink_format m ;;
  match df with
  | None => Ok ext_new
  | Some df =>
      ic <- get_icao m df ;;
      c <- get_capability m ;;
      mt <- get_message_type m ;;
      let e := ext_new <| e_df := Some df |> <| e_icao := ic |> <| e_cap := c |> <| e_mt := mt |> in
      let tc := fst mt in let st := snd mt in
      if in_tc 1 4 tc then
        a <- ais m ;; Ok (e <| e_ais := a |>)
      else if in_tc 5 18 tc then
        p <- cpr m ;;
        let e := e <| e_cpr := p |> in
        if in_tc 5 8 tc then
          g <- ground_movement m ;; t <- ground_track m ;;
          Ok (e <| e_gm := g |> <| e_track := t |> <| e_track_source := Some 8304 |>)
        else if in_tc 9 18 tc then
          a <- altitude m df ;; s <- surveillance_status m ;;
          Ok (e <| e_altitude := a |> <| e_ss := Some s |>)
        else Ok e
      else if tc =? 19 then
        v <- vertical_rate m ;;
        d <- altitude_delta m ;;
        let e := e <| e_vrate := v |> <| e_alt_delta := d |> in
        if st =? 1 then
          '(t, g) <- track_and_groundspeed m false ;;
          Ok (e <| e_track := t |> <| e_grspeed := g |> <| e_track_source := Some 8321 |>)
        else if st =? 2 then
          '(t, g) <- track_and_groundspeed m true ;;
          Ok (e <| e_track := t |> <| e_grspeed := g |> <| e_track_source := Some 8322 |>)
        else if (st =? 3) || (st =? 4) then
          h <- heading m ;; Ok (e <| e_heading := h |>)
        else Ok e
      else if in_tc 20 22 tc then
        g <- altitude_gnss m ;; s <- surveillance_status m ;;
        Ok (e <| e_alt_gnss := g |> <| e_ss := Some s |>)
      else if tc =? 31 then
        v <- version m ;; Ok (e <| e_version := v |>)
      else Ok e
  end.

(** Mds::from_message: every decoder is run (so every index it uses is exercised), but the
    row only ever takes the address from it. *)
Definition mds_from_message (m : list N) : res (option N * option N) :=
  df <- get_downlink_format m ;;
  '(dfo, ic) <- match df with
         | None => Ok (None, None)
         | Some df => ic <- get_icao m df ;; _ <- altitude m df ;; Ok (Some df, ic)
         end ;;
  b <- bds m ;;
  _ <- (if (fst b =? 2) && (snd b =? 0) then a <- ais m ;; Ok tt else Ok tt) ;;
  _ <- (if (fst b =? 3) && (snd b =? 0) then t <- threat_encounter m ;; Ok tt else Ok tt) ;;
  let zero := (fst b =? 0) && (snd b =? 0) in
  zero <- (if zero then c <- is_bds_1_7 m ;; Ok (negb (is_some c)) else Ok false) ;;
  zero <- (if zero then c <- is_bds_4_0 m ;; Ok (negb (is_some c)) else Ok false) ;;
  zero <- (if zero then c <- is_bds_5_0 m ;; Ok (negb (is_some c)) else Ok false) ;;
  zero <- (if zero then c <- is_bds_6_0 m ;; Ok (negb (is_some c)) else Ok false) ;;
  zero <- (if zero then c <- is_bds_4_4 m ;; Ok (negb (is_some c)) else Ok false) ;;
  _ <- (if zero then c <- is_bds_4_5 m ;; Ok tt else Ok tt) ;;
  Ok (dfo, ic).

Inductive downlink :=
| DSrt (s : srt)
| DExt (e : ext)
| DMds (df : option N) (ic : option N).

(** DF::from_message *)
Definition df_from_message (m : list N) : res (option downlink) :=
  df <- get_downlink_format m ;;
  match df with
  | None => Ok None
  | Some v =>
      if v <=? 16 then s <- srt_from_message m ;; Ok (Some (DSrt s))
      else if v =? 17 then e <- ext_from_message m ;; Ok (Some (DExt e))
      else if (v =? 20) || (v =? 21) then '(d, i) <- mds_from_message m ;; Ok (Some (DMds d i))
      else Ok (Some (DSrt srt_new))
  end.

Definition amend_cpr (obs : option (Q * Q)) (r : row) (e : ext) : row :=
  match e_cpr e with
  | Some c => store_cpr obs r (fst (e_mt e)) c
  | None => r
  end.

Definition ochar (o : option N) : N := match o with Some c => c | None => SP end.

Definition amend_from_ext_19 (r : row) (e : ext) : row :=
  let r := r <| vrate := e_vrate e |> <| vrate_source := SP |> in
  let r := match e_alt_delta e, r_altitude r with
           | Some d, Some alt => r <| altitude_gnss_ := Some (gnss_of alt d) |>
           | _, _ => r end in
  let st := snd (e_mt e) in
  if st =? 1 then r <| track := e_track e |> <| grspeed := e_grspeed e |> <| track_source := 8321 |>
  else if st =? 2 then r <| track := e_track e |> <| grspeed := e_grspeed e |> <| track_source := 8322 |>
  else if (st =? 3) || (st =? 4) then
    r <| r_heading := e_heading e |> <| heading_source := 8323 |> <| altitude_source := 34 |>
  else r.

Definition update_from_ext_dl (obs : option (Q * Q)) (r : row) (e : ext) : row :=
  if is_some (e_icao e) then
    let tc := fst (e_mt e) in
    let r := r <| last_tc := tc |> in
    if in_tc 1 4 tc then
      (if is_some (e_ais e) then r <| r_ais := e_ais e |> <| category := e_mt e |> else r)
    else if in_tc 5 8 tc then
      amend_cpr obs (r <| ground_mov := e_gm e |> <| r_altitude := e_altitude e |>
                       <| altitude_source := 8304 |> <| track := e_track e |>
                       <| track_source := ochar (e_track_source e) |>) e
    else if in_tc 9 18 tc then
      amend_cpr obs (r <| r_altitude := e_altitude e |> <| altitude_source := SP |>
                       <| surv_status := ochar (e_ss e) |>) e
    else if tc =? 19 then amend_from_ext_19 r e
    else if in_tc 20 22 tc then
      r <| altitude_gnss_ := e_alt_gnss e |> <| surv_status := ochar (e_ss e) |>
    else if tc =? 31 then r <| adsb_version := e_version e |>
    else r
  else r.

Definition update_from_srt_dl (r : row) (s : srt) : row :=
  if is_some (s_icao s) then
    let r := match s_df s, s_alt s with
             | Some 4, Some _ => r <| r_altitude := s_alt s |> <| altitude_source := SP |>
             | _, _ => r end in
    let r := match s_df s, s_squawk s with
             | Some 5, Some _ => r <| r_squawk := s_squawk s |>
             | _, _ => r end in
    match s_df s, s_cap s with
    | Some 11, Some v => r <| cap_ca := v |>
    | _, _ => r
    end
  else r.

Definition dl_df (d : downlink) : option N :=
  match d with DSrt s => s_df s | DExt e => e_df e | DMds df _ => df end.

(** UpdateFromDownlink<DF> for Plane at time [now] *)
Definition update_from_downlink (obs : option (Q * Q)) (now : Z) (r : row) (d : downlink) : row :=
  let r := r <| timestamp := now |> in
  let r := match dl_df d with Some df => r <| last_df := df |> | None => r end in
  match d with
  | DSrt s => update_from_srt_dl r s
  | DExt e => update_from_ext_dl obs r e
  | DMds _ ic => match ic with Some v => r <| icao := v |> | None => r end
  end.

(** Plane::from_downlink *)
Definition row_from_downlink (obs : option (Q * Q)) (now : Z) (d : downlink) (a : N) : row :=
  update_from_downlink obs now (row_new now <| icao := a |> <| reg := icao_to_country a |>) d.

(** Plane::from_message *)
Definition row_from_message (obs : option (Q * Q)) (now : Z) (m : list N) (df a : N) (relaxed : bool)
  : res row :=
  plane_update obs now (row_new now <| icao := a |> <| reg := icao_to_country a |>) m df relaxed.
