(** adsb/position.rs in exact rational arithmetic (see DESIGN.md C08 for why Q and not floats) *)
From SQ Require Export Velocity.
From SQ Require Import Tables.
From Coq Require Import Qround Qabs.
Local Open Scope Q_scope.

Definition cpr (m : list N) : res (option (N * N * N)) :=
  fv <- flag_and_range_value m 54 55 71 ;;
  match fv with
  | None => Ok None
  | Some (form, lat) =>
      lon <- range_value m 72 88 ;;
      Ok (omap (fun lon => (form, lat, lon)) lon)
  end.


(** Rust [%] on floats holding integers: sign of the dividend *)
Definition zrem (a b : Z) : Z := Z.rem a b.

Definition fixed_lat (lat : Q) : Q :=
  if Qle_bool 90 lat then lat - 360 else if Qle_bool lat (-90) then lat + 360 else lat.
Definition signed_lon (lon : Q) : Q :=
  if Qle_bool 180 lon then lon - 360 else if Qle_bool lon (-180) then lon + 360 else lon.

Definition pmod (x y : Z) : Z :=
  let r := Z.rem x y in if (r <? 0)%Z then (r + y)%Z else r.

Definition Qlt_bool (a b : Q) : bool := negb (Qle_bool b a).

Fixpoint nl_go (t : list (Q * Z)) (lat : Q) : Z :=
  match t with
  | [] => nl_default
  | (b, v) :: t' => if Qlt_bool lat b then v else nl_go t' lat
  end.
Definition nl (lat : Q) : Z := nl_go nl_table (Qabs lat).

Definition div17 : Q := 131072 # 1.
Definition qN (n : N) : Q := Z.of_N n # 1.
Definition qZ (z : Z) : Q := z # 1.

(** returns (lat, lon) ; coeff = 4 surface, 1 airborne ; integer division as i32 (truncating) *)
Definition cpr_location (lat0 lat1 lon0 lon1 : N) (form : N) (coeff : Z) : option (Q * Q) :=
  let j := Qfloor ((59 * qN lat0 - 60 * qN lat1) / div17 + (1 # 2)) in
  let rlat0 := fixed_lat (6 * (qZ (zrem j 60) + qN lat0 / div17)) in
  let rlat1 := fixed_lat ((360 # 59) * (qZ (zrem j 59) + qN lat1 / div17)) in
  let nl0 := nl rlat0 in
  let nl1 := nl rlat1 in
  if (nl0 =? nl1)%Z then
    let '(ni, nlt, lngt) :=
      if (form =? 1)%N then (Z.max (Z.quot nl1 coeff - 1) 1, Z.quot nl1 coeff, lon1)
      else (Z.max (Z.quot nl0 coeff) 1, Z.quot nl0 coeff, lon0) in
    let dlngt := 360 / qZ ni in
    let mm := Qfloor ((qN lon0 * qZ (nlt - 1) - qN lon1 * qZ nlt) / div17 + (1 # 2)) in
    let lon := dlngt * (qZ (pmod mm ni) + qN lngt / div17) in
    Some (if (form =? 1)%N then rlat1 else rlat0, signed_lon lon)
  else None.

(** smallest distance of |lat| to an NL boundary: the f64 implementation may take the other
    branch when this is below rounding error; the comparer skips such cases. *)
Definition nl_margin (lat : Q) : Q :=
  fold_left (fun acc '(b, _) => let d := Qabs (Qabs lat - b) in if Qle_bool d acc then d else acc)
            nl_table 1000.
