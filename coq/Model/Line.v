(** Byte stream -> lines -> text: BufRead::lines() and str::from_utf8 as used by read_lines. *)
From SQ Require Export Machine.
Local Open Scope N_scope.

Definition cont (b : N) : bool := (128 <=? b) && (b <=? 191).
Definition inr (lo hi b : N) : bool := (lo <=? b) && (b <=? hi).

(** Well-formed UTF-8 (Unicode table 3-7), which is what [str::from_utf8] accepts. *)
Fixpoint valid_utf8 (l : list N) : bool :=
  match l with
  | [] => true
  | b0 :: t =>
      if b0 <? 128 then valid_utf8 t
      else if inr 194 223 b0 then
        match t with b1 :: t1 => cont b1 && valid_utf8 t1 | _ => false end
      else if b0 =? 224 then
        match t with b1 :: b2 :: t2 => inr 160 191 b1 && cont b2 && valid_utf8 t2 | _ => false end
      else if inr 225 236 b0 || inr 238 239 b0 then
        match t with b1 :: b2 :: t2 => cont b1 && cont b2 && valid_utf8 t2 | _ => false end
      else if b0 =? 237 then
        match t with b1 :: b2 :: t2 => inr 128 159 b1 && cont b2 && valid_utf8 t2 | _ => false end
      else if b0 =? 240 then
        match t with b1 :: b2 :: b3 :: t3 => inr 144 191 b1 && cont b2 && cont b3 && valid_utf8 t3 | _ => false end
      else if inr 241 243 b0 then
        match t with b1 :: b2 :: b3 :: t3 => cont b1 && cont b2 && cont b3 && valid_utf8 t3 | _ => false end
      else if b0 =? 244 then
        match t with b1 :: b2 :: b3 :: t3 => inr 128 143 b1 && cont b2 && cont b3 && valid_utf8 t3 | _ => false end
      else false
  end.

(** split at LF; the final chunk is a line only if non-empty (BufRead::lines) *)
Fixpoint split_lf (bs : list N) (cur : list N) : list (list N) :=
  match bs with
  | [] => match cur with [] => [] | _ => [rev_append cur []] end
  | b :: t => if b =? 10 then rev_append cur [] :: split_lf t [] else split_lf t (b :: cur)
  end.

(** lines() strips one trailing CR after removing the LF *)
Definition strip_cr (l : list N) : list N :=
  match rev_append l [] with
  | 13 :: r => rev_append r []
  | _ => l
  end.

(** the lines read_lines gets to see: [None] for a chunk that is not valid UTF-8 *)
Definition text_lines (bs : list N) : list (option (list N)) :=
  map (fun l => if valid_utf8 l then Some (strip_cr l) else None) (split_lf bs []).
