(** src/decoder/planes.rs (update_aircraft, cleanup), src/counters.rs, src/reader.rs (read_lines). *)
From SQ Require Export Update Line.
Local Open Scope N_scope.

Record opts := mkOpts {
  use_update : bool;
  relaxed : bool;
  filter_df : option (list N);
  count_df : bool;
  display_info : list N;       (* concatenated -i strings, code points *)
  order_by : list (list N);    (* -o strings *)
  update_s : Z;
  delete_after : Z;
  observer : option (Q * Q)
}.

Definition table := list (N * row).

Fixpoint lookup (t : table) (a : N) : option row :=
  match t with
  | [] => None
  | (k, r) :: t' => if k =? a then Some r else lookup t' a
  end.

Fixpoint upsert (t : table) (a : N) (r : row) : table :=
  match t with
  | [] => [(a, r)]
  | (k, r0) :: t' => if k =? a then (k, r) :: t' else (k, r0) :: upsert t' a r
  end.

(** Planes::update_aircraft.  (Rust also builds Plane::from_downlink eagerly when the entry
    exists and drops it; that computation cannot panic and has no effect, so it is omitted.) *)
Definition update_aircraft (o : opts) (now : Z) (t : table) (d : downlink) (m : list N) (df a : N)
  : res table :=
  match lookup t a with
  | Some r =>
      if (df <? 20) && negb (use_update o)
      then Ok (upsert t a (update_from_downlink (observer o) now r d))
      else r' <- plane_update (observer o) now r m df (relaxed o) ;; Ok (upsert t a r')
  | None => Ok (upsert t a (row_from_downlink (observer o) now d a))
  end.

Record counters := mkCnt {
  df_count : list (N * Z);     (* BTreeMap<u32,i32>, ascending keys *)
  cleanup_count : N;
  refresh_ts : Z
}.

Fixpoint bump (c : list (N * Z)) (df : N) : list (N * Z) :=
  match c with
  | [] => [(df, 1%Z)]
  | (k, v) :: t =>
      if k =? df then (k, (v + 1)%Z) :: t
      else if df <? k then (df, 1%Z) :: (k, v) :: t
      else (k, v) :: bump t df
  end.

Definition counters_new (now : Z) (update : Z) : counters := mkCnt [] 0 (now + update * 1000)%Z.

(** Planes::cleanup *)
Definition cleanup (t : table) (c : counters) (now : Z) (delete_after : Z) : table * counters :=
  let '(t, cc) :=
    if 10 <? cleanup_count c
    then (filter (fun '(_, r) => (num_seconds now (timestamp r) <? delete_after)%Z) t, 0)
    else (t, cleanup_count c) in
  (t, mkCnt (df_count c) (cc + 1) (refresh_ts c)).

Definition quiet (o : opts) : bool := existsb (fun c => c =? 81) (display_info o).

Record state := mkState { tbl : table; cnt : counters }.

Inductive line_outcome := Skipped | Applied (df a : N).

(** one iteration of the loop in read_lines for a line of text; [refresh] tells whether the
    table is printed after this line (rendering is in Display.v) *)
Definition step_line (o : opts) (now : Z) (s : state) (line : list N)
  : res (state * bool * line_outcome) :=
  mo <- get_message line ;;
  match mo with
  | None => Ok (s, false, Skipped)
  | Some m =>
      dfo <- get_downlink_format m ;;
      match dfo with
      | None => Ok (s, false, Skipped)
      | Some df =>
          ao <- get_icao m df ;;
          match ao with
          | None => Ok (s, false, Skipped)
          | Some a =>
              if match filter_df o with
                 | Some only => forallb (fun x => negb (x =? df)) only
                 | None => false end
              then Ok (s, false, Skipped) else
              let c := cnt s in
              let c := if count_df o then mkCnt (bump (df_count c) df) (cleanup_count c) (refresh_ts c)
                       else c in
              d <- df_from_message m ;;
              '(t, c) <- match d with
                         | Some d =>
                             t <- update_aircraft o now (tbl s) d m df a ;;
                             Ok (cleanup t c now (delete_after o))
                         | None => Ok (tbl s, c)
                         end ;;
              let refresh := negb (quiet o) && (update_s o <? num_seconds now (refresh_ts c))%Z in
              let c := if refresh then mkCnt (df_count c) (cleanup_count c) now else c in
              Ok (mkState t c, refresh, Applied df a)
          end
      end
  end.

(** a chunk that is not UTF-8 is skipped *)
Definition step (o : opts) (now : Z) (s : state) (l : option (list N)) : res (state * bool * line_outcome) :=
  match l with
  | None => Ok (s, false, Skipped)
  | Some line => step_line o now s line
  end.

Fixpoint run_lines (o : opts) (now : Z) (s : state) (ls : list (option (list N))) : res state :=
  match ls with
  | [] => Ok s
  | l :: t => '(s', _, _) <- step o now s l ;; run_lines o now s' t
  end.

(** one call of read_lines over a byte stream at time [now] with the table [t] *)
Definition read_lines (o : opts) (now : Z) (t : table) (bs : list N) : res table :=
  s <- run_lines o now (mkState t (counters_new now (update_s o))) (text_lines bs) ;;
  Ok (tbl s).
