(** ehs/base.rs track_and_groundspeed.  sqrt().floor() is [N.sqrt] (argument < 2^22, exact);
    floor(atan2(..).to_degrees()) is the integer procedure [floor_deg] over the proved
    enclosures of tan(k deg) (Proofs/TanBounds.v, Proofs/TrackSound.v). *)
From SQ Require Export Decode.
From SQ Require Import TanTable.

(** does k degrees <= atan(a/b) hold, i.e. tan(k deg) <= a/b  (b > 0, 1 <= k <= 89) *)
Definition le_tan (k : nat) (hi : Z) (a b : Z) : bool :=
  if Nat.eqb k 45 then (b <=? a)%Z else (hi * b <=? a * tan_den)%Z.

Fixpoint count_le (k : nat) (t : list (Z * Z)) (a b : Z) : Z :=
  match t with
  | [] => 0%Z
  | (_, hi) :: t' => ((if le_tan k hi a b then 1 else 0) + count_le (S k) t' a b)%Z
  end.

(** floor and ceiling of atan(a/b) in degrees for integers a, b >= 0, not both 0 *)
Definition floor_deg (a b : Z) : Z :=
  if (b =? 0)%Z then 90%Z else count_le 1 tan_table a b.
Definition exact_deg (a b : Z) : bool := ((a =? 0) || (b =? 0) || (a =? b))%Z.
Definition ceil_deg (a b : Z) : Z :=
  if exact_deg a b then floor_deg a b else (floor_deg a b + 1)%Z.

(** track in [0,360) from sign flags and magnitudes (east a, north b) *)
Definition track_of (sx : bool) (a : Z) (sy : bool) (b : Z) : Z :=
  if ((a =? 0) && (b =? 0))%Z then (if sy then 180 else 0)%Z else
  let xneg := (sx && negb (a =? 0)%Z)%bool in
  let yneg := (sy && negb (b =? 0)%Z)%bool in
  match xneg, yneg with
  | false, false => floor_deg a b
  | false, true => (180 - ceil_deg a b)%Z
  | true, false => ((360 - ceil_deg a b) mod 360)%Z
  | true, true => (180 + floor_deg a b)%Z
  end.

Definition track_and_groundspeed (m : list N) (supersonic : bool) : res (option N * option N) :=
  w <- flag_and_range_value m 46 47 56 ;;
  match ofilter (fun '(_, v) => negb (v =? 0)) w with
  | None => Ok (None, None)
  | Some (dw, vw) =>
      s <- flag_and_range_value m 57 58 67 ;;
      match ofilter (fun '(_, v) => negb (v =? 0)) s with
      | None => Ok (None, None)
      | Some (ds, vs) =>
          let a := vw - 1 in
          let b := vs - 1 in
          let gs := N.sqrt (a * a + b * b) in
          let gs := if supersonic then gs * 4 else gs in
          let trk := track_of (dw =? 1) (Z.of_N a) (N.land ds 1 =? 1) (Z.of_N b) in
          Ok (Some (Z.to_N trk), Some gs)
      end
  end.
