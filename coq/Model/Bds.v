(** Comm-B register inference and decoding: src/decoder/bds.rs, bds/*.rs, ehs/*.rs, meteo.rs *)
From SQ Require Export Cpr.
Local Open Scope N_scope.

Definition bds (m : list N) : res (N * N) :=
  m8 <- idx m 8 ;; m9 <- idx m 9 ;;
  let b1 := N.land m8 15 in let b2 := N.land m9 15 in
  if (b1 =? 1) && (b2 =? 0) then
    m10 <- idx m 10 ;; m11 <- idx m 11 ;;
    if (N.land m10 7 =? 0) && (N.land m11 12 =? 0) then Ok (1, 0) else Ok (0, 0)
  else if (b1 =? 2) && (b2 =? 0) then Ok (2, 0)
  else if (b1 =? 3) && (b2 =? 0) then
    v <- range_value m 48 54 ;;
    match v with
    | Some value =>
        m15 <- idx m 15 ;;
        if negb (N.land m15 12 =? 12) && (value <? 48) then Ok (3, 0) else Ok (0, 0)
    | None => Ok (0, 0)
    end
  else Ok (0, 0).

Definition goodflags (m : list N) (flag sb eb : nat) : res bool :=
  fv <- flag_and_range_value m flag sb eb ;;
  Ok (match fv with
      | Some (f, r) => if f =? 0 then false else negb (r =? 0)
      | None => false
      end).

(** short-circuit helpers mirroring Rust's || and && over fallible operands *)
Definition orelse (a : res bool) (b : res bool) : res bool :=
  x <- a ;; if x then Ok true else b.
Definition andalso (a : res bool) (b : res bool) : res bool :=
  x <- a ;; if x then b else Ok false.
Definition rnot (a : res bool) : res bool := x <- a ;; Ok (negb x).

(** ---- BDS 1,7 ---- *)
Record capability := mkCap { c_flags : N; c20 : bool; c40 : bool; c44 : bool; c50 : bool; c60 : bool }.
Definition cap_default : capability := mkCap 0 false false false false false.

Definition is_bds_1_7 (m : list N) : res (option capability) :=
  fv <- flag_and_range_value m 39 61 88 ;;
  match fv with
  | None => Ok None
  | Some (bds20, reserved) =>
      if negb (bds20 =? 1) || negb (reserved =? 0) then Ok None else
      c <- range_value m 33 56 ;;
      Ok (omap (fun c => mkCap c true
                           (N.land (N.shiftr c 15) 1 =? 1)
                           (N.land (N.shiftr c 11) 1 =? 1)
                           (N.land (N.shiftr c 8) 1 =? 1)
                           (N.land c 1 =? 1)) c)
  end.

(** ---- ehs/bds_4_0.rs ---- *)
Definition mcp_selected_altitude (m : list N) : res (option N) :=
  fv <- flag_and_range_value m 33 34 45 ;;
  Ok (omap (fun '(_, v) => N.shiftl v 4) (ofilter (fun '(f, _) => f =? 1) fv)).
Definition fms_selected_altitude (m : list N) : res (option N) :=
  fv <- flag_and_range_value m 46 47 58 ;;
  Ok (omap (fun '(_, v) => N.shiftl v 4) (ofilter (fun '(f, _) => f =? 1) fv)).
Definition barometric_pressure_setting (m : list N) : res (option N) :=
  fv <- flag_and_range_value m 59 60 71 ;;
  Ok (omap (fun '(s, v) => if s =? 1 then v / 10 + 800 else v / 10) fv).
Definition target_altitude_source (m : list N) : res (option N) :=
  fv <- flag_and_range_value m 86 87 88 ;;
  Ok (omap (fun '(_, v) => v) (ofilter (fun '(f, _) => f =? 1) fv)).

Record bds40 := mkB40 { b40_mcp : option N; b40_fms : option N; b40_baro : option N; b40_src : option N }.

Definition in_range (lo hi x : N) : bool := (lo <=? x) && (x <=? hi).

Definition is_bds_4_0 (m : list N) : res (option bds40) :=
  bad <- orelse (rnot (goodflags m 33 34 45))
         (orelse (rnot (goodflags m 46 47 58))
         (orelse (rnot (goodflags m 59 60 71))
         (orelse (goodflags m 33 72 79) (goodflags m 33 84 85)))) ;;
  if bad then Ok None else
  a <- mcp_selected_altitude m ;;
  b <- fms_selected_altitude m ;;
  c <- barometric_pressure_setting m ;;
  d <- target_altitude_source m ;;
  let i := mkB40 (ofilter (in_range 0 65530) a) (ofilter (in_range 0 65530) b)
                 (ofilter (in_range 800 1210) c) (ofilter (in_range 0 3) d) in
  if is_some (b40_mcp i) || is_some (b40_fms i) then Ok (Some i) else Ok None.

(** ---- ehs/bds_5_0.rs ---- *)
Definition roll_angle_5_0 (m : list N) : res (option Z) :=
  v <- status_flag_and_range_value m 33 34 35 43 ;;
  Ok (omap (fun '(_, sign, value) =>
              let x := Z.quot (Z.of_N value * 45) 256 in
              if sign =? 0 then x else (x - 90)%Z)
           (ofilter (fun '(s, _, _) => s =? 1) v)).
Definition track_angle_5_0 (m : list N) : res (option N) :=
  v <- status_flag_and_range_value m 44 45 46 55 ;;
  Ok (omap (fun '(_, sign, value) =>
              let a := N.shiftr (value * 90) 9 in if sign =? 0 then a else a + 180)
           (ofilter (fun '(s, _, _) => s =? 1) v)).
Definition track_angle_rate_5_0 (m : list N) : res (option Z) :=
  v <- status_flag_and_range_value m 67 68 69 77 ;;
  Ok (omap (fun '(_, sign, value) =>
              let a := Z.of_N (N.shiftr (N.shiftl value 3) 8) in
              if sign =? 0 then a else (a - 16)%Z)
           (ofilter (fun '(s, _, _) => s =? 1) v)).
Definition ground_speed_5_0 (m : list N) : res (option N) :=
  fv <- flag_and_range_value m 56 57 66 ;;
  Ok (omap (fun '(_, v) => N.shiftl v 1) (ofilter (fun '(f, _) => f =? 1) fv)).
Definition true_airspeed_5_0 (m : list N) : res (option N) :=
  fv <- flag_and_range_value m 78 79 88 ;;
  Ok (omap (fun '(_, v) => N.shiftl v 1) (ofilter (fun '(f, _) => f =? 1) fv)).

Record bds50 := mkB50 { b50_roll : option Z; b50_track : option N; b50_tar : option Z;
                        b50_gs : option N; b50_tas : option N }.

Definition zin_range (lo hi x : Z) : bool := ((lo <=? x) && (x <=? hi))%Z.
Definition abs_diff (a b : N) : N := if a <=? b then b - a else a - b.

Definition is_bds_5_0 (m : list N) : res (option bds50) :=
  bad <- orelse (rnot (goodflags m 33 34 43))
         (orelse (rnot (goodflags m 44 45 55))
         (orelse (rnot (goodflags m 56 57 66))
         (orelse (rnot (goodflags m 67 68 77)) (rnot (goodflags m 78 79 88))))) ;;
  if bad then Ok None else
  r <- roll_angle_5_0 m ;;
  t <- track_angle_5_0 m ;;
  tr <- track_angle_rate_5_0 m ;;
  g <- ground_speed_5_0 m ;;
  a <- true_airspeed_5_0 m ;;
  let k := mkB50 (ofilter (zin_range (-50) 50) r) (ofilter (in_range 0 360) t)
                 (ofilter (zin_range (-16) 16) tr) (ofilter (in_range 0 600) g)
                 (ofilter (in_range 0 500) a) in
  match b50_gs k, b50_tas k, b50_roll k, b50_track k, b50_tar k with
  | Some gs, Some tas, Some _, Some _, Some _ =>
      if abs_diff gs tas <? 200 then Ok (Some k) else Ok None
  | _, _, _, _, _ => Ok None
  end.

(** ---- ehs/bds_6_0.rs ---- *)
Definition magnetic_heading_6_0 (m : list N) : res (option N) :=
  v <- status_flag_and_range_value m 33 34 35 44 ;;
  Ok (omap (fun '(_, sign, value) =>
              let h := N.shiftr (value * 90) 9 in if sign =? 0 then h else h + 180)
           (ofilter (fun '(s, _, _) => s =? 1) v)).
Definition indicated_airspeed_6_0 (m : list N) : res (option N) :=
  fv <- flag_and_range_value m 45 46 55 ;;
  Ok (omap (fun '(_, v) => v) (ofilter (fun '(f, v) => (f =? 1) && negb (v =? 0)) fv)).
(** Mach = value * 0.004 ; exact rational value*4/1000 *)
Definition mach_number_6_0 (m : list N) : res (option Q) :=
  fv <- flag_and_range_value m 56 57 66 ;;
  Ok (omap (fun '(_, v) => (Z.of_N v * 4 # 1000)%Q)
           (ofilter (fun '(f, v) => (f =? 1) && negb (v =? 0)) fv)).
Definition barometric_altitude_rate_6_0 (m : list N) : res (option Z) :=
  v <- status_flag_and_range_value m 67 68 69 77 ;;
  Ok (omap (fun '(_, sign, value) =>
              let r := Z.of_N (N.shiftl value 5) in if sign =? 0 then r else (r - 16384)%Z)
           (ofilter (fun '(s, _, v) => (s =? 1) && negb (v =? 0)) v)).
Definition internal_vertical_velocity_6_0 (m : list N) : res (option Z) :=
  v <- status_flag_and_range_value m 78 79 80 88 ;;
  Ok (omap (fun '(_, sign, value) =>
              let r := Z.of_N (N.shiftl value 5) in if sign =? 0 then r else (r - 16384)%Z)
           (ofilter (fun '(s, _, v) => (s =? 1) && negb (v =? 0)) v)).

Record bds60 := mkB60 { b60_hdg : option N; b60_ias : option N; b60_mach : option Q;
                        b60_baro_rate : option Z; b60_ivv : option Z }.

Definition osat {A} (p : A -> bool) (o : option A) : bool :=
  match o with Some a => p a | None => false end.
Definition onone {A} (o : option A) : bool := match o with Some _ => false | None => true end.

Definition is_bds_6_0 (m : list N) : res (option bds60) :=
  good <- andalso (goodflags m 33 34 44)
          (andalso (goodflags m 45 46 55)
          (andalso (goodflags m 56 57 66)
          (andalso (goodflags m 67 68 77) (goodflags m 78 79 88)))) ;;
  if negb good then Ok None else
  h <- magnetic_heading_6_0 m ;;
  i <- indicated_airspeed_6_0 m ;;
  ma <- mach_number_6_0 m ;;
  b <- barometric_altitude_rate_6_0 m ;;
  v <- internal_vertical_velocity_6_0 m ;;
  let k := mkB60 h i ma b v in
  if osat (in_range 0 360) h && osat (in_range 0 1023) i
     && osat (fun x => Qle_bool 0 x && Qle_bool x 1) ma
     && (osat (zin_range (-6000) 6000) b || onone b)
     && (osat (zin_range (-6000) 6000) v || onone v)
  then Ok (Some k) else Ok None.

(** ---- meteo.rs, bds_4_4.rs, bds_4_5.rs ---- *)
Definition temperature_4_4 (m : list N) : res (option Q) :=
  fv <- flag_and_range_value m 56 57 66 ;;
  Ok (omap (fun '(sign, value) =>
              if sign =? 0 then (Z.of_N value # 4)%Q else ((- Z.of_N value) # 4)%Q) fv).
Definition wind_speed (m : list N) : res (option N) :=
  fv <- flag_and_range_value m 37 38 46 ;;
  Ok (omap (fun '(_, v) => v) (ofilter (fun '(s, _) => s =? 1) fv)).
Definition wind_direction (m : list N) : res (option N) :=
  fv <- flag_and_range_value m 37 47 55 ;;
  Ok (omap (fun '(_, v) => N.shiftr (v * 180) 8) (ofilter (fun '(s, _) => s =? 1) fv)).
Definition wind_4_4 (m : list N) : res (option (N * N)) :=
  ws <- wind_speed m ;;
  match ws with
  | None => Ok None
  | Some ws => wd <- wind_direction m ;; Ok (omap (fun wd => (ws, wd)) wd)
  end.
Definition turbulence_4_4 (m : list N) : res (option N) :=
  fv <- flag_and_range_value m 79 80 81 ;;
  Ok (omap (fun '(_, v) => v) (ofilter (fun '(s, _) => s =? 1) fv)).
Definition humidity_4_4 (m : list N) : res (option N) :=
  fv <- flag_and_range_value m 82 83 88 ;;
  Ok (omap (fun '(_, v) => N.shiftr (v * 100) 6) (ofilter (fun '(s, _) => s =? 1) fv)).
Definition pressure_4_4 (m : list N) : res (option N) :=
  fv <- flag_and_range_value m 67 68 78 ;;
  Ok (omap (fun '(_, v) => v) (ofilter (fun '(s, _) => s =? 1) fv)).
Definition temperature_4_5 (m : list N) : res (option Q) :=
  v <- status_flag_and_range_value m 48 49 50 58 ;;
  Ok (omap (fun '(_, sign, value) =>
              if sign =? 1 then ((- Z.of_N value) # 4)%Q else (Z.of_N value # 4)%Q)
           (ofilter (fun '(s, _, _) => s =? 1) v)).

Record meteo := mkMeteo { me_temp : option Q; me_wind : option (N * N); me_hum : option N;
                          me_turb : option N; me_pres : option N }.

Definition is_bds_4_4 (m : list N) : res (option meteo) :=
  fom <- range_value m 33 36 ;;
  match fom with
  | None => Ok None
  | Some fom =>
      good <- andalso (Ok (8 <? fom))
              (andalso (goodflags m 37 38 55)
              (andalso (goodflags m 37 57 66)
              (andalso (goodflags m 67 68 78)
              (andalso (goodflags m 79 80 81) (goodflags m 82 83 88))))) ;;
      if negb good then Ok None else
      t <- temperature_4_4 m ;;
      w <- wind_4_4 m ;;
      h <- humidity_4_4 m ;;
      tb <- turbulence_4_4 m ;;
      p <- pressure_4_4 m ;;
      let k := mkMeteo (ofilter (fun x => Qle_bool (-80) x && Qle_bool x 60) t)
                       (ofilter (fun '(a, _) => in_range 0 300 a) w)
                       (ofilter (in_range 0 100) h) (ofilter (in_range 0 15) tb)
                       (ofilter (in_range 0 2048) p) in
      if is_some (me_temp k) && is_some (me_hum k) && is_some (me_turb k) && is_some (me_pres k)
      then Ok (Some k) else Ok None
  end.

Definition is_bds_4_5 (m : list N) : res (option Q) :=
  good <- andalso (goodflags m 33 34 35)
          (andalso (goodflags m 36 37 38)
          (andalso (goodflags m 39 40 41)
          (andalso (goodflags m 42 43 44)
          (andalso (goodflags m 45 46 47)
          (andalso (goodflags m 48 49 58)
          (andalso (goodflags m 59 60 60)
          (andalso (goodflags m 71 72 83) (rnot (goodflags m 33 84 88))))))))) ;;
  if negb good then Ok None else
  t <- temperature_4_5 m ;;
  Ok (ofilter (fun x => Qle_bool x 45) t).
