(** src/decoder/planes.rs : print order.  sort_by_cached_key is a stable sort; it is modelled
    by a stable insertion sort on an integer key (every key type used embeds in Z). *)
From SQ Require Export Table.
From Coq Require Import Qround.
Local Open Scope Z_scope.

Fixpoint insert_by {A} (key : A -> Z) (x : A) (l : list A) : list A :=
  match l with
  | [] => [x]
  | y :: t => if key x <? key y then x :: l else y :: insert_by key x t
  end.
(** stable: an element is inserted after the elements it ties with, going left to right *)
Definition stable_sort {A} (key : A -> Z) (l : list A) : list A :=
  fold_left (fun acc x => insert_by key x acc) l [].

(** f64 as i32 : truncation toward zero (values here are within +-360) *)
Definition qtrunc (q : Q) : Z := Z.quot (Qnum q) (Z.pos (Qden q)).

Definition okey (o : option N) : Z := match o with Some v => Z.of_N v | None => -1 end.

Inductive sort_action :=
| SortBy (key : row -> Z) (reverse_after : bool)
| NoSort.

(** distance needs the haversine value, which the model does not compute: [dkey] is supplied
    by the caller (0 for rows without a distance) *)
Definition sort_action_of (dkey : row -> Z) (c : N) : sort_action :=
  match c with
  | 97%N  (* a *) => SortBy (fun r => okey (r_altitude r)) false
  | 65%N  (* A *) => SortBy (fun r => okey (r_altitude r)) true
  | 99%N  (* c *) => SortBy (fun r => Z.of_N (fst (category r)) * 4294967296 + Z.of_N (snd (category r))) false
  | 67%N  (* C *) => SortBy (fun r => - Z.of_N (N.lor (N.shiftl (fst (category r)) 1) (snd (category r)))) false
  | 100%N (* d *) => SortBy dkey false
  | 68%N  (* D *) => SortBy dkey true
  | 78%N  (* N *) => SortBy (fun r => qtrunc (lat r)) false
  | 83%N  (* S *) => SortBy (fun r => - qtrunc (lat r)) false
  | 87%N  (* W *) => SortBy (fun r => qtrunc (lon r)) false
  | 69%N  (* E *) => SortBy (fun r => - qtrunc (lon r)) false
  | 115%N (* s *) => SortBy (fun r => okey (r_squawk r)) false
  | 86%N  (* V *) => SortBy (fun r => - match vrate r with Some v => v | None => 0 end) false
  | 118%N (* v *) => SortBy (fun r => match vrate r with Some v => v | None => 0 end) false
  | _ => NoSort
  end.

Definition apply_sort (dkey : row -> Z) (l : list (N * row)) (c : N) : list (N * row) :=
  match sort_action_of dkey c with
  | SortBy key rv =>
      let s := stable_sort (fun p => key (snd p)) l in if rv then rev s else s
  | NoSort => l
  end.

(** Planes::print order: by address, then one stable sort per -o letter in order *)
Definition print_order (dkey : row -> Z) (order_by : list (list N)) (t : table) : list (N * row) :=
  fold_left (apply_sort dkey) (List.concat order_by) (stable_sort (fun p => Z.of_N (fst p)) t).
