(** Machine-level conventions shared by the whole model.
    - [res]: a result monad whose [Panic] stands for a Rust panic (slice index out of
      range, [expect]/[unwrap] on [None], arithmetic overflow in a checked build).
    - nibble vectors are [list N]; indices are [nat].
    - time is [Z] milliseconds. *)
From Coq Require Export List NArith ZArith QArith Bool String Ascii Lia.
Export ListNotations.
Open Scope N_scope.

Inductive res (A : Type) : Type :=
| Ok (a : A)
| Panic (why : string).
Arguments Ok {A} a.
Arguments Panic {A} why.

Definition bind {A B} (x : res A) (f : A -> res B) : res B :=
  match x with Ok a => f a | Panic w => Panic w end.
Definition ret {A} (a : A) : res A := Ok a.

Declare Scope res_scope.
Notation "x <- e ;; k" := (bind e (fun x => k))
  (at level 61, e at next level, right associativity) : res_scope.
Notation "' p <- e ;; k" := (bind e (fun p => k))
  (at level 61, p pattern, e at next level, right associativity) : res_scope.
Delimit Scope res_scope with res.
Open Scope res_scope.

Definition is_ok {A} (x : res A) : bool := match x with Ok _ => true | Panic _ => false end.

(** Checked slice indexing [message[i]]. *)
Definition idx (m : list N) (i : nat) : res N :=
  match nth_error m i with
  | Some x => Ok x
  | None => Panic "index out of range"
  end.

(** Checked sub-slice [message[a..b]] (Rust panics when a > b or b > len). *)
Definition slice (m : list N) (a b : nat) : res (list N) :=
  if (Nat.leb a b && Nat.leb b (List.length m))%bool
  then Ok (firstn (b - a) (skipn a m))
  else Panic "slice out of range".

(** u32 subtraction: panics on underflow in a checked build, and no caller in the
    repaired code relies on wrap-around, so underflow is a [Panic] in the model. *)
Definition u32_sub (a b : N) : res N :=
  if b <=? a then Ok (a - b) else Panic "attempt to subtract with overflow".

Definition u32_max : N := 4294967295.
(** any u32 result: a value above 2^32-1 is an overflow panic in a checked build. *)
Definition u32 (a : N) : res N :=
  if a <=? u32_max then Ok a else Panic "arithmetic overflow".

(** wrapping left shift of a u32 (shl never panics for shift amounts < 32) *)
Definition shl32 (a : N) (k : N) : N := N.land (N.shiftl a k) 4294967295.

(** option helpers mirroring Rust's combinators *)
Definition ofilter {A} (p : A -> bool) (o : option A) : option A :=
  match o with Some a => if p a then Some a else None | None => None end.
Definition omap {A B} (f : A -> B) (o : option A) : option B :=
  match o with Some a => Some (f a) | None => None end.
Definition oor {A} (a b : option A) : option A :=
  match a with Some _ => a | None => b end.
Definition is_some {A} (o : option A) : bool := match o with Some _ => true | None => false end.

(** chrono: [a.signed_duration_since(b).num_seconds()] on millisecond stamps *)
Definition num_seconds (a b : Z) : Z := Z.quot (a - b) 1000.

Definition b2n (b : bool) : N := if b then 1 else 0.
