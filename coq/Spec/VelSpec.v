(** Airborne velocity (TC19 subtypes 1/2): DO-260B 2.2.3.2.6.  Written on field values:
    bit 46 east/west direction, bits 47-56 E/W velocity field, bit 57 N/S direction, bits 58-67 N/S
    field, bit 69 vertical-rate sign, bits 70-78 vertical-rate field.  A field of 0 = no information. *)
From SQ Require Import Base Velocity.
Local Open Scope N_scope.

Definition vrate_spec (sign v : N) : option Z :=
  if v =? 0 then None
  else Some (if sign =? 1 then (- (64 * (Z.of_N v - 1)))%Z else (64 * (Z.of_N v - 1))%Z).

(** ground speed: floor(sqrt(vx^2+vy^2)) with vx = vew-1, vy = vns-1 (x4 for the supersonic subtype);
    track: [track_of] (its relation to floor(atan2) in degrees is Proofs/TrackSound.v) *)
Definition vel_spec (supersonic : bool) (dew vew dns vns : N) : option N * option N :=
  if (vew =? 0) || (vns =? 0) then (None, None)
  else
    let a := vew - 1 in let b := vns - 1 in
    let gs := N.sqrt (a * a + b * b) in
    (Some (Z.to_N (track_of (dew =? 1) (Z.of_N a) (dns =? 1) (Z.of_N b))),
     Some (if supersonic then 4 * gs else gs)).
