(** Carriers: which received frames may carry which displayed parameter.

    Written from the property "frames of a format that does not carry a parameter never change
    it" (no cross-talk), not from the code: [carrier f df tc st] says whether a frame of downlink
    format [df] -- and, for the extended squitters DF17/DF18, of type code [tc] and subtype [st] --
    may carry the parameter stored in row field [f].  For every other [df] the arguments [tc]
    and [st] are ignored.  The field enumeration [fld] and the range test [in_tc] are the only
    things taken from the development. *)
From SQ Require Import Base Update Footprint.
Local Open Scope N_scope.

(** extended squitter (ADS-B / TIS-B) and Comm-B reply formats *)
Definition adsb (df : N) : bool := (df =? 17) || (df =? 18).
Definition commb (df : N) : bool := (df =? 20) || (df =? 21).

(** airborne velocity (TC 19): subtypes 1/2 are ground-speed based, 3/4 airspeed/heading based *)
Definition vel_gs (tc st : N) : bool := (tc =? 19) && ((st =? 1) || (st =? 2)).
Definition vel_as (tc st : N) : bool := (tc =? 19) && ((st =? 3) || (st =? 4)).

Definition carrier (f : fld) (df tc st : N) : bool :=
  match f with
  (* barometric altitude: DF4, DF20, airborne position TC 9-18; surface position TC 5-8 blanks it *)
  | F_altitude => (df =? 4) || (df =? 20) || adsb df && in_tc 5 18 tc
  | F_altitude_source =>
      (df =? 4) || (df =? 20) || adsb df && (in_tc 5 18 tc || vel_as tc st)
  (* identity (Mode A code): DF5, DF21 *)
  | F_squawk => (df =? 5) || (df =? 21)
  (* callsign: identification squitter TC 1-4, Comm-B BDS 2,0; category: TC 1-4 only *)
  | F_ais => adsb df && in_tc 1 4 tc || commb df
  | F_category => adsb df && in_tc 1 4 tc
  (* ground speed: TC 19 subtype 1/2, BDS 5,0 *)
  | F_grspeed => adsb df && vel_gs tc st || commb df
  (* track: TC 19 subtype 1/2, surface position TC 5-8, BDS 5,0 *)
  | F_track | F_track_source => adsb df && (vel_gs tc st || in_tc 5 8 tc) || commb df
  | F_track_t => commb df
  (* vertical rate: TC 19, BDS 6,0 *)
  | F_vrate | F_vrate_source => adsb df && (tc =? 19) || commb df
  (* position and the CPR slots: TC 5-18 *)
  | F_lat | F_lon | F_dist | F_pos_t
  | F_cpr_lat0 | F_cpr_lat1 | F_cpr_lon0 | F_cpr_lon1
  | F_cpr_t0 | F_cpr_t1 | F_cpr_s0 | F_cpr_s1 => adsb df && in_tc 5 18 tc
  (* surveillance status: airborne position TC 9-18 and TC 20-22 *)
  | F_surv => adsb df && (in_tc 9 18 tc || in_tc 20 22 tc)
  (* ADS-B version: operational status TC 31 *)
  | F_version => adsb df && (tc =? 31)
  (* GNSS altitude: TC 19 (difference from baro) and TC 20-22 *)
  | F_altitude_gnss => adsb df && ((tc =? 19) || in_tc 20 22 tc)
  (* ground movement: surface position TC 5-8 *)
  | F_gm => adsb df && in_tc 5 8 tc
  (* heading: TC 19 subtype 3/4, BDS 6,0 *)
  | F_heading | F_heading_source => adsb df && vel_as tc st || commb df
  | F_heading_t => commb df
  (* transponder capability CA: DF11 and DF17 *)
  | F_cap_ca => (df =? 11) || (df =? 17)
  (* BDS 1,7 capability report and every other Comm-B register content: DF20/21 *)
  | F_cap
  | F_selected_altitude | F_baro | F_tas_src | F_roll | F_tar | F_tas | F_b5t | F_ias | F_mach
  | F_threat | F_temp | F_wind | F_turb | F_hum | F_pres => commb df
  (* bookkeeping: time of last frame and its format: every frame; last type code: DF17/18 *)
  | F_timestamp | F_last_df => true
  | F_last_tc => adsb df
  (* address, registration country, turn: no frame changes them on an existing row *)
  | F_icao | F_reg | F_turn => false
  end.

(** ---- downlink path (DF::from_message + update_from_downlink) ----
    The decoded downlink already fixes what is present:
    - a short reply [DSrt s] with format [df] carries what a frame of that format carries
      (type code irrelevant); without a format it only stamps the time;
    - an extended squitter [DExt e] carries what a DF17 frame of its type code / subtype carries;
    - a Comm-B reply [DMds df ic] only stamps time and format and (re)writes the address [ic]
      it was looked up with: no displayed parameter is taken from it on this path. *)
Definition stamp (f : fld) (has_df : bool) : bool :=
  match f with F_timestamp => true | F_last_df => has_df | _ => false end.

Definition carrier_dl (f : fld) (d : downlink) : bool :=
  match d with
  | DSrt s => match s_df s with
              | Some df => carrier f df 0 0
              | None => stamp f false
              end
  | DExt e => carrier f 17 (fst (e_mt e)) (snd (e_mt e))
  | DMds df ic => stamp f (is_some df) || match f with F_icao => is_some ic | _ => false end
  end.
