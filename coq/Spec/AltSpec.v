(** Mode S altitude code (Annex 10 Vol IV 3.1.2.6.5.4), written on the VALUE of the altitude field.
    AC13 (bits 20-32 of DF4/DF20):  C1 A1 C2 A2 C4 A4 M B1 Q B2 D2 B4 D4   (bit 12 .. bit 0)
    AC12 (bits 41-52 of an airborne position ME field): the same without M. *)
From Coq Require Import NArith List Bool.
Import ListNotations.
Open Scope N_scope.

Definition tb (c k : N) : N := if N.testbit c k then 1 else 0.

(** remove the M bit (bit 6) of a 13-bit code: 12-bit code C1 A1 C2 A2 C4 A4 B1 Q B2 D2 B4 D4 *)
Definition drop_m (c : N) : N := N.shiftl (N.shiftr c 7) 6 + c mod 64.

(** Gray to binary on a list of bits, most significant first *)
Fixpoint gray_bits (bs : list N) (acc v : N) : N :=
  match bs with
  | [] => v
  | b :: t => let acc' := N.lxor acc b in gray_bits t acc' (2 * v + acc')
  end.

(** Gillham / Mode C on the 12-bit code (no M):  500-ft Gray value of D2 D4 A1 A2 A4 B1 B2 B4,
    100-ft Gray value of C1 C2 C4 in 1..5 (7 reads as 5; 0, 5, 6 illegal), reflected when the
    500-ft value is odd;  altitude = 500 f + 100 c - 1300, none if illegal or negative *)
Definition gillham12 (c : N) : option N :=
  let C1 := tb c 11 in let A1 := tb c 10 in let C2 := tb c 9 in let A2 := tb c 8 in
  let C4 := tb c 7 in let A4 := tb c 6 in let B1 := tb c 5 in
  let B2 := tb c 3 in let D2 := tb c 2 in let B4 := tb c 1 in let D4 := tb c 0 in
  let f := gray_bits [D2; D4; A1; A2; A4; B1; B2; B4] 0 0 in
  let g := gray_bits [C1; C2; C4] 0 0 in
  if (g =? 0) || (g =? 5) || (g =? 6) then None else
  let g := if g =? 7 then 5 else g in
  let g := if N.odd f then 6 - g else g in
  let v := 500 * f + 100 * g in
  if 1300 <=? v then Some (v - 1300) else None.

(** 12-bit code: all zero -> none; Q=1 -> 25 N - 1000 if >= 0; Q=0 -> Gillham *)
Definition alt12_spec (c : N) : option N :=
  if c =? 0 then None
  else if N.testbit c 4 then
    let n := N.shiftl (N.shiftr c 5) 4 + c mod 16 in
    if 1000 <=? 25 * n then Some (25 * n - 1000) else None
  else gillham12 c.

(** 13-bit code with M = 0 *)
Definition alt13_spec (c : N) : option N := alt12_spec (drop_m c).
Definition m_bit (c : N) : bool := N.testbit c 6.
Definition q_bit13 (c : N) : bool := N.testbit c 4.
