(** Identity code (squawk) from the 13-bit ID field, Annex 10 Vol IV 3.1.2.6.7.1:
    bits 20..32 of the reply are  C1 A1 C2 A2 C4 A4 X B1 D1 B2 D2 B4 D4 ; the code is the four
    octal digits A B C D with A = 4*A4 + 2*A2 + A1 etc. *)
From SQ Require Import Base.
Local Open Scope N_scope.

Definition id_spec (m : list N) : N :=
  let C1 := bit_at m 20 in let A1 := bit_at m 21 in let C2 := bit_at m 22 in
  let A2 := bit_at m 23 in let C4 := bit_at m 24 in let A4 := bit_at m 25 in
  let B1 := bit_at m 27 in let D1 := bit_at m 28 in let B2 := bit_at m 29 in
  let D2 := bit_at m 30 in let B4 := bit_at m 31 in let D4 := bit_at m 32 in
  1000 * (4 * A4 + 2 * A2 + A1) + 100 * (4 * B4 + 2 * B2 + B1)
  + 10 * (4 * C4 + 2 * C2 + C1) + (4 * D4 + 2 * D2 + D1).
