(** Aircraft identification (BDS 2,0 / TC 1-4): eight 6-bit characters in bits 41-88, ICAO Annex 10
    IA5 subset: 1-26 -> 'A'-'Z', 48-57 -> '0'-'9'; every other code is omitted. *)
From SQ Require Import Base.
Local Open Scope N_scope.

Definition ia5_spec (c : N) : option N :=
  if (1 <=? c) && (c <=? 26) then Some (64 + c)
  else if (48 <=? c) && (c <=? 57) then Some c
  else None.

Definition char_field (m : list N) (k : nat) : N := field m (41 + 6 * k) (46 + 6 * k).

Fixpoint keep_some (l : list (option N)) : list N :=
  match l with
  | [] => []
  | Some c :: t => c :: keep_some t
  | None :: t => keep_some t
  end.

Definition ais_spec (m : list N) : list N :=
  keep_some (map (fun k => ia5_spec (char_field m k)) [0;1;2;3;4;5;6;7]%nat).

(** wake turbulence letter shown for (type code, category) *)
Definition wake_spec (tc ca : N) : option N :=
  if tc =? 4 then
    if ca =? 1 then Some 76 (* L *) else if ca =? 2 then Some 83 (* S *)
    else if ca =? 3 then Some 77 (* M *) else if ca =? 4 then Some 72 (* H *)
    else if ca =? 5 then Some 74 (* J *) else if ca =? 7 then Some 82 (* R *)
    else None
  else None.
