(** Independent specification of the Mode S parity code: schoolbook polynomial long
    division over GF(2).  A polynomial is an [N]; bit [i] is the coefficient of x^i.
    Nothing here refers to the model of the program. *)
From Coq Require Import NArith.
Local Open Scope N_scope.

(** The 25-bit Mode S generator
    x^24+x^23+x^22+x^21+x^20+x^19+x^18+x^17+x^16+x^15+x^14+x^13+x^12+x^10+x^3+1
    = 0x1FFF409. *)
Definition GEN : N := 33551369. (* 0x1FFF409 *)

(** One long-division step at bit [24 + k]: when the coefficient of x^(24+k) is set,
    subtract (xor) the generator aligned under it. *)
Definition div_step (k : nat) (reg : N) : N :=
  if N.testbit reg (N.of_nat (k + 24))
  then N.lxor reg (N.shiftl GEN (N.of_nat k))
  else reg.

(** [div_loop k reg]: handle bits k+23, k+22, ..., 24 of [reg], in that order. *)
Fixpoint div_loop (k : nat) (reg : N) : N :=
  match k with
  | O => reg
  | S k' => div_loop k' (div_step k' reg)
  end.

(** Remainder of [data * x^24] divided by [GEN], [data] having [nbits] bits. *)
Definition crc_spec (data : N) (nbits : nat) : N :=
  div_loop nbits (N.shiftl data 24).

(** The syndrome of a whole [nbits]-bit frame (data followed by a 24-bit parity field):
    remainder of the data part, xor the transmitted parity field. *)
Definition syndrome (frame : N) (nbits : nat) : N :=
  N.lxor (crc_spec (frame / 2 ^ 24) (nbits - 24)) (frame mod 2 ^ 24).
