(** ICAO Doc 9871 (Technical Provisions for Mode S Services and Extended Squitter), Table A-2:
    the Comm-B registers BDS 4,0 / 5,0 / 6,0, written on field VALUES.

    The 56-bit MB field occupies bits 33..88 of the 112-bit reply, so MB bit k is frame bit
    32 + k; the bit numbers below are FRAME bit numbers (33 = MB bit 1 ... 88 = MB bit 56), the
    convention of [bit_at] / [field] of Proofs/Base.v (bit 1 = first transmitted = MSB).

    BDS 4,0  selected vertical intention
      33 status | 34-45 MCP/FCU selected altitude, LSB 16 ft
      46 status | 47-58 FMS selected altitude, LSB 16 ft
      59 status | 60-71 barometric pressure setting minus 800 mb, LSB 0.1 mb
      72-79 reserved (zero) | 80-83 MCP/FCU mode bits | 84-85 reserved (zero)
      86 status | 87-88 target altitude source
    BDS 5,0  track and turn report
      33 status | 34 sign | 35-43 roll angle, LSB 45/256 deg, two's complement
      44 status | 45 sign | 46-55 true track angle, LSB 90/512 deg, two's complement (sign = west)
      56 status | 57-66 ground speed, LSB 2 kt
      67 status | 68 sign | 69-77 track angle rate, LSB 8/256 deg/s, two's complement
      78 status | 79-88 true airspeed, LSB 2 kt
    BDS 6,0  heading and speed report
      33 status | 34 sign | 35-44 magnetic heading, LSB 90/512 deg, two's complement (sign = west)
      45 status | 46-55 indicated airspeed, LSB 1 kt
      56 status | 57-66 Mach, LSB 2.048/512
      67 status | 68 sign | 69-77 barometric altitude rate, LSB 32 ft/min, two's complement
      78 status | 79 sign | 80-88 inertial vertical velocity, LSB 32 ft/min, two's complement

    Integer results are floors ([Z.div] and [N.div] are floor divisions). *)
From Coq Require Import QArith.
From SQ Require Import Base Bds.
Local Open Scope N_scope.

(** a field is reported iff its status bit is set *)
Definition when_set {A} (status : N) (x : A) : option A := if status =? 1 then Some x else None.
(** variant used by the decoder for four BDS 6,0 fields: an all-zero value field is also "no data" *)
Definition when_set_nz {A} (status v : N) (x : A) : option A :=
  if (status =? 1) && negb (v =? 0) then Some x else None.

(** two's complement value of an n-bit magnitude field [v] preceded by a sign bit *)
Definition twos (n : N) (sign v : N) : Z := (Z.of_N v - 2 ^ Z.of_N n * Z.of_N sign)%Z.

(** ---------- BDS 4,0 ---------- *)
Definition sel_alt_spec (v : N) : N := 16 * v.                    (* ft *)
Definition baro_spec (v : N) : N := v / 10 + 800.                 (* whole mb: floor(v * 0.1) + 800 *)
Definition alt_source_spec (v : N) : N := v.

(** ---------- BDS 5,0 ---------- *)
(** floor((v - 512 sign) * 45/256) degrees *)
Definition roll_spec (sign v : N) : Z := (twos 9 sign v * 45 / 256)%Z.
(** floor((v - 1024 sign) * 90/512) degrees, normalised to [0, 360) *)
Definition angle_spec (sign v : N) : N := Z.to_N ((twos 10 sign v * 90 / 512) mod 360)%Z.
Definition speed2_spec (v : N) : N := 2 * v.                      (* kt *)
(** floor((v - 512 sign) * 8/256) degrees per second *)
Definition tar_spec (sign v : N) : Z := (twos 9 sign v * 8 / 256)%Z.

(** ---------- BDS 6,0 ---------- *)
Definition ias_spec (v : N) : N := v.                             (* kt *)
(** v * 2.048/512 = v * 0.004, as an exact rational *)
Definition mach_spec (v : N) : Q := (Z.of_N v * 4 # 1000)%Q.
Definition vrate32_spec (sign v : N) : Z := (32 * twos 9 sign v)%Z.  (* ft/min *)

(** ---------- the registers as functions of the frame ---------- *)
Definition bds40_doc (m : list N) : bds40 :=
  mkB40 (when_set (bit_at m 33) (sel_alt_spec (field m 34 45)))
        (when_set (bit_at m 46) (sel_alt_spec (field m 47 58)))
        (when_set (bit_at m 59) (baro_spec (field m 60 71)))
        (when_set (bit_at m 86) (alt_source_spec (field m 87 88))).

Definition bds50_doc (m : list N) : bds50 :=
  mkB50 (when_set (bit_at m 33) (roll_spec (bit_at m 34) (field m 35 43)))
        (when_set (bit_at m 44) (angle_spec (bit_at m 45) (field m 46 55)))
        (when_set (bit_at m 67) (tar_spec (bit_at m 68) (field m 69 77)))
        (when_set (bit_at m 56) (speed2_spec (field m 57 66)))
        (when_set (bit_at m 78) (speed2_spec (field m 79 88))).

Definition bds60_doc (m : list N) : bds60 :=
  mkB60 (when_set (bit_at m 33) (angle_spec (bit_at m 34) (field m 35 44)))
        (when_set_nz (bit_at m 45) (field m 46 55) (ias_spec (field m 46 55)))
        (when_set_nz (bit_at m 56) (field m 57 66) (mach_spec (field m 57 66)))
        (when_set_nz (bit_at m 67) (field m 69 77) (vrate32_spec (bit_at m 68) (field m 69 77)))
        (when_set_nz (bit_at m 78) (field m 80 88) (vrate32_spec (bit_at m 79) (field m 80 88))).

(** ---------- the register tests (inference heuristics of the decoder, on field values) ---------- *)
Definition nz (v : N) : bool := negb (v =? 0).
Definition zbetween (lo hi x : Z) : bool := ((lo <=? x) && (x <=? hi))%Z.
Definition ndist (a b : N) : N := if a <=? b then b - a else a - b.

(** BDS 4,0: the three status bits set with non-zero value fields; reserved bits all zero *)
Definition bds40_ok (m : list N) : bool :=
  (bit_at m 33 =? 1) && nz (field m 34 45) && (bit_at m 46 =? 1) && nz (field m 47 58)
  && (bit_at m 59 =? 1) && nz (field m 60 71)
  && (field m 72 79 =? 0) && (field m 84 85 =? 0).

(** BDS 5,0: five status bits set, every sign+value (or value) field non-zero, and the
    plausibility limits |roll| <= 50, gs <= 600, tas <= 500, |gs - tas| < 200.
    (track <= 360 and |track angle rate| <= 16 hold for every field value.) *)
Definition bds50_ok (m : list N) : bool :=
  (bit_at m 33 =? 1) && nz (field m 34 43) && (bit_at m 44 =? 1) && nz (field m 45 55)
  && (bit_at m 56 =? 1) && nz (field m 57 66) && (bit_at m 67 =? 1) && nz (field m 68 77)
  && (bit_at m 78 =? 1) && nz (field m 79 88)
  && zbetween (-50) 50 (roll_spec (bit_at m 34) (field m 35 43))
  && (speed2_spec (field m 57 66) <=? 600) && (speed2_spec (field m 79 88) <=? 500)
  && (ndist (speed2_spec (field m 57 66)) (speed2_spec (field m 79 88)) <? 200).

(** BDS 6,0: five status bits set, every sign+value (or value) field non-zero, Mach <= 1 and
    each vertical rate, when its value field is non-zero, within +/-6000 ft/min.
    (heading <= 360 and IAS <= 1023 hold for every field value.) *)
Definition rate_ok (sign v : N) : bool := (v =? 0) || zbetween (-6000) 6000 (vrate32_spec sign v).
Definition bds60_ok (m : list N) : bool :=
  (bit_at m 33 =? 1) && nz (field m 34 44) && (bit_at m 45 =? 1) && nz (field m 46 55)
  && (bit_at m 56 =? 1) && nz (field m 57 66) && (bit_at m 67 =? 1) && nz (field m 68 77)
  && (bit_at m 78 =? 1) && nz (field m 79 88)
  && Qle_bool (mach_spec (field m 57 66)) 1
  && rate_ok (bit_at m 68) (field m 69 77) && rate_ok (bit_at m 79) (field m 80 88).
