(** "No input line can crash the decoder": the model of the whole line pipeline
    (bytes -> lines -> frame -> decoders -> row update -> table -> CLI frames) never
    yields [Panic], for all inputs.  Part 2: Frame.get_message, Update.v, Table.v, Display.v. *)
From SQ Require Import Base RangeSpec Tables.
From SQ Require Import Display.
From SQ Require Import TotalDecode.
Local Open Scope N_scope.

(** ---------- line -> frame ---------- *)

(** what [get_message] hands to the decoders *)
Definition frame_ok (m : list N) : Prop :=
  wf m /\ ((List.length m = 14%nat /\ nth 0 m 0 < 8) \/ (List.length m = 28%nat /\ 8 <= nth 0 m 0)).

Lemma hexval_lt b v : hexval b = Some v -> v < 16.
Proof.
  unfold hexval. intros H.
  destruct ((48 <=? b) && (b <=? 57)) eqn:E1.
  { apply andb_true_iff in E1. destruct E1 as [A B]. apply N.leb_le in A. apply N.leb_le in B.
    inversion H. lia. }
  destruct ((65 <=? b) && (b <=? 70)) eqn:E2.
  { apply andb_true_iff in E2. destruct E2 as [A B]. apply N.leb_le in A. apply N.leb_le in B.
    inversion H. lia. }
  destruct ((97 <=? b) && (b <=? 102)) eqn:E3; [|discriminate H].
  apply andb_true_iff in E3. destruct E3 as [A B]. apply N.leb_le in A. apply N.leb_le in B.
  inversion H. lia.
Qed.

Lemma digits_wf line : wf (digits line).
Proof.
  unfold wf, digits. induction line as [|b t IH]; cbn [Frame.filter_map]; [constructor|].
  destruct (hexval b) as [v|] eqn:E; [|exact IH].
  constructor; [exact (hexval_lt b v E) | exact IH].
Qed.

Lemma clean_squitter_len line m :
  clean_squitter line = Some m -> wf m /\ (List.length m = 14%nat \/ List.length m = 28%nat).
Proof.
  unfold clean_squitter. cbv zeta. pose proof (digits_wf line) as Wd.
  remember (digits line) as d eqn:Hd. clear Hd line.
  pose proof (skipn_length 12 d) as Sk.
  remember (List.length d) as n eqn:Hn.
  intros H.
  assert (D : (m = d /\ (n = 14 \/ n = 28)%nat) \/ (m = skipn 12 d /\ (n = 26 \/ n = 40)%nat)).
  { do 41 (destruct n as [|n];
           [first [discriminate H
                  | left; split; [congruence | lia]
                  | right; split; [congruence | lia]] |]).
    discriminate H. }
  destruct D as [[-> D] | [-> D]].
  - split; [exact Wd | lia].
  - split; [apply Forall_skipn; exact Wd | lia].
Qed.

Theorem get_message_total : forall line,
  exists r, get_message line = Ok r /\ (forall m, r = Some m -> frame_ok m).
Proof.
  intros line. unfold get_message.
  destruct (clean_squitter line) as [m|] eqn:C.
  2:{ exists None. split; [reflexivity | discriminate]. }
  destruct (clean_squitter_len line m C) as [W [L|L]]; rewrite L.
  - change (negb (Nat.eqb 14 14 || Nat.eqb 14 28)) with false. cbv iota.
    rewrite idx_nth by lia. cbn [bind].
    change (Nat.eqb 14 14) with true.
    destruct (nth 0 m 0 <? 8) eqn:E; cbn [Bool.eqb negb].
    + callee (reminder_total_14 m W L). destruct (v =? 0).
      * exists (Some m). split; [reflexivity|]. intros m' Hm. inversion Hm. subst m'.
        split; [exact W|]. left. split; [exact L | apply N.ltb_lt; exact E].
      * exists None. split; [reflexivity | discriminate].
    + exists None. split; [reflexivity | discriminate].
  - change (negb (Nat.eqb 28 14 || Nat.eqb 28 28)) with false. cbv iota.
    rewrite idx_nth by lia. cbn [bind].
    change (Nat.eqb 28 14) with false.
    destruct (nth 0 m 0 <? 8) eqn:E; cbn [Bool.eqb negb].
    + exists None. split; [reflexivity | discriminate].
    + callee (reminder_total m W L). destruct (v =? 0).
      * exists (Some m). split; [reflexivity|]. intros m' Hm. inversion Hm. subst m'.
        split; [exact W|]. right. split; [exact L | apply N.ltb_ge; exact E].
      * exists None. split; [reflexivity | discriminate].
Qed.

(** ---------- DF and frame length agree ---------- *)

Lemma top_bit x : x < 16 ->
  (N.land (N.shiftr x 3) 1 = 0 /\ x < 8) \/ (N.land (N.shiftr x 3) 1 = 1 /\ 8 <= x).
Proof.
  intros H. nib_cases x H;
  first [left; split; [reflexivity | lia] | right; split; [reflexivity | lia]].
Qed.

Lemma field_1_5_top m : wf m -> (field m 1 5 < 16 <-> nth 0 m 0 < 8).
Proof.
  intros W.
  change (field m 1 5) with
    (2 * (2 * (2 * (2 * (2 * 0 + bit_at m 1) + bit_at m 2) + bit_at m 3) + bit_at m 4) + bit_at m 5).
  pose proof (bit_at_lt2 m 2). pose proof (bit_at_lt2 m 3).
  pose proof (bit_at_lt2 m 4). pose proof (bit_at_lt2 m 5).
  change (bit_at m 1) with (N.land (N.shiftr (nth 0 m 0) 3) 1).
  destruct (top_bit (nth 0 m 0) (wf_nth m 0%nat W)) as [[E B] | [E B]]; rewrite E; lia.
Qed.

Lemma df_of_frame : forall m, frame_ok m ->
  exists df, get_downlink_format m = Ok (Some df) /\ df < 32 /\ (df < 16 <-> List.length m = 14%nat).
Proof.
  intros m [W C]. exists (field m 1 5). split; [|split].
  - apply get_downlink_format_eq; [exact W | destruct C as [[L _] | [L _]]; lia].
  - pose proof (field_bound m 1 5) as B. change (2 ^ N.of_nat (S 5 - 1)) with 32 in B. exact B.
  - pose proof (field_1_5_top m W) as T. destruct C as [[L B] | [L B]]; lia.
Qed.

(** the two shapes of a frame together with what its DF can then be *)
Lemma frame_cases m df : frame_ok m -> get_downlink_format m = Ok (Some df) ->
  wf m /\ ((List.length m = 14%nat /\ df < 16) \/ (List.length m = 28%nat /\ 16 <= df)).
Proof.
  intros F E. destruct (df_of_frame m F) as [df' [E' [_ I]]].
  rewrite E in E'. inversion E'. subst df'.
  destruct F as [W [[L _] | [L _]]]; (split; [exact W|]); [left | right]; (split; [exact L | lia]).
Qed.

Lemma get_icao_frame m df : frame_ok m -> get_downlink_format m = Ok (Some df) ->
  exists v, get_icao m df = Ok v.
Proof.
  intros F E. destruct (frame_cases m df F E) as [W [[L D] | [L D]]].
  - apply get_icao_total_14; [exact W | exact L | lia].
  - apply get_icao_total; assumption.
Qed.

(** ---------- squitter path (Plane::update) ---------- *)

Lemma update_from_bcast_total r m df : (8 <= List.length m)%nat ->
  exists r', update_from_bcast r m df = Ok r'.
Proof.
  intros L. unfold update_from_bcast.
  callee (squawk_ge m L). callee (get_capability_ge m ltac:(lia)).
  destruct (df =? 17) eqn:D17.
  - apply N.eqb_eq in D17. subst df. cbn [N.eqb Pos.eqb orb bind]. eauto.
  - callee (altitude_ma_ge m df L D17). tot_fin.
Qed.

Lemma update_cpr_total obs r m tc : wf m -> List.length m = 28%nat ->
  exists r', update_cpr obs r m tc = Ok r'.
Proof. intros W L. unfold update_cpr. callee (cpr_total m W L). tot_fin. Qed.

(** one monadic stage whose continuation does not matter *)
Ltac stage :=
  match goal with
  | |- exists v, bind ?X _ = Ok v =>
      let p := fresh "p" in let E := fresh "E" in
      assert (exists p, X = Ok p) as [p E];
      [ tot_fin | rewrite E; clear E; cbn [bind]; try (destruct p as [? ?]) ]
  end.

Lemma update_from_ext_19_total r m st : wf m -> List.length m = 28%nat ->
  exists r', update_from_ext_19 r m st = Ok r'.
Proof.
  intros W L. unfold update_from_ext_19.
  callee (vertical_rate_total m W L). callee (altitude_delta_total m W L).
  callee (track_and_groundspeed_total m false W L). callee (track_and_groundspeed_total m true W L).
  callee (heading_total m W L).
  cbv zeta. stage. tot_fin.
Qed.

Lemma update_from_ext_total obs r m df : wf m -> List.length m = 28%nat ->
  exists r', update_from_ext obs r m df = Ok r'.
Proof.
  intros W L. unfold update_from_ext.
  callee (get_message_type_total m W L). destruct v as [tc st]. cbv zeta.
  callee (ais_total m W L). callee (ground_movement_total m W L). callee (ground_track_total m W L).
  callee (altitude_total m df W L). callee (surveillance_status_total m W L).
  callee (altitude_gnss_total m W L). callee (version_total m W L).
  destruct (in_tc 1 4 tc); [eauto|].
  destruct (in_tc 5 8 tc); [apply update_cpr_total; assumption|].
  destruct (in_tc 9 18 tc); [apply update_cpr_total; assumption|].
  destruct (tc =? 19); [apply update_from_ext_19_total; assumption|].
  tot_fin.
Qed.

Lemma update_from_mode_s_total r m relaxed : wf m -> List.length m = 28%nat ->
  exists r', update_from_mode_s r m relaxed = Ok r'.
Proof.
  intros W L. unfold update_from_mode_s.
  callee (bds_total m W L). callee (ais_total m W L). callee (threat_encounter_total m W L).
  callee (is_bds_1_7_total m W L). callee (is_bds_4_0_total m W L). callee (is_bds_5_0_total m W L).
  callee (is_bds_6_0_total m W L). callee (is_bds_4_4_total m W L). callee (is_bds_4_5_total m W L).
  stage. stage. cbv zeta. stage. stage. stage. stage. stage. tot_fin.
Qed.

Theorem plane_update_total : forall obs now r m df relaxed,
  frame_ok m -> get_downlink_format m = Ok (Some df) ->
  exists r', plane_update obs now r m df relaxed = Ok r'.
Proof.
  intros obs now r m df relaxed F E.
  destruct (frame_cases m df F E) as [W [[L D] | [L D]]]; unfold plane_update; cbv zeta.
  - match goal with |- context [update_from_bcast ?r0 m df] =>
      callee (update_from_bcast_total r0 m df ltac:(lia)) end.
    assert (E17 : (df =? 17) = false) by (apply N.eqb_neq; lia).
    assert (E18 : (df =? 18) = false) by (apply N.eqb_neq; lia).
    assert (E20 : (df =? 20) = false) by (apply N.eqb_neq; lia).
    assert (E21 : (df =? 21) = false) by (apply N.eqb_neq; lia).
    rewrite E17, E18, E20, E21. cbn [orb bind]. rewrite andb_false_r. eauto.
  - match goal with |- context [update_from_bcast ?r0 m df] =>
      callee (update_from_bcast_total r0 m df ltac:(lia)) end.
    destruct ((df =? 17) || (df =? 18)).
    + callee (update_from_ext_total obs v m df W L).
      destruct (_ && _); [apply update_from_mode_s_total; assumption | eauto].
    + cbn [bind]. destruct (_ && _); [apply update_from_mode_s_total; assumption | eauto].
Qed.

(** ---------- downlink path (DF::from_message) ---------- *)

Lemma srt_from_message_frame m : frame_ok m -> exists s, srt_from_message m = Ok s.
Proof.
  intros F. destruct (df_of_frame m F) as [df [E _]].
  pose proof (frame_cases m df F E) as [W C].
  unfold srt_from_message. rewrite E. cbn [bind].
  callee (get_icao_frame m df F E).
  assert (L8 : (8 <= List.length m)%nat) by (destruct C as [[L _] | [L _]]; lia).
  callee (squawk_ge m L8). callee (get_capability_ge m ltac:(lia)).
  destruct (df =? 4) eqn:D4.
  - apply N.eqb_eq in D4. subst df. callee (altitude_ma_ge m 4 L8 eq_refl). eauto.
  - tot_fin.
Qed.

Lemma srt_from_message_total m : wf m -> List.length m = 28%nat -> 8 <= nth 0 m 0 ->
  exists s, srt_from_message m = Ok s.
Proof. intros W L H. apply srt_from_message_frame. split; [exact W | right; split; assumption]. Qed.

Lemma srt_from_message_total_14 m : wf m -> List.length m = 14%nat -> nth 0 m 0 < 8 ->
  exists s, srt_from_message m = Ok s.
Proof. intros W L H. apply srt_from_message_frame. split; [exact W | left; split; assumption]. Qed.

Lemma ext_from_message_total m : wf m -> List.length m = 28%nat -> exists e, ext_from_message m = Ok e.
Proof.
  intros W L. unfold ext_from_message.
  rewrite get_downlink_format_eq by (assumption || lia). cbn [bind].
  callee (get_icao_total m (field m 1 5) W L). callee (get_capability_total m W L).
  callee (get_message_type_total m W L). cbv zeta.
  callee (ais_total m W L). callee (cpr_total m W L).
  callee (ground_movement_total m W L). callee (ground_track_total m W L).
  callee (altitude_total m (field m 1 5) W L). callee (surveillance_status_total m W L).
  callee (vertical_rate_total m W L). callee (altitude_delta_total m W L).
  callee (track_and_groundspeed_total m false W L). callee (track_and_groundspeed_total m true W L).
  callee (heading_total m W L). callee (altitude_gnss_total m W L). callee (version_total m W L).
  tot_fin.
Qed.

Lemma mds_from_message_total m : wf m -> List.length m = 28%nat -> exists p, mds_from_message m = Ok p.
Proof.
  intros W L. unfold mds_from_message.
  rewrite get_downlink_format_eq by (assumption || lia). cbn [bind].
  callee (get_icao_total m (field m 1 5) W L). callee (altitude_total m (field m 1 5) W L).
  callee (bds_total m W L). callee (ais_total m W L). callee (threat_encounter_total m W L).
  callee (is_bds_1_7_total m W L). callee (is_bds_4_0_total m W L). callee (is_bds_5_0_total m W L).
  callee (is_bds_6_0_total m W L). callee (is_bds_4_4_total m W L). callee (is_bds_4_5_total m W L).
  tot_fin.
Qed.

Theorem df_from_message_total : forall m, frame_ok m -> exists d, df_from_message m = Ok d.
Proof.
  intros m F. destruct (df_of_frame m F) as [df [E _]].
  pose proof (frame_cases m df F E) as [W C].
  unfold df_from_message. rewrite E. cbn [bind].
  destruct (df <=? 16) eqn:D16.
  { callee (srt_from_message_frame m F). eauto. }
  apply N.leb_gt in D16.
  assert (L : List.length m = 28%nat) by (destruct C as [[_ D] | [L _]]; [lia | exact L]).
  callee (ext_from_message_total m W L). callee (mds_from_message_total m W L).
  tot_fin.
Qed.

(** ---------- table and reader ---------- *)

Lemma update_aircraft_total o now t d m df a :
  frame_ok m -> get_downlink_format m = Ok (Some df) ->
  exists t', update_aircraft o now t d m df a = Ok t'.
Proof.
  intros F E. unfold update_aircraft.
  destruct (lookup t a) as [r|]; [|eauto].
  destruct (_ && _); [eauto|].
  callee (plane_update_total (observer o) now r m df (relaxed o) F E). eauto.
Qed.

Theorem step_line_total : forall o now s line, exists x, step_line o now s line = Ok x.
Proof.
  intros o now s line. unfold step_line.
  destruct (get_message_total line) as [mo [E F]]. rewrite E. cbn [bind].
  destruct mo as [m|]; [|eauto].
  specialize (F m eq_refl).
  destruct (df_of_frame m F) as [df [E2 _]]. rewrite E2. cbn [bind].
  callee (get_icao_frame m df F E2). destruct v as [a|]; [|eauto].
  destruct (match filter_df o with Some _ => _ | None => _ end); [eauto|].
  cbv zeta. callee (df_from_message_total m F).
  destruct v as [d|]; cbn [bind].
  - match goal with |- context [update_aircraft o now ?t d m df a] =>
      callee (update_aircraft_total o now t d m df a F E2) end.
    destruct (cleanup _ _ _ _) as [t c]. eauto.
  - eauto.
Qed.

Lemma step_total o now s l : exists x, step o now s l = Ok x.
Proof. destruct l as [line|]; cbn [step]; [apply step_line_total | eauto]. Qed.

Theorem run_lines_total : forall o now s ls, exists s', run_lines o now s ls = Ok s'.
Proof.
  intros o now s ls. revert s. induction ls as [|l t IH]; intros s; cbn [run_lines]; [eauto|].
  destruct (step_total o now s l) as [[[s' b] lo] E]. rewrite E. cbn [bind]. apply IH.
Qed.

Theorem read_lines_total : forall o now t bs, exists t', read_lines o now t bs = Ok t'.
Proof.
  intros o now t bs. unfold read_lines.
  destruct (run_lines_total o now (mkState t (counters_new now (update_s o))) (text_lines bs)) as [s E].
  rewrite E. cbn [bind]. eauto.
Qed.

Lemma run_cli_lines_total o now : forall ls s acc, exists fr, run_cli_lines o now s ls acc = Ok fr.
Proof.
  induction ls as [|l t IH]; intros s acc; cbn [run_cli_lines]; [eauto|].
  destruct (step_total o now s l) as [[[s' b] lo] E]. rewrite E. cbn [bind]. apply IH.
Qed.

Theorem run_cli_total : forall o now bs, exists fr, run_cli o now bs = Ok fr.
Proof. intros o now bs. unfold run_cli. apply run_cli_lines_total. Qed.

(** progress: the lines after any prefix are still processed, from the state the prefix left *)
Theorem run_lines_app : forall o now s l1 l2,
  run_lines o now s (l1 ++ l2) = (s1 <- run_lines o now s l1 ;; run_lines o now s1 l2).
Proof.
  intros o now s l1 l2. revert s.
  induction l1 as [|l t IH]; intros s; cbn [run_lines app bind]; [reflexivity|].
  destruct (step o now s l) as [[[s' b] lo]|w]; cbn [bind]; [apply IH | reflexivity].
Qed.

(** consequently a whole stream is processed line by line to the end, whatever it contains *)
Corollary run_lines_app_total : forall o now s l1 l2,
  exists s1 s2, run_lines o now s l1 = Ok s1 /\ run_lines o now s1 l2 = Ok s2 /\
                run_lines o now s (l1 ++ l2) = Ok s2.
Proof.
  intros o now s l1 l2.
  destruct (run_lines_total o now s l1) as [s1 E1].
  destruct (run_lines_total o now s1 l2) as [s2 E2].
  exists s1, s2. split; [exact E1|]. split; [exact E2|].
  rewrite run_lines_app, E1. cbn [bind]. exact E2.
Qed.

(** the DF/length agreement that [get_message] checks is necessary: a 14-nibble vector whose
    first nibble announces a long format (DF16 here) makes the address extraction read past
    the end.  [get_message] never returns such a vector ([get_message_total]). *)
Example short_frame_long_df_panics :
  exists w, srt_from_message [8;0;0;0;0;0;0;0;0;0;0;0;0;0] = Panic w.
Proof. eexists. vm_compute. reflexivity. Qed.

Print Assumptions get_message_total.
Print Assumptions df_from_message_total.
Print Assumptions plane_update_total.
Print Assumptions step_line_total.
Print Assumptions run_lines_total.
Print Assumptions read_lines_total.
Print Assumptions run_cli_total.
Print Assumptions run_lines_app.
