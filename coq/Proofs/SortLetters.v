(** The -o letters, specification side (property C15).

    [letter_spec] is the table of sort letters written from the user's point of view: which
    quantity of the row each letter orders the refresh by, and in which direction.  It does not
    mention [sort_action_of]; the theorems below connect it to the model's print order
    ([print_order], Model/Sort.v), down to the frame that is printed ([render_frame],
    Model/Display.v) and the states reachable from the empty table. *)
From Coq Require Import List Permutation Sorted String ZArith NArith QArith Lia Bool.
From SQ Require Import Table Sort Display Obs TableProofs SortProof.
Import ListNotations.
Local Open Scope Z_scope.

(** * 1. The letter table *)

Inductive direction := Asc | Desc.

Definition vrate_or_0 (r : row) : Z := match vrate r with Some v => v | None => 0 end.

Definition letter_spec (dkey : row -> Z) (c : N) : option ((row -> Z) * direction) :=
  match c with
  | 115%N (* s *) => Some (fun r => okey (r_squawk r), Asc)
  | 97%N  (* a *) => Some (fun r => okey (r_altitude r), Asc)
  | 65%N  (* A *) => Some (fun r => okey (r_altitude r), Desc)
  | 118%N (* v *) => Some (vrate_or_0, Asc)
  | 86%N  (* V *) => Some (vrate_or_0, Desc)
  | 78%N  (* N *) => Some (fun r => qtrunc (lat r), Asc)
  | 83%N  (* S *) => Some (fun r => qtrunc (lat r), Desc)
  | 87%N  (* W *) => Some (fun r => qtrunc (lon r), Asc)
  | 69%N  (* E *) => Some (fun r => qtrunc (lon r), Desc)
  | 100%N (* d *) => Some (dkey, Asc)
  | 68%N  (* D *) => Some (dkey, Desc)
  | 99%N  (* c *) =>
      Some (fun r => Z.of_N (fst (category r)) * 4294967296 + Z.of_N (snd (category r)), Asc)
  | 67%N  (* C *) =>
      Some (fun r => Z.of_N (N.lor (N.shiftl (fst (category r)) 1) (snd (category r))), Desc)
  | _ => None
  end.

Definition monotone_by (k : row -> Z) (d : direction) (a b : N * row) : Prop :=
  match d with
  | Asc => (k (snd a) <= k (snd b))%Z
  | Desc => (k (snd b) <= k (snd a))%Z
  end.

(** the thirteen letters, as a list; used to enumerate the cases *)
Definition sort_letters : list N :=
  [115; 97; 65; 118; 86; 78; 83; 87; 69; 100; 68; 99; 67]%N.

Lemma letter_cases (P : N -> Prop) :
  (forall c, ~ In c sort_letters -> P c) ->
  (forall c, In c sort_letters -> P c) -> forall c, P c.
Proof.
  intros Hn Hy c.
  destruct (in_dec N.eq_dec c sort_letters) as [H|H]; auto.
Qed.

Lemma not_letter_spec dkey c : ~ In c sort_letters -> letter_spec dkey c = None.
Proof.
  intros H.
  destruct c as [|p]; [reflexivity|].
  do 8 (try (destruct p as [p|p|]; try reflexivity));
    exfalso; apply H; cbn [sort_letters In]; tauto.
Qed.

Lemma not_letter_action dkey c : ~ In c sort_letters -> sort_action_of dkey c = NoSort.
Proof.
  intros H.
  destruct c as [|p]; [reflexivity|].
  do 8 (try (destruct p as [p|p|]; try reflexivity));
    exfalso; apply H; cbn [sort_letters In]; tauto.
Qed.

(** how the model implements each line of the table: an ascending stable sort on [key], where
    [key] is the specified key (ascending letters, and A/D which reverse afterwards) or its
    negation (S, E, V, C) *)
Lemma letter_spec_action dkey c k d :
  letter_spec dkey c = Some (k, d) ->
  exists key rv,
    sort_action_of dkey c = SortBy key rv /\
    ((d = Asc /\ rv = false /\ key = k) \/
     (d = Desc /\ rv = true /\ key = k /\ (c = 65%N \/ c = 68%N)) \/
     (d = Desc /\ rv = false /\ key = (fun r => - k r) /\ c <> 65%N /\ c <> 68%N)).
Proof.
  pattern c. apply letter_cases; clear c.
  - intros c Hc. rewrite (not_letter_spec dkey c Hc). discriminate.
  - intros c Hc. cbn [sort_letters In] in Hc.
    repeat (destruct Hc as [<-|Hc]; [|]); try contradiction;
      cbn [letter_spec]; intros H; inversion H; subst; clear H;
      cbn [sort_action_of]; do 2 eexists; (split; [reflexivity|]).
    all: first [ left; repeat split; reflexivity
               | right; left; repeat split; auto; fail
               | right; right; repeat split; try reflexivity; discriminate ].
Qed.

Theorem letter_spec_none_iff : forall dkey c,
  letter_spec dkey c = None <-> sort_action_of dkey c = NoSort.
Proof.
  intros dkey.
  apply (letter_cases (fun c => letter_spec dkey c = None <-> sort_action_of dkey c = NoSort)).
  - intros c Hc. rewrite (not_letter_spec dkey c Hc), (not_letter_action dkey c Hc). tauto.
  - intros c Hc. cbn [sort_letters In] in Hc.
    repeat (destruct Hc as [<-|Hc]; [|]); try contradiction;
      cbn [letter_spec sort_action_of]; split; discriminate.
Qed.

(** every refresh is monotone in the key of the last recognised letter, in the direction the
    table gives for that letter *)
Theorem letters_sorted : forall dkey ob t pre c post k d,
  List.concat ob = pre ++ c :: post ->
  letter_spec dkey c = Some (k, d) ->
  (forall x, In x post -> letter_spec dkey x = None) ->
  StronglySorted (monotone_by k d) (print_order dkey ob t).
Proof.
  intros dkey ob t pre c post k d Hc Hs Hp.
  destruct (letter_spec_action dkey c k d Hs) as (key & rv & Ha & Hcase).
  assert (Hp' : forall x, In x post -> sort_action_of dkey x = NoSort)
    by (intros x Hx; apply letter_spec_none_iff; auto).
  pose proof (print_order_sorted_last dkey ob t pre c post key rv Hc Ha Hp') as S.
  eapply StronglySorted_impl; [|exact S].
  intros a b. cbv beta.
  destruct Hcase as [(-> & -> & ->)|[(-> & -> & -> & _)|(-> & -> & -> & _)]];
    unfold monotone_by; intros; lia.
Qed.

(** no recognised letter: strictly ascending address *)
Theorem letters_default : forall dkey ob t,
  (forall x, In x (List.concat ob) -> letter_spec dkey x = None) ->
  NoDup (map fst t) ->
  StronglySorted (fun a b => (fst a < fst b)%N) (print_order dkey ob t).
Proof.
  intros dkey ob t H ND. apply print_order_default_strict; auto.
  intros x Hx. apply letter_spec_none_iff; auto.
Qed.

Print Assumptions letter_spec_none_iff.
Print Assumptions letters_sorted.
Print Assumptions letters_default.

(** * 2. Ties: the previous recognised key decides *)

(** the order before the last recognised pass *)
Definition previous_order (dkey : row -> Z) (pre : list N) (t : table) : list (N * row) :=
  fold_left (apply_sort dkey) pre (stable_sort (fun p => Z.of_N (fst p)) t).

Lemma print_order_split dkey ob t pre c post :
  List.concat ob = pre ++ c :: post ->
  (forall x, In x post -> sort_action_of dkey x = NoSort) ->
  print_order dkey ob t = apply_sort dkey (previous_order dkey pre t) c.
Proof.
  intros Hc Hp. unfold print_order, previous_order.
  rewrite Hc, fold_left_app. cbn [fold_left].
  apply fold_apply_sort_nosort; auto.
Qed.

(** non-reversing last letter: the rows of any one key value appear exactly in the order the
    earlier passes left them *)
Theorem ties_keep_previous_order : forall dkey ob t pre c post key v,
  List.concat ob = pre ++ c :: post ->
  sort_action_of dkey c = SortBy key false ->
  (forall x, In x post -> sort_action_of dkey x = NoSort) ->
  filter (fun p => (key (snd p) =? v)%Z) (print_order dkey ob t) =
  filter (fun p => (key (snd p) =? v)%Z)
         (fold_left (apply_sort dkey) pre (stable_sort (fun p => Z.of_N (fst p)) t)).
Proof.
  intros dkey ob t pre c post key v Hc Ha Hp.
  rewrite (print_order_split dkey ob t pre c post Hc Hp).
  unfold previous_order, apply_sort. rewrite Ha. cbv zeta.
  apply (stable_sort_filter (fun p : N * row => key (snd p))).
Qed.

Lemma filter_rev' {A} (f : A -> bool) (l : list A) : filter f (rev l) = rev (filter f l).
Proof.
  induction l as [|x l IH]; [reflexivity|].
  cbn [rev filter]. rewrite filter_app, IH. cbn [filter].
  destruct (f x); cbn [rev]; [reflexivity|apply app_nil_r].
Qed.

(** reversing last letter (A, D): the rows of any one key value appear in the reverse of the
    order the earlier passes left them *)
Theorem ties_reversed_for_A_D : forall dkey ob t pre c post key v,
  List.concat ob = pre ++ c :: post ->
  sort_action_of dkey c = SortBy key true ->
  (forall x, In x post -> sort_action_of dkey x = NoSort) ->
  filter (fun p => (key (snd p) =? v)%Z) (print_order dkey ob t) =
  rev (filter (fun p => (key (snd p) =? v)%Z)
         (fold_left (apply_sort dkey) pre (stable_sort (fun p => Z.of_N (fst p)) t))).
Proof.
  intros dkey ob t pre c post key v Hc Ha Hp.
  rewrite (print_order_split dkey ob t pre c post Hc Hp).
  unfold previous_order, apply_sort. rewrite Ha. cbv zeta.
  rewrite filter_rev'. f_equal.
  apply (stable_sort_filter (fun p : N * row => key (snd p))).
Qed.

(** the same two facts stated on the specification table: [k] is the key the user asked for
    (not the negated key the model sorts S, E, V, C by) *)
Theorem ties_keep_previous_order_spec : forall dkey ob t pre c post k d v,
  List.concat ob = pre ++ c :: post ->
  letter_spec dkey c = Some (k, d) ->
  c <> 65%N -> c <> 68%N ->
  (forall x, In x post -> letter_spec dkey x = None) ->
  filter (fun p => (k (snd p) =? v)%Z) (print_order dkey ob t) =
  filter (fun p => (k (snd p) =? v)%Z)
         (fold_left (apply_sort dkey) pre (stable_sort (fun p => Z.of_N (fst p)) t)).
Proof.
  intros dkey ob t pre c post k d v Hc Hs HA HD Hp.
  destruct (letter_spec_action dkey c k d Hs) as (key & rv & Ha & Hcase).
  assert (Hp' : forall x, In x post -> sort_action_of dkey x = NoSort)
    by (intros x Hx; apply letter_spec_none_iff; auto).
  destruct Hcase as [(_ & -> & ->)|[(_ & _ & _ & [E|E])|(_ & -> & -> & _)]];
    [ | congruence | congruence | ].
  - apply (ties_keep_previous_order dkey ob t pre c post k v Hc Ha Hp').
  - pose proof (ties_keep_previous_order dkey ob t pre c post _ (- v) Hc Ha Hp') as T.
    cbv beta in T.
    assert (E : forall l, filter (fun p : N * row => (k (snd p) =? v)%Z) l =
                          filter (fun p : N * row => (- k (snd p) =? - v)%Z) l).
    { intros l. apply filter_ext. intros p.
      destruct (Z.eqb_spec (k (snd p)) v), (Z.eqb_spec (- k (snd p)) (- v));
        try reflexivity; lia. }
    rewrite !E. exact T.
Qed.

Theorem ties_reversed_for_A_D_spec : forall dkey ob t pre c post k d v,
  List.concat ob = pre ++ c :: post ->
  letter_spec dkey c = Some (k, d) ->
  c = 65%N \/ c = 68%N ->
  (forall x, In x post -> letter_spec dkey x = None) ->
  filter (fun p => (k (snd p) =? v)%Z) (print_order dkey ob t) =
  rev (filter (fun p => (k (snd p) =? v)%Z)
         (fold_left (apply_sort dkey) pre (stable_sort (fun p => Z.of_N (fst p)) t))).
Proof.
  intros dkey ob t pre c post k d v Hc Hs HAD Hp.
  assert (Hp' : forall x, In x post -> sort_action_of dkey x = NoSort)
    by (intros x Hx; apply letter_spec_none_iff; auto).
  apply (ties_reversed_for_A_D dkey ob t pre c post k v Hc); [|exact Hp'].
  destruct HAD as [->| ->]; cbn [letter_spec] in Hs; inversion Hs; subst; reflexivity.
Qed.

Print Assumptions ties_keep_previous_order.
Print Assumptions ties_reversed_for_A_D.
Print Assumptions ties_keep_previous_order_spec.
Print Assumptions ties_reversed_for_A_D_spec.

(** * 3. The frame *)

Theorem frame_rows : forall o now dkey dcell s,
  render_frame o now dkey dcell s =
  [header_line o; separator_line o]
  ++ map (fun p => render_row o now dcell (snd p)) (print_order dkey (order_by o) (tbl s))
  ++ [separator_line o]
  ++ (if count_df o then [counter_line (cnt s)] else []).
Proof. reflexivity. Qed.

Corollary frame_row_count : forall o now dkey dcell s,
  List.length (render_frame o now dkey dcell s) =
  (3 + List.length (tbl s) + (if count_df o then 1 else 0))%nat.
Proof.
  intros o now dkey dcell s. rewrite frame_rows.
  rewrite !app_length, map_length.
  rewrite (Permutation_length (print_order_perm dkey (order_by o) (tbl s))).
  destruct (count_df o); cbn [List.length]; lia.
Qed.

(** the addresses down the table are the keys of the table, each once *)
Theorem frame_lists_each_once : forall o dkey s,
  NoDup (keys (tbl s)) ->
  NoDup (map fst (print_order dkey (order_by o) (tbl s))) /\
  Permutation (map fst (print_order dkey (order_by o) (tbl s))) (keys (tbl s)).
Proof.
  intros o dkey s ND.
  pose proof (Permutation_map fst (print_order_perm dkey (order_by o) (tbl s))) as P.
  split; [|exact P].
  eapply Permutation_NoDup; [symmetry; exact P|exact ND].
Qed.

(** ... in every state reachable from the empty table ([run_lines_nodup], TableProofs.v) *)
Theorem reachable_frame_lists_each_once : forall o now ls s dkey,
  run_lines o now (mkState [] (counters_new now (update_s o))) ls = Ok s ->
  NoDup (map fst (print_order dkey (order_by o) (tbl s))) /\
  Permutation (map fst (print_order dkey (order_by o) (tbl s))) (keys (tbl s)).
Proof.
  intros o now ls s dkey H. apply frame_lists_each_once.
  eapply run_lines_nodup; [exact H|constructor].
Qed.

(** every frame the CLI prints is the rendering of a state reached by a prefix of the input *)
Lemma run_cli_lines_frames o now : forall ls s acc fr,
  run_cli_lines o now s ls acc = Ok fr ->
  forall f, In f fr ->
    In f acc \/
    exists pre suf s', ls = pre ++ suf /\ run_lines o now s pre = Ok s' /\
      f = render_frame o now (fun _ => 0%Z) (fun _ => str "?????") s'.
Proof.
  induction ls as [|l t IH]; cbn [run_cli_lines]; intros s acc fr H f Hf.
  - inversion H; subst. rewrite rev_append_rev, app_nil_r in Hf. left. apply in_rev; exact Hf.
  - destruct (step o now s l) as [[[s1 rf] oc]|] eqn:E; cbn [bind] in H; [|discriminate].
    destruct (IH _ _ _ H f Hf) as [Hacc|(pre & suf & s' & -> & Hr & ->)].
    + assert (In f acc \/ f = render_frame o now (fun _ => 0%Z) (fun _ => str "?????") s1) as [?| ->].
      { destruct rf; [destruct Hacc as [<-|?]|]; auto. }
      * left; assumption.
      * right. exists [l], t, s1. split; [reflexivity|]. split; [|reflexivity].
        cbn [run_lines]. rewrite E. reflexivity.
    + right. exists (l :: pre), suf, s'. split; [reflexivity|]. split; [|reflexivity].
      cbn [run_lines]. rewrite E. cbn [bind]. exact Hr.
Qed.

(** every refresh printed by the CLI on a file has: header, separator, one line per tracked
    aircraft of the state it shows (each address once), separator, optional counter line *)
Theorem cli_every_refresh_lists_each_once : forall o now bs frames f,
  run_cli o now bs = Ok frames -> In f frames ->
  exists pre suf s,
    text_lines bs = pre ++ suf /\
    run_lines o now (mkState [] (counters_new now (update_s o))) pre = Ok s /\
    f = render_frame o now (fun _ => 0%Z) (fun _ => str "?????") s /\
    List.length f = (3 + List.length (tbl s) + (if count_df o then 1 else 0))%nat /\
    NoDup (map fst (print_order (fun _ => 0%Z) (order_by o) (tbl s))) /\
    Permutation (map fst (print_order (fun _ => 0%Z) (order_by o) (tbl s))) (keys (tbl s)).
Proof.
  intros o now bs frames f H Hf. unfold run_cli in H.
  destruct (run_cli_lines_frames o now _ _ _ _ H f Hf) as [[]|(pre & suf & s & Hl & Hr & ->)].
  exists pre, suf, s. split; [exact Hl|]. split; [exact Hr|]. split; [reflexivity|].
  split; [apply frame_row_count|].
  eapply reachable_frame_lists_each_once; exact Hr.
Qed.

Print Assumptions frame_rows.
Print Assumptions frame_row_count.
Print Assumptions frame_lists_each_once.
Print Assumptions reachable_frame_lists_each_once.
Print Assumptions cli_every_refresh_lists_each_once.

(** * 4. Examples *)

Definition ex_row (a : N) (sq alt : N) : N * row :=
  (a, row_new 0 <| icao := a |> <| r_squawk := Some sq |> <| r_altitude := Some alt |>).

(** three aircraft, stored in arrival order; 0xC0FFEE and 0xABCDEF both squawk 7000 *)
Definition ex_table : table :=
  [ ex_row 12648430 7000 38000;    (* C0FFEE  7000  FL380 *)
    ex_row 4921921  1200 5500;     (* 4B1A41  1200   5500 *)
    ex_row 11259375 7000 12000 ].  (* ABCDEF  7000  12000 *)

Definition ex_view (l : list (N * row)) : list (N * option N * option N) :=
  map (fun p => (fst p, r_squawk (snd p), r_altitude (snd p))) l.

(** -o as : by altitude, then by squawk; the two 7000s are ordered by altitude *)
Example ex_order_as :
  ex_view (print_order (fun _ => 0) [[97; 115]%N] ex_table) =
  [ (4921921%N,  Some 1200%N, Some 5500%N);
    (11259375%N, Some 7000%N, Some 12000%N);
    (12648430%N, Some 7000%N, Some 38000%N) ].
Proof. vm_compute. reflexivity. Qed.

(** -o As : by altitude descending, then by squawk; the two 7000s are ordered by altitude
    descending *)
Example ex_order_As :
  ex_view (print_order (fun _ => 0) [[65; 115]%N] ex_table) =
  [ (4921921%N,  Some 1200%N, Some 5500%N);
    (12648430%N, Some 7000%N, Some 38000%N);
    (11259375%N, Some 7000%N, Some 12000%N) ].
Proof. vm_compute. reflexivity. Qed.

(** -o s alone: the two 7000s tie and fall back to ascending address *)
Example ex_order_s :
  ex_view (print_order (fun _ => 0) [[115]%N] ex_table) =
  [ (4921921%N,  Some 1200%N, Some 5500%N);
    (11259375%N, Some 7000%N, Some 12000%N);
    (12648430%N, Some 7000%N, Some 38000%N) ].
Proof. vm_compute. reflexivity. Qed.

(** -o sA : the last letter wins: altitude descending *)
Example ex_order_sA :
  map fst (print_order (fun _ => 0) [[115; 65]%N] ex_table) = [12648430; 11259375; 4921921]%N.
Proof. vm_compute. reflexivity. Qed.

(** unrecognised letters only ("xyz"): address order; letters split over several -o options
    are concatenated *)
Example ex_order_default :
  map fst (print_order (fun _ => 0) [[120; 121]%N; [122]%N] ex_table)
  = [4921921; 11259375; 12648430]%N.
Proof. vm_compute. reflexivity. Qed.

Example ex_order_split_options :
  print_order (fun _ => 0) [[97]%N; [115]%N] ex_table
  = print_order (fun _ => 0) [[97; 115]%N] ex_table.
Proof. reflexivity. Qed.

(** the hypotheses of [letters_sorted] and [ties_keep_previous_order] are met by "-o as" *)
Example ex_letters_sorted_as :
  StronglySorted (monotone_by (fun r => okey (r_squawk r)) Asc)
    (print_order (fun _ => 0) [[97; 115]%N] ex_table).
Proof.
  apply (letters_sorted (fun _ => 0) [[97; 115]%N] ex_table [97%N] 115%N []);
    [reflexivity|reflexivity|intros x []].
Qed.

Example ex_ties_as :
  filter (fun p => (okey (r_squawk (snd p)) =? 7000)%Z)
         (print_order (fun _ => 0) [[97; 115]%N] ex_table)
  = filter (fun p => (okey (r_squawk (snd p)) =? 7000)%Z)
           (print_order (fun _ => 0) [[97]%N] ex_table).
Proof.
  apply (ties_keep_previous_order (fun _ => 0) [[97; 115]%N] ex_table [97%N] 115%N []
           (fun r => okey (r_squawk r)) 7000);
    [reflexivity|reflexivity|intros x []].
Qed.

(** a frame over that table: 3 rows + header + two separators, + the counter line with -c *)
Example ex_frame_count :
  List.length (render_frame (mkOpts false false None true [] [[97; 115]%N] 1 60 None) 0
                 (fun _ => 0) (fun _ => str "?????")
                 (mkState ex_table (counters_new 0 1))) = 7%nat.
Proof. vm_compute. reflexivity. Qed.
