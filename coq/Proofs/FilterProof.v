(** The DF filter, both directions: a line is applied exactly when it is a frame with a non-zero
    address whose downlink format is listed (in ANY order, with or without repetitions) or no
    filter is given. *)
From SQ Require Import Base Table TableProofs TotalPipeline.
Local Open Scope N_scope.

Definition passes (o : opts) (df : N) : Prop :=
  match filter_df o with Some only => In df only | None => True end.

Lemma forallb_neq_false only df :
  forallb (fun x => negb (x =? df)) only = false <-> In df only.
Proof.
  induction only as [|x t IH]; cbn [forallb In]; [split; [discriminate|tauto]|].
  destruct (x =? df) eqn:E; cbn [negb andb].
  - apply N.eqb_eq in E. split; [intros _; left; exact E | reflexivity].
  - apply N.eqb_neq in E. rewrite IH. split; [intros I; right; exact I | intros [C|I]; [contradiction | exact I]].
Qed.

Theorem classify_spec o line df a :
  classify o line = Ok (Applied df a) <->
  exists m, get_message line = Ok (Some m) /\ get_downlink_format m = Ok (Some df) /\
            get_icao m df = Ok (Some a) /\ passes o df.
Proof.
  unfold classify, passes. split.
  - intros H.
    destruct (get_message line) as [[m|]|]; cbn [bind] in H; try discriminate.
    destruct (get_downlink_format m) as [[df'|]|] eqn:D; cbn [bind] in H; try discriminate.
    destruct (get_icao m df') as [[a'|]|] eqn:A; cbn [bind] in H; try discriminate.
    destruct (filter_df o) as [only|].
    + destruct (forallb (fun x => negb (x =? df')) only) eqn:Fb; [discriminate|].
      inversion H; subst. exists m. repeat split; try assumption.
      apply forallb_neq_false. exact Fb.
    + inversion H; subst. exists m. repeat split; assumption.
  - intros [m [M [D [A P]]]]. rewrite M. cbn [bind]. rewrite D. cbn [bind]. rewrite A. cbn [bind].
    destruct (filter_df o) as [only|]; [|reflexivity].
    apply forallb_neq_false in P. rewrite P. reflexivity.
Qed.

(** the converse of "only listed formats are applied": a listed format IS applied *)
Theorem listed_is_applied o now s line m df a :
  get_message line = Ok (Some m) -> get_downlink_format m = Ok (Some df) ->
  get_icao m df = Ok (Some a) -> passes o df ->
  exists s' rf, step_line o now s line = Ok (s', rf, Applied df a).
Proof.
  intros M D A P.
  destruct (step_line_total o now s line) as [[[s' rf] oc] H].
  pose proof (step_line_classify _ _ _ _ _ _ _ H) as C.
  assert (classify o line = Ok (Applied df a)) as C'.
  { apply classify_spec. exists m. repeat split; assumption. }
  rewrite C in C'. inversion C'; subst. exists s', rf. exact H.
Qed.

(** the outcome does not depend on the order or multiplicity of the -f values *)
Theorem filter_order_irrelevant o1 o2 line :
  (forall df, passes o1 df <-> passes o2 df) ->
  classify o1 line = classify o2 line.
Proof.
  intros E. unfold classify.
  destruct (get_message line) as [[m|]|]; cbn [bind]; try reflexivity.
  destruct (get_downlink_format m) as [[df|]|]; cbn [bind]; try reflexivity.
  destruct (get_icao m df) as [[a|]|]; cbn [bind]; try reflexivity.
  specialize (E df). unfold passes in E.
  destruct (filter_df o1) as [l1|]; destruct (filter_df o2) as [l2|].
  - destruct (forallb (fun x => negb (x =? df)) l1) eqn:F1; destruct (forallb (fun x => negb (x =? df)) l2) eqn:F2;
      try reflexivity.
    + apply forallb_neq_false in F2. apply E in F2. apply forallb_neq_false in F2. congruence.
    + apply forallb_neq_false in F1. apply E in F1. apply forallb_neq_false in F1. congruence.
  - destruct (forallb (fun x => negb (x =? df)) l1) eqn:F1; [|reflexivity].
    assert (In df l1) as I by (apply E; exact I). apply forallb_neq_false in I. congruence.
  - destruct (forallb (fun x => negb (x =? df)) l2) eqn:F2; [|reflexivity].
    assert (In df l2) as I by (apply E; exact I). apply forallb_neq_false in I. congruence.
  - reflexivity.
Qed.

Print Assumptions classify_spec.
Print Assumptions listed_is_applied.
Print Assumptions filter_order_irrelevant.
