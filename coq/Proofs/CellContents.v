(** Contents of the text table (Model/Display.v): the characters printed in a row are the right
    ones.  [Proofs/LayoutProof.v] proves the WIDTH facts (every cell as wide as its column); this
    file proves what the cells SAY: the number printers of Model/Obs.v print the number they are
    given, and each cell of a row shows the value of its row field.

    Strings are lists of code points: 48..57 are '0'..'9', 32 is the blank, 45 is '-', 46 is '.'. *)
From SQ Require Import Display Tables Obs LayoutProof Ia5 IdentProof.
From Coq Require Import List Lia String ZArith NArith QArith Qabs Qround.
Import ListNotations.
Local Open Scope N_scope.

(** LayoutProof.v closes the number printers; here they are the subject.  [decz] first, while
    [dec] is still closed (so that conversion does not run it). *)
Local Transparent decz.

(** signed numbers: a minus sign when negative, then the magnitude.  Holds for every [z]. *)
Theorem decz_value z : decz z = (if (z <? 0)%Z then [45] else []) ++ dec (Z.to_N (Z.abs z)).
Proof. destruct z as [|p|p]; reflexivity. Qed.

Local Transparent dec fmt_fixed.

(** ---- 1. the number printers ---- *)

(** the obvious reader: most significant digit first *)
Fixpoint value_of (l : bytes) (acc : N) : N :=
  match l with
  | [] => acc
  | c :: t => value_of t (10 * acc + (c - 48))
  end.

Definition is_digit_char (c : N) : Prop := 48 <= c <= 57.
Definition digits (l : bytes) : Prop := Forall is_digit_char l.

Lemma value_of_app a b acc : value_of (a ++ b) acc = value_of b (value_of a acc).
Proof. revert acc. induction a as [|c a IH]; intros acc; cbn [app value_of]; [reflexivity | apply IH]. Qed.

(** starting from [acc] shifts it left by the number of characters read *)
Lemma value_of_from l : forall acc, value_of l acc = acc * 10 ^ N.of_nat (List.length l) + value_of l 0.
Proof.
  induction l as [|c t IH]; intros acc.
  - cbn [value_of List.length]. change (10 ^ N.of_nat 0) with 1. lia.
  - cbn [value_of]. rewrite (IH (10 * acc + (c - 48))), (IH (10 * 0 + (c - 48))).
    cbn [List.length]. rewrite Nnat.Nat2N.inj_succ, N.pow_succ_r'.
    generalize (10 ^ N.of_nat (List.length t)). generalize (c - 48). intros d P. lia.
Qed.

Lemma value_of_zeros k : value_of (repeat 48 k) 0 = 0.
Proof.
  induction k as [|k IH]; cbn [repeat value_of]; [reflexivity|].
  replace (10 * 0 + (48 - 48)) with 0 by reflexivity. exact IH.
Qed.

Lemma value_of_spaces k : value_of (spaces k) 0 = 0.
Proof.
  unfold spaces. induction k as [|k IH]; cbn [repeat value_of]; [reflexivity|].
  replace (10 * 0 + (32 - 48)) with 0 by reflexivity. exact IH.
Qed.

(** the accumulator of [dec_go] is only ever prepended to *)
Lemma dec_go_app : forall fuel n acc, dec_go fuel n acc = dec_go fuel n [] ++ acc.
Proof.
  induction fuel as [|f IH]; intros n acc; [reflexivity|].
  rewrite !dec_go_S. destruct (n <? 10); [reflexivity|].
  rewrite (IH (n / 10) ((48 + n mod 10) :: acc)), (IH (n / 10) [48 + n mod 10]).
  rewrite <- app_assoc. reflexivity.
Qed.

(** one step of [dec_go], last digit split off *)
Lemma dec_go_step f n :
  dec_go (S f) n [] = if n <? 10 then [48 + n] else dec_go f (n / 10) [] ++ [48 + n mod 10].
Proof.
  rewrite dec_go_S. destruct (n <? 10) eqn:E.
  - apply N.ltb_lt in E. rewrite N.mod_small by exact E. reflexivity.
  - apply dec_go_app.
Qed.

Lemma last_digit_is_digit n : is_digit_char (48 + n mod 10).
Proof.
  unfold is_digit_char.
  assert (H : n mod 10 < 10) by (apply N.mod_lt; discriminate).
  generalize dependent (n mod 10). intros d H. lia.
Qed.

(** every character printed is a digit: no bound on [n] or on the fuel is needed *)
Lemma dec_go_digits : forall fuel n acc, digits acc -> digits (dec_go fuel n acc).
Proof.
  induction fuel as [|f IH]; intros n acc Hacc; [exact Hacc|].
  rewrite dec_go_S.
  assert (Hd : digits ((48 + n mod 10) :: acc)).
  { constructor; [apply last_digit_is_digit | exact Hacc]. }
  destruct (n <? 10); [exact Hd | apply IH; exact Hd].
Qed.

Theorem dec_digits_all n : Forall (fun c => 48 <= c <= 57) (dec n).
Proof. unfold dec. apply (dec_go_digits 400 n []). constructor. Qed.

Theorem dec_digits n : n < 10 ^ 400 -> Forall (fun c => 48 <= c <= 57) (dec n).
Proof. intros _. apply dec_digits_all. Qed.

Lemma div10_lt_pow f n : n < 10 ^ N.of_nat (S f) -> n / 10 < 10 ^ N.of_nat f.
Proof.
  intros Hn. apply N.div_lt_upper_bound; [discriminate|].
  rewrite <- N.pow_succ_r', <- Nnat.Nat2N.inj_succ. exact Hn.
Qed.

Lemma div10_mod10 n : 10 * (n / 10) + n mod 10 = n.
Proof. symmetry. apply N.div_mod. discriminate. Qed.

(** reading the digits back gives the number, as long as the fuel suffices *)
Lemma dec_go_value : forall fuel n, n < 10 ^ N.of_nat fuel -> value_of (dec_go fuel n []) 0 = n.
Proof.
  induction fuel as [|f IH]; intros n Hn.
  - change (10 ^ N.of_nat 0) with 1 in Hn. cbn [dec_go value_of]. lia.
  - rewrite dec_go_step. destruct (n <? 10) eqn:E.
    + cbn [value_of]. lia.
    + rewrite value_of_app, (IH (n / 10) (div10_lt_pow f n Hn)).
      cbn [value_of]. pose proof (div10_mod10 n) as D.
      generalize dependent (n mod 10). generalize (n / 10). intros q d D. lia.
Qed.

Lemma fuel_400 : N.of_nat 400 = 400.
Proof. reflexivity. Qed.

Theorem dec_value n : n < 10 ^ 400 -> value_of (dec n) 0 = n.
Proof. intros Hn. unfold dec. apply dec_go_value. rewrite fuel_400. exact Hn. Qed.

(** a positive number starts with a non-zero digit *)
Lemma dec_go_first : forall fuel n, 0 < n -> n < 10 ^ N.of_nat fuel ->
  exists c t, dec_go fuel n [] = c :: t /\ c <> 48.
Proof.
  induction fuel as [|f IH]; intros n Hpos Hn.
  - change (10 ^ N.of_nat 0) with 1 in Hn. lia.
  - rewrite dec_go_step. destruct (n <? 10) eqn:E.
    + exists (48 + n), []. split; [reflexivity | lia].
    + apply N.ltb_ge in E.
      assert (Hq : 0 < n / 10) by (apply N.div_str_pos; lia).
      destruct (IH (n / 10) Hq (div10_lt_pow f n Hn)) as [c [t [Ec Hc]]].
      exists c, (t ++ [48 + n mod 10]). rewrite Ec. split; [reflexivity | exact Hc].
Qed.

Theorem dec_no_leading_zero n : 0 < n -> n < 10 ^ 400 -> hd 0 (dec n) <> 48.
Proof.
  intros Hpos Hn. unfold dec.
  destruct (dec_go_first 400 n Hpos) as [c [t [Ec Hc]]]; [rewrite fuel_400; exact Hn|].
  rewrite Ec. exact Hc.
Qed.

Theorem dec_zero : dec 0 = [48].
Proof. exact dec_0. Qed.

(** at least one character is printed *)
Lemma dec_length_ge_1 n : (1 <= List.length (dec n))%nat.
Proof.
  unfold dec. change 400%nat with (S 399). rewrite dec_go_S.
  pose proof (dec_go_length_ge 399 (n / 10) [48 + n mod 10]) as G.
  destruct (n <? 10); [cbn [List.length]; lia | exact G].
Qed.

(** one and two digit numbers, explicitly *)
Lemma dec_one_digit n : n < 10 -> dec n = [48 + n].
Proof.
  intros H. unfold dec. change 400%nat with (S 399). rewrite dec_go_step.
  apply N.ltb_lt in H. rewrite H. reflexivity.
Qed.

Lemma dec_two_digits n : 10 <= n -> n < 100 -> dec n = [48 + n / 10; 48 + n mod 10].
Proof.
  intros Hlo Hhi. unfold dec. change 400%nat with (S (S 398)). rewrite dec_go_step.
  assert (E : n <? 10 = false) by (apply N.ltb_ge; exact Hlo). rewrite E.
  rewrite dec_go_step.
  assert (Hq : n / 10 < 10) by (apply N.div_lt_upper_bound; [discriminate | exact Hhi]).
  apply N.ltb_lt in Hq. rewrite Hq. reflexivity.
Qed.

(** (the statement of [decz_value] is at the top of the file) *)
Corollary decz_nonneg z : (0 <= z)%Z -> decz z = dec (Z.to_N z).
Proof.
  intros H. rewrite decz_value.
  assert (E : (z <? 0)%Z = false) by (apply Z.ltb_ge; exact H).
  rewrite E, Z.abs_eq by exact H. reflexivity.
Qed.

Theorem hexdigit_spec d : d < 16 -> hexdigit d = nth (N.to_nat d) (str "0123456789ABCDEF") 0.
Proof.
  intros H.
  assert (C : d = 0 \/ d = 1 \/ d = 2 \/ d = 3 \/ d = 4 \/ d = 5 \/ d = 6 \/ d = 7 \/ d = 8
              \/ d = 9 \/ d = 10 \/ d = 11 \/ d = 12 \/ d = 13 \/ d = 14 \/ d = 15) by lia.
  repeat (destruct C as [->|C]; [reflexivity|]). subst d. reflexivity.
Qed.

(** leading zeros do not change the value; the width is exact when the digits fit *)
Theorem zero_pad_value w s : value_of (zero_pad w s) 0 = value_of s 0.
Proof. unfold zero_pad. rewrite value_of_app, value_of_zeros. reflexivity. Qed.

Theorem zero_pad_width w s : (List.length s <= w)%nat -> List.length (zero_pad w s) = w.
Proof. apply zero_pad_fits. Qed.

Lemma zero_pad_digits w s : digits s -> digits (zero_pad w s).
Proof.
  intros H. unfold zero_pad, digits. apply Forall_app. split; [|exact H].
  apply Forall_repeat. unfold is_digit_char. lia.
Qed.

(** blanks on the left read as nothing either ([32 - 48 = 0] in N) *)
Lemma pad_left_value w s : value_of (pad_left w s) 0 = value_of s 0.
Proof. unfold pad_left. rewrite value_of_app, value_of_spaces. reflexivity. Qed.

Lemma pow10_le_400 k : (k <= 400)%nat -> 10 ^ N.of_nat k <= 10 ^ 400.
Proof.
  intros H. rewrite <- fuel_400. apply N.pow_le_mono_r; [discriminate|]. lia.
Qed.

(** a number below 10^k with k <= 400 is within the fuel *)
Lemma small_in_fuel k n : (k <= 400)%nat -> n < 10 ^ N.of_nat k -> n < 10 ^ 400.
Proof. intros Hk Hn. eapply N.lt_le_trans; [exact Hn | apply pow10_le_400; exact Hk]. Qed.

(** ---- 2. the cells of a row ---- *)

(** from here on the printers are closed again: only the theorems above are used *)
Local Opaque dec decz.

(** The cell of a row printed under the header column called [name]: the cell lists of
    LayoutProof.v are in header order ([cells_groups], [cells_aligned]), so the cell is the one
    at the position of the column in [header_cols].  By [row_cells] the row is the concatenation
    of the cells of the enabled groups followed by the last-contact cell [age_cell]. *)
Definition cell_named (now : Z) (dcell : row -> bytes) (r : row) (name : string) : bytes :=
  match find (fun p : (string * bytes) * (string * string * nat) => String.eqb (snd (fst (snd p))) name)
             (combine (cells now dcell r) header_cols) with
  | Some (c, _) => snd c
  | None => []
  end.

(** [s] printed right-aligned in a field of [w] characters *)
Definition right_aligned (w : nat) (s cell : bytes) : Prop :=
  exists k, cell = spaces k ++ s /\ (k + List.length s = w)%nat.

Lemma pad_left_right_aligned w s : (List.length s <= w)%nat -> right_aligned w s (pad_left w s).
Proof. intros H. exists (w - List.length s)%nat. split; [reflexivity | lia]. Qed.

Lemma right_aligned_length w s cell : right_aligned w s cell -> List.length cell = w.
Proof. intros [k [-> Hk]]. rewrite app_length, spaces_length. exact Hk. Qed.

Lemma right_aligned_value w s cell : right_aligned w s cell -> value_of cell 0 = value_of s 0.
Proof. intros [k [-> _]]. rewrite value_of_app, value_of_spaces. reflexivity. Qed.

Section Row.
Variables (now : Z) (dcell : row -> bytes) (r : row).
Let cell := cell_named now dcell r.

(** -- a. squawk: four digits, leading zeros kept (the fifth character is the threat mark) -- *)

Definition threat_mark : bytes := match threat r with Some c => [c] | None => [32] end.

Lemma squawk_cell_is : cell "SQWK" =
  (match r_squawk r with Some s => zero_pad 4 (dec s) | None => spaces 4 end) ++ threat_mark.
Proof. reflexivity. Qed.

Theorem squawk_cell_some s : r_squawk r = Some s -> s < 10000 ->
  exists ds, cell "SQWK" = ds ++ threat_mark
    /\ List.length ds = 4%nat /\ Forall (fun c => 48 <= c <= 57) ds /\ value_of ds 0 = s.
Proof.
  intros E Hs. rewrite squawk_cell_is, E. exists (zero_pad 4 (dec s)).
  assert (Hs4 : s < 10 ^ N.of_nat 4) by exact Hs.
  split; [reflexivity|]. split; [|split].
  - apply zero_pad_fits. apply (dec_length_le 4); [lia | exact Hs4].
  - apply zero_pad_digits. apply dec_digits_all.
  - rewrite zero_pad_value. apply dec_value. apply (small_in_fuel 4); [lia | exact Hs4].
Qed.

Theorem squawk_cell_none : r_squawk r = None -> cell "SQWK" = [32; 32; 32; 32] ++ threat_mark.
Proof. intros E. rewrite squawk_cell_is, E. reflexivity. Qed.

(** -- b. wake turbulence letter, then a blank -- *)

Theorem wake_cell_model : cell "W" =
  match get_wake_turbulence_category (category r) with Some w => [w; 32] | None => [32; 32] end.
Proof. reflexivity. Qed.

Theorem wake_cell : cell "W" =
  match wake_spec (fst (category r)) (snd (category r)) with Some w => [w; 32] | None => [32; 32] end.
Proof.
  rewrite wake_cell_model. rewrite <- wake_correct. rewrite <- surjective_pairing. reflexivity.
Qed.

(** -- c. cells with a source mark: altitude, vertical rate, track, heading -- *)

Lemma altitude_cell_is : cell "ALT B" =
  match r_altitude r with Some a => pad_left 5 (dec a) ++ [altitude_source r] | None => spaces 5 ++ [32] end.
Proof. reflexivity. Qed.

Lemma vrate_cell_is : cell "VRATE" =
  match vrate r with Some v => pad_left 5 (decz v) ++ [vrate_source r] | None => spaces 6 end.
Proof. reflexivity. Qed.

Lemma track_cell_is : cell "TRK" =
  match track r with Some v => pad_left 3 (dec v) ++ [track_source r] | None => spaces 4 end.
Proof. reflexivity. Qed.

Lemma heading_cell_is : cell "HDG" =
  match r_heading r with Some v => pad_left 3 (dec v) ++ [heading_source r] | None => spaces 4 end.
Proof. reflexivity. Qed.

(** unknown value: the whole cell, the place of the source mark included, is blank *)
Theorem altitude_cell_none : r_altitude r = None -> cell "ALT B" = spaces 6.
Proof. intros E. rewrite altitude_cell_is, E. reflexivity. Qed.

Theorem vrate_cell_none : vrate r = None -> cell "VRATE" = spaces 6.
Proof. intros E. rewrite vrate_cell_is, E. reflexivity. Qed.

Theorem track_cell_none : track r = None -> cell "TRK" = spaces 4.
Proof. intros E. rewrite track_cell_is, E. reflexivity. Qed.

Theorem heading_cell_none : r_heading r = None -> cell "HDG" = spaces 4.
Proof. intros E. rewrite heading_cell_is, E. reflexivity. Qed.

(** known value: its decimal rendering, right-aligned, then the source mark of the row *)
Theorem altitude_cell_some a : r_altitude r = Some a -> a < 100000 ->
  exists body, cell "ALT B" = body ++ [altitude_source r] /\ right_aligned 5 (dec a) body.
Proof.
  intros E Ha. rewrite altitude_cell_is, E. exists (pad_left 5 (dec a)). split; [reflexivity|].
  apply pad_left_right_aligned. apply (dec_length_le 5); [lia | exact Ha].
Qed.

Theorem vrate_cell_some v : vrate r = Some v -> (-10000 < v < 100000)%Z ->
  exists body, cell "VRATE" = body ++ [vrate_source r] /\ right_aligned 5 (decz v) body.
Proof.
  intros E Hv. rewrite vrate_cell_is, E. exists (pad_left 5 (decz v)). split; [reflexivity|].
  apply pad_left_right_aligned. apply (decz_length_le 5); [lia | exact Hv].
Qed.

Theorem track_cell_some v : track r = Some v -> v < 1000 ->
  exists body, cell "TRK" = body ++ [track_source r] /\ right_aligned 3 (dec v) body.
Proof.
  intros E Hv. rewrite track_cell_is, E. exists (pad_left 3 (dec v)). split; [reflexivity|].
  apply pad_left_right_aligned. apply (dec_length_le 3); [lia | exact Hv].
Qed.

Theorem heading_cell_some v : r_heading r = Some v -> v < 1000 ->
  exists body, cell "HDG" = body ++ [heading_source r] /\ right_aligned 3 (dec v) body.
Proof.
  intros E Hv. rewrite heading_cell_is, E. exists (pad_left 3 (dec v)). split; [reflexivity|].
  apply pad_left_right_aligned. apply (dec_length_le 3); [lia | exact Hv].
Qed.

(** -- f. country: the characters of [reg r] come first and are never cut -- *)

Theorem country_cell : cell "RG" = str (reg r) ++ spaces (2 - String.length (reg r)) ++ [32].
Proof.
  change (cell "RG") with (pad_right 2 (str (reg r)) ++ [32]).
  unfold pad_right. rewrite str_length, <- app_assoc. reflexivity.
Qed.

Corollary country_cell_prefix : firstn (String.length (reg r)) (cell "RG") = str (reg r).
Proof.
  rewrite country_cell. rewrite <- (str_length (reg r)).
  rewrite firstn_app, Nat.sub_diag, firstn_all. cbn [firstn]. apply app_nil_r.
Qed.

End Row.

(** -- d. the age digits of the PTH cell -- *)

Lemma land15_mod16 z : Z.land z 15 = (z mod 16)%Z.
Proof. change 15%Z with (Z.ones 4). rewrite Z.land_ones by lia. reflexivity. Qed.

(** tens of seconds, modulo 16, as one hexadecimal digit *)
Theorem age10_some now t : (0 <= num_seconds now t)%Z ->
  age10 now (Some t) = [hexdigit (Z.to_N ((num_seconds now t / 10) mod 16))].
Proof.
  intros H. unfold age10. rewrite land15_mod16, Z.quot_div_nonneg by lia. reflexivity.
Qed.

Theorem age10_none now : age10 now None = [32].
Proof. reflexivity. Qed.

(** ... that is, the character of "0123456789ABCDEF" at that index *)
Corollary age10_some_char now t : (0 <= num_seconds now t)%Z ->
  age10 now (Some t) =
  [nth (Z.to_nat ((num_seconds now t / 10) mod 16)) (str "0123456789ABCDEF") 0].
Proof.
  intros H. rewrite (age10_some now t H).
  assert (B : (0 <= (num_seconds now t / 10) mod 16 < 16)%Z) by (apply Z.mod_pos_bound; lia).
  rewrite hexdigit_spec by lia. rewrite Z_N_nat. reflexivity.
Qed.

(** a negative age (a stamp in the future) still prints one character: truncated division *)
Theorem age10_any now t :
  age10 now (Some t) = [hexdigit (Z.to_N ((num_seconds now t ÷ 10) mod 16))].
Proof. unfold age10. rewrite land15_mod16. reflexivity. Qed.

Definition age_char (now : Z) (t : option Z) : N :=
  match t with
  | Some t => hexdigit (Z.to_N ((num_seconds now t ÷ 10) mod 16))
  | None => 32
  end.

Theorem pth_cell now dcell r : cell_named now dcell r "PTH" =
  [age_char now (position_t r); age_char now (track_t r); age_char now (heading_t r); 32].
Proof.
  change (cell_named now dcell r "PTH") with
    (age10 now (position_t r) ++ age10 now (track_t r)
     ++ (match heading_t r with Some _ => age10 now (heading_t r) ++ [32] | None => [32; 32] end)).
  destruct (position_t r) as [p|], (track_t r) as [t|], (heading_t r) as [h|];
    rewrite ?age10_any, ?age10_none; reflexivity.
Qed.

(** -- e. last contact: the age in seconds, two characters -- *)

Theorem age_cell_value now r : let a := num_seconds now (timestamp r) in
  (0 <= a < 100)%Z ->
  age_cell now r = (if (a <? 10)%Z then [32; 48 + Z.to_N a]
                    else [48 + Z.to_N a / 10; 48 + Z.to_N a mod 10])
  /\ List.length (age_cell now r) = 2%nat
  /\ value_of (age_cell now r) 0 = Z.to_N a.
Proof.
  intros a Ha. unfold age_cell. fold a.
  rewrite (decz_nonneg a) by lia.
  assert (Hn : Z.to_N a < 100) by lia.
  assert (Hv : value_of (pad_left 2 (dec (Z.to_N a))) 0 = Z.to_N a).
  { rewrite pad_left_value. apply dec_value. apply (small_in_fuel 2); [lia | exact Hn]. }
  assert (Hl : List.length (pad_left 2 (dec (Z.to_N a))) = 2%nat).
  { apply pad_left_fits. apply (dec_length_le 2); [lia | exact Hn]. }
  split; [|split; [exact Hl | exact Hv]].
  destruct (a <? 10)%Z eqn:E.
  - apply Z.ltb_lt in E. rewrite dec_one_digit by lia. reflexivity.
  - apply Z.ltb_ge in E. rewrite dec_two_digits by lia. reflexivity.
Qed.

(** the row ends with that cell *)
Theorem row_ends_with_age o now dcell r :
  exists front, render_row o now dcell r = front ++ age_cell now r.
Proof. exists (enabled o (cells now dcell r)). apply row_cells. Qed.

(** ---- 3. fixed-point cells (latitude and longitude: five decimals) ---- *)

Local Transparent fmt_fixed.

(** [round_half_even] is a nearest integer ... *)
Theorem rhe_nearest x : (Qabs ((round_half_even x # 1) - x) <= 1 # 2)%Q.
Proof.
  pose proof (Qfloor_le x) as Hlo. pose proof (Qlt_floor x) as Hhi.
  unfold round_half_even.
  set (f := Qfloor x) in *.
  assert (E1 : ((f + 1)%Z # 1 == (f # 1) + 1)%Q) by (unfold Qeq, Qplus; simpl; lia).
  change (inject_Z f) with (f # 1)%Q in Hlo.
  change (inject_Z (f + 1)) with ((f + 1)%Z # 1)%Q in Hhi.
  rewrite E1 in Hhi.
  apply Qabs_Qle_condition.
  destruct (Qcompare (x - (f # 1)) (1 # 2)) eqn:C.
  - apply Qeq_alt in C.
    assert (Hx : (x == (f # 1) + (1 # 2))%Q).
    { rewrite <- C. ring. }
    destruct (Z.even f); [|rewrite E1]; rewrite Hx; split.
    + apply Qle_minus_iff. ring_simplify. discriminate.
    + apply Qle_minus_iff. ring_simplify. discriminate.
    + apply Qle_minus_iff. ring_simplify. discriminate.
    + apply Qle_minus_iff. ring_simplify. discriminate.
  - apply Qlt_alt in C. split.
    + apply Qle_minus_iff. apply Qlt_le_weak in C. apply Qle_minus_iff in C.
      setoid_replace ((f # 1) - x + - - (1 # 2))%Q with ((1 # 2) + - (x - (f # 1)))%Q by ring. exact C.
    + apply Qle_minus_iff. apply Qle_minus_iff in Hlo.
      setoid_replace ((1 # 2) + - ((f # 1) - x))%Q with ((x + - (f # 1)) + (1 # 2))%Q by ring.
      apply Qle_trans with (y := (0 + (1 # 2))%Q); [discriminate|].
      apply Qplus_le_l. exact Hlo.
  - apply Qgt_alt in C. rewrite E1. split.
    + apply Qle_minus_iff. apply Qlt_le_weak in Hhi. apply Qle_minus_iff in Hhi.
      setoid_replace ((f # 1) + 1 - x + - - (1 # 2))%Q with (((f # 1) + 1 + - x) + (1 # 2))%Q by ring.
      apply Qle_trans with (y := (0 + (1 # 2))%Q); [discriminate|].
      apply Qplus_le_l. exact Hhi.
    + apply Qle_minus_iff. apply Qlt_le_weak in C. apply Qle_minus_iff in C.
      setoid_replace ((1 # 2) + - ((f # 1) + 1 - x))%Q with (x - (f # 1) + - (1 # 2))%Q by ring. exact C.
Qed.

(** ... and an exact half goes to the even neighbour *)
Theorem rhe_tie_even x : (x - (Qfloor x # 1) == 1 # 2)%Q -> Z.even (round_half_even x) = true.
Proof.
  intros H. unfold round_half_even.
  assert (C : Qcompare (x - (Qfloor x # 1)) (1 # 2) = Eq) by (apply -> Qeq_alt; exact H).
  rewrite C. destruct (Z.even (Qfloor x)) eqn:E; [exact E|].
  rewrite Z.add_1_r, Z.even_succ, <- Z.negb_even, E. reflexivity.
Qed.

Lemma pow_N_Z k : Z.of_N (10 ^ N.of_nat k) = (10 ^ Z.of_nat k)%Z.
Proof. rewrite N2Z.inj_pow, nat_N_Z. reflexivity. Qed.

Lemma app_nil_front (l : bytes) : [] ++ l = l.
Proof. reflexivity. Qed.

Lemma app_one_front (a : N) (l : bytes) : [a] ++ l = a :: l.
Proof. reflexivity. Qed.

Lemma fmt_fixed_unfold p q : fmt_fixed p q =
  (if Qlt_bool q 0 then cons 45 else fun b => b)
    (decz (round_half_even (Qabs q * ((10 ^ Z.of_nat p)%Z # 1)) / 10 ^ Z.of_nat p)
     ++ match p with
        | O => []
        | S _ => [46] ++ zero_pad p (decz (round_half_even (Qabs q * ((10 ^ Z.of_nat p)%Z # 1)) mod 10 ^ Z.of_nat p))
        end).
Proof. unfold fmt_fixed. destruct (Qlt_bool q 0); reflexivity. Qed.

(** The characters of [fmt_fixed p q], p >= 1.  With n = round_half_even (|q| * 10^p): an
    optional minus sign (the sign of q, kept even when n = 0), the integer part n / 10^p in
    decimal, a point, and exactly p digits whose value is n mod 10^p. *)
Theorem fmt_fixed_contents p q : (1 <= p <= 400)%nat ->
  let scale := (10 ^ Z.of_nat p)%Z in
  let n := round_half_even (Qabs q * (scale # 1)) in
  (0 <= n)%Z /\
  exists fd,
    fmt_fixed p q = (if Qlt_bool q 0 then [45] else []) ++ dec (Z.to_N (n / scale)) ++ [46] ++ fd
    /\ List.length fd = p
    /\ Forall (fun c => 48 <= c <= 57) fd
    /\ Z.of_N (value_of fd 0) = (n mod scale)%Z.
Proof.
  intros Hp scale n.
  assert (Hs : (0 < scale)%Z) by (apply Z.pow_pos_nonneg; lia).
  assert (Hn0 : (0 <= n)%Z).
  { apply Z.le_trans with (m := Qfloor (Qabs q * (scale # 1))); [|apply rhe_ge_floor].
    change 0%Z with (Qfloor 0). apply Qfloor_resp_le.
    apply Qmult_le_0_compat; [apply Qabs_nonneg|]. unfold Qle; simpl; lia. }
  split; [exact Hn0|].
  assert (Hip : (0 <= n / scale)%Z) by (apply Z.div_pos; lia).
  assert (Hfp : (0 <= n mod scale < scale)%Z) by (apply Z.mod_pos_bound; lia).
  assert (Hfpn : Z.to_N (n mod scale) < 10 ^ N.of_nat p).
  { apply N2Z.inj_lt. rewrite Z2N.id by lia. rewrite pow_N_Z. exact (proj2 Hfp). }
  exists (zero_pad p (dec (Z.to_N (n mod scale)))).
  split; [|split; [|split]].
  - rewrite fmt_fixed_unfold.
    change (10 ^ Z.of_nat p)%Z with scale.
    change (round_half_even (Qabs q * (scale # 1))) with n.
    clearbody n. clearbody scale.
    rewrite (decz_nonneg (n / scale) Hip), (decz_nonneg (n mod scale) (proj1 Hfp)).
    destruct p as [|p']; [lia|].
    (* rewriting, not conversion: conversion would try to run [dec] *)
    destruct (Qlt_bool q 0); [rewrite app_one_front | rewrite app_nil_front]; reflexivity.
  - apply zero_pad_fits. apply (dec_length_le p); [exact Hp | exact Hfpn].
  - apply zero_pad_digits. apply dec_digits_all.
  - rewrite zero_pad_value, dec_value by (apply (small_in_fuel p); [lia | exact Hfpn]).
    apply Z2N.id. lia.
Qed.

(** Latitude and longitude cells: [fmt_fixed 5].  For |q| below 1000 (any latitude or longitude)
    the characters are: the sign of q, then digits [ip], a point, five digits [fd], and reading
    [ip] and [fd] together as one number gives round_half_even (|q| * 100000): the text denotes
    that integer divided by 100000. *)
Theorem fmt_fixed_5 q : (Qabs q <= 999 # 1)%Q ->
  let n := round_half_even (Qabs q * (100000 # 1)) in
  exists ip fd,
    fmt_fixed 5 q = (if Qlt_bool q 0 then [45] else []) ++ ip ++ [46] ++ fd
    /\ ip = dec (Z.to_N (n / 100000))
    /\ (1 <= List.length ip <= 3)%nat /\ List.length fd = 5%nat
    /\ Forall (fun c => 48 <= c <= 57) (ip ++ fd)
    /\ Z.of_N (value_of (ip ++ fd) 0) = n
    /\ (Qabs ((n # 1) - Qabs q * (100000 # 1)) <= 1 # 2)%Q.
Proof.
  intros Hq n.
  assert (P5 : (1 <= 5 <= 400)%nat) by lia.
  destruct (fmt_fixed_contents 5 q P5) as [Hn0 [fd [E [Hl [Hd Hv]]]]].
  change (10 ^ Z.of_nat 5)%Z with 100000%Z in *. fold n in Hn0, E, Hv.
  assert (Hn1 : (n <= 999 * 100000)%Z).
  { apply rhe_le_int.
    setoid_replace ((999 * 100000) # 1)%Q with ((999 # 1) * (100000 # 1))%Q by reflexivity.
    apply Qmult_le_compat_r; [exact Hq | discriminate]. }
  assert (Hip : (0 <= n / 100000 < 1000)%Z).
  { split; [apply Z.div_pos; lia|]. apply Z.div_lt_upper_bound; lia. }
  assert (Hipn : Z.to_N (n / 100000) < 10 ^ N.of_nat 3).
  { change (10 ^ N.of_nat 3) with 1000. lia. }
  exists (dec (Z.to_N (n / 100000))), fd.
  split; [exact E|]. split; [reflexivity|]. split; [|split; [exact Hl|split; [|split]]].
  - split; [apply dec_length_ge_1 | apply (dec_length_le 3); [lia | exact Hipn]].
  - apply Forall_app. split; [apply dec_digits_all | exact Hd].
  - rewrite value_of_app.
    rewrite dec_value by (apply (small_in_fuel 3); [lia | exact Hipn]).
    rewrite value_of_from. rewrite Hl.
    change (10 ^ N.of_nat 5) with 100000.
    rewrite N2Z.inj_add, N2Z.inj_mul, Hv, Z2N.id by lia.
    change (Z.of_N 100000) with 100000%Z.
    pose proof (Z.div_mod n 100000) as D. lia.
  - apply rhe_nearest.
Qed.

Local Opaque fmt_fixed.

(** the latitude and longitude cells print that text right-aligned, or blanks when the position
    is not shown (either coordinate is the 0.0 sentinel) *)
Lemma latitude_cell_is now dcell r : cell_named now dcell r "LATITUDE" =
  if pos_shown r then pad_left 9 (fmt_fixed 5 (lat r)) ++ [32] else spaces 9 ++ [32].
Proof. reflexivity. Qed.

Lemma longitude_cell_is now dcell r : cell_named now dcell r "LONGITUDE" =
  if pos_shown r then pad_left 11 (fmt_fixed 5 (lon r)) ++ [32] else spaces 11 ++ [32].
Proof. reflexivity. Qed.

Theorem latitude_cell_shown now dcell r : pos_shown r = true -> (Qabs (lat r) <= 99 # 1)%Q ->
  exists body, cell_named now dcell r "LATITUDE" = body ++ [32]
    /\ right_aligned 9 (fmt_fixed 5 (lat r)) body.
Proof.
  intros E Hq. rewrite latitude_cell_is, E. exists (pad_left 9 (fmt_fixed 5 (lat r))).
  split; [reflexivity|]. apply pad_left_right_aligned. apply lat_fits. exact Hq.
Qed.

Theorem longitude_cell_shown now dcell r : pos_shown r = true -> (Qabs (lon r) <= 999 # 1)%Q ->
  exists body, cell_named now dcell r "LONGITUDE" = body ++ [32]
    /\ right_aligned 11 (fmt_fixed 5 (lon r)) body.
Proof.
  intros E Hq. rewrite longitude_cell_is, E. exists (pad_left 11 (fmt_fixed 5 (lon r))).
  split; [reflexivity|]. apply pad_left_right_aligned. apply lon_fits. exact Hq.
Qed.

Theorem position_cells_hidden now dcell r : pos_shown r = false ->
  cell_named now dcell r "LATITUDE" = spaces 10 /\ cell_named now dcell r "LONGITUDE" = spaces 12.
Proof.
  intros E. rewrite latitude_cell_is, longitude_cell_is, E. split; reflexivity.
Qed.

Print Assumptions dec_digits_all.
Print Assumptions dec_digits.
Print Assumptions dec_value.
Print Assumptions dec_no_leading_zero.
Print Assumptions dec_zero.
Print Assumptions decz_value.
Print Assumptions hexdigit_spec.
Print Assumptions zero_pad_value.
Print Assumptions zero_pad_width.
Print Assumptions squawk_cell_some.
Print Assumptions squawk_cell_none.
Print Assumptions wake_cell_model.
Print Assumptions wake_cell.
Print Assumptions altitude_cell_none.
Print Assumptions vrate_cell_none.
Print Assumptions track_cell_none.
Print Assumptions heading_cell_none.
Print Assumptions altitude_cell_some.
Print Assumptions vrate_cell_some.
Print Assumptions track_cell_some.
Print Assumptions heading_cell_some.
Print Assumptions country_cell.
Print Assumptions country_cell_prefix.
Print Assumptions age10_some.
Print Assumptions age10_none.
Print Assumptions age10_some_char.
Print Assumptions age10_any.
Print Assumptions pth_cell.
Print Assumptions age_cell_value.
Print Assumptions row_ends_with_age.
Print Assumptions rhe_nearest.
Print Assumptions rhe_tie_even.
Print Assumptions fmt_fixed_contents.
Print Assumptions fmt_fixed_5.
Print Assumptions latitude_cell_shown.
Print Assumptions longitude_cell_shown.
Print Assumptions position_cells_hidden.
