(** Consequences of the footprints for individual parameters (used by C05/C06/C07/C09/C11). *)
From SQ Require Import Base Update Footprint Id13 SquawkProof.
Local Open Scope N_scope.

Lemma plane_update_mt obs now r m df relaxed r' :
  plane_update obs now r m df relaxed = Ok r' -> is_ext df = true ->
  exists tc st, get_message_type m = Ok (tc, st).
Proof.
  unfold plane_update, is_ext. intros H X.
  destruct (update_from_bcast _ m df) as [r1|]; cbn [bind] in H; [|discriminate].
  rewrite X in H. unfold update_from_ext in H.
  destruct (get_message_type m) as [[tc st]|]; cbn [bind] in H; [|discriminate].
  exists tc, st. reflexivity.
Qed.

(** generic frame rule for the squitter path *)
Lemma plane_update_frame obs now r m df relaxed r' f :
  plane_update obs now r m df relaxed = Ok r' ->
  (forall tc st, memf f (fp_update df tc st) = false) -> same f r r'.
Proof.
  intros H F. destruct (is_ext df) eqn:X.
  - destruct (plane_update_mt _ _ _ _ _ _ _ H X) as [tc [st T]].
    apply (plane_update_fp obs now r m df relaxed r' tc st (fun _ => T) H f (F tc st)).
  - refine (plane_update_fp obs now r m df relaxed r' 0 0 _ H f (F 0 0)).
    intros Y. congruence.
Qed.

Lemma update_from_downlink_frame obs now r d f :
  memf f (fp_downlink d) = false -> same f r (update_from_downlink obs now r d).
Proof. intros F. apply (update_from_downlink_fp obs now r d f F). Qed.

(** membership in the conditional footprints, decided by case analysis on the tests *)
Ltac fp_cases :=
  unfold fp_update, fp_bcast, fp_ext, fp_ext19, is_ext, is_commb, in_tc;
  repeat rewrite memf_app;
  repeat match goal with
  | |- context [if ?c then _ else _] => destruct c eqn:?
  end; try reflexivity; try discriminate.

(** squawk: only DF5/DF21 *)
Lemma squawk_not_in_fp df tc st : df <> 5 -> df <> 21 -> memf F_squawk (fp_update df tc st) = false.
Proof.
  intros H5 H21. apply N.eqb_neq in H5. apply N.eqb_neq in H21.
  unfold fp_update, fp_bcast. rewrite H5, H21. cbn [orb app].
  repeat rewrite memf_app.
  assert (memf F_squawk (fp_ext tc st) = false) as E.
  { unfold fp_ext, fp_ext19. cbn [memf]. destruct (fld_eq_dec F_squawk F_last_tc); [discriminate|].
    repeat match goal with |- context [if ?c then _ else _] => destruct c end; reflexivity. }
  destruct (is_ext df); destruct (is_commb df); destruct ((df =? 4) || (df =? 20)); destruct ((df =? 11) || (df =? 17));
    cbn -[fp_ext fp_mode_s]; rewrite ?memf_app, ?E; reflexivity.
Qed.

Lemma plane_update_squawk_keeps obs now r m df relaxed r' :
  plane_update obs now r m df relaxed = Ok r' -> df <> 5 -> df <> 21 -> r_squawk r' = r_squawk r.
Proof.
  intros H H5 H21. symmetry.
  apply (plane_update_frame _ _ _ _ _ _ _ F_squawk H). intros tc st. apply squawk_not_in_fp; assumption.
Qed.

Lemma plane_update_squawk_sets obs now r m df relaxed r' :
  plane_update obs now r m df relaxed = Ok r' -> df = 5 \/ df = 21 ->
  exists s, squawk m = Ok s /\ r_squawk r' = s.
Proof.
  unfold plane_update. intros H D.
  destruct (update_from_bcast _ m df) as [r1|] eqn:E1; cbn [bind] in H; [|discriminate].
  assert (exists s, squawk m = Ok s /\ r_squawk r1 = s) as [s [S1 S2]].
  { unfold update_from_bcast in E1.
    assert (((df =? 5) || (df =? 21)) = true) as X by (destruct D; subst; reflexivity).
    assert (((df =? 4) || (df =? 20)) = false) as X4 by (destruct D; subst; reflexivity).
    assert (((df =? 11) || (df =? 17)) = false) as X11 by (destruct D; subst; reflexivity).
    rewrite X, X4, X11 in E1. cbn [bind] in E1.
    destruct (squawk m) as [s|]; cbn [bind] in E1; [|discriminate].
    inversion E1; subst. exists s. split; reflexivity. }
  exists s. split; [exact S1|]. rewrite <- S2.
  assert (is_ext df = false) as X by (destruct D; subst; reflexivity).
  unfold is_ext in X. rewrite X in H. cbn [bind] in H.
  destruct ((relaxed || (3 <? cap_ca r1)) && ((df =? 20) || (df =? 21))).
  - apply update_from_mode_s_fp in H. symmetry. apply (H F_squawk). reflexivity.
  - inversion H; subst. reflexivity.
Qed.

(** downlink path *)
Lemma downlink_squawk_keeps obs now r d :
  dl_df d <> Some 5 -> r_squawk (update_from_downlink obs now r d) = r_squawk r.
Proof.
  intros H. symmetry. apply (update_from_downlink_frame obs now r d F_squawk).
  unfold fp_downlink. rewrite memf_app. cbn [memf orb].
  destruct (fld_eq_dec F_squawk F_timestamp); [discriminate|].
  destruct (fld_eq_dec F_squawk F_last_df); [discriminate|].
  destruct d as [s|e|df ic]; cbn [dl_df] in H.
  - unfold fp_srt. destruct (s_df s) as [[|p]|]; try reflexivity.
    repeat (destruct p as [p|p|]; try reflexivity). congruence.
  - unfold fp_ext_dl, fp_ext19. cbn [memf]. destruct (fld_eq_dec F_squawk F_last_tc); [discriminate|].
    repeat match goal with |- context [if ?c then _ else _] => destruct c end; reflexivity.
  - reflexivity.
Qed.

Lemma downlink_squawk_sets obs now r s :
  s_df s = Some 5 -> s_icao s <> None -> s_squawk s <> None ->
  r_squawk (update_from_downlink obs now r (DSrt s)) = s_squawk s.
Proof.
  intros D I Q. unfold update_from_downlink. cbn [dl_df]. rewrite D.
  unfold update_from_srt_dl. destruct (s_icao s); [|congruence]. cbn [is_some]. rewrite D.
  destruct (s_alt s); destruct (s_squawk s) eqn:S; try congruence; destruct (s_cap s); reflexivity.
Qed.

Lemma plane_update_squawk_spec : forall obs now r m df relaxed r',
  plane_update obs now r m df relaxed = Ok r' -> df = 5 \/ df = 21 ->
  (8 <= List.length m)%nat -> wf m -> r_squawk r' = Some (id_spec m).
Proof.
  intros obs now r m df relaxed r' H D L W.
  destruct (plane_update_squawk_sets _ _ _ _ _ _ _ H D) as [s [S1 S2]].
  rewrite (squawk_correct m L W) in S1. rewrite S2. inversion S1. reflexivity.
Qed.

Lemma downlink_squawk_spec : forall obs now r m s,
  srt_from_message m = Ok s -> s_df s = Some 5 -> s_icao s <> None ->
  (8 <= List.length m)%nat -> wf m ->
  r_squawk (update_from_downlink obs now r (DSrt s)) = Some (id_spec m).
Proof.
  intros obs now r m s H D I L W.
  assert (s_squawk s = Some (id_spec m)) as Q.
  { unfold srt_from_message in H.
    destruct (get_downlink_format m) as [[df|]|]; cbn [bind] in H; try discriminate;
      [|inversion H; subst; discriminate].
    destruct (get_icao m df) as [ic|]; cbn [bind] in H; [|discriminate].
    destruct (df =? 4) eqn:E4.
    { destruct (altitude m df); cbn [bind] in H; inversion H; subst; cbn in D.
      apply N.eqb_eq in E4. congruence. }
    destruct (df =? 5) eqn:E5.
    { rewrite (squawk_correct m L W) in H. cbn [bind] in H. inversion H; subst. reflexivity. }
    destruct (df =? 11).
    { destruct (get_capability m); cbn [bind] in H; inversion H; subst; cbn in D.
      apply N.eqb_neq in E5. congruence. }
    inversion H; subst; cbn in D. apply N.eqb_neq in E5. congruence. }
  rewrite downlink_squawk_sets; [exact Q | exact D | exact I | rewrite Q; discriminate].
Qed.

(** ---- altitude (C05) ---- *)
Lemma plane_update_altitude_sets obs now r m df relaxed r' :
  plane_update obs now r m df relaxed = Ok r' -> df = 4 \/ df = 20 ->
  exists a, altitude m df = Ok a /\ r_altitude r' = a.
Proof.
  unfold plane_update. intros H D.
  destruct (update_from_bcast _ m df) as [r1|] eqn:E1; cbn [bind] in H; [|discriminate].
  assert (exists a, altitude m df = Ok a /\ r_altitude r1 = a) as [a [S1 S2]].
  { unfold update_from_bcast in E1.
    assert (((df =? 4) || (df =? 20)) = true) as X by (destruct D; subst; reflexivity).
    assert (((df =? 5) || (df =? 21)) = false) as X5 by (destruct D; subst; reflexivity).
    assert (((df =? 11) || (df =? 17)) = false) as X11 by (destruct D; subst; reflexivity).
    rewrite X, X5, X11 in E1. cbn [bind] in E1.
    destruct (altitude m df) as [a|]; cbn [bind] in E1; [|discriminate].
    inversion E1; subst. exists a. split; reflexivity. }
  exists a. split; [exact S1|]. rewrite <- S2.
  assert (is_ext df = false) as X by (destruct D; subst; reflexivity).
  unfold is_ext in X. rewrite X in H. cbn [bind] in H.
  destruct ((relaxed || (3 <? cap_ca r1)) && ((df =? 20) || (df =? 21))).
  - apply update_from_mode_s_fp in H. symmetry. apply (H F_altitude). reflexivity.
  - inversion H; subst. reflexivity.
Qed.

Lemma update_from_ext_altitude obs r m df r' tc st :
  get_message_type m = Ok (tc, st) -> in_tc 9 18 tc = true ->
  update_from_ext obs r m df = Ok r' ->
  exists a, altitude m df = Ok a /\ r_altitude r' = a.
Proof.
  unfold update_from_ext. intros T C H. rewrite T in H. cbn [bind] in H.
  assert (in_tc 1 4 tc = false /\ in_tc 5 8 tc = false) as [C1 C2].
  { unfold in_tc in *. apply andb_prop in C. destruct C as [Ca Cb].
    apply N.leb_le in Ca. apply N.leb_le in Cb.
    split; apply andb_false_intro2; apply N.leb_gt; lia. }
  rewrite C1, C2, C in H.
  destruct (altitude m df) as [a|]; cbn [bind] in H; [|discriminate].
  destruct (surveillance_status m) as [s|]; cbn [bind] in H; [|discriminate].
  apply update_cpr_fp in H. exists a. split; [reflexivity|].
  symmetry. apply (H F_altitude). reflexivity.
Qed.

Lemma plane_update_altitude_df17 obs now r m relaxed r' tc st :
  plane_update obs now r m 17 relaxed = Ok r' ->
  get_message_type m = Ok (tc, st) -> in_tc 9 18 tc = true ->
  exists a, altitude m 17 = Ok a /\ r_altitude r' = a.
Proof.
  unfold plane_update. intros H T C.
  destruct (update_from_bcast _ m 17) as [r1|] eqn:E1; cbn [bind] in H; [|discriminate].
  change ((17 =? 17) || (17 =? 18)) with true in H. cbv iota in H.
  destruct (update_from_ext obs r1 m 17) as [r2|] eqn:E2; cbn [bind] in H; [|discriminate].
  change ((17 =? 20) || (17 =? 21)) with false in H. rewrite andb_false_r in H. inversion H; subst.
  eapply update_from_ext_altitude; eassumption.
Qed.

(** downlink path: a DF4 reply with a decoded altitude sets it, one without keeps the old value *)
Lemma downlink_altitude_df4 obs now r s :
  s_df s = Some 4 -> s_icao s <> None ->
  r_altitude (update_from_downlink obs now r (DSrt s)) =
    match s_alt s with Some a => Some a | None => r_altitude r end.
Proof.
  intros D I. unfold update_from_downlink. cbn [dl_df]. rewrite D.
  unfold update_from_srt_dl. destruct (s_icao s); [|congruence]. cbn [is_some]. rewrite D.
  destruct (s_alt s); destruct (s_squawk s); destruct (s_cap s); reflexivity.
Qed.
