(** End to end, second part: the frame that CREATES a row, surface positions, capability, and
    the two stamps (time of last contact, last format).

    [EndToEnd] ties the decoder theorems to [step_line] for an aircraft that is ALREADY in the
    table.  Here the same is done for

      A. the first frame of an aircraft (no row before the step): the row shown after the step
         carries the value of that very frame (altitude DF4 / DF17, identity code DF5, callsign
         and category DF17 TC 1-4, velocity DF17 TC 19); a creating Comm-B reply (DF20/21)
         contributes nothing but its address and its format;
      B. surface position squitters (DF17 TC 5-8) blank the altitude, on both update paths;
      C. the transponder capability CA: DF11 sets it on both paths, DF17 only with -U, and a row
         created by a DF17 frame has CA = 0;
      D. every applied frame stamps the row with the current time; it records its format in
         [last_df] EXCEPT for DF18 / DF19 (and, for a creating frame, every format above 21) on
         the downlink path, where the previous value (0 for a new row) stays. *)
From SQ Require Import Base RangeSpec Table Footprint TableProofs TotalPipeline.
From SQ Require Import Id13 SquawkProof RowFacts AltSpec AltProof Ia5 IdentProof VelSpec VelProof.
From SQ Require Import FrameProofs ExpiryProof OptionsProof EndToEnd.
Local Open Scope N_scope.

(** ===================================================================================== *)
(** * 0. Small tools                                                                      *)
(** ===================================================================================== *)

Lemma ok_inj {A} (x y : A) : Ok x = Ok y -> x = y.
Proof. intros H. injection H. intros E. exact E. Qed.

Lemma some_inj {A} (x y : A) : Some x = Some y -> x = y.
Proof. intros H. injection H. intros E. exact E. Qed.

Lemma lookup_fun (t : table) a r1 r2 : lookup t a = Some r1 -> lookup t a = Some r2 -> r1 = r2.
Proof. intros H1 H2. rewrite H1 in H2. apply some_inj. exact H2. Qed.

(** the row a frame for a new address starts from: Plane::new() with the address and its country *)
Definition row0 (now : Z) (a : N) : row := row_new now <| icao := a |> <| reg := icao_to_country a |>.

Lemma row_from_downlink_row0 obs now d a :
  row_from_downlink obs now d a = update_from_downlink obs now (row0 now a) d.
Proof. reflexivity. Qed.

(** the creating step with the frame named from outside *)
Lemma new_row_core o now s line s' rf df a m :
  step_line o now s line = Ok (s', rf, Applied df a) ->
  lookup (tbl s) a = None -> (0 < delete_after o)%Z -> get_message line = Ok (Some m) ->
  frame_ok m /\ get_downlink_format m = Ok (Some df) /\ get_icao m df = Ok (Some a) /\
  exists d, df_from_message m = Ok (Some d) /\
            lookup (tbl s') a = Some (update_from_downlink (observer o) now (row0 now a) d).
Proof.
  intros H L D G.
  destruct (step_line_new_row _ _ _ _ _ _ _ _ H L D) as (m' & d & GM & F & GD & GI & DM & L').
  rewrite G in GM. apply ok_inj in GM. apply some_inj in GM. subst m'.
  repeat (split; [assumption|]). exists d. split; [exact DM|].
  rewrite <- row_from_downlink_row0. exact L'.
Qed.

(** For DF5, DF11, DF17 (and DF4 with a decodable altitude) the created row is, on every displayed
    parameter, the row that Plane::update computes from the empty row: [u_neutral] again. *)
Lemma new_row_squitter obs now rel m df d a :
  frame_ok m -> get_downlink_format m = Ok (Some df) -> get_icao m df = Ok (Some a) ->
  df_from_message m = Ok (Some d) ->
  df = 5 \/ df = 11 \/ df = 17 \/ (df = 4 /\ exists alt, altitude m 4 = Ok (Some alt)) ->
  exists r1, plane_update obs now (row0 now a) m df rel = Ok r1 /\
             agree r1 (update_from_downlink obs now (row0 now a) d).
Proof.
  intros F GD GI DM C.
  destruct (plane_update_total obs now (row0 now a) m df rel F GD) as [r1 PU].
  exists r1. split; [exact PU|].
  eapply (u_neutral obs now (row0 now a) (row0 now a) m df d rel r1 a); try eassumption.
  - apply agree_refl.
  - destruct C as [C|[C|[C|[C _]]]]; tauto.
  - intros ->. destruct C as [C|[C|[C|[_ C]]]]; try discriminate. exact C.
Qed.

(** ===================================================================================== *)
(** * A. The frame that creates the row delivers its values                               *)
(** ===================================================================================== *)

(** A1. DF17 airborne position *)
Theorem altitude_df17_new_row o now s line s' rf a m :
  step_line o now s line = Ok (s', rf, Applied 17 a) ->
  lookup (tbl s) a = None -> (0 < delete_after o)%Z -> get_message line = Ok (Some m) ->
  9 <= field m 33 37 <= 18 ->
  N.testbit (field m 41 52) 4 = true \/ field m 41 52 = 0 ->
  exists r', lookup (tbl s') a = Some r' /\ r_altitude r' = alt12_spec (field m 41 52).
Proof.
  intros H L D G TC Q.
  destruct (new_row_core _ _ _ _ _ _ _ _ _ H L D G) as (F & GD & GI & d & DM & L').
  destruct (df17_frame m F GD) as (W & L28 & MT).
  eexists. split; [exact L'|].
  destruct (new_row_squitter (observer o) now (relaxed o) m 17 d a F GD GI DM ltac:(tauto))
    as (r1 & PU & A).
  destruct (agree_fields _ _ A) as (_ & E & _). rewrite <- E.
  destruct (plane_update_altitude_df17 _ _ _ _ _ _ _ _ PU MT (proj2 (in_tc_true 9 18 _) TC))
    as (x & AX & RX).
  rewrite (altitude_ac12_correct m W L28 Q) in AX. apply ok_inj in AX. congruence.
Qed.

(** A2. DF4: the creating frame always goes through the downlink path, which keeps the previous
    altitude when the code carries none -- and the previous altitude of a new row is blank, so
    here the two readings coincide and no case split on -U is left *)
Theorem altitude_df4_new_row o now s line s' rf a m :
  step_line o now s line = Ok (s', rf, Applied 4 a) ->
  lookup (tbl s) a = None -> (0 < delete_after o)%Z -> get_message line = Ok (Some m) ->
  m_bit (field m 20 32) = false -> known_ac13 (field m 20 32) = false ->
  exists r', lookup (tbl s') a = Some r' /\ r_altitude r' = alt13_spec (field m 20 32).
Proof.
  intros H L D G MB K.
  destruct (new_row_core _ _ _ _ _ _ _ _ _ H L D G) as (F & GD & GI & d & DM & L').
  destruct (frame_wf_len8 m F) as [W L8].
  pose proof (altitude_ac13_correct m 4 L8 W eq_refl MB K) as AL.
  eexists. split; [exact L'|].
  destruct (dl_short m 4 d GD ltac:(lia) DM) as (sr & -> & S).
  unfold srt_from_message in S. rewrite GD in S. cbn [bind] in S. rewrite GI in S. cbn [bind] in S.
  change (4 =? 4) with true in S. cbv iota in S. rewrite AL in S. cbn [bind] in S.
  apply ok_inj in S. subst sr.
  rewrite downlink_altitude_df4; [|reflexivity|discriminate].
  cbn [s_alt]. change (r_altitude (row0 now a)) with (@None N).
  destruct (alt13_spec (field m 20 32)); reflexivity.
Qed.

(** A3. DF5: the identity code (a creating DF21 reply does NOT deliver its code: see A5) *)
Theorem squawk_new_row o now s line s' rf a m :
  step_line o now s line = Ok (s', rf, Applied 5 a) ->
  lookup (tbl s) a = None -> (0 < delete_after o)%Z -> get_message line = Ok (Some m) ->
  exists r', lookup (tbl s') a = Some r' /\ r_squawk r' = Some (id_spec m).
Proof.
  intros H L D G.
  destruct (new_row_core _ _ _ _ _ _ _ _ _ H L D G) as (F & GD & GI & d & DM & L').
  destruct (frame_wf_len8 m F) as [W L8].
  eexists. split; [exact L'|].
  destruct (new_row_squitter (observer o) now (relaxed o) m 5 d a F GD GI DM ltac:(tauto))
    as (r1 & PU & A).
  destruct (agree_fields _ _ A) as (_ & _ & Q & _). rewrite <- Q.
  eapply plane_update_squawk_spec; [exact PU | tauto | exact L8 | exact W].
Qed.

(** A4. DF17 identification *)
Theorem callsign_new_row o now s line s' rf a m :
  step_line o now s line = Ok (s', rf, Applied 17 a) ->
  lookup (tbl s) a = None -> (0 < delete_after o)%Z -> get_message line = Ok (Some m) ->
  1 <= field m 33 37 <= 4 ->
  exists r', lookup (tbl s') a = Some r' /\
    r_ais r' = Some (ais_spec m) /\ category r' = (field m 33 37, field m 38 40).
Proof.
  intros H L D G TC.
  destruct (new_row_core _ _ _ _ _ _ _ _ _ H L D G) as (F & GD & GI & d & DM & L').
  destruct (df17_frame m F GD) as (W & L28 & MT).
  eexists. split; [exact L'|].
  destruct (new_row_squitter (observer o) now (relaxed o) m 17 d a F GD GI DM ltac:(tauto))
    as (r1 & PU & A).
  destruct (agree_fields _ _ A) as (E1 & _ & _ & _ & _ & _ & E2). rewrite <- E1, <- E2.
  destruct (plane_update_ext _ _ _ _ _ _ PU) as (c & _ & U).
  destruct (update_from_ext_ident _ _ _ _ _ _ _ MT (proj2 (in_tc_true 1 4 _) TC) U) as (x & AX & RX & CX).
  rewrite (ais_correct m W ltac:(lia)) in AX. apply ok_inj in AX. split; congruence.
Qed.

(** (not asked for, same pattern) DF17 airborne velocity *)
Theorem velocity_new_row o now s line s' rf a m :
  step_line o now s line = Ok (s', rf, Applied 17 a) ->
  lookup (tbl s) a = None -> (0 < delete_after o)%Z -> get_message line = Ok (Some m) ->
  field m 33 37 = 19 ->
  exists r', lookup (tbl s') a = Some r' /\
    vrate r' = vrate_spec (bit_at m 69) (field m 70 78) /\
    (field m 38 40 = 1 \/ field m 38 40 = 2 ->
     (track r', grspeed r') =
       vel_spec (field m 38 40 =? 2) (bit_at m 46) (field m 47 56) (bit_at m 57) (field m 58 67)).
Proof.
  intros H L D G TC.
  destruct (new_row_core _ _ _ _ _ _ _ _ _ H L D G) as (F & GD & GI & d & DM & L').
  destruct (df17_frame m F GD) as (W & L28 & MT). rewrite TC in MT.
  eexists. split; [exact L'|].
  destruct (new_row_squitter (observer o) now (relaxed o) m 17 d a F GD GI DM ltac:(tauto))
    as (r1 & PU & A).
  destruct (agree_fields _ _ A) as (_ & _ & _ & E1 & E2 & E3 & _). rewrite <- E1, <- E2, <- E3.
  destruct (plane_update_ext _ _ _ _ _ _ PU) as (c & _ & U).
  unfold update_from_ext in U. rewrite MT in U. cbn [bind] in U.
  change (in_tc 1 4 19) with false in U. change (in_tc 5 8 19) with false in U.
  change (in_tc 9 18 19) with false in U. change (19 =? 19) with true in U. cbv iota in U.
  destruct (update_from_ext_19_vel _ _ _ _ U) as (v & VR & VX & TG).
  rewrite (vertical_rate_correct m W L28) in VR. apply ok_inj in VR. split; [congruence|].
  intros ST. destruct (TG ST) as (t & g & TGE & TX & GX).
  rewrite (track_and_groundspeed_correct m _ W L28) in TGE. apply ok_inj in TGE.
  rewrite TX, GX. symmetry. exact TGE.
Qed.

(** A5. Comm-B.  [Mds::from_message] runs every decoder, but the row only takes the address from
    it: what DF::from_message hands over for a DF20 / DF21 reply is the format and the address *)
Lemma mds_from_message_val m df a p :
  get_downlink_format m = Ok (Some df) -> get_icao m df = Ok (Some a) ->
  mds_from_message m = Ok p -> p = (Some df, Some a).
Proof.
  intros GD GI H. unfold mds_from_message in H. rewrite GD in H. cbn [bind] in H.
  rewrite GI in H. cbn [bind] in H.
  destruct (altitude m df) as [al|]; cbn [bind] in H; [|discriminate H].
  repeat match type of H with
  | bind ?x _ = Ok _ => destruct x; cbn [bind] in H; [|discriminate H]
  end.
  apply ok_inj in H. symmetry. exact H.
Qed.

Lemma dl_commb m df a d :
  get_downlink_format m = Ok (Some df) -> get_icao m df = Ok (Some a) -> df = 20 \/ df = 21 ->
  df_from_message m = Ok (Some d) -> d = DMds (Some df) (Some a).
Proof.
  intros GD GI C H. unfold df_from_message in H. rewrite GD in H. cbn [bind] in H.
  assert ((df <=? 16) = false) as E16 by (destruct C; subst df; reflexivity).
  assert ((df =? 17) = false) as E17 by (destruct C; subst df; reflexivity).
  assert ((df =? 20) || (df =? 21) = true) as E20 by (destruct C; subst df; reflexivity).
  rewrite E16, E17, E20 in H.
  destruct (mds_from_message m) as [p|] eqn:M; cbn [bind] in H; [|discriminate H].
  rewrite (mds_from_message_val m df a p GD GI M) in H.
  apply ok_inj in H. apply some_inj in H. symmetry. exact H.
Qed.

(** the row created by a Comm-B reply is the EMPTY row with the address, the country of the
    address and the format: no altitude from DF20, no identity code from DF21, no BDS register
    contents, whatever -U / -r say (a creating frame never runs Plane::update) *)
Theorem comm_b_new_row o now s line s' rf df a :
  step_line o now s line = Ok (s', rf, Applied df a) ->
  lookup (tbl s) a = None -> (0 < delete_after o)%Z -> df = 20 \/ df = 21 ->
  lookup (tbl s') a =
    Some (row_new now <| icao := a |> <| reg := icao_to_country a |> <| last_df := df |>).
Proof.
  intros H L D C.
  destruct (step_line_new_row _ _ _ _ _ _ _ _ H L D) as (m & d & GM & F & GD & GI & DM & L').
  rewrite L'. f_equal. rewrite (dl_commb m df a d GD GI C DM). reflexivity.
Qed.

(** spelled out on the displayed parameters (the next DF20/21 frame, on the now existing row, does
    go through Plane::update: [squawk_end_to_end], [plane_update_altitude_sets]) *)
Corollary comm_b_new_row_blank o now s line s' rf df a :
  step_line o now s line = Ok (s', rf, Applied df a) ->
  lookup (tbl s) a = None -> (0 < delete_after o)%Z -> df = 20 \/ df = 21 ->
  exists r', lookup (tbl s') a = Some r' /\
    icao r' = a /\ reg r' = icao_to_country a /\ timestamp r' = now /\ last_df r' = df /\
    r_altitude r' = None /\ r_squawk r' = None /\ r_ais r' = None /\ category r' = (0, 0) /\
    grspeed r' = None /\ track r' = None /\ vrate r' = None /\ r_heading r' = None /\
    selected_altitude r' = None /\ baro_setting r' = None /\ cap_ca r' = 0 /\ cap r' = cap_default /\
    true_airspeed r' = None /\ indicated_airspeed r' = None /\ mach r' = None /\
    roll_angle r' = None /\ temperature r' = None /\ wind r' = None /\ threat r' = None.
Proof.
  intros H L D C. eexists. split; [exact (comm_b_new_row _ _ _ _ _ _ _ _ H L D C)|].
  repeat split; reflexivity.
Qed.

(** ===================================================================================== *)
(** * B. Surface position squitters blank the altitude                                    *)
(** ===================================================================================== *)

Lemma update_from_ext_surface obs r m df r' tc st :
  get_message_type m = Ok (tc, st) -> in_tc 5 8 tc = true ->
  update_from_ext obs r m df = Ok r' -> r_altitude r' = None.
Proof.
  unfold update_from_ext. intros T C H. rewrite T in H. cbn [bind] in H.
  assert (in_tc 1 4 tc = false) as C1.
  { apply in_tc_true in C. apply in_tc_false. lia. }
  rewrite C1, C in H.
  destruct (ground_movement m) as [g|]; cbn [bind] in H; [|discriminate H].
  destruct (ground_track m) as [t|]; cbn [bind] in H; [|discriminate H].
  apply update_cpr_fp in H. symmetry. apply (H F_altitude). reflexivity.
Qed.

Lemma plane_update_surface obs now r m rel r' tc st :
  plane_update obs now r m 17 rel = Ok r' ->
  get_message_type m = Ok (tc, st) -> in_tc 5 8 tc = true -> r_altitude r' = None.
Proof.
  intros PU T C. destruct (plane_update_ext _ _ _ _ _ _ PU) as (c & _ & U).
  eapply update_from_ext_surface; eassumption.
Qed.

(** B1. existing row: the two paths do the same (squitter path: the setter in [update_from_ext];
    downlink path: [r_altitude := e_altitude e] with the altitude of a surface record never set) *)
Theorem surface_blanks_altitude o now s line s' rf a r m :
  step_line o now s line = Ok (s', rf, Applied 17 a) ->
  lookup (tbl s) a = Some r -> (0 < delete_after o)%Z -> get_message line = Ok (Some m) ->
  5 <= field m 33 37 <= 8 ->
  exists r', lookup (tbl s') a = Some r' /\ r_altitude r' = None.
Proof.
  intros H L D G TC.
  destruct (existing_row_core _ _ _ _ _ _ _ _ _ _ H L D G) as (F & GD & GI & d & r' & DM & L' & RS).
  destruct (df17_frame m F GD) as (W & L28 & MT).
  exists r'. split; [exact L'|].
  destruct (row_step_squitter _ _ _ _ _ _ _ _ F GD GI DM ltac:(tauto) RS) as (r1 & PU & A).
  destruct (agree_fields _ _ A) as (_ & E & _). rewrite <- E.
  exact (plane_update_surface _ _ _ _ _ _ _ _ PU MT (proj2 (in_tc_true 5 8 _) TC)).
Qed.

(** and the row a surface squitter creates has no altitude either *)
Theorem surface_new_row o now s line s' rf a m :
  step_line o now s line = Ok (s', rf, Applied 17 a) ->
  lookup (tbl s) a = None -> (0 < delete_after o)%Z -> get_message line = Ok (Some m) ->
  5 <= field m 33 37 <= 8 ->
  exists r', lookup (tbl s') a = Some r' /\ r_altitude r' = None.
Proof.
  intros H L D G TC.
  destruct (new_row_core _ _ _ _ _ _ _ _ _ H L D G) as (F & GD & GI & d & DM & L').
  destruct (df17_frame m F GD) as (W & L28 & MT).
  eexists. split; [exact L'|].
  destruct (new_row_squitter (observer o) now (relaxed o) m 17 d a F GD GI DM ltac:(tauto))
    as (r1 & PU & A).
  destruct (agree_fields _ _ A) as (_ & E & _). rewrite <- E.
  exact (plane_update_surface _ _ _ _ _ _ _ _ PU MT (proj2 (in_tc_true 5 8 _) TC)).
Qed.

(** ===================================================================================== *)
(** * C. Capability (CA, bits 6-8)                                                        *)
(** ===================================================================================== *)

Definition cap_ok (a : N) : bool := N.land a 7 =? field [0; a] 6 8.
Lemma cap_sweep : all1 cap_ok = true.
Proof. vm_compute. reflexivity. Qed.

Lemma get_capability_field m : wf m -> (2 <= List.length m)%nat ->
  get_capability m = Ok (field m 6 8).
Proof.
  intros W L. unfold get_capability. rewrite idx_nth by lia. cbn [bind].
  change (field m 6 8) with (field [0; nth 1 m 0] 6 8).
  pose proof (all1_sound cap_ok cap_sweep (nth 1 m 0) (wf_nth m 1 W)) as S.
  unfold cap_ok in S. apply N.eqb_eq in S. rewrite S. reflexivity.
Qed.

(** what the downlink path does with a DF11 record *)
Lemma srt_df11 m a s :
  get_downlink_format m = Ok (Some 11) -> get_icao m 11 = Ok (Some a) ->
  srt_from_message m = Ok s ->
  exists c, get_capability m = Ok c /\ s = mkSrt (Some 11) (Some a) None (Some c) None.
Proof.
  intros GD GI S. unfold srt_from_message in S. rewrite GD in S. cbn [bind] in S.
  rewrite GI in S. cbn [bind] in S.
  change (11 =? 4) with false in S. change (11 =? 5) with false in S.
  change (11 =? 11) with true in S. cbv iota in S.
  destruct (get_capability m) as [c|]; cbn [bind] in S; [|discriminate S].
  exists c. split; [reflexivity|]. apply ok_inj in S. symmetry. exact S.
Qed.

Lemma downlink_cap_df11 obs now r a c :
  cap_ca (update_from_downlink obs now r (DSrt (mkSrt (Some 11) (Some a) None (Some c) None))) = c.
Proof. reflexivity. Qed.

Lemma plane_update_cap_df11 obs now r m rel r' :
  plane_update obs now r m 11 rel = Ok r' -> exists c, get_capability m = Ok c /\ cap_ca r' = c.
Proof.
  intros PU. apply plane_update_short in PU; [|lia]. unfold update_from_bcast in PU.
  change ((11 =? 4) || (11 =? 20)) with false in PU. change ((11 =? 5) || (11 =? 21)) with false in PU.
  change ((11 =? 11) || (11 =? 17)) with true in PU. cbv iota in PU. cbn [bind] in PU.
  destruct (get_capability m) as [c|]; cbn [bind] in PU; [|discriminate PU].
  exists c. split; [reflexivity|]. apply ok_inj in PU. subst r'. reflexivity.
Qed.

(** C1. DF11 (all-call reply / acquisition squitter): CA is recorded, on both paths *)
Theorem capability_df11 o now s line s' rf a r m :
  step_line o now s line = Ok (s', rf, Applied 11 a) ->
  lookup (tbl s) a = Some r -> (0 < delete_after o)%Z -> get_message line = Ok (Some m) ->
  exists r', lookup (tbl s') a = Some r' /\ cap_ca r' = field m 6 8.
Proof.
  intros H L D G.
  destruct (existing_row_core _ _ _ _ _ _ _ _ _ _ H L D G) as (F & GD & GI & d & r' & DM & L' & RS).
  destruct (frame_wf_len8 m F) as [W L8].
  pose proof (get_capability_field m W ltac:(lia)) as GC.
  exists r'. split; [exact L'|]. destruct RS as [[_ ->]|[_ PU]].
  - destruct (dl_short m 11 d GD ltac:(lia) DM) as (sr & -> & S).
    destruct (srt_df11 m a sr GD GI S) as (c & GC' & ->).
    rewrite GC in GC'. apply ok_inj in GC'. subst c. apply downlink_cap_df11.
  - destruct (plane_update_cap_df11 _ _ _ _ _ _ PU) as (c & GC' & E).
    rewrite GC in GC'. apply ok_inj in GC'. congruence.
Qed.

(** ... and by the frame that creates the row *)
Theorem capability_df11_new_row o now s line s' rf a m :
  step_line o now s line = Ok (s', rf, Applied 11 a) ->
  lookup (tbl s) a = None -> (0 < delete_after o)%Z -> get_message line = Ok (Some m) ->
  exists r', lookup (tbl s') a = Some r' /\ cap_ca r' = field m 6 8.
Proof.
  intros H L D G.
  destruct (new_row_core _ _ _ _ _ _ _ _ _ H L D G) as (F & GD & GI & d & DM & L').
  destruct (frame_wf_len8 m F) as [W L8].
  pose proof (get_capability_field m W ltac:(lia)) as GC.
  eexists. split; [exact L'|].
  destruct (dl_short m 11 d GD ltac:(lia) DM) as (sr & -> & S).
  destruct (srt_df11 m a sr GD GI S) as (c & GC' & ->).
  rewrite GC in GC'. apply ok_inj in GC'. subst c. apply downlink_cap_df11.
Qed.

(** C2. DF17: Plane::update copies CA from every extended squitter, the downlink path decodes it
    ([e_cap]) and never stores it *)
Lemma fp_ext_no_cap_ca tc st : memf F_cap_ca (fp_ext tc st) = false.
Proof.
  unfold fp_ext. cbn [memf]. destruct (fld_eq_dec F_cap_ca F_last_tc) as [E|_]; [discriminate E|].
  destruct (in_tc 1 4 tc); [reflexivity|]. destruct (in_tc 5 8 tc); [reflexivity|].
  destruct (in_tc 9 18 tc); [reflexivity|].
  destruct (tc =? 19).
  { unfold fp_ext19. destruct ((st =? 1) || (st =? 2)); destruct ((st =? 3) || (st =? 4)); reflexivity. }
  destruct (in_tc 20 22 tc); [reflexivity|]. destruct (tc =? 31); reflexivity.
Qed.

Lemma plane_update_cap_df17 obs now r m rel r' :
  plane_update obs now r m 17 rel = Ok r' -> exists c, get_capability m = Ok c /\ cap_ca r' = c.
Proof.
  intros PU. destruct (plane_update_ext _ _ _ _ _ _ PU) as (c & GC & U).
  exists c. split; [exact GC|].
  destruct (get_message_type m) as [[tc st]|] eqn:MT.
  - pose proof (update_from_ext_fp _ _ _ _ _ _ _ MT U F_cap_ca (fp_ext_no_cap_ca tc st)) as S.
    cbn [same] in S. rewrite <- S. reflexivity.
  - unfold update_from_ext in U. rewrite MT in U. discriminate U.
Qed.

Lemma downlink_cap_ext obs now r e :
  cap_ca (update_from_downlink obs now r (DExt e)) = cap_ca r.
Proof.
  symmetry. apply (update_from_downlink_fp obs now r (DExt e) F_cap_ca).
  unfold fp_downlink. rewrite memf_app. cbn [memf orb].
  destruct (fld_eq_dec F_cap_ca F_timestamp) as [E|_]; [discriminate E|].
  destruct (fld_eq_dec F_cap_ca F_last_df) as [E|_]; [discriminate E|].
  exact (fp_ext_no_cap_ca (fst (e_mt e)) (snd (e_mt e))).
Qed.

Theorem capability_df17 o now s line s' rf a r m :
  step_line o now s line = Ok (s', rf, Applied 17 a) ->
  lookup (tbl s) a = Some r -> (0 < delete_after o)%Z -> get_message line = Ok (Some m) ->
  exists r', lookup (tbl s') a = Some r' /\
    cap_ca r' = if use_update o then field m 6 8 else cap_ca r.
Proof.
  intros H L D G.
  destruct (existing_row_core _ _ _ _ _ _ _ _ _ _ H L D G) as (F & GD & GI & d & r' & DM & L' & RS).
  destruct (frame_wf_len8 m F) as [W L8].
  pose proof (get_capability_field m W ltac:(lia)) as GC.
  exists r'. split; [exact L'|]. destruct RS as [[B ->]|[B PU]].
  - change (17 <? 20) with true in B. cbn [andb] in B. apply negb_true_iff in B. rewrite B.
    destruct (dl_ext m d GD DM) as (e & -> & _). apply downlink_cap_ext.
  - change (17 <? 20) with true in B. cbn [andb] in B. apply negb_false_iff in B. rewrite B.
    destruct (plane_update_cap_df17 _ _ _ _ _ _ PU) as (c & GC' & E).
    rewrite GC in GC'. apply ok_inj in GC'. congruence.
Qed.

(** a row created by an extended squitter has CA = 0, whatever the frame says (so without -U an
    aircraft that is only heard on DF17 never passes the [3 < cap_ca] gate of the Comm-B decoder) *)
Theorem capability_df17_new_row o now s line s' rf a :
  step_line o now s line = Ok (s', rf, Applied 17 a) ->
  lookup (tbl s) a = None -> (0 < delete_after o)%Z ->
  exists r', lookup (tbl s') a = Some r' /\ cap_ca r' = 0.
Proof.
  intros H L D.
  destruct (step_line_new_row _ _ _ _ _ _ _ _ H L D) as (m & d & GM & F & GD & GI & DM & L').
  eexists. split; [exact L'|].
  destruct (dl_ext m d GD DM) as (e & -> & _).
  rewrite row_from_downlink_row0, downlink_cap_ext. reflexivity.
Qed.

(** ===================================================================================== *)
(** * D. The two stamps: time of last contact and last format                             *)
(** ===================================================================================== *)

Lemma fp_bcast_no_last_df df : memf F_last_df (fp_bcast df) = false.
Proof. unfold fp_bcast. split_ifs; reflexivity. Qed.

Lemma fp_ext_no_last_df tc st : memf F_last_df (fp_ext tc st) = false.
Proof.
  unfold fp_ext. cbn [memf]. destruct (fld_eq_dec F_last_df F_last_tc) as [E|_]; [discriminate E|].
  destruct (in_tc 1 4 tc); [reflexivity|]. destruct (in_tc 5 8 tc); [reflexivity|].
  destruct (in_tc 9 18 tc); [reflexivity|].
  destruct (tc =? 19).
  { unfold fp_ext19. destruct ((st =? 1) || (st =? 2)); destruct ((st =? 3) || (st =? 4)); reflexivity. }
  destruct (in_tc 20 22 tc); [reflexivity|]. destruct (tc =? 31); reflexivity.
Qed.

Lemma fp_srt_no_last_df s : memf F_last_df (fp_srt s) = false.
Proof.
  unfold fp_srt. destruct (s_df s) as [[|p]|]; try reflexivity.
  repeat (destruct p as [p|p|]; try reflexivity).
Qed.

(** Plane::update records the format it is called with *)
Theorem plane_update_last_df obs now r m df rel r' :
  plane_update obs now r m df rel = Ok r' -> last_df r' = df.
Proof.
  unfold plane_update. intros H.
  stage_r H r1 E1. apply update_from_bcast_fp in E1.
  stage_r H r2 E2.
  assert (last_df r2 = last_df r1) as T2.
  { destruct ((df =? 17) || (df =? 18)).
    - destruct (get_message_type m) as [[tc st]|] eqn:T.
      + symmetry. exact (update_from_ext_fp _ _ _ _ _ _ _ T E2 F_last_df (fp_ext_no_last_df tc st)).
      + unfold update_from_ext in E2. rewrite T in E2. discriminate E2.
    - apply ok_inj in E2. subst r2. reflexivity. }
  assert (last_df r' = last_df r2) as T3.
  { destruct ((rel || (3 <? cap_ca r2)) && ((df =? 20) || (df =? 21))).
    - symmetry. exact (update_from_mode_s_fp _ _ _ _ H F_last_df eq_refl).
    - apply ok_inj in H. subst r'. reflexivity. }
  rewrite T3, T2. rewrite <- (E1 F_last_df (fp_bcast_no_last_df df)). reflexivity.
Qed.

(** the downlink path records the format of the decoded record -- if it has one *)
Theorem update_from_downlink_last_df obs now r d :
  last_df (update_from_downlink obs now r d) = match dl_df d with Some df => df | None => last_df r end.
Proof.
  unfold update_from_downlink. cbv zeta.
  set (r1 := match dl_df d with Some df => _ | None => _ end).
  assert (last_df r1 = match dl_df d with Some df => df | None => last_df r end) as T1
    by (subst r1; destruct (dl_df d); reflexivity).
  clearbody r1. destruct d as [sr|e|df ic].
  - rewrite <- (update_from_srt_dl_fp r1 sr F_last_df (fp_srt_no_last_df sr)). exact T1.
  - rewrite <- (update_from_ext_dl_fp obs r1 e F_last_df (fp_ext_no_last_df _ _)). exact T1.
  - destruct ic; exact T1.
Qed.

(** the format of the record DF::from_message builds: DF0-17 and DF20/21 carry theirs, every other
    format (DF18, DF19, DF22 and above) is turned into an EMPTY short record *)
Definition dl_keeps_df (df : N) : bool := (df <=? 17) || (df =? 20) || (df =? 21).

Lemma dl_df_exact m df a d :
  get_downlink_format m = Ok (Some df) -> get_icao m df = Ok (Some a) ->
  df_from_message m = Ok (Some d) ->
  dl_df d = if dl_keeps_df df then Some df else None.
Proof.
  intros GD GI DM. unfold dl_keeps_df.
  destruct (df <=? 16) eqn:E16.
  { apply N.leb_le in E16.
    destruct (dl_short m df d GD E16 DM) as (sr & -> & S). cbn [dl_df].
    rewrite (srt_from_message_df m df sr GD S).
    assert ((df <=? 17) = true) as E by (apply N.leb_le; lia). rewrite E. reflexivity. }
  apply N.leb_gt in E16.
  destruct (df =? 17) eqn:E17.
  { apply N.eqb_eq in E17. subst df.
    destruct (dl_ext m d GD DM) as (e & -> & S). cbn [dl_df].
    rewrite (ext_from_message_df m 17 e GD S). reflexivity. }
  apply N.eqb_neq in E17.
  assert ((df <=? 17) = false) as E by (apply N.leb_gt; lia). rewrite E. cbn [orb].
  destruct ((df =? 20) || (df =? 21)) eqn:E20.
  { assert (df = 20 \/ df = 21) as C.
    { apply orb_prop in E20. destruct E20 as [X|X]; apply N.eqb_eq in X; tauto. }
    rewrite (dl_commb m df a d GD GI C DM). reflexivity. }
  unfold df_from_message in DM. rewrite GD in DM. cbn [bind] in DM.
  assert ((df <=? 16) = false) as E16' by (apply N.leb_gt; exact E16).
  assert ((df =? 17) = false) as E17' by (apply N.eqb_neq; exact E17).
  rewrite E16', E17', E20 in DM. apply ok_inj in DM. apply some_inj in DM. subst d. reflexivity.
Qed.

(** D1. existing row.  The time stamp is always the current time.  The format is recorded by
    Plane::update always, by the downlink path for DF0-17; a DF18 or DF19 frame without -U
    refreshes the row but leaves [last_df] at the format of the previous frame. *)
Theorem stamps_existing_row o now s line s' rf df a r :
  step_line o now s line = Ok (s', rf, Applied df a) ->
  lookup (tbl s) a = Some r -> (0 < delete_after o)%Z ->
  exists r', lookup (tbl s') a = Some r' /\ timestamp r' = now /\
    last_df r' = if negb (use_update o) && ((df =? 18) || (df =? 19)) then last_df r else df.
Proof.
  intros H L D.
  destruct (step_line_existing_row _ _ _ _ _ _ _ _ _ H L D)
    as (m & d & GM & F & GD & GI & DM & r' & L' & RS).
  exists r'. split; [exact L'|]. split.
  { destruct (refresh _ _ _ _ _ _ _ _ H D) as (r2 & L2 & T2).
    rewrite (lookup_fun _ _ _ _ L' L2). exact T2. }
  destruct RS as [[B ->]|[B PU]].
  - apply andb_prop in B. destruct B as [B1 B2]. rewrite B2. cbn [andb].
    apply N.ltb_lt in B1.
    rewrite update_from_downlink_last_df, (dl_df_exact m df a d GD GI DM). unfold dl_keeps_df.
    assert ((df =? 20) = false) as E20 by (apply N.eqb_neq; lia).
    assert ((df =? 21) = false) as E21 by (apply N.eqb_neq; lia).
    rewrite E20, E21, !orb_false_r.
    destruct (df <=? 17) eqn:E17.
    + apply N.leb_le in E17.
      assert ((df =? 18) = false) as E18 by (apply N.eqb_neq; lia).
      assert ((df =? 19) = false) as E19 by (apply N.eqb_neq; lia).
      rewrite E18, E19. reflexivity.
    + apply N.leb_gt in E17.
      assert ((df =? 18) || (df =? 19) = true) as E.
      { apply orb_true_iff. rewrite !N.eqb_eq. lia. }
      rewrite E. reflexivity.
  - rewrite (plane_update_last_df _ _ _ _ _ _ _ PU).
    apply andb_false_iff in B. destruct B as [B|B].
    + apply N.ltb_ge in B.
      assert ((df =? 18) = false) as E18 by (apply N.eqb_neq; lia).
      assert ((df =? 19) = false) as E19 by (apply N.eqb_neq; lia).
      rewrite E18, E19, andb_false_r. reflexivity.
    + apply negb_false_iff in B. rewrite B. reflexivity.
Qed.

(** the statement one would like, with its exact side condition *)
Corollary stamps_existing_row_df o now s line s' rf df a r :
  step_line o now s line = Ok (s', rf, Applied df a) ->
  lookup (tbl s) a = Some r -> (0 < delete_after o)%Z ->
  use_update o = true \/ (df <> 18 /\ df <> 19) ->
  exists r', lookup (tbl s') a = Some r' /\ timestamp r' = now /\ last_df r' = df.
Proof.
  intros H L D C.
  destruct (stamps_existing_row _ _ _ _ _ _ _ _ _ H L D) as (r' & L' & T & LD).
  exists r'. split; [exact L'|]. split; [exact T|]. rewrite LD.
  destruct C as [U|[N18 N19]].
  - rewrite U. reflexivity.
  - apply N.eqb_neq in N18. apply N.eqb_neq in N19. rewrite N18, N19, andb_false_r. reflexivity.
Qed.

(** D2. new row: always the downlink path; formats other than DF0-17, DF20, DF21 leave the 0 of the
    empty row (shown as a blank DF column) *)
Theorem stamps_new_row o now s line s' rf df a :
  step_line o now s line = Ok (s', rf, Applied df a) ->
  lookup (tbl s) a = None -> (0 < delete_after o)%Z ->
  exists r', lookup (tbl s') a = Some r' /\ timestamp r' = now /\
    last_df r' = if dl_keeps_df df then df else 0.
Proof.
  intros H L D.
  destruct (step_line_new_row _ _ _ _ _ _ _ _ H L D) as (m & d & GM & F & GD & GI & DM & L').
  eexists. split; [exact L'|]. split; [apply row_from_downlink_timestamp|].
  rewrite row_from_downlink_row0, update_from_downlink_last_df, (dl_df_exact m df a d GD GI DM).
  destruct (dl_keeps_df df); reflexivity.
Qed.

(** ===================================================================================== *)
(** * E. The exception in D is real: a DF18 frame with good parity                        *)
(** ===================================================================================== *)

(** "*9540621D58C382D690C8AC932FC3;"  the DF17 frame of EndToEnd with the format changed to 18
    (first byte 95) and the parity recomputed (932FC3), address 40621D *)
Definition ex_line18 : list N :=
  [42; 57;53;52;48;54;50;49;68;53;56;67;51;56;50;68;54;57;48;67;56;65;67;57;51;50;70;67;51; 59].
Definition ex_m18 : list N :=
  [9;5;4;0;6;2;1;13;5;8;12;3;8;2;13;6;9;0;12;8;10;12;9;3;2;15;12;3].

(** a table with one row, last heard on DF17 *)
Definition ex2_state (a : N) : state :=
  mkState [(a, row_new 0%Z <| icao := a |> <| last_df := 17 |>)] (counters_new 0%Z 1%Z).
Definition ex2_empty : state := mkState [] (counters_new 0%Z 1%Z).

Definition stamps_after (u : bool) (s : state) (line : list N) (a : N) : option (line_outcome * Z * N) :=
  match step_line (ex_opts u) 1000%Z s line with
  | Ok (s', _, oc) =>
      match lookup (tbl s') a with Some r' => Some (oc, timestamp r', last_df r') | None => None end
  | Panic _ => None
  end.

(** the frame is read (parity good), the row is refreshed, and ... *)
Example df18_frame_ok : get_message ex_line18 = Ok (Some ex_m18).
Proof. vm_compute. reflexivity. Qed.
(** ... without -U the DF column still says 17 *)
Example df18_existing_default :
  stamps_after false (ex2_state 4219421) ex_line18 4219421 = Some (Applied 18 4219421, 1000%Z, 17).
Proof. vm_compute. reflexivity. Qed.
(** ... with -U it says 18 *)
Example df18_existing_U :
  stamps_after true (ex2_state 4219421) ex_line18 4219421 = Some (Applied 18 4219421, 1000%Z, 18).
Proof. vm_compute. reflexivity. Qed.
(** ... and a row created by it says 0, with or without -U *)
Example df18_new : forall u,
  stamps_after u ex2_empty ex_line18 4219421 = Some (Applied 18 4219421, 1000%Z, 0).
Proof. intros u. destruct u; vm_compute; reflexivity. Qed.

(** hence "every applied frame records its format" is FALSE of the model, for an existing row ... *)
Theorem last_df_existing_refuted :
  ~ (forall o now s line s' rf df a r,
       step_line o now s line = Ok (s', rf, Applied df a) ->
       lookup (tbl s) a = Some r -> (0 < delete_after o)%Z ->
       exists r', lookup (tbl s') a = Some r' /\ last_df r' = df).
Proof.
  intros ALL.
  destruct (step_line_total (ex_opts false) 1000%Z (ex2_state 4219421) ex_line18) as [[[s' rf] oc] E].
  pose proof (step_line_classify _ _ _ _ _ _ _ E) as C.
  assert (classify (ex_opts false) ex_line18 = Ok (Applied 18 4219421)) as C' by (vm_compute; reflexivity).
  rewrite C' in C. apply ok_inj in C. subst oc.
  assert (lookup (tbl (ex2_state 4219421)) 4219421 =
          Some (row_new 0%Z <| icao := 4219421 |> <| last_df := 17 |>)) as L by reflexivity.
  assert (0 < delete_after (ex_opts false))%Z as D by reflexivity.
  destruct (ALL _ _ _ _ _ _ _ _ _ E L D) as (r1 & L1 & X1).
  destruct (stamps_existing_row _ _ _ _ _ _ _ _ _ E L D) as (r2 & L2 & _ & X2).
  rewrite (lookup_fun _ _ _ _ L1 L2) in X1. rewrite X1 in X2.
  vm_compute in X2. discriminate X2.
Qed.

(** ... and for the frame that creates the row *)
Theorem last_df_new_refuted :
  ~ (forall o now s line s' rf df a,
       step_line o now s line = Ok (s', rf, Applied df a) ->
       lookup (tbl s) a = None -> (0 < delete_after o)%Z ->
       exists r', lookup (tbl s') a = Some r' /\ last_df r' = df).
Proof.
  intros ALL.
  destruct (step_line_total (ex_opts true) 1000%Z ex2_empty ex_line18) as [[[s' rf] oc] E].
  pose proof (step_line_classify _ _ _ _ _ _ _ E) as C.
  assert (classify (ex_opts true) ex_line18 = Ok (Applied 18 4219421)) as C' by (vm_compute; reflexivity).
  rewrite C' in C. apply ok_inj in C. subst oc.
  assert (lookup (tbl ex2_empty) 4219421 = None) as L by reflexivity.
  assert (0 < delete_after (ex_opts true))%Z as D by reflexivity.
  destruct (ALL _ _ _ _ _ _ _ _ E L D) as (r1 & L1 & X1).
  destruct (stamps_new_row _ _ _ _ _ _ _ _ E L D) as (r2 & L2 & _ & X2).
  rewrite (lookup_fun _ _ _ _ L1 L2) in X1. rewrite X1 in X2.
  vm_compute in X2. discriminate X2.
Qed.

(** ===================================================================================== *)
(** * Summary                                                                              *)
(** ===================================================================================== *)
Print Assumptions altitude_df17_new_row.
Print Assumptions altitude_df4_new_row.
Print Assumptions squawk_new_row.
Print Assumptions callsign_new_row.
Print Assumptions velocity_new_row.
Print Assumptions comm_b_new_row.
Print Assumptions comm_b_new_row_blank.
Print Assumptions surface_blanks_altitude.
Print Assumptions surface_new_row.
Print Assumptions capability_df11.
Print Assumptions capability_df11_new_row.
Print Assumptions capability_df17.
Print Assumptions capability_df17_new_row.
Print Assumptions plane_update_last_df.
Print Assumptions update_from_downlink_last_df.
Print Assumptions stamps_existing_row.
Print Assumptions stamps_existing_row_df.
Print Assumptions stamps_new_row.
Print Assumptions last_df_existing_refuted.
Print Assumptions last_df_new_refuted.
