(** Every entry of [tan_table] is a proved enclosure of tan(k degrees), and no integer ratio
    a/b with 1 <= b <= 1023 lies strictly inside an enclosure.

    Finding: the entry for k = 45 is (10^15, 10^15 + 1).  Its lower bound is NOT strict
    (tan 45deg = 1 = 10^15 / 10^15), so the strict claim in the header of Model/TanTable.v is
    false for that one entry; [le_tan] special-cases k = 45 and never reads it.  The strict
    theorem below therefore excludes k = 45, and [tan_table_weak] (lo <= tan < hi) covers
    all 89 entries. *)
From Coq Require Import Reals ZArith List Lia Lra Bool.
From Interval Require Import Tactic.
From SQ Require Import TanTable.
Import ListNotations.

(** * Indexed Forall over a list (index of the head given explicitly) *)

Fixpoint all_from {A} (P : nat -> A -> Prop) (k : nat) (t : list A) : Prop :=
  match t with
  | [] => True
  | x :: t' => P k x /\ all_from P (S k) t'
  end.

Fixpoint allb_from {A} (p : nat -> A -> bool) (k : nat) (t : list A) : bool :=
  match t with
  | [] => true
  | x :: t' => p k x && allb_from p (S k) t'
  end.

Lemma all_from_nth {A} (P : nat -> A -> Prop) : forall t k,
  all_from P k t -> forall i x, nth_error t i = Some x -> P (k + i)%nat x.
Proof.
  induction t as [|y t IH]; intros k H i x Hn.
  - destruct i; discriminate.
  - destruct H as [H0 H1]. destruct i as [|i]; simpl in Hn.
    + injection Hn as <-. now rewrite Nat.add_0_r.
    + rewrite <- plus_n_Sm. apply (IH (S k) H1 i x Hn).
Qed.

Lemma all_from_impl {A} (P Q : nat -> A -> Prop) : forall t k,
  (forall i x, P i x -> Q i x) -> all_from P k t -> all_from Q k t.
Proof.
  induction t as [|y t IH]; simpl; intros k HPQ H; [exact I|].
  destruct H as [H0 H1]. split; [now apply HPQ | now apply IH].
Qed.

Lemma all_from_and {A} (P Q : nat -> A -> Prop) : forall t k,
  all_from P k t -> all_from Q k t -> all_from (fun i x => P i x /\ Q i x) k t.
Proof.
  induction t as [|y t IH]; simpl; intros k HP HQ; [exact I|].
  destruct HP, HQ. repeat split; auto.
Qed.

Lemma allb_from_sound {A} (p : nat -> A -> bool) : forall t k,
  allb_from p k t = true -> all_from (fun i x => p i x = true) k t.
Proof.
  induction t as [|y t IH]; simpl; intros k H; [exact I|].
  apply andb_true_iff in H. destruct H as [H0 H1]. split; [exact H0 | now apply IH].
Qed.

(** * 1. The enclosures *)

(** strict enclosure, with the k = 45 entry described exactly instead *)
Definition entry_ok (k : nat) (e : Z * Z) : Prop :=
  let (lo, hi) := e in
  if Nat.eqb k 45 then (lo = tan_den /\ hi = tan_den + 1)%Z
  else (IZR lo / IZR tan_den < tan (IZR (Z.of_nat k) * PI / 180) < IZR hi / IZR tan_den)%R.

Lemma tan_table_entries : all_from entry_ok 1 tan_table.
Proof.
  cbv [all_from tan_table entry_ok Nat.eqb tan_den Z.of_nat Pos.of_succ_nat Pos.succ Z.add Pos.add].
  repeat (apply conj);
    try exact I; try reflexivity;
    interval with (i_prec 100).
Qed.

Lemma tan_table_length : length tan_table = 89%nat.
Proof. reflexivity. Qed.

(** the k-th entry (k counted from 1), k <> 45, strictly encloses tan(k degrees) *)
Theorem tan_table_ok : forall k lo hi,
  nth_error tan_table (k - 1) = Some (lo, hi) -> (1 <= k)%nat -> k <> 45%nat ->
  (IZR lo / IZR tan_den < tan (INR k * PI / 180) < IZR hi / IZR tan_den)%R.
Proof.
  intros k lo hi Hn Hk H45.
  pose proof (all_from_nth entry_ok _ _ tan_table_entries _ _ Hn) as H.
  replace (1 + (k - 1))%nat with k in H by lia.
  unfold entry_ok in H.
  destruct (Nat.eqb_spec k 45) as [E|_]; [contradiction|].
  now rewrite INR_IZR_INZ.
Qed.

(** the 45th entry: lower bound equal to tan 45deg = 1, hence not strict *)
Lemma tan_table_45 : nth_error tan_table 44 = Some (tan_den, (tan_den + 1)%Z).
Proof. reflexivity. Qed.

Lemma tan_deg45 : tan (INR 45 * PI / 180) = 1%R.
Proof.
  rewrite INR_IZR_INZ. simpl Z.of_nat.
  replace (45 * PI / 180)%R with (PI / 4)%R by field. apply tan_PI4.
Qed.

Lemma IZR_tan_den_pos : (0 < IZR tan_den)%R.
Proof. apply IZR_lt. reflexivity. Qed.

(** all 89 entries: lo / den <= tan(k deg) < hi / den *)
Theorem tan_table_weak : forall k lo hi,
  nth_error tan_table (k - 1) = Some (lo, hi) -> (1 <= k)%nat ->
  (IZR lo / IZR tan_den <= tan (INR k * PI / 180) < IZR hi / IZR tan_den)%R.
Proof.
  intros k lo hi Hn Hk.
  destruct (Nat.eq_dec k 45) as [->|H45].
  - change (45 - 1)%nat with 44%nat in Hn. rewrite tan_table_45 in Hn. injection Hn as <- <-. rewrite tan_deg45.
    unfold tan_den. simpl (_ + _)%Z. lra.
  - destruct (tan_table_ok k lo hi Hn Hk H45). split; [now left | assumption].
Qed.

(** * 2. Gap check: no a/b with 1 <= b <= 1023 strictly inside an enclosure (k <> 45) *)

Fixpoint forall_b (n : nat) (p : Z -> bool) : bool :=
  match n with
  | O => true
  | S n' => p (Z.of_nat n) && forall_b n' p
  end.

Lemma forall_b_sound p : forall n, forall_b n p = true ->
  forall b, (1 <= b <= Z.of_nat n)%Z -> p b = true.
Proof.
  induction n as [|n IH]; intros H b Hb; [simpl in Hb; lia|].
  cbn [forall_b] in H. apply andb_true_iff in H. destruct H as [H0 H1].
  destruct (Z.eq_dec b (Z.of_nat (S n))) as [->|Hne]; [exact H0|].
  apply IH; [exact H1 | lia].
Qed.

(** for fixed (lo, hi, b): no multiple of den strictly between lo*b and hi*b *)
Definition gap1 (lo hi b : Z) : bool := ((hi * b - 1) / tan_den <=? (lo * b) / tan_den)%Z.

Lemma gap1_sound lo hi b : gap1 lo hi b = true ->
  forall a : Z, ~ (lo * b < a * tan_den < hi * b)%Z.
Proof.
  unfold gap1. intros H a [H1 H2]. apply Z.leb_le in H.
  assert (Hd : (0 < tan_den)%Z) by reflexivity.
  assert (Ha : (a <= (hi * b - 1) / tan_den)%Z)
    by (apply Z.div_le_lower_bound; [exact Hd | lia]).
  assert (Hb : ((lo * b) / tan_den < a)%Z)
    by (apply Z.div_lt_upper_bound; [exact Hd | lia]).
  lia.
Qed.

Definition gap_entry (k : nat) (e : Z * Z) : bool :=
  let (lo, hi) := e in
  if Nat.eqb k 45 then true else forall_b 1023 (gap1 lo hi).

Lemma gap_check_true : allb_from gap_entry 1 tan_table = true.
Proof. vm_cast_no_check (eq_refl true). Qed.

Definition gap_free (k : nat) (e : Z * Z) : Prop :=
  k <> 45%nat -> forall a b : Z, (1 <= b <= 1023)%Z ->
  ~ (fst e * b < a * tan_den < snd e * b)%Z.

Lemma gap_entry_sound k e : gap_entry k e = true -> gap_free k e.
Proof.
  destruct e as [lo hi]. unfold gap_entry, gap_free. intros H H45 a b Hb.
  destruct (Nat.eqb_spec k 45) as [E|_]; [contradiction|].
  apply gap1_sound. apply (forall_b_sound _ 1023%nat H). exact Hb.
Qed.

Lemma tan_table_gaps : all_from gap_free 1 tan_table.
Proof.
  apply all_from_impl with (P := fun k e => gap_entry k e = true).
  - exact gap_entry_sound.
  - exact (allb_from_sound gap_entry tan_table 1%nat gap_check_true).
Qed.

Theorem tan_table_gap_free : forall k lo hi,
  nth_error tan_table (k - 1) = Some (lo, hi) -> (1 <= k)%nat -> k <> 45%nat ->
  forall a b : Z, (1 <= b <= 1023)%Z -> ~ (lo * b < a * tan_den < hi * b)%Z.
Proof.
  intros k lo hi Hn Hk H45.
  pose proof (all_from_nth gap_free _ _ tan_table_gaps _ _ Hn) as H.
  replace (1 + (k - 1))%nat with k in H by lia.
  exact (H H45).
Qed.

Print Assumptions tan_table_ok.
Print Assumptions tan_table_gap_free.
