(** Frame-level theorems: CRC of the model = polynomial long division of the standard's bit
    fields; address recovery; the parity gate; what get_message accepts. *)
From SQ Require Import Base RangeSpec Frame CrcSpec CrcProof TotalDecode TotalPipeline.
Local Open Scope N_scope.

Lemma field_split m a b c : (a <= b)%nat -> (b < c)%nat ->
  field m a c = field m a b * 2 ^ N.of_nat (c - b) + field m (S b) c.
Proof.
  intros H1 H2. unfold field.
  replace (S c - a)%nat with ((S b - a) + (c - b))%nat by lia.
  rewrite bv_comp. rewrite bv_lin.
  replace (a + (S b - a))%nat with (S b) by lia.
  replace (S c - S b)%nat with (c - b)%nat by lia. reflexivity.
Qed.

Lemma field_1_88 m : field m 1 88 = field m 1 32 * 2 ^ 56 + field m 33 64 * 2 ^ 24 + field m 65 88.
Proof.
  rewrite (field_split m 1 32 88) by lia. rewrite (field_split m 33 64 88) by lia.
  change (N.of_nat (88 - 32)) with 56. change (N.of_nat (88 - 64)) with 24.
  change (2 ^ 56) with (2 ^ 32 * 2 ^ 24). lia.
Qed.

Lemma field_lt m sb eb k : k = N.of_nat (S eb - sb) -> field m sb eb < 2 ^ k.
Proof. intros ->. apply field_bound. Qed.

(** ---- CRC of the model = long division over the standard's fields ---- *)
Theorem crc112_field m : wf m -> List.length m = 28%nat -> crc112 m = Ok (crc_spec (field m 1 88) 88).
Proof.
  intros W L. rewrite field_1_88.
  apply crc112_spec; try (apply range_value_spec; [exact W | lia | lia | rewrite L; lia | lia]);
    apply field_lt; reflexivity.
Qed.

Theorem crc56_field m : wf m -> (8 <= List.length m)%nat -> crc56 m = Ok (crc_spec (field m 1 32) 32).
Proof.
  intros W L. apply crc56_spec; [apply range_value_spec; [exact W | lia | lia | lia | lia] | apply field_lt; reflexivity].
Qed.

(** ---- address recovery (C03) ---- *)
Definition addr_spec (m : list N) (df : N) : N :=
  if ap_format df then
    if df <=? 15 then N.lxor (field m 33 56) (crc_spec (field m 1 32) 32)
    else N.lxor (field m 89 112) (crc_spec (field m 1 88) 88)
  else field m 9 32.

Theorem get_icao_spec m df : frame_ok m -> (df < 16 <-> List.length m = 14%nat) ->
  get_icao m df = Ok (nonzero (Some (addr_spec m df))).
Proof.
  intros [W [[L H0]|[L H0]]] D; unfold get_icao, addr_spec; destruct (ap_format df) eqn:A.
  - rewrite L. cbn [Nat.mul Nat.ltb Nat.leb Nat.sub].
    assert (df <=? 15 = true) as E by (apply N.leb_le; destruct D as [_ D]; specialize (D L); lia).
    rewrite E. change (14 * 4 - 23)%nat with 33%nat. change (14 * 4)%nat with 56%nat.
    rewrite range_value_spec by (try exact W; try rewrite L; lia). cbn [bind].
    unfold get_crc. rewrite E. rewrite crc56_field by (try exact W; lia). reflexivity.
  - rewrite range_value_spec by (try exact W; try rewrite L; lia). reflexivity.
  - rewrite L. cbn [Nat.mul Nat.ltb Nat.leb Nat.sub].
    assert (df <=? 15 = false) as E.
    { apply N.leb_gt. destruct (N.lt_ge_cases df 16) as [X|X]; [|lia].
      destruct D as [D _]. specialize (D X). lia. }
    rewrite E. change (28 * 4 - 23)%nat with 89%nat. change (28 * 4)%nat with 112%nat.
    rewrite range_value_spec by (try exact W; try rewrite L; lia). cbn [bind].
    unfold get_crc. rewrite E. rewrite crc112_field by assumption. reflexivity.
  - rewrite range_value_spec by (try exact W; try rewrite L; lia). reflexivity.
Qed.

(** ---- the parity gate (C04) ---- *)
Definition df11_mask_ : N := 16777088.
Definition parity_part (df : N) (syn : N) : N :=
  match df with
  | 17 | 18 => syn
  | 11 => N.land syn df11_mask_
  | _ => 0
  end.

Lemma syndrome_fields frame a b n : b < 2 ^ 24 -> frame = a * 2 ^ 24 + b ->
  syndrome frame n = N.lxor (crc_spec a (n - 24)) b.
Proof.
  intros B ->. unfold syndrome.
  rewrite N.div_add_l by (apply N.pow_nonzero; discriminate).
  rewrite N.div_small by exact B. rewrite N.add_0_r.
  rewrite N.add_comm, N.mod_add by (apply N.pow_nonzero; discriminate).
  rewrite N.mod_small by exact B. reflexivity.
Qed.

Theorem reminder_spec_28 m : wf m -> List.length m = 28%nat ->
  reminder m = Ok (parity_part (field m 1 5) (syndrome (field m 1 112) 112)).
Proof.
  intros W L. unfold reminder. rewrite L. rewrite crc112_field by assumption. cbn [bind].
  change (112 - 23)%nat with 89%nat.
  rewrite !range_value_spec by (try exact W; try rewrite L; lia). cbn [bind expect].
  rewrite (syndrome_fields (field m 1 112) (field m 1 88) (field m 89 112) 112);
    [| apply field_lt; reflexivity | rewrite (field_split m 1 88 112) by lia; reflexivity].
  change (112 - 24)%nat with 88%nat.
  unfold parity_part, df11_mask_.
  destruct (field m 1 5) as [|p]; [reflexivity|].
  repeat (destruct p as [p|p|]; try reflexivity).
Qed.

Theorem reminder_spec_14 m : wf m -> List.length m = 14%nat ->
  reminder m = Ok (parity_part (field m 1 5) (syndrome (field m 1 56) 56)).
Proof.
  intros W L. unfold reminder. rewrite L. rewrite crc56_field by (try exact W; lia). cbn [bind].
  change (56 - 23)%nat with 33%nat.
  rewrite !range_value_spec by (try exact W; try rewrite L; lia). cbn [bind expect].
  rewrite (syndrome_fields (field m 1 56) (field m 1 32) (field m 33 56) 56);
    [| apply field_lt; reflexivity | rewrite (field_split m 1 32 56) by lia; reflexivity].
  change (56 - 24)%nat with 32%nat.
  unfold parity_part, df11_mask_.
  destruct (field m 1 5) as [|p]; [reflexivity|].
  repeat (destruct p as [p|p|]; try reflexivity).
Qed.

(** the whole-frame value and its parity verdict *)
Definition frame_bits (m : list N) : nat := (4 * List.length m)%nat.
Definition parity_ok (m : list N) : Prop :=
  parity_part (field m 1 5) (syndrome (field m 1 (frame_bits m)) (frame_bits m)) = 0.

(** get_message accepts exactly: 14|28 payload digits (after dropping a 12-digit prefix from
    26|40), DF/length agreement, and the parity condition of the format *)
Definition payload (line : list N) : option (list N) := clean_squitter line.

Theorem get_message_iff line p :
  get_message line = Ok (Some p) <->
  payload line = Some p /\ frame_ok p /\ parity_ok p.
Proof.
  unfold get_message, payload.
  destruct (clean_squitter line) as [m|] eqn:C; [|split; [discriminate | intros [X _]; discriminate]].
  destruct (clean_squitter_len _ _ C) as [W Len].
  assert (forall q, parity_ok q -> List.length q = 14%nat ->
            parity_part (field q 1 5) (syndrome (field q 1 56) 56) = 0) as P14.
  { intros q Q Lq. unfold parity_ok, frame_bits in Q. rewrite Lq in Q. exact Q. }
  assert (forall q, parity_ok q -> List.length q = 28%nat ->
            parity_part (field q 1 5) (syndrome (field q 1 112) 112) = 0) as P28.
  { intros q Q Lq. unfold parity_ok, frame_bits in Q. rewrite Lq in Q. exact Q. }
  destruct Len as [L|L]; rewrite L; cbn [Nat.eqb orb negb].
  - rewrite idx_nth by (rewrite L; lia). cbn [bind].
    destruct (nth 0 m 0 <? 8) eqn:E0; cbn [Bool.eqb negb].
    + rewrite reminder_spec_14 by assumption. cbn [bind].
      destruct (parity_part _ _ =? 0) eqn:P.
      * apply N.eqb_eq in P. split; [intros H; inversion H; subst p|intros [H _]; inversion H; reflexivity].
        split; [reflexivity|]. split.
        -- split; [exact W|]. left. split; [exact L | apply N.ltb_lt; exact E0].
        -- unfold parity_ok, frame_bits. rewrite L. exact P.
      * apply N.eqb_neq in P. split; [discriminate|]. intros [H [_ Q]]. inversion H; subst p.
        exfalso. apply P. apply P14; assumption.
    + split; [discriminate|]. intros [H [[_ [[_ X]|[X _]]] _]]; inversion H; subst p.
      * apply N.ltb_ge in E0. lia.
      * rewrite L in X. discriminate.
  - rewrite idx_nth by (rewrite L; lia). cbn [bind].
    destruct (nth 0 m 0 <? 8) eqn:E0; cbn [Bool.eqb negb].
    + split; [discriminate|]. intros [H [[_ [[X _]|[_ X]]] _]]; inversion H; subst p.
      * rewrite L in X. discriminate.
      * apply N.ltb_lt in E0. lia.
    + rewrite reminder_spec_28 by assumption. cbn [bind].
      destruct (parity_part _ _ =? 0) eqn:P.
      * apply N.eqb_eq in P. split; [intros H; inversion H; subst p|intros [H _]; inversion H; reflexivity].
        split; [reflexivity|]. split.
        -- split; [exact W|]. right. split; [exact L | apply N.ltb_ge; exact E0].
        -- unfold parity_ok, frame_bits. rewrite L. exact P.
      * apply N.eqb_neq in P. split; [discriminate|]. intros [H [_ Q]]. inversion H; subst p.
        exfalso. apply P. apply P28; assumption.
Qed.

(** a DF17/18 frame is accepted only with zero syndrome; a DF11 frame only with the upper 17 bits zero *)
Corollary accepted_squitter_parity line m :
  get_message line = Ok (Some m) ->
  (field m 1 5 = 17 \/ field m 1 5 = 18 -> syndrome (field m 1 (frame_bits m)) (frame_bits m) = 0) /\
  (field m 1 5 = 11 -> N.land (syndrome (field m 1 (frame_bits m)) (frame_bits m)) df11_mask_ = 0).
Proof.
  intros H. apply get_message_iff in H. destruct H as [_ [_ P]]. unfold parity_ok in P.
  split; [intros [E|E] | intros E]; rewrite E in P; exact P.
Qed.

(** the result depends only on the digit sequence *)
Theorem get_message_digits l l' : digits l = digits l' -> get_message l = get_message l'.
Proof. intros H. unfold get_message, clean_squitter. rewrite H. reflexivity. Qed.

(** ---- consequences at the level of the reader loop ---- *)
From SQ Require Import Table TableProofs.

Lemma step_line_rejected o now s line :
  get_message line = Ok None -> step_line o now s line = Ok (s, false, Skipped).
Proof. intros H. unfold step_line. rewrite H. reflexivity. Qed.

Lemma step_line_digits o now s l l' :
  digits l = digits l' -> step_line o now s l = step_line o now s l'.
Proof. intros H. unfold step_line. rewrite (get_message_digits l l' H). reflexivity. Qed.

Lemma bad_parity_inert o now s line p :
  payload line = Some p -> ~ parity_ok p -> step_line o now s line = Ok (s, false, Skipped).
Proof.
  intros P N. apply step_line_rejected.
  destruct (get_message_total line) as [r [G _]]. rewrite G. f_equal.
  destruct r as [q|]; [|reflexivity]. exfalso.
  apply get_message_iff in G. destruct G as [P' [_ Q]]. rewrite P in P'. inversion P'; subst. contradiction.
Qed.

Lemma lxor_syndrome_detect f e n : syndrome f n = 0 -> syndrome e n <> 0 -> syndrome (N.lxor f e) n <> 0.
Proof. intros F E. rewrite syndrome_lxor, F, N.lxor_0_l. exact E. Qed.

Lemma clean_match (n : nat) (x y : option (list N)) :
  match n with
  | 14%nat | 28%nat => x
  | 26%nat | 40%nat => y
  | _ => None
  end = if (Nat.eqb n 14 || Nat.eqb n 28)%bool then x
        else if (Nat.eqb n 26 || Nat.eqb n 40)%bool then y else None.
Proof. do 41 (destruct n as [|n]; [reflexivity|]). reflexivity. Qed.

Lemma payload_spec line p :
  payload line = Some p <->
  ((List.length (digits line) = 14%nat \/ List.length (digits line) = 28%nat) /\ p = digits line) \/
  ((List.length (digits line) = 26%nat \/ List.length (digits line) = 40%nat) /\ p = skipn 12 (digits line)).
Proof.
  unfold payload, clean_squitter. cbv zeta. rewrite clean_match.
  set (n := List.length (digits line)).
  destruct (Nat.eqb n 14) eqn:E14; [apply Nat.eqb_eq in E14|apply Nat.eqb_neq in E14];
  destruct (Nat.eqb n 28) eqn:E28; [apply Nat.eqb_eq in E28|apply Nat.eqb_neq in E28| apply Nat.eqb_eq in E28|apply Nat.eqb_neq in E28];
  cbn [orb]; try (split; [intros H; inversion H; left; split; [tauto | reflexivity]
                         | intros [[_ ->]|[[X|X] _]]; [reflexivity | lia | lia]]).
  destruct (Nat.eqb n 26) eqn:E26; [apply Nat.eqb_eq in E26|apply Nat.eqb_neq in E26];
  destruct (Nat.eqb n 40) eqn:E40; [apply Nat.eqb_eq in E40|apply Nat.eqb_neq in E40| apply Nat.eqb_eq in E40|apply Nat.eqb_neq in E40];
  cbn [orb]; try (split; [intros H; inversion H; right; split; [tauto | reflexivity]
                         | intros [[[X|X] _]|[_ ->]]; [lia | lia | reflexivity]]).
  split; [discriminate | intros [[[X|X] _]|[[X|X] _]]; lia].
Qed.

Lemma hexval_spec b v :
  hexval b = Some v <->
  (48 <= b <= 57 /\ v = b - 48) \/ (65 <= b <= 70 /\ v = b - 55) \/ (97 <= b <= 102 /\ v = b - 87).
Proof.
  unfold hexval.
  destruct (48 <=? b) eqn:A1; destruct (b <=? 57) eqn:A2; cbn [andb];
  destruct (65 <=? b) eqn:B1; destruct (b <=? 70) eqn:B2; cbn [andb];
  destruct (97 <=? b) eqn:C1; destruct (b <=? 102) eqn:C2; cbn [andb];
  repeat match goal with
  | H : (_ <=? _) = true |- _ => apply N.leb_le in H
  | H : (_ <=? _) = false |- _ => apply N.leb_gt in H
  end;
  (split; [intros H; inversion H; subst; lia | intros [[? ->]|[[? ->]|[? ->]]]; try reflexivity; lia]).
Qed.
