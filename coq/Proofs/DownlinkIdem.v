(** Idempotence on the downlink path: applying the same decoded downlink twice (same observer,
    same time) gives the same row as applying it once.  Holds for all three kinds of downlink,
    including the position squitters: the second pass stores the same CPR slot with the same
    time stamp, so the pairing decision and the decoded position are the same. *)
From SQ Require Import Base Update Footprint.
Local Open Scope N_scope.

Lemma downlink_idem_srt obs now r s :
  update_from_downlink obs now (update_from_downlink obs now r (DSrt s)) (DSrt s)
  = update_from_downlink obs now r (DSrt s).
Proof.
  destruct s as [d i q c a].
  destruct d as [[|p]|]; [| do 4 (try destruct p as [p|p|]) |].
  all: destruct r, i, q, c, a; vm_compute; reflexivity.
Qed.

Lemma downlink_idem_mds obs now r df ic :
  update_from_downlink obs now (update_from_downlink obs now r (DMds df ic)) (DMds df ic)
  = update_from_downlink obs now r (DMds df ic).
Proof. destruct r, df, ic; vm_compute; reflexivity. Qed.

(** [update_position] = a decision that reads only the CPR slots, then a write of the position
    fields; the decision (CPR arithmetic, range checks) stays opaque below *)
Definition pos_write (obs : option (Q * Q)) (k : option (Q * Q)) (y : row) : row :=
  match k with
  | Some (la, lo) =>
      let r := y <| lat := la |> <| lon := lo |> in
      let r := match obs with
               | Some (ola, olo) => r <| dist := Some (la, lo, ola, olo) |>
               | None => r end in
      r <| position_t := Some (timestamp r) |>
  | None => y
  end.

Definition pos_decide (r : row) (tc form : N) : option (Q * Q) :=
  if negb (cpr_lat0 r =? 0) && negb (cpr_lat1 r =? 0) && negb (cpr_lon0 r =? 0)
     && negb (cpr_lon1 r =? 0) && Bool.eqb (cpr_s0 r) (cpr_s1 r)
     && (Z.abs (num_seconds (cpr_t0 r) (cpr_t1 r)) <? 10)%Z
  then
    match (if in_tc 5 8 tc then cpr_location (cpr_lat0 r) (cpr_lat1 r) (cpr_lon0 r) (cpr_lon1 r) form 4
           else if in_tc 9 18 tc then cpr_location (cpr_lat0 r) (cpr_lat1 r) (cpr_lon0 r) (cpr_lon1 r) form 1
           else None) with
    | Some (la, lo) =>
        if Qle_bool (-90) la && Qle_bool la 90 && Qle_bool (-180) lo && Qle_bool lo 180
        then Some (la, lo) else None
    | None => None
    end
  else None.

Lemma update_position_write obs r tc form :
  update_position obs r tc form = pos_write obs (pos_decide r tc form) r.
Proof.
  unfold update_position, pos_decide, pos_write.
  destruct (_ && _ && _ && _ && _ && _)%bool; [|reflexivity].
  destruct (if in_tc 5 8 tc then _ else _) as [[la lo]|]; [|reflexivity].
  destruct (_ && _ && _ && _)%bool; reflexivity.
Qed.

Definition cpr_key (r : row) :=
  (cpr_lat0 r, cpr_lat1 r, cpr_lon0 r, cpr_lon1 r, cpr_s0 r, cpr_s1 r, cpr_t0 r, cpr_t1 r).

Lemma pos_decide_ext r r' tc form :
  cpr_key r = cpr_key r' -> pos_decide r tc form = pos_decide r' tc form.
Proof.
  unfold cpr_key. intros K. injection K as A B C D E F G H.
  unfold pos_decide. rewrite A, B, C, D, E, F, G, H. reflexivity.
Qed.

Lemma downlink_idem_ext obs now r e :
  update_from_downlink obs now (update_from_downlink obs now r (DExt e)) (DExt e)
  = update_from_downlink obs now r (DExt e).
Proof.
  destruct e as [edf eic ecap [tc st] eais ecpr egm egs etr etrs ehd ealt eald eagn evr ess ever].
  (* one level at a time: name the first result, expose the tests of both levels and split them
     together (each test is on the type code / subtype only, so it has the same value twice) *)
  remember (update_from_downlink obs now r _) as r1 eqn:E. revert E.
  unfold update_from_downlink, update_from_ext_dl, amend_from_ext_19, amend_cpr, store_cpr.
  cbv beta iota zeta delta [fst snd dl_df is_some ochar e_df e_icao e_mt e_ais e_alt_delta e_vrate e_track
     e_grspeed e_heading e_alt_gnss e_ss e_version e_cpr e_gm e_altitude e_track_source].
  repeat (match goal with
    | |- context [in_tc ?a ?b tc] => destruct (in_tc a b tc)
    | |- context [tc =? ?a] => destruct (tc =? a)
    | |- context [st =? ?a] => destruct (st =? a) end; cbv beta iota delta [orb]).
  (* leaves: keep the GNSS height arithmetic opaque, split the optional payload fields and the
     CPR format bit *)
  all: intros E; subst r1; generalize gnss_of; intros g;
    repeat match goal with |- context [match ?x with _ => _ end] => is_var x; destruct x end;
    cbv beta iota zeta;
    repeat (match goal with |- context [?f =? 1] => is_var f; destruct (f =? 1) end; cbv beta iota).
  (* position leaves: the second decision reads the same CPR slots as the first *)
  all: rewrite ?update_position_write.
  all: try match goal with |- _ = pos_write _ (pos_decide ?Y ?t ?fm) ?Y =>
     match goal with |- pos_write _ (pos_decide ?Y' _ _) _ = _ =>
        rewrite (pos_decide_ext Y' Y t fm)
          by (generalize (pos_decide Y t fm); intros k;
              destruct r, k as [[? ?]|], obs as [[? ?]|]; vm_compute; reflexivity) end;
     generalize (pos_decide Y t fm); intros k;
     destruct k as [[? ?]|], obs as [[? ?]|] end.
  (* what is left are setter chains over a concrete record (the 7th field is the stored
     altitude read by the TC19 branch) *)
  all: destruct r;
    match goal with |- context [mkRow _ _ _ _ _ _ ?a] => destruct a end;
    vm_compute; reflexivity.
Qed.

Theorem downlink_idempotent : forall obs now r d,
  update_from_downlink obs now (update_from_downlink obs now r d) d
  = update_from_downlink obs now r d.
Proof.
  intros obs now r [s|e|df ic];
    [apply downlink_idem_srt | apply downlink_idem_ext | apply downlink_idem_mds].
Qed.

Print Assumptions downlink_idempotent.
