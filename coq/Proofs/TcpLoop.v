(** The TCP connection loop with its retry pauses (src/reader.rs connect_and_read_tcp). *)
From SQ Require Import Base Table Display TableProofs TotalPipeline.
Local Open Scope N_scope.

Definition delivered (e : conn_event) : list (list N) :=
  match e with Refused => [] | Delivered bs _ => [bs] end.

Definition failed (e : conn_event) : bool :=
  match e with Delivered _ true => false | _ => true end.

(** the loop never stops and never panics, whatever the sequence of faults *)
Theorem tcp_loop_total o now : forall evs t, exists t' ps, run_tcp_loop o now t evs = Ok (t', ps).
Proof.
  induction evs as [|e rest IH]; intros t; cbn [run_tcp_loop]; [eexists; eexists; reflexivity|].
  assert (exists t1, match e with Refused => Ok t | Delivered bs _ => read_lines o now t bs end = Ok t1) as [t1 E].
  { destruct e as [|bs c]; [eexists; reflexivity | apply read_lines_total]. }
  rewrite E. cbn [bind]. destruct (IH t1) as [t2 [ps R]]. rewrite R. cbn [bind].
  eexists; eexists; reflexivity.
Qed.

(** the table at the end is the fold of read_lines over the byte strings that were delivered:
    refused attempts and pauses do not touch it, a reset keeps what was read before it *)
Theorem tcp_loop_table o now : forall evs t t' ps,
  run_tcp_loop o now t evs = Ok (t', ps) ->
  run_tcp_table o now t (List.concat (map delivered evs)) = Ok t'.
Proof.
  induction evs as [|e rest IH]; intros t t' ps H; cbn [run_tcp_loop] in H.
  - inversion H; subst. reflexivity.
  - cbn [map List.concat].
    destruct e as [|bs c]; cbn [delivered app bind] in *.
    + destruct (run_tcp_loop o now t rest) as [[t2 ps2]|] eqn:R; cbn [bind] in H; [|discriminate].
      inversion H; subst. eapply IH. exact R.
    + cbn [run_tcp_table]. destruct (read_lines o now t bs) as [t1|]; cbn [bind] in *; [|discriminate].
      destruct (run_tcp_loop o now t1 rest) as [[t2 ps2]|] eqn:R; cbn [bind] in H; [|discriminate].
      inversion H; subst. eapply IH. exact R.
Qed.

(** the schedule: one pause per attempt; 5 s after every failed attempt (refused, or ended by a
    read error), none after a connection the peer closed cleanly *)
Theorem tcp_loop_pauses o now : forall evs t t' ps,
  run_tcp_loop o now t evs = Ok (t', ps) ->
  ps = map (fun e => if failed e then 5 else 0) evs.
Proof.
  induction evs as [|e rest IH]; intros t t' ps H; cbn [run_tcp_loop] in H.
  - inversion H; subst. reflexivity.
  - destruct (match e with Refused => Ok t | Delivered bs _ => read_lines o now t bs end) as [t1|]; cbn [bind] in H; [|discriminate].
    destruct (run_tcp_loop o now t1 rest) as [[t2 ps2]|] eqn:R; cbn [bind] in H; [|discriminate].
    inversion H; subst. cbn [map]. f_equal; [|eapply IH; exact R].
    destruct e as [|bs [|]]; reflexivity.
Qed.

Corollary tcp_retry_after_failure o now evs t t' ps k e :
  run_tcp_loop o now t evs = Ok (t', ps) -> nth_error evs k = Some e -> failed e = true ->
  nth_error ps k = Some 5.
Proof.
  intros H E F. rewrite (tcp_loop_pauses _ _ _ _ _ _ H).
  rewrite nth_error_map, E. cbn [option_map]. rewrite F. reflexivity.
Qed.

Corollary tcp_no_pause_after_clean_close o now evs t t' ps k bs :
  run_tcp_loop o now t evs = Ok (t', ps) -> nth_error evs k = Some (Delivered bs true) ->
  nth_error ps k = Some 0.
Proof.
  intros H E. rewrite (tcp_loop_pauses _ _ _ _ _ _ H).
  rewrite nth_error_map, E. reflexivity.
Qed.

(** a healthy connection after any sequence of faults is decoded into the table kept so far *)
Corollary tcp_resumes o now faults bs t :
  exists t1 t2 ps, run_tcp_loop o now t faults = Ok (t1, ps) /\
                   read_lines o now t1 bs = Ok t2 /\
                   run_tcp_loop o now t (faults ++ [Delivered bs true]) = Ok (t2, ps ++ [0]).
Proof.
  destruct (tcp_loop_total o now faults t) as [t1 [ps R]].
  destruct (read_lines_total o now t1 bs) as [t2 E].
  exists t1, t2, ps. split; [exact R|]. split; [exact E|].
  revert t t1 ps R E. induction faults as [|e rest IH]; intros t t1 ps R E; cbn [run_tcp_loop app] in *.
  - inversion R; subst. rewrite E. cbn [bind]. reflexivity.
  - destruct (match e with Refused => Ok t | Delivered bs0 _ => read_lines o now t bs0 end) as [t0|]; cbn [bind] in *; [|discriminate].
    destruct (run_tcp_loop o now t0 rest) as [[t3 ps3]|] eqn:R3; cbn [bind] in R; [|discriminate].
    inversion R; subst. rewrite (IH t0 t1 ps3 R3 E). cbn [bind app]. reflexivity.
Qed.

Print Assumptions tcp_loop_total.
Print Assumptions tcp_loop_table.
Print Assumptions tcp_loop_pauses.
Print Assumptions tcp_resumes.
