(** Byte-level form of the accepted-subsequence property (C13): a junk line inserted at any line
    boundary of the byte stream -- or left unterminated at its end -- changes nothing of what
    [read_lines] computes; sufficient byte-level conditions for a chunk to be junk. *)
From SQ Require Import Base Frame Line Table TableProofs TotalPipeline FrameProofs.
Local Open Scope N_scope.

(** ---- 1. structure of [split_lf] / [text_lines] ---- *)

(** a chunk without LF, followed by LF, is one line whatever is already accumulated *)
Lemma split_lf_app_lf_gen : forall a b cur, ~ In 10 a ->
  split_lf (a ++ 10 :: b) cur = (rev cur ++ a) :: split_lf b [].
Proof.
  induction a as [|x a IHa]; intros b cur Hnl.
  - cbn [app split_lf]. rewrite (N.eqb_refl 10), rev_append_rev, !app_nil_r. reflexivity.
  - cbn [app split_lf].
    assert (Hx : x <> 10) by (intros Hx; apply Hnl; left; exact Hx).
    assert (Ha : ~ In 10 a) by (intros Ha; apply Hnl; right; exact Ha).
    apply N.eqb_neq in Hx. rewrite Hx.
    rewrite (IHa b (x :: cur) Ha). cbn [rev]. rewrite <- app_assoc. reflexivity.
Qed.

Lemma split_lf_app_lf : forall a b, ~ In 10 a -> split_lf (a ++ 10 :: b) [] = a :: split_lf b [].
Proof. intros a b Hnl. rewrite (split_lf_app_lf_gen a b [] Hnl). reflexivity. Qed.

(** a chunk without LF and without a terminating LF is a line iff it is non-empty *)
Lemma split_lf_nolf_gen : forall a cur, ~ In 10 a ->
  split_lf a cur = match rev cur ++ a with [] => [] | _ :: _ => [rev cur ++ a] end.
Proof.
  induction a as [|x a IHa]; intros cur Hnl.
  - cbn [split_lf]. rewrite app_nil_r. destruct cur as [|c cur].
    + reflexivity.
    + rewrite rev_append_rev, app_nil_r.
      destruct (rev (c :: cur)) as [|y r] eqn:Er; [|reflexivity].
      apply (f_equal (@List.length N)) in Er. rewrite rev_length in Er. discriminate Er.
  - cbn [split_lf].
    assert (Hx : x <> 10) by (intros Hx; apply Hnl; left; exact Hx).
    assert (Ha : ~ In 10 a) by (intros Ha; apply Hnl; right; exact Ha).
    apply N.eqb_neq in Hx. rewrite Hx.
    rewrite (IHa (x :: cur) Ha). cbn [rev]. rewrite <- app_assoc. reflexivity.
Qed.

Lemma split_lf_nolf : forall a, ~ In 10 a ->
  split_lf a [] = match a with [] => [] | _ :: _ => [a] end.
Proof. intros a Hnl. rewrite (split_lf_nolf_gen a [] Hnl). reflexivity. Qed.

(** splitting commutes with concatenation at a line boundary *)
Lemma split_lf_boundary_gen : forall p post cur,
  split_lf (p ++ 10 :: post) cur = split_lf (p ++ [10]) cur ++ split_lf post [].
Proof.
  induction p as [|x p IHp]; intros post cur.
  - cbn [app split_lf]. rewrite (N.eqb_refl 10). reflexivity.
  - cbn [app split_lf]. destruct (x =? 10) eqn:Ex.
    + rewrite (IHp post []). reflexivity.
    + apply IHp.
Qed.

Definition at_boundary (pre : list N) : Prop := pre = [] \/ exists p, pre = p ++ [10].

Lemma split_lf_app : forall pre post, at_boundary pre ->
  split_lf (pre ++ post) [] = split_lf pre [] ++ split_lf post [].
Proof.
  intros pre post [Hpre | [p Hpre]]; subst pre.
  - reflexivity.
  - rewrite <- app_assoc. cbn [app]. apply split_lf_boundary_gen.
Qed.

Definition chunk_line (l : list N) : option (list N) :=
  if valid_utf8 l then Some (strip_cr l) else None.

Lemma text_lines_chunks : forall bs, text_lines bs = map chunk_line (split_lf bs []).
Proof. reflexivity. Qed.

Lemma text_lines_app : forall pre post, (pre = [] \/ exists p, pre = p ++ [10]) ->
  text_lines (pre ++ post) = text_lines pre ++ text_lines post.
Proof.
  intros pre post Hpre. rewrite !text_lines_chunks.
  rewrite (split_lf_app pre post Hpre). apply map_app.
Qed.

Lemma text_lines_one : forall a b, ~ In 10 a ->
  text_lines (a ++ 10 :: b) = chunk_line a :: text_lines b.
Proof.
  intros a b Hnl. rewrite !text_lines_chunks. rewrite (split_lf_app_lf a b Hnl). reflexivity.
Qed.

Lemma text_lines_last : forall a, ~ In 10 a ->
  text_lines a = match a with [] => [] | _ :: _ => [chunk_line a] end.
Proof.
  intros a Hnl. rewrite text_lines_chunks, (split_lf_nolf a Hnl).
  destruct a as [|x a]; reflexivity.
Qed.

(** the boundary predicate is preserved by appending a terminated chunk *)
Lemma at_boundary_snoc : forall pre a, at_boundary (pre ++ a ++ [10]).
Proof. intros pre a. right. exists (pre ++ a). rewrite app_assoc. reflexivity. Qed.

(** ---- 2. junk lines at the byte level ---- *)

Lemma run_lines_drop : forall o now s ls1 l ls2,
  effective o l = false ->
  run_lines o now s (ls1 ++ l :: ls2) = run_lines o now s (ls1 ++ ls2).
Proof.
  intros o now s ls1 l ls2 Hl.
  destruct (run_lines_total o now s (ls1 ++ l :: ls2)) as [s1 E1].
  destruct (run_lines_total o now s (ls1 ++ ls2)) as [s2 E2].
  pose proof (run_lines_filter o now _ s s1 E1) as F1.
  pose proof (run_lines_filter o now _ s s2 E2) as F2.
  rewrite filter_app in F1. cbn [filter] in F1. rewrite Hl in F1.
  rewrite filter_app in F2. rewrite F1 in F2. rewrite E1, E2. exact F2.
Qed.

Theorem junk_line_insertion : forall o now t pre junk post,
  (pre = [] \/ exists p, pre = p ++ [10]) -> ~ In 10 junk ->
  effective o (chunk_line junk) = false ->
  read_lines o now t (pre ++ junk ++ 10 :: post) = read_lines o now t (pre ++ post).
Proof.
  intros o now t pre junk post Hpre Hnl Hjunk. unfold read_lines.
  rewrite (text_lines_app pre (junk ++ 10 :: post) Hpre), (text_lines_one junk post Hnl).
  rewrite (text_lines_app pre post Hpre).
  rewrite (run_lines_drop o now _ (text_lines pre) (chunk_line junk) (text_lines post) Hjunk).
  reflexivity.
Qed.

Theorem junk_tail : forall o now t pre junk,
  (pre = [] \/ exists p, pre = p ++ [10]) -> ~ In 10 junk ->
  effective o (chunk_line junk) = false ->
  read_lines o now t (pre ++ junk) = read_lines o now t pre.
Proof.
  intros o now t pre junk Hpre Hnl Hjunk. unfold read_lines.
  rewrite (text_lines_app pre junk Hpre), (text_lines_last junk Hnl).
  destruct junk as [|x junk].
  - rewrite app_nil_r. reflexivity.
  - rewrite (run_lines_drop o now _ (text_lines pre) (chunk_line (x :: junk)) [] Hjunk).
    rewrite app_nil_r. reflexivity.
Qed.

(** the same for the whole final state (table and counters), which is what [read_lines] projects *)
Theorem junk_line_insertion_state : forall o now s pre junk post,
  (pre = [] \/ exists p, pre = p ++ [10]) -> ~ In 10 junk ->
  effective o (chunk_line junk) = false ->
  run_lines o now s (text_lines (pre ++ junk ++ 10 :: post)) =
  run_lines o now s (text_lines (pre ++ post)).
Proof.
  intros o now s pre junk post Hpre Hnl Hjunk.
  rewrite (text_lines_app pre (junk ++ 10 :: post) Hpre), (text_lines_one junk post Hnl).
  rewrite (text_lines_app pre post Hpre).
  apply run_lines_drop. exact Hjunk.
Qed.

(** ---- 3. byte-level sufficient conditions for a chunk to be junk ---- *)

Lemma not_utf8_ineffective : forall o l, valid_utf8 l = false -> effective o (chunk_line l) = false.
Proof. intros o l Hu. unfold chunk_line. rewrite Hu. reflexivity. Qed.

Lemma digits_app : forall a b, digits (a ++ b) = digits a ++ digits b.
Proof.
  unfold digits. induction a as [|x a IHa]; intros b; [reflexivity|].
  change ((x :: a) ++ b) with (x :: (a ++ b)). cbn [Frame.filter_map].
  destruct (hexval x) as [v|]; rewrite (IHa b); reflexivity.
Qed.

(** CR is not a hex digit, so stripping it does not change the digit sequence *)
Lemma digits_strip_cr : forall l, digits (strip_cr l) = digits l.
Proof.
  intros l. unfold strip_cr. rewrite rev_append_rev, app_nil_r.
  destruct (rev l) as [|c r] eqn:Er; [reflexivity|].
  assert (Hl : l = rev r ++ [c]).
  { rewrite <- (rev_involutive l), Er. reflexivity. }
  destruct (N.eq_dec c 13) as [Hc | Hc].
  - subst c. rewrite rev_append_rev, app_nil_r, Hl, digits_app.
    change (digits [13]) with (@nil N). rewrite app_nil_r. reflexivity.
  - destruct c as [|pc]; [reflexivity|].
    repeat (destruct pc as [pc|pc|]; try reflexivity). contradiction Hc. reflexivity.
Qed.

Definition frame_digit_count (n : nat) : Prop := (n = 14 \/ n = 28 \/ n = 26 \/ n = 40)%nat.

Lemma payload_none : forall line, ~ frame_digit_count (List.length (digits line)) ->
  payload line = None.
Proof.
  intros line Hn. destruct (payload line) as [p|] eqn:Ep; [|reflexivity].
  exfalso. apply Hn. apply payload_spec in Ep. unfold frame_digit_count.
  destruct Ep as [[[H|H] _]|[[H|H] _]]; rewrite H; tauto.
Qed.

Lemma classify_no_payload : forall o line, payload line = None -> classify o line = Ok Skipped.
Proof.
  intros o line Hp. unfold classify, get_message. unfold payload in Hp. rewrite Hp. reflexivity.
Qed.

(** the digit count decides alone, valid UTF-8 or not *)
Lemma digit_count_ineffective : forall o l,
  ~ frame_digit_count (List.length (digits l)) -> effective o (chunk_line l) = false.
Proof.
  intros o l Hn. unfold chunk_line. destruct (valid_utf8 l) eqn:Hu; [|reflexivity].
  cbn [effective]. rewrite (classify_no_payload o (strip_cr l)); [reflexivity|].
  apply payload_none. rewrite digits_strip_cr. exact Hn.
Qed.

Lemma wrong_digit_count_ineffective : forall o l, valid_utf8 l = true ->
  let n := List.length (digits (strip_cr l)) in
  (n <> 14 /\ n <> 28 /\ n <> 26 /\ n <> 40)%nat ->
  effective o (chunk_line l) = false.
Proof.
  intros o l _ n Hn. apply digit_count_ineffective.
  subst n. rewrite digits_strip_cr in Hn. unfold frame_digit_count. tauto.
Qed.

(** the hex digits as bytes: '0'-'9', 'A'-'F', 'a'-'f' *)
Definition hex_byte (b : N) : bool := inr 48 57 b || inr 65 70 b || inr 97 102 b.

Lemma hexval_hex_byte : forall b, hex_byte b = is_some (hexval b).
Proof.
  intros b. unfold hex_byte, inr, hexval.
  destruct ((48 <=? b) && (b <=? 57)); [reflexivity|].
  destruct ((65 <=? b) && (b <=? 70)); [reflexivity|].
  destruct ((97 <=? b) && (b <=? 102)); reflexivity.
Qed.

Lemma digits_length : forall l, List.length (digits l) = List.length (filter hex_byte l).
Proof.
  unfold digits. induction l as [|x l IHl]; cbn [Frame.filter_map filter]; [reflexivity|].
  rewrite hexval_hex_byte. destruct (hexval x) as [v|]; cbn [is_some List.length]; rewrite IHl; reflexivity.
Qed.

(** the number of hex-digit bytes decides *)
Lemma hex_count_ineffective : forall o l,
  let n := List.length (filter hex_byte l) in
  (n <> 14 /\ n <> 28 /\ n <> 26 /\ n <> 40)%nat -> effective o (chunk_line l) = false.
Proof.
  intros o l n Hn. apply digit_count_ineffective. rewrite digits_length.
  fold n. unfold frame_digit_count. tauto.
Qed.

Corollary empty_line_ineffective : forall o, effective o (chunk_line []) = false.
Proof. intros o. apply hex_count_ineffective. cbn [filter List.length]. repeat split; discriminate. Qed.

(** a line with a lone CR (CRLF line ending on an empty line) *)
Corollary cr_line_ineffective : forall o, effective o (chunk_line [13]) = false.
Proof. intros o. apply hex_count_ineffective.
  change (filter hex_byte [13]) with (@nil N). cbn [List.length]. repeat split; discriminate. Qed.

Corollary no_hex_ineffective : forall o l,
  (forall b, In b l -> hex_byte b = false) -> effective o (chunk_line l) = false.
Proof.
  intros o l Hl. apply hex_count_ineffective.
  assert (E : filter hex_byte l = []).
  { induction l as [|x l IHl]; cbn [filter]; [reflexivity|].
    rewrite (Hl x (or_introl eq_refl)). apply IHl. intros b Hb. apply Hl. right. exact Hb. }
  rewrite E. cbn [List.length]. repeat split; discriminate.
Qed.

Corollary too_many_hex_ineffective : forall o l,
  (40 < List.length (filter hex_byte l))%nat -> effective o (chunk_line l) = false.
Proof. intros o l Hl. apply hex_count_ineffective. cbv zeta. lia. Qed.

Corollary too_few_hex_ineffective : forall o l,
  (List.length (filter hex_byte l) < 14)%nat -> effective o (chunk_line l) = false.
Proof. intros o l Hl. apply hex_count_ineffective. cbv zeta. lia. Qed.

Lemma filter_length_bound : forall (f : N -> bool) l,
  (List.length (filter f l) <= List.length l)%nat.
Proof.
  intros f l. induction l as [|x l IHl]; cbn [filter List.length]; [lia|].
  destruct (f x); cbn [List.length]; lia.
Qed.

(** a short line is junk whatever its bytes are *)
Corollary short_line_ineffective : forall o l,
  (List.length l < 14)%nat -> effective o (chunk_line l) = false.
Proof.
  intros o l Hl. apply too_few_hex_ineffective.
  pose proof (filter_length_bound hex_byte l) as Hf. lia.
Qed.

(** ---- 4. any number of junk lines, anywhere ---- *)

(** a stream of LF-terminated segments; the flag marks a segment as junk *)
Fixpoint weave (segs : list (list N * bool)) : list N :=
  match segs with
  | [] => []
  | s :: r => fst s ++ 10 :: weave r
  end.

Lemma text_lines_weave : forall segs,
  Forall (fun s : list N * bool => ~ In 10 (fst s)) segs ->
  text_lines (weave segs) = map (fun s => chunk_line (fst s)) segs.
Proof.
  induction segs as [|s r IHr]; intros Hall; [reflexivity|].
  cbn [weave map]. inversion Hall as [|s0 r0 Hs Hr]; subst s0 r0.
  rewrite (text_lines_one (fst s) (weave r) Hs), (IHr Hr). reflexivity.
Qed.

Definition keep (s : list N * bool) : bool := negb (snd s).

Lemma filter_effective_weave : forall o segs,
  Forall (fun s : list N * bool => snd s = true -> effective o (chunk_line (fst s)) = false) segs ->
  filter (effective o) (map (fun s => chunk_line (fst s)) segs) =
  filter (effective o) (map (fun s => chunk_line (fst s)) (filter keep segs)).
Proof.
  induction segs as [|s r IHr]; intros Hall; [reflexivity|].
  inversion Hall as [|s0 r0 Hs Hr]; subst s0 r0.
  cbn [map filter]. unfold keep at 1. destruct (snd s) eqn:Es; cbn [negb].
  - rewrite (Hs eq_refl). apply IHr. exact Hr.
  - cbn [map filter]. rewrite (IHr Hr). reflexivity.
Qed.

(** state level: table and counters *)
Lemma weave_at_boundary : forall segs, at_boundary (weave segs).
Proof.
  intros segs. destruct segs as [|s r]; [left; reflexivity|]. right.
  revert s. induction r as [|s' r IHr]; intros s.
  - exists (fst s). reflexivity.
  - destruct (IHr s') as [p Hp]. exists (fst s ++ 10 :: p).
    cbn [weave] in Hp |- *. rewrite Hp, <- app_assoc. reflexivity.
Qed.

Theorem run_lines_weave : forall o now s0 segs,
  Forall (fun s : list N * bool =>
            ~ In 10 (fst s) /\ (snd s = true -> effective o (chunk_line (fst s)) = false)) segs ->
  run_lines o now s0 (text_lines (weave segs)) =
  run_lines o now s0 (text_lines (weave (filter (fun s => negb (snd s)) segs))).
Proof.
  intros o now s0 segs Hall.
  assert (Hnl : Forall (fun s : list N * bool => ~ In 10 (fst s)) segs).
  { eapply Forall_impl; [|exact Hall]. intros s [Hs _]. exact Hs. }
  assert (Hj : Forall (fun s : list N * bool =>
                         snd s = true -> effective o (chunk_line (fst s)) = false) segs).
  { eapply Forall_impl; [|exact Hall]. intros s [_ Hs]. exact Hs. }
  assert (Hnl' : Forall (fun s : list N * bool => ~ In 10 (fst s)) (filter keep segs)).
  { apply Forall_forall. intros s Hs. apply filter_In in Hs. destruct Hs as [Hs _].
    rewrite Forall_forall in Hnl. apply Hnl. exact Hs. }
  change (filter (fun s : list N * bool => negb (snd s)) segs) with (filter keep segs).
  rewrite (text_lines_weave segs Hnl), (text_lines_weave (filter keep segs) Hnl').
  destruct (run_lines_total o now s0 (map (fun s => chunk_line (fst s)) segs)) as [s1 E1].
  destruct (run_lines_total o now s0 (map (fun s => chunk_line (fst s)) (filter keep segs))) as [s2 E2].
  pose proof (run_lines_filter o now _ s0 s1 E1) as F1.
  pose proof (run_lines_filter o now _ s0 s2 E2) as F2.
  rewrite (filter_effective_weave o segs Hj) in F1. rewrite F1 in F2.
  rewrite E1, E2. exact F2.
Qed.

Theorem junk_lines_weave : forall o now t segs,
  Forall (fun s : list N * bool =>
            ~ In 10 (fst s) /\ (snd s = true -> effective o (chunk_line (fst s)) = false)) segs ->
  read_lines o now t (weave segs) =
  read_lines o now t (weave (filter (fun s => negb (snd s)) segs)).
Proof.
  intros o now t segs Hall. unfold read_lines.
  rewrite (run_lines_weave o now _ segs Hall). reflexivity.
Qed.

(** with an unterminated last chunk [last] after the woven segments (junk or not) *)
Theorem junk_lines_weave_last : forall o now t segs last,
  Forall (fun s : list N * bool =>
            ~ In 10 (fst s) /\ (snd s = true -> effective o (chunk_line (fst s)) = false)) segs ->
  read_lines o now t (weave segs ++ last) =
  read_lines o now t (weave (filter (fun s => negb (snd s)) segs) ++ last).
Proof.
  intros o now t segs last Hall. unfold read_lines.
  rewrite (text_lines_app _ last (weave_at_boundary segs)).
  rewrite (text_lines_app _ last (weave_at_boundary (filter (fun s => negb (snd s)) segs))).
  rewrite !run_lines_app. rewrite (run_lines_weave o now _ segs Hall). reflexivity.
Qed.

(** sanity: CRLF junk, a non-UTF-8 chunk and an unterminated tail around one frame *)
Example junk_bytes_example :
  text_lines ([35; 13; 10] ++ [255; 254; 10] ++ [56; 68; 10] ++ [120]) =
  [Some [35]; None; Some [56; 68]; Some [120]].
Proof. vm_compute. reflexivity. Qed.

(** the line-boundary hypothesis on [pre] is needed: in the middle of a line the inserted LF
    splits that line in two *)
Example boundary_needed :
  text_lines ([56] ++ [] ++ 10 :: [68]) <> text_lines ([56] ++ [68]).
Proof. vm_compute. discriminate. Qed.

Print Assumptions junk_line_insertion.
Print Assumptions junk_tail.
Print Assumptions junk_line_insertion_state.
Print Assumptions run_lines_weave.
Print Assumptions junk_lines_weave.
Print Assumptions junk_lines_weave_last.
Print Assumptions wrong_digit_count_ineffective.
Print Assumptions short_line_ineffective.
