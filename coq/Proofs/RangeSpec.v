(** Functional correctness of the bit-range extractors of Model/Nibbles.v against the
    specification-level reading [bit_at] / [field] of Proofs/Base.v, for ALL frames
    (no enumeration of frames; the only finite sweeps are over a single nibble). *)
From SQ Require Export Base.
Local Open Scope N_scope.

(** ---------- nibble-local view of [bits_value] ---------- *)

Definition nbit (x : N) (s : nat) : N := N.land (N.shiftr x (N.of_nat (3 - s))) 1.

Fixpoint nb (x : N) (s n : nat) (acc : N) : N :=
  match n with
  | O => acc
  | S n' => nb x (S s) n' (2 * acc + nbit x s)
  end.

(** the arithmetic reading of the model's accumulator step *)
Definition hexstep (a z : N) : N := a * 16 + z.

Lemma bit_at_nib m q s : (s < 4)%nat -> bit_at m (4 * q + s + 1) = nbit (nth q m 0) s.
Proof.
  intros Hs. unfold bit_at, nbit.
  replace (4 * q + s + 1 - 1)%nat with (s + q * 4)%nat by lia.
  rewrite Nat.div_add, Nat.mod_add by lia.
  rewrite Nat.div_small, Nat.mod_small by lia. reflexivity.
Qed.

Lemma bits_value_nb m q : forall n s acc, (s + n <= 4)%nat ->
  bits_value m (4 * q + s + 1) n acc = nb (nth q m 0) s n acc.
Proof.
  induction n as [|n IH]; intros s acc H; cbn [bits_value nb]; [reflexivity|].
  rewrite bit_at_nib by lia.
  replace (S (4 * q + s + 1)) with (4 * q + S s + 1)%nat by lia.
  apply IH. lia.
Qed.

(** ---------- algebra of [bits_value] ---------- *)

Lemma pow2_succ n : 2 ^ N.of_nat (S n) = 2 * 2 ^ N.of_nat n.
Proof. rewrite Nat2N.inj_succ. apply N.pow_succ_r'. Qed.

Lemma pow2_add a b : 2 ^ N.of_nat (a + b) = 2 ^ N.of_nat a * 2 ^ N.of_nat b.
Proof. rewrite Nat2N.inj_add. apply N.pow_add_r. Qed.

Lemma pow2_mono a b : (a <= b)%nat -> 2 ^ N.of_nat a <= 2 ^ N.of_nat b.
Proof. intros H. apply N.pow_le_mono_r; lia. Qed.

Lemma bv_lin m : forall n sb acc,
  bits_value m sb n acc = acc * 2 ^ N.of_nat n + bits_value m sb n 0.
Proof.
  induction n as [|n IH]; intros sb acc; cbn [bits_value].
  - change (N.of_nat 0) with 0. rewrite N.pow_0_r. lia.
  - rewrite (IH (S sb) (2 * acc + bit_at m sb)).
    rewrite (IH (S sb) (2 * 0 + bit_at m sb)).
    rewrite pow2_succ. lia.
Qed.

Lemma bit_at_lt2 m k : bit_at m k < 2.
Proof.
  unfold bit_at. change 1 with (N.ones 1). rewrite N.land_ones.
  apply N.mod_lt. discriminate.
Qed.

Lemma bv_bound m : forall n sb, bits_value m sb n 0 < 2 ^ N.of_nat n.
Proof.
  induction n as [|n IH]; intros sb; cbn [bits_value].
  - reflexivity.
  - rewrite bv_lin. rewrite pow2_succ.
    pose proof (IH (S sb)) as B. pose proof (bit_at_lt2 m sb) as B2.
    assert (P : 0 < 2 ^ N.of_nat n) by (apply N.neq_0_lt_0, N.pow_nonzero; discriminate).
    nia.
Qed.

Lemma field_bound m sb eb : field m sb eb < 2 ^ N.of_nat (S eb - sb).
Proof. unfold field. apply bv_bound. Qed.

Lemma bv_comp m : forall n1 n2 sb acc,
  bits_value m sb (n1 + n2) acc = bits_value m (sb + n1) n2 (bits_value m sb n1 acc).
Proof.
  induction n1 as [|n1 IH]; intros n2 sb acc.
  - cbn [bits_value Nat.add]. rewrite Nat.add_0_r. reflexivity.
  - cbn [bits_value Nat.add]. rewrite IH.
    replace (S sb + n1)%nat with (sb + S n1)%nat by lia. reflexivity.
Qed.

(** ---------- single-nibble sweeps ---------- *)

Ltac nib_cases x H :=
  apply in_nibs in H; unfold nibs in H; cbn [In] in H;
  repeat (destruct H as [H | H]; [subst x | ]); [ .. | contradiction ].

Lemma nb_same x s e : x < 16 -> (s <= e)%nat -> (e < 4)%nat ->
  N.shiftr (N.land x (N.shiftr 15 (N.of_nat s))) (N.of_nat (3 - e)) = nb x s (e - s + 1) 0.
Proof.
  intros H Hse He.
  destruct s as [|[|[|[|s]]]]; try lia;
  destruct e as [|[|[|[|e]]]]; try lia;
  nib_cases x H; vm_compute; reflexivity.
Qed.

Lemma nb_head x s : x < 16 -> (s < 4)%nat ->
  N.land x (N.shiftr 15 (N.of_nat s)) = nb x s (4 - s) 0.
Proof.
  intros H Hs.
  destruct s as [|[|[|[|s]]]]; try lia;
  nib_cases x H; vm_compute; reflexivity.
Qed.

Lemma nb_tail y e : y < 16 -> (e < 4)%nat ->
  N.shiftr y (N.of_nat (3 - e)) = nb y 0 (e + 1) 0.
Proof.
  intros H He.
  destruct e as [|[|[|[|e]]]]; try lia;
  nib_cases y H; vm_compute; reflexivity.
Qed.

Lemma nb_full x : x < 16 -> nb x 0 4 0 = x.
Proof. intros H. nib_cases x H; vm_compute; reflexivity. Qed.

Lemma nb_bound x s n : (s + n <= 4)%nat -> nb x s n 0 < 2 ^ N.of_nat n.
Proof.
  intros H. pose proof (bits_value_nb [x] 0 n s 0 H) as E. cbn [nth] in E.
  rewrite <- E. apply bv_bound.
Qed.

(** ---------- the middle nibbles ---------- *)

Lemma skipn_nth_cons (m : list N) : forall j, (j < List.length m)%nat ->
  skipn j m = nth j m 0 :: skipn (S j) m.
Proof.
  induction m as [|a m IH]; intros j H; cbn [List.length] in H; [lia|].
  destruct j as [|j]; [reflexivity|].
  cbn [skipn nth]. rewrite IH by lia. reflexivity.
Qed.

Lemma bv_mid m : wf m -> forall k j a, (j + k <= List.length m)%nat ->
  bits_value m (4 * j + 1) (4 * k) a = fold_left hexstep (firstn k (skipn j m)) a.
Proof.
  intros W. induction k as [|k IH]; intros j a H.
  - reflexivity.
  - replace (4 * S k)%nat with (4 + 4 * k)%nat by lia.
    rewrite bv_comp.
    replace (4 * j + 1 + 4)%nat with (4 * S j + 1)%nat by lia.
    rewrite IH by lia.
    rewrite (skipn_nth_cons m j) by lia. cbn [firstn fold_left].
    f_equal. rewrite bv_lin.
    replace (4 * j + 1)%nat with (4 * j + 0 + 1)%nat by lia.
    rewrite bits_value_nb by lia. rewrite nb_full by (apply wf_nth; exact W).
    reflexivity.
Qed.

(** ---------- machine operations as arithmetic ---------- *)

Lemma land_shl_low a b n : b < 2 ^ n -> N.land (a * 2 ^ n) b = 0.
Proof.
  intros H. apply N.bits_inj. intros i. rewrite N.land_spec, N.bits_0.
  destruct (N.lt_ge_cases i n) as [L | L].
  - rewrite N.mul_pow2_bits_low by exact L. reflexivity.
  - rewrite <- (N.mod_small b (2 ^ n)) by exact H.
    rewrite N.mod_pow2_bits_high by exact L. apply andb_false_r.
Qed.

Lemma lor_shl_add a b n : b < 2 ^ n -> N.lor (a * 2 ^ n) b = a * 2 ^ n + b.
Proof.
  intros H. pose proof (land_shl_low a b n H) as Z.
  rewrite <- N.lxor_lor by exact Z. symmetry. apply N.add_nocarry_lxor. exact Z.
Qed.

Lemma shl32_small a n : a * 2 ^ n < 4294967296 -> shl32 a n = a * 2 ^ n.
Proof.
  intros H. unfold shl32. rewrite N.shiftl_mul_pow2.
  change 4294967295 with (N.ones 32). rewrite N.land_ones.
  apply N.mod_small. exact H.
Qed.

Lemma lor_shl32 a b n : a * 2 ^ n < 4294967296 -> b < 2 ^ n ->
  N.lor (shl32 a n) b = a * 2 ^ n + b.
Proof. intros Ha Hb. rewrite shl32_small by exact Ha. apply lor_shl_add. exact Hb. Qed.

Lemma land15 z : z < 16 -> N.land z 15 = z.
Proof.
  intros H. change 15 with (N.ones 4). rewrite N.land_ones. apply N.mod_small. exact H.
Qed.

Lemma model_step a z : a * 16 < 4294967296 -> z < 16 ->
  N.lor (shl32 a 4) (N.land z 15) = hexstep a z.
Proof.
  intros Ha Hz. rewrite land15 by exact Hz.
  change 16 with (2 ^ 4) in Ha.
  rewrite lor_shl32; [reflexivity | exact Ha | exact Hz].
Qed.

Lemma fold_model : forall (l : list N) a b,
  Forall (fun x => x < 16) l -> a < 2 ^ N.of_nat b -> (b + 4 * List.length l <= 32)%nat ->
  fold_left (fun a z => N.lor (shl32 a 4) (N.land z 15)) l a = fold_left hexstep l a.
Proof.
  induction l as [|z l IH]; intros a b W Ha Hb; [reflexivity|].
  cbn [fold_left]. cbn [List.length] in Hb.
  inversion W as [|z' l' Hz Wl]; subst.
  assert (B : hexstep a z < 2 ^ N.of_nat (b + 4)).
  { rewrite pow2_add. change (2 ^ N.of_nat 4) with 16. unfold hexstep. lia. }
  assert (B32 : 2 ^ N.of_nat (b + 4) <= 4294967296).
  { change 4294967296 with (2 ^ N.of_nat 32). apply pow2_mono. lia. }
  rewrite model_step; [ | unfold hexstep in B; lia | exact Hz ].
  apply (IH _ (b + 4)%nat); [exact Wl | exact B | lia].
Qed.

Lemma Forall_firstn {A} (P : A -> Prop) (l : list A) : forall n, Forall P l -> Forall P (firstn n l).
Proof.
  induction l as [|x l IH]; intros n H; destruct n; cbn [firstn]; try constructor.
  - inversion H; assumption.
  - apply IH. inversion H; assumption.
Qed.

Lemma Forall_skipn {A} (P : A -> Prop) (l : list A) : forall n, Forall P l -> Forall P (skipn n l).
Proof.
  induction l as [|x l IH]; intros n H; destruct n; cbn [skipn]; try assumption.
  apply IH. inversion H; assumption.
Qed.

(** ---------- decomposition of a multi-nibble field ---------- *)

Lemma bv_split m sby sbi eby ebi :
  wf m -> (sbi < 4)%nat -> (ebi < 4)%nat -> (sby < eby)%nat -> (eby < List.length m)%nat ->
  bits_value m (4 * sby + sbi + 1) (4 * eby + ebi - (4 * sby + sbi) + 1) 0 =
  fold_left hexstep (firstn (eby - sby - 1) (skipn (sby + 1) m))
            (nb (nth sby m 0) sbi (4 - sbi) 0) * 2 ^ N.of_nat (ebi + 1)
  + nb (nth eby m 0) 0 (ebi + 1) 0.
Proof.
  intros W Hs He Hlt Hlen.
  replace (4 * eby + ebi - (4 * sby + sbi) + 1)%nat
    with ((4 - sbi) + (4 * (eby - sby - 1) + (ebi + 1)))%nat by lia.
  rewrite bv_comp, bv_comp.
  rewrite (bits_value_nb m sby (4 - sbi) sbi 0) by lia.
  replace (4 * sby + sbi + 1 + (4 - sbi))%nat with (4 * (sby + 1) + 1)%nat by lia.
  rewrite (bv_mid m W) by lia.
  replace (4 * (sby + 1) + 1 + 4 * (eby - sby - 1))%nat with (4 * eby + 0 + 1)%nat by lia.
  rewrite bv_lin. rewrite bits_value_nb by lia. reflexivity.
Qed.

(** ---------- main theorem ---------- *)

Lemma range_value_core m sby sbi eby ebi :
  wf m -> (sbi < 4)%nat -> (ebi < 4)%nat ->
  (4 * sby + sbi <= 4 * eby + ebi)%nat -> (eby < List.length m)%nat ->
  (4 * eby + ebi - (4 * sby + sbi) < 32)%nat ->
  range_value m (4 * sby + sbi + 1) (4 * eby + ebi + 1) =
  Ok (Some (bits_value m (4 * sby + sbi + 1) (4 * eby + ebi - (4 * sby + sbi) + 1) 0)).
Proof.
  intros W Hs He Hle Hlen H32.
  unfold range_value.
  replace (4 * sby + sbi + 1)%nat with (S (sbi + sby * 4)) by lia.
  replace (4 * eby + ebi + 1)%nat with (S (ebi + eby * 4)) by lia.
  cbn [bit_location bind].
  rewrite !Nat.div_add, !Nat.mod_add by lia.
  rewrite !Nat.div_small, !Nat.mod_small by lia.
  change (0 + sby)%nat with sby. change (0 + eby)%nat with eby.
  replace (S (sbi + sby * 4)) with (4 * sby + sbi + 1)%nat by lia.
  assert (C : ((eby <? sby)%nat || ((eby =? sby)%nat && (ebi <? sbi)%nat))%bool = false).
  { apply orb_false_iff. split; [apply Nat.ltb_ge; lia|].
    destruct (Nat.eqb_spec eby sby) as [E|E]; [|reflexivity].
    cbn [andb]. apply Nat.ltb_ge. lia. }
  rewrite C. clear C.
  pose proof (wf_nth m sby W) as Hx. pose proof (wf_nth m eby W) as Hy.
  assert (Hsby : (sby < List.length m)%nat) by lia.
  rewrite (idx_nth m sby Hsby). cbn [bind].
  destruct (eby - sby)%nat as [|[|k]] eqn:E.
  - (* same nibble *)
    assert (eby = sby) by lia. subst eby.
    do 2 f_equal.
    replace (4 * sby + ebi - (4 * sby + sbi) + 1)%nat with (ebi - sbi + 1)%nat by lia.
    rewrite bits_value_nb by lia. apply nb_same; [exact Hx | lia | exact He].
  - (* adjacent nibbles *)
    rewrite (idx_nth m eby Hlen). cbn [bind]. do 2 f_equal.
    pose proof (bv_bound m (4 * eby + ebi - (4 * sby + sbi) + 1) (4 * sby + sbi + 1)) as B.
    rewrite bv_split in * by (assumption || lia).
    replace (eby - sby - 1)%nat with 0%nat in * by lia. cbn [firstn fold_left] in *.
    rewrite nb_head by assumption. rewrite nb_tail by assumption.
    pose proof (nb_bound (nth eby m 0) 0 (ebi + 1) ltac:(lia)) as Bt.
    apply lor_shl32; [|exact Bt].
    assert (2 ^ N.of_nat (4 * eby + ebi - (4 * sby + sbi) + 1) <= 4294967296).
    { change 4294967296 with (2 ^ N.of_nat 32). apply pow2_mono. lia. }
    lia.
  - (* fold over the middle nibbles *)
    unfold slice.
    assert (S1 : ((sby + 1 <=? eby)%nat && (eby <=? List.length m)%nat)%bool = true).
    { apply andb_true_iff. split; apply Nat.leb_le; lia. }
    rewrite S1. clear S1. cbn [bind].
    rewrite (idx_nth m eby Hlen). cbn [bind]. do 2 f_equal.
    pose proof (bv_bound m (4 * eby + ebi - (4 * sby + sbi) + 1) (4 * sby + sbi + 1)) as B.
    rewrite bv_split in * by (assumption || lia).
    replace (eby - (sby + 1))%nat with (eby - sby - 1)%nat by lia.
    rewrite nb_head by assumption. rewrite nb_tail by assumption.
    rewrite (fold_model _ _ (4 - sbi)%nat).
    + pose proof (nb_bound (nth eby m 0) 0 (ebi + 1) ltac:(lia)) as Bt.
      apply lor_shl32; [|exact Bt].
      assert (2 ^ N.of_nat (4 * eby + ebi - (4 * sby + sbi) + 1) <= 4294967296).
      { change 4294967296 with (2 ^ N.of_nat 32). apply pow2_mono. lia. }
      lia.
    + apply Forall_firstn, Forall_skipn. exact W.
    + apply nb_bound. lia.
    + pose proof (firstn_le_length (eby - sby - 1) (skipn (sby + 1) m)). lia.
Qed.

Theorem range_value_spec : forall m sb eb,
  wf m -> (1 <= sb)%nat -> (sb <= eb)%nat -> (eb <= 4 * List.length m)%nat -> (eb - sb < 32)%nat ->
  range_value m sb eb = Ok (Some (field m sb eb)).
Proof.
  intros m sb eb W H1 Hle Hlen H32.
  destruct sb as [|p]; [lia|]. destruct eb as [|e]; [lia|].
  pose proof (Nat.div_mod p 4 ltac:(lia)) as Ep.
  pose proof (Nat.mod_upper_bound p 4 ltac:(lia)) as Bp.
  pose proof (Nat.div_mod e 4 ltac:(lia)) as Ee.
  pose proof (Nat.mod_upper_bound e 4 ltac:(lia)) as Be.
  remember (p / 4)%nat as sby. remember (p mod 4)%nat as sbi.
  remember (e / 4)%nat as eby. remember (e mod 4)%nat as ebi.
  clear Heqsby Heqsbi Heqeby Heqebi.
  unfold field.
  replace (S p) with (4 * sby + sbi + 1)%nat by lia.
  replace (S (S e) - (4 * sby + sbi + 1))%nat
    with (4 * eby + ebi - (4 * sby + sbi) + 1)%nat by lia.
  replace (S e) with (4 * eby + ebi + 1)%nat by lia.
  apply range_value_core; (assumption || lia).
Qed.

(** ---------- single flags ---------- *)

Theorem flag_value_zero : forall m, flag_value m 0 = Ok 0%N.
Proof. reflexivity. Qed.

Theorem flag_value_spec : forall m flag,
  wf m -> (1 <= flag)%nat -> (flag <= 4 * List.length m)%nat ->
  flag_value m flag = Ok (bit_at m flag).
Proof.
  intros m flag _ H1 Hlen. destruct flag as [|f]; [lia|].
  unfold flag_value, bit_at. cbn [bit_location bind].
  replace (S f - 1)%nat with f by lia.
  assert (Hq : (f / 4 < List.length m)%nat).
  { apply Nat.div_lt_upper_bound; lia. }
  rewrite (idx_nth m _ Hq). reflexivity.
Qed.

(** what a flag position denotes: 0 is "no flag" and reads as 0 *)
Definition flag_bit (m : list N) (flag : nat) : N :=
  match flag with O => 0 | S _ => bit_at m flag end.

Lemma flag_value_any m flag :
  wf m -> (flag <= 4 * List.length m)%nat -> flag_value m flag = Ok (flag_bit m flag).
Proof.
  intros W H. destruct flag as [|f]; [reflexivity|].
  unfold flag_bit. apply flag_value_spec; [exact W | lia | exact H].
Qed.

Theorem flag_and_range_value_spec : forall m flag sb eb,
  wf m -> (flag <= 4 * List.length m)%nat ->
  (1 <= sb)%nat -> (sb <= eb)%nat -> (eb <= 4 * List.length m)%nat -> (eb - sb < 32)%nat ->
  flag_and_range_value m flag sb eb =
  Ok (Some (match flag with O => 0 | S _ => bit_at m flag end, field m sb eb)).
Proof.
  intros m flag sb eb W Hf H1 Hle Hlen H32. unfold flag_and_range_value.
  rewrite (flag_value_any m flag W Hf). cbn [bind].
  rewrite (range_value_spec m sb eb W H1 Hle Hlen H32). reflexivity.
Qed.

Theorem status_flag_and_range_value_spec : forall m status flag sb eb,
  wf m -> (status <= 4 * List.length m)%nat -> (flag <= 4 * List.length m)%nat ->
  (1 <= sb)%nat -> (sb <= eb)%nat -> (eb <= 4 * List.length m)%nat -> (eb - sb < 32)%nat ->
  status_flag_and_range_value m status flag sb eb =
  Ok (Some (match status with O => 0 | S _ => bit_at m status end,
            match flag with O => 0 | S _ => bit_at m flag end,
            field m sb eb)).
Proof.
  intros m status flag sb eb W Hs Hf H1 Hle Hlen H32. unfold status_flag_and_range_value.
  rewrite (flag_value_any m status W Hs). cbn [bind].
  rewrite (flag_and_range_value_spec m flag sb eb W Hf H1 Hle Hlen H32). reflexivity.
Qed.

(** ---------- out-of-range reads panic ---------- *)

Lemma idx_panic m i : (List.length m <= i)%nat -> idx m i = Panic "index out of range".
Proof.
  intros H. unfold idx. apply nth_error_None in H. rewrite H. reflexivity.
Qed.

Lemma range_value_panics : forall m sb eb,
  (1 <= sb)%nat -> (sb <= eb)%nat -> (4 * List.length m < eb)%nat ->
  exists w, range_value m sb eb = Panic w.
Proof.
  intros m sb eb H1 Hle Hlen.
  destruct sb as [|p]; [lia|]. destruct eb as [|e]; [lia|].
  unfold range_value. cbn [bit_location bind].
  pose proof (Nat.div_mod p 4 ltac:(lia)) as Ep.
  pose proof (Nat.mod_upper_bound p 4 ltac:(lia)) as Bp.
  pose proof (Nat.div_mod e 4 ltac:(lia)) as Ee.
  pose proof (Nat.mod_upper_bound e 4 ltac:(lia)) as Be.
  remember (p / 4)%nat as sby. remember (p mod 4)%nat as sbi.
  remember (e / 4)%nat as eby. remember (e mod 4)%nat as ebi.
  clear Heqsby Heqsbi Heqeby Heqebi.
  assert (C : ((eby <? sby)%nat || ((eby =? sby)%nat && (ebi <? sbi)%nat))%bool = false).
  { apply orb_false_iff. split; [apply Nat.ltb_ge; lia|].
    destruct (Nat.eqb_spec eby sby) as [E|E]; [|reflexivity].
    cbn [andb]. apply Nat.ltb_ge. lia. }
  rewrite C. clear C.
  assert (Hy : idx m eby = Panic "index out of range") by (apply idx_panic; lia).
  destruct (eby - sby)%nat as [|[|k]] eqn:E.
  - assert (eby = sby) by lia. subst eby. rewrite Hy. cbn [bind]. eauto.
  - destruct (idx m sby); cbn [bind]; [|eauto]. rewrite Hy. cbn [bind]. eauto.
  - destruct (idx m sby); cbn [bind]; [|eauto].
    destruct (slice m (sby + 1) eby); cbn [bind]; [|eauto].
    rewrite Hy. cbn [bind]. eauto.
Qed.

Print Assumptions range_value_spec.
Print Assumptions flag_value_spec.
Print Assumptions flag_and_range_value_spec.
Print Assumptions status_flag_and_range_value_spec.
Print Assumptions range_value_panics.
