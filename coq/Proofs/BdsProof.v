(** Comm-B registers BDS 4,0 / 5,0 / 6,0: the model's decoders and register tests against
    Spec/Doc9871.v, for ALL 112-bit frames (symbolic in the 56 MB bits: every read of the frame
    is rewritten with Proofs/RangeSpec.v; no enumeration of frames), and the capability gating of
    the row update. *)
From Coq Require Import QArith Lia.
From SQ Require Import Base RangeSpec Bds Update Footprint Doc9871.
Local Open Scope N_scope.

Lemma bit01 m k : bit_at m k = 0 \/ bit_at m k = 1.
Proof. pose proof (bit_at_lt2 m k). lia. Qed.

(** ================= Part 0: arithmetic of the encodings ================= *)

Lemma twos_0 n v : twos n 0 v = Z.of_N v.
Proof. unfold twos. lia. Qed.
Lemma twos9_1 v : twos 9 1 v = (Z.of_N v - 512)%Z.
Proof. unfold twos. change (2 ^ Z.of_N 9)%Z with 512%Z. lia. Qed.
Lemma twos10_1 v : twos 10 1 v = (Z.of_N v - 1024)%Z.
Proof. unfold twos. change (2 ^ Z.of_N 10)%Z with 1024%Z. lia. Qed.

(** roll: the model's truncating quotient minus 90 is the floor of the two's-complement product *)
Lemma roll_model s v : s = 0 \/ s = 1 ->
  (let x := Z.quot (Z.of_N v * 45) 256 in if s =? 0 then x else (x - 90)%Z) = roll_spec s v.
Proof.
  intros [->| ->]; cbv zeta; unfold roll_spec.
  - change (0 =? 0) with true. cbv iota. rewrite twos_0. apply Z.quot_div_nonneg; lia.
  - change (1 =? 0) with false. cbv iota. rewrite twos9_1.
    replace ((Z.of_N v - 512) * 45)%Z with (Z.of_N v * 45 + (-90) * 256)%Z by lia.
    rewrite Z.div_add by lia. rewrite Z.quot_div_nonneg by lia. lia.
Qed.

Lemma shr9_div v : Z.of_N (N.shiftr (v * 90) 9) = (Z.of_N v * 90 / 512)%Z.
Proof. rewrite N.shiftr_div_pow2. change (2 ^ 9) with 512. rewrite N2Z.inj_div, N2Z.inj_mul. reflexivity. Qed.

(** angles: "+180 when the sign bit is set" is the two's-complement angle normalised to [0,360) *)
Lemma angle_model s v : s = 0 \/ s = 1 -> v < 1024 ->
  (let a := N.shiftr (v * 90) 9 in if s =? 0 then a else a + 180) = angle_spec s v.
Proof.
  intros Hs Hv. cbv zeta. unfold angle_spec.
  assert (0 <= Z.of_N v * 90 / 512 < 180)%Z as B.
  { split; [apply Z.div_pos; lia | apply Z.div_lt_upper_bound; lia]. }
  destruct Hs as [->| ->].
  - change (0 =? 0) with true. cbv iota. rewrite twos_0.
    rewrite Z.mod_small by lia. rewrite <- shr9_div. rewrite N2Z.id. reflexivity.
  - change (1 =? 0) with false. cbv iota. rewrite twos10_1.
    replace ((Z.of_N v - 1024) * 90)%Z with (Z.of_N v * 90 + (-180) * 512)%Z by lia.
    rewrite Z.div_add by lia.
    replace (Z.of_N v * 90 / 512 + -180)%Z with (Z.of_N v * 90 / 512 + 180 + (-1) * 360)%Z by lia.
    rewrite Z.mod_add by lia. rewrite Z.mod_small by lia.
    rewrite <- shr9_div. change 180%Z with (Z.of_N 180). rewrite <- N2Z.inj_add. apply eq_sym, N2Z.id.
Qed.

Lemma angle_spec_plus180 s v : s = 0 \/ s = 1 -> v < 1024 ->
  angle_spec s v = v * 90 / 512 + 180 * s.
Proof.
  intros Hs Hv. rewrite <- (angle_model s v Hs Hv). cbv zeta.
  rewrite N.shiftr_div_pow2. change (2 ^ 9) with 512.
  destruct Hs as [->| ->]; [change (0 =? 0) with true | change (1 =? 0) with false]; cbv iota; lia.
Qed.

Lemma angle_lt_360 s v : s = 0 \/ s = 1 -> v < 1024 -> angle_spec s v < 360.
Proof.
  intros Hs Hv. rewrite angle_spec_plus180 by assumption.
  assert (v * 90 / 512 < 180) by (apply N.div_lt_upper_bound; lia).
  destruct Hs as [->| ->]; lia.
Qed.

Lemma tar_model s v : s = 0 \/ s = 1 ->
  (let a := Z.of_N (N.shiftr (N.shiftl v 3) 8) in if s =? 0 then a else (a - 16)%Z) = tar_spec s v.
Proof.
  intros Hs. cbv zeta. unfold tar_spec.
  assert (Z.of_N (N.shiftr (N.shiftl v 3) 8) = (Z.of_N v * 8 / 256)%Z) as E.
  { rewrite N.shiftr_div_pow2, N.shiftl_mul_pow2. change (2 ^ 8) with 256. change (2 ^ 3) with 8.
    rewrite N2Z.inj_div, N2Z.inj_mul. reflexivity. }
  rewrite E. destruct Hs as [->| ->].
  - change (0 =? 0) with true. cbv iota. rewrite twos_0. reflexivity.
  - change (1 =? 0) with false. cbv iota. rewrite twos9_1.
    replace ((Z.of_N v - 512) * 8)%Z with (Z.of_N v * 8 + (-16) * 256)%Z by lia.
    rewrite Z.div_add by lia. lia.
Qed.

Lemma tar_range s v : s = 0 \/ s = 1 -> v < 512 -> (-16 <= tar_spec s v <= 16)%Z.
Proof.
  intros Hs Hv. unfold tar_spec.
  destruct Hs as [->| ->]; [rewrite twos_0 | rewrite twos9_1]; split;
    first [apply Z.div_le_lower_bound; lia | apply Z.lt_le_incl, Z.div_lt_upper_bound; lia].
Qed.

Lemma vrate32_model s v : s = 0 \/ s = 1 ->
  (let r := Z.of_N (N.shiftl v 5) in if s =? 0 then r else (r - 16384)%Z) = vrate32_spec s v.
Proof.
  intros Hs. cbv zeta. unfold vrate32_spec. rewrite N.shiftl_mul_pow2. change (2 ^ 5) with 32.
  destruct Hs as [->| ->].
  - change (0 =? 0) with true. cbv iota. rewrite twos_0. lia.
  - change (1 =? 0) with false. cbv iota. rewrite twos9_1. lia.
Qed.

(** Mach: the exact rational is v * (2.048 / 512) *)
Lemma mach_spec_lsb v : (mach_spec v == inject_Z (Z.of_N v) * ((2048 # 1000) / (512 # 1)))%Q.
Proof. unfold mach_spec, Qeq. simpl. lia. Qed.

Lemma mach_le1 v : Qle_bool (mach_spec v) 1 = (v <=? 250).
Proof.
  unfold Qle_bool, mach_spec. cbn [Qnum Qden].
  destruct (N.leb_spec v 250); [apply Z.leb_le | apply Z.leb_gt]; lia.
Qed.
Lemma mach_ge0 v : Qle_bool 0 (mach_spec v) = true.
Proof. unfold Qle_bool, mach_spec. cbn [Qnum Qden]. apply Z.leb_le. lia. Qed.

(** a sign+value field is the value field plus the weight of the sign bit *)
Lemma field_sign_split m sb eb : (sb <= eb)%nat ->
  field m sb eb = bit_at m sb * 2 ^ N.of_nat (eb - sb) + field m (S sb) eb.
Proof.
  intros H. unfold field. replace (S eb - sb)%nat with (S (eb - sb)) by lia.
  cbn [bits_value]. rewrite bv_lin. replace (S eb - S sb)%nat with (eb - sb)%nat by lia. lia.
Qed.

(** ================= Part 1: the field decoders ================= *)

Section Decoders.
Variable m : list N.
Hypothesis W : wf m.
Hypothesis L : List.length m = 28%nat.

Ltac rd :=
  first [ rewrite status_flag_and_range_value_spec by (try exact W; rewrite ?L; lia)
        | rewrite flag_and_range_value_spec by (try exact W; rewrite ?L; lia) ];
  cbn [bind ofilter omap].

(** ---- BDS 4,0 ---- *)
Lemma mcp_selected_altitude_doc :
  mcp_selected_altitude m = Ok (if bit_at m 33 =? 1 then Some (sel_alt_spec (field m 34 45)) else None).
Proof.
  unfold mcp_selected_altitude. rd. destruct (bit_at m 33 =? 1); cbn [omap]; [|reflexivity].
  unfold sel_alt_spec. rewrite N.shiftl_mul_pow2. change (2 ^ 4) with 16. rewrite N.mul_comm. reflexivity.
Qed.

Lemma fms_selected_altitude_doc :
  fms_selected_altitude m = Ok (if bit_at m 46 =? 1 then Some (sel_alt_spec (field m 47 58)) else None).
Proof.
  unfold fms_selected_altitude. rd. destruct (bit_at m 46 =? 1); cbn [omap]; [|reflexivity].
  unfold sel_alt_spec. rewrite N.shiftl_mul_pow2. change (2 ^ 4) with 16. rewrite N.mul_comm. reflexivity.
Qed.

(** NB the model does not drop the value when the status bit is clear: it then returns the raw
    [v / 10] (without the 800 mb offset).  Inside [is_bds_4_0] the status bit is known to be set. *)
Lemma barometric_pressure_setting_doc :
  barometric_pressure_setting m =
  Ok (Some (if bit_at m 59 =? 1 then baro_spec (field m 60 71) else field m 60 71 / 10)).
Proof. unfold barometric_pressure_setting. rd. reflexivity. Qed.

Lemma target_altitude_source_doc :
  target_altitude_source m = Ok (if bit_at m 86 =? 1 then Some (alt_source_spec (field m 87 88)) else None).
Proof. unfold target_altitude_source. rd. destruct (bit_at m 86 =? 1); cbn [omap]; reflexivity. Qed.

(** ---- BDS 5,0 ---- *)
Lemma roll_angle_5_0_doc :
  roll_angle_5_0 m = Ok (if bit_at m 33 =? 1 then Some (roll_spec (bit_at m 34) (field m 35 43)) else None).
Proof.
  unfold roll_angle_5_0. rd. destruct (bit_at m 33 =? 1); cbn [omap]; [|reflexivity].
  do 2 f_equal. apply roll_model, bit01.
Qed.

Lemma track_angle_5_0_doc :
  track_angle_5_0 m = Ok (if bit_at m 44 =? 1 then Some (angle_spec (bit_at m 45) (field m 46 55)) else None).
Proof.
  unfold track_angle_5_0. rd. destruct (bit_at m 44 =? 1); cbn [omap]; [|reflexivity].
  do 2 f_equal. apply angle_model; [apply bit01 | apply (field_bound m 46 55)].
Qed.

Lemma track_angle_rate_5_0_doc :
  track_angle_rate_5_0 m = Ok (if bit_at m 67 =? 1 then Some (tar_spec (bit_at m 68) (field m 69 77)) else None).
Proof.
  unfold track_angle_rate_5_0. rd. destruct (bit_at m 67 =? 1); cbn [omap]; [|reflexivity].
  do 2 f_equal. apply tar_model, bit01.
Qed.

Lemma ground_speed_5_0_doc :
  ground_speed_5_0 m = Ok (if bit_at m 56 =? 1 then Some (speed2_spec (field m 57 66)) else None).
Proof.
  unfold ground_speed_5_0. rd. destruct (bit_at m 56 =? 1); cbn [omap]; [|reflexivity].
  unfold speed2_spec. rewrite N.shiftl_mul_pow2. change (2 ^ 1) with 2. rewrite N.mul_comm. reflexivity.
Qed.

Lemma true_airspeed_5_0_doc :
  true_airspeed_5_0 m = Ok (if bit_at m 78 =? 1 then Some (speed2_spec (field m 79 88)) else None).
Proof.
  unfold true_airspeed_5_0. rd. destruct (bit_at m 78 =? 1); cbn [omap]; [|reflexivity].
  unfold speed2_spec. rewrite N.shiftl_mul_pow2. change (2 ^ 1) with 2. rewrite N.mul_comm. reflexivity.
Qed.

(** ---- BDS 6,0 ---- *)
Lemma magnetic_heading_6_0_doc :
  magnetic_heading_6_0 m = Ok (if bit_at m 33 =? 1 then Some (angle_spec (bit_at m 34) (field m 35 44)) else None).
Proof.
  unfold magnetic_heading_6_0. rd. destruct (bit_at m 33 =? 1); cbn [omap]; [|reflexivity].
  do 2 f_equal. apply angle_model; [apply bit01 | apply (field_bound m 35 44)].
Qed.

(** the next four decoders also report "no data" for an all-zero value field *)
Lemma indicated_airspeed_6_0_doc :
  indicated_airspeed_6_0 m =
  Ok (if (bit_at m 45 =? 1) && negb (field m 46 55 =? 0) then Some (ias_spec (field m 46 55)) else None).
Proof. unfold indicated_airspeed_6_0. rd. destruct (_ && _); cbn [omap]; reflexivity. Qed.

Lemma mach_number_6_0_doc :
  mach_number_6_0 m =
  Ok (if (bit_at m 56 =? 1) && negb (field m 57 66 =? 0) then Some (mach_spec (field m 57 66)) else None).
Proof. unfold mach_number_6_0. rd. destruct (_ && _); cbn [omap]; reflexivity. Qed.

Lemma barometric_altitude_rate_6_0_doc :
  barometric_altitude_rate_6_0 m =
  Ok (if (bit_at m 67 =? 1) && negb (field m 69 77 =? 0)
      then Some (vrate32_spec (bit_at m 68) (field m 69 77)) else None).
Proof.
  unfold barometric_altitude_rate_6_0. rd. destruct (_ && _); cbn [omap]; [|reflexivity].
  do 2 f_equal. apply vrate32_model, bit01.
Qed.

Lemma internal_vertical_velocity_6_0_doc :
  internal_vertical_velocity_6_0 m =
  Ok (if (bit_at m 78 =? 1) && negb (field m 80 88 =? 0)
      then Some (vrate32_spec (bit_at m 79) (field m 80 88)) else None).
Proof.
  unfold internal_vertical_velocity_6_0. rd. destruct (_ && _); cbn [omap]; [|reflexivity].
  do 2 f_equal. apply vrate32_model, bit01.
Qed.

End Decoders.

(** ================= Parts 2 and 3: the register tests ================= *)

Lemma in_range_true lo hi x : lo <= x -> x <= hi -> in_range lo hi x = true.
Proof. intros A B. unfold in_range. apply andb_true_iff. split; apply N.leb_le; assumption. Qed.
Lemma in_range_0 hi x : in_range 0 hi x = (x <=? hi).
Proof. unfold in_range. replace (0 <=? x) with true by (symmetry; apply N.leb_le; lia). reflexivity. Qed.
Lemma zin_range_true lo hi x : (lo <= x <= hi)%Z -> zin_range lo hi x = true.
Proof. intros [A B]. unfold zin_range. apply andb_true_iff. split; apply Z.leb_le; assumption. Qed.

Lemma rnot_ok b : rnot (Ok b) = Ok (negb b).
Proof. reflexivity. Qed.
Lemma orelse_ok a b : orelse (Ok a) b = if a then Ok true else b.
Proof. reflexivity. Qed.
Lemma andalso_ok a b : andalso (Ok a) b = if a then b else Ok false.
Proof. reflexivity. Qed.

Lemma ndist_abs a b : Z.of_N (ndist a b) = Z.abs (Z.of_N a - Z.of_N b).
Proof. unfold ndist. destruct (N.leb_spec a b); lia. Qed.

Section Registers.
Variable m : list N.
Hypothesis W : wf m.
Hypothesis L : List.length m = 28%nat.

Lemma goodflags_doc flag sb eb :
  (1 <= flag <= 112)%nat -> (1 <= sb)%nat -> (sb <= eb)%nat -> (eb <= 112)%nat -> (eb - sb < 32)%nat ->
  goodflags m flag sb eb = Ok ((bit_at m flag =? 1) && negb (field m sb eb =? 0)).
Proof.
  intros Hf H1 H2 H3 H4. unfold goodflags.
  rewrite flag_and_range_value_spec by (try exact W; rewrite ?L; lia). cbn [bind].
  destruct flag as [|f]; [lia|].
  destruct (bit01 m (S f)) as [E|E]; rewrite E; reflexivity.
Qed.

Ltac tst c := destruct c eqn:?; cbn [andb orb negb bind]; [|reflexivity].
Ltac tstn c := destruct c eqn:?; cbn [andb orb negb bind]; [reflexivity|].

(** ---------- BDS 5,0 ---------- *)
Theorem is_bds_5_0_char :
  is_bds_5_0 m = Ok (if bds50_ok m then Some (bds50_doc m) else None).
Proof.
  unfold is_bds_5_0.
  rewrite (roll_angle_5_0_doc m W L), (track_angle_5_0_doc m W L), (track_angle_rate_5_0_doc m W L),
          (ground_speed_5_0_doc m W L), (true_airspeed_5_0_doc m W L).
  rewrite !goodflags_doc by lia. rewrite !rnot_ok, !orelse_ok.
  unfold bds50_ok, bds50_doc, when_set, nz.
  tst (bit_at m 33 =? 1). tstn (field m 34 43 =? 0).
  tst (bit_at m 44 =? 1). tstn (field m 45 55 =? 0).
  tst (bit_at m 56 =? 1). tstn (field m 57 66 =? 0).
  tst (bit_at m 67 =? 1). tstn (field m 68 77 =? 0).
  tst (bit_at m 78 =? 1). tstn (field m 79 88 =? 0).
  cbv zeta. cbn [ofilter b50_gs b50_tas b50_roll b50_track b50_tar].
  rewrite (in_range_true 0 360 (angle_spec _ _))
    by first [lia | apply N.lt_le_incl, angle_lt_360; [apply bit01 | apply (field_bound m 46 55)]].
  rewrite (zin_range_true (-16) 16 (tar_spec _ _))
    by (apply tar_range; [apply bit01 | apply (field_bound m 69 77)]).
  rewrite !in_range_0. unfold zin_range, zbetween, abs_diff, ndist.
  destruct ((-50 <=? roll_spec (bit_at m 34) (field m 35 43))%Z
            && (roll_spec (bit_at m 34) (field m 35 43) <=? 50)%Z);
  destruct (speed2_spec (field m 57 66) <=? 600); destruct (speed2_spec (field m 79 88) <=? 500);
    cbn [andb]; try reflexivity.
  match goal with |- context [if ?c then Ok (Some _) else Ok None] => destruct c end; reflexivity.
Qed.

(** ---------- BDS 6,0 ---------- *)
Theorem is_bds_6_0_char :
  is_bds_6_0 m = Ok (if bds60_ok m then Some (bds60_doc m) else None).
Proof.
  unfold is_bds_6_0.
  rewrite (magnetic_heading_6_0_doc m W L), (indicated_airspeed_6_0_doc m W L), (mach_number_6_0_doc m W L),
          (barometric_altitude_rate_6_0_doc m W L), (internal_vertical_velocity_6_0_doc m W L).
  rewrite !goodflags_doc by lia. rewrite !andalso_ok.
  unfold bds60_ok, bds60_doc, when_set, when_set_nz, nz.
  tst (bit_at m 33 =? 1). tstn (field m 34 44 =? 0).
  tst (bit_at m 45 =? 1). tstn (field m 46 55 =? 0).
  tst (bit_at m 56 =? 1). tstn (field m 57 66 =? 0).
  tst (bit_at m 67 =? 1). tstn (field m 68 77 =? 0).
  tst (bit_at m 78 =? 1). tstn (field m 79 88 =? 0).
  cbn [osat].
  rewrite (in_range_true 0 360 (angle_spec _ _))
    by first [lia | apply N.lt_le_incl, angle_lt_360; [apply bit01 | apply (field_bound m 35 44)]].
  rewrite (in_range_true 0 1023 (ias_spec _))
    by first [lia | unfold ias_spec; pose proof (field_bound m 46 55) as B;
                    change (2 ^ N.of_nat (S 55 - 46)) with 1024 in B; lia].
  rewrite mach_ge0. cbn [andb]. unfold rate_ok, zin_range, zbetween.
  destruct (Qle_bool (mach_spec (field m 57 66)) 1); cbn [andb]; [|reflexivity].
  destruct (field m 69 77 =? 0); cbn [andb orb negb osat onone].
  - destruct (field m 80 88 =? 0); cbn [andb orb negb osat onone]; [reflexivity|].
    rewrite orb_false_r.
    match goal with |- context [if ?c then Ok (Some _) else Ok None] => destruct c end; reflexivity.
  - rewrite orb_false_r.
    match goal with |- context [if ?c && _ then Ok (Some _) else Ok None] => destruct c end;
      cbn [andb]; [|reflexivity].
    destruct (field m 80 88 =? 0); cbn [andb orb negb osat onone]; [reflexivity|].
    rewrite orb_false_r.
    match goal with |- context [if ?c then Ok (Some _) else Ok None] => destruct c end; reflexivity.
Qed.

(** ---------- BDS 4,0 ---------- *)
Lemma f12_bound sb eb : (S eb - sb = 12)%nat -> field m sb eb < 4096.
Proof. intros E. pose proof (field_bound m sb eb) as B. rewrite E in B. exact B. Qed. (* 4096 = 2 ^ N.of_nat 12 by conversion *)

Theorem is_bds_4_0_char :
  is_bds_4_0 m = Ok (if bds40_ok m then Some (bds40_doc m) else None).
Proof.
  unfold is_bds_4_0.
  rewrite (mcp_selected_altitude_doc m W L), (fms_selected_altitude_doc m W L),
          (barometric_pressure_setting_doc m W L), (target_altitude_source_doc m W L).
  rewrite !goodflags_doc by lia. rewrite !rnot_ok, !orelse_ok.
  unfold bds40_ok, bds40_doc, when_set, nz.
  tst (bit_at m 33 =? 1). tstn (field m 34 45 =? 0).
  tst (bit_at m 46 =? 1). tstn (field m 47 58 =? 0).
  tst (bit_at m 59 =? 1). tstn (field m 60 71 =? 0).
  tst (field m 72 79 =? 0). tst (field m 84 85 =? 0).
  cbv zeta. cbn [ofilter b40_mcp b40_fms].
  pose proof (f12_bound 34 45 eq_refl) as B1. pose proof (f12_bound 47 58 eq_refl) as B2.
  pose proof (f12_bound 60 71 eq_refl) as B3.
  rewrite (in_range_true 0 65530 (sel_alt_spec (field m 34 45))) by (unfold sel_alt_spec; lia).
  rewrite (in_range_true 0 65530 (sel_alt_spec (field m 47 58))) by (unfold sel_alt_spec; lia).
  assert (field m 60 71 / 10 <= 409) as B4 by (apply N.lt_succ_r, N.div_lt_upper_bound; lia).
  rewrite (in_range_true 800 1210 (baro_spec (field m 60 71))) by (unfold baro_spec; revert B4; generalize (field m 60 71 / 10); intros; lia).
  cbn [is_some orb].
  destruct (bit_at m 86 =? 1); cbn [ofilter]; [|reflexivity].
  rewrite in_range_true; [reflexivity | lia |].
  unfold alt_source_spec. pose proof (field_bound m 87 88) as B.
  change (2 ^ N.of_nat (S 88 - 87)) with 4 in B. lia.
Qed.
End Registers.

(** ---------- Prop-level reading: validity (soundness) and completeness ---------- *)

Ltac b2p :=
  repeat match goal with
  | H : nz _ = true |- _ => unfold nz in H
  | H : zbetween _ _ _ = true |- _ => unfold zbetween in H
  | H : (_ && _)%bool = true |- _ => apply andb_true_iff in H; destruct H
  | H : negb _ = true |- _ => apply negb_true_iff in H
  | H : N.eqb _ _ = true |- _ => apply N.eqb_eq in H
  | H : N.eqb _ _ = false |- _ => apply N.eqb_neq in H
  | H : N.leb _ _ = true |- _ => apply N.leb_le in H
  | H : N.ltb _ _ = true |- _ => apply N.ltb_lt in H
  | H : Z.leb _ _ = true |- _ => apply Z.leb_le in H
  end.

Ltac p2b :=
  repeat match goal with |- (_ && _)%bool = true => apply andb_true_iff; split end;
  try match goal with
      | |- N.eqb _ _ = true => apply N.eqb_eq; assumption
      | |- nz _ = true => unfold nz; apply negb_true_iff, N.eqb_neq; assumption
      | |- N.leb _ _ = true => apply N.leb_le; assumption
      end.

Lemma zbetween_iff lo hi x : zbetween lo hi x = true <-> (lo <= x <= hi)%Z.
Proof. unfold zbetween. rewrite andb_true_iff, !Z.leb_le. tauto. Qed.

Lemma rate_ok_iff s v :
  rate_ok s v = true <-> (v <> 0 -> (-6000 <= vrate32_spec s v <= 6000)%Z).
Proof.
  unfold rate_ok. rewrite orb_true_iff, zbetween_iff. destruct (N.eqb_spec v 0) as [E|E]; split; intros H.
  - intros C. contradiction.
  - left. reflexivity.
  - intros _. destruct H as [H|H]; [discriminate | exact H].
  - right. apply H, E.
Qed.

(** a zero field has all its bits zero *)
Lemma bits_value_zero m : forall n sb, bits_value m sb n 0 = 0 ->
  forall k, (sb <= k < sb + n)%nat -> bit_at m k = 0.
Proof.
  induction n as [|n IH]; intros sb H k Hk; [lia|].
  cbn [bits_value] in H. rewrite bv_lin in H.
  assert (0 < 2 ^ N.of_nat n) as P by (apply N.neq_0_lt_0, N.pow_nonzero; discriminate).
  destruct (Nat.eq_dec k sb) as [->|Ne]; [nia|].
  apply (IH (S sb)); [nia | lia].
Qed.

Lemma field_zero_bits m sb eb : field m sb eb = 0 -> forall k, (sb <= k <= eb)%nat -> bit_at m k = 0.
Proof. unfold field. intros H k Hk. apply (bits_value_zero m _ _ H). lia. Qed.

(** -- BDS 5,0 -- *)
Definition bds50_valid (m : list N) : Prop :=
  bit_at m 33 = 1 /\ bit_at m 44 = 1 /\ bit_at m 56 = 1 /\ bit_at m 67 = 1 /\ bit_at m 78 = 1 /\
  field m 34 43 <> 0 /\ field m 45 55 <> 0 /\ field m 57 66 <> 0 /\ field m 68 77 <> 0 /\
  field m 79 88 <> 0 /\
  (-50 <= roll_spec (bit_at m 34) (field m 35 43) <= 50)%Z /\
  speed2_spec (field m 57 66) <= 600 /\ speed2_spec (field m 79 88) <= 500 /\
  (Z.abs (Z.of_N (speed2_spec (field m 57 66)) - Z.of_N (speed2_spec (field m 79 88))) < 200)%Z.

Definition bds50_value (m : list N) : bds50 :=
  mkB50 (Some (roll_spec (bit_at m 34) (field m 35 43)))
        (Some (angle_spec (bit_at m 45) (field m 46 55)))
        (Some (tar_spec (bit_at m 68) (field m 69 77)))
        (Some (speed2_spec (field m 57 66)))
        (Some (speed2_spec (field m 79 88))).

Lemma bds50_ok_iff m : bds50_ok m = true <-> bds50_valid m.
Proof.
  unfold bds50_ok, bds50_valid. split.
  - intros H. b2p.
    pose proof (ndist_abs (speed2_spec (field m 57 66)) (speed2_spec (field m 79 88))).
    repeat split; (assumption || lia).
  - intros (S1 & S2 & S3 & S4 & S5 & F1 & F2 & F3 & F4 & F5 & R & G & T & D).
    p2b.
    + unfold zbetween. apply andb_true_iff. split; apply Z.leb_le; lia.
    + apply N.ltb_lt.
      pose proof (ndist_abs (speed2_spec (field m 57 66)) (speed2_spec (field m 79 88))). lia.
Qed.

Lemma bds50_doc_value m : bds50_valid m -> bds50_doc m = bds50_value m.
Proof.
  intros (S1 & S2 & S3 & S4 & S5 & _). unfold bds50_doc, bds50_value, when_set.
  rewrite S1, S2, S3, S4, S5. reflexivity.
Qed.

(** validity: a frame accepted as BDS 5,0 has its five status bits set, no all-zero field, decodes
    to exactly the Doc 9871 values and satisfies the plausibility limits *)
Theorem is_bds_5_0_sound m v : wf m -> List.length m = 28%nat ->
  is_bds_5_0 m = Ok (Some v) ->
  bds50_valid m /\ v = bds50_value m /\
  angle_spec (bit_at m 45) (field m 46 55) <= 360 /\
  (-16 <= tar_spec (bit_at m 68) (field m 69 77) <= 16)%Z.
Proof.
  intros W L H. rewrite (is_bds_5_0_char m W L) in H.
  destruct (bds50_ok m) eqn:OK; [|discriminate]. apply bds50_ok_iff in OK.
  inversion H; subst. split; [exact OK|]. split; [apply bds50_doc_value, OK|]. split.
  - apply N.lt_le_incl, angle_lt_360; [apply bit01 | apply (field_bound m 46 55)].
  - apply tar_range; [apply bit01 | apply (field_bound m 69 77)].
Qed.

(** completeness: every frame satisfying these conditions is accepted, with the Doc 9871 values *)
Theorem is_bds_5_0_complete m : wf m -> List.length m = 28%nat ->
  bds50_valid m -> is_bds_5_0 m = Ok (Some (bds50_value m)).
Proof.
  intros W L V. rewrite (is_bds_5_0_char m W L).
  rewrite (proj2 (bds50_ok_iff m) V). rewrite (bds50_doc_value m V). reflexivity.
Qed.

Theorem is_bds_5_0_reject m : wf m -> List.length m = 28%nat ->
  ~ bds50_valid m -> is_bds_5_0 m = Ok None.
Proof.
  intros W L V. rewrite (is_bds_5_0_char m W L).
  destruct (bds50_ok m) eqn:OK; [|reflexivity]. apply bds50_ok_iff in OK. contradiction.
Qed.

(** -- BDS 6,0 -- *)
Definition bds60_valid (m : list N) : Prop :=
  bit_at m 33 = 1 /\ bit_at m 45 = 1 /\ bit_at m 56 = 1 /\ bit_at m 67 = 1 /\ bit_at m 78 = 1 /\
  field m 34 44 <> 0 /\ field m 46 55 <> 0 /\ field m 57 66 <> 0 /\ field m 68 77 <> 0 /\
  field m 79 88 <> 0 /\
  (mach_spec (field m 57 66) <= 1)%Q /\
  (field m 69 77 <> 0 -> (-6000 <= vrate32_spec (bit_at m 68) (field m 69 77) <= 6000)%Z) /\
  (field m 80 88 <> 0 -> (-6000 <= vrate32_spec (bit_at m 79) (field m 80 88) <= 6000)%Z).

Definition bds60_value (m : list N) : bds60 :=
  mkB60 (Some (angle_spec (bit_at m 34) (field m 35 44)))
        (Some (ias_spec (field m 46 55)))
        (Some (mach_spec (field m 57 66)))
        (if field m 69 77 =? 0 then None else Some (vrate32_spec (bit_at m 68) (field m 69 77)))
        (if field m 80 88 =? 0 then None else Some (vrate32_spec (bit_at m 79) (field m 80 88))).

Lemma bds60_ok_iff m : bds60_ok m = true <-> bds60_valid m.
Proof.
  unfold bds60_ok, bds60_valid. split.
  - intros H.
    repeat match goal with
    | H : (_ && _)%bool = true |- _ => apply andb_true_iff in H; destruct H
    end.
    repeat match goal with
    | H : rate_ok _ _ = true |- _ => generalize (proj1 (rate_ok_iff _ _) H); clear H; intro H
    | H : Qle_bool _ _ = true |- _ => apply Qle_bool_iff in H
    end.
    b2p. repeat match goal with |- _ /\ _ => split end; assumption.
  - intros (S1 & S2 & S3 & S4 & S5 & F1 & F2 & F3 & F4 & F5 & M & R1 & R2).
    p2b.
    + apply Qle_bool_iff, M.
    + apply rate_ok_iff, R1.
    + apply rate_ok_iff, R2.
Qed.

Lemma bds60_doc_value m : bds60_valid m -> bds60_doc m = bds60_value m.
Proof.
  intros (S1 & S2 & S3 & S4 & S5 & F1 & F2 & F3 & _).
  unfold bds60_doc, bds60_value, when_set, when_set_nz.
  rewrite S1, S2, S3, S4, S5. apply N.eqb_neq in F2, F3. rewrite F2, F3.
  change (1 =? 1) with true. cbn [andb negb].
  destruct (field m 69 77 =? 0); destruct (field m 80 88 =? 0); reflexivity.
Qed.

Theorem is_bds_6_0_sound m v : wf m -> List.length m = 28%nat ->
  is_bds_6_0 m = Ok (Some v) ->
  bds60_valid m /\ v = bds60_value m /\
  angle_spec (bit_at m 34) (field m 35 44) <= 360 /\ ias_spec (field m 46 55) <= 1023 /\
  field m 57 66 <= 250.
Proof.
  intros W L H. rewrite (is_bds_6_0_char m W L) in H.
  destruct (bds60_ok m) eqn:OK; [|discriminate]. apply bds60_ok_iff in OK.
  inversion H; subst. split; [exact OK|]. split; [apply bds60_doc_value, OK|]. split; [|split].
  - apply N.lt_le_incl, angle_lt_360; [apply bit01 | apply (field_bound m 35 44)].
  - unfold ias_spec. pose proof (field_bound m 46 55) as B.
    change (2 ^ N.of_nat (S 55 - 46)) with 1024 in B. lia.
  - destruct OK as (_ & _ & _ & _ & _ & _ & _ & _ & _ & _ & M & _).
    apply Qle_bool_iff in M. rewrite mach_le1 in M. apply N.leb_le, M.
Qed.

Theorem is_bds_6_0_complete m : wf m -> List.length m = 28%nat ->
  bds60_valid m -> is_bds_6_0 m = Ok (Some (bds60_value m)).
Proof.
  intros W L V. rewrite (is_bds_6_0_char m W L).
  rewrite (proj2 (bds60_ok_iff m) V). rewrite (bds60_doc_value m V). reflexivity.
Qed.

Theorem is_bds_6_0_reject m : wf m -> List.length m = 28%nat ->
  ~ bds60_valid m -> is_bds_6_0 m = Ok None.
Proof.
  intros W L V. rewrite (is_bds_6_0_char m W L).
  destruct (bds60_ok m) eqn:OK; [|reflexivity]. apply bds60_ok_iff in OK. contradiction.
Qed.

(** -- BDS 4,0 -- *)
Definition bds40_valid (m : list N) : Prop :=
  bit_at m 33 = 1 /\ bit_at m 46 = 1 /\ bit_at m 59 = 1 /\
  field m 34 45 <> 0 /\ field m 47 58 <> 0 /\ field m 60 71 <> 0 /\
  field m 72 79 = 0 /\ field m 84 85 = 0.

Definition bds40_value (m : list N) : bds40 :=
  mkB40 (Some (sel_alt_spec (field m 34 45))) (Some (sel_alt_spec (field m 47 58)))
        (Some (baro_spec (field m 60 71)))
        (if bit_at m 86 =? 1 then Some (alt_source_spec (field m 87 88)) else None).

Lemma bds40_ok_iff m : bds40_ok m = true <-> bds40_valid m.
Proof.
  unfold bds40_ok, bds40_valid. split.
  - intros H. b2p. repeat split; assumption.
  - intros (S1 & S2 & S3 & F1 & F2 & F3 & R1 & R2). p2b.
Qed.

Lemma bds40_doc_value m : bds40_valid m -> bds40_doc m = bds40_value m.
Proof.
  intros (S1 & S2 & S3 & _). unfold bds40_doc, bds40_value, when_set. rewrite S1, S2, S3. reflexivity.
Qed.

(** the reserved bits, one by one *)
Lemma bds40_reserved_bits m : bds40_valid m ->
  forall k, (72 <= k <= 79)%nat \/ (84 <= k <= 85)%nat -> bit_at m k = 0.
Proof.
  intros (_ & _ & _ & _ & _ & _ & R1 & R2) k [Hk|Hk].
  - apply (field_zero_bits m 72 79 R1 k Hk).
  - apply (field_zero_bits m 84 85 R2 k Hk).
Qed.

Theorem is_bds_4_0_sound m v : wf m -> List.length m = 28%nat ->
  is_bds_4_0 m = Ok (Some v) ->
  bds40_valid m /\ v = bds40_value m /\
  (b40_mcp v <> None \/ b40_fms v <> None) /\
  sel_alt_spec (field m 34 45) <= 65530 /\ sel_alt_spec (field m 47 58) <= 65530 /\
  800 <= baro_spec (field m 60 71) <= 1210.
Proof.
  intros W L H. rewrite (is_bds_4_0_char m W L) in H.
  destruct (bds40_ok m) eqn:OK; [|discriminate]. apply bds40_ok_iff in OK.
  inversion H; subst. split; [exact OK|]. split; [apply bds40_doc_value, OK|].
  rewrite (bds40_doc_value m OK).
  pose proof (f12_bound m 34 45 eq_refl) as B1. pose proof (f12_bound m 47 58 eq_refl) as B2.
  pose proof (f12_bound m 60 71 eq_refl) as B3.
  assert (field m 60 71 / 10 <= 409) as B4 by (apply N.lt_succ_r, N.div_lt_upper_bound; lia).
  unfold sel_alt_spec, baro_spec. cbn [b40_mcp bds40_value].
  split; [left; discriminate|].
  revert B4. generalize (field m 60 71 / 10). intros. lia.
Qed.

Theorem is_bds_4_0_complete m : wf m -> List.length m = 28%nat ->
  bds40_valid m -> is_bds_4_0 m = Ok (Some (bds40_value m)).
Proof.
  intros W L V. rewrite (is_bds_4_0_char m W L).
  rewrite (proj2 (bds40_ok_iff m) V). rewrite (bds40_doc_value m V). reflexivity.
Qed.

Theorem is_bds_4_0_reject m : wf m -> List.length m = 28%nat ->
  ~ bds40_valid m -> is_bds_4_0 m = Ok None.
Proof.
  intros W L V. rewrite (is_bds_4_0_char m W L).
  destruct (bds40_ok m) eqn:OK; [|reflexivity]. apply bds40_ok_iff in OK. contradiction.
Qed.

(** ---------- consequences of the "no all-zero field" heuristic (findings) ---------- *)
(** wings level (roll exactly 0): the register is not recognised as BDS 5,0 *)
Corollary bds50_rejects_zero_roll m : wf m -> List.length m = 28%nat ->
  bit_at m 34 = 0 -> field m 35 43 = 0 -> is_bds_5_0 m = Ok None.
Proof.
  intros W L S F. apply is_bds_5_0_reject; try assumption.
  intros (_ & _ & _ & _ & _ & N1 & _). apply N1.
  rewrite (field_sign_split m 34 43) by lia. rewrite S, F. reflexivity.
Qed.
(** straight flight (track angle rate exactly 0): not recognised as BDS 5,0 *)
Corollary bds50_rejects_zero_turn m : wf m -> List.length m = 28%nat ->
  bit_at m 68 = 0 -> field m 69 77 = 0 -> is_bds_5_0 m = Ok None.
Proof.
  intros W L S F. apply is_bds_5_0_reject; try assumption.
  intros (_ & _ & _ & _ & _ & _ & _ & _ & N4 & _). apply N4.
  rewrite (field_sign_split m 68 77) by lia. rewrite S, F. reflexivity.
Qed.
(** level flight (barometric altitude rate exactly 0): not recognised as BDS 6,0 *)
Corollary bds60_rejects_zero_baro_rate m : wf m -> List.length m = 28%nat ->
  bit_at m 68 = 0 -> field m 69 77 = 0 -> is_bds_6_0 m = Ok None.
Proof.
  intros W L S F. apply is_bds_6_0_reject; try assumption.
  intros (_ & _ & _ & _ & _ & _ & _ & _ & N4 & _). apply N4.
  rewrite (field_sign_split m 68 77) by lia. rewrite S, F. reflexivity.
Qed.

(** ================= Part 4: gating of the row update ================= *)

(** what each register stage writes into the row (verbatim from [update_from_mode_s]) *)
Definition upd17 (r : row) (c : capability) : row := r <| cap := c |>.
Definition upd40 (r : row) (v : bds40) : row :=
  r <| selected_altitude := oor (b40_mcp v) (b40_fms v) |>
    <| target_alt_source := tas_char (b40_src v) |> <| baro_setting := b40_baro v |>.
Definition upd50 (r : row) (v : bds50) : row :=
  r <| roll_angle := b50_roll v |> <| track := b50_track v |>
    <| track_angle_rate := b50_tar v |> <| grspeed := b50_gs v |>
    <| true_airspeed := b50_tas v |> <| bds50_t := Some (timestamp r) |>
    <| track_source := 8325 |> <| track_t := Some (timestamp r) |>.
Definition upd60 (r : row) (v : bds60) : row :=
  let r := r <| r_heading := b60_hdg v |> <| indicated_airspeed := b60_ias v |>
             <| mach := b60_mach v |> in
  let r := if is_some (b60_baro_rate v)
           then r <| vrate_source := 8326 |> <| vrate := b60_baro_rate v |>
           else r <| vrate_source := 8305 |> <| vrate := b60_ivv v |> in
  r <| heading_source := 8326 |> <| heading_t := Some (timestamp r) |>.
Definition upd44 (r : row) (v : meteo) : row :=
  let r := r <| temperature := me_temp v |> in
  let r := if is_some (me_wind v) then r <| wind := me_wind v |> else r in
  r <| humidity := me_hum v |> <| turbulence := me_turb v |> <| pressure := me_pres v |>.

Definition stageG {V} (c : bool) (test : res (option V)) (upd : row -> V -> row) (r : row) (els : bool)
  : res (row * bool) :=
  if c then v <- test ;; match v with Some v => Ok (upd r v, false) | None => Ok (r, true) end
  else Ok (r, els).

Lemma stage_gated V zero gate test upd r r1 z1 :
  @stageG V (zero && gate) test upd r zero = Ok (r1, z1) ->
  (r1 = r /\ z1 = zero /\ (zero = true -> gate = false \/ test = Ok None)) \/
  (exists v, zero = true /\ gate = true /\ test = Ok (Some v) /\ r1 = upd r v /\ z1 = false).
Proof.
  unfold stageG. destruct zero, gate; cbn [andb]; intros H;
    try (inversion H; subst; left; repeat split; auto; discriminate).
  destruct test as [[v|]|]; cbn [bind] in H; inversion H; subst.
  - right. exists v. repeat split; reflexivity.
  - left. repeat split; auto.
Qed.

Lemma stage_plain V zero els test upd r r1 z1 : (zero = false -> els = false) ->
  @stageG V zero test upd r els = Ok (r1, z1) ->
  (r1 = r /\ z1 = zero /\ (zero = true -> test = Ok None)) \/
  (exists v, zero = true /\ test = Ok (Some v) /\ r1 = upd r v /\ z1 = false).
Proof.
  unfold stageG. intros He H. destruct zero.
  - destruct test as [[v|]|]; cbn [bind] in H; inversion H; subst.
    + right. exists v. repeat split; reflexivity.
    + left. repeat split; auto.
  - inversion H; subst. left. rewrite He by reflexivity. repeat split; auto. discriminate.
Qed.

(** First-match register inference: exactly one of these happened. *)
Inductive mode_s_outcome (r : row) (m : list N) (relaxed : bool) (r' : row) : Prop :=
| MS_other b :                      (* BDS 1,0 / 2,0 / 3,0 recognised from the MB header *)
    bds m = Ok b -> (fst b =? 0) && (snd b =? 0) = false ->
    modifies [F_ais; F_threat] r r' -> mode_s_outcome r m relaxed r'
| MS_17 c :
    bds m = Ok (0, 0) -> is_bds_1_7 m = Ok (Some c) -> r' = upd17 r c -> mode_s_outcome r m relaxed r'
| MS_40 v :
    bds m = Ok (0, 0) -> is_bds_1_7 m = Ok None ->
    relaxed || c40 (cap r) = true -> is_bds_4_0 m = Ok (Some v) ->
    r' = upd40 r v -> mode_s_outcome r m relaxed r'
| MS_50 v :
    bds m = Ok (0, 0) -> is_bds_1_7 m = Ok None ->
    (relaxed || c40 (cap r) = false \/ is_bds_4_0 m = Ok None) ->
    relaxed || c50 (cap r) = true -> is_bds_5_0 m = Ok (Some v) ->
    r' = upd50 r v -> mode_s_outcome r m relaxed r'
| MS_60 v :
    bds m = Ok (0, 0) -> is_bds_1_7 m = Ok None ->
    (relaxed || c40 (cap r) = false \/ is_bds_4_0 m = Ok None) ->
    (relaxed || c50 (cap r) = false \/ is_bds_5_0 m = Ok None) ->
    relaxed || c60 (cap r) = true -> is_bds_6_0 m = Ok (Some v) ->
    r' = upd60 r v -> mode_s_outcome r m relaxed r'
| MS_44 v :
    bds m = Ok (0, 0) -> is_bds_1_7 m = Ok None ->
    (relaxed || c40 (cap r) = false \/ is_bds_4_0 m = Ok None) ->
    (relaxed || c50 (cap r) = false \/ is_bds_5_0 m = Ok None) ->
    (relaxed || c60 (cap r) = false \/ is_bds_6_0 m = Ok None) ->
    is_bds_4_4 m = Ok (Some v) ->
    r' = upd44 r v -> mode_s_outcome r m relaxed r'
| MS_45 :
    bds m = Ok (0, 0) -> is_bds_1_7 m = Ok None ->
    (relaxed || c40 (cap r) = false \/ is_bds_4_0 m = Ok None) ->
    (relaxed || c50 (cap r) = false \/ is_bds_5_0 m = Ok None) ->
    (relaxed || c60 (cap r) = false \/ is_bds_6_0 m = Ok None) ->
    is_bds_4_4 m = Ok None ->
    modifies [F_temp] r r' -> mode_s_outcome r m relaxed r'.

Theorem update_from_mode_s_outcome r m relaxed r' :
  update_from_mode_s r m relaxed = Ok r' -> mode_s_outcome r m relaxed r'.
Proof.
  unfold update_from_mode_s. intros H.
  destruct (bds m) as [[b1 b2]|] eqn:EB; cbn [bind fst snd] in H; [|discriminate H].
  stage_r H r0 E0. stage_r H r1 E1.
  stage_p H r2 z2 E2. stage_p H r3 z3 E3. stage_p H r4 z4 E4. stage_p H r5 z5 E5. stage_p H r6 z6 E6.
  apply (stage_plain _ _ false (is_bds_1_7 m) upd17 r1 r2 z2) in E2; [|intros; reflexivity].
  apply (stage_gated _ z2 (relaxed || c40 (cap r2)) (is_bds_4_0 m) upd40 r2 r3 z3) in E3.
  apply (stage_gated _ z3 (relaxed || c50 (cap r3)) (is_bds_5_0 m) upd50 r3 r4 z4) in E4.
  apply (stage_gated _ z4 (relaxed || c60 (cap r4)) (is_bds_6_0 m) upd60 r4 r5 z5) in E5.
  apply (stage_plain _ z5 z5 (is_bds_4_4 m) upd44 r5 r6 z6) in E6; [|intros; assumption].
  destruct ((b1 =? 0) && (b2 =? 0)) eqn:Z.
  - (* the MB header is not that of 1,0 / 2,0 / 3,0 *)
    apply andb_true_iff in Z. destruct Z as [Z1 Z2]. apply N.eqb_eq in Z1, Z2. subst b1 b2.
    change ((0 =? 2) && (0 =? 0)) with false in E0. change ((0 =? 3) && (0 =? 0)) with false in E1.
    inversion E0; subst r0. inversion E1; subst r1. clear E0 E1.
    destruct E2 as [(-> & -> & N17) | (c & _ & T17 & -> & ->)].
    2:{ (* 1,7 *)
      destruct E3 as [(-> & -> & _) | (? & ? & _)]; [|discriminate].
      destruct E4 as [(-> & -> & _) | (? & ? & _)]; [|discriminate].
      destruct E5 as [(-> & -> & _) | (? & ? & _)]; [|discriminate].
      destruct E6 as [(-> & -> & _) | (? & ? & _)]; [|discriminate].
      inversion H; subst. eapply MS_17; eauto. }
    specialize (N17 eq_refl).
    destruct E3 as [(-> & -> & N40) | (v & _ & G40 & T40 & -> & ->)].
    2:{ (* 4,0 *)
      destruct E4 as [(-> & -> & _) | (? & ? & _)]; [|discriminate].
      destruct E5 as [(-> & -> & _) | (? & ? & _)]; [|discriminate].
      destruct E6 as [(-> & -> & _) | (? & ? & _)]; [|discriminate].
      inversion H; subst. eapply MS_40; eauto. }
    specialize (N40 eq_refl).
    destruct E4 as [(-> & -> & N50) | (v & _ & G50 & T50 & -> & ->)].
    2:{ (* 5,0 *)
      destruct E5 as [(-> & -> & _) | (? & ? & _)]; [|discriminate].
      destruct E6 as [(-> & -> & _) | (? & ? & _)]; [|discriminate].
      inversion H; subst. eapply MS_50; eauto. }
    specialize (N50 eq_refl).
    destruct E5 as [(-> & -> & N60) | (v & _ & G60 & T60 & -> & ->)].
    2:{ (* 6,0 *)
      destruct E6 as [(-> & -> & _) | (? & ? & _)]; [|discriminate].
      inversion H; subst. eapply MS_60; eauto. }
    specialize (N60 eq_refl).
    destruct E6 as [(-> & -> & N44) | (v & _ & T44 & -> & ->)].
    2:{ (* 4,4 *) inversion H; subst. eapply MS_44; eauto. }
    specialize (N44 eq_refl).
    (* 4,5 or nothing *)
    eapply MS_45; eauto.
    destruct (is_bds_4_5 m) as [[t|]|]; cbn [bind] in H; inversion H; subst; mod_auto.
  - (* 1,0 / 2,0 / 3,0: no register inference *)
    destruct E2 as [(-> & -> & _) | (? & ? & _)]; [|discriminate].
    destruct E3 as [(-> & -> & _) | (? & ? & _)]; [|discriminate].
    destruct E4 as [(-> & -> & _) | (? & ? & _)]; [|discriminate].
    destruct E5 as [(-> & -> & _) | (? & ? & _)]; [|discriminate].
    destruct E6 as [(-> & -> & _) | (? & ? & _)]; [|discriminate].
    inversion H; subst r'. clear H.
    eapply MS_other; [exact EB | exact Z |].
    assert (modifies [F_ais; F_threat] r r0) as M0 by (clear E1; stage_fp E0).
    assert (modifies [F_ais; F_threat] r0 r1) as M1 by (clear E0; stage_fp E1).
    eapply modifies_trans; eassumption.
Qed.

(** footprints of the individual register stages *)
Definition fp40 : list fld := [F_selected_altitude; F_tas_src; F_baro].
Definition fp50 : list fld := [F_roll; F_track; F_tar; F_grspeed; F_tas; F_b5t; F_track_source; F_track_t].
Definition fp60 : list fld :=
  [F_heading; F_ias; F_mach; F_vrate; F_vrate_source; F_heading_source; F_heading_t].
Definition fp44 : list fld := [F_temp; F_wind; F_hum; F_turb; F_pres].

Lemma upd17_fp r c : modifies [F_cap] r (upd17 r c).
Proof. unfold upd17. mod_auto. Qed.
Lemma upd40_fp r v : modifies fp40 r (upd40 r v).
Proof. unfold upd40, fp40. mod_auto. Qed.
Lemma upd50_fp r v : modifies fp50 r (upd50 r v).
Proof. unfold upd50, fp50. mod_auto. Qed.
Lemma upd60_fp r v : modifies fp60 r (upd60 r v).
Proof. unfold upd60, fp60. cbv zeta. destruct (is_some (b60_baro_rate v)); mod_one. Qed.
Lemma upd44_fp r v : modifies fp44 r (upd44 r v).
Proof. unfold upd44, fp44. cbv zeta. destruct (is_some (me_wind v)); mod_one. Qed.

(** the three gated stages as a disjunction: either none of BDS 4,0 / 5,0 / 6,0 was applied
    (and then none of their fields moved), or exactly one was, with its gate open *)
Definition fp_ungated : list fld := [F_ais; F_threat; F_cap; F_temp; F_wind; F_hum; F_turb; F_pres].

Lemma mode_s_cases r m relaxed r' :
  update_from_mode_s r m relaxed = Ok r' ->
  modifies fp_ungated r r' \/
  (exists v, relaxed || c40 (cap r) = true /\ is_bds_4_0 m = Ok (Some v) /\ r' = upd40 r v) \/
  (exists v, relaxed || c50 (cap r) = true /\ is_bds_5_0 m = Ok (Some v) /\ r' = upd50 r v) \/
  (exists v, relaxed || c60 (cap r) = true /\ is_bds_6_0 m = Ok (Some v) /\ r' = upd60 r v).
Proof.
  intros H. apply update_from_mode_s_outcome in H.
  destruct H as [b EB Z M | c EB T E | v EB T G T4 E | v EB T N4 G T5 E | v EB T N4 N5 G T6 E
                | v EB T N4 N5 N6 T44 E | EB T N4 N5 N6 T44 M].
  - left. eapply modifies_weaken; [|exact M]. reflexivity.
  - left. subst. eapply modifies_weaken; [|apply upd17_fp]. reflexivity.
  - right. left. eauto.
  - right. right. left. eauto.
  - right. right. right. eauto.
  - left. subst. eapply modifies_weaken; [|apply upd44_fp]. reflexivity.
  - left. eapply modifies_weaken; [|exact M]. reflexivity.
Qed.

Ltac unchanged M f := symmetry; apply (M f eq_refl).
Ltac splits := repeat match goal with |- _ /\ _ => split end.

(** ---------- gate_closed ---------- *)
(** A DF20/21 reply from a transponder whose last announced capability CA is <= 3, decoded in
    the strict mode, changes nothing but the time stamp, the DF, and altitude (DF20) / squawk
    (DF21).  ([update_from_bcast] never writes [cap_ca] for DF20/21, so the gate sees [cap_ca r].) *)
Theorem gate_closed_fp obs now r m df r' :
  plane_update obs now r m df false = Ok r' -> cap_ca r <= 3 -> df = 20 \/ df = 21 ->
  modifies [F_timestamp; F_last_df; F_altitude; F_altitude_source; F_squawk] r r'.
Proof.
  unfold plane_update. intros H C D.
  match type of H with bind ?x _ = _ => destruct x as [r1|] eqn:E1; cbn [bind] in H; [|discriminate H] end.
  apply update_from_bcast_fp in E1.
  assert (cap_ca r1 = cap_ca r) as CC.
  { symmetry. apply (E1 F_cap_ca). destruct D; subst df; reflexivity. }
  assert ((3 <? cap_ca r1) = false) as G by (apply N.ltb_ge; lia).
  assert ((df =? 17) || (df =? 18) = false) as X by (destruct D; subst df; reflexivity).
  rewrite X in H. cbn [bind] in H. rewrite G in H. cbn [orb andb] in H. inversion H; subst r'.
  eapply modifies_trans with (b := r <| timestamp := now |> <| last_df := df |>); [mod_one|].
  eapply modifies_weaken; [|exact E1]. destruct D; subst df; reflexivity.
Qed.

Theorem gate_closed obs now r m df relaxed r' :
  plane_update obs now r m df relaxed = Ok r' -> relaxed = false -> cap_ca r <= 3 ->
  df = 20 \/ df = 21 ->
  r_ais r' = r_ais r /\ threat r' = threat r /\ cap r' = cap r /\
  selected_altitude r' = selected_altitude r /\ target_alt_source r' = target_alt_source r /\
  baro_setting r' = baro_setting r /\
  roll_angle r' = roll_angle r /\ track r' = track r /\ track_angle_rate r' = track_angle_rate r /\
  grspeed r' = grspeed r /\ true_airspeed r' = true_airspeed r /\ bds50_t r' = bds50_t r /\
  track_source r' = track_source r /\ track_t r' = track_t r /\
  r_heading r' = r_heading r /\ indicated_airspeed r' = indicated_airspeed r /\ mach r' = mach r /\
  vrate r' = vrate r /\ vrate_source r' = vrate_source r /\
  heading_source r' = heading_source r /\ heading_t r' = heading_t r /\
  temperature r' = temperature r /\ wind r' = wind r /\ humidity r' = humidity r /\
  turbulence r' = turbulence r /\ pressure r' = pressure r /\ cap_ca r' = cap_ca r.
Proof.
  intros H R C D. subst relaxed. pose proof (gate_closed_fp obs now r m df r' H C D) as M.
  splits;
    [ unchanged M F_ais | unchanged M F_threat | unchanged M F_cap | unchanged M F_selected_altitude
    | unchanged M F_tas_src | unchanged M F_baro | unchanged M F_roll | unchanged M F_track
    | unchanged M F_tar | unchanged M F_grspeed | unchanged M F_tas | unchanged M F_b5t
    | unchanged M F_track_source | unchanged M F_track_t | unchanged M F_heading | unchanged M F_ias
    | unchanged M F_mach | unchanged M F_vrate | unchanged M F_vrate_source
    | unchanged M F_heading_source | unchanged M F_heading_t | unchanged M F_temp | unchanged M F_wind
    | unchanged M F_hum | unchanged M F_turb | unchanged M F_pres | unchanged M F_cap_ca ].
Qed.

(** the gate opens only through [relaxed] or CA > 3 *)
Theorem gate_open_needs obs now r m df relaxed r' f :
  plane_update obs now r m df relaxed = Ok r' -> df = 20 \/ df = 21 ->
  memf f fp_mode_s = true -> ~ same f r r' -> relaxed = true \/ 3 < cap_ca r.
Proof.
  intros H D Hf Nf. destruct relaxed; [left; reflexivity|]. right.
  destruct (N.lt_ge_cases 3 (cap_ca r)) as [G|G]; [exact G|]. exfalso. apply Nf.
  apply (gate_closed_fp obs now r m df r' H G D).
  revert Hf. destruct f; cbn; intros Hf; try discriminate Hf; reflexivity.
Qed.

(** ---------- advertised capability (BDS 1,7) gating, strict mode ---------- *)
Theorem advert_40_strong r m r' :
  update_from_mode_s r m false = Ok r' -> c40 (cap r) = false ->
  selected_altitude r' = selected_altitude r /\ baro_setting r' = baro_setting r /\
  target_alt_source r' = target_alt_source r.
Proof.
  intros H C. apply mode_s_cases in H. cbn [orb] in H. rewrite C in H.
  destruct H as [M | [(v & G & _) | [(v & _ & _ & ->) | (v & _ & _ & ->)]]]; [ | discriminate G | | ].
  - splits; [unchanged M F_selected_altitude | unchanged M F_baro | unchanged M F_tas_src].
  - pose proof (upd50_fp r v) as M.
    splits; [unchanged M F_selected_altitude | unchanged M F_baro | unchanged M F_tas_src].
  - pose proof (upd60_fp r v) as M.
    splits; [unchanged M F_selected_altitude | unchanged M F_baro | unchanged M F_tas_src].
Qed.

(** as stated in the task (the hypothesis on BDS 1,7 is not needed: if this very frame is a
    BDS 1,7 report it is consumed by that stage and nothing else is written) *)
Corollary advert_40 r m r' :
  update_from_mode_s r m false = Ok r' -> c40 (cap r) = false -> is_bds_1_7 m = Ok None ->
  selected_altitude r' = selected_altitude r /\ baro_setting r' = baro_setting r /\
  target_alt_source r' = target_alt_source r.
Proof. intros H C _. exact (advert_40_strong r m r' H C). Qed.

Theorem advert_50_strong r m r' :
  update_from_mode_s r m false = Ok r' -> c50 (cap r) = false ->
  roll_angle r' = roll_angle r /\ track_angle_rate r' = track_angle_rate r /\
  true_airspeed r' = true_airspeed r /\ bds50_t r' = bds50_t r /\
  track r' = track r /\ grspeed r' = grspeed r /\ track_source r' = track_source r /\
  track_t r' = track_t r.
Proof.
  intros H C. apply mode_s_cases in H. cbn [orb] in H. rewrite C in H.
  destruct H as [M | [(v & _ & _ & ->) | [(v & G & _) | (v & _ & _ & ->)]]]; [ | | discriminate G | ].
  - splits; [unchanged M F_roll | unchanged M F_tar | unchanged M F_tas | unchanged M F_b5t
                  | unchanged M F_track | unchanged M F_grspeed | unchanged M F_track_source
                  | unchanged M F_track_t].
  - pose proof (upd40_fp r v) as M.
    splits; [unchanged M F_roll | unchanged M F_tar | unchanged M F_tas | unchanged M F_b5t
                  | unchanged M F_track | unchanged M F_grspeed | unchanged M F_track_source
                  | unchanged M F_track_t].
  - pose proof (upd60_fp r v) as M.
    splits; [unchanged M F_roll | unchanged M F_tar | unchanged M F_tas | unchanged M F_b5t
                  | unchanged M F_track | unchanged M F_grspeed | unchanged M F_track_source
                  | unchanged M F_track_t].
Qed.

Corollary advert_50 r m r' :
  update_from_mode_s r m false = Ok r' -> c50 (cap r) = false -> is_bds_1_7 m = Ok None ->
  roll_angle r' = roll_angle r /\ track_angle_rate r' = track_angle_rate r /\
  true_airspeed r' = true_airspeed r /\ bds50_t r' = bds50_t r /\
  track r' = track r /\ grspeed r' = grspeed r /\ track_source r' = track_source r /\
  track_t r' = track_t r.
Proof. intros H C _. exact (advert_50_strong r m r' H C). Qed.

Theorem advert_60_strong r m r' :
  update_from_mode_s r m false = Ok r' -> c60 (cap r) = false ->
  r_heading r' = r_heading r /\ indicated_airspeed r' = indicated_airspeed r /\ mach r' = mach r /\
  vrate r' = vrate r /\ vrate_source r' = vrate_source r /\
  heading_source r' = heading_source r /\ heading_t r' = heading_t r.
Proof.
  intros H C. apply mode_s_cases in H. cbn [orb] in H. rewrite C in H.
  destruct H as [M | [(v & _ & _ & ->) | [(v & _ & _ & ->) | (v & G & _)]]]; [ | | | discriminate G].
  - splits; [unchanged M F_heading | unchanged M F_ias | unchanged M F_mach | unchanged M F_vrate
                  | unchanged M F_vrate_source | unchanged M F_heading_source | unchanged M F_heading_t].
  - pose proof (upd40_fp r v) as M.
    splits; [unchanged M F_heading | unchanged M F_ias | unchanged M F_mach | unchanged M F_vrate
                  | unchanged M F_vrate_source | unchanged M F_heading_source | unchanged M F_heading_t].
  - pose proof (upd50_fp r v) as M.
    splits; [unchanged M F_heading | unchanged M F_ias | unchanged M F_mach | unchanged M F_vrate
                  | unchanged M F_vrate_source | unchanged M F_heading_source | unchanged M F_heading_t].
Qed.

Corollary advert_60 r m r' :
  update_from_mode_s r m false = Ok r' -> c60 (cap r) = false -> is_bds_1_7 m = Ok None ->
  r_heading r' = r_heading r /\ indicated_airspeed r' = indicated_airspeed r /\ mach r' = mach r /\
  vrate r' = vrate r /\ vrate_source r' = vrate_source r /\
  heading_source r' = heading_source r /\ heading_t r' = heading_t r.
Proof. intros H C _. exact (advert_60_strong r m r' H C). Qed.

(** ---------- a Comm-B derived value in the row always comes from a validated register ---------- *)
Theorem valid_40 r m relaxed r' :
  update_from_mode_s r m relaxed = Ok r' -> selected_altitude r' <> selected_altitude r ->
  exists v, is_bds_4_0 m = Ok (Some v) /\ relaxed || c40 (cap r) = true /\
    selected_altitude r' = oor (b40_mcp v) (b40_fms v) /\ baro_setting r' = b40_baro v /\
    target_alt_source r' = tas_char (b40_src v).
Proof.
  intros H N. apply mode_s_cases in H.
  destruct H as [M | [(v & G & T & ->) | [(v & _ & _ & ->) | (v & _ & _ & ->)]]].
  - exfalso. apply N. unchanged M F_selected_altitude.
  - exists v. repeat split; assumption || reflexivity.
  - exfalso. apply N. pose proof (upd50_fp r v) as M. unchanged M F_selected_altitude.
  - exfalso. apply N. pose proof (upd60_fp r v) as M. unchanged M F_selected_altitude.
Qed.

Theorem valid_50 r m relaxed r' :
  update_from_mode_s r m relaxed = Ok r' -> roll_angle r' <> roll_angle r ->
  exists v, is_bds_5_0 m = Ok (Some v) /\ relaxed || c50 (cap r) = true /\
    roll_angle r' = b50_roll v /\ track r' = b50_track v /\ grspeed r' = b50_gs v /\
    true_airspeed r' = b50_tas v /\ track_angle_rate r' = b50_tar v.
Proof.
  intros H N. apply mode_s_cases in H.
  destruct H as [M | [(v & _ & _ & ->) | [(v & G & T & ->) | (v & _ & _ & ->)]]].
  - exfalso. apply N. unchanged M F_roll.
  - exfalso. apply N. pose proof (upd40_fp r v) as M. unchanged M F_roll.
  - exists v. repeat split; assumption || reflexivity.
  - exfalso. apply N. pose proof (upd60_fp r v) as M. unchanged M F_roll.
Qed.

Theorem valid_60 r m relaxed r' :
  update_from_mode_s r m relaxed = Ok r' -> mach r' <> mach r ->
  exists v, is_bds_6_0 m = Ok (Some v) /\ relaxed || c60 (cap r) = true /\
    r_heading r' = b60_hdg v /\ indicated_airspeed r' = b60_ias v /\ mach r' = b60_mach v /\
    vrate r' = (if is_some (b60_baro_rate v) then b60_baro_rate v else b60_ivv v).
Proof.
  intros H N. apply mode_s_cases in H.
  destruct H as [M | [(v & _ & _ & ->) | [(v & _ & _ & ->) | (v & G & T & ->)]]].
  - exfalso. apply N. unchanged M F_mach.
  - exfalso. apply N. pose proof (upd40_fp r v) as M. unchanged M F_mach.
  - exfalso. apply N. pose proof (upd50_fp r v) as M. unchanged M F_mach.
  - exists v. unfold upd60. cbv zeta.
    destruct (is_some (b60_baro_rate v)); repeat split; assumption || reflexivity.
Qed.

(** ... and, combined with Part 2, the values written are the Doc 9871 decodings of a frame that
    passes the register test *)
Corollary valid_50_doc r m relaxed r' : wf m -> List.length m = 28%nat ->
  update_from_mode_s r m relaxed = Ok r' -> roll_angle r' <> roll_angle r ->
  bds50_valid m /\
  roll_angle r' = Some (roll_spec (bit_at m 34) (field m 35 43)) /\
  track r' = Some (angle_spec (bit_at m 45) (field m 46 55)) /\
  grspeed r' = Some (speed2_spec (field m 57 66)) /\
  true_airspeed r' = Some (speed2_spec (field m 79 88)) /\
  track_angle_rate r' = Some (tar_spec (bit_at m 68) (field m 69 77)).
Proof.
  intros W L H N. destruct (valid_50 r m relaxed r' H N) as (v & T & _ & A & B & C & D & E).
  destruct (is_bds_5_0_sound m v W L T) as (V & -> & _).
  split; [exact V|]. rewrite A, B, C, D, E. repeat split; reflexivity.
Qed.

Corollary valid_40_doc r m relaxed r' : wf m -> List.length m = 28%nat ->
  update_from_mode_s r m relaxed = Ok r' -> selected_altitude r' <> selected_altitude r ->
  bds40_valid m /\
  selected_altitude r' = Some (sel_alt_spec (field m 34 45)) /\
  baro_setting r' = Some (baro_spec (field m 60 71)).
Proof.
  intros W L H N. destruct (valid_40 r m relaxed r' H N) as (v & T & _ & A & B & _).
  destruct (is_bds_4_0_sound m v W L T) as (V & -> & _).
  split; [exact V|]. rewrite A, B. split; reflexivity.
Qed.

Corollary valid_60_doc r m relaxed r' : wf m -> List.length m = 28%nat ->
  update_from_mode_s r m relaxed = Ok r' -> mach r' <> mach r ->
  bds60_valid m /\
  r_heading r' = Some (angle_spec (bit_at m 34) (field m 35 44)) /\
  indicated_airspeed r' = Some (ias_spec (field m 46 55)) /\
  mach r' = Some (mach_spec (field m 57 66)).
Proof.
  intros W L H N. destruct (valid_60 r m relaxed r' H N) as (v & T & _ & A & B & C & _).
  destruct (is_bds_6_0_sound m v W L T) as (V & -> & _).
  split; [exact V|]. rewrite A, B, C. repeat split; reflexivity.
Qed.

(** ---------- non-vacuity: published sample replies (pyModeS documentation) ---------- *)
(** A000139381951536E024D4CCF6B5 : roll 2.1, track 114.258, GS 438, track rate 0.125, TAS 424 *)
Definition sample50 : list N := [10;0;0;0;1;3;9;3;8;1;9;5;1;5;3;6;14;0;2;4;13;4;12;12;15;6;11;5].
(** A00004128F39F91A7E27C46ADC21 : heading 42.715, IAS 252, Mach 0.42, both rates -1920 *)
Definition sample60 : list N := [10;0;0;0;0;4;1;2;8;15;3;9;15;9;1;10;7;14;2;7;12;4;6;10;13;12;2;1].
(** A000029C85E42F313000007047D3 : MCP 3008 ft, FMS 3008 ft, QNH 1020.0 mb *)
Definition sample40 : list N := [10;0;0;0;0;2;9;12;8;5;14;4;2;15;3;1;3;0;0;0;0;0;7;0;4;7;13;3].

Example sample50_ok : bds50_ok sample50 = true /\
  bds50_doc sample50 = mkB50 (Some 2%Z) (Some 114) (Some 0%Z) (Some 438) (Some 424) /\
  is_bds_5_0 sample50 = Ok (Some (bds50_doc sample50)).
Proof. vm_compute. repeat split; reflexivity. Qed.
Example sample60_ok : bds60_ok sample60 = true /\
  bds60_doc sample60 = mkB60 (Some 42) (Some 252) (Some (420 # 1000)%Q) (Some (-1920)%Z) (Some (-1920)%Z) /\
  is_bds_6_0 sample60 = Ok (Some (bds60_doc sample60)).
Proof. vm_compute. repeat split; reflexivity. Qed.
Example sample40_ok : bds40_ok sample40 = true /\
  bds40_doc sample40 = mkB40 (Some 3008) (Some 3008) (Some 1020) None /\
  is_bds_4_0 sample40 = Ok (Some (bds40_doc sample40)).
Proof. vm_compute. repeat split; reflexivity. Qed.

Print Assumptions roll_angle_5_0_doc.
Print Assumptions is_bds_4_0_char.
Print Assumptions is_bds_5_0_char.
Print Assumptions is_bds_6_0_char.
Print Assumptions is_bds_4_0_sound.
Print Assumptions is_bds_5_0_sound.
Print Assumptions is_bds_6_0_sound.
Print Assumptions is_bds_4_0_complete.
Print Assumptions is_bds_5_0_complete.
Print Assumptions is_bds_6_0_complete.
Print Assumptions update_from_mode_s_outcome.
Print Assumptions gate_closed.
Print Assumptions gate_open_needs.
Print Assumptions advert_40.
Print Assumptions advert_50.
Print Assumptions advert_60.
Print Assumptions valid_40_doc.
Print Assumptions valid_50_doc.
Print Assumptions valid_60_doc.
