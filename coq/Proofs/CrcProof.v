(** The CRC registers of the program (Model/Frame.v: crc56, crc112) compute the
    schoolbook GF(2) remainder of Spec/CrcSpec.v, for ALL register contents; plus the
    algebraic facts (linearity, 1-/2-bit and burst detection) used by the parity property.

    Method: every function involved is linear over [N.lxor]; two linear functions that
    agree on the basis vectors 2^i (i < n) agree on every value below 2^n.  The basis
    checks are closed computations. *)
From SQ Require Import Frame CrcSpec.
Local Open Scope N_scope.

(** ---- register-level views of the model ---- *)
Definition crc56_reg (d : N) : N := N.shiftr (iter 32 crc56_step d) 8.
Definition crc112_reg (d d1 d2 : N) : N :=
  let '(d, _, _) := iter 88 crc112_step (d, d1, d2) in N.shiftr d 8.

Lemma crc56_unfold m d :
  range_value m 1 32 = Ok (Some d) -> crc56 m = Ok (crc56_reg d).
Proof. intros H. unfold crc56, crc56_reg. rewrite H. cbn [bind expect]. reflexivity. Qed.

Lemma crc112_unfold m d d1 d2 :
  range_value m 1 32 = Ok (Some d) ->
  range_value m 33 64 = Ok (Some d1) ->
  range_value m 65 88 = Ok (Some d2) ->
  crc112 m = Ok (crc112_reg d d1 (shl32 d2 8)).
Proof.
  intros H H1 H2. unfold crc112. rewrite H, H1, H2. cbn [bind expect omap].
  unfold crc112_reg. destruct (iter 88 crc112_step (d, d1, shl32 d2 8)) as [[a b] c].
  reflexivity.
Qed.

(** ---- bit-level toolbox ---- *)
Lemma xorb_if (x y : bool) (a b g : N) :
  (if xorb x y then N.lxor (N.lxor a b) g else N.lxor a b) =
  N.lxor (if x then N.lxor a g else a) (if y then N.lxor b g else b).
Proof.
  destruct x, y; cbn [xorb]; apply N.bits_inj; intro i; rewrite ?N.lxor_spec;
    destruct (N.testbit a i), (N.testbit b i), (N.testbit g i); reflexivity.
Qed.

Lemma land_lxor_l a b c : N.land (N.lxor a b) c = N.lxor (N.land a c) (N.land b c).
Proof.
  apply N.bits_inj; intro i. rewrite ?N.land_spec, ?N.lxor_spec, ?N.land_spec.
  destruct (N.testbit a i), (N.testbit b i), (N.testbit c i); reflexivity.
Qed.

Lemma lt_pow2_bits a n i : a < 2 ^ n -> n <= i -> N.testbit a i = false.
Proof.
  intros Ha Hi. destruct (N.eq_dec a 0) as [-> | Hz]; [apply N.bits_0|].
  apply N.bits_above_log2. apply N.log2_lt_pow2 in Ha; lia.
Qed.

Lemma bits_lt_pow2 a n : (forall i, n <= i -> N.testbit a i = false) -> a < 2 ^ n.
Proof.
  intros H. destruct (N.eq_dec a 0) as [-> | Hz].
  - apply N.neq_0_lt_0, N.pow_nonzero. discriminate.
  - apply N.log2_lt_pow2; [lia|].
    destruct (N.lt_ge_cases (N.log2 a) n) as [L | L]; [exact L|].
    apply H in L. rewrite N.bit_log2 in L by exact Hz. discriminate.
Qed.

Lemma land_shiftl_low a b k : b < 2 ^ k -> N.land (N.shiftl a k) b = 0.
Proof.
  intros Hb. apply N.bits_inj; intro i. rewrite N.land_spec, N.bits_0.
  destruct (N.lt_ge_cases i k) as [L | L].
  - rewrite N.shiftl_spec_low by exact L. reflexivity.
  - rewrite (lt_pow2_bits b k i Hb L). apply andb_false_r.
Qed.

Lemma mul_pow2_add_lxor a b k : b < 2 ^ k -> a * 2 ^ k + b = N.lxor (N.shiftl a k) b.
Proof.
  intros Hb. rewrite <- N.shiftl_mul_pow2. apply N.add_nocarry_lxor, land_shiftl_low, Hb.
Qed.

Lemma msb32_testbit d : msb32 d = N.testbit d 31.
Proof.
  unfold msb32. change 2147483648 with (2 ^ 31).
  destruct (N.testbit d 31) eqn:E.
  - destruct (N.eqb_spec (N.land d (2 ^ 31)) 0) as [Z | Z]; [|reflexivity].
    assert (N.testbit (N.land d (2 ^ 31)) 31 = true) as T
      by (rewrite N.land_spec, E, N.pow2_bits_true; reflexivity).
    rewrite Z, N.bits_0 in T. discriminate.
  - replace (N.land d (2 ^ 31)) with 0; [reflexivity|].
    symmetry. apply N.bits_inj; intro i. rewrite N.land_spec, N.bits_0, N.pow2_bits_eqb.
    destruct (N.eqb_spec 31 i) as [<- | _]; [rewrite E; reflexivity | apply andb_false_r].
Qed.

Lemma msb32_lxor a b : msb32 (N.lxor a b) = xorb (msb32 a) (msb32 b).
Proof. rewrite !msb32_testbit. apply N.lxor_spec. Qed.

Lemma shl32_lxor a b k : shl32 (N.lxor a b) k = N.lxor (shl32 a k) (shl32 b k).
Proof. unfold shl32. rewrite N.shiftl_lxor. apply land_lxor_l. Qed.

Lemma shl32_0 k : shl32 0 k = 0.
Proof. unfold shl32. rewrite N.shiftl_0_l. reflexivity. Qed.

(** ---- linear maps on N ---- *)
Definition linear (f : N -> N) : Prop := forall a b, f (N.lxor a b) = N.lxor (f a) (f b).

Lemma linear_0 f : linear f -> f 0 = 0.
Proof.
  intros L. pose proof (L 0 0) as H. rewrite N.lxor_0_l, N.lxor_nilpotent in H. exact H.
Qed.

Lemma linear_comp f g : linear f -> linear g -> linear (fun x => f (g x)).
Proof. intros Lf Lg a b. rewrite Lg, Lf. reflexivity. Qed.

Lemma linear_iter f n : linear f -> linear (iter n f).
Proof.
  intros L. induction n as [| n IH]; intros a b; cbn [iter]; [reflexivity|].
  rewrite L. apply IH.
Qed.

Lemma linear_shiftr k : linear (fun x => N.shiftr x k).
Proof. intros a b. apply N.shiftr_lxor. Qed.
Lemma linear_shiftl k : linear (fun x => N.shiftl x k).
Proof. intros a b. apply N.shiftl_lxor. Qed.
Lemma linear_lxor f g : linear f -> linear g -> linear (fun x => N.lxor (f x) (g x)).
Proof.
  intros Lf Lg a b. rewrite Lf, Lg. apply N.bits_inj; intro i. rewrite ?N.lxor_spec.
  destruct (N.testbit (f a) i), (N.testbit (f b) i), (N.testbit (g a) i), (N.testbit (g b) i);
    reflexivity.
Qed.

(** agreement on the basis vectors 2^0 .. 2^(n-1), as a closed boolean *)
Definition basis_agree (f g : N -> N) (n : nat) : bool :=
  forallb (fun i => f (2 ^ N.of_nat i) =? g (2 ^ N.of_nat i)) (seq 0 n).

Lemma basis_agree_sound f g n :
  basis_agree f g n = true -> forall i, (i < n)%nat -> f (2 ^ N.of_nat i) = g (2 ^ N.of_nat i).
Proof.
  unfold basis_agree. rewrite forallb_forall. intros H i Hi.
  apply N.eqb_eq, H, in_seq. lia.
Qed.

Lemma linear_ext f g n :
  linear f -> linear g -> basis_agree f g n = true ->
  forall a, a < 2 ^ N.of_nat n -> f a = g a.
Proof.
  intros Lf Lg B. pose proof (basis_agree_sound f g n B) as E. clear B.
  induction n as [| n IH]; intros a Ha.
  - change (2 ^ N.of_nat 0) with 1 in Ha. assert (a = 0) as -> by lia.
    rewrite (linear_0 f Lf), (linear_0 g Lg). reflexivity.
  - assert (forall i, (i < n)%nat -> f (2 ^ N.of_nat i) = g (2 ^ N.of_nat i)) as E'
      by (intros i Hi; apply E; lia).
    specialize (IH E').
    destruct (N.lt_ge_cases a (2 ^ N.of_nat n)) as [L | L]; [apply IH, L|].
    assert (a - 2 ^ N.of_nat n < 2 ^ N.of_nat n) as Hr.
    { rewrite Nat2N.inj_succ, N.pow_succ_r' in Ha. lia. }
    assert (a = N.lxor (N.shiftl 1 (N.of_nat n)) (a - 2 ^ N.of_nat n)) as ->.
    { rewrite <- mul_pow2_add_lxor by exact Hr. lia. }
    rewrite Lf, Lg, N.shiftl_1_l, (E n) by lia. rewrite (IH _ Hr). reflexivity.
Qed.

(** ---- the specification is linear ---- *)
Lemma div_step_linear k : linear (div_step k).
Proof. intros a b. unfold div_step. rewrite N.lxor_spec. apply xorb_if. Qed.

Lemma div_loop_linear k : linear (div_loop k).
Proof.
  induction k as [| k IH]; intros a b; cbn [div_loop]; [reflexivity|].
  rewrite div_step_linear. apply IH.
Qed.

Lemma crc_spec_linear n : linear (fun d => crc_spec d n).
Proof. intros a b. unfold crc_spec. rewrite N.shiftl_lxor. apply div_loop_linear. Qed.

(** linearity of the specification (holds without any bound on a, b) *)
Theorem crc_spec_lxor a b n : crc_spec (N.lxor a b) n = N.lxor (crc_spec a n) (crc_spec b n).
Proof. apply crc_spec_linear. Qed.

(** ---- crc56 ---- *)
Lemma crc56_step_linear : linear crc56_step.
Proof.
  intros a b. unfold crc56_step. rewrite msb32_lxor, xorb_if. apply shl32_lxor.
Qed.

Lemma crc56_reg_linear : linear crc56_reg.
Proof.
  unfold crc56_reg.
  apply (linear_comp (fun x => N.shiftr x 8) (iter 32 crc56_step));
    [apply linear_shiftr | apply linear_iter, crc56_step_linear].
Qed.

Lemma crc56_basis : basis_agree crc56_reg (fun d => crc_spec d 32) 32 = true.
Proof. vm_cast_no_check (eq_refl true). Qed.

Theorem crc56_reg_spec d : d < 2 ^ 32 -> crc56_reg d = crc_spec d 32.
Proof.
  apply (linear_ext crc56_reg (fun d => crc_spec d 32) 32);
    [apply crc56_reg_linear | apply crc_spec_linear | apply crc56_basis].
Qed.

(** ---- crc112: the three registers form one 96-bit shift register ---- *)
Definition xor3 (s t : N * N * N) : N * N * N :=
  let '(a, b, c) := s in let '(a', b', c') := t in (N.lxor a a', N.lxor b b', N.lxor c c').

(** the "carry-in" [if msb32 y then N.lor x 1 else x] on an even x is xor with the bit *)
Lemma shl32_1_even x : N.land (shl32 x 1) 1 = 0.
Proof.
  apply N.bits_inj; intro i. rewrite N.land_spec, N.bits_0. unfold shl32.
  rewrite N.land_spec. change 1 with (2 ^ 0) at 2. rewrite N.pow2_bits_eqb.
  destruct (N.eqb_spec 0 i) as [<- | _]; [|apply andb_false_r].
  rewrite N.shiftl_spec_low by lia. reflexivity.
Qed.

Lemma carry_in x y :
  (if msb32 y then N.lor (shl32 x 1) 1 else shl32 x 1) = N.lxor (shl32 x 1) (b2n (msb32 y)).
Proof.
  destruct (msb32 y); cbn [b2n]; [|rewrite N.lxor_0_r; reflexivity].
  symmetry. apply N.lxor_lor, shl32_1_even.
Qed.

Lemma b2n_xorb x y : b2n (xorb x y) = N.lxor (b2n x) (b2n y).
Proof. destruct x, y; reflexivity. Qed.

Lemma lxor_swap a b c d : N.lxor (N.lxor a b) (N.lxor c d) = N.lxor (N.lxor a c) (N.lxor b d).
Proof.
  apply N.bits_inj; intro i. rewrite ?N.lxor_spec.
  destruct (N.testbit a i), (N.testbit b i), (N.testbit c i), (N.testbit d i); reflexivity.
Qed.

Lemma pair3_eq (a b c a' b' c' : N) : a = a' -> b = b' -> c = c' -> (a, b, c) = (a', b', c').
Proof. intros -> -> ->. reflexivity. Qed.

Lemma crc112_step_alt d d1 d2 :
  crc112_step (d, d1, d2) =
  (N.lxor (shl32 (if msb32 d then N.lxor d poly else d) 1) (b2n (msb32 d1)),
   N.lxor (shl32 d1 1) (b2n (msb32 d2)),
   shl32 d2 1).
Proof. unfold crc112_step. rewrite !carry_in. reflexivity. Qed.

Lemma crc112_step_linear s t :
  crc112_step (xor3 s t) = xor3 (crc112_step s) (crc112_step t).
Proof.
  destruct s as [[a b] c], t as [[a' b'] c']. cbn [xor3]. rewrite !crc112_step_alt. cbn [xor3].
  rewrite !msb32_lxor, !b2n_xorb, xorb_if, !shl32_lxor.
  apply pair3_eq; [apply lxor_swap | apply lxor_swap | reflexivity].
Qed.

Lemma iter_crc112_linear n s t :
  iter n crc112_step (xor3 s t) = xor3 (iter n crc112_step s) (iter n crc112_step t).
Proof.
  revert s t. induction n as [| n IH]; intros s t; cbn [iter]; [reflexivity|].
  rewrite crc112_step_linear. apply IH.
Qed.

Lemma crc112_reg_xor3 a b c a' b' c' :
  crc112_reg (N.lxor a a') (N.lxor b b') (N.lxor c c') =
  N.lxor (crc112_reg a b c) (crc112_reg a' b' c').
Proof.
  unfold crc112_reg. change (N.lxor a a', N.lxor b b', N.lxor c c') with (xor3 (a, b, c) (a', b', c')).
  rewrite iter_crc112_linear.
  destruct (iter 88 crc112_step (a, b, c)) as [[x y] z].
  destruct (iter 88 crc112_step (a', b', c')) as [[x' y'] z']. cbn [xor3].
  apply N.shiftr_lxor.
Qed.

Definition c112_hi (d : N) : N := crc112_reg d 0 0.
Definition c112_mid (d1 : N) : N := crc112_reg 0 d1 0.
Definition c112_lo (d2 : N) : N := crc112_reg 0 0 (N.shiftl d2 8).

Lemma crc112_reg_split d d1 d2 :
  crc112_reg d d1 (N.shiftl d2 8) = N.lxor (c112_hi d) (N.lxor (c112_mid d1) (c112_lo d2)).
Proof.
  unfold c112_hi, c112_mid, c112_lo.
  rewrite <- !crc112_reg_xor3. rewrite !N.lxor_0_l, !N.lxor_0_r. reflexivity.
Qed.

Lemma c112_hi_linear : linear c112_hi.
Proof. intros a b. unfold c112_hi. rewrite <- crc112_reg_xor3, !N.lxor_0_l. reflexivity. Qed.
Lemma c112_mid_linear : linear c112_mid.
Proof. intros a b. unfold c112_mid. rewrite <- crc112_reg_xor3, !N.lxor_0_l. reflexivity. Qed.
Lemma c112_lo_linear : linear c112_lo.
Proof.
  intros a b. unfold c112_lo. rewrite <- crc112_reg_xor3, !N.lxor_0_l, N.shiftl_lxor. reflexivity.
Qed.

Definition s112_hi (d : N) : N := crc_spec (N.shiftl d 56) 88.
Definition s112_mid (d1 : N) : N := crc_spec (N.shiftl d1 24) 88.
Definition s112_lo (d2 : N) : N := crc_spec d2 88.

Lemma s112_hi_linear : linear s112_hi.
Proof. intros a b. unfold s112_hi. rewrite N.shiftl_lxor. apply crc_spec_lxor. Qed.
Lemma s112_mid_linear : linear s112_mid.
Proof. intros a b. unfold s112_mid. rewrite N.shiftl_lxor. apply crc_spec_lxor. Qed.
Lemma s112_lo_linear : linear s112_lo.
Proof. intros a b. apply crc_spec_lxor. Qed.

Lemma c112_hi_basis : basis_agree c112_hi s112_hi 32 = true.
Proof. vm_cast_no_check (eq_refl true). Qed.
Lemma c112_mid_basis : basis_agree c112_mid s112_mid 32 = true.
Proof. vm_cast_no_check (eq_refl true). Qed.
Lemma c112_lo_basis : basis_agree c112_lo s112_lo 24 = true.
Proof. vm_cast_no_check (eq_refl true). Qed.

Theorem crc112_reg_spec d d1 d2' :
  d < 2 ^ 32 -> d1 < 2 ^ 32 -> d2' < 2 ^ 24 ->
  crc112_reg d d1 (d2' * 256) = crc_spec (d * 2 ^ 56 + d1 * 2 ^ 24 + d2') 88.
Proof.
  intros H H1 H2.
  assert (d1 * 2 ^ 24 + d2' < 2 ^ 56) as B.
  { change (2 ^ 56) with (2 ^ 32 * 2 ^ 24). nia. }
  rewrite <- N.add_assoc, (mul_pow2_add_lxor d _ 56 B), (mul_pow2_add_lxor d1 _ 24 H2).
  rewrite !crc_spec_lxor.
  change 256 with (2 ^ 8). rewrite <- N.shiftl_mul_pow2.
  rewrite crc112_reg_split.
  rewrite (linear_ext c112_hi s112_hi 32 c112_hi_linear s112_hi_linear c112_hi_basis d H).
  rewrite (linear_ext c112_mid s112_mid 32 c112_mid_linear s112_mid_linear c112_mid_basis d1 H1).
  rewrite (linear_ext c112_lo s112_lo 24 c112_lo_linear s112_lo_linear c112_lo_basis d2' H2).
  reflexivity.
Qed.

Lemma shl32_8_small x : x < 2 ^ 24 -> shl32 x 8 = x * 256.
Proof.
  intros H. unfold shl32. change 4294967295 with (N.ones 32). rewrite N.land_ones.
  rewrite N.shiftl_mul_pow2. change (2 ^ 8) with 256. apply N.mod_small.
  change (2 ^ 32) with (2 ^ 24 * 256). nia.
Qed.

(** the model functions, given what [range_value] returned *)
Corollary crc56_spec m d :
  range_value m 1 32 = Ok (Some d) -> d < 2 ^ 32 -> crc56 m = Ok (crc_spec d 32).
Proof. intros H B. rewrite (crc56_unfold m d H), crc56_reg_spec by exact B. reflexivity. Qed.

Corollary crc112_spec m d d1 d2 :
  range_value m 1 32 = Ok (Some d) -> range_value m 33 64 = Ok (Some d1) ->
  range_value m 65 88 = Ok (Some d2) ->
  d < 2 ^ 32 -> d1 < 2 ^ 32 -> d2 < 2 ^ 24 ->
  crc112 m = Ok (crc_spec (d * 2 ^ 56 + d1 * 2 ^ 24 + d2) 88).
Proof.
  intros H H1 H2 B B1 B2. rewrite (crc112_unfold m d d1 d2 H H1 H2), shl32_8_small by exact B2.
  rewrite crc112_reg_spec by assumption. reflexivity.
Qed.

(** ==== algebraic facts about the specification, for the parity property ==== *)

(** sanity: the specification accepts real-world frames (two DF17, one DF11 with II = 0) *)
Example syndrome_known_good :
  syndrome 0x8D406B902015A678D4D220AA4BDA 112 = 0 /\
  syndrome 0x8D4840D6202CC371C32CE0576098 112 = 0 /\
  syndrome 0x5D4840D6F8740F 56 = 0.
Proof. vm_compute. repeat split; reflexivity. Qed.

Lemma syndrome_linear n : linear (fun f => syndrome f n).
Proof.
  intros a b. unfold syndrome. rewrite <- !N.shiftr_div_pow2, <- !N.land_ones.
  rewrite N.shiftr_lxor, land_lxor_l, crc_spec_lxor. apply lxor_swap.
Qed.

Theorem syndrome_lxor a b n : syndrome (N.lxor a b) n = N.lxor (syndrome a n) (syndrome b n).
Proof. apply syndrome_linear. Qed.

Lemma syndrome_0_iff frame n :
  syndrome frame n = 0 <-> crc_spec (frame / 2 ^ 24) (n - 24) = frame mod 2 ^ 24.
Proof. unfold syndrome. apply N.lxor_eq_0_iff. Qed.

(** the syndrome is the remainder of the whole frame: long division applied to the frame *)
Lemma div_step_id k reg : N.testbit reg (N.of_nat (k + 24)) = false -> div_step k reg = reg.
Proof. intros H. unfold div_step. rewrite H. reflexivity. Qed.

Lemma div_loop_small k reg : reg < 2 ^ 24 -> div_loop k reg = reg.
Proof.
  intros H. induction k as [| k IH]; cbn [div_loop]; [reflexivity|].
  rewrite div_step_id; [exact IH|]. apply (lt_pow2_bits reg 24); [exact H | lia].
Qed.

Lemma split24 frame : frame = N.lxor (N.shiftl (frame / 2 ^ 24) 24) (frame mod 2 ^ 24).
Proof.
  rewrite <- mul_pow2_add_lxor by (apply N.mod_lt; discriminate).
  rewrite (N.mul_comm (frame / 2 ^ 24)). apply N.div_mod'.
Qed.

Theorem syndrome_div_loop frame n : syndrome frame n = div_loop (n - 24) frame.
Proof.
  unfold syndrome, crc_spec.
  assert (div_loop (n - 24) frame =
          div_loop (n - 24) (N.lxor (N.shiftl (frame / 2 ^ 24) 24) (frame mod 2 ^ 24))) as E
    by (f_equal; apply split24).
  rewrite E, div_loop_linear.
  rewrite (div_loop_small _ (frame mod 2 ^ 24)) by (apply N.mod_lt; discriminate).
  reflexivity.
Qed.

(** ---- 1- and 2-bit error patterns, by exhaustive closed computation ---- *)
(** bit [k] of an [n]-bit frame, counted from 1 = first transmitted = most significant *)
Definition fbit (n k : nat) : N := 2 ^ N.of_nat (n - k).
(** the error pattern hitting positions i and j (a single bit when i = j) *)
Definition err2 (n i j : nat) : N :=
  if Nat.eqb i j then fbit n i else N.lxor (fbit n i) (fbit n j).

Definition allpairs (lo hi : nat) (P : nat -> nat -> bool) : bool :=
  forallb (fun i => forallb (fun j => P i j) (seq i (S hi - i))) (seq lo (S hi - lo)).

Lemma allpairs_sound lo hi P :
  allpairs lo hi P = true ->
  forall i j, (lo <= i)%nat -> (i <= j)%nat -> (j <= hi)%nat -> P i j = true.
Proof.
  unfold allpairs. rewrite forallb_forall. intros H i j Hi Hij Hj.
  assert (In i (seq lo (S hi - lo))) as Ii by (apply in_seq; lia).
  specialize (H i Ii). rewrite forallb_forall in H. apply H, in_seq. lia.
Qed.

Definition nz (x : N) : bool := negb (x =? 0).
Lemma nz_sound x : nz x = true -> x <> 0.
Proof. unfold nz. intros H E. rewrite E in H. discriminate. Qed.

Lemma err2_same n i : err2 n i i = fbit n i.
Proof. unfold err2. rewrite Nat.eqb_refl. reflexivity. Qed.
Lemma err2_diff n i j : i <> j -> err2 n i j = N.lxor (fbit n i) (fbit n j).
Proof. intros H. unfold err2. destruct (Nat.eqb_spec i j) as [E | _]; [contradiction | reflexivity]. Qed.

(** generic in the frame length [n], so that no later proof ever asks the kernel to
    evaluate a syndrome of a concrete length on symbolic positions *)
Definition det (n i j : nat) : bool := nz (syndrome (err2 n i j) n).
Lemma det_sound n i j : det n i j = true -> syndrome (err2 n i j) n <> 0.
Proof. unfold det. apply nz_sound. Qed.

Lemma det112_sweep : allpairs 1 112 (det 112) = true.
Proof. vm_cast_no_check (eq_refl true). Qed.
Lemma det56_sweep : allpairs 1 56 (det 56) = true.
Proof. vm_cast_no_check (eq_refl true). Qed.

(** every 1-bit (i = j) and 2-bit (i < j) error in a 112-bit frame has a non-zero syndrome;
    proved for all positions 1..112, hence in particular for 6..112 *)
Theorem syndrome_1_2_bit_112_all i j :
  (1 <= i)%nat -> (i <= j)%nat -> (j <= 112)%nat -> syndrome (err2 112 i j) 112 <> 0.
Proof.
  intros Hi Hij Hj.
  exact (det_sound 112 i j (allpairs_sound 1 112 (det 112) det112_sweep i j Hi Hij Hj)).
Qed.

Theorem syndrome_1_2_bit_112 i j :
  (6 <= i)%nat -> (i <= j)%nat -> (j <= 112)%nat -> syndrome (err2 112 i j) 112 <> 0.
Proof. intros Hi. apply syndrome_1_2_bit_112_all. lia. Qed.

Corollary syndrome_1_bit_112 i :
  (1 <= i)%nat -> (i <= 112)%nat -> syndrome (fbit 112 i) 112 <> 0.
Proof.
  intros Hi Hj. rewrite <- err2_same. apply syndrome_1_2_bit_112_all; [exact Hi | apply le_n | exact Hj].
Qed.

Corollary syndrome_2_bit_112 i j :
  (1 <= i)%nat -> (i < j)%nat -> (j <= 112)%nat ->
  syndrome (N.lxor (fbit 112 i) (fbit 112 j)) 112 <> 0.
Proof.
  intros Hi Hij Hj. rewrite <- err2_diff by lia. apply syndrome_1_2_bit_112_all; [exact Hi | lia | exact Hj].
Qed.

(** the same for 56-bit frames with the full 24-bit comparison (DF17-style) *)
Theorem syndrome_1_2_bit_56 i j :
  (1 <= i)%nat -> (i <= j)%nat -> (j <= 56)%nat -> syndrome (err2 56 i j) 56 <> 0.
Proof.
  intros Hi Hij Hj.
  exact (det_sound 56 i j (allpairs_sound 1 56 (det 56) det56_sweep i j Hi Hij Hj)).
Qed.

(** DF11: the program compares only [syndrome land 0xFFFF80]; the 7 low bits (the
    interrogator code, frame bits 50..56 resp. 106..112) are NOT protected.  Exactly the
    1-/2-bit patterns lying entirely inside those 7 bits escape; every other one is caught. *)
Definition df11_mask : N := 16777088. (* 0xFFFF80 *)
Definition esc (n lim i j : nat) : bool :=
  Bool.eqb (N.land (syndrome (err2 n i j) n) df11_mask =? 0) (Nat.leb lim i).
Lemma esc_sound n lim i j :
  esc n lim i j = true ->
  (N.land (syndrome (err2 n i j) n) df11_mask = 0 <-> (lim <= i)%nat).
Proof.
  unfold esc. intros H. apply Bool.eqb_prop in H. rewrite <- N.eqb_eq, H. apply Nat.leb_le.
Qed.

Lemma esc56_sweep : allpairs 1 56 (esc 56 50) = true.
Proof. vm_cast_no_check (eq_refl true). Qed.
Lemma esc112_sweep : allpairs 1 112 (esc 112 106) = true.
Proof. vm_cast_no_check (eq_refl true). Qed.

Theorem syndrome_1_2_bit_56_df11 i j :
  (1 <= i)%nat -> (i <= j)%nat -> (j <= 56)%nat ->
  (N.land (syndrome (err2 56 i j) 56) df11_mask = 0 <-> (50 <= i)%nat).
Proof.
  intros Hi Hij Hj.
  exact (esc_sound 56 50 i j (allpairs_sound 1 56 (esc 56 50) esc56_sweep i j Hi Hij Hj)).
Qed.

Corollary syndrome_1_2_bit_56_df11_detected i j :
  (6 <= i)%nat -> (i <= 49)%nat -> (i <= j)%nat -> (j <= 56)%nat ->
  N.land (syndrome (err2 56 i j) 56) df11_mask <> 0.
Proof. intros Hi Hi' Hij Hj E. apply syndrome_1_2_bit_56_df11 in E; lia. Qed.

Theorem syndrome_1_2_bit_112_df11 i j :
  (1 <= i)%nat -> (i <= j)%nat -> (j <= 112)%nat ->
  (N.land (syndrome (err2 112 i j) 112) df11_mask = 0 <-> (106 <= i)%nat).
Proof.
  intros Hi Hij Hj.
  exact (esc_sound 112 106 i j (allpairs_sound 1 112 (esc 112 106) esc112_sweep i j Hi Hij Hj)).
Qed.

(** ---- burst errors, algebraically ----
    Multiplication by x modulo GEN on 24-bit remainders.  GEN has degree 24 (so the result
    stays below 2^24) and constant term 1 (so the map is injective: it never sends a
    non-zero remainder to zero). *)
Definition mulx (r : N) : N := N.lxor (N.shiftl r 1) (if N.testbit r 23 then GEN else 0).

Lemma GEN_bits_high i : 24 < i -> N.testbit GEN i = false.
Proof. intros H. apply (lt_pow2_bits GEN 25); [reflexivity | lia]. Qed.

Lemma mulx_lt r : r < 2 ^ 24 -> mulx r < 2 ^ 24.
Proof.
  intros H. apply bits_lt_pow2. intros i Hi. unfold mulx. rewrite N.lxor_spec.
  rewrite N.shiftl_spec_high' by lia.
  destruct (N.eq_dec i 24) as [-> | Ne].
  - change (24 - 1) with 23. destruct (N.testbit r 23); reflexivity.
  - rewrite (lt_pow2_bits r 24 (i - 1) H) by lia.
    destruct (N.testbit r 23); [rewrite GEN_bits_high by lia | rewrite N.bits_0]; reflexivity.
Qed.

Lemma mulx_nz r : r <> 0 -> mulx r <> 0.
Proof.
  intros Hr E. unfold mulx in E. destruct (N.testbit r 23).
  - assert (N.testbit (N.lxor (N.shiftl r 1) GEN) 0 = true) as T
      by (rewrite N.lxor_spec, N.shiftl_spec_low by lia; reflexivity).
    rewrite E, N.bits_0 in T. discriminate.
  - rewrite N.lxor_0_r in E. apply N.shiftl_eq_0_iff in E. contradiction.
Qed.

Lemma iter_mulx s r : r < 2 ^ 24 -> r <> 0 -> iter s mulx r <> 0.
Proof.
  revert r. induction s as [| s IH]; intros r H Hr; cbn [iter]; [exact Hr|].
  apply IH; [apply mulx_lt, H | apply mulx_nz, Hr].
Qed.

Lemma div_step_shift s b : div_step s (N.shiftl b (N.of_nat (S s))) = N.shiftl (mulx b) (N.of_nat s).
Proof.
  unfold div_step, mulx. rewrite N.shiftl_spec_high' by lia.
  replace (N.of_nat (s + 24) - N.of_nat (S s)) with 23 by lia.
  replace (N.of_nat (S s)) with (1 + N.of_nat s) by lia.
  rewrite <- N.shiftl_shiftl, N.shiftl_lxor.
  destruct (N.testbit b 23); [reflexivity|].
  rewrite N.shiftl_0_l, N.lxor_0_r. reflexivity.
Qed.

Lemma div_loop_shift s b : div_loop s (N.shiftl b (N.of_nat s)) = iter s mulx b.
Proof.
  revert b. induction s as [| s IH]; intros b; cbn [div_loop iter].
  - apply N.shiftl_0_r.
  - rewrite div_step_shift. apply IH.
Qed.

Lemma div_loop_above d s reg : reg < 2 ^ N.of_nat (s + 24) -> div_loop (d + s) reg = div_loop s reg.
Proof.
  intros H. induction d as [| d IH]; [reflexivity|].
  cbn [plus div_loop]. rewrite div_step_id; [exact IH|].
  apply (lt_pow2_bits reg _ _ H). lia.
Qed.

Lemma shiftl_lt b s : b < 2 ^ 24 -> N.shiftl b (N.of_nat s) < 2 ^ N.of_nat (s + 24).
Proof.
  intros H. rewrite N.shiftl_mul_pow2, Nat2N.inj_add, N.pow_add_r, N.mul_comm.
  apply N.mul_lt_mono_pos_l; [|exact H].
  apply N.neq_0_lt_0, N.pow_nonzero. discriminate.
Qed.

(** Any non-zero error pattern confined to 24 consecutive bit positions of an n-bit frame
    (pattern [b] < 2^24 placed [s] bits above the frame's last bit, s + 24 <= n, i.e. it
    touches only frame bits n-s-23 .. n-s counted from 1 = MSB) has a non-zero syndrome. *)
Theorem syndrome_burst n b s :
  b <> 0 -> b < 2 ^ 24 -> (s + 24 <= n)%nat -> syndrome (N.shiftl b (N.of_nat s)) n <> 0.
Proof.
  intros Hb Hlt Hs. rewrite syndrome_div_loop.
  replace (n - 24)%nat with ((n - 24 - s) + s)%nat by lia.
  rewrite div_loop_above by (apply shiftl_lt, Hlt).
  rewrite div_loop_shift. apply iter_mulx; assumption.
Qed.

Corollary syndrome_burst_112 b s :
  b <> 0 -> b < 2 ^ 24 -> (s <= 88)%nat -> syndrome (N.shiftl b (N.of_nat s)) 112 <> 0.
Proof. intros Hb Hlt Hs. apply syndrome_burst; [assumption | assumption | lia]. Qed.

Corollary syndrome_burst_56 b s :
  b <> 0 -> b < 2 ^ 24 -> (s <= 32)%nat -> syndrome (N.shiftl b (N.of_nat s)) 56 <> 0.
Proof. intros Hb Hlt Hs. apply syndrome_burst; [assumption | assumption | lia]. Qed.

Print Assumptions crc56_reg_spec.
Print Assumptions crc112_reg_spec.
Print Assumptions crc56_spec.
Print Assumptions crc112_spec.
Print Assumptions crc_spec_lxor.
Print Assumptions syndrome_lxor.
Print Assumptions syndrome_div_loop.
Print Assumptions syndrome_1_2_bit_112.
Print Assumptions syndrome_1_2_bit_56.
Print Assumptions syndrome_1_2_bit_56_df11.
Print Assumptions syndrome_1_2_bit_112_df11.
Print Assumptions syndrome_burst.
