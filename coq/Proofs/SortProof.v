(** Print order (Model/Sort.v): permutation, sortedness by the last recognised option letter,
    default address order, each aircraft exactly once, stability of the sort. *)
From Coq Require Import List Permutation Sorted ZArith NArith Lia Bool.
From SQ Require Import Sort.
Import ListNotations.
Local Open Scope Z_scope.

(** * Generic list facts *)

Lemma StronglySorted_app {A} (R : A -> A -> Prop) (l1 l2 : list A) :
  StronglySorted R l1 -> StronglySorted R l2 ->
  (forall a b, In a l1 -> In b l2 -> R a b) ->
  StronglySorted R (l1 ++ l2).
Proof.
  induction l1 as [|a l1 IH]; simpl; intros H1 H2 H; auto.
  inversion H1; subst. constructor.
  - apply IH; auto.
  - apply Forall_app; split; auto.
    apply Forall_forall; intros b Hb; apply H; auto.
Qed.

Lemma StronglySorted_rev {A} (R : A -> A -> Prop) (l : list A) :
  StronglySorted R l -> StronglySorted (fun a b => R b a) (rev l).
Proof.
  induction 1 as [|a l Hs IH Hf]; simpl.
  - constructor.
  - apply StronglySorted_app; auto.
    + repeat constructor.
    + intros x y Hx [<-|[]]. apply in_rev in Hx.
      rewrite Forall_forall in Hf; auto.
Qed.

Lemma StronglySorted_impl {A} (R S : A -> A -> Prop) (l : list A) :
  (forall a b, R a b -> S a b) -> StronglySorted R l -> StronglySorted S l.
Proof.
  intros HRS; induction 1; constructor; auto.
  eapply Forall_impl; [|eassumption]; auto.
Qed.

(** * insert_by / stable_sort *)

Section Generic.
Context {A : Type} (key : A -> Z).

Lemma insert_by_perm x l : Permutation (insert_by key x l) (x :: l).
Proof.
  induction l as [|y t IH]; simpl; auto.
  destruct (key x <? key y); auto.
  rewrite IH. apply perm_swap.
Qed.

Lemma insert_by_sorted x l :
  StronglySorted (fun a b => key a <= key b) l ->
  StronglySorted (fun a b => key a <= key b) (insert_by key x l).
Proof.
  induction 1 as [|y t Hs IH Hf]; simpl.
  - repeat constructor.
  - destruct (key x <? key y) eqn:E.
    + apply Z.ltb_lt in E. constructor.
      * constructor; auto.
      * constructor; [lia|]. eapply Forall_impl; [|exact Hf]. simpl; intros; lia.
    + apply Z.ltb_ge in E. constructor; auto.
      apply Forall_forall; intros b Hb.
      apply (Permutation_in _ (insert_by_perm x t)) in Hb.
      destruct Hb as [<-|Hb]; auto.
      rewrite Forall_forall in Hf; auto.
Qed.

Lemma fold_insert_perm l acc :
  Permutation (fold_left (fun acc x => insert_by key x acc) l acc) (l ++ acc).
Proof.
  revert acc; induction l as [|x l IH]; simpl; intros acc; auto.
  rewrite IH, insert_by_perm. symmetry; apply Permutation_middle.
Qed.

Lemma stable_sort_perm l : Permutation (stable_sort key l) l.
Proof. unfold stable_sort. rewrite fold_insert_perm, app_nil_r; auto. Qed.

Lemma fold_insert_sorted l acc :
  StronglySorted (fun a b => key a <= key b) acc ->
  StronglySorted (fun a b => key a <= key b) (fold_left (fun acc x => insert_by key x acc) l acc).
Proof.
  revert acc; induction l as [|x l IH]; simpl; intros acc H; auto.
  apply IH, insert_by_sorted, H.
Qed.

Lemma stable_sort_sorted l :
  StronglySorted (fun a b => key a <= key b) (stable_sort key l).
Proof. apply fold_insert_sorted; constructor. Qed.

(** ** Stability *)

Lemma filter_none (f : A -> bool) l : (forall z, In z l -> f z = false) -> filter f l = [].
Proof.
  induction l as [|y t IH]; simpl; intros H; auto.
  rewrite (H y) by auto. apply IH; auto.
Qed.

Lemma insert_by_filter k x l :
  StronglySorted (fun a b => key a <= key b) l ->
  filter (fun z => key z =? k) (insert_by key x l) =
  filter (fun z => key z =? k) l ++ (if key x =? k then [x] else []).
Proof.
  induction 1 as [|y t Hs IH Hf]; simpl.
  - destruct (key x =? k); auto.
  - destruct (key x <? key y) eqn:E.
    + apply Z.ltb_lt in E. simpl.
      destruct (key x =? k) eqn:Ex; simpl.
      * apply Z.eqb_eq in Ex.
        replace (key y =? k) with false by (symmetry; apply Z.eqb_neq; lia).
        rewrite filter_none; auto.
        intros z Hz. rewrite Forall_forall in Hf. specialize (Hf z Hz).
        apply Z.eqb_neq; lia.
      * rewrite app_nil_r; auto.
    + simpl. rewrite IH. destruct (key y =? k); auto.
Qed.

Lemma fold_insert_filter k l acc :
  StronglySorted (fun a b => key a <= key b) acc ->
  filter (fun z => key z =? k) (fold_left (fun acc x => insert_by key x acc) l acc) =
  filter (fun z => key z =? k) acc ++ filter (fun z => key z =? k) l.
Proof.
  revert acc; induction l as [|x l IH]; simpl; intros acc H.
  - rewrite app_nil_r; auto.
  - rewrite IH by (apply insert_by_sorted; auto).
    rewrite insert_by_filter by auto. rewrite <- app_assoc.
    destruct (key x =? k); auto.
Qed.

(** stability, filter form: the elements of any one key class keep their relative order *)
Theorem stable_sort_filter k l :
  filter (fun z => key z =? k) (stable_sort key l) = filter (fun z => key z =? k) l.
Proof. unfold stable_sort. rewrite fold_insert_filter by constructor. auto. Qed.

Lemma filter_split (f : A -> bool) l a x b :
  filter f l = a ++ x :: b ->
  exists l1 l2, l = l1 ++ x :: l2 /\ filter f l1 = a /\ filter f l2 = b.
Proof.
  revert a; induction l as [|y t IH]; simpl; intros a H.
  - destruct a; discriminate.
  - destruct (f y) eqn:E.
    + destruct a as [|a0 a]; simpl in H.
      * inversion H; subst. exists [], t; simpl; auto.
      * inversion H; subst. destruct (IH _ H2) as (l1 & l2 & -> & <- & <-).
        exists (a0 :: l1), l2; simpl. rewrite E; auto.
    + destruct (IH _ H) as (l1 & l2 & -> & <- & <-).
      exists (y :: l1), l2; simpl. rewrite E; auto.
Qed.

(** stability, positional form: two tied elements keep their relative position *)
Theorem stable_sort_stable l1 x l2 y l3 :
  key x = key y ->
  exists m1 m2 m3, stable_sort key (l1 ++ x :: l2 ++ y :: l3) = m1 ++ x :: m2 ++ y :: m3.
Proof.
  intros Hk.
  pose proof (stable_sort_filter (key x) (l1 ++ x :: l2 ++ y :: l3)) as H.
  rewrite filter_app in H; simpl in H. rewrite filter_app in H; simpl in H.
  rewrite <- Hk, Z.eqb_refl in H.
  apply filter_split in H. destruct H as (m1 & r & Hm & _ & Hr).
  apply filter_split in Hr. destruct Hr as (m2 & m3 & -> & _ & _).
  exists m1, m2, m3; auto.
Qed.

End Generic.

(** * apply_sort / print_order *)

Definition ord_rel (key : row -> Z) (rv : bool) (a b : N * row) : Prop :=
  if rv then key (snd b) <= key (snd a) else key (snd a) <= key (snd b).

Lemma apply_sort_nosort dkey l c : sort_action_of dkey c = NoSort -> apply_sort dkey l c = l.
Proof. unfold apply_sort; intros ->; auto. Qed.

Lemma apply_sort_perm dkey l c : Permutation (apply_sort dkey l c) l.
Proof.
  unfold apply_sort. destruct (sort_action_of dkey c) as [key rv|]; auto.
  cbv zeta. destruct rv.
  - rewrite <- Permutation_rev. apply stable_sort_perm.
  - apply stable_sort_perm.
Qed.

Lemma apply_sort_sorted dkey l c key rv :
  sort_action_of dkey c = SortBy key rv ->
  StronglySorted (fun a b => if rv then key (snd b) <= key (snd a) else key (snd a) <= key (snd b))
    (apply_sort dkey l c).
Proof.
  unfold apply_sort; intros ->. cbv zeta.
  pose proof (stable_sort_sorted (fun p : N * row => key (snd p)) l) as H.
  destruct rv; auto.
  apply StronglySorted_rev in H. exact H.
Qed.

Lemma fold_apply_sort_perm dkey cs l : Permutation (fold_left (apply_sort dkey) cs l) l.
Proof.
  revert l; induction cs as [|c cs IH]; simpl; intros l; auto.
  rewrite IH. apply apply_sort_perm.
Qed.

Lemma fold_apply_sort_nosort dkey cs l :
  (forall x, In x cs -> sort_action_of dkey x = NoSort) ->
  fold_left (apply_sort dkey) cs l = l.
Proof.
  revert l; induction cs as [|c cs IH]; simpl; intros l H; auto.
  rewrite apply_sort_nosort by auto. apply IH; auto.
Qed.

(** 1. the printed rows are a permutation of the table *)
Theorem print_order_perm : forall dkey ob t, Permutation (print_order dkey ob t) t.
Proof.
  intros; unfold print_order. rewrite fold_apply_sort_perm. apply stable_sort_perm.
Qed.

(** 2. the rows are monotone in the key of the last recognised option letter *)
Theorem print_order_sorted_last : forall dkey ob t pre c post key rv,
  List.concat ob = pre ++ c :: post ->
  sort_action_of dkey c = SortBy key rv ->
  (forall x, In x post -> sort_action_of dkey x = NoSort) ->
  StronglySorted
    (fun a b => if rv then (key (snd b) <= key (snd a))%Z else (key (snd a) <= key (snd b))%Z)
    (print_order dkey ob t).
Proof.
  intros dkey ob t pre c post key rv Hc Ha Hp. unfold print_order.
  rewrite Hc, fold_left_app. simpl.
  rewrite fold_apply_sort_nosort by auto.
  apply apply_sort_sorted; auto.
Qed.

(** 3. with no recognised letter the order is by address *)
Theorem print_order_default : forall dkey ob t,
  (forall x, In x (List.concat ob) -> sort_action_of dkey x = NoSort) ->
  StronglySorted (fun a b => (fst a <= fst b)%N) (print_order dkey ob t).
Proof.
  intros dkey ob t H. unfold print_order. rewrite fold_apply_sort_nosort by auto.
  eapply StronglySorted_impl; [|apply stable_sort_sorted].
  simpl; intros; lia.
Qed.

Lemma sorted_nodup_strict (l : list (N * row)) :
  StronglySorted (fun a b => (fst a <= fst b)%N) l -> NoDup (map fst l) ->
  StronglySorted (fun a b => (fst a < fst b)%N) l.
Proof.
  induction 1 as [|a l Hs IH Hf]; simpl; intros Hn; constructor; inversion Hn; subst; auto.
  apply Forall_forall; intros b Hb.
  rewrite Forall_forall in Hf. specialize (Hf b Hb).
  assert (fst a <> fst b) by (intros E; apply H1; rewrite E; apply in_map; auto).
  lia.
Qed.

(** 4. each aircraft is printed exactly once *)
Theorem print_order_once : forall dkey ob t,
  NoDup (map fst t) ->
  NoDup (map fst (print_order dkey ob t)) /\
  forall a, In a (map fst t) <-> In a (map fst (print_order dkey ob t)).
Proof.
  intros dkey ob t H.
  pose proof (Permutation_map fst (print_order_perm dkey ob t)) as P.
  split.
  - eapply Permutation_NoDup; [symmetry; exact P|exact H].
  - intros a; split; apply Permutation_in; auto. symmetry; auto.
Qed.

Corollary print_order_default_strict : forall dkey ob t,
  (forall x, In x (List.concat ob) -> sort_action_of dkey x = NoSort) ->
  NoDup (map fst t) ->
  StronglySorted (fun a b => (fst a < fst b)%N) (print_order dkey ob t).
Proof.
  intros dkey ob t H Hn. apply sorted_nodup_strict.
  - apply print_order_default; auto.
  - apply print_order_once; auto.
Qed.

(** 5. each sort pass is stable: rows tying on the key keep the order of the previous pass *)
Theorem apply_sort_stable : forall dkey l c key k,
  sort_action_of dkey c = SortBy key false ->
  filter (fun p => key (snd p) =? k) (apply_sort dkey l c) = filter (fun p => key (snd p) =? k) l.
Proof.
  intros dkey l c key k H. unfold apply_sort; rewrite H; cbv zeta.
  apply (stable_sort_filter (fun p : N * row => key (snd p))).
Qed.

Print Assumptions print_order_perm.
Print Assumptions print_order_sorted_last.
Print Assumptions print_order_default.
Print Assumptions print_order_default_strict.
Print Assumptions print_order_once.
Print Assumptions stable_sort_filter.
Print Assumptions stable_sort_stable.
