From SQ Require Import Base Tables Id13.
Local Open Scope N_scope.

Definition sq_model4 (a b c d : N) : res (option N) := squawk [0;0;0;0;a;b;c;d].
Definition sq_ok4 (a b c d : N) : bool :=
  match sq_model4 a b c d with
  | Ok (Some v) => v =? id_spec [0;0;0;0;a;b;c;d]
  | _ => false
  end.

Lemma sq_sweep : all4 sq_ok4 = true.
Proof. vm_cast_no_check (eq_refl true). Qed.

(** the model only looks at nibbles 4..7 *)
Lemma ma_go_ext m m' bs i acc :
  (forall p, In p bs -> nth_error m (fst p) = nth_error m' (fst p)) ->
  ma_go m bs i acc = ma_go m' bs i acc.
Proof.
  revert i acc. induction bs as [| [by_ bi] t IH]; intros i acc H; cbn [ma_go]; [reflexivity|].
  unfold idx. pose proof (H (by_, bi) (or_introl eq_refl)) as E. cbn [fst] in E. rewrite E.
  destruct (nth_error m' by_); cbn [bind]; [|reflexivity].
  apply IH. intros p Hp. apply H. right. exact Hp.
Qed.

Definition ma_reads_4_7 : bool := forallb (fun p => Nat.leb 4 (fst p) && Nat.leb (fst p) 7)%bool ma_bits.
Lemma ma_reads_ok : ma_reads_4_7 = true.
Proof. vm_cast_no_check (eq_refl true). Qed.

Lemma squawk_local m : (8 <= List.length m)%nat ->
  squawk m = squawk [0;0;0;0; nth 4 m 0; nth 5 m 0; nth 6 m 0; nth 7 m 0].
Proof.
  intros L. unfold squawk, ma_code. f_equal. f_equal.
  apply ma_go_ext. intros p Hp.
  pose proof ma_reads_ok as R. unfold ma_reads_4_7 in R. rewrite forallb_forall in R.
  specialize (R p Hp). apply andb_prop in R. destruct R as [R1 R2].
  apply Nat.leb_le in R1. apply Nat.leb_le in R2.
  assert (fst p = 4 \/ fst p = 5 \/ fst p = 6 \/ fst p = 7)%nat as D by lia.
  destruct m as [|m0 [|m1 [|m2 [|m3 [|m4 [|m5 [|m6 [|m7 mt]]]]]]]]; cbn [List.length] in L; try lia.
  destruct D as [D | [D | [D | D]]]; rewrite D; reflexivity.
Qed.

Lemma id_spec_local m : id_spec m = id_spec [0;0;0;0; nth 4 m 0; nth 5 m 0; nth 6 m 0; nth 7 m 0].
Proof. reflexivity. Qed.

Lemma sq_ok4_elim a b c d :
  sq_ok4 a b c d = true -> sq_model4 a b c d = Ok (Some (id_spec [0;0;0;0;a;b;c;d])).
Proof.
  unfold sq_ok4. generalize (id_spec [0;0;0;0;a;b;c;d]). intros s.
  destruct (sq_model4 a b c d) as [[v|]|]; try discriminate.
  intros H. apply N.eqb_eq in H. subst. reflexivity.
Qed.

Lemma squawk_correct m : (8 <= List.length m)%nat -> wf m -> squawk m = Ok (Some (id_spec m)).
Proof.
  intros L W. rewrite squawk_local by exact L. rewrite id_spec_local.
  apply (sq_ok4_elim (nth 4 m 0) (nth 5 m 0) (nth 6 m 0) (nth 7 m 0)).
  apply (all4_sound sq_ok4 sq_sweep); apply wf_nth; exact W.
Qed.
