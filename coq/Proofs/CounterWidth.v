(** src/counters.rs : the per-format counters are machine integers; the model counts in Z.
    [df_counter_max] is regenerated from the declared type of [df_count].  The two agree as long
    as no counter exceeds it, which holds for every stream of at most [df_counter_max] lines. *)
From Coq Require Import List ZArith Lia.
From SQ Require Import Base Tables Table TableProofs.
Import ListNotations.
Local Open Scope Z_scope.

Lemma count_applied_bounds o ls d : 0 <= count_applied o ls d <= Z.of_nat (List.length ls).
Proof.
  induction ls as [|l t IH]; cbn [count_applied List.length]; [lia|].
  rewrite Nat2Z.inj_succ.
  destruct l as [line|]; [|lia].
  destruct (classify o line) as [[|df a]|]; try lia.
  destruct (N.eqb df d); lia.
Qed.

(** every counter of the model stays within the range of the counter type of the code, so the
    unbounded arithmetic of the model is the arithmetic of the code (no overflow, no wrap) *)
Theorem counters_fit o now ls s s' :
  run_lines o now s ls = Ok s' -> df_count (cnt s) = [] ->
  Z.of_nat (List.length ls) <= df_counter_max ->
  forall d, 0 <= cnt_get (df_count (cnt s')) d <= df_counter_max.
Proof.
  intros H E L d.
  assert (ascending (df_count (cnt s))) as A by (rewrite E; exact I).
  destruct (run_lines_counts o now ls s s' H A) as [_ G].
  rewrite G, E. cbn [cnt_get].
  pose proof (count_applied_bounds o ls d) as B.
  destruct (count_df o); lia.
Qed.

(** the counter type holds at least 2^63 - 1: a reader run would have to apply more than 9.2e18
    frames of one format (292 years at 10^9 frames per second) before a counter could overflow *)
Theorem counter_capacity : 2 ^ 63 - 1 <= df_counter_max.
Proof. unfold df_counter_max. lia. Qed.

(** the capacity exceeds what a feed can deliver in a century at 10^6 frames per second *)
Example century_fits : 100 * 366 * 86400 * 1000000 <= df_counter_max.
Proof. unfold df_counter_max. lia. Qed.
