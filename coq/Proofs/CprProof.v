(** CPR position decoding: the guard of update_position (src/decoder/plane/update_position.rs)
    and structural facts about cpr_location (adsb/position.rs).  Pure Coq, no reals. *)
From SQ Require Import Base Update Footprint Tables.
From Coq Require Import Qround Qabs Sorted Lqa.
Local Open Scope N_scope.

(** ---- the guard, named ---- *)
Definition pos_guard (r : row) : bool :=
  negb (cpr_lat0 r =? 0) && negb (cpr_lat1 r =? 0) && negb (cpr_lon0 r =? 0)
  && negb (cpr_lon1 r =? 0) && Bool.eqb (cpr_s0 r) (cpr_s1 r)
  && (Z.abs (num_seconds (cpr_t0 r) (cpr_t1 r)) <? 10)%Z.

(** 4 for surface type codes 5..8, 1 for airborne 9..18 *)
Definition pos_coeff (tc : N) : option Z :=
  if in_tc 5 8 tc then Some 4%Z else if in_tc 9 18 tc then Some 1%Z else None.

Definition pos_loc (r : row) (tc form : N) : option (Q * Q) :=
  match pos_coeff tc with
  | Some c => cpr_location (cpr_lat0 r) (cpr_lat1 r) (cpr_lon0 r) (cpr_lon1 r) form c
  | None => None
  end.

Definition pos_in_range (la lo : Q) : bool :=
  Qle_bool (-90) la && Qle_bool la 90 && Qle_bool (-180) lo && Qle_bool lo 180.

(** what is written when a position is committed *)
Definition pos_commit (obs : option (Q * Q)) (r : row) (la lo : Q) : row :=
  let r1 := r <| lat := la |> <| lon := lo |> in
  let r2 := match obs with
            | Some (ola, olo) => r1 <| dist := Some (la, lo, ola, olo) |>
            | None => r1 end in
  r2 <| position_t := Some (timestamp r2) |>.

Lemma update_position_eq obs r tc form :
  update_position obs r tc form =
  if pos_guard r then
    match pos_loc r tc form with
    | Some (la, lo) => if pos_in_range la lo then pos_commit obs r la lo else r
    | None => r
    end
  else r.
Proof.
  unfold update_position, pos_guard, pos_loc, pos_coeff, pos_in_range, pos_commit.
  destruct (_ && _ && _ && _ && _ && _)%bool; [|reflexivity].
  destruct (in_tc 5 8 tc); [reflexivity|].
  destruct (in_tc 9 18 tc); reflexivity.
Qed.

Lemma in_tc_iff lo hi tc : in_tc lo hi tc = true <-> lo <= tc <= hi.
Proof. unfold in_tc. rewrite andb_true_iff, !N.leb_le. tauto. Qed.

Lemma pos_coeff_none tc : ~ (5 <= tc <= 18) -> pos_coeff tc = None.
Proof.
  intros H. unfold pos_coeff.
  destruct (in_tc 5 8 tc) eqn:E1; [apply in_tc_iff in E1; lia|].
  destruct (in_tc 9 18 tc) eqn:E2; [apply in_tc_iff in E2; lia|]. reflexivity.
Qed.

Lemma pos_coeff_some tc c :
  pos_coeff tc = Some c <-> (5 <= tc <= 8 /\ c = 4%Z) \/ (9 <= tc <= 18 /\ c = 1%Z).
Proof.
  unfold pos_coeff.
  destruct (in_tc 5 8 tc) eqn:E1.
  { apply in_tc_iff in E1. split; [intros H; inversion H; left; split; [lia|reflexivity]|].
    intros [[_ ->]|[H _]]; [reflexivity|lia]. }
  destruct (in_tc 9 18 tc) eqn:E2.
  { apply in_tc_iff in E2. split; [intros H; inversion H; right; split; [lia|reflexivity]|].
    intros [[H _]|[_ ->]]; [|reflexivity].
    assert (in_tc 5 8 tc = true) as C by (apply in_tc_iff; lia). congruence. }
  split; [discriminate|].
  intros [[H _]|[H _]]; apply in_tc_iff in H; congruence.
Qed.

(** ---- 1. the guard: nothing changes when it fails ---- *)
Theorem update_position_unchanged obs r tc form :
  pos_guard r = false \/ ~ (5 <= tc <= 18) -> update_position obs r tc form = r.
Proof.
  intros [H|H]; rewrite update_position_eq.
  - rewrite H. reflexivity.
  - unfold pos_loc. rewrite (pos_coeff_none tc H). destruct (pos_guard r); reflexivity.
Qed.

(** the guard as a conjunction of propositions *)
Lemma pos_guard_true r :
  pos_guard r = true <->
  cpr_lat0 r <> 0 /\ cpr_lat1 r <> 0 /\ cpr_lon0 r <> 0 /\ cpr_lon1 r <> 0 /\
  cpr_s0 r = cpr_s1 r /\ (Z.abs (num_seconds (cpr_t0 r) (cpr_t1 r)) < 10)%Z.
Proof.
  unfold pos_guard. rewrite !andb_true_iff, !negb_true_iff, !N.eqb_neq, Bool.eqb_true_iff, Z.ltb_lt.
  tauto.
Qed.

(** ---- a complete case analysis ---- *)
Definition pos_commits (r : row) (tc form : N) (la lo : Q) : Prop :=
  pos_guard r = true /\ pos_loc r tc form = Some (la, lo) /\ pos_in_range la lo = true.

Theorem update_position_cases obs r tc form :
  (exists la lo, pos_commits r tc form la lo /\ update_position obs r tc form = pos_commit obs r la lo)
  \/ ((forall la lo, ~ pos_commits r tc form la lo) /\ update_position obs r tc form = r).
Proof.
  rewrite update_position_eq. unfold pos_commits.
  destruct (pos_guard r) eqn:G; [|right; split; [intros la lo [H _]; discriminate|reflexivity]].
  destruct (pos_loc r tc form) as [[la lo]|] eqn:L;
    [|right; split; [intros la lo (_ & H & _); discriminate|reflexivity]].
  destruct (pos_in_range la lo) eqn:R.
  - left. exists la, lo. auto.
  - right. split; [|reflexivity]. intros la' lo' (_ & H & H'). inversion H; subst. congruence.
Qed.

Lemma pos_in_range_iff la lo :
  pos_in_range la lo = true <-> (-90 <= la /\ la <= 90 /\ -180 <= lo /\ lo <= 180)%Q.
Proof. unfold pos_in_range. rewrite !andb_true_iff, !Qle_bool_iff. tauto. Qed.

Lemma pos_commit_lat obs r la lo : lat (pos_commit obs r la lo) = la.
Proof. destruct obs as [[? ?]|]; reflexivity. Qed.
Lemma pos_commit_lon obs r la lo : lon (pos_commit obs r la lo) = lo.
Proof. destruct obs as [[? ?]|]; reflexivity. Qed.
Lemma pos_commit_pos_t obs r la lo : position_t (pos_commit obs r la lo) = Some (timestamp r).
Proof. destruct obs as [[? ?]|]; reflexivity. Qed.
Lemma pos_commit_dist_some ola olo r la lo :
  dist (pos_commit (Some (ola, olo)) r la lo) = Some (la, lo, ola, olo).
Proof. reflexivity. Qed.
Lemma pos_commit_dist_none r la lo : dist (pos_commit None r la lo) = dist r.
Proof. reflexivity. Qed.

(** a committed position comes from cpr_location with the coefficient of the type code, lies in
    range, and is time-stamped *)
Theorem update_position_commit obs r tc form la lo :
  pos_commits r tc form la lo ->
  let r' := update_position obs r tc form in
  lat r' = la /\ lon r' = lo /\ position_t r' = Some (timestamp r) /\
  (-90 <= la /\ la <= 90 /\ -180 <= lo /\ lo <= 180)%Q /\
  (exists coeff, ((5 <= tc <= 8 /\ coeff = 4%Z) \/ (9 <= tc <= 18 /\ coeff = 1%Z)) /\
     cpr_location (cpr_lat0 r) (cpr_lat1 r) (cpr_lon0 r) (cpr_lon1 r) form coeff = Some (la, lo)) /\
  match obs with
  | Some (ola, olo) => dist r' = Some (la, lo, ola, olo)
  | None => dist r' = dist r
  end.
Proof.
  intros (G & L & R). cbn zeta. rewrite update_position_eq, G, L, R.
  rewrite pos_commit_lat, pos_commit_lon, pos_commit_pos_t.
  repeat split; try (apply pos_in_range_iff in R; tauto).
  - unfold pos_loc in L. destruct (pos_coeff tc) as [c|] eqn:C; [|discriminate].
    exists c. split; [apply pos_coeff_some; exact C | exact L].
  - destruct obs as [[ola olo]|]; reflexivity.
Qed.

(** ---- 2. range: any visible change of (lat, lon) is a commit ---- *)
Theorem update_position_range obs r tc form r' :
  update_position obs r tc form = r' -> (lat r', lon r') <> (lat r, lon r) ->
  (-90 <= lat r')%Q /\ (lat r' <= 90)%Q /\ (-180 <= lon r')%Q /\ (lon r' <= 180)%Q /\
  position_t r' = Some (timestamp r) /\
  pos_guard r = true /\
  exists coeff, ((5 <= tc <= 8 /\ coeff = 4%Z) \/ (9 <= tc <= 18 /\ coeff = 1%Z)) /\
    cpr_location (cpr_lat0 r) (cpr_lat1 r) (cpr_lon0 r) (cpr_lon1 r) form coeff
    = Some (lat r', lon r').
Proof.
  intros E Hne.
  destruct (update_position_cases obs r tc form) as [(la & lo & C & _)|[_ U]].
  - pose proof (update_position_commit obs r tc form la lo C) as H. cbn zeta in H.
    rewrite E in H. destruct H as (-> & -> & Hp & Hr & Hc & _). destruct C as (G & _). tauto.
  - exfalso. apply Hne. rewrite <- E, U. reflexivity.
Qed.

(** the same for any of the four position-related fields: lat, lon, dist, position_t change
    only by a commit (everything else never changes: [update_position_fp]) *)
Theorem update_position_changed obs r tc form :
  update_position obs r tc form <> r -> exists la lo, pos_commits r tc form la lo.
Proof.
  intros Hne. destruct (update_position_cases obs r tc form) as [(la & lo & C & _)|[_ U]].
  - exists la, lo. exact C.
  - contradiction.
Qed.

(** ---- 4. time window ---- *)
Theorem update_position_time_window obs r tc form :
  (Z.abs (num_seconds (cpr_t0 r) (cpr_t1 r)) >= 10)%Z -> update_position obs r tc form = r.
Proof.
  intros H. apply update_position_unchanged. left. unfold pos_guard.
  apply Z.ge_le, Z.ltb_ge in H. rewrite H. apply andb_false_r.
Qed.

(** ---- 5. mixed surface / airborne slots ---- *)
Theorem update_position_mixed obs r tc form :
  cpr_s0 r <> cpr_s1 r -> update_position obs r tc form = r.
Proof.
  intros H. apply update_position_unchanged. left. unfold pos_guard.
  apply Bool.eqb_false_iff in H. rewrite H. rewrite andb_false_r. reflexivity.
Qed.

(** an empty slot *)
Theorem update_position_empty_slot obs r tc form :
  cpr_lat0 r = 0 \/ cpr_lat1 r = 0 \/ cpr_lon0 r = 0 \/ cpr_lon1 r = 0 ->
  update_position obs r tc form = r.
Proof.
  intros H. apply update_position_unchanged. left.
  destruct (pos_guard r) eqn:G; [|reflexivity].
  apply pos_guard_true in G. exfalso. tauto.
Qed.

(** ---- 3. a single frame never shows a position ---- *)
Definition stored (r : row) (tc : N) (c : N * N * N) : row :=
  let '(form, la, lo) := c in
  let surf := in_tc 5 8 tc in
  if form =? 1
  then r <| cpr_lat1 := la |> <| cpr_lon1 := lo |> <| cpr_t1 := timestamp r |> <| cpr_s1 := surf |>
  else r <| cpr_lat0 := la |> <| cpr_lon0 := lo |> <| cpr_t0 := timestamp r |> <| cpr_s0 := surf |>.

Lemma store_cpr_eq obs r tc form la lo :
  store_cpr obs r tc (form, la, lo) = update_position obs (stored r tc (form, la, lo)) tc form.
Proof. unfold store_cpr, stored. destruct (form =? 1); reflexivity. Qed.

(** if the other slot is empty the frame is only stored *)
Theorem store_cpr_other_empty obs r tc form la lo :
  (if form =? 1 then cpr_lat0 r = 0 \/ cpr_lon0 r = 0 else cpr_lat1 r = 0 \/ cpr_lon1 r = 0) ->
  store_cpr obs r tc (form, la, lo) = stored r tc (form, la, lo).
Proof.
  intros H. rewrite store_cpr_eq. apply update_position_empty_slot.
  unfold stored. destruct (form =? 1); cbn; tauto.
Qed.

Theorem store_cpr_first_frame obs r tc form la lo :
  cpr_lat0 r = 0 -> cpr_lat1 r = 0 -> cpr_lon0 r = 0 -> cpr_lon1 r = 0 ->
  let r' := store_cpr obs r tc (form, la, lo) in
  lat r' = lat r /\ lon r' = lon r /\ dist r' = dist r /\ position_t r' = position_t r.
Proof.
  intros H1 H2 H3 H4. cbn zeta. rewrite store_cpr_other_empty by (destruct (form =? 1); tauto).
  unfold stored. destruct (form =? 1); cbn; tauto.
Qed.

Theorem store_cpr_fresh obs now a s tc form la lo :
  let r' := store_cpr obs (row_new now <| icao := a |> <| reg := s |>) tc (form, la, lo) in
  lat r' = 0%Q /\ lon r' = 0%Q /\ dist r' = None /\ position_t r' = None.
Proof. apply store_cpr_first_frame; reflexivity. Qed.

(** ---- 6. zone straddling ---- *)
Definition cpr_j (lat0 lat1 : N) : Z :=
  Qfloor ((59 * qN lat0 - 60 * qN lat1) / div17 + (1 # 2))%Q.
Definition cpr_rlat0 (lat0 lat1 : N) : Q :=
  fixed_lat (6 * (qZ (zrem (cpr_j lat0 lat1) 60) + qN lat0 / div17))%Q.
Definition cpr_rlat1 (lat0 lat1 : N) : Q :=
  fixed_lat ((360 # 59) * (qZ (zrem (cpr_j lat0 lat1) 59) + qN lat1 / div17))%Q.

(** the longitude part, given the two zone counts *)
Definition cpr_lon (nl0 nl1 : Z) (lon0 lon1 form : N) (coeff : Z) : Q :=
  let '(ni, nlt, lngt) :=
    if (form =? 1)%N then (Z.max (Z.quot nl1 coeff - 1) 1, Z.quot nl1 coeff, lon1)
    else (Z.max (Z.quot nl0 coeff) 1, Z.quot nl0 coeff, lon0) in
  let dlngt := (360 / qZ ni)%Q in
  let mm := Qfloor ((qN lon0 * qZ (nlt - 1) - qN lon1 * qZ nlt) / div17 + (1 # 2))%Q in
  signed_lon (dlngt * (qZ (pmod mm ni) + qN lngt / div17))%Q.

Lemma cpr_location_eq lat0 lat1 lon0 lon1 form coeff :
  cpr_location lat0 lat1 lon0 lon1 form coeff =
  if (nl (cpr_rlat0 lat0 lat1) =? nl (cpr_rlat1 lat0 lat1))%Z
  then Some (if form =? 1 then cpr_rlat1 lat0 lat1 else cpr_rlat0 lat0 lat1,
             cpr_lon (nl (cpr_rlat0 lat0 lat1)) (nl (cpr_rlat1 lat0 lat1)) lon0 lon1 form coeff)
  else None.
Proof.
  unfold cpr_location, cpr_lon, cpr_rlat0, cpr_rlat1, cpr_j. cbv zeta.
  match goal with |- context [(?a =? ?b)%Z] => destruct (a =? b)%Z end; [|reflexivity].
  destruct (form =? 1); reflexivity.
Qed.

Theorem cpr_location_straddle lat0 lat1 lon0 lon1 form coeff :
  nl (cpr_rlat0 lat0 lat1) <> nl (cpr_rlat1 lat0 lat1) ->
  cpr_location lat0 lat1 lon0 lon1 form coeff = None.
Proof. intros H. apply Z.eqb_neq in H. rewrite cpr_location_eq, H. reflexivity. Qed.

(** conversely a result means equal zone counts, and the latitude is the recovered latitude
    of the frame's own format *)
Theorem cpr_location_some lat0 lat1 lon0 lon1 form coeff la lo :
  cpr_location lat0 lat1 lon0 lon1 form coeff = Some (la, lo) ->
  nl (cpr_rlat0 lat0 lat1) = nl (cpr_rlat1 lat0 lat1) /\
  la = (if form =? 1 then cpr_rlat1 lat0 lat1 else cpr_rlat0 lat0 lat1) /\
  lo = cpr_lon (nl (cpr_rlat0 lat0 lat1)) (nl (cpr_rlat1 lat0 lat1)) lon0 lon1 form coeff.
Proof.
  rewrite cpr_location_eq.
  destruct (nl (cpr_rlat0 lat0 lat1) =? nl (cpr_rlat1 lat0 lat1))%Z eqn:E; [|discriminate].
  apply Z.eqb_eq in E. intros H. injection H as H1 H2. auto.
Qed.

Theorem update_position_straddle obs r tc form :
  nl (cpr_rlat0 (cpr_lat0 r) (cpr_lat1 r)) <> nl (cpr_rlat1 (cpr_lat0 r) (cpr_lat1 r)) ->
  update_position obs r tc form = r.
Proof.
  intros H. rewrite update_position_eq. unfold pos_loc.
  destruct (pos_coeff tc); [rewrite (cpr_location_straddle _ _ _ _ _ _ H)|];
    destruct (pos_guard r); reflexivity.
Qed.

(** ---- 7. the distance field ---- *)
Theorem update_position_dist_none r tc form :
  dist (update_position None r tc form) = dist r.
Proof.
  destruct (update_position_cases None r tc form) as [(la & lo & _ & ->)|[_ ->]]; reflexivity.
Qed.

Theorem update_position_dist_some ola olo r tc form la lo :
  pos_commits r tc form la lo ->
  let r' := update_position (Some (ola, olo)) r tc form in
  dist r' = Some (lat r', lon r', ola, olo).
Proof.
  intros C. pose proof (update_position_commit (Some (ola, olo)) r tc form la lo C) as H.
  cbn zeta in *. destruct H as (-> & -> & _ & _ & _ & ->). reflexivity.
Qed.

(** in the form of item 2: a visible change of the position with an observer *)
Theorem update_position_dist_changed ola olo r tc form r' :
  update_position (Some (ola, olo)) r tc form = r' -> r' <> r ->
  dist r' = Some (lat r', lon r', ola, olo).
Proof.
  intros E Hne. rewrite <- E in Hne. apply update_position_changed in Hne.
  destruct Hne as (la & lo & C). rewrite <- E. exact (update_position_dist_some ola olo r tc form la lo C).
Qed.

(** ---- 3 (end to end): the first frame of an aircraft never shows a position ---- *)
Definition no_cpr (r : row) : Prop :=
  cpr_lat0 r = 0 /\ cpr_lat1 r = 0 /\ cpr_lon0 r = 0 /\ cpr_lon1 r = 0.
Definition posf_eq (r r' : row) : Prop :=
  lat r' = lat r /\ lon r' = lon r /\ dist r' = dist r /\ position_t r' = position_t r.

Lemma posf_eq_refl r : posf_eq r r.
Proof. repeat split. Qed.
Lemma posf_eq_trans a b c : posf_eq a b -> posf_eq b c -> posf_eq a c.
Proof. unfold posf_eq. intros (? & ? & ? & ?) (? & ? & ? & ?). repeat split; congruence. Qed.

Ltac posf_triv := unfold posf_eq; repeat split; reflexivity.

Definition keeps (S : list fld) : bool :=
  forallb (fun f => negb (memf f S))
          [F_cpr_lat0; F_cpr_lat1; F_cpr_lon0; F_cpr_lon1; F_lat; F_lon; F_dist; F_pos_t].

Lemma modifies_keeps S r r' :
  modifies S r r' -> keeps S = true -> no_cpr r -> no_cpr r' /\ posf_eq r r'.
Proof.
  intros M K (H1 & H2 & H3 & H4). unfold keeps in K. cbn [forallb] in K.
  rewrite !andb_true_iff, !negb_true_iff in K.
  destruct K as (K1 & K2 & K3 & K4 & K5 & K6 & K7 & K8 & _).
  pose proof (M _ K1) as E1. pose proof (M _ K2) as E2. pose proof (M _ K3) as E3.
  pose proof (M _ K4) as E4. pose proof (M _ K5) as E5. pose proof (M _ K6) as E6.
  pose proof (M _ K7) as E7. pose proof (M _ K8) as E8. cbn [same] in *.
  unfold no_cpr, posf_eq. repeat split; congruence.
Qed.

Lemma store_cpr_first obs r tc c : no_cpr r -> posf_eq r (store_cpr obs r tc c).
Proof.
  intros (H1 & H2 & H3 & H4). destruct c as [[form la] lo].
  apply store_cpr_first_frame; assumption.
Qed.

Lemma update_cpr_first obs r m tc r' : update_cpr obs r m tc = Ok r' -> no_cpr r -> posf_eq r r'.
Proof.
  unfold update_cpr. intros H Hn. inv_bind H.
  destruct (ofilter _ _); inversion H; subst; [apply store_cpr_first; exact Hn | posf_triv].
Qed.

Lemma update_from_ext_first obs r m df r' :
  update_from_ext obs r m df = Ok r' -> no_cpr r -> posf_eq r r'.
Proof.
  unfold update_from_ext. intros H Hn.
  destruct (get_message_type m) as [[tc st]|] eqn:T; cbn [bind] in H; [|discriminate].
  destruct (in_tc 1 4 tc).
  { inv_bind H. inversion H; subst. posf_triv. }
  destruct (in_tc 5 8 tc).
  { inv_bind H. inv_bind H. apply update_cpr_first in H; [exact H | exact Hn]. }
  destruct (in_tc 9 18 tc).
  { inv_bind H. inv_bind H. apply update_cpr_first in H; [exact H | exact Hn]. }
  destruct (tc =? 19).
  { apply update_from_ext_19_fp in H.
    eapply modifies_keeps in H; [apply H | | exact Hn].
    unfold fp_ext19. destruct ((st =? 1) || (st =? 2)); destruct ((st =? 3) || (st =? 4)); reflexivity. }
  destruct (in_tc 20 22 tc).
  { inv_bind H. inv_bind H. inversion H; subst. posf_triv. }
  destruct (tc =? 31).
  { inv_bind H. inversion H; subst. posf_triv. }
  inversion H; subst. posf_triv.
Qed.

Theorem plane_update_first obs now r m df relaxed r' :
  plane_update obs now r m df relaxed = Ok r' -> no_cpr r -> posf_eq r r'.
Proof.
  unfold plane_update. intros H Hn.
  match type of H with bind ?x _ = _ => destruct x as [r1|] eqn:E1; cbn [bind] in H; [|discriminate H] end.
  apply update_from_bcast_fp in E1.
  eapply modifies_keeps in E1;
    [ | unfold fp_bcast; destruct ((df =? 4) || (df =? 20)); destruct ((df =? 5) || (df =? 21));
        destruct ((df =? 11) || (df =? 17)); reflexivity | exact Hn ].
  destruct E1 as [Hn1 P1].
  match type of H with bind ?x _ = _ => destruct x as [r2|] eqn:E2; cbn [bind] in H; [|discriminate H] end.
  assert (posf_eq r1 r2) as P2.
  { destruct ((df =? 17) || (df =? 18)).
    - eapply update_from_ext_first; eassumption.
    - inversion E2; subst. posf_triv. }
  assert (posf_eq r2 r') as P3.
  { destruct ((relaxed || (3 <? cap_ca r2)) && ((df =? 20) || (df =? 21))).
    - apply update_from_mode_s_fp in H. unfold posf_eq.
      pose proof (H F_lat eq_refl). pose proof (H F_lon eq_refl).
      pose proof (H F_dist eq_refl). pose proof (H F_pos_t eq_refl). cbn [same] in *. auto.
    - inversion H; subst. posf_triv. }
  eapply posf_eq_trans; [|exact P3]. eapply posf_eq_trans; [|exact P2]. exact P1.
Qed.

Theorem row_from_message_no_position obs now m df a relaxed r' :
  row_from_message obs now m df a relaxed = Ok r' ->
  lat r' = 0%Q /\ lon r' = 0%Q /\ dist r' = None /\ position_t r' = None.
Proof.
  unfold row_from_message. intros H. apply plane_update_first in H; [exact H|].
  repeat split.
Qed.

Lemma amend_cpr_first obs r e : no_cpr r -> posf_eq r (amend_cpr obs r e).
Proof.
  intros Hn. unfold amend_cpr. destruct (e_cpr e); [apply store_cpr_first; exact Hn | posf_triv].
Qed.

Lemma update_from_ext_dl_first obs r e : no_cpr r -> posf_eq r (update_from_ext_dl obs r e).
Proof.
  intros Hn. unfold update_from_ext_dl.
  destruct (is_some (e_icao e)); [|posf_triv].
  destruct (in_tc 1 4 (fst (e_mt e))).
  { destruct (is_some (e_ais e)); posf_triv. }
  destruct (in_tc 5 8 (fst (e_mt e))).
  { match goal with |- posf_eq _ (amend_cpr _ ?x _) => apply (amend_cpr_first obs x e) end. exact Hn. }
  destruct (in_tc 9 18 (fst (e_mt e))).
  { match goal with |- posf_eq _ (amend_cpr _ ?x _) => apply (amend_cpr_first obs x e) end. exact Hn. }
  destruct (fst (e_mt e) =? 19).
  { match goal with |- posf_eq _ (amend_from_ext_19 ?x _) =>
      pose proof (amend_from_ext_19_fp x e) as M end.
    eapply modifies_keeps in M; [apply M | | exact Hn].
    unfold fp_ext19. destruct ((snd (e_mt e) =? 1) || (snd (e_mt e) =? 2));
      destruct ((snd (e_mt e) =? 3) || (snd (e_mt e) =? 4)); reflexivity. }
  destruct (in_tc 20 22 (fst (e_mt e))); [posf_triv|].
  destruct (fst (e_mt e) =? 31); posf_triv.
Qed.

Theorem update_from_downlink_first obs now r d :
  no_cpr r -> posf_eq r (update_from_downlink obs now r d).
Proof.
  intros Hn. unfold update_from_downlink.
  destruct d as [s|e|df ic].
  - pose proof (update_from_srt_dl_fp
                  (match dl_df (DSrt s) with
                   | Some df => r <| timestamp := now |> <| last_df := df |>
                   | None => r <| timestamp := now |> end) s) as M.
    eapply modifies_keeps in M.
    + destruct M as [_ M]. destruct (dl_df (DSrt s)); exact M.
    + unfold fp_srt. destruct (s_df s) as [[|p]|]; try reflexivity.
      repeat (destruct p as [p|p|]; try reflexivity).
    + destruct (dl_df (DSrt s)); exact Hn.
  - destruct (dl_df (DExt e));
      (eapply posf_eq_trans; [|apply update_from_ext_dl_first; exact Hn]; posf_triv).
  - destruct (dl_df (DMds df ic)); destruct ic; posf_triv.
Qed.

Theorem row_from_downlink_no_position obs now d a :
  let r' := row_from_downlink obs now d a in
  lat r' = 0%Q /\ lon r' = 0%Q /\ dist r' = None /\ position_t r' = None.
Proof.
  cbn zeta. unfold row_from_downlink.
  assert (no_cpr (row_new now <| icao := a |> <| reg := icao_to_country a |>)) as Hn by (repeat split).
  pose proof (update_from_downlink_first obs now _ d Hn) as H. exact H.
Qed.

(** ---- the NL lookup: range, and characterisation by the table boundaries ---- *)
Lemma Qlt_bool_iff a b : Qlt_bool a b = true <-> (a < b)%Q.
Proof.
  unfold Qlt_bool. rewrite negb_true_iff. split.
  - intros H. apply Qnot_le_lt. intros Hle. apply Qle_bool_iff in Hle. congruence.
  - intros H. destruct (Qle_bool b a) eqn:E; [|reflexivity].
    apply Qle_bool_iff in E. exfalso. exact (Qlt_not_le _ _ H E).
Qed.

Lemma nl_go_in t x : nl_go t x = nl_default \/ exists b, In (b, nl_go t x) t.
Proof.
  induction t as [|[b v] t IH]; [left; reflexivity|]. cbn [nl_go].
  destruct (Qlt_bool x b).
  - right. exists b. left. reflexivity.
  - destruct IH as [IH|[b' IH]]; [left; exact IH|right; exists b'; right; exact IH].
Qed.

(** boundaries increasing, values decreasing *)
Definition nl_ord (e1 e2 : Q * Z) : Prop := (fst e1 < fst e2)%Q /\ (snd e2 < snd e1)%Z.

Section NlGo.
  Lemma nl_go_ge t x b v :
    StronglySorted nl_ord t -> In (b, v) t -> (x < b)%Q -> (v <= nl_go t x)%Z.
  Proof.
    induction t as [|[b0 v0] t IH]; intros S Hin Hx; [destruct Hin|].
    apply StronglySorted_inv in S. destruct S as [S F]. rewrite Forall_forall in F.
    cbn [nl_go]. destruct (Qlt_bool x b0) eqn:E.
    - destruct Hin as [Hin|Hin]; [inversion Hin; lia|].
      specialize (F _ Hin). destruct F as [_ F]. cbn in F. lia.
    - destruct Hin as [Hin|Hin].
      + inversion Hin; subst. apply Qlt_bool_iff in Hx. congruence.
      + apply IH; assumption.
  Qed.

  Lemma nl_go_lt t x b v :
    StronglySorted nl_ord t -> Forall (fun e => (nl_default < snd e)%Z) t ->
    In (b, v) t -> (b <= x)%Q -> (nl_go t x < v)%Z.
  Proof.
    induction t as [|[b0 v0] t IH]; intros S D Hin Hx; [destruct Hin|].
    apply StronglySorted_inv in S. destruct S as [S F]. rewrite Forall_forall in F.
    inversion D as [|? ? D0 D1]; subst. cbn [snd] in D0.
    assert (Qlt_bool x b0 = false) as E.
    { destruct (Qlt_bool x b0) eqn:E; [|reflexivity]. apply Qlt_bool_iff in E. exfalso.
      destruct Hin as [Hin|Hin].
      - inversion Hin; subst. exact (Qlt_not_le _ _ E Hx).
      - specialize (F _ Hin). destruct F as [F _]. cbn in F.
        apply (Qlt_not_le _ _ E). apply Qle_trans with b; [apply Qlt_le_weak; exact F|exact Hx]. }
    cbn [nl_go]. rewrite E.
    destruct Hin as [Hin|Hin].
    - inversion Hin; subst.
      destruct (nl_go_in t x) as [H|[b' H]]; [rewrite H; exact D0|].
      specialize (F _ H). destruct F as [_ F]. cbn in F. exact F.
    - apply IH; assumption.
  Qed.
End NlGo.

Fixpoint nl_ord_chk (l : list (Q * Z)) : bool :=
  match l with
  | a :: (b :: _) as t => Qlt_bool (fst a) (fst b) && (snd b <? snd a)%Z && nl_ord_chk t
  | _ => true
  end.

Lemma nl_ord_chk_sound l : nl_ord_chk l = true -> StronglySorted nl_ord l.
Proof.
  intros H. apply Sorted_StronglySorted.
  { intros a b c [H1 H2] [H3 H4]. split; [eapply Qlt_trans; eassumption | lia]. }
  induction l as [|a [|b t] IH]; [constructor | repeat constructor |].
  cbn [nl_ord_chk] in H. rewrite !andb_true_iff in H. destruct H as [[H1 H2] H3].
  constructor; [apply IH; exact H3|]. constructor.
  split; [apply Qlt_bool_iff; exact H1 | apply Z.ltb_lt; exact H2].
Qed.

Lemma nl_table_sorted : StronglySorted nl_ord Tables.nl_table.
Proof. apply nl_ord_chk_sound. vm_compute. reflexivity. Qed.

Lemma nl_table_gt_default : Forall (fun e => (Tables.nl_default < snd e)%Z) Tables.nl_table.
Proof.
  apply Forall_forall. intros e He.
  assert (forallb (fun e => (Tables.nl_default <? snd e)%Z) Tables.nl_table = true) as C
    by (vm_compute; reflexivity).
  rewrite forallb_forall in C. apply Z.ltb_lt, C, He.
Qed.

(** below the boundary tabulated for NL = v, at least v zones; from it on, fewer than v.
    With the two facts for consecutive entries, nl lat = v exactly on [b_(v+1), b_v). *)
Theorem nl_ge lat b v : In (b, v) Tables.nl_table -> (Qabs lat < b)%Q -> (v <= nl lat)%Z.
Proof. apply nl_go_ge, nl_table_sorted. Qed.

Theorem nl_lt lat b v : In (b, v) Tables.nl_table -> (b <= Qabs lat)%Q -> (nl lat < v)%Z.
Proof. apply nl_go_lt; [apply nl_table_sorted | apply nl_table_gt_default]. Qed.

Theorem nl_band lat b v b' :
  In (b, v) Tables.nl_table -> In (b', (v + 1)%Z) Tables.nl_table ->
  (b' <= Qabs lat)%Q -> (Qabs lat < b)%Q -> nl lat = v.
Proof.
  intros H1 H2 H3 H4. pose proof (nl_ge lat b v H1 H4). pose proof (nl_lt lat b' _ H2 H3). lia.
Qed.

Theorem nl_range lat : (1 <= nl lat <= 59)%Z.
Proof.
  unfold nl. destruct (nl_go_in Tables.nl_table (Qabs lat)) as [H|[b H]].
  - rewrite H. vm_compute. split; discriminate.
  - assert (forallb (fun e => (1 <=? snd e)%Z && (snd e <=? 59)%Z) Tables.nl_table = true) as C
      by (vm_compute; reflexivity).
    rewrite forallb_forall in C. specialize (C _ H). cbn [snd] in C.
    apply andb_true_iff in C. destruct C as [C1 C2]. apply Z.leb_le in C1, C2. lia.
Qed.

(** the poles: one zone from 87 degrees on, 59 zones at the equator *)
Theorem nl_polar lat : (87 <= Qabs lat)%Q -> nl lat = 1%Z.
Proof.
  intros H. pose proof (nl_range lat).
  assert (nl lat < 2)%Z; [|lia].
  apply nl_lt with (b := (8700000000 # 100000000)%Q).
  - unfold Tables.nl_table. repeat (first [left; reflexivity | right]).
  - eapply Qle_trans; [|exact H]. unfold Qle. cbn. lia.
Qed.

Local Open Scope Q_scope.

(** ---- 8. latitude decoding is correct (exact arithmetic) ---- *)

(** floor *)
Lemma Qfloor_spec x : inject_Z (Qfloor x) <= x /\ x < inject_Z (Qfloor x) + 1.
Proof.
  split; [apply Qfloor_le|]. pose proof (Qlt_floor x) as H. rewrite inject_Z_plus in H. exact H.
Qed.

Lemma Qfloor_unique x n : inject_Z n <= x -> x < inject_Z n + 1 -> Qfloor x = n.
Proof.
  intros H1 H2. destruct (Qfloor_spec x) as [F1 F2].
  assert (inject_Z (Qfloor x) < inject_Z (n + 1)) as A by (rewrite inject_Z_plus; change (inject_Z 1) with 1; lra).
  assert (inject_Z n < inject_Z (Qfloor x + 1)) as B by (rewrite inject_Z_plus; change (inject_Z 1) with 1; lra).
  rewrite <- Zlt_Qlt in A, B. lia.
Qed.

(** the standard's encoder (DO-260B 2.2.3.2.3.7.2 / Annex 10 vol IV C.2.6.5):
    YZ = floor (2^17 * mod(lat, Dlat) / Dlat + 1/2) mod 2^17 *)
Definition qmod (x d : Q) : Q := x - d * inject_Z (Qfloor (x / d)).
Definition cpr_enc (d lat : Q) : Z :=
  (Qfloor (div17 * (qmod lat d / d) + (1 # 2)) mod 131072)%Z.

Lemma cpr_enc_bound d lat : (0 <= cpr_enc d lat < 131072)%Z.
Proof. unfold cpr_enc. apply Z.mod_pos_bound. reflexivity. Qed.

Lemma div17_mul x : x / div17 == x * (1 # 131072).
Proof. unfold div17. field. Qed.

(** lat / d = M + YZ / 2^17 + e with M an integer and |e| <= 2^-18 *)
Lemma cpr_enc_decomp d lat :
  0 < d ->
  exists (M : Z) (e : Q),
    -(1 # 262144) <= e /\ e <= (1 # 262144) /\
    lat / d == inject_Z M + inject_Z (cpr_enc d lat) / div17 + e.
Proof.
  intros Hd. unfold cpr_enc.
  set (m := Qfloor (lat / d)).
  assert (qmod lat d / d == lat / d - inject_Z m) as Ef by (unfold qmod; fold m; field; lra).
  set (g := div17 * (qmod lat d / d) + (1 # 2)).
  set (n := Qfloor g).
  destruct (Qfloor_spec (lat / d)) as [U1 U2]. fold m in U1, U2.
  destruct (Qfloor_spec g) as [G1 G2]. fold n in G1, G2.
  assert (g == 131072 * (lat / d - inject_Z m) + (1 # 2)) as Eg by (unfold g, div17; rewrite Ef; reflexivity).
  assert (0 <= n <= 131072)%Z as Hn.
  { assert (inject_Z (-1) < inject_Z n) as A by (change (inject_Z (-1)) with (-1 # 1); lra).
    assert (inject_Z n < inject_Z 131073) as B by (change (inject_Z 131073) with (131073 # 1); lra).
    rewrite <- Zlt_Qlt in A, B. lia. }
  destruct (Z.eq_dec n 131072) as [E|E].
  - exists (m + 1)%Z, (lat / d - inject_Z m - 1).
    rewrite E. change (131072 mod 131072)%Z with 0%Z.
    rewrite E in G1, G2. change (inject_Z 131072) with (131072 # 1) in G1, G2.
    rewrite inject_Z_plus. unfold div17. change (inject_Z 1) with 1. change (inject_Z 0) with 0.
    split; [lra|]. split; [lra|]. field; lra.
  - exists m, (lat / d - inject_Z m - inject_Z n / div17).
    rewrite Z.mod_small by lia.
    pose proof (div17_mul (inject_Z n)) as Dn.
    split; [lra|]. split; [lra|]. unfold div17. field; lra.
Qed.

Lemma cpr_enc_decomp' d lat :
  0 < d ->
  exists (M : Z) (e : Q),
    -(1 # 262144) <= e /\ e <= (1 # 262144) /\
    lat == d * (inject_Z M + inject_Z (cpr_enc d lat) * (1 # 131072) + e).
Proof.
  intros Hd. destruct (cpr_enc_decomp d lat Hd) as (M & e & H1 & H2 & H3).
  exists M, e. split; [exact H1|]. split; [exact H2|].
  rewrite <- div17_mul, <- H3. field. lra.
Qed.

Lemma cpr_enc_q d lat :
  0 <= inject_Z (cpr_enc d lat) * (1 # 131072) /\ inject_Z (cpr_enc d lat) * (1 # 131072) < 1.
Proof.
  pose proof (cpr_enc_bound d lat) as [B1 B2].
  rewrite Zle_Qle in B1. rewrite Zlt_Qlt in B2.
  change (inject_Z 0) with 0 in B1. change (inject_Z 131072) with (131072 # 1) in B2. lra.
Qed.

Lemma inject_Z_sub a b : inject_Z (a - b) = inject_Z a - inject_Z b.
Proof. unfold Z.sub. rewrite inject_Z_plus, inject_Z_opp. reflexivity. Qed.

Lemma inject_Z_int_bounds (M : Z) (lo hi : Z) :
  inject_Z lo < inject_Z M + 1 -> inject_Z M < inject_Z hi -> (lo <= M < hi)%Z.
Proof.
  intros H1 H2. rewrite <- Zlt_Qlt in H2.
  assert (inject_Z lo < inject_Z (M + 1)) as A by (rewrite inject_Z_plus; exact H1).
  rewrite <- Zlt_Qlt in A. lia.
Qed.

(** [fixed_lat] undoes a shift by a whole turn *)
Lemma fixed_lat_shift V x k b :
  (k = -1 \/ k = 0 \/ k = 1)%Z -> V == x + 360 * inject_Z k ->
  -90 + b < x -> x < 90 - b -> 0 <= b ->
  fixed_lat V == x.
Proof.
  intros Hk EV X1 X2 Hb. unfold fixed_lat.
  destruct (Qle_bool 90 V) eqn:C1.
  - apply Qle_bool_iff in C1.
    destruct Hk as [-> | [-> | ->]];
      [change (inject_Z (-1)) with (-1 # 1) in EV | change (inject_Z 0) with 0 in EV
       | change (inject_Z 1) with 1 in EV]; lra.
  - assert (V < 90) as C1' by (apply Qnot_le_lt; intros C; apply Qle_bool_iff in C; congruence).
    destruct (Qle_bool V (-90)) eqn:C2.
    + apply Qle_bool_iff in C2.
      destruct Hk as [-> | [-> | ->]];
        [change (inject_Z (-1)) with (-1 # 1) in EV | change (inject_Z 0) with 0 in EV
         | change (inject_Z 1) with 1 in EV]; lra.
    + assert (-90 < V) as C2' by (apply Qnot_le_lt; intros C; apply Qle_bool_iff in C; congruence).
      destruct Hk as [-> | [-> | ->]];
        [change (inject_Z (-1)) with (-1 # 1) in EV | change (inject_Z 0) with 0 in EV
         | change (inject_Z 1) with 1 in EV]; lra.
Qed.

Section LatDecode.
  Variables (lat : Q) (yz0 yz1 : N).
  Hypothesis L1 : -89 < lat.
  Hypothesis L2 : lat < 89.
  Hypothesis E0 : Z.of_N yz0 = cpr_enc 6 lat.
  Hypothesis E1 : Z.of_N yz1 = cpr_enc (360 # 59) lat.

  (** the latitude zone index recovered by the decoder *)
  Lemma cpr_j_correct :
    exists (M0 M1 : Z) (e0 e1 : Q),
      (-15 <= M0 < 15)%Z /\ (-15 <= M1 < 15)%Z /\
      -(1 # 262144) <= e0 /\ e0 <= (1 # 262144) /\ -(1 # 262144) <= e1 /\ e1 <= (1 # 262144) /\
      lat == 6 * (inject_Z M0 + qN yz0 * (1 # 131072) + e0) /\
      lat == (360 # 59) * (inject_Z M1 + qN yz1 * (1 # 131072) + e1) /\
      cpr_j yz0 yz1 = (60 * M1 - 59 * M0)%Z.
  Proof.
    destruct (cpr_enc_decomp' 6 lat) as (M0 & e0 & A0 & B0 & D0); [reflexivity|].
    destruct (cpr_enc_decomp' (360 # 59) lat) as (M1 & e1 & A1 & B1 & D1); [reflexivity|].
    destruct (cpr_enc_q 6 lat) as [Y0a Y0b]. destruct (cpr_enc_q (360 # 59) lat) as [Y1a Y1b].
    exists M0, M1, e0, e1.
    unfold cpr_j.
    change (qN yz0) with (inject_Z (Z.of_N yz0)). change (qN yz1) with (inject_Z (Z.of_N yz1)).
    rewrite E0, E1.
    set (y0 := inject_Z (cpr_enc 6 lat)) in *. set (y1 := inject_Z (cpr_enc (360 # 59) lat)) in *.
    assert (-15 <= M0 < 15)%Z as HM0.
    { apply inject_Z_int_bounds;
        [change (inject_Z (-15)) with (-15 # 1) | change (inject_Z 15) with (15 # 1)]; lra. }
    assert (-15 <= M1 < 15)%Z as HM1.
    { apply inject_Z_int_bounds;
        [change (inject_Z (-15)) with (-15 # 1) | change (inject_Z 15) with (15 # 1)]; lra. }
    repeat (split; [assumption|]).
    set (J := (60 * M1 - 59 * M0)%Z).
    assert (inject_Z J == 60 * inject_Z M1 - 59 * inject_Z M0) as EJ.
    { unfold J. rewrite inject_Z_sub, !inject_Z_mult. reflexivity. }
    apply Qfloor_unique; rewrite div17_mul; lra.
  Qed.

  Theorem cpr_rlat0_correct : Qabs (cpr_rlat0 yz0 yz1 - lat) <= 6 * (1 # 262144).
  Proof.
    destruct cpr_j_correct as (M0 & M1 & e0 & e1 & HM0 & HM1 & A0 & B0 & A1 & B1 & D0 & D1 & EJ).
    unfold cpr_rlat0, zrem. rewrite EJ.
    assert (exists k, (k = -1 \/ k = 0 \/ k = 1)%Z /\
                      Z.rem (60 * M1 - 59 * M0) 60 = (M0 + 60 * k)%Z) as (k & Hk & Ek).
    { exists (M1 - M0 - Z.quot (60 * M1 - 59 * M0) 60)%Z.
      pose proof (Z.quot_rem' (60 * M1 - 59 * M0) 60) as Q1.
      pose proof (Z.rem_bound_abs (60 * M1 - 59 * M0) 60 ltac:(discriminate)) as Q2. lia. }
    rewrite Ek.
    set (V := 6 * (qZ (M0 + 60 * k) + qN yz0 / div17)).
    assert (V == (lat - 6 * e0) + 360 * inject_Z k) as EV.
    { unfold V. change (qZ (M0 + 60 * k)) with (inject_Z (M0 + 60 * k)).
      rewrite inject_Z_plus, inject_Z_mult, div17_mul. change (inject_Z 60) with 60. lra. }
    clearbody V.
    rewrite (fixed_lat_shift V (lat - 6 * e0) k (1 # 2) Hk EV) by lra.
    apply Qabs_Qle_condition. lra.
  Qed.

  Theorem cpr_rlat1_correct : Qabs (cpr_rlat1 yz0 yz1 - lat) <= (360 # 59) * (1 # 262144).
  Proof.
    destruct cpr_j_correct as (M0 & M1 & e0 & e1 & HM0 & HM1 & A0 & B0 & A1 & B1 & D0 & D1 & EJ).
    unfold cpr_rlat1, zrem. rewrite EJ.
    assert (exists k, (k = -1 \/ k = 0 \/ k = 1)%Z /\
                      Z.rem (60 * M1 - 59 * M0) 59 = (M1 + 59 * k)%Z) as (k & Hk & Ek).
    { exists (M1 - M0 - Z.quot (60 * M1 - 59 * M0) 59)%Z.
      pose proof (Z.quot_rem' (60 * M1 - 59 * M0) 59) as Q1.
      pose proof (Z.rem_bound_abs (60 * M1 - 59 * M0) 59 ltac:(discriminate)) as Q2. lia. }
    rewrite Ek.
    set (V := (360 # 59) * (qZ (M1 + 59 * k) + qN yz1 / div17)).
    assert (V == (lat - (360 # 59) * e1) + 360 * inject_Z k) as EV.
    { unfold V. change (qZ (M1 + 59 * k)) with (inject_Z (M1 + 59 * k)).
      rewrite inject_Z_plus, inject_Z_mult, div17_mul. change (inject_Z 59) with 59. lra. }
    clearbody V.
    rewrite (fixed_lat_shift V (lat - (360 # 59) * e1) k (1 # 2) Hk EV) by lra.
    apply Qabs_Qle_condition. lra.
  Qed.

  (** whatever [cpr_location] returns for such a pair has the right latitude *)
  Theorem cpr_location_lat_correct lon0 lon1 form coeff la lo :
    cpr_location yz0 yz1 lon0 lon1 form coeff = Some (la, lo) ->
    Qabs (la - lat) <= (if (form =? 1)%N then 360 # 59 else 6) * (1 # 262144).
  Proof.
    intros H. apply cpr_location_some in H. destruct H as (_ & -> & _).
    destruct (form =? 1)%N; [apply cpr_rlat1_correct | apply cpr_rlat0_correct].
  Qed.
End LatDecode.

(** at the row level: a committed latitude is within Dlat / 2^18 of the latitude both stored
    frames encode *)
Theorem update_position_lat_correct obs r tc form truelat la lo :
  -89 < truelat -> truelat < 89 ->
  Z.of_N (cpr_lat0 r) = cpr_enc 6 truelat -> Z.of_N (cpr_lat1 r) = cpr_enc (360 # 59) truelat ->
  pos_commits r tc form la lo ->
  Qabs (lat (update_position obs r tc form) - truelat)
  <= (if (form =? 1)%N then 360 # 59 else 6) * (1 # 262144).
Proof.
  intros L1 L2 E0 E1 C.
  pose proof (update_position_commit obs r tc form la lo C) as H. cbn zeta in H.
  destruct H as (-> & _ & _ & _ & (c & _ & Hc) & _).
  exact (cpr_location_lat_correct truelat _ _ L1 L2 E0 E1 _ _ _ _ _ _ Hc).
Qed.

(** a concrete instance (non-vacuity of the encoder hypotheses): 52.2572 N *)
Example cpr_enc_example :
  cpr_enc 6 (522572 # 10000) = 93000%Z /\ cpr_enc (360 # 59) (522572 # 10000) = 73974%Z /\
  cpr_rlat0 93000 73974 == 428091 # 8192.
Proof. vm_compute. repeat split. Qed.

Print Assumptions update_position_unchanged.
Print Assumptions update_position_range.
Print Assumptions update_position_cases.
Print Assumptions update_position_commit.
Print Assumptions store_cpr_fresh.
Print Assumptions row_from_message_no_position.
Print Assumptions row_from_downlink_no_position.
Print Assumptions update_position_time_window.
Print Assumptions update_position_mixed.
Print Assumptions update_position_straddle.
Print Assumptions update_position_dist_changed.
Print Assumptions update_position_dist_none.
Print Assumptions nl_band.
Print Assumptions nl_polar.
Print Assumptions cpr_rlat0_correct.
Print Assumptions cpr_rlat1_correct.
Print Assumptions cpr_location_lat_correct.
Print Assumptions update_position_lat_correct.
