(** Row expiry: rows live exactly as long as the aircraft is being heard.

    - every accepted frame, of any format and under any option set, stamps the row of its address
      with the current time (the last-contact age restarts at 0), and that row survives the sweep
      of the same step;
    - between sweeps nothing is removed; at a sweep exactly the rows whose age has reached
      [delete_after] go, every other row is kept unchanged;
    - the sweep counter: a sweep happens when the counter exceeds 10, i.e. at the 12th applied
      line of a reader call and then every 11th; the counter never exceeds 11;
    - a frame for an address that has no row creates the row from nothing but the frame;
    - after a sweep the table holds one row per address heard within the window. *)
From SQ Require Import Base Table Footprint TableProofs.
Local Open Scope N_scope.

(** ======================= 1. who writes [timestamp] ======================= *)

Lemma modifies_timestamp S r r' :
  modifies S r r' -> memf F_timestamp S = false -> timestamp r' = timestamp r.
Proof. intros H M. symmetry. exact (H F_timestamp M). Qed.

Ltac split_ifs :=
  repeat match goal with |- context [if ?c then _ else _] => destruct c end.

Lemma fp_bcast_no_ts df : memf F_timestamp (fp_bcast df) = false.
Proof. unfold fp_bcast. split_ifs; reflexivity. Qed.

Lemma fp_ext19_no_ts st : memf F_timestamp (fp_ext19 st) = false.
Proof. unfold fp_ext19. split_ifs; reflexivity. Qed.

Lemma fp_ext_no_ts tc st : memf F_timestamp (fp_ext tc st) = false.
Proof.
  unfold fp_ext. cbn [memf]. destruct (fld_eq_dec F_timestamp F_last_tc); [discriminate|].
  destruct (in_tc 1 4 tc); [reflexivity|]. destruct (in_tc 5 8 tc); [reflexivity|].
  destruct (in_tc 9 18 tc); [reflexivity|]. destruct (tc =? 19); [apply fp_ext19_no_ts|].
  destruct (in_tc 20 22 tc); [reflexivity|]. destruct (tc =? 31); reflexivity.
Qed.

Lemma fp_ext_dl_no_ts tc st : memf F_timestamp (fp_ext_dl tc st) = false.
Proof. exact (fp_ext_no_ts tc st). Qed.

Lemma fp_mode_s_no_ts : memf F_timestamp fp_mode_s = false.
Proof. reflexivity. Qed.

Lemma fp_srt_no_ts s : memf F_timestamp (fp_srt s) = false.
Proof.
  unfold fp_srt. destruct (s_df s) as [[|p]|]; try reflexivity.
  repeat (destruct p as [p|p|]; try reflexivity).
Qed.

(** Plane::update: the first setter stamps the row, no later stage touches the stamp *)
Theorem plane_update_timestamp obs now r m df relaxed r' :
  plane_update obs now r m df relaxed = Ok r' -> timestamp r' = now.
Proof.
  unfold plane_update. intros H.
  stage_r H r1 E1. apply update_from_bcast_fp in E1.
  stage_r H r2 E2.
  assert (timestamp r2 = timestamp r1) as T2.
  { destruct ((df =? 17) || (df =? 18)).
    - destruct (get_message_type m) as [[tc st]|] eqn:T.
      + eapply modifies_timestamp; [eapply update_from_ext_fp; eassumption | apply fp_ext_no_ts].
      + unfold update_from_ext in E2. rewrite T in E2. discriminate E2.
    - inversion E2; reflexivity. }
  assert (timestamp r' = timestamp r2) as T3.
  { destruct ((relaxed || (3 <? cap_ca r2)) && ((df =? 20) || (df =? 21))).
    - eapply modifies_timestamp; [eapply update_from_mode_s_fp; exact H | exact fp_mode_s_no_ts].
    - inversion H; reflexivity. }
  rewrite T3, T2, (modifies_timestamp _ _ _ E1 (fp_bcast_no_ts df)). reflexivity.
Qed.

(** UpdateFromDownlink<DF> *)
Theorem update_from_downlink_timestamp obs now r d :
  timestamp (update_from_downlink obs now r d) = now.
Proof.
  unfold update_from_downlink. cbv zeta.
  set (r1 := match dl_df d with Some df => _ | None => _ end).
  assert (timestamp r1 = now) as T1 by (subst r1; destruct (dl_df d); reflexivity).
  clearbody r1. destruct d as [s|e|df ic].
  - rewrite (modifies_timestamp _ _ _ (update_from_srt_dl_fp r1 s) (fp_srt_no_ts s)). exact T1.
  - rewrite (modifies_timestamp _ _ _ (update_from_ext_dl_fp obs r1 e) (fp_ext_dl_no_ts _ _)). exact T1.
  - destruct ic; exact T1.
Qed.

(** Plane::from_downlink *)
Theorem row_from_downlink_timestamp obs now d a :
  timestamp (row_from_downlink obs now d a) = now.
Proof. unfold row_from_downlink. apply update_from_downlink_timestamp. Qed.

(** Plane::from_message *)
Theorem row_from_message_timestamp obs now m df a relaxed r :
  row_from_message obs now m df a relaxed = Ok r -> timestamp r = now.
Proof. unfold row_from_message. apply plane_update_timestamp. Qed.

(** ======================= ages ======================= *)

Lemma age_zero now : num_seconds now now = 0%Z.
Proof. unfold num_seconds. rewrite Z.sub_diag. reflexivity. Qed.

(** a stamp that is not in the past has a non-positive age *)
Lemma age_nonpos T ts : (T <= ts)%Z -> (num_seconds T ts <= 0)%Z.
Proof.
  intros H. unfold num_seconds. change 0%Z with (Z.quot 0 1000).
  apply Z.quot_le_mono; lia.
Qed.

(** ======================= table lemmas ======================= *)

Lemma lookup_in t b r : lookup t b = Some r -> In (b, r) t.
Proof.
  induction t as [|[k r0] t IH]; cbn [lookup In]; [discriminate|].
  destruct (N.eqb_spec k b) as [->|E].
  - intros H. inversion H; subst. left. reflexivity.
  - intros H. right. apply IH. exact H.
Qed.

Lemma in_upsert t a r' b r : In (b, r) (upsert t a r') -> In (b, r) t \/ (b = a /\ r = r').
Proof.
  induction t as [|[k r0] t IH]; cbn [upsert In].
  - intros [H|[]]. inversion H; subst. right. split; reflexivity.
  - destruct (N.eqb_spec k a) as [->|E]; cbn [In].
    + intros [H|H]; [inversion H; subst; right; split; reflexivity | left; right; exact H].
    + intros [H|H]; [left; left; exact H|]. destruct (IH H) as [J|J]; [left; right; exact J | right; exact J].
Qed.

Lemma lookup_filter_keep (p : N * row -> bool) t b r :
  lookup t b = Some r -> p (b, r) = true -> lookup (filter p t) b = Some r.
Proof.
  induction t as [|[k r0] t IH]; cbn [lookup filter]; [discriminate|].
  intros H P. destruct (N.eqb_spec k b) as [->|E].
  - inversion H; subst. rewrite P. cbn [lookup]. rewrite N.eqb_refl. reflexivity.
  - destruct (p (k, r0)); [cbn [lookup]; destruct (N.eqb_spec k b); [contradiction|]|]; apply IH; assumption.
Qed.

(** the predicate of the sweep *)
Definition young (now da : Z) (r : row) : bool := (num_seconds now (timestamp r) <? da)%Z.

Lemma cleanup_tbl t c now da :
  fst (cleanup t c now da) =
  if 10 <? cleanup_count c then filter (fun p => young now da (snd p)) t else t.
Proof.
  unfold cleanup. destruct (10 <? cleanup_count c); cbn [fst]; [|reflexivity].
  apply filter_ext. intros [k r]. reflexivity.
Qed.

Lemma cleanup_cnt t c now da :
  cleanup_count (snd (cleanup t c now da)) =
  if 10 <? cleanup_count c then 1 else cleanup_count c + 1.
Proof. unfold cleanup. destruct (10 <? cleanup_count c); reflexivity. Qed.

(** a young row survives any cleanup, unchanged (no uniqueness assumption needed) *)
Lemma cleanup_keep t c now da b r :
  lookup t b = Some r -> (num_seconds now (timestamp r) < da)%Z ->
  lookup (fst (cleanup t c now da)) b = Some r.
Proof.
  intros L A. rewrite cleanup_tbl. destruct (10 <? cleanup_count c); [|exact L].
  apply lookup_filter_keep; [exact L|]. cbn [snd]. unfold young. apply Z.ltb_lt. exact A.
Qed.

(** without a sweep nothing changes *)
Lemma cleanup_idle t c now da : cleanup_count c <= 10 -> fst (cleanup t c now da) = t.
Proof.
  intros H. rewrite cleanup_tbl. destruct (10 <? cleanup_count c) eqn:E; [|reflexivity].
  apply N.ltb_lt in E. lia.
Qed.

(** at a sweep every entry that remains is young *)
Lemma cleanup_sweep_in t c now da b r :
  10 < cleanup_count c -> In (b, r) (fst (cleanup t c now da)) ->
  (num_seconds now (timestamp r) < da)%Z.
Proof.
  intros H I. rewrite cleanup_tbl in I. apply N.ltb_lt in H. rewrite H in I.
  apply filter_In in I. destruct I as [_ Y]. cbn [snd] in Y. apply Z.ltb_lt. exact Y.
Qed.

Lemma cleanup_in t c now da x : In x (fst (cleanup t c now da)) -> In x t.
Proof.
  rewrite cleanup_tbl. destruct (10 <? cleanup_count c); [|tauto].
  intros I. apply filter_In in I. tauto.
Qed.

(** ======================= update_aircraft ======================= *)

(** whatever branch is taken, the row written for [a] carries the current time *)
Lemma update_aircraft_stamp o now t d m df a t' :
  update_aircraft o now t d m df a = Ok t' ->
  exists r', t' = upsert t a r' /\ timestamp r' = now.
Proof.
  unfold update_aircraft. intros H.
  destruct (lookup t a) as [r|].
  - destruct ((df <? 20) && negb (use_update o)).
    + inv_res. eexists. split; [reflexivity | apply update_from_downlink_timestamp].
    + inv_res. eexists. split; [reflexivity | eapply plane_update_timestamp; eassumption].
  - inv_res. eexists. split; [reflexivity | apply row_from_downlink_timestamp].
Qed.

(** 6. nothing is remembered: a frame for an address without a row creates the row from the
    frame alone *)
Theorem fresh o now t d m df a t' :
  update_aircraft o now t d m df a = Ok t' -> lookup t a = None ->
  lookup t' a = Some (row_from_downlink (observer o) now d a).
Proof.
  unfold update_aircraft. intros H L. rewrite L in H. inversion H; subst.
  apply lookup_upsert_same.
Qed.

(** ======================= anatomy of an applied line ======================= *)

Lemma df_from_message_some m df x :
  get_downlink_format m = Ok (Some df) -> df_from_message m = Ok x -> exists d, x = Some d.
Proof.
  unfold df_from_message. intros G H. rewrite G in H. cbn [bind] in H.
  destruct (df <=? 16); [inv_res; eexists; reflexivity|].
  destruct (df =? 17); [inv_res; eexists; reflexivity|].
  destruct ((df =? 20) || (df =? 21)); [|inv_res; eexists; reflexivity].
  destruct (mds_from_message m) as [[dd ii]|]; cbn [bind] in H; [|discriminate H].
  inversion H. eexists. reflexivity.
Qed.

(** an applied line is: decode, upsert the row of [a], cleanup -- always both *)
Lemma step_line_applied_inv o now s line s' rf df a :
  step_line o now s line = Ok (s', rf, Applied df a) ->
  exists m d t1 c0,
    get_message line = Ok (Some m) /\ df_from_message m = Ok (Some d) /\
    update_aircraft o now (tbl s) d m df a = Ok t1 /\
    cleanup_count c0 = cleanup_count (cnt s) /\
    tbl s' = fst (cleanup t1 c0 now (delete_after o)) /\
    cleanup_count (cnt s') = cleanup_count (snd (cleanup t1 c0 now (delete_after o))).
Proof.
  unfold step_line. intros H.
  destruct (get_message line) as [[m|]|] eqn:GM; cbn [bind] in *; try discriminate.
  destruct (get_downlink_format m) as [[df'|]|] eqn:GD; cbn [bind] in *; try discriminate.
  destruct (get_icao m df') as [[a'|]|]; cbn [bind] in *; try discriminate.
  destruct (match filter_df o with Some only => _ | None => false end); try discriminate.
  destruct (df_from_message m) as [d|] eqn:DM; cbn [bind] in H; [|discriminate].
  destruct (df_from_message_some _ _ _ GD DM) as [d' ->].
  destruct (update_aircraft o now (tbl s) d' m df' a') as [t1|] eqn:U; cbn [bind] in H; [|discriminate].
  set (c0 := if count_df o then _ else cnt s) in H.
  destruct (cleanup t1 c0 now (delete_after o)) as [t2 c2] eqn:C. cbn [bind] in H.
  inversion H; subst s' rf df' a'; clear H.
  exists m, d', t1, c0. rewrite C. cbn [tbl cnt fst snd].
  repeat split; try assumption.
  - subst c0. destruct (count_df o); reflexivity.
  - destruct (negb (quiet o) && _)%bool; reflexivity.
Qed.

(** ======================= 2. refresh ======================= *)

(** the last-contact age restarts at 0 with every accepted frame, of any format, under any
    option set; the row is present after the step (its age 0 is below any positive limit) *)
Theorem refresh o now s line s' rf df a :
  step_line o now s line = Ok (s', rf, Applied df a) -> (0 < delete_after o)%Z ->
  exists r, lookup (tbl s') a = Some r /\ timestamp r = now.
Proof.
  intros H D. destruct (step_line_applied_inv _ _ _ _ _ _ _ _ H) as (m & d & t1 & c0 & _ & _ & U & _ & T & _).
  destruct (update_aircraft_stamp _ _ _ _ _ _ _ _ U) as (r' & -> & S).
  exists r'. split; [|exact S]. rewrite T. apply cleanup_keep; [apply lookup_upsert_same|].
  rewrite S, age_zero. exact D.
Qed.

Corollary refresh_age o now s line s' rf df a :
  step_line o now s line = Ok (s', rf, Applied df a) -> (0 < delete_after o)%Z ->
  exists r, lookup (tbl s') a = Some r /\ num_seconds now (timestamp r) = 0%Z.
Proof.
  intros H D. destruct (refresh _ _ _ _ _ _ _ _ H D) as (r & L & S).
  exists r. split; [exact L|]. rewrite S. apply age_zero.
Qed.

(** a first frame creates exactly the row built from that frame *)
Theorem fresh_step o now s line s' rf df a :
  step_line o now s line = Ok (s', rf, Applied df a) -> (0 < delete_after o)%Z ->
  lookup (tbl s) a = None ->
  exists m d, get_message line = Ok (Some m) /\ df_from_message m = Ok (Some d) /\
              lookup (tbl s') a = Some (row_from_downlink (observer o) now d a).
Proof.
  intros H D N0. destruct (step_line_applied_inv _ _ _ _ _ _ _ _ H) as (m & d & t1 & c0 & GM & DM & U & _ & T & _).
  exists m, d. split; [exact GM|]. split; [exact DM|].
  rewrite T. apply cleanup_keep; [exact (fresh _ _ _ _ _ _ _ _ U N0)|].
  rewrite row_from_downlink_timestamp, age_zero. exact D.
Qed.

(** ======================= 3. present ======================= *)

(** a row whose age is below the limit survives, unchanged, a step for another aircraft
    (sweep or not; no uniqueness assumption is needed) *)
Theorem present_strong o now s line s' rf df a b r :
  step_line o now s line = Ok (s', rf, Applied df a) -> b <> a ->
  lookup (tbl s) b = Some r -> (num_seconds now (timestamp r) < delete_after o)%Z ->
  lookup (tbl s') b = Some r.
Proof.
  intros H Hne L A. destruct (step_line_applied_inv _ _ _ _ _ _ _ _ H) as (m & d & t1 & c0 & _ & _ & U & _ & T & _).
  rewrite T. apply cleanup_keep; [|exact A].
  rewrite (update_aircraft_isolation _ _ _ _ _ _ _ _ _ U Hne). exact L.
Qed.

Theorem present o now s line s' rf df a b r :
  step_line o now s line = Ok (s', rf, Applied df a) -> NoDup (keys (tbl s)) -> b <> a ->
  lookup (tbl s) b = Some r -> (num_seconds now (timestamp r) < delete_after o)%Z ->
  lookup (tbl s') b = Some r.
Proof. intros H _. exact (present_strong _ _ _ _ _ _ _ _ _ _ H). Qed.

(** lines that are not applied leave every row where it is *)
Theorem present_skipped o now s line s' rf b :
  step_line o now s line = Ok (s', rf, Skipped) -> lookup (tbl s') b = lookup (tbl s) b.
Proof. intros H. apply step_line_skipped in H. destruct H as [-> _]. reflexivity. Qed.

(** between sweeps no row of another aircraft is touched, whatever its age *)
Theorem no_sweep_keeps o now s line s' rf df a b :
  step_line o now s line = Ok (s', rf, Applied df a) -> cleanup_count (cnt s) <= 10 -> b <> a ->
  lookup (tbl s') b = lookup (tbl s) b.
Proof.
  intros H K Hne. destruct (step_line_applied_inv _ _ _ _ _ _ _ _ H) as (m & d & t1 & c0 & _ & _ & U & CC & T & _).
  rewrite T, cleanup_idle by (rewrite CC; exact K).
  exact (update_aircraft_isolation _ _ _ _ _ _ _ _ _ U Hne).
Qed.

(** ======================= 4. removed ======================= *)

(** at a sweep every entry that remains is younger than the limit *)
Theorem removed_in o now s line s' rf df a :
  step_line o now s line = Ok (s', rf, Applied df a) -> 10 < cleanup_count (cnt s) ->
  forall b r, In (b, r) (tbl s') -> (num_seconds now (timestamp r) < delete_after o)%Z.
Proof.
  intros H K b r I. destruct (step_line_applied_inv _ _ _ _ _ _ _ _ H) as (m & d & t1 & c0 & _ & _ & _ & CC & T & _).
  rewrite T in I. eapply cleanup_sweep_in; [|exact I]. rewrite CC. exact K.
Qed.

Theorem removed_strong o now s line s' rf df a :
  step_line o now s line = Ok (s', rf, Applied df a) -> 10 < cleanup_count (cnt s) ->
  forall b r, lookup (tbl s') b = Some r -> (num_seconds now (timestamp r) < delete_after o)%Z.
Proof. intros H K b r L. eapply removed_in; [exact H | exact K | apply lookup_in; exact L]. Qed.

Theorem removed o now s line s' rf df a :
  step_line o now s line = Ok (s', rf, Applied df a) -> 10 < cleanup_count (cnt s) ->
  NoDup (keys (tbl s)) ->
  forall b r, lookup (tbl s') b = Some r -> (num_seconds now (timestamp r) < delete_after o)%Z.
Proof. intros H K _. exact (removed_strong _ _ _ _ _ _ _ _ H K). Qed.

(** the same, read from the side of the stale row: it is gone *)
Theorem stale_removed o now s line s' rf df a b r :
  step_line o now s line = Ok (s', rf, Applied df a) -> 10 < cleanup_count (cnt s) ->
  NoDup (keys (tbl s)) -> b <> a -> lookup (tbl s) b = Some r ->
  (delete_after o <= num_seconds now (timestamp r))%Z ->
  lookup (tbl s') b = None.
Proof.
  intros H K ND Hne L A.
  destruct (lookup (tbl s') b) as [r2|] eqn:L2; [exfalso|reflexivity].
  pose proof (removed_strong _ _ _ _ _ _ _ _ H K _ _ L2) as Y.
  destruct (step_line_applied _ _ _ _ _ _ _ _ H ND) as (_ & Iso & _).
  rewrite (Iso _ _ Hne L2) in L. inversion L; subst. lia.
Qed.

(** exact characterisation at a sweep, for the rows of the other aircraft *)
Theorem sweep_exact o now s line s' rf df a b r :
  step_line o now s line = Ok (s', rf, Applied df a) -> 10 < cleanup_count (cnt s) ->
  NoDup (keys (tbl s)) -> b <> a -> lookup (tbl s) b = Some r ->
  lookup (tbl s') b =
    if (num_seconds now (timestamp r) <? delete_after o)%Z then Some r else None.
Proof.
  intros H K ND Hne L. destruct (Z.ltb_spec (num_seconds now (timestamp r)) (delete_after o)) as [A|A].
  - eapply present_strong; eassumption.
  - eapply stale_removed; eassumption.
Qed.

(** ======================= 5. cadence ======================= *)

Definition next_count (c : N) : N := if 10 <? c then 1 else c + 1.

Theorem cadence_applied o now s line s' rf df a :
  step_line o now s line = Ok (s', rf, Applied df a) ->
  cleanup_count (cnt s') = (if 10 <? cleanup_count (cnt s) then 1 else cleanup_count (cnt s) + 1).
Proof.
  intros H. destruct (step_line_applied_inv _ _ _ _ _ _ _ _ H) as (m & d & t1 & c0 & _ & _ & _ & CC & _ & K).
  rewrite K, cleanup_cnt, CC. reflexivity.
Qed.

Theorem cadence_skipped o now s line s' rf :
  step_line o now s line = Ok (s', rf, Skipped) -> cleanup_count (cnt s') = cleanup_count (cnt s).
Proof. intros H. apply step_line_skipped in H. destruct H as [-> _]. reflexivity. Qed.

Lemma step_count o now s l s' rf oc :
  step o now s l = Ok (s', rf, oc) ->
  cleanup_count (cnt s') =
    match oc with Applied _ _ => next_count (cleanup_count (cnt s)) | Skipped => cleanup_count (cnt s) end.
Proof.
  unfold step. destruct l as [line|]; [|intros H; inversion H; reflexivity].
  destruct oc as [|df a]; intros H; [eapply cadence_skipped | eapply cadence_applied]; exact H.
Qed.

Lemma next_count_le c : c <= 11 -> next_count c <= 11.
Proof. unfold next_count. intros H. destruct (N.ltb_spec 10 c); lia. Qed.

Lemma step_count_le o now s l s' rf oc :
  step o now s l = Ok (s', rf, oc) -> cleanup_count (cnt s) <= 11 -> cleanup_count (cnt s') <= 11.
Proof.
  intros H K. rewrite (step_count _ _ _ _ _ _ _ H). destruct oc; [exact K | apply next_count_le; exact K].
Qed.

(** the counter never exceeds 11 *)
Theorem run_lines_count_le o now ls : forall s s',
  run_lines o now s ls = Ok s' -> cleanup_count (cnt s) <= 11 -> cleanup_count (cnt s') <= 11.
Proof.
  induction ls as [|l t IH]; cbn [run_lines]; intros s s' H K; [inversion H; subst; exact K|].
  destruct (step o now s l) as [[[s1 rf] oc]|] eqn:E; cbn [bind] in H; [|discriminate].
  eapply IH; [exact H|]. eapply step_count_le; eassumption.
Qed.

Corollary reader_count_le o now t ls s' :
  run_lines o now (mkState t (counters_new now (update_s o))) ls = Ok s' ->
  cleanup_count (cnt s') <= 11.
Proof. intros H. eapply run_lines_count_le; [exact H|]. cbn. lia. Qed.

(** number of applied lines of a list (a property of the options and the lines alone) *)
Definition n_applied (o : opts) (ls : list (option (list N))) : nat :=
  List.length (filter (effective o) ls).

Lemma step_effective o now s l s' rf oc :
  step o now s l = Ok (s', rf, oc) ->
  effective o l = match oc with Applied _ _ => true | Skipped => false end.
Proof.
  unfold step, effective. destruct l as [line|]; [|intros H; inversion H; reflexivity].
  intros H. rewrite (step_line_classify _ _ _ _ _ _ _ H). destruct oc; reflexivity.
Qed.

Lemma iter_succ_r {A} (f : A -> A) n x : Nat.iter (S n) f x = Nat.iter n f (f x).
Proof. induction n as [|n IH]; [reflexivity|]. cbn [Nat.iter nat_rect] in *. rewrite IH. reflexivity. Qed.

(** exact value of the counter after a run *)
Theorem run_lines_count o now ls : forall s s',
  run_lines o now s ls = Ok s' ->
  cleanup_count (cnt s') = Nat.iter (n_applied o ls) next_count (cleanup_count (cnt s)).
Proof.
  unfold n_applied.
  induction ls as [|l t IH]; cbn [run_lines filter]; intros s s' H; [inversion H; reflexivity|].
  destruct (step o now s l) as [[[s1 rf] oc]|] eqn:E; cbn [bind] in H; [|discriminate].
  rewrite (IH _ _ H), (step_count _ _ _ _ _ _ _ E), (step_effective _ _ _ _ _ _ _ E).
  destruct oc; [reflexivity|]. cbn [List.length]. symmetry. apply iter_succ_r.
Qed.

(** Where the first sweep falls.  From a counter [c <= 11], the applied line number [12 - c]
    is a sweep step: the run splits into a prefix with exactly [11 - c] applied lines, none of
    which sweeps, and a line applied with the counter above 10. *)
Theorem first_sweep o now ls : forall s s',
  run_lines o now s ls = Ok s' -> cleanup_count (cnt s) <= 11 ->
  (N.to_nat (12 - cleanup_count (cnt s)) <= n_applied o ls)%nat ->
  exists pre line post s1 s2 rf df a,
    ls = pre ++ Some line :: post /\
    run_lines o now s pre = Ok s1 /\
    step_line o now s1 line = Ok (s2, rf, Applied df a) /\
    10 < cleanup_count (cnt s1) /\
    n_applied o pre = N.to_nat (11 - cleanup_count (cnt s)) /\
    run_lines o now s2 post = Ok s'.
Proof.
  unfold n_applied.
  induction ls as [|l t IH]; cbn [run_lines filter]; intros s s' H K L.
  - cbn [List.length] in L. lia.
  - destruct (step o now s l) as [[[s1 rf] oc]|] eqn:E; cbn [bind] in H; [|discriminate].
    pose proof (step_effective _ _ _ _ _ _ _ E) as F.
    pose proof (step_count _ _ _ _ _ _ _ E) as C.
    destruct oc as [|df a].
    + (* an inert line: counter and remaining applied lines unchanged *)
      rewrite F in L.
      assert (s1 = s) as ->.
      { destruct l as [line|]; cbn [step] in E; [apply step_line_skipped in E; tauto | inversion E; reflexivity]. }
      destruct (IH _ _ H K L) as (pre & line & post & sa & sb & rf' & df & a & -> & R & S & G & NA & P).
      exists (l :: pre), line, post, sa, sb, rf', df, a.
      cbn [app run_lines filter]. rewrite E, F. cbn [bind].
      repeat split; assumption.
    + rewrite F in L. cbn [List.length] in L.
      destruct l as [line|]; cbn [step] in E; [|inversion E].
      destruct (N.ltb_spec 10 (cleanup_count (cnt s))) as [G|G].
      * (* this very line sweeps *)
        exists [], line, t, s, s1, rf, df, a. cbn [app run_lines filter List.length].
        repeat split; try assumption; try reflexivity.
        replace (11 - cleanup_count (cnt s)) with 0 by lia. reflexivity.
      * unfold next_count in C. destruct (N.ltb_spec 10 (cleanup_count (cnt s))) as [G'|_]; [lia|].
        assert (cleanup_count (cnt s1) <= 11) as K1 by lia.
        assert (N.to_nat (12 - cleanup_count (cnt s1)) <= List.length (filter (effective o) t))%nat as L1 by lia.
        destruct (IH _ _ H K1 L1) as (pre & line' & post & sa & sb & rf' & df' & a' & -> & R & S & G1 & NA & P).
        exists (Some line :: pre), line', post, sa, sb, rf', df', a'.
        cbn [app run_lines filter step]. rewrite E. cbn [bind].
        rewrite F. cbn [List.length].
        repeat split; try assumption; try reflexivity. rewrite NA. lia.
Qed.

(** among any 12 applied lines one is a sweep step *)
Corollary sweep_within_12 o now ls s s' :
  run_lines o now s ls = Ok s' -> cleanup_count (cnt s) <= 11 -> (12 <= n_applied o ls)%nat ->
  exists pre line post s1 s2 rf df a,
    ls = pre ++ Some line :: post /\
    run_lines o now s pre = Ok s1 /\
    step_line o now s1 line = Ok (s2, rf, Applied df a) /\
    10 < cleanup_count (cnt s1) /\
    (n_applied o pre < 12)%nat /\
    run_lines o now s2 post = Ok s'.
Proof.
  intros H K L.
  destruct (first_sweep o now ls s s' H K) as (pre & line & post & s1 & s2 & rf & df & a & E & R & S & G & NA & P); [lia|].
  exists pre, line, post, s1, s2, rf, df, a. repeat split; try assumption. rewrite NA. lia.
Qed.

(** a reader call sweeps for the first time at its 12th applied line *)
Corollary reader_first_sweep o now t ls s' :
  run_lines o now (mkState t (counters_new now (update_s o))) ls = Ok s' ->
  (12 <= n_applied o ls)%nat ->
  exists pre line post s1 s2 rf df a,
    ls = pre ++ Some line :: post /\
    run_lines o now (mkState t (counters_new now (update_s o))) pre = Ok s1 /\
    step_line o now s1 line = Ok (s2, rf, Applied df a) /\
    10 < cleanup_count (cnt s1) /\
    n_applied o pre = 11%nat /\
    run_lines o now s2 post = Ok s'.
Proof.
  intros H L.
  destruct (first_sweep o now ls _ s' H) as (pre & line & post & s1 & s2 & rf & df & a & E & R & S & G & NA & P);
    [cbn; lia | cbn; lia |].
  exists pre, line, post, s1, s2, rf, df, a. repeat split; assumption.
Qed.

(** ======================= 7. bound ======================= *)

(** after a sweep step the table is: one row per address, every row younger than the limit *)
Theorem after_sweep o now s line s' rf df a :
  step_line o now s line = Ok (s', rf, Applied df a) -> 10 < cleanup_count (cnt s) ->
  NoDup (keys (tbl s)) ->
  NoDup (keys (tbl s')) /\
  Forall (fun p => (num_seconds now (timestamp (snd p)) < delete_after o)%Z) (tbl s').
Proof.
  intros H K ND. split; [apply (step_line_applied _ _ _ _ _ _ _ _ H ND)|].
  apply Forall_forall. intros [b r] I. cbn [snd]. exact (removed_in _ _ _ _ _ _ _ _ H K b r I).
Qed.

(** hence the number of rows is at most the number of addresses heard within the window:
    any list [L] that contains every address whose row is younger than the limit is at least
    as long as the table *)
Theorem bound o now s line s' rf df a (L : list N) :
  step_line o now s line = Ok (s', rf, Applied df a) -> 10 < cleanup_count (cnt s) ->
  NoDup (keys (tbl s)) ->
  (forall b r, lookup (tbl s') b = Some r ->
               (num_seconds now (timestamp r) < delete_after o)%Z -> In b L) ->
  (List.length (tbl s') <= List.length L)%nat.
Proof.
  intros H K ND HL. destruct (after_sweep _ _ _ _ _ _ _ _ H K ND) as [ND' _].
  replace (List.length (tbl s')) with (List.length (keys (tbl s'))) by (unfold keys; apply map_length).
  apply NoDup_incl_length; [exact ND'|]. intros b I.
  destruct (lookup (tbl s') b) as [r|] eqn:Lb.
  - apply (HL b r Lb). exact (removed_strong _ _ _ _ _ _ _ _ H K b r Lb).
  - apply lookup_none_keys in Lb. contradiction.
Qed.

(** ---- runs with a clock: each line has its own time ---- *)
Fixpoint run_timed (o : opts) (s : state) (ls : list (Z * list N)) : res state :=
  match ls with
  | [] => Ok s
  | (now, line) :: t => '(s', _, _) <- step_line o now s line ;; run_timed o s' t
  end.

(** [run_lines] is the special case of a stopped clock *)
Lemma run_timed_const o now ls : forall s,
  run_timed o s (map (fun l => (now, l)) ls) = run_lines o now s (map Some ls).
Proof.
  induction ls as [|l t IH]; intros s; cbn [map run_timed run_lines step]; [reflexivity|].
  destruct (step_line o now s l) as [[[s1 rf] oc]|]; cbn [bind]; [apply IH | reflexivity].
Qed.

(** every entry of the table was last heard less than [da] seconds before [T], or after [T] *)
Definition all_heard_since (T da : Z) (t : table) : Prop :=
  forall b r, In (b, r) t -> (num_seconds T (timestamp r) < da)%Z.

Lemma step_line_heard o now s line s' rf oc T :
  step_line o now s line = Ok (s', rf, oc) -> (0 < delete_after o)%Z -> (T <= now)%Z ->
  all_heard_since T (delete_after o) (tbl s) -> all_heard_since T (delete_after o) (tbl s').
Proof.
  intros H D M P. destruct oc as [|df a].
  - apply step_line_skipped in H. destruct H as [-> _]. exact P.
  - destruct (step_line_applied_inv _ _ _ _ _ _ _ _ H) as (m & d & t1 & c0 & _ & _ & U & _ & Tb & _).
    destruct (update_aircraft_stamp _ _ _ _ _ _ _ _ U) as (r' & -> & S).
    intros b r I. rewrite Tb in I. apply cleanup_in in I. apply in_upsert in I.
    destruct I as [I|[_ ->]]; [exact (P b r I)|].
    rewrite S. pose proof (age_nonpos T now M). lia.
Qed.

Lemma run_timed_heard o T : forall ls s s',
  run_timed o s ls = Ok s' -> (0 < delete_after o)%Z ->
  Forall (fun p => (T <= fst p)%Z) ls ->
  all_heard_since T (delete_after o) (tbl s) -> all_heard_since T (delete_after o) (tbl s').
Proof.
  induction ls as [|[now line] t IH]; cbn [run_timed]; intros s s' H D M P; [inversion H; subst; exact P|].
  destruct (step_line o now s line) as [[[s1 rf] oc]|] eqn:E; cbn [bind] in H; [|discriminate].
  inversion M as [|? ? M1 M2]; subst. cbn [fst] in M1.
  eapply IH; [exact H | exact D | exact M2 |].
  eapply step_line_heard; eassumption.
Qed.

(** Rows that are in the table after any number of further lines (and sweeps) following a sweep
    at time [T], the clock not running backwards, were each heard less than [delete_after]
    seconds before that sweep, or after it. *)
Theorem survivors o T s line s1 rf df a post s2 :
  step_line o T s line = Ok (s1, rf, Applied df a) -> 10 < cleanup_count (cnt s) ->
  (0 < delete_after o)%Z ->
  run_timed o s1 post = Ok s2 -> Forall (fun p => (T <= fst p)%Z) post ->
  forall b r, lookup (tbl s2) b = Some r -> (num_seconds T (timestamp r) < delete_after o)%Z.
Proof.
  intros H K D R M b r L.
  eapply (run_timed_heard o T post s1 s2 R D M); [|apply lookup_in; exact L].
  intros b' r' I. exact (removed_in _ _ _ _ _ _ _ _ H K b' r' I).
Qed.

(** and the table then still has one row per address, so it is no larger than the set of
    addresses heard since [delete_after] seconds before the last sweep *)
Lemma run_timed_nodup o : forall ls s s',
  run_timed o s ls = Ok s' -> NoDup (keys (tbl s)) -> NoDup (keys (tbl s')).
Proof.
  induction ls as [|[now line] t IH]; cbn [run_timed]; intros s s' H ND; [inversion H; subst; exact ND|].
  destruct (step_line o now s line) as [[[s1 rf] oc]|] eqn:E; cbn [bind] in H; [|discriminate].
  eapply IH; [exact H|]. exact (step_nodup o now s (Some line) s1 rf oc E ND).
Qed.

Theorem survivors_bound o T s line s1 rf df a post s2 (L : list N) :
  step_line o T s line = Ok (s1, rf, Applied df a) -> 10 < cleanup_count (cnt s) ->
  (0 < delete_after o)%Z -> NoDup (keys (tbl s)) ->
  run_timed o s1 post = Ok s2 -> Forall (fun p => (T <= fst p)%Z) post ->
  (forall b r, lookup (tbl s2) b = Some r ->
               (num_seconds T (timestamp r) < delete_after o)%Z -> In b L) ->
  (List.length (tbl s2) <= List.length L)%nat.
Proof.
  intros H K D ND R M HL.
  assert (NoDup (keys (tbl s2))) as ND2.
  { eapply run_timed_nodup; [exact R|]. apply (step_line_applied _ _ _ _ _ _ _ _ H ND). }
  replace (List.length (tbl s2)) with (List.length (keys (tbl s2))) by (unfold keys; apply map_length).
  apply NoDup_incl_length; [exact ND2|]. intros b I.
  destruct (lookup (tbl s2) b) as [r|] eqn:Lb.
  - apply (HL b r Lb). exact (survivors _ _ _ _ _ _ _ _ _ _ H K D R M b r Lb).
  - apply lookup_none_keys in Lb. contradiction.
Qed.

(** ======================= summary ======================= *)
Print Assumptions plane_update_timestamp.
Print Assumptions update_from_downlink_timestamp.
Print Assumptions row_from_downlink_timestamp.
Print Assumptions refresh.
Print Assumptions fresh.
Print Assumptions fresh_step.
Print Assumptions present.
Print Assumptions no_sweep_keeps.
Print Assumptions removed.
Print Assumptions sweep_exact.
Print Assumptions cadence_applied.
Print Assumptions run_lines_count_le.
Print Assumptions run_lines_count.
Print Assumptions first_sweep.
Print Assumptions sweep_within_12.
Print Assumptions reader_first_sweep.
Print Assumptions bound.
Print Assumptions survivors.
Print Assumptions survivors_bound.
