(** Soundness of the integer track procedure of Model/Velocity.v:
    [floor_deg a b] = floor(atan(a/b) in degrees), and [track_of] = floor of the normalised
    atan2 angle in degrees, for magnitudes 0 <= a, b <= 1023. *)
From Coq Require Import Reals ZArith List Lia Lra Bool.
From SQ Require Import TanTable Velocity TanBounds.
Import ListNotations.
Local Open Scope R_scope.

(** * Real-number helpers *)

Lemma div_le_cross h d a b : 0 < d -> 0 < b -> (h / d <= a / b <-> h * b <= a * d).
Proof.
  intros Hd Hb.
  assert (E : a / b - h / d = (a * d - h * b) * / (d * b)) by (field; lra).
  assert (P : 0 < / (d * b)) by (apply Rinv_0_lt_compat, Rmult_lt_0_compat; assumption).
  set (u := / (d * b)) in *. split; intro H; nra.
Qed.

Lemma div_lt_cross h d a b : 0 < d -> 0 < b -> (h / d < a / b <-> h * b < a * d).
Proof.
  intros Hd Hb.
  assert (E : a / b - h / d = (a * d - h * b) * / (d * b)) by (field; lra).
  assert (P : 0 < / (d * b)) by (apply Rinv_0_lt_compat, Rmult_lt_0_compat; assumption).
  set (u := / (d * b)) in *. split; intro H; nra.
Qed.

Lemma todeg_ge K x : K <= x * 180 / PI <-> K * PI / 180 <= x.
Proof.
  pose proof PI_RGT_0 as HP. set (y := x * 180 / PI).
  assert (E : x = y * PI / 180) by (unfold y; field; lra).
  rewrite E. clearbody y. split; intro H; nra.
Qed.

Lemma todeg_lt K x : x * 180 / PI < K <-> x < K * PI / 180.
Proof.
  pose proof PI_RGT_0 as HP. set (y := x * 180 / PI).
  assert (E : x = y * PI / 180) by (unfold y; field; lra).
  rewrite E. clearbody y. split; intro H; nra.
Qed.

Lemma tan_le_iff x y : - PI / 2 < x < PI / 2 -> - PI / 2 < y < PI / 2 ->
  (tan x <= tan y <-> x <= y).
Proof.
  intros Hx Hy. split; intro H.
  - destruct (Rle_or_lt x y) as [L|L]; [exact L|].
    pose proof (tan_increasing y x (proj1 Hy) L (proj2 Hx)). lra.
  - destruct H as [H | ->]; [|lra].
    left. apply tan_increasing; tauto.
Qed.

Lemma deg_range (K : R) : 0 <= K <= 89 -> - PI / 2 < K * PI / 180 < PI / 2.
Proof. pose proof PI_RGT_0. intros [H0 H1]. split; nra. Qed.

(** * The angle atan(a/b) in degrees *)

Definition adeg (a b : Z) : R := atan (IZR a / IZR b) * 180 / PI.

Section AB.
Variables a b : Z.
Hypothesis Ha : (0 <= a <= 1023)%Z.
Hypothesis Hb : (0 < b <= 1023)%Z.

Let phi := atan (IZR a / IZR b).

Lemma IZR_b_pos : 0 < IZR b.
Proof. apply IZR_lt. lia. Qed.

Lemma ratio_nonneg : 0 <= IZR a / IZR b.
Proof.
  pose proof IZR_b_pos. apply Rmult_le_pos; [apply IZR_le; lia|].
  left. now apply Rinv_0_lt_compat.
Qed.

Lemma phi_range : 0 <= phi < PI / 2.
Proof.
  split; [|apply atan_bound]. unfold phi.
  destruct ratio_nonneg as [H | <-]; [|rewrite atan_0; lra].
  rewrite <- atan_0. left. now apply atan_increasing.
Qed.

Lemma adeg_range : 0 <= adeg a b < 90.
Proof.
  pose proof phi_range as [H0 H1]. fold phi in H0, H1. unfold adeg. fold phi. split.
  - apply todeg_ge. lra.
  - apply todeg_lt. lra.
Qed.

(** k degrees <= atan(a/b)  iff  tan(k deg) <= a/b, for 0 <= k <= 89 *)
Lemma deg_le_iff (K : R) : 0 <= K <= 89 ->
  (K <= adeg a b <-> tan (K * PI / 180) <= IZR a / IZR b).
Proof.
  intros HK. unfold adeg. rewrite todeg_ge.
  rewrite <- (tan_atan (IZR a / IZR b)) at 2.
  symmetry. apply tan_le_iff; [now apply deg_range | apply atan_bound].
Qed.

(** the comparison made by [le_tan] decides k deg <= atan(a/b) *)
Lemma le_tan_spec (k : nat) (e : Z * Z) :
  (1 <= k <= 89)%nat -> entry_ok k e -> gap_free k e ->
  (le_tan k (snd e) a b = true <-> IZR (Z.of_nat k) <= adeg a b).
Proof.
  intros Hk Hok Hgap. destruct e as [lo hi]. cbn [snd fst] in *.
  assert (HK : 0 <= IZR (Z.of_nat k) <= 89) by (split; apply IZR_le; lia).
  rewrite (deg_le_iff _ HK).
  pose proof IZR_b_pos as Hbp. pose proof IZR_tan_den_pos as Hdp.
  unfold le_tan, entry_ok in *.
  destruct (Nat.eqb_spec k 45) as [-> | H45].
  - (* tan 45deg = 1 *)
    change (Z.of_nat 45) with 45%Z.
    replace (45 * PI / 180) with (PI / 4) by field. rewrite tan_PI4.
    rewrite Z.leb_le.
    replace 1 with (IZR 1 / IZR 1) by (simpl; field).
    rewrite div_le_cross by (simpl; lra).
    rewrite <- !mult_IZR. split; intro H.
    + apply IZR_le. lia.
    + apply le_IZR in H. lia.
  - destruct Hok as [Hlo Hhi]. rewrite Z.leb_le. split; intro H.
    + (* hi/den <= a/b *)
      assert (IZR hi / IZR tan_den <= IZR a / IZR b).
      { apply (proj2 (div_le_cross _ _ _ _ Hdp Hbp)). rewrite <- !mult_IZR. now apply IZR_le. }
      lra.
    + (* lo/den < a/b, so by the gap check a/b >= hi/den *)
      assert (L : IZR lo / IZR tan_den < IZR a / IZR b) by lra.
      apply (proj1 (div_lt_cross _ _ _ _ Hdp Hbp)) in L. rewrite <- !mult_IZR in L. apply lt_IZR in L.
      destruct (Z_le_gt_dec (hi * b) (a * tan_den)) as [G|G]; [exact G|].
      exfalso. apply (Hgap H45 a b); cbn [fst snd]; lia.
Qed.

(** the integer part of the angle *)
Definition mfloor : Z := (up (adeg a b) - 1)%Z.

Lemma mfloor_spec : IZR mfloor <= adeg a b < IZR mfloor + 1.
Proof.
  unfold mfloor. rewrite minus_IZR. destruct (archimed (adeg a b)). lra.
Qed.

Lemma mfloor_range : (0 <= mfloor <= 89)%Z.
Proof.
  pose proof mfloor_spec as [H0 H1]. pose proof adeg_range as [H2 H3]. split.
  - assert (IZR (-1) < IZR mfloor) by (simpl; lra). apply lt_IZR in H. lia.
  - assert (IZR mfloor < IZR 90) by (simpl; lra). apply lt_IZR in H. lia.
Qed.

Lemma le_mfloor_iff (k : Z) : IZR k <= adeg a b <-> (k <= mfloor)%Z.
Proof.
  pose proof mfloor_spec as [H0 H1]. split; intro H.
  - assert (L : IZR k < IZR (mfloor + 1)) by (rewrite plus_IZR; simpl; lra).
    apply lt_IZR in L. lia.
  - apply IZR_le in H. lra.
Qed.

End AB.

(** * Counting *)

Lemma all_from_range {A} : forall (t : list A) k,
  all_from (fun i _ => (k <= i < k + List.length t)%nat) k t.
Proof.
  induction t as [|x t IH]; intro k; simpl; [exact I|]. split; [lia|].
  apply all_from_impl with (P := fun i (_ : A) => (S k <= i < S k + List.length t)%nat).
  - intros i _ H. lia.
  - apply IH.
Qed.

Lemma count_le_spec a b m : forall t k,
  all_from (fun i e => le_tan i (snd e) a b = (Z.of_nat i <=? m)%Z) k t ->
  count_le k t a b = Z.max 0 (Z.min (Z.of_nat (List.length t)) (m - Z.of_nat k + 1)).
Proof.
  induction t as [|[lo hi] t IH]; intros k H.
  - simpl. lia.
  - destruct H as [H0 H1]. cbn [count_le List.length]. cbn [snd] in H0.
    rewrite H0, (IH _ H1).
    destruct (Z.leb_spec (Z.of_nat k) m); lia.
Qed.

Lemma tan_table_props :
  all_from (fun i e => (1 <= i <= 89)%nat /\ entry_ok i e /\ gap_free i e) 1 tan_table.
Proof.
  apply all_from_and.
  - apply all_from_impl with (2 := all_from_range tan_table 1%nat).
    intros i _. rewrite tan_table_length. lia.
  - apply all_from_and; [exact tan_table_entries | exact tan_table_gaps].
Qed.

(** * 3. floor_deg *)

Lemma floor_deg_mfloor a b : (0 <= a <= 1023)%Z -> (0 < b <= 1023)%Z ->
  floor_deg a b = mfloor a b.
Proof.
  intros Ha Hb. unfold floor_deg.
  destruct (Z.eqb_spec b 0) as [E|_]; [lia|].
  rewrite (count_le_spec a b (mfloor a b)).
  - rewrite tan_table_length. pose proof (mfloor_range a b Ha Hb). lia.
  - apply all_from_impl with (2 := tan_table_props).
    intros i e (Hi & Hok & Hgap). apply eq_iff_eq_true.
    rewrite (le_tan_spec a b Hb i e Hi Hok Hgap), Z.leb_le.
    apply le_mfloor_iff; assumption.
Qed.

Theorem floor_deg_sound : forall a b : Z, (0 <= a <= 1023)%Z -> (0 < b <= 1023)%Z ->
  IZR (floor_deg a b) <= atan (IZR a / IZR b) * 180 / PI < IZR (floor_deg a b) + 1.
Proof.
  intros a b Ha Hb. rewrite (floor_deg_mfloor a b Ha Hb). apply mfloor_spec.
Qed.

Theorem floor_deg_b0 : forall a : Z, floor_deg a 0 = 90%Z.
Proof. reflexivity. Qed.

Lemma floor_deg_range a b : (0 <= a <= 1023)%Z -> (0 < b <= 1023)%Z ->
  (0 <= floor_deg a b <= 89)%Z.
Proof. intros Ha Hb. rewrite floor_deg_mfloor by assumption. now apply mfloor_range. Qed.

(** * Exactness: atan(a/b) is a whole number of degrees only if a = 0 or a = b *)

Lemma adeg_not_integer a b : (0 < a <= 1023)%Z -> (0 < b <= 1023)%Z -> a <> b ->
  forall k : Z, adeg a b <> IZR k.
Proof.
  intros Ha Hb Hab k E.
  assert (Ha' : (0 <= a <= 1023)%Z) by lia.
  pose proof (adeg_range a b Ha' Hb) as [R0 R1]. rewrite E in R0, R1.
  assert (K0 : (0 <= k)%Z) by now apply le_IZR.
  assert (K1 : (k < 90)%Z) by now apply lt_IZR.
  assert (HK : 0 <= IZR k <= 89) by (split; apply IZR_le; lia).
  pose proof (IZR_b_pos b Hb) as Hbp. pose proof IZR_tan_den_pos as Hdp.
  (* a/b = tan (k deg) *)
  assert (T : tan (IZR k * PI / 180) = IZR a / IZR b).
  { rewrite <- (tan_atan (IZR a / IZR b)). f_equal.
    unfold adeg in E. pose proof PI_RGT_0. rewrite <- E. field. lra. }
  destruct (Z.eq_dec k 0) as [-> | k0].
  - replace (0 * PI / 180) with 0 in T by field. rewrite tan_0 in T.
    assert (0 < IZR a / IZR b).
    { apply Rmult_lt_0_compat; [apply IZR_lt; lia | now apply Rinv_0_lt_compat]. }
    lra.
  - destruct (Z.eq_dec k 45) as [-> | k45].
    + replace (45 * PI / 180) with (PI / 4) in T by field. rewrite tan_PI4 in T.
      assert (IZR a = IZR b) by (apply (Rmult_eq_reg_r (/ IZR b));
        [rewrite Rinv_r by lra; symmetry; exact T | apply Rinv_neq_0_compat; lra]).
      apply eq_IZR in H. contradiction.
    + set (n := Z.to_nat k).
      assert (Hn : (1 <= n <= 89)%nat) by (unfold n; lia).
      assert (Hkn : k = Z.of_nat n) by (unfold n; lia).
      destruct (nth_error tan_table (n - 1)) as [[lo hi]|] eqn:Hnth.
      * assert (n45 : n <> 45%nat) by lia.
        pose proof (all_from_nth _ _ _ tan_table_props _ _ Hnth) as (_ & Hok & Hgap).
        replace (1 + (n - 1))%nat with n in * by lia.
        unfold entry_ok in Hok. destruct (Nat.eqb_spec n 45) as [|_]; [contradiction|].
        rewrite <- Hkn, T in Hok. destruct Hok as [L U].
        apply (proj1 (div_lt_cross _ _ _ _ Hdp Hbp)) in L. apply (proj1 (div_lt_cross _ _ _ _ Hbp Hdp)) in U.
        rewrite <- !mult_IZR in L, U. apply lt_IZR in L, U.
        apply (Hgap n45 a b); cbn [fst snd]; lia.
      * apply nth_error_None in Hnth. rewrite tan_table_length in Hnth. lia.
Qed.

(** [ceil_deg] is the ceiling *)
Lemma ceil_deg_sound a b : (0 <= a <= 1023)%Z -> (0 < b <= 1023)%Z ->
  IZR (ceil_deg a b) - 1 < adeg a b <= IZR (ceil_deg a b).
Proof.
  intros Ha Hb. pose proof (floor_deg_sound a b Ha Hb) as [F0 F1]. fold (adeg a b) in F0, F1.
  unfold ceil_deg, exact_deg.
  destruct (Z.eqb_spec a 0) as [-> | a0]; cbn [orb].
  - (* angle 0 *)
    assert (E : adeg 0 b = 0).
    { unfold adeg. replace (0 / IZR b) with 0 by (unfold Rdiv; ring).
      rewrite atan_0. unfold Rdiv. ring. }
    rewrite E in *.
    assert (floor_deg 0 b = 0)%Z.
    { assert (IZR (-1) < IZR (floor_deg 0 b)) by (simpl; lra).
      assert (IZR (floor_deg 0 b) < IZR 1) by (simpl; lra).
      apply lt_IZR in H, H0. lia. }
    rewrite H. simpl. lra.
  - destruct (Z.eqb_spec b 0) as [b0|_]; [lia|]. cbn [orb].
    destruct (Z.eqb_spec a b) as [-> | ab].
    + (* angle 45 *)
      assert (E : adeg b b = 45).
      { unfold adeg. pose proof (IZR_b_pos b Hb). pose proof PI_RGT_0.
        replace (IZR b / IZR b) with 1 by (field; lra).
        rewrite atan_1. field. lra. }
      rewrite E in *.
      assert (floor_deg b b = 45)%Z.
      { assert (IZR 44 < IZR (floor_deg b b)) by (simpl; lra).
        assert (IZR (floor_deg b b) < IZR 46) by (simpl; lra).
        apply lt_IZR in H, H0. lia. }
      rewrite H. simpl. lra.
    + assert (adeg a b <> IZR (floor_deg a b)) by (apply adeg_not_integer; lia).
      rewrite plus_IZR. simpl. lra.
Qed.

Lemma ceil_deg_b0 a : ceil_deg a 0 = 90%Z.
Proof. unfold ceil_deg, exact_deg. rewrite Z.eqb_refl, orb_true_r. reflexivity. Qed.

(** * 4. track_of against atan2 *)

(** atan2(x, y) in degrees (x east, y north: angle from north, clockwise), in (-180, 180] *)
Definition atan2deg (x y : Z) : R :=
  if (0 <? y)%Z then atan (IZR x / IZR y) * 180 / PI
  else if (y <? 0)%Z then
    (if (0 <=? x)%Z then atan (IZR x / IZR y) * 180 / PI + 180
     else atan (IZR x / IZR y) * 180 / PI - 180)
  else if (0 <? x)%Z then 90
  else if (x <? 0)%Z then -90
  else 0.

Definition norm360 (d : R) : R := if Rlt_dec d 0 then d + 360 else d.

Lemma atan_neg_l a b : atan (IZR (- a) / IZR b) = - atan (IZR a / IZR b).
Proof. rewrite opp_IZR, <- atan_opp. f_equal. unfold Rdiv. ring. Qed.

Lemma atan_neg_r a b : (0 < b)%Z -> atan (IZR a / IZR (- b)) = - atan (IZR a / IZR b).
Proof.
  intro Hb.
  rewrite opp_IZR, <- atan_opp. f_equal. field. assert (0 < IZR b) by (apply IZR_lt; lia). lra.
Qed.

Section Quadrants.
Variables a b : Z.
Hypothesis Ha : (0 <= a <= 1023)%Z.
Hypothesis Hb : (0 < b <= 1023)%Z.

Lemma adeg_pos : (0 < a)%Z -> 0 < adeg a b.
Proof.
  intro a0. pose proof (adeg_range a b Ha Hb) as [[H|H] _]; [exact H|].
  exfalso. apply (adeg_not_integer a b) with (k := 0%Z); try lia; try (simpl; lra).
  intros ->.
  (* a = b: angle is 45 *)
  revert H. unfold adeg. pose proof (IZR_b_pos b Hb). pose proof PI_RGT_0.
  replace (IZR b / IZR b) with 1 by (field; lra). rewrite atan_1. intro E.
  assert (PI / 4 * 180 / PI = 45) by (field; lra). lra.
Qed.

Lemma quad_NE : norm360 (atan2deg a b) = adeg a b.
Proof.
  pose proof (adeg_range a b Ha Hb). unfold atan2deg, norm360.
  destruct (Z.ltb_spec 0 b); [|lia]. fold (adeg a b).
  destruct (Rlt_dec (adeg a b) 0); lra.
Qed.

Lemma quad_SE : norm360 (atan2deg a (- b)) = 180 - adeg a b.
Proof.
  pose proof (adeg_range a b Ha Hb). unfold atan2deg, norm360.
  destruct (Z.ltb_spec 0 (- b)); [lia|].
  destruct (Z.ltb_spec (- b) 0); [|lia].
  destruct (Z.leb_spec 0 a); [|lia].
  rewrite atan_neg_r by lia.
  replace (- atan (IZR a / IZR b) * 180 / PI + 180) with (180 - adeg a b)
    by (unfold adeg, Rdiv; ring).
  destruct (Rlt_dec (180 - adeg a b) 0); lra.
Qed.

Lemma quad_NW : (0 < a)%Z -> norm360 (atan2deg (- a) b) = 360 - adeg a b.
Proof.
  intro a0. pose proof (adeg_range a b Ha Hb). pose proof (adeg_pos a0).
  unfold atan2deg, norm360.
  destruct (Z.ltb_spec 0 b); [|lia].
  rewrite atan_neg_l.
  replace (- atan (IZR a / IZR b) * 180 / PI) with (- adeg a b) by (unfold adeg, Rdiv; ring).
  destruct (Rlt_dec (- adeg a b) 0); lra.
Qed.

Lemma quad_SW : (0 < a)%Z -> norm360 (atan2deg (- a) (- b)) = 180 + adeg a b.
Proof.
  intro a0. pose proof (adeg_range a b Ha Hb). pose proof (adeg_pos a0).
  unfold atan2deg, norm360.
  destruct (Z.ltb_spec 0 (- b)); [lia|].
  destruct (Z.ltb_spec (- b) 0); [|lia].
  destruct (Z.leb_spec 0 (- a)); [lia|].
  rewrite atan_neg_r, atan_neg_l by lia.
  replace (- - atan (IZR a / IZR b) * 180 / PI - 180) with (adeg a b - 180)
    by (unfold adeg, Rdiv; ring).
  destruct (Rlt_dec (adeg a b - 180) 0); lra.
Qed.

End Quadrants.

Definition signed (s : bool) (m : Z) : Z := if s then (- m)%Z else m.

Ltac bsimp := repeat (progress (cbn [negb andb]; rewrite ?andb_false_r, ?andb_true_r)).

Theorem track_of_sound : forall (sx sy : bool) (a b : Z),
  (0 <= a <= 1023)%Z -> (0 <= b <= 1023)%Z -> (a, b) <> (0, 0)%Z ->
  let t := track_of sx a sy b in
  let ang := norm360 (atan2deg (signed sx a) (signed sy b)) in
  (0 <= t < 360)%Z /\ IZR t <= ang < IZR t + 1.
Proof.
  intros sx sy a b Ha Hb Hne. cbv zeta. unfold track_of.
  destruct (Z.eqb_spec b 0) as [-> | b0].
  - (* due east / west *)
    assert (a0 : (0 < a)%Z) by (destruct (Z.eq_dec a 0) as [-> | ]; [contradiction Hne; reflexivity | lia]).
    destruct (Z.eqb_spec a 0) as [|_]; [lia|].
    bsimp.
    replace (signed sy 0) with 0%Z by (destruct sy; reflexivity).
    rewrite floor_deg_b0, ceil_deg_b0.
    destruct sx; bsimp; cbn [signed]; unfold atan2deg, norm360; cbn [Z.ltb Z.compare].
    + destruct (Z.ltb_spec 0 (- a)); [lia|]. destruct (Z.ltb_spec (- a) 0); [|lia].
      change ((360 - 90) mod 360)%Z with 270%Z.
      destruct (Rlt_dec (-90) 0); [|lra]. split; [lia|]. simpl. lra.
    + destruct (Z.ltb_spec 0 a); [|lia].
      destruct (Rlt_dec 90 0); [lra|]. split; [lia|]. simpl. lra.
  - assert (Hb' : (0 < b <= 1023)%Z) by lia.
    bsimp.
    pose proof (floor_deg_sound a b Ha Hb') as F. fold (adeg a b) in F.
    pose proof (floor_deg_range a b Ha Hb') as FR.
    pose proof (ceil_deg_sound a b Ha Hb') as C.
    pose proof (adeg_range a b Ha Hb') as AR.
    destruct (Z.eqb_spec a 0) as [-> | a0].
    + (* due north / south: x = 0 whatever the sign flag *)
      bsimp. replace (signed sx 0) with 0%Z by (destruct sx; reflexivity).
      destruct sy; bsimp; cbn [signed].
      * rewrite (quad_SE 0 b Ha Hb').
        assert (IZR (ceil_deg 0 b) - 1 < IZR 90) by (simpl; lra).
        assert (IZR (-1) < IZR (ceil_deg 0 b)) by (simpl; lra).
        rewrite <- minus_IZR in H. apply lt_IZR in H, H0.
        split; [lia|]. rewrite minus_IZR. simpl. lra.
      * rewrite (quad_NE 0 b Ha Hb'). split; [lia|]. exact F.
    + assert (a1 : (0 < a)%Z) by lia. bsimp.
      pose proof (adeg_pos a b Ha Hb' a1) as AP.
      assert (C0 : (1 <= ceil_deg a b <= 90)%Z).
      { assert (IZR (ceil_deg a b) - 1 < IZR 90) by (simpl; lra).
        assert (IZR 0 < IZR (ceil_deg a b)) by (simpl; lra).
        rewrite <- minus_IZR in H. apply lt_IZR in H, H0. lia. }
      destruct sx, sy; bsimp; cbn [signed].
      * rewrite (quad_SW a b Ha Hb' a1). split; [lia|]. rewrite plus_IZR. simpl. lra.
      * rewrite (quad_NW a b Ha Hb' a1).
        rewrite Z.mod_small by lia. split; [lia|]. rewrite minus_IZR. simpl. lra.
      * rewrite (quad_SE a b Ha Hb'). split; [lia|]. rewrite minus_IZR. simpl. lra.
      * rewrite (quad_NE a b Ha Hb'). split; [lia|]. exact F.
Qed.

Print Assumptions floor_deg_sound.
Print Assumptions track_of_sound.
