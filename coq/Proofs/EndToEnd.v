(** End to end: the decoder theorems tied to the WHOLE line pipeline.

    The decoder-level theorems (SquawkProof, AltProof, IdentProof, VelProof) speak about single
    functions; RowFacts / OptionsProof speak about the two ways a row is updated.  Here they are
    composed with [step_line] (text line -> frame -> DF -> address -> -f filter -> counters ->
    DF::from_message -> Planes::update_aircraft -> cleanup):

      "every accepted frame of this kind for an aircraft that is already in the table leaves the
       row of that aircraft with this decoded value",

    on BOTH update paths (Plane::update and DF::from_message + update_from_downlink), i.e. for
    every option record [o] (-U, -r, -f, -c, -i, -o, -u, -d > 0, -O all arbitrary), every table,
    every counter state and every time. *)
From SQ Require Import Base RangeSpec Table Footprint TableProofs TotalPipeline.
From SQ Require Import Id13 SquawkProof RowFacts AltSpec AltProof Ia5 IdentProof VelSpec VelProof.
From SQ Require Import FrameProofs ExpiryProof OptionsProof.
Local Open Scope N_scope.

(** ===================================================================================== *)
(** * 1. Pipeline characterisation                                                        *)
(** ===================================================================================== *)

(** what [get_message] returns is a frame *)
Lemma get_message_frame line m : get_message line = Ok (Some m) -> frame_ok m.
Proof.
  intros G. destruct (get_message_total line) as [x [E F]]. rewrite G in E. inversion E; subst x.
  apply F. reflexivity.
Qed.

(** anatomy of an applied line, with everything the reader established on the way *)
Lemma step_line_applied_full o now s line s' rf df a :
  step_line o now s line = Ok (s', rf, Applied df a) ->
  exists m d t1 c0,
    get_message line = Ok (Some m) /\ get_downlink_format m = Ok (Some df) /\
    get_icao m df = Ok (Some a) /\ df_from_message m = Ok (Some d) /\
    update_aircraft o now (tbl s) d m df a = Ok t1 /\
    tbl s' = fst (cleanup t1 c0 now (delete_after o)).
Proof.
  unfold step_line. intros H.
  destruct (get_message line) as [[m|]|] eqn:GM; cbn [bind] in *; try discriminate.
  destruct (get_downlink_format m) as [[df'|]|] eqn:GD; cbn [bind] in *; try discriminate.
  destruct (get_icao m df') as [[a'|]|] eqn:GI; cbn [bind] in *; try discriminate.
  destruct (match filter_df o with Some only => _ | None => false end); try discriminate.
  destruct (df_from_message m) as [d|] eqn:DM; cbn [bind] in H; [|discriminate].
  destruct (df_from_message_some _ _ _ GD DM) as [d' ->].
  destruct (update_aircraft o now (tbl s) d' m df' a') as [t1|] eqn:U; cbn [bind] in H; [|discriminate].
  set (c0 := if count_df o then _ else cnt s) in H.
  destruct (cleanup t1 c0 now (delete_after o)) as [t2 c2] eqn:C. cbn [bind] in H.
  inversion H; subst s' rf df' a'; clear H.
  exists m, d', t1, c0. rewrite C. cbn [tbl cnt fst snd].
  repeat split; assumption.
Qed.

(** the effect of one accepted frame on the row [r] of its address: which of the two update
    functions runs is decided by the format and the -U option alone *)
Definition row_step (o : opts) (now : Z) (r : row) (m : list N) (df : N) (d : downlink) (r' : row) : Prop :=
  ((df <? 20) && negb (use_update o) = true /\ r' = update_from_downlink (observer o) now r d) \/
  ((df <? 20) && negb (use_update o) = false /\ plane_update (observer o) now r m df (relaxed o) = Ok r').

Theorem step_line_existing_row o now s line s' rf df a r :
  step_line o now s line = Ok (s', rf, Applied df a) ->
  lookup (tbl s) a = Some r -> (0 < delete_after o)%Z ->
  exists m d,
    get_message line = Ok (Some m) /\ frame_ok m /\
    get_downlink_format m = Ok (Some df) /\ get_icao m df = Ok (Some a) /\
    df_from_message m = Ok (Some d) /\
    exists r', lookup (tbl s') a = Some r' /\
      (((df <? 20) && negb (use_update o) = true /\
        r' = update_from_downlink (observer o) now r d) \/
       ((df <? 20) && negb (use_update o) = false /\
        plane_update (observer o) now r m df (relaxed o) = Ok r')).
Proof.
  intros H L D.
  destruct (step_line_applied_full _ _ _ _ _ _ _ _ H) as (m & d & t1 & c0 & GM & GD & GI & DM & U & T).
  exists m, d. repeat (split; [first [assumption | eapply get_message_frame; eassumption]|]).
  unfold update_aircraft in U. rewrite L in U.
  destruct ((df <? 20) && negb (use_update o)) eqn:B.
  - inversion U; subst t1; clear U.
    exists (update_from_downlink (observer o) now r d). split.
    + rewrite T. apply cleanup_keep; [apply lookup_upsert_same|].
      rewrite update_from_downlink_timestamp, age_zero. exact D.
    + left. split; reflexivity.
  - destruct (plane_update (observer o) now r m df (relaxed o)) as [r'|] eqn:PU; cbn [bind] in U; [|discriminate].
    inversion U; subst t1; clear U.
    exists r'. split.
    + rewrite T. apply cleanup_keep; [apply lookup_upsert_same|].
      rewrite (plane_update_timestamp _ _ _ _ _ _ _ PU), age_zero. exact D.
    + right. split; [reflexivity | first [exact PU | reflexivity]].
Qed.

(** the creating case: no row yet -> exactly the row built from the decoded downlink *)
Theorem step_line_new_row o now s line s' rf df a :
  step_line o now s line = Ok (s', rf, Applied df a) ->
  lookup (tbl s) a = None -> (0 < delete_after o)%Z ->
  exists m d,
    get_message line = Ok (Some m) /\ frame_ok m /\
    get_downlink_format m = Ok (Some df) /\ get_icao m df = Ok (Some a) /\
    df_from_message m = Ok (Some d) /\
    lookup (tbl s') a = Some (row_from_downlink (observer o) now d a).
Proof.
  intros H L D.
  destruct (step_line_applied_full _ _ _ _ _ _ _ _ H) as (m & d & t1 & c0 & GM & GD & GI & DM & U & T).
  exists m, d. repeat (split; [first [assumption | eapply get_message_frame; eassumption]|]).
  rewrite T. apply cleanup_keep; [exact (fresh _ _ _ _ _ _ _ _ U L)|].
  rewrite row_from_downlink_timestamp, age_zero. exact D.
Qed.

(** the same with the frame named from outside ([get_message] is a function of the line) *)
Lemma existing_row_core o now s line s' rf df a r m :
  step_line o now s line = Ok (s', rf, Applied df a) ->
  lookup (tbl s) a = Some r -> (0 < delete_after o)%Z -> get_message line = Ok (Some m) ->
  frame_ok m /\ get_downlink_format m = Ok (Some df) /\ get_icao m df = Ok (Some a) /\
  exists d r', df_from_message m = Ok (Some d) /\ lookup (tbl s') a = Some r' /\ row_step o now r m df d r'.
Proof.
  intros H L D G.
  destruct (step_line_existing_row _ _ _ _ _ _ _ _ _ H L D) as (m' & d & GM & F & GD & GI & DM & r' & L' & RS).
  rewrite G in GM. inversion GM; subst m'; clear GM.
  repeat (split; [assumption|]). exists d, r'. repeat split; assumption.
Qed.

(** ===================================================================================== *)
(** * 2. Tools: the squitter view of a step, frame shape, type code                       *)
(** ===================================================================================== *)

(** the displayed parameters on which the two paths agree *)
Lemma agree_fields r1 r2 : agree r1 r2 ->
  r_ais r1 = r_ais r2 /\ r_altitude r1 = r_altitude r2 /\ r_squawk r1 = r_squawk r2 /\
  grspeed r1 = grspeed r2 /\ track r1 = track r2 /\ vrate r1 = vrate r2 /\
  category r1 = category r2.
Proof.
  intros [A _]. unfold OptionsProof.P in A. injection A. intros. repeat split; assumption.
Qed.

Lemma frame_wf_len8 m : frame_ok m -> wf m /\ (8 <= List.length m)%nat.
Proof. intros [W [[L _]|[L _]]]; (split; [exact W | lia]). Qed.

Lemma frame_long m df : frame_ok m -> get_downlink_format m = Ok (Some df) -> 16 <= df ->
  wf m /\ List.length m = 28%nat.
Proof.
  intros F GD G. destruct (frame_cases m df F GD) as [W [[L D]|[L D]]]; [lia|]. split; assumption.
Qed.

(** For DF5, DF11, DF17 (and DF4 with a decodable altitude) the row written by either path is,
    on every displayed parameter, the row that Plane::update computes: on the squitter path it IS
    that row, on the downlink path [u_neutral] applies (and Plane::update is total on frames). *)
Lemma row_step_squitter o now r m df d r' a :
  frame_ok m -> get_downlink_format m = Ok (Some df) -> get_icao m df = Ok (Some a) ->
  df_from_message m = Ok (Some d) ->
  df = 5 \/ df = 11 \/ df = 17 \/ (df = 4 /\ exists alt, altitude m 4 = Ok (Some alt)) ->
  row_step o now r m df d r' ->
  exists r1, plane_update (observer o) now r m df (relaxed o) = Ok r1 /\ agree r1 r'.
Proof.
  intros F GD GI DM C [[B ->]|[B PU]].
  - destruct (plane_update_total (observer o) now r m df (relaxed o) F GD) as [r1 PU].
    exists r1. split; [exact PU|].
    eapply (u_neutral (observer o) now r r m df d (relaxed o) r1 a); try eassumption.
    + apply agree_refl.
    + destruct C as [C|[C|[C|[C _]]]]; tauto.
    + intros ->. destruct C as [C|[C|[C|[_ C]]]]; try discriminate. exact C.
  - exists r'. split; [exact PU | apply agree_refl].
Qed.

(** type code and subtype are bits 33-37 and 38-40 *)
Definition mt_ok (a b : N) : bool :=
  let m := [0;0;0;0;0;0;0;0;a;b] in
  (N.lor (N.shiftl a 1) (N.shiftr b 3) =? field m 33 37) && (N.land b 7 =? field m 38 40).
Lemma mt_sweep : all2 mt_ok = true.
Proof. vm_compute. reflexivity. Qed.

Lemma get_message_type_fields m : wf m -> (10 <= List.length m)%nat ->
  get_message_type m = Ok (field m 33 37, field m 38 40).
Proof.
  intros W L. unfold get_message_type. rewrite !idx_nth by lia. cbn [bind].
  change (field m 33 37) with (field [0;0;0;0;0;0;0;0; nth 8 m 0; nth 9 m 0] 33 37).
  change (field m 38 40) with (field [0;0;0;0;0;0;0;0; nth 8 m 0; nth 9 m 0] 38 40).
  pose proof (all2_sound mt_ok mt_sweep (nth 8 m 0) (nth 9 m 0) (wf_nth m 8 W) (wf_nth m 9 W)) as S.
  unfold mt_ok in S. cbv zeta in S. apply andb_prop in S. destruct S as [S1 S2].
  apply N.eqb_eq in S1. apply N.eqb_eq in S2. rewrite S1, S2. reflexivity.
Qed.

(** the format recorded in the decoded downlink, for the formats that can take the downlink path *)
Ltac crunch H :=
  repeat match type of H with
  | bind ?x _ = Ok _ => destruct x; cbn [bind] in H; [|discriminate H]
  | (if ?c then _ else _) = Ok _ => destruct c
  | match ?p with pair _ _ => _ end = Ok _ => destruct p
  end.

Lemma srt_from_message_df m df s :
  get_downlink_format m = Ok (Some df) -> srt_from_message m = Ok s -> s_df s = Some df.
Proof.
  unfold srt_from_message. intros GD H. rewrite GD in H. cbn [bind] in H.
  crunch H; inversion H; reflexivity.
Qed.

Lemma ext_from_message_df m df e :
  get_downlink_format m = Ok (Some df) -> ext_from_message m = Ok e -> e_df e = Some df.
Proof.
  unfold ext_from_message. intros GD H. rewrite GD in H. cbn [bind] in H. cbv zeta in H.
  crunch H; inversion H; reflexivity.
Qed.

Lemma dl_df_lt20 m df d :
  get_downlink_format m = Ok (Some df) -> df < 20 -> df_from_message m = Ok (Some d) ->
  dl_df d = Some df \/ dl_df d = None.
Proof.
  intros GD L H. unfold df_from_message in H. rewrite GD in H. cbn [bind] in H.
  destruct (df <=? 16).
  { destruct (srt_from_message m) as [s|] eqn:S; cbn [bind] in H; [|discriminate].
    inversion H; subst d. left. cbn [dl_df]. eapply srt_from_message_df; eassumption. }
  destruct (df =? 17) eqn:E17.
  { apply N.eqb_eq in E17. subst df.
    destruct (ext_from_message m) as [e|] eqn:S; cbn [bind] in H; [|discriminate].
    inversion H; subst d. left. cbn [dl_df]. eapply ext_from_message_df; eassumption. }
  assert ((df =? 20) || (df =? 21) = false) as E.
  { apply orb_false_intro; apply N.eqb_neq; lia. }
  rewrite E in H. inversion H; subst d. right. reflexivity.
Qed.

(** ===================================================================================== *)
(** * 3. Identity code (squawk)                                                           *)
(** ===================================================================================== *)

(** every accepted DF5 (either path) or DF21 (always Plane::update) frame for an aircraft in the
    table leaves its row with the identity code of the specification *)
Theorem squawk_end_to_end o now s line s' rf df a r m :
  step_line o now s line = Ok (s', rf, Applied df a) ->
  lookup (tbl s) a = Some r -> (0 < delete_after o)%Z -> get_message line = Ok (Some m) ->
  df = 5 \/ df = 21 ->
  exists r', lookup (tbl s') a = Some r' /\ r_squawk r' = Some (id_spec m).
Proof.
  intros H L D G C.
  destruct (existing_row_core _ _ _ _ _ _ _ _ _ _ H L D G) as (F & GD & GI & d & r' & DM & L' & RS).
  destruct (frame_wf_len8 m F) as [W L8].
  exists r'. split; [exact L'|]. destruct C as [-> | ->].
  - destruct (row_step_squitter _ _ _ _ _ _ _ _ F GD GI DM ltac:(tauto) RS) as (r1 & PU & A).
    destruct (agree_fields _ _ A) as (_ & _ & Q & _). rewrite <- Q.
    eapply plane_update_squawk_spec; [exact PU | tauto | exact L8 | exact W].
  - destruct RS as [[B _]|[_ PU]]; [discriminate B|].
    eapply plane_update_squawk_spec; [exact PU | tauto | exact L8 | exact W].
Qed.

(** no other accepted frame touches it *)
Theorem squawk_untouched_end_to_end o now s line s' rf df a r :
  step_line o now s line = Ok (s', rf, Applied df a) ->
  lookup (tbl s) a = Some r -> (0 < delete_after o)%Z ->
  df <> 5 -> df <> 21 ->
  exists r', lookup (tbl s') a = Some r' /\ r_squawk r' = r_squawk r.
Proof.
  intros H L D N5 N21.
  destruct (step_line_existing_row _ _ _ _ _ _ _ _ _ H L D)
    as (m & d & GM & F & GD & GI & DM & r' & L' & RS).
  exists r'. split; [exact L'|]. destruct RS as [[B ->]|[_ PU]].
  - apply downlink_squawk_keeps.
    apply andb_prop in B. destruct B as [B _]. apply N.ltb_lt in B.
    destruct (dl_df_lt20 m df d GD B DM) as [E|E]; rewrite E; congruence.
  - eapply plane_update_squawk_keeps; eassumption.
Qed.

(** ===================================================================================== *)
(** * 4. Altitude                                                                          *)
(** ===================================================================================== *)

(** DF4 (13-bit code, M = 0, not one of the listed Gillham findings).  The two paths differ when
    the code carries no altitude: Plane::update (with -U) blanks the altitude, the downlink path
    (without -U) keeps the previous value.  Exactly: *)
Theorem altitude_df4_end_to_end o now s line s' rf a r m :
  step_line o now s line = Ok (s', rf, Applied 4 a) ->
  lookup (tbl s) a = Some r -> (0 < delete_after o)%Z -> get_message line = Ok (Some m) ->
  m_bit (field m 20 32) = false -> known_ac13 (field m 20 32) = false ->
  exists r', lookup (tbl s') a = Some r' /\
    r_altitude r' =
      if use_update o then alt13_spec (field m 20 32)
      else match alt13_spec (field m 20 32) with
           | Some v => Some v
           | None => r_altitude r
           end.
Proof.
  intros H L D G MB K.
  destruct (existing_row_core _ _ _ _ _ _ _ _ _ _ H L D G) as (F & GD & GI & d & r' & DM & L' & RS).
  destruct (frame_wf_len8 m F) as [W L8].
  pose proof (altitude_ac13_correct m 4 L8 W eq_refl MB K) as AL.
  exists r'. split; [exact L'|]. destruct RS as [[B ->]|[B PU]].
  - change (4 <? 20) with true in B. cbn [andb] in B. apply negb_true_iff in B. rewrite B.
    destruct (dl_short m 4 d GD ltac:(lia) DM) as (sr & -> & S).
    unfold srt_from_message in S. rewrite GD in S. cbn [bind] in S. rewrite GI in S. cbn [bind] in S.
    change (4 =? 4) with true in S. cbv iota in S. rewrite AL in S. cbn [bind] in S.
    inversion S; subst sr; clear S.
    rewrite downlink_altitude_df4; [reflexivity | reflexivity | discriminate].
  - change (4 <? 20) with true in B. cbn [andb] in B. apply negb_false_iff in B. rewrite B.
    destruct (plane_update_altitude_sets _ _ _ _ _ _ _ PU ltac:(tauto)) as (x & AX & RX).
    rewrite AL in AX. inversion AX. congruence.
Qed.

(** whenever the code carries an altitude, every option set shows that altitude *)
Corollary altitude_df4_value_end_to_end o now s line s' rf a r m v :
  step_line o now s line = Ok (s', rf, Applied 4 a) ->
  lookup (tbl s) a = Some r -> (0 < delete_after o)%Z -> get_message line = Ok (Some m) ->
  m_bit (field m 20 32) = false -> known_ac13 (field m 20 32) = false ->
  alt13_spec (field m 20 32) = Some v ->
  exists r', lookup (tbl s') a = Some r' /\ r_altitude r' = Some v.
Proof.
  intros H L D G MB K V.
  destruct (altitude_df4_end_to_end _ _ _ _ _ _ _ _ _ H L D G MB K) as (r' & L' & A).
  exists r'. split; [exact L'|]. rewrite A, V. destruct (use_update o); reflexivity.
Qed.

(** and a DF4 reply without one: blank with -U, previous value without *)
Corollary altitude_df4_none_end_to_end o now s line s' rf a r m :
  step_line o now s line = Ok (s', rf, Applied 4 a) ->
  lookup (tbl s) a = Some r -> (0 < delete_after o)%Z -> get_message line = Ok (Some m) ->
  m_bit (field m 20 32) = false -> known_ac13 (field m 20 32) = false ->
  alt13_spec (field m 20 32) = None ->
  exists r', lookup (tbl s') a = Some r' /\
    r_altitude r' = if use_update o then None else r_altitude r.
Proof.
  intros H L D G MB K V.
  destruct (altitude_df4_end_to_end _ _ _ _ _ _ _ _ _ H L D G MB K) as (r' & L' & A).
  exists r'. split; [exact L'|]. rewrite A, V. reflexivity.
Qed.

(** frame facts of an accepted DF17 *)
Lemma df17_frame m : frame_ok m -> get_downlink_format m = Ok (Some 17) ->
  wf m /\ List.length m = 28%nat /\ get_message_type m = Ok (field m 33 37, field m 38 40).
Proof.
  intros F GD. destruct (frame_long m 17 F GD ltac:(lia)) as [W L28].
  repeat split; [exact W | exact L28 | apply get_message_type_fields; [exact W | lia]].
Qed.

(** DF17 airborne position (type codes 9..18), 12-bit code with Q = 1 or all zero: both paths *)
Theorem altitude_df17_end_to_end o now s line s' rf a r m :
  step_line o now s line = Ok (s', rf, Applied 17 a) ->
  lookup (tbl s) a = Some r -> (0 < delete_after o)%Z -> get_message line = Ok (Some m) ->
  9 <= field m 33 37 <= 18 ->
  N.testbit (field m 41 52) 4 = true \/ field m 41 52 = 0 ->
  exists r', lookup (tbl s') a = Some r' /\ r_altitude r' = alt12_spec (field m 41 52).
Proof.
  intros H L D G TC Q.
  destruct (existing_row_core _ _ _ _ _ _ _ _ _ _ H L D G) as (F & GD & GI & d & r' & DM & L' & RS).
  destruct (df17_frame m F GD) as (W & L28 & MT).
  exists r'. split; [exact L'|].
  destruct (row_step_squitter _ _ _ _ _ _ _ _ F GD GI DM ltac:(tauto) RS) as (r1 & PU & A).
  destruct (agree_fields _ _ A) as (_ & E & _). rewrite <- E.
  destruct (plane_update_altitude_df17 _ _ _ _ _ _ _ _ PU MT (proj2 (in_tc_true 9 18 _) TC))
    as (x & AX & RX).
  rewrite (altitude_ac12_correct m W L28 Q) in AX. inversion AX. congruence.
Qed.

(** ===================================================================================== *)
(** * 5. Callsign and category                                                            *)
(** ===================================================================================== *)

Theorem callsign_end_to_end o now s line s' rf a r m :
  step_line o now s line = Ok (s', rf, Applied 17 a) ->
  lookup (tbl s) a = Some r -> (0 < delete_after o)%Z -> get_message line = Ok (Some m) ->
  1 <= field m 33 37 <= 4 ->
  exists r', lookup (tbl s') a = Some r' /\
    r_ais r' = Some (ais_spec m) /\ category r' = (field m 33 37, field m 38 40).
Proof.
  intros H L D G TC.
  destruct (existing_row_core _ _ _ _ _ _ _ _ _ _ H L D G) as (F & GD & GI & d & r' & DM & L' & RS).
  destruct (df17_frame m F GD) as (W & L28 & MT).
  exists r'. split; [exact L'|].
  destruct (row_step_squitter _ _ _ _ _ _ _ _ F GD GI DM ltac:(tauto) RS) as (r1 & PU & A).
  destruct (agree_fields _ _ A) as (E1 & _ & _ & _ & _ & _ & E2). rewrite <- E1, <- E2.
  destruct (plane_update_ext _ _ _ _ _ _ PU) as (c & _ & U).
  destruct (update_from_ext_ident _ _ _ _ _ _ _ MT (proj2 (in_tc_true 1 4 _) TC) U) as (x & AX & RX & CX).
  rewrite (ais_correct m W ltac:(lia)) in AX. inversion AX. split; congruence.
Qed.

(** ===================================================================================== *)
(** * 6. Airborne velocity                                                                *)
(** ===================================================================================== *)

Theorem velocity_end_to_end o now s line s' rf a r m :
  step_line o now s line = Ok (s', rf, Applied 17 a) ->
  lookup (tbl s) a = Some r -> (0 < delete_after o)%Z -> get_message line = Ok (Some m) ->
  field m 33 37 = 19 ->
  exists r', lookup (tbl s') a = Some r' /\
    vrate r' = vrate_spec (bit_at m 69) (field m 70 78) /\
    (field m 38 40 = 1 \/ field m 38 40 = 2 ->
     (track r', grspeed r') =
       vel_spec (field m 38 40 =? 2) (bit_at m 46) (field m 47 56) (bit_at m 57) (field m 58 67)).
Proof.
  intros H L D G TC.
  destruct (existing_row_core _ _ _ _ _ _ _ _ _ _ H L D G) as (F & GD & GI & d & r' & DM & L' & RS).
  destruct (df17_frame m F GD) as (W & L28 & MT). rewrite TC in MT.
  exists r'. split; [exact L'|].
  destruct (row_step_squitter _ _ _ _ _ _ _ _ F GD GI DM ltac:(tauto) RS) as (r1 & PU & A).
  destruct (agree_fields _ _ A) as (_ & _ & _ & E1 & E2 & E3 & _). rewrite <- E1, <- E2, <- E3.
  destruct (plane_update_ext _ _ _ _ _ _ PU) as (c & _ & U).
  unfold update_from_ext in U. rewrite MT in U. cbn [bind] in U.
  change (in_tc 1 4 19) with false in U. change (in_tc 5 8 19) with false in U.
  change (in_tc 9 18 19) with false in U. change (19 =? 19) with true in U. cbv iota in U.
  destruct (update_from_ext_19_vel _ _ _ _ U) as (v & VR & VX & TG).
  rewrite (vertical_rate_correct m W L28) in VR. inversion VR. split; [congruence|].
  intros ST. destruct (TG ST) as (t & g & TGE & TX & GX).
  rewrite (track_and_groundspeed_correct m _ W L28) in TGE. inversion TGE as [TGE'].
  rewrite TX, GX. symmetry. exact TGE'.
Qed.

(** ===================================================================================== *)
(** * 7. The hypotheses are satisfiable: two lines through the theorems                   *)
(** ===================================================================================== *)

(** options with and without -U, anything else fixed *)
Definition ex_opts (u : bool) : opts := mkOpts u false None false [] [] 1%Z 60%Z None.
Definition ex_state (a : N) : state :=
  mkState [(a, row_new 0%Z <| icao := a |>)] (counters_new 0%Z 1%Z).

(** "*8D40621D58C382D690C8AC2863A7;"  DF17, type code 11, address 40621D, 38000 ft *)
Definition ex_line17 : list N :=
  [42; 56;68;52;48;54;50;49;68;53;56;67;51;56;50;68;54;57;48;67;56;65;67;50;56;54;51;65;55; 59].
Definition ex_m17 : list N :=
  [8;13;4;0;6;2;1;13;5;8;12;3;8;2;13;6;9;0;12;8;10;12;2;8;6;3;10;7].

Example witness_df17_altitude : forall u, exists s' rf r',
  step_line (ex_opts u) 1000%Z (ex_state 4219421) ex_line17 = Ok (s', rf, Applied 17 4219421) /\
  lookup (tbl s') 4219421 = Some r' /\ r_altitude r' = Some 38000.
Proof.
  intros u.
  destruct (step_line_total (ex_opts u) 1000%Z (ex_state 4219421) ex_line17) as [[[s' rf] oc] E].
  pose proof (step_line_classify _ _ _ _ _ _ _ E) as C.
  assert (classify (ex_opts u) ex_line17 = Ok (Applied 17 4219421)) as C' by (destruct u; vm_compute; reflexivity).
  rewrite C' in C. inversion C; subst oc; clear C C'.
  assert (get_message ex_line17 = Ok (Some ex_m17)) as G by (vm_compute; reflexivity).
  destruct (altitude_df17_end_to_end _ _ _ _ _ _ _ (row_new 0%Z <| icao := 4219421 |>) ex_m17 E)
    as (r' & L' & A).
  - reflexivity.
  - destruct u; reflexivity.
  - exact G.
  - vm_compute. split; discriminate.
  - left. vm_compute. reflexivity.
  - exists s', rf, r'. split; [exact E|]. split; [exact L'|]. rewrite A. vm_compute. reflexivity.
Qed.

(** "*28001A1B2C3D4E;"  DF5; the address is the one the parity field yields *)
Definition ex_line5 : list N := [42; 50;56;48;48;49;65;49;66;50;67;51;68;52;69; 59].
Definition ex_m5 : list N := [2;8;0;0;1;10;1;11;2;12;3;13;4;14].

Example witness_df5_squawk : forall u, exists s' rf r',
  step_line (ex_opts u) 1000%Z (ex_state 8360486) ex_line5 = Ok (s', rf, Applied 5 8360486) /\
  lookup (tbl s') 8360486 = Some r' /\ r_squawk r' = Some (id_spec ex_m5) /\ id_spec ex_m5 = 3615.
Proof.
  intros u.
  destruct (step_line_total (ex_opts u) 1000%Z (ex_state 8360486) ex_line5) as [[[s' rf] oc] E].
  pose proof (step_line_classify _ _ _ _ _ _ _ E) as C.
  assert (classify (ex_opts u) ex_line5 = Ok (Applied 5 8360486)) as C' by (destruct u; vm_compute; reflexivity).
  rewrite C' in C. inversion C; subst oc; clear C C'.
  assert (get_message ex_line5 = Ok (Some ex_m5)) as G by (vm_compute; reflexivity).
  destruct (squawk_end_to_end _ _ _ _ _ _ _ _ (row_new 0%Z <| icao := 8360486 |>) ex_m5 E)
    as (r' & L' & A).
  - reflexivity.
  - destruct u; reflexivity.
  - exact G.
  - left. reflexivity.
  - exists s', rf, r'. split; [exact E|]. split; [exact L'|]. split; [exact A|]. vm_compute. reflexivity.
Qed.

(** ===================================================================================== *)
(** * Summary                                                                              *)
(** ===================================================================================== *)
Print Assumptions step_line_existing_row.
Print Assumptions step_line_new_row.
Print Assumptions squawk_end_to_end.
Print Assumptions squawk_untouched_end_to_end.
Print Assumptions altitude_df4_end_to_end.
Print Assumptions altitude_df4_value_end_to_end.
Print Assumptions altitude_df4_none_end_to_end.
Print Assumptions altitude_df17_end_to_end.
Print Assumptions callsign_end_to_end.
Print Assumptions velocity_end_to_end.
Print Assumptions witness_df17_altitude.
Print Assumptions witness_df5_squawk.
