(** CPR global decoding, the LONGITUDE half (airborne, coeff = 1), in exact rational arithmetic.
    Companion of [Section LatDecode] in CprProof.v.  Pure Coq (QArith/ZArith/Qround), no reals,
    no sampling: the statements hold for every position.

    Standard (DO-260B 2.2.3.2.7.2.x): with NL the common zone number of the two recovered
    latitudes, n_i = max (NL - i) 1, Dlon_i = 360 / n_i,
      encoder  XZ_i = floor (2^17 * mod(lon, Dlon_i) / Dlon_i + 1/2) mod 2^17   ([cpr_enc Dlon_i lon])
      decoder  m    = floor ((XZ_0 (NL-1) - XZ_1 NL) / 2^17 + 1/2)
               lon_i = Dlon_i * (mod(m, n_i) + XZ_i / 2^17), normalised to [-180, 180). *)
From SQ Require Import Base Update Footprint Tables CprProof.
From Coq Require Import Qround Qabs Lqa.
Local Open Scope Q_scope.

(** ---- Rust's sign-of-dividend remainder, made positive, is the mathematical mod ---- *)
Lemma pmod_mod x y : (0 < y)%Z -> pmod x y = (x mod y)%Z.
Proof.
  intros Hy. unfold pmod.
  pose proof (Z.quot_rem' x y) as Q1.
  pose proof (Z.rem_bound_abs x y ltac:(lia)) as Q2.
  destruct (Z.ltb_spec (Z.rem x y) 0).
  - apply Z.mod_unique with (q := (Z.quot x y - 1)%Z); lia.
  - apply Z.mod_unique with (q := Z.quot x y); lia.
Qed.

Lemma pmod_bound x y : (0 < y)%Z -> (0 <= pmod x y < y)%Z.
Proof. intros Hy. rewrite pmod_mod by exact Hy. apply Z.mod_pos_bound. exact Hy. Qed.

(** ---- small facts on Q ---- *)
Lemma inject_Z_pos_lt n : (1 <= n)%Z -> 0 < inject_Z n.
Proof. intros H. change 0 with (inject_Z 0). rewrite <- Zlt_Qlt. lia. Qed.

Lemma dlon_pos n : (1 <= n)%Z -> 0 < 360 / inject_Z n.
Proof.
  intros H. apply Qlt_shift_div_l; [apply inject_Z_pos_lt; exact H|].
  rewrite Qmult_0_l. reflexivity.
Qed.

Lemma Qabs_mul_bound D e b : 0 <= D -> -b <= e -> e <= b -> Qabs (D * e) <= D * b.
Proof.
  intros HD H1 H2. apply Qabs_Qle_condition. split.
  - setoid_replace (- (D * b)) with ((- b) * D) by ring.
    rewrite (Qmult_comm D e). apply Qmult_le_compat_r; assumption.
  - rewrite (Qmult_comm D e), (Qmult_comm D b). apply Qmult_le_compat_r; assumption.
Qed.

(** [signed_lon] shifts by a whole number of turns, into [-180, 180) *)
Lemma signed_lon_shift V : exists s : Z, signed_lon V == V + 360 * inject_Z s.
Proof.
  unfold signed_lon. destruct (Qle_bool 180 V).
  - exists (-1)%Z. change (inject_Z (-1)) with (-1 # 1). ring.
  - destruct (Qle_bool V (-180)).
    + exists 1%Z. change (inject_Z 1) with 1. ring.
    + exists 0%Z. change (inject_Z 0) with 0. ring.
Qed.

Lemma signed_lon_range V : 0 <= V -> V < 360 -> -180 <= signed_lon V /\ signed_lon V < 180.
Proof.
  intros H1 H2. unfold signed_lon.
  destruct (Qle_bool 180 V) eqn:C1.
  - apply Qle_bool_iff in C1. split; lra.
  - assert (V < 180) as C1' by (apply Qnot_le_lt; intros C; apply Qle_bool_iff in C; congruence).
    destruct (Qle_bool V (-180)) eqn:C2.
    + apply Qle_bool_iff in C2. split; lra.
    + split; lra.
Qed.

(** ---- the decoder's longitude, by frame format (airborne) ---- *)
Definition cpr_mm (NL : Z) (xz0 xz1 : N) : Z :=
  Qfloor ((qN xz0 * qZ (NL - 1) - qN xz1 * qZ NL) / div17 + (1 # 2)).

Definition cpr_lon_raw (ni mm : Z) (xz : N) : Q :=
  (360 / qZ ni) * (qZ (pmod mm ni) + qN xz / div17).

Lemma cpr_lon_even_eq NL xz0 xz1 form :
  (1 <= NL)%Z -> (form =? 1)%N = false ->
  cpr_lon NL NL xz0 xz1 form 1 = signed_lon (cpr_lon_raw NL (cpr_mm NL xz0 xz1) xz0).
Proof.
  intros H F. unfold cpr_lon, cpr_lon_raw, cpr_mm. rewrite F. cbv beta iota zeta.
  rewrite Z.quot_1_r, Z.max_l by lia. reflexivity.
Qed.

Lemma cpr_lon_odd_eq NL xz0 xz1 form :
  (form =? 1)%N = true ->
  cpr_lon NL NL xz0 xz1 form 1 =
  signed_lon (cpr_lon_raw (Z.max (NL - 1) 1) (cpr_mm NL xz0 xz1) xz1).
Proof.
  intros F. unfold cpr_lon, cpr_lon_raw, cpr_mm. rewrite F. cbv beta iota zeta.
  rewrite Z.quot_1_r. reflexivity.
Qed.

Lemma cpr_lon_raw_range ni mm xz :
  (1 <= ni)%Z -> (Z.of_N xz < 131072)%Z ->
  0 <= cpr_lon_raw ni mm xz /\ cpr_lon_raw ni mm xz < 360.
Proof.
  intros Hn Hx. unfold cpr_lon_raw.
  change (qZ ni) with (inject_Z ni). change (qZ (pmod mm ni)) with (inject_Z (pmod mm ni)).
  pose proof (pmod_bound mm ni ltac:(lia)) as [P1 P2].
  pose proof (inject_Z_pos_lt ni Hn) as Pn.
  assert (0 <= inject_Z (pmod mm ni)) as Q1 by (change 0 with (inject_Z 0); rewrite <- Zle_Qle; lia).
  assert (inject_Z (pmod mm ni) + 1 <= inject_Z ni) as Q2.
  { change 1 with (inject_Z 1). rewrite <- inject_Z_plus, <- Zle_Qle. lia. }
  assert (0 <= qN xz / div17 /\ qN xz / div17 < 1) as [X1 X2].
  { rewrite div17_mul. unfold qN.
    assert (inject_Z 0 <= inject_Z (Z.of_N xz)) as A by (rewrite <- Zle_Qle; lia).
    assert (inject_Z (Z.of_N xz) < inject_Z 131072) as B by (rewrite <- Zlt_Qlt; lia).
    change (Z.of_N xz # 1) with (inject_Z (Z.of_N xz)).
    change (inject_Z 0) with 0 in A. change (inject_Z 131072) with (131072 # 1) in B.
    split; lra. }
  set (p := inject_Z (pmod mm ni)) in *. set (x := qN xz / div17) in *.
  set (D := 360 / inject_Z ni).
  assert (0 < D) as PD by (apply dlon_pos; exact Hn).
  assert (360 == D * inject_Z ni) as E360 by (unfold D; field; lra).
  split.
  - apply Qmult_le_0_compat; lra.
  - rewrite E360. apply Qmult_lt_l; [exact PD | lra].
Qed.

(** ---- recovery of one frame's longitude from the right zone index (mod n) ---- *)
Lemma lon_recover (n M mm : Z) (lon e : Q) (xz : N) :
  (1 <= n)%Z -> -(1 # 262144) <= e -> e <= (1 # 262144) ->
  lon == (360 / inject_Z n) * (inject_Z M + qN xz * (1 # 131072) + e) ->
  (mm mod n = M mod n)%Z ->
  exists k : Z,
    Qabs (signed_lon (cpr_lon_raw n mm xz) - lon - 360 * inject_Z k)
    <= (360 / inject_Z n) * (1 # 262144).
Proof.
  intros Hn A B EL Hm. unfold cpr_lon_raw.
  rewrite pmod_mod, Hm by lia.
  change (qZ n) with (inject_Z n). change (qZ (M mod n)) with (inject_Z (M mod n)).
  pose proof (inject_Z_pos_lt n Hn) as Pn.
  assert (inject_Z (M mod n) == inject_Z M - inject_Z n * inject_Z (M / n)) as EM.
  { rewrite <- inject_Z_mult, <- inject_Z_sub. rewrite Z.mod_eq by lia. reflexivity. }
  set (D := 360 / inject_Z n) in *.
  assert (0 < D) as PD by (apply dlon_pos; exact Hn).
  assert (360 == D * inject_Z n) as E360 by (unfold D; field; lra).
  set (V := D * (inject_Z (M mod n) + qN xz / div17)).
  destruct (signed_lon_shift V) as [s Hs].
  exists (s - M / n)%Z.
  rewrite Hs, inject_Z_sub.
  assert (V + 360 * inject_Z s - lon - 360 * (inject_Z s - inject_Z (M / n)) == D * - e) as EV.
  { unfold V. rewrite EM, div17_mul, EL. rewrite E360. ring. }
  rewrite EV. apply Qabs_mul_bound; lra.
Qed.

(** ---- the zone index difference m is recovered exactly (NL >= 2) ----
    two longitudes are allowed, provided their difference is within the unambiguous range
    360 / (NL (NL-1)) / 2 (with a little room for the two quantisation errors) *)
Lemma lon_m_recover (NL M0 M1 : Z) (lonA lonB x0 x1 e0 e1 : Q) :
  (2 <= NL <= 59)%Z ->
  -(1 # 262144) <= e0 -> e0 <= (1 # 262144) -> -(1 # 262144) <= e1 -> e1 <= (1 # 262144) ->
  lonA == (360 / inject_Z NL) * (inject_Z M0 + x0 * (1 # 131072) + e0) ->
  lonB == (360 / inject_Z (NL - 1)) * (inject_Z M1 + x1 * (1 # 131072) + e1) ->
  Qabs (lonB - lonA) * inject_Z (NL * (NL - 1)) <= 179 ->
  Qfloor ((x0 * qZ (NL - 1) - x1 * qZ NL) / div17 + (1 # 2)) = (NL * M1 - (NL - 1) * M0)%Z.
Proof.
  intros HNL A0 B0 A1 B1 D0 D1 HC.
  change (qZ (NL - 1)) with (inject_Z (NL - 1)). change (qZ NL) with (inject_Z NL).
  set (J := (NL * M1 - (NL - 1) * M0)%Z).
  assert (inject_Z J == inject_Z NL * inject_Z M1 - (inject_Z NL - 1) * inject_Z M0) as EJ.
  { unfold J. rewrite inject_Z_sub, !inject_Z_mult, inject_Z_sub. reflexivity. }
  rewrite inject_Z_mult in HC. rewrite inject_Z_sub in HC, D1 |- *.
  change (inject_Z 1) with 1 in *.
  assert (2 <= inject_Z NL /\ inject_Z NL <= 59) as [N1 N2].
  { split; [change 2 with (inject_Z 2) | change 59 with (inject_Z 59)]; rewrite <- Zle_Qle; lia. }
  set (n := inject_Z NL) in *.
  assert (x0 == (lonA * n * (1 # 360) - inject_Z M0 - e0) * 131072) as X0.
  { rewrite D0. field. lra. }
  assert (x1 == (lonB * (n - 1) * (1 # 360) - inject_Z M1 - e1) * 131072) as X1.
  { rewrite D1. field. lra. }
  set (G := n * (n - 1) * (lonA - lonB)).
  assert ((x0 * (n - 1) - x1 * n) * (1 # 131072) ==
          n * inject_Z M1 - (n - 1) * inject_Z M0 + (n * e1 - (n - 1) * e0 + G * (1 # 360))) as ID.
  { unfold G. rewrite X0, X1. ring. }
  assert (-(59 # 262144) <= n * e1 /\ n * e1 <= 59 # 262144) as [P1 P2] by (split; nra).
  assert (-(58 # 262144) <= (n - 1) * e0 /\ (n - 1) * e0 <= 58 # 262144) as [P3 P4] by (split; nra).
  assert (-179 <= G /\ G <= 179) as [P5 P6].
  { unfold G.
    assert (0 <= n * (n - 1)) as PP by nra.
    pose proof (Qle_Qabs (lonB - lonA)) as W1.
    pose proof (Qle_Qabs (- (lonB - lonA))) as W2. rewrite Qabs_opp in W2.
    set (a := Qabs (lonB - lonA)) in *. set (P := n * (n - 1)) in *.
    clearbody a P. split; nra. }
  set (A := n * e1) in *. set (B := (n - 1) * e0) in *. clearbody A B G.
  apply Qfloor_unique; rewrite div17_mul, ID, EJ; lra.
Qed.

Section LonDecode.
  (** two longitudes: [lonA] is encoded in the even frame, [lonB] in the odd frame *)
  Variables (NL : Z) (lonA lonB : Q) (xz0 xz1 : N).
  Hypothesis HNL : (1 <= NL <= 59)%Z.
  Hypothesis E0 : Z.of_N xz0 = cpr_enc (360 / inject_Z NL) lonA.
  Hypothesis E1 : Z.of_N xz1 = cpr_enc (360 / inject_Z (Z.max (NL - 1) 1)) lonB.
  Hypothesis Hclose : Qabs (lonB - lonA) * inject_Z (NL * (NL - 1)) <= 179.

  (** the decoder's m equals the true difference of zone indices *)
  Lemma cpr_mm_correct :
    (2 <= NL)%Z ->
    exists (M0 M1 : Z) (e0 e1 : Q),
      -(1 # 262144) <= e0 /\ e0 <= (1 # 262144) /\ -(1 # 262144) <= e1 /\ e1 <= (1 # 262144) /\
      lonA == (360 / inject_Z NL) * (inject_Z M0 + qN xz0 * (1 # 131072) + e0) /\
      lonB == (360 / inject_Z (NL - 1)) * (inject_Z M1 + qN xz1 * (1 # 131072) + e1) /\
      cpr_mm NL xz0 xz1 = (NL * M1 - (NL - 1) * M0)%Z.
  Proof.
    intros H2. rewrite Z.max_l in E1 by lia.
    destruct (cpr_enc_decomp' (360 / inject_Z NL) lonA) as (M0 & e0 & A0 & B0 & D0);
      [apply dlon_pos; lia|].
    destruct (cpr_enc_decomp' (360 / inject_Z (NL - 1)) lonB) as (M1 & e1 & A1 & B1 & D1);
      [apply dlon_pos; lia|].
    rewrite <- E0 in D0. rewrite <- E1 in D1.
    change (inject_Z (Z.of_N xz0)) with (qN xz0) in D0.
    change (inject_Z (Z.of_N xz1)) with (qN xz1) in D1.
    exists M0, M1, e0, e1. repeat (split; [assumption|]).
    unfold cpr_mm. apply lon_m_recover with (lonA := lonA) (lonB := lonB) (e0 := e0) (e1 := e1);
      try assumption. lia.
  Qed.

  Theorem cpr_lon_even_correct2 form :
    (form =? 1)%N = false ->
    exists k : Z,
      Qabs (cpr_lon NL NL xz0 xz1 form 1 - lonA - 360 * inject_Z k)
      <= (360 / inject_Z NL) * (1 # 262144).
  Proof.
    intros F. rewrite cpr_lon_even_eq by (lia || exact F).
    destruct (Z_lt_le_dec NL 2) as [Hlt|Hge].
    - (* a single zone: the zone index does not matter *)
      assert (NL = 1%Z) as -> by lia.
      destruct (cpr_enc_decomp' (360 / inject_Z 1) lonA) as (M0 & e0 & A0 & B0 & D0);
        [apply dlon_pos; lia|].
      rewrite <- E0 in D0. change (inject_Z (Z.of_N xz0)) with (qN xz0) in D0.
      apply lon_recover with (M := M0) (e := e0); try assumption; [lia|].
      rewrite !Z.mod_1_r. reflexivity.
    - destruct (cpr_mm_correct Hge) as (M0 & M1 & e0 & e1 & A0 & B0 & A1 & B1 & D0 & D1 & EM).
      apply lon_recover with (M := M0) (e := e0); try assumption; [lia|].
      rewrite EM.
      replace (NL * M1 - (NL - 1) * M0)%Z with (M0 + (M1 - M0) * NL)%Z by ring.
      apply Z_mod_plus_full.
  Qed.

  Theorem cpr_lon_odd_correct2 form :
    (form =? 1)%N = true ->
    exists k : Z,
      Qabs (cpr_lon NL NL xz0 xz1 form 1 - lonB - 360 * inject_Z k)
      <= (360 / inject_Z (Z.max (NL - 1) 1)) * (1 # 262144).
  Proof.
    intros F. rewrite cpr_lon_odd_eq by exact F.
    destruct (Z_lt_le_dec NL 2) as [Hlt|Hge].
    - assert (NL = 1%Z) as -> by lia.
      change (Z.max (1 - 1) 1) with 1%Z in *.
      destruct (cpr_enc_decomp' (360 / inject_Z 1) lonB) as (M1 & e1 & A1 & B1 & D1);
        [apply dlon_pos; lia|].
      rewrite <- E1 in D1. change (inject_Z (Z.of_N xz1)) with (qN xz1) in D1.
      apply lon_recover with (M := M1) (e := e1); try assumption; [lia|].
      rewrite !Z.mod_1_r. reflexivity.
    - destruct (cpr_mm_correct Hge) as (M0 & M1 & e0 & e1 & A0 & B0 & A1 & B1 & D0 & D1 & EM).
      rewrite Z.max_l by lia.
      apply lon_recover with (M := M1) (e := e1); try assumption; [lia|].
      rewrite EM.
      replace (NL * M1 - (NL - 1) * M0)%Z with (M1 + (M1 - M0) * (NL - 1))%Z by ring.
      apply Z_mod_plus_full.
  Qed.

  (** the decoded longitude is normalised *)
  Lemma cpr_lon_range form :
    -180 <= cpr_lon NL NL xz0 xz1 form 1 /\ cpr_lon NL NL xz0 xz1 form 1 < 180.
  Proof.
    pose proof (cpr_enc_bound (360 / inject_Z NL) lonA) as B0.
    pose proof (cpr_enc_bound (360 / inject_Z (Z.max (NL - 1) 1)) lonB) as B1.
    rewrite <- E0 in B0. rewrite <- E1 in B1.
    destruct (form =? 1)%N eqn:F.
    - rewrite cpr_lon_odd_eq by exact F.
      apply signed_lon_range; apply cpr_lon_raw_range; lia.
    - rewrite cpr_lon_even_eq by (lia || exact F).
      apply signed_lon_range; apply cpr_lon_raw_range; lia.
  Qed.
End LonDecode.

(** ---- the target statements: one longitude in both frames (zero displacement) ---- *)
Section LonDecode1.
  Variables (NL : Z) (lon : Q) (xz0 xz1 : N).
  Hypothesis HNL : (1 <= NL <= 59)%Z.
  Hypothesis E0 : Z.of_N xz0 = cpr_enc (360 / inject_Z NL) lon.
  Hypothesis E1 : Z.of_N xz1 = cpr_enc (360 / inject_Z (Z.max (NL - 1) 1)) lon.

  Lemma same_lon_close : Qabs (lon - lon) * inject_Z (NL * (NL - 1)) <= 179.
  Proof.
    setoid_replace (lon - lon) with 0 by ring. change (Qabs 0) with 0.
    rewrite Qmult_0_l. discriminate.
  Qed.

  (** even frame (form = 0): within Dlon_0 / 2^18 of the true longitude, modulo 360 *)
  Theorem cpr_lon_even_correct :
    exists k : Z,
      Qabs (cpr_lon NL NL xz0 xz1 0 1 - lon - 360 * inject_Z k) <= (360 / inject_Z NL) * (1 # 262144).
  Proof.
    exact (cpr_lon_even_correct2 NL lon lon xz0 xz1 HNL E0 E1 same_lon_close 0%N eq_refl).
  Qed.

  (** odd frame (form = 1): within Dlon_1 / 2^18, Dlon_1 = 360 / max (NL-1) 1 *)
  Theorem cpr_lon_odd_correct :
    exists k : Z,
      Qabs (cpr_lon NL NL xz0 xz1 1 1 - lon - 360 * inject_Z k)
      <= (360 / inject_Z (Z.max (NL - 1) 1)) * (1 # 262144).
  Proof.
    exact (cpr_lon_odd_correct2 NL lon lon xz0 xz1 HNL E0 E1 same_lon_close 1%N eq_refl).
  Qed.
End LonDecode1.

(** away from the antimeridian there is no wrap: k = 0 *)
Lemma no_wrap (d lon b : Q) (k : Z) :
  -180 <= d -> d < 180 -> Qabs (d - lon - 360 * inject_Z k) <= b ->
  -180 + b < lon -> lon < 180 - b -> Qabs (d - lon) <= b.
Proof.
  intros D1 D2 H L1 L2.
  pose proof H as H'. apply Qabs_Qle_condition in H'. destruct H' as [H1 H2].
  assert (k = 0%Z) as ->.
  { assert (inject_Z (-1) < inject_Z k) as A by (change (inject_Z (-1)) with (-1 # 1); lra).
    assert (inject_Z k < inject_Z 1) as B by (change (inject_Z 1) with 1; lra).
    rewrite <- Zlt_Qlt in A, B. lia. }
  change (inject_Z 0) with 0 in H.
  setoid_replace (d - lon) with (d - lon - 360 * 0) by ring. exact H.
Qed.

Theorem cpr_lon_even_correct_nowrap NL lon xz0 xz1 :
  (1 <= NL <= 59)%Z ->
  Z.of_N xz0 = cpr_enc (360 / inject_Z NL) lon ->
  Z.of_N xz1 = cpr_enc (360 / inject_Z (Z.max (NL - 1) 1)) lon ->
  let b := (360 / inject_Z NL) * (1 # 262144) in
  -180 + b < lon -> lon < 180 - b ->
  Qabs (cpr_lon NL NL xz0 xz1 0 1 - lon) <= b.
Proof.
  intros HNL E0 E1 b L1 L2.
  destruct (cpr_lon_even_correct NL lon xz0 xz1 HNL E0 E1) as [k Hk].
  destruct (cpr_lon_range NL lon lon xz0 xz1 HNL E0 E1 0%N) as [R1 R2].
  exact (no_wrap _ _ _ k R1 R2 Hk L1 L2).
Qed.

Theorem cpr_lon_odd_correct_nowrap NL lon xz0 xz1 :
  (1 <= NL <= 59)%Z ->
  Z.of_N xz0 = cpr_enc (360 / inject_Z NL) lon ->
  Z.of_N xz1 = cpr_enc (360 / inject_Z (Z.max (NL - 1) 1)) lon ->
  let b := (360 / inject_Z (Z.max (NL - 1) 1)) * (1 # 262144) in
  -180 + b < lon -> lon < 180 - b ->
  Qabs (cpr_lon NL NL xz0 xz1 1 1 - lon) <= b.
Proof.
  intros HNL E0 E1 b L1 L2.
  destruct (cpr_lon_odd_correct NL lon xz0 xz1 HNL E0 E1) as [k Hk].
  destruct (cpr_lon_range NL lon lon xz0 xz1 HNL E0 E1 1%N) as [R1 R2].
  exact (no_wrap _ _ _ k R1 R2 Hk L1 L2).
Qed.

(** ---- whatever [cpr_location] returns for an airborne pair encoding one position ---- *)
Theorem cpr_location_airborne_correct yz0 yz1 xz0 xz1 form truelat truelon la lo :
  -89 < truelat -> truelat < 89 ->
  Z.of_N yz0 = cpr_enc 6 truelat -> Z.of_N yz1 = cpr_enc (360 # 59) truelat ->
  let NL := nl (cpr_rlat0 yz0 yz1) in
  Z.of_N xz0 = cpr_enc (360 / inject_Z NL) truelon ->
  Z.of_N xz1 = cpr_enc (360 / inject_Z (Z.max (NL - 1) 1)) truelon ->
  cpr_location yz0 yz1 xz0 xz1 form 1 = Some (la, lo) ->
  Qabs (la - truelat) <= (if (form =? 1)%N then 360 # 59 else 6) * (1 # 262144) /\
  (-180 <= lo /\ lo < 180) /\
  exists k : Z,
    Qabs (lo - truelon - 360 * inject_Z k)
    <= (360 / inject_Z (if (form =? 1)%N then Z.max (NL - 1) 1 else NL)) * (1 # 262144).
Proof.
  intros L1 L2 Y0 Y1 NL X0 X1 H.
  split; [exact (cpr_location_lat_correct truelat _ _ L1 L2 Y0 Y1 _ _ _ _ _ _ H)|].
  apply cpr_location_some in H. destruct H as (Enl & _ & ->).
  rewrite <- Enl. fold NL.
  pose proof (nl_range (cpr_rlat0 yz0 yz1)) as HNL. fold NL in HNL.
  split; [exact (cpr_lon_range NL truelon truelon xz0 xz1 HNL X0 X1 form)|].
  destruct (form =? 1)%N eqn:F.
  - exact (cpr_lon_odd_correct2 NL truelon truelon xz0 xz1 HNL X0 X1
             (same_lon_close NL truelon) form F).
  - exact (cpr_lon_even_correct2 NL truelon truelon xz0 xz1 HNL X0 X1
             (same_lon_close NL truelon) form F).
Qed.

(** ---- row level: a committed airborne position is the encoded position ----
    The four stored fields are the standard encodings of one position (truelat, truelon); the
    longitude encoder uses, as the standard prescribes, the zone number NL of the latitude the
    receiver recovers.  The shown latitude is within Dlat_i / 2^18 (6 / 2^18 even, (360/59) / 2^18 odd) and the
    shown longitude within Dlon_i / 2^18, modulo 360, of that position. *)
Theorem update_position_airborne_correct obs r tc form truelat truelon la lo :
  -89 < truelat -> truelat < 89 -> (9 <= tc <= 18)%N ->
  Z.of_N (cpr_lat0 r) = cpr_enc 6 truelat -> Z.of_N (cpr_lat1 r) = cpr_enc (360 # 59) truelat ->
  let NL := nl (cpr_rlat0 (cpr_lat0 r) (cpr_lat1 r)) in
  Z.of_N (cpr_lon0 r) = cpr_enc (360 / inject_Z NL) truelon ->
  Z.of_N (cpr_lon1 r) = cpr_enc (360 / inject_Z (Z.max (NL - 1) 1)) truelon ->
  pos_commits r tc form la lo ->
  let r' := update_position obs r tc form in
  Qabs (lat r' - truelat) <= (if (form =? 1)%N then 360 # 59 else 6) * (1 # 262144) /\
  (-180 <= lon r' /\ lon r' < 180) /\
  exists k : Z,
    Qabs (lon r' - truelon - 360 * inject_Z k)
    <= (360 / inject_Z (if (form =? 1)%N then Z.max (NL - 1) 1 else NL)) * (1 # 262144).
Proof.
  intros L1 L2 Htc Y0 Y1 NL X0 X1 C.
  pose proof (update_position_commit obs r tc form la lo C) as H. cbn zeta in H.
  destruct H as (Hla & Hlo & _ & _ & (c & Hc & Hloc) & _).
  cbv zeta. rewrite Hla, Hlo.
  assert (c = 1%Z) as -> by (destruct Hc as [[Hc _]|[_ Hc]]; [lia | exact Hc]).
  exact (cpr_location_airborne_correct _ _ _ _ form truelat truelon la lo L1 L2 Y0 Y1 X0 X1 Hloc).
Qed.

(** uniform bounds: latitude within (360/59) / 2^18 (the odd frame's Dlat_1 = 360/59 is the larger
    of the two zone heights), longitude (modulo 360) within 360 / 2^18 *)
Corollary update_position_airborne_correct_uniform obs r tc form truelat truelon la lo :
  -89 < truelat -> truelat < 89 -> (9 <= tc <= 18)%N ->
  Z.of_N (cpr_lat0 r) = cpr_enc 6 truelat -> Z.of_N (cpr_lat1 r) = cpr_enc (360 # 59) truelat ->
  let NL := nl (cpr_rlat0 (cpr_lat0 r) (cpr_lat1 r)) in
  Z.of_N (cpr_lon0 r) = cpr_enc (360 / inject_Z NL) truelon ->
  Z.of_N (cpr_lon1 r) = cpr_enc (360 / inject_Z (Z.max (NL - 1) 1)) truelon ->
  pos_commits r tc form la lo ->
  let r' := update_position obs r tc form in
  Qabs (lat r' - truelat) <= (360 # 59) * (1 # 262144) /\
  exists k : Z, Qabs (lon r' - truelon - 360 * inject_Z k) <= 360 * (1 # 262144).
Proof.
  intros L1 L2 Htc Y0 Y1 NL X0 X1 C r'.
  destruct (update_position_airborne_correct obs r tc form truelat truelon la lo
              L1 L2 Htc Y0 Y1 X0 X1 C) as (H1 & _ & k & H2).
  fold r' in H1, H2. fold NL in H2. split.
  - eapply Qle_trans; [exact H1|]. destruct (form =? 1)%N; lra.
  - exists k. eapply Qle_trans; [exact H2|].
    set (ni := if (form =? 1)%N then Z.max (NL - 1) 1 else NL).
    assert (1 <= ni)%Z as Hni.
    { pose proof (nl_range (cpr_rlat0 (cpr_lat0 r) (cpr_lat1 r))) as HNL. fold NL in HNL.
      unfold ni. destruct (form =? 1)%N; lia. }
    apply Qmult_le_compat_r; [|discriminate].
    apply Qle_shift_div_r; [apply inject_Z_pos_lt; exact Hni|].
    assert (inject_Z 1 <= inject_Z ni) as A by (rewrite <- Zle_Qle; exact Hni).
    change (inject_Z 1) with 1 in A. lra.
Qed.

(** ---- the same with the hypotheses stated on the encoder's side only ----
    The standard's encoder (DO-260B 2.2.3.2.7.2.2) computes, from the latitude to be sent,
      YZ_i   = floor (2^17 * mod(lat, Dlat_i) / Dlat_i + 1/2)            (before truncation to 17 bits)
      Rlat_i = Dlat_i * (YZ_i / 2^17 + floor (lat / Dlat_i))            (what a receiver will recover)
      Dlon_i = 360 / max (NL(Rlat_i) - i) 1
    and encodes the longitude with Dlon_i.  We show that the decoder's recovered latitudes ARE
    these Rlat_i, so that the zone numbers of encoder and decoder agree by construction. *)
Definition enc_yz_raw (d lat : Q) : Z := Qfloor (div17 * (qmod lat d / d) + (1 # 2)).
Definition enc_rlat (d lat : Q) : Q :=
  d * (inject_Z (Qfloor (lat / d)) + inject_Z (enc_yz_raw d lat) / div17).

Lemma cpr_enc_raw d lat : cpr_enc d lat = (enc_yz_raw d lat mod 131072)%Z.
Proof. reflexivity. Qed.

Lemma enc_rlat_spec d lat :
  0 < d ->
  exists K : Z,
    enc_rlat d lat == d * (inject_Z K + inject_Z (cpr_enc d lat) * (1 # 131072)) /\
    Qabs (enc_rlat d lat - lat) <= d * (1 # 262144).
Proof.
  intros Hd. unfold enc_rlat, cpr_enc, enc_yz_raw.
  set (m := Qfloor (lat / d)).
  assert (qmod lat d / d == lat / d - inject_Z m) as Ef by (unfold qmod; fold m; field; lra).
  set (g := div17 * (qmod lat d / d) + (1 # 2)).
  set (n := Qfloor g).
  destruct (Qfloor_spec (lat / d)) as [U1 U2]. fold m in U1, U2.
  destruct (Qfloor_spec g) as [G1 G2]. fold n in G1, G2.
  assert (g == 131072 * (lat / d - inject_Z m) + (1 # 2)) as Eg by (unfold g, div17; rewrite Ef; reflexivity).
  exists (m + n / 131072)%Z. split.
  - assert (inject_Z n == 131072 * inject_Z (n / 131072) + inject_Z (n mod 131072)) as En.
    { rewrite (Z.div_mod n 131072) at 1 by lia. rewrite inject_Z_plus, inject_Z_mult. reflexivity. }
    rewrite inject_Z_plus, div17_mul. rewrite En. ring.
  - assert (lat == d * (lat / d)) as El by (field; lra).
    set (t := lat / d) in *.
    assert (d * (inject_Z m + inject_Z n / div17) - lat == d * (inject_Z m + inject_Z n / div17 - t)) as Ed.
    { rewrite El at 1. ring. }
    rewrite Ed. pose proof (div17_mul (inject_Z n)) as Dn.
    apply Qabs_mul_bound; lra.
Qed.

Lemma fixed_lat_turns V : exists s : Z, fixed_lat V == V + 360 * inject_Z s.
Proof.
  unfold fixed_lat. destruct (Qle_bool 90 V).
  - exists (-1)%Z. change (inject_Z (-1)) with (-1 # 1). ring.
  - destruct (Qle_bool V (-90)).
    + exists 1%Z. change (inject_Z 1) with 1. ring.
    + exists 0%Z. change (inject_Z 0) with 0. ring.
Qed.

Lemma cpr_rlat0_lattice yz0 yz1 :
  exists K : Z, cpr_rlat0 yz0 yz1 == 6 * (inject_Z K + qN yz0 * (1 # 131072)).
Proof.
  unfold cpr_rlat0.
  match goal with |- context [fixed_lat ?V] => destruct (fixed_lat_turns V) as [s Hs] end.
  exists (zrem (cpr_j yz0 yz1) 60 + 60 * s)%Z. rewrite Hs.
  rewrite inject_Z_plus, inject_Z_mult, div17_mul.
  change (qZ (zrem (cpr_j yz0 yz1) 60)) with (inject_Z (zrem (cpr_j yz0 yz1) 60)).
  change (inject_Z 60) with 60. ring.
Qed.

Lemma cpr_rlat1_lattice yz0 yz1 :
  exists K : Z, cpr_rlat1 yz0 yz1 == (360 # 59) * (inject_Z K + qN yz1 * (1 # 131072)).
Proof.
  unfold cpr_rlat1.
  match goal with |- context [fixed_lat ?V] => destruct (fixed_lat_turns V) as [s Hs] end.
  exists (zrem (cpr_j yz0 yz1) 59 + 59 * s)%Z. rewrite Hs.
  rewrite inject_Z_plus, inject_Z_mult, div17_mul.
  change (qZ (zrem (cpr_j yz0 yz1) 59)) with (inject_Z (zrem (cpr_j yz0 yz1) 59)).
  change (inject_Z 59) with 59. ring.
Qed.

(** two points of the lattice d * (Z + y) both within d b < d / 2 of the same value coincide *)
Lemma lattice_unique d (K K' : Z) y v b :
  0 < d -> b < 1 # 2 ->
  Qabs (d * (inject_Z K + y) - v) <= d * b -> Qabs (d * (inject_Z K' + y) - v) <= d * b ->
  K = K'.
Proof.
  intros Hd Hb H1 H2.
  apply Qabs_Qle_condition in H1, H2. destruct H1 as [H1a H1b], H2 as [H2a H2b].
  assert (d * (inject_Z K - inject_Z K') <= d * (2 * b)) as A by lra.
  assert (d * (inject_Z K' - inject_Z K) <= d * (2 * b)) as B by lra.
  apply Qmult_le_l in A, B; try exact Hd.
  assert (inject_Z K < inject_Z (K' + 1)) as A' by (rewrite inject_Z_plus; change (inject_Z 1) with 1; lra).
  assert (inject_Z K' < inject_Z (K + 1)) as B' by (rewrite inject_Z_plus; change (inject_Z 1) with 1; lra).
  rewrite <- Zlt_Qlt in A', B'. lia.
Qed.

Section LatEnc.
  Variables (lat : Q) (yz0 yz1 : N).
  Hypothesis L1 : -89 < lat.
  Hypothesis L2 : lat < 89.
  Hypothesis E0 : Z.of_N yz0 = cpr_enc 6 lat.
  Hypothesis E1 : Z.of_N yz1 = cpr_enc (360 # 59) lat.

  (** the decoder's recovered latitudes are exactly the encoder's Rlat_i *)
  Theorem cpr_rlat0_is_enc : cpr_rlat0 yz0 yz1 == enc_rlat 6 lat.
  Proof.
    destruct (cpr_rlat0_lattice yz0 yz1) as [K HK].
    destruct (enc_rlat_spec 6 lat) as (K' & HK' & HB); [reflexivity|].
    pose proof (cpr_rlat0_correct lat yz0 yz1 L1 L2 E0 E1) as HA.
    rewrite <- E0 in HK'. change (inject_Z (Z.of_N yz0)) with (qN yz0) in HK'.
    rewrite HK in HA |- *. rewrite HK' in HB |- *.
    assert (K = K') as ->; [|reflexivity].
    apply (lattice_unique 6 K K' (qN yz0 * (1 # 131072)) lat (1 # 262144));
      [reflexivity | reflexivity | exact HA | exact HB].
  Qed.

  Theorem cpr_rlat1_is_enc : cpr_rlat1 yz0 yz1 == enc_rlat (360 # 59) lat.
  Proof.
    destruct (cpr_rlat1_lattice yz0 yz1) as [K HK].
    destruct (enc_rlat_spec (360 # 59) lat) as (K' & HK' & HB); [reflexivity|].
    pose proof (cpr_rlat1_correct lat yz0 yz1 L1 L2 E0 E1) as HA.
    rewrite <- E1 in HK'. change (inject_Z (Z.of_N yz1)) with (qN yz1) in HK'.
    rewrite HK in HA |- *. rewrite HK' in HB |- *.
    assert (K = K') as ->; [|reflexivity].
    apply (lattice_unique (360 # 59) K K' (qN yz1 * (1 # 131072)) lat (1 # 262144));
      [reflexivity | reflexivity | exact HA | exact HB].
  Qed.
End LatEnc.

(** [nl] respects equality of rationals *)
Lemma Qlt_bool_wd a a' b : a == a' -> Qlt_bool a b = Qlt_bool a' b.
Proof.
  intros H. destruct (Qlt_bool a b) eqn:C1, (Qlt_bool a' b) eqn:C2; try reflexivity.
  - apply Qlt_bool_iff in C1. rewrite H in C1. apply Qlt_bool_iff in C1. congruence.
  - apply Qlt_bool_iff in C2. rewrite <- H in C2. apply Qlt_bool_iff in C2. congruence.
Qed.

Lemma nl_go_wd t a a' : a == a' -> nl_go t a = nl_go t a'.
Proof.
  intros H. induction t as [|[b v] t IH]; cbn [nl_go]; [reflexivity|].
  rewrite (Qlt_bool_wd a a' b H), IH. reflexivity.
Qed.

Lemma nl_wd x y : x == y -> nl x = nl y.
Proof. intros H. unfold nl. apply nl_go_wd. rewrite H. reflexivity. Qed.

(** the standard's airborne encoder of format i for the position (lat, lon): (YZ_i, XZ_i) *)
Definition std_enc0 (lat lon : Q) : Z * Z :=
  (cpr_enc 6 lat, cpr_enc (360 / inject_Z (Z.max (nl (enc_rlat 6 lat)) 1)) lon).
Definition std_enc1 (lat lon : Q) : Z * Z :=
  (cpr_enc (360 # 59) lat,
   cpr_enc (360 / inject_Z (Z.max (nl (enc_rlat (360 # 59) lat) - 1) 1)) lon).

(** row level, encoder-side hypotheses only: the even slot holds the standard even encoding and
    the odd slot the standard odd encoding of ONE position (lat, lon), -89 < lat < 89, any lon.
    If [update_position] commits (airborne type code), the shown position is that position up to
    the quantisation: latitude within Dlat_i / 2^18, longitude within Dlon_i / 2^18 modulo 360,
    where i is the format of the frame just received and NL the zone number of Rlat_0. *)
Theorem update_position_airborne_std obs r tc form truelat truelon la lo :
  -89 < truelat -> truelat < 89 -> (9 <= tc <= 18)%N ->
  (Z.of_N (cpr_lat0 r), Z.of_N (cpr_lon0 r)) = std_enc0 truelat truelon ->
  (Z.of_N (cpr_lat1 r), Z.of_N (cpr_lon1 r)) = std_enc1 truelat truelon ->
  pos_commits r tc form la lo ->
  let NL := nl (enc_rlat 6 truelat) in
  let r' := update_position obs r tc form in
  Qabs (lat r' - truelat) <= (if (form =? 1)%N then 360 # 59 else 6) * (1 # 262144) /\
  (-180 <= lon r' /\ lon r' < 180) /\
  exists k : Z,
    Qabs (lon r' - truelon - 360 * inject_Z k)
    <= (360 / inject_Z (if (form =? 1)%N then Z.max (NL - 1) 1 else NL)) * (1 # 262144).
Proof.
  intros L1 L2 Htc S0 S1 C NL.
  unfold std_enc0 in S0. unfold std_enc1 in S1.
  injection S0 as Y0 X0. injection S1 as Y1 X1.
  pose proof (cpr_rlat0_is_enc truelat _ _ L1 L2 Y0 Y1) as R0.
  pose proof (cpr_rlat1_is_enc truelat _ _ L1 L2 Y0 Y1) as R1.
  apply nl_wd in R0, R1. fold NL in R0, X0.
  pose proof (nl_range (enc_rlat 6 truelat)) as HNL. fold NL in HNL.
  rewrite Z.max_l in X0 by lia.
  (* a commit means the two recovered latitudes have the same zone number *)
  assert (nl (enc_rlat (360 # 59) truelat) = NL) as ENL.
  { pose proof (update_position_commit obs r tc form la lo C) as H. cbn zeta in H.
    destruct H as (_ & _ & _ & _ & (c & _ & Hloc) & _).
    apply cpr_location_some in Hloc. destruct Hloc as (Enl & _). congruence. }
  rewrite ENL in X1. rewrite <- R0 in X0, X1.
  pose proof (update_position_airborne_correct obs r tc form truelat truelon la lo
                L1 L2 Htc Y0 Y1 X0 X1 C) as H.
  cbv zeta in H. rewrite R0 in H. exact H.
Qed.

(** a concrete instance (non-vacuity of the encoder hypotheses): 52.2572 N 3.91937 E, NL = 36 *)
Example cpr_lon_example :
  cpr_enc (360 / inject_Z 36) (391937 # 100000) = 51372%Z /\
  cpr_enc (360 / inject_Z (Z.max (36 - 1) 1)) (391937 # 100000) = 49945%Z /\
  cpr_lon 36 36 51372 49945 0 1 == 64215 # 16384 /\ cpr_lon 36 36 51372 49945 1 1 == 64215 # 16384.
Proof. vm_compute. repeat split. Qed.

(** the standard encodings of that position, and what the model decodes from them *)
Example std_enc_example :
  std_enc0 (522572 # 10000) (391937 # 100000) = (93000%Z, 51372%Z) /\
  std_enc1 (522572 # 10000) (391937 # 100000) = (73974%Z, 49945%Z) /\
  match cpr_location 93000 73974 51372 49945 0 1 with
  | Some (la, lo) => la == 428091 # 8192 /\ lo == 64215 # 16384
  | None => False
  end.
Proof. vm_compute. repeat split. Qed.

Print Assumptions pmod_mod.
Print Assumptions cpr_mm_correct.
Print Assumptions cpr_lon_even_correct2.
Print Assumptions cpr_lon_odd_correct2.
Print Assumptions cpr_lon_even_correct.
Print Assumptions cpr_lon_odd_correct.
Print Assumptions cpr_lon_even_correct_nowrap.
Print Assumptions cpr_lon_odd_correct_nowrap.
Print Assumptions cpr_location_airborne_correct.
Print Assumptions update_position_airborne_correct.
Print Assumptions update_position_airborne_correct_uniform.
Print Assumptions cpr_rlat0_is_enc.
Print Assumptions cpr_rlat1_is_enc.
Print Assumptions update_position_airborne_std.
