(** Table-level facts, all by induction over arbitrary line lists: isolation of rows, one row per
    address, inert lines, counters, the accepted-subsequence theorem. *)
From SQ Require Import Base Table Footprint.
From Coq Require Import Permutation.
Local Open Scope N_scope.

Definition keys (t : table) : list N := map fst t.

Lemma lookup_upsert_same t a r : lookup (upsert t a r) a = Some r.
Proof.
  induction t as [|[k r0] t IH]; cbn.
  - rewrite N.eqb_refl. reflexivity.
  - destruct (k =? a) eqn:E; cbn; rewrite E; [reflexivity | exact IH].
Qed.

Lemma lookup_upsert_other t a b r : a <> b -> lookup (upsert t a r) b = lookup t b.
Proof.
  intros Hne. apply N.eqb_neq in Hne.
  induction t as [|[k r0] t IH]; cbn.
  - rewrite Hne. reflexivity.
  - destruct (k =? a) eqn:E; cbn.
    + apply N.eqb_eq in E. subst k. rewrite Hne. reflexivity.
    + rewrite IH. reflexivity.
Qed.

Lemma lookup_none_keys t a : lookup t a = None <-> ~ In a (keys t).
Proof.
  unfold keys. induction t as [|[k r] t IH]; cbn [lookup map fst In]; [tauto|].
  destruct (k =? a) eqn:E.
  - apply N.eqb_eq in E. split; [discriminate | intros H; exfalso; apply H; left; exact E].
  - apply N.eqb_neq in E. rewrite IH. tauto.
Qed.

Lemma keys_upsert_in t a r : In a (keys t) -> keys (upsert t a r) = keys t.
Proof.
  unfold keys. induction t as [|[k r0] t IH]; cbn [upsert map fst In]; [tauto|].
  destruct (k =? a) eqn:E; cbn [map fst]; [reflexivity|].
  apply N.eqb_neq in E. intros [H|H]; [contradiction|]. rewrite IH by exact H. reflexivity.
Qed.

Lemma keys_upsert_new t a r : ~ In a (keys t) -> keys (upsert t a r) = keys t ++ [a].
Proof.
  unfold keys. induction t as [|[k r0] t IH]; cbn [upsert map fst In app]; [reflexivity|].
  intros H. destruct (k =? a) eqn:E.
  - apply N.eqb_eq in E. exfalso. apply H. left. exact E.
  - cbn [map fst]. rewrite IH; [reflexivity|]. tauto.
Qed.

Lemma nodup_snoc (l : list N) a : NoDup l -> ~ In a l -> NoDup (l ++ [a]).
Proof.
  induction l as [|x t IH]; cbn; intros H I.
  - constructor; [tauto | constructor].
  - inversion H as [|? ? Hx Ht]; subst. constructor.
    + rewrite in_app_iff. cbn. intros [J|[J|[]]]; [contradiction | subst; apply I; left; reflexivity].
    + apply IH; [exact Ht | tauto].
Qed.

Lemma nodup_upsert t a r : NoDup (keys t) -> NoDup (keys (upsert t a r)).
Proof.
  intros H. destruct (in_dec N.eq_dec a (keys t)) as [I|I].
  - rewrite keys_upsert_in by exact I. exact H.
  - rewrite keys_upsert_new by exact I.
    apply nodup_snoc; assumption.
Qed.

(** ---- update_aircraft ---- *)
Lemma update_aircraft_shape o now t d m df a t' :
  update_aircraft o now t d m df a = Ok t' -> exists r', t' = upsert t a r'.
Proof.
  unfold update_aircraft. intros H.
  destruct (lookup t a) as [r|].
  - destruct ((df <? 20) && negb (use_update o)); inv_res; eexists; reflexivity.
  - inv_res. eexists. reflexivity.
Qed.

Lemma update_aircraft_isolation o now t d m df a t' b :
  update_aircraft o now t d m df a = Ok t' -> b <> a -> lookup t' b = lookup t b.
Proof.
  intros H Hne. apply update_aircraft_shape in H. destruct H as [r' ->].
  apply lookup_upsert_other. congruence.
Qed.

Lemma update_aircraft_nodup o now t d m df a t' :
  update_aircraft o now t d m df a = Ok t' -> NoDup (keys t) -> NoDup (keys t').
Proof. intros H. apply update_aircraft_shape in H. destruct H as [r' ->]. apply nodup_upsert. Qed.

Lemma update_aircraft_present o now t d m df a t' :
  update_aircraft o now t d m df a = Ok t' -> exists r', lookup t' a = Some r'.
Proof. intros H. apply update_aircraft_shape in H. destruct H as [r' ->]. eexists. apply lookup_upsert_same. Qed.

(** ---- cleanup ---- *)
Lemma lookup_filter (p : N * row -> bool) t a :
  lookup (filter p t) a = None \/ lookup (filter p t) a = lookup t a \/
  (exists r, lookup t a = Some r /\ p (a, r) = false).
Proof.
  induction t as [|[k r] t IH]; cbn; [left; reflexivity|].
  destruct (p (k, r)) eqn:P; cbn; destruct (k =? a) eqn:E.
  - right. left. reflexivity.
  - exact IH.
  - apply N.eqb_eq in E. subst k. right. right. exists r. split; [reflexivity|exact P].
  - exact IH.
Qed.

Lemma nodup_filter (p : N * row -> bool) t : NoDup (keys t) -> NoDup (keys (filter p t)).
Proof.
  induction t as [|[k r] t IH]; cbn; intros H; [constructor|].
  inversion H as [|? ? Hk Ht]; subst.
  destruct (p (k, r)); cbn; [|apply IH; exact Ht].
  constructor; [|apply IH; exact Ht].
  intros I. apply Hk. unfold keys in *. rewrite in_map_iff in *.
  destruct I as [x [Hx Hi]]. exists x. split; [exact Hx|]. apply filter_In in Hi. tauto.
Qed.

Lemma cleanup_nodup t c now da : NoDup (keys t) -> NoDup (keys (fst (cleanup t c now da))).
Proof.
  unfold cleanup. intros H. destruct (10 <? cleanup_count c); cbn; [apply nodup_filter|]; exact H.
Qed.

(** a row that survives a sweep is unchanged; a row can only disappear *)
Lemma cleanup_lookup t c now da a r :
  lookup (fst (cleanup t c now da)) a = Some r -> NoDup (keys t) -> lookup t a = Some r.
Proof.
  unfold cleanup. destruct (10 <? cleanup_count c); cbn [fst]; [|tauto].
  intros H ND. revert H ND.
  induction t as [|[k r0] t IH]; cbn [filter lookup]; [discriminate|].
  intros H ND. unfold keys in ND. cbn [map fst] in ND. inversion ND as [|? ? Hk Ht]; subst.
  destruct (num_seconds now (timestamp r0) <? da)%Z; cbn [lookup] in *; destruct (k =? a) eqn:E;
    try (apply IH; assumption); try exact H.
  (* the head row has key a and was dropped: a cannot occur in the tail *)
  exfalso. apply N.eqb_eq in E. subst k.
  assert (In a (keys (filter (fun '(_, r1) => (num_seconds now (timestamp r1) <? da)%Z) t))) as I.
  { destruct (in_dec N.eq_dec a (keys (filter (fun '(_, r1) => (num_seconds now (timestamp r1) <? da)%Z) t))) as [I|I]; [exact I|].
    apply lookup_none_keys in I. rewrite I in H. discriminate. }
  apply Hk. unfold keys in I. rewrite in_map_iff in *. destruct I as [x [Hx Hi]]. exists x.
  apply filter_In in Hi. tauto.
Qed.

Lemma cleanup_subset t c now da a :
  In a (keys (fst (cleanup t c now da))) -> In a (keys t).
Proof.
  unfold cleanup, keys. destruct (10 <? cleanup_count c); cbn [fst]; [|tauto].
  rewrite !in_map_iff. intros [x [Hx Hi]]. exists x. apply filter_In in Hi. tauto.
Qed.

(** ---- classification of a line: depends on the options and the line only ---- *)
Definition classify (o : opts) (line : list N) : res line_outcome :=
  mo <- get_message line ;;
  match mo with
  | None => Ok Skipped
  | Some m =>
      dfo <- get_downlink_format m ;;
      match dfo with
      | None => Ok Skipped
      | Some df =>
          ao <- get_icao m df ;;
          match ao with
          | None => Ok Skipped
          | Some a =>
              if match filter_df o with
                 | Some only => forallb (fun x => negb (x =? df)) only
                 | None => false end
              then Ok Skipped else Ok (Applied df a)
          end
      end
  end.

Lemma step_line_classify o now s line s' rf oc :
  step_line o now s line = Ok (s', rf, oc) -> classify o line = Ok oc.
Proof.
  unfold step_line, classify. intros H.
  destruct (get_message line) as [[m|]|]; cbn [bind] in *; try discriminate; [|inv_res; reflexivity].
  destruct (get_downlink_format m) as [[df|]|]; cbn [bind] in *; try discriminate; [|inv_res; reflexivity].
  destruct (get_icao m df) as [[a|]|]; cbn [bind] in *; try discriminate; [|inv_res; reflexivity].
  destruct (match filter_df o with Some only => _ | None => false end); [inv_res; reflexivity|].
  destruct (df_from_message m) as [d|]; cbn [bind] in H; [|discriminate].
  match type of H with bind ?x _ = _ => destruct x as [[t c]|]; cbn [bind] in H; [|discriminate] end.
  inv_res. reflexivity.
Qed.

(** a line that is not applied leaves table AND counters exactly as they were, and prints nothing *)
Lemma step_line_skipped o now s line s' rf :
  step_line o now s line = Ok (s', rf, Skipped) -> s' = s /\ rf = false.
Proof.
  unfold step_line. intros H.
  destruct (get_message line) as [[m|]|]; cbn [bind] in *; try discriminate; [|inv_res; tauto].
  destruct (get_downlink_format m) as [[df|]|]; cbn [bind] in *; try discriminate; [|inv_res; tauto].
  destruct (get_icao m df) as [[a|]|]; cbn [bind] in *; try discriminate; [|inv_res; tauto].
  destruct (match filter_df o with Some only => _ | None => false end); [inv_res; tauto|].
  destruct (df_from_message m) as [d|]; cbn [bind] in H; [|discriminate].
  match type of H with bind ?x _ = _ => destruct x as [[t c]|]; cbn [bind] in H; [|discriminate] end.
  inversion H.
Qed.

(** an applied line touches only the row of its address (other rows are untouched or swept) *)
Lemma step_line_applied o now s line s' rf df a :
  step_line o now s line = Ok (s', rf, Applied df a) ->
  NoDup (keys (tbl s)) ->
  NoDup (keys (tbl s')) /\
  (forall b r, b <> a -> lookup (tbl s') b = Some r -> lookup (tbl s) b = Some r) /\
  (forall b, In b (keys (tbl s')) -> b = a \/ In b (keys (tbl s))).
Proof.
  unfold step_line. intros H ND.
  destruct (get_message line) as [[m|]|]; cbn [bind] in *; try discriminate.
  destruct (get_downlink_format m) as [[df'|]|]; cbn [bind] in *; try discriminate.
  destruct (get_icao m df') as [[a'|]|]; cbn [bind] in *; try discriminate.
  destruct (match filter_df o with Some only => _ | None => false end); try discriminate.
  destruct (df_from_message m) as [d|]; cbn [bind] in H; [|discriminate].
  destruct d as [d|].
  - destruct (update_aircraft o now (tbl s) d m df' a') as [t1|] eqn:U; cbn [bind] in H; [|discriminate].
    set (c0 := if count_df o then _ else cnt s) in H.
    destruct (cleanup t1 c0 now (delete_after o)) as [t2 c2] eqn:C. cbn [bind] in H.
    inversion H; subst; clear H. cbn [tbl].
    assert (t2 = fst (cleanup t1 c0 now (delete_after o))) as -> by (rewrite C; reflexivity).
    pose proof (update_aircraft_nodup _ _ _ _ _ _ _ _ U ND) as ND1.
    split; [apply cleanup_nodup; exact ND1|]. split.
    + intros b r Hb L. apply cleanup_lookup in L; [|exact ND1].
      rewrite (update_aircraft_isolation _ _ _ _ _ _ _ _ _ U Hb) in L. exact L.
    + intros b Hb. apply cleanup_subset in Hb.
      apply update_aircraft_shape in U. destruct U as [r' ->].
      destruct (N.eq_dec b a) as [->|Hne]; [left; reflexivity|right].
      destruct (in_dec N.eq_dec a (keys (tbl s))) as [I|I].
      * rewrite keys_upsert_in in Hb by exact I. exact Hb.
      * rewrite keys_upsert_new in Hb by exact I. apply in_app_or in Hb.
        destruct Hb as [Hb|[Hb|[]]]; [exact Hb | congruence].
  - cbn [bind] in H. inversion H; subst; clear H. cbn [tbl].
    split; [exact ND|]. split; [tauto|]. intros b Hb. right. exact Hb.
Qed.

Lemma step_nodup o now s l s' rf oc :
  step o now s l = Ok (s', rf, oc) -> NoDup (keys (tbl s)) -> NoDup (keys (tbl s')).
Proof.
  unfold step. destruct l as [line|]; [|intros H; inversion H; subst; tauto].
  intros H ND. destruct oc as [|df a].
  - apply step_line_skipped in H. destruct H as [-> _]. exact ND.
  - apply (step_line_applied _ _ _ _ _ _ _ _ H ND).
Qed.

(** every reachable table has one row per address *)
Theorem run_lines_nodup o now ls : forall s s',
  run_lines o now s ls = Ok s' -> NoDup (keys (tbl s)) -> NoDup (keys (tbl s')).
Proof.
  induction ls as [|l t IH]; cbn [run_lines]; intros s s' H ND; [inversion H; subst; exact ND|].
  destruct (step o now s l) as [[[s1 rf] oc]|] eqn:E; cbn [bind] in H; [|discriminate].
  eapply IH; [exact H|]. eapply step_nodup; eassumption.
Qed.

(** ---- the accepted-subsequence theorem (C13) ---- *)
Definition effective (o : opts) (l : option (list N)) : bool :=
  match l with
  | None => false
  | Some line => match classify o line with Ok (Applied _ _) => true | _ => false end
  end.

Lemma step_ineffective o now s l x :
  step o now s l = Ok x -> effective o l = false -> x = (s, false, Skipped).
Proof.
  unfold step, effective. destruct l as [line|]; [|intros H _; inversion H; reflexivity].
  destruct x as [[s' rf] oc]. intros H E.
  pose proof (step_line_classify _ _ _ _ _ _ _ H) as C. rewrite C in E.
  destruct oc; [|discriminate].
  apply step_line_skipped in H. destruct H as [-> ->]. reflexivity.
Qed.

Theorem run_lines_filter o now ls : forall s s',
  run_lines o now s ls = Ok s' -> run_lines o now s (filter (effective o) ls) = Ok s'.
Proof.
  induction ls as [|l t IH]; cbn [run_lines filter]; intros s s' H; [exact H|].
  destruct (step o now s l) as [x|] eqn:E; cbn [bind] in H; [|discriminate].
  destruct (effective o l) eqn:F.
  - cbn [run_lines]. rewrite E. cbn [bind]. destruct x as [[s1 rf] oc]. apply IH. exact H.
  - rewrite (step_ineffective _ _ _ _ _ E F) in H. apply IH. exact H.
Qed.

(** ---- DF counters (C16) ---- *)
Fixpoint cnt_get (c : list (N * Z)) (df : N) : Z :=
  match c with
  | [] => 0%Z
  | (k, v) :: t => if k =? df then v else cnt_get t df
  end.

Fixpoint ascending (c : list (N * Z)) : Prop :=
  match c with
  | [] => True
  | (k, v) :: t => (0 < v)%Z /\ (forall k' v', In (k', v') t -> k < k') /\ ascending t
  end.

Lemma cnt_get_absent c df : (forall k v, In (k, v) c -> df < k) -> cnt_get c df = 0%Z.
Proof.
  induction c as [|[k v] t IH]; cbn; [reflexivity|]. intros H.
  assert (df < k) as L by (apply (H k v); left; reflexivity).
  destruct (k =? df) eqn:E; [apply N.eqb_eq in E; lia|].
  apply IH. intros k' v' I. apply (H k' v'). right. exact I.
Qed.

Lemma bump_get c df d : ascending c ->
  cnt_get (bump c df) d = (cnt_get c d + (if (d =? df)%N then 1 else 0))%Z.
Proof.
  induction c as [|[k v] t IH]; cbn [bump cnt_get ascending].
  - intros _. rewrite N.eqb_sym. destruct (d =? df); reflexivity.
  - intros [Hv [Hk Ht]].
    destruct (N.eqb_spec k df) as [->|E].
    + cbn [cnt_get]. destruct (N.eqb_spec df d) as [->|F].
      * rewrite N.eqb_refl. reflexivity.
      * destruct (N.eqb_spec d df); [congruence|lia].
    + destruct (df <? k) eqn:L; cbn [cnt_get].
      * apply N.ltb_lt in L. destruct (N.eqb_spec df d) as [->|F].
        -- rewrite N.eqb_refl. destruct (N.eqb_spec k d); [congruence|].
           rewrite cnt_get_absent; [lia|]. intros k' v' I. specialize (Hk k' v' I). lia.
        -- destruct (N.eqb_spec d df); [congruence|]. lia.
      * destruct (N.eqb_spec k d) as [->|G].
        -- destruct (N.eqb_spec d df); [congruence|lia].
        -- apply IH. exact Ht.
Qed.

Lemma bump_ascending c df : ascending c -> ascending (bump c df).
Proof.
  induction c as [|[k v] t IH]; cbn [bump ascending].
  - intros _. split; [lia|]. split; [intros ? ? []|exact I].
  - intros [Hv [Hk Ht]]. destruct (k =? df) eqn:E; [|destruct (df <? k) eqn:L]; cbn [ascending].
    + repeat split; [lia | exact Hk | exact Ht].
    + apply N.ltb_lt in L. repeat split; try lia; try assumption.
      intros k' v' [I|I]; [inversion I; subst; exact L | specialize (Hk k' v' I); lia].
    + apply N.ltb_ge in L. apply N.eqb_neq in E. repeat split; [exact Hv | | apply IH; exact Ht].
      intros k' v' I.
      assert (k' = df \/ exists v'', In (k', v'') t) as D.
      { clear - I. induction t as [|[k0 v0] t IH]; cbn [bump] in I.
        - destruct I as [I|[]]. inversion I. left. reflexivity.
        - destruct (k0 =? df) eqn:E0; [|destruct (df <? k0)].
          + destruct I as [I|I]; [inversion I; subst; right; exists v0; left; apply N.eqb_eq in E0; subst; reflexivity
                                  | right; exists v'; right; exact I].
          + destruct I as [I|I]; [inversion I; left; reflexivity | right; exists v'; exact I].
          + destruct I as [I|I]; [inversion I; subst; right; exists v'; left; reflexivity|].
            destruct (IH I) as [D|[v'' D]]; [left; exact D | right; exists v''; right; exact D]. }
      destruct D as [->|[v'' D]]; [lia | apply (Hk k' v'' D)].
Qed.

Fixpoint count_applied (o : opts) (ls : list (option (list N))) (d : N) : Z :=
  match ls with
  | [] => 0%Z
  | l :: t =>
      ((match l with
        | Some line => match classify o line with
                       | Ok (Applied df _) => if (df =? d)%N then 1 else 0
                       | _ => 0 end
        | None => 0 end) + count_applied o t d)%Z
  end.

Lemma step_line_counts o now s line s' rf oc :
  step_line o now s line = Ok (s', rf, oc) ->
  df_count (cnt s') =
    match oc with
    | Applied df _ => if count_df o then bump (df_count (cnt s)) df else df_count (cnt s)
    | Skipped => df_count (cnt s)
    end.
Proof.
  intros H. destruct oc as [|df a].
  - apply step_line_skipped in H. destruct H as [-> _]. reflexivity.
  - unfold step_line in H.
    destruct (get_message line) as [[m|]|]; cbn [bind] in *; try discriminate.
    destruct (get_downlink_format m) as [[df'|]|]; cbn [bind] in *; try discriminate.
    destruct (get_icao m df') as [[a'|]|]; cbn [bind] in *; try discriminate.
    destruct (match filter_df o with Some only => _ | None => false end); try discriminate.
    destruct (df_from_message m) as [d|]; cbn [bind] in H; [|discriminate].
    destruct d as [d|].
    + destruct (update_aircraft o now (tbl s) d m df' a') as [t1|]; cbn [bind] in H; [|discriminate].
      unfold cleanup in H.
      destruct (10 <? cleanup_count _); cbn [bind] in H; inversion H; subst; cbn [cnt df_count];
        destruct (count_df o); destruct (_ && _)%bool; reflexivity.
    + cbn [bind] in H. inversion H; subst. cbn [cnt df_count].
      destruct (count_df o); destruct (_ && _)%bool; reflexivity.
Qed.

Theorem run_lines_counts o now ls : forall s s',
  run_lines o now s ls = Ok s' -> ascending (df_count (cnt s)) ->
  ascending (df_count (cnt s')) /\
  forall d, cnt_get (df_count (cnt s')) d =
            (cnt_get (df_count (cnt s)) d + (if count_df o then count_applied o ls d else 0))%Z.
Proof.
  induction ls as [|l t IH]; cbn [run_lines count_applied]; intros s s' H A.
  - inversion H; subst. split; [exact A|]. intros d. destruct (count_df o); lia.
  - destruct (step o now s l) as [[[s1 rf] oc]|] eqn:E; cbn [bind] in H; [|discriminate].
    destruct l as [line|]; cbn [step] in E.
    + pose proof (step_line_classify _ _ _ _ _ _ _ E) as C.
      pose proof (step_line_counts _ _ _ _ _ _ _ E) as K.
      assert (ascending (df_count (cnt s1))) as A1.
      { rewrite K. destruct oc; [exact A|]. destruct (count_df o); [apply bump_ascending|]; exact A. }
      destruct (IH _ _ H A1) as [A2 G]. split; [exact A2|].
      intros d. rewrite G, K, C. destruct oc as [|df a]; [destruct (count_df o); lia|].
      destruct (count_df o); [|lia]. rewrite bump_get by exact A. rewrite (N.eqb_sym d df). lia.
    + inversion E; subst. destruct (IH _ _ H A) as [A2 G]. split; [exact A2|].
      intros d. rewrite G. destruct (count_df o); lia.
Qed.

(** -f : a frame whose format is not listed is not applied *)
Lemma classify_filter o line df a only :
  classify o line = Ok (Applied df a) -> filter_df o = Some only -> In df only.
Proof.
  unfold classify. intros H F. rewrite F in H.
  destruct (get_message line) as [[m|]|]; cbn [bind] in *; try discriminate.
  destruct (get_downlink_format m) as [[df'|]|]; cbn [bind] in *; try discriminate.
  destruct (get_icao m df') as [[a'|]|]; cbn [bind] in *; try discriminate.
  destruct (forallb (fun x => negb (x =? df')) only) eqn:Fb; [discriminate|].
  inversion H; subst.
  destruct (in_dec N.eq_dec df only) as [I|I]; [exact I|exfalso].
  assert (forallb (fun x => negb (x =? df)) only = true) as T; [|congruence].
  apply forallb_forall. intros x Hx. apply negb_true_iff, N.eqb_neq. congruence.
Qed.

Lemma run_lines_all_ineffective o now : forall ls s s',
  (forall l, In l ls -> effective o l = false) -> run_lines o now s ls = Ok s' -> s' = s.
Proof.
  induction ls as [|l t IH]; cbn [run_lines]; intros s s' H R; [inversion R; reflexivity|].
  destruct (step o now s l) as [x|] eqn:E; cbn [bind] in R; [|discriminate].
  rewrite (step_ineffective _ _ _ _ _ E (H l (or_introl eq_refl))) in R.
  apply IH; [|exact R]. intros l' I. apply H. right. exact I.
Qed.
