(** The NL (number of longitude zones) table of adsb/position.rs against the DO-260B / Annex 10
    closed form.  For NL = k (2 <= k <= 59) the transition latitude is

      lat_k = (180/PI) * acos (sqrt ((1 - cos (PI/30)) / (1 - cos (2*PI/k))))

    Every entry (b, k) of the generated table [Tables.nl_table] is shown to be lat_k rounded to
    8 decimals: |lat_k - b| < 10^-8.  Interval has no acos, so each entry is bracketed through
    cos^2 (cos is decreasing on [0, 90] degrees) and the bracket is then turned into the acos
    statement by monotonicity ([nl_bracket_lat]).  The k = 2 entry is exactly 87 (and the closed
    form gives exactly 87 as well: [nl_lat_2]). *)
From Coq Require Import Reals QArith ZArith List Lia Lra Bool.
From Coq Require Import Qreals Sorted.
From Interval Require Import Tactic.
From SQ Require Import Tables.
Import ListNotations.
Local Open Scope R_scope.

(** ---- the closed form ---- *)
Definition nl_rhs : R := 1 - cos (PI / 30).
Definition nl_den (k : Z) : R := 1 - cos (2 * PI / IZR k).
(** cos^2 (b degrees) * (1 - cos (2 PI / k)) *)
Definition nl_lhs (b : R) (k : Z) : R := cos (b * PI / 180) ^ 2 * nl_den k.
(** the standard's transition latitude in degrees *)
Definition nl_lat (k : Z) : R := 180 / PI * acos (sqrt (nl_rhs / nl_den k)).

Definition nl_delta : R := 1 / 100000000.

Definition nl_bracket (b : R) (k : Z) (d : R) : Prop :=
  nl_lhs (b - d) k > nl_rhs /\ nl_rhs > nl_lhs (b + d) k.

(** half a unit of the 8th decimal: the entries are even correctly rounded to nearest *)
Definition nl_half : R := 1 / 200000000.

Definition nl_entry_ok_d (d : R) (e : Q * Z) : Prop :=
  let (b, k) := e in
  if (k =? 2)%Z then (b == 87)%Q /\ Qred b = (87 # 1)%Q /\ nl_lhs 87 2 = nl_rhs
  else nl_bracket (Q2R b) k d.
Definition nl_entry_ok : Q * Z -> Prop := nl_entry_ok_d nl_delta.

Ltac nl_entry :=
  cbv beta iota delta [nl_entry_ok nl_entry_ok_d nl_half Z.eqb Pos.eqb nl_bracket nl_lhs nl_rhs nl_den nl_delta Q2R Qnum Qden];
  split; interval with (i_prec 100).


(** ---- every entry of the generated table is the closed form rounded to 8 decimals ---- *)

(** the closed form for k = 2 is exactly 87 degrees: (1 - cos x)/2 = sin^2 (x/2), and
    sin (PI/60) = cos (PI/2 - PI/60) = cos (87 degrees) *)
Lemma nl_lhs_87_2 : nl_lhs 87 2 = nl_rhs.
Proof.
  unfold nl_lhs, nl_rhs, nl_den.
  replace (2 * PI / 2) with PI by field. rewrite cos_PI.
  replace (87 * PI / 180) with (PI / 2 - PI / 60) by field. rewrite cos_shift.
  replace (PI / 30) with (2 * (PI / 60)) by field. rewrite cos_2a_sin. ring.
Qed.

Theorem nl_table_ok : Forall nl_entry_ok nl_table.
Proof.
  unfold nl_table.
  repeat (apply Forall_cons; [nl_entry|]).
  apply Forall_cons; [|apply Forall_nil].
  cbv beta iota delta [nl_entry_ok nl_entry_ok_d Z.eqb Pos.eqb].
  split; [reflexivity | split; [reflexivity | exact nl_lhs_87_2]].
Qed.

(** the same with half the tolerance: each entry is the closed form rounded to nearest *)
Theorem nl_table_ok_half : Forall (nl_entry_ok_d nl_half) nl_table.
Proof.
  unfold nl_table.
  repeat (apply Forall_cons; [nl_entry|]).
  apply Forall_cons; [|apply Forall_nil].
  cbv beta iota delta [nl_entry_ok_d Z.eqb Pos.eqb].
  split; [reflexivity | split; [reflexivity | exact nl_lhs_87_2]].
Qed.

(** ---- from the cos^2 bracket to the acos closed form ---- *)

Lemma nl_rhs_nonneg : 0 <= nl_rhs.
Proof. unfold nl_rhs. pose proof (COS_bound (PI / 30)). lra. Qed.

Lemma nl_bracket_lat b k d :
  0 <= d -> 0 <= b - d -> b + d <= 90 -> nl_bracket b k d -> b - d < nl_lat k < b + d.
Proof.
  intros Hd0 Hlo Hhi [H1 H2]. unfold nl_lhs in H1, H2. unfold nl_lat.
  pose proof PI_RGT_0 as Hpi. pose proof nl_rhs_nonneg as Hr.
  set (lo := (b - d) * PI / 180) in *. set (hi := (b + d) * PI / 180) in *.
  assert (0 <= lo) as Hlo0 by (unfold lo; apply Rmult_le_pos; [apply Rmult_le_pos|]; lra).
  assert (hi <= PI / 2) as Hhi2.
  { unfold hi. replace (PI / 2) with (90 * PI / 180) by field.
    apply Rmult_le_compat_r; [lra|]. apply Rmult_le_compat_r; lra. }
  assert (lo <= hi) as Hlh.
  { unfold lo, hi. apply Rmult_le_compat_r; [lra|]. apply Rmult_le_compat_r; lra. }
  assert (0 <= cos lo) as Hclo by (apply cos_ge_0; lra).
  assert (0 <= cos hi) as Hchi by (apply cos_ge_0; lra).
  assert (0 < nl_den k) as Hden.
  { destruct (Rlt_le_dec 0 (nl_den k)) as [Hd|Hd]; [exact Hd|exfalso].
    assert (0 <= cos lo ^ 2) by (apply pow2_ge_0).
    assert (cos lo ^ 2 * nl_den k <= 0) by nra. lra. }
  set (q := nl_rhs / nl_den k).
  assert (0 <= q) as Hq by (unfold q; apply Rmult_le_pos; [lra | left; apply Rinv_0_lt_compat; exact Hden]).
  assert (q < cos lo ^ 2) as Hq1.
  { unfold q. apply Rmult_lt_reg_r with (nl_den k); [exact Hden|]. field_simplify; lra. }
  assert (cos hi ^ 2 < q) as Hq2.
  { unfold q. apply Rmult_lt_reg_r with (nl_den k); [exact Hden|]. field_simplify; lra. }
  assert (sqrt q < cos lo) as Hs1.
  { rewrite <- (sqrt_pow2 (cos lo)) by exact Hclo. apply sqrt_lt_1_alt. lra. }
  assert (cos hi < sqrt q) as Hs2.
  { rewrite <- (sqrt_pow2 (cos hi)) by exact Hchi. apply sqrt_lt_1_alt. split; [apply pow2_ge_0|lra]. }
  pose proof (COS_bound lo) as Hb.
  assert (-1 <= sqrt q <= 1) as Hx by lra.
  pose proof (acos_bound (sqrt q)) as Hab.
  pose proof (cos_acos (sqrt q) Hx) as Hca.
  assert (lo < acos (sqrt q)) as Ha1 by (apply cos_decreasing_0; lra).
  assert (acos (sqrt q) < hi) as Ha2 by (apply cos_decreasing_0; lra).
  assert (0 < 180 / PI) as Hf by (apply Rmult_lt_0_compat; [lra | apply Rinv_0_lt_compat; lra]).
  replace (b - d) with (180 / PI * lo) by (unfold lo; field; lra).
  replace (b + d) with (180 / PI * hi) by (unfold hi; field; lra).
  split; apply Rmult_lt_compat_l; assumption.
Qed.

(** k = 2: the closed form is exactly 87 degrees *)
Lemma nl_lat_2 : nl_lat 2 = 87.
Proof.
  unfold nl_lat. pose proof PI_RGT_0 as Hpi.
  assert (nl_den 2 = 2) as Hd.
  { unfold nl_den. replace (2 * PI / 2) with PI by field. rewrite cos_PI. ring. }
  assert (0 <= 87 * PI / 180 <= PI / 2) as Hr.
  { split; [apply Rmult_le_pos; [apply Rmult_le_pos|]; lra|].
    replace (PI / 2) with (90 * PI / 180) by field.
    apply Rmult_le_compat_r; [lra|]. apply Rmult_le_compat_r; lra. }
  assert (nl_rhs / nl_den 2 = cos (87 * PI / 180) ^ 2) as E.
  { rewrite <- nl_lhs_87_2. unfold nl_lhs. rewrite Hd. field. }
  rewrite E, sqrt_pow2 by (apply cos_ge_0; lra).
  rewrite acos_cos by lra. field. lra.
Qed.

(** all boundaries lie well inside [0, 90] degrees *)
Definition nl_bounds_chk : bool :=
  forallb (fun e : Q * Z => Qle_bool 1 (fst e) && Qle_bool (fst e) 89) nl_table.
Lemma nl_bounds_chk_ok : nl_bounds_chk = true.
Proof. vm_compute. reflexivity. Qed.

(** Main statement: every tabulated boundary is within half a unit of the 8th decimal of the
    standard's transition latitude for its NL value (i.e. it is that latitude rounded to 8
    decimals). *)
Theorem nl_table_lat_half b k :
  In (b, k) nl_table -> Rabs (nl_lat k - Q2R b) < nl_half.
Proof.
  intros Hin.
  pose proof nl_table_ok_half as Hok. rewrite Forall_forall in Hok. specialize (Hok _ Hin).
  pose proof nl_bounds_chk_ok as Hb. unfold nl_bounds_chk in Hb. rewrite forallb_forall in Hb.
  specialize (Hb _ Hin). cbn [fst] in Hb. apply andb_true_iff in Hb. destruct Hb as [Hb1 Hb2].
  apply Qle_bool_iff, Qle_Rle in Hb1. apply Qle_bool_iff, Qle_Rle in Hb2.
  replace (Q2R 1) with 1 in Hb1 by (unfold Q2R; cbn; field).
  replace (Q2R 89) with 89 in Hb2 by (unfold Q2R; cbn; field).
  assert (nl_half = 1 / 200000000) as Hd by reflexivity.
  cbn beta iota delta [nl_entry_ok_d] in Hok.
  destruct (k =? 2)%Z eqn:Ek.
  - apply Z.eqb_eq in Ek. subst k. destruct Hok as [Hq _].
    apply Qeq_eqR in Hq. rewrite Hq, nl_lat_2.
    replace (Q2R 87) with 87 by (unfold Q2R; cbn; field).
    replace (87 - 87) with 0 by ring. rewrite Rabs_R0. lra.
  - apply nl_bracket_lat in Hok; [|lra|lra|lra].
    apply Rabs_def1; lra.
Qed.

Theorem nl_table_lat b k :
  In (b, k) nl_table -> Rabs (nl_lat k - Q2R b) < nl_delta.
Proof.
  intros Hin. apply nl_table_lat_half in Hin. unfold nl_half in Hin. unfold nl_delta. lra.
Qed.

(** ---- well-formedness of the table ---- *)
Fixpoint q_increasing (l : list Q) : bool :=
  match l with
  | a :: (b :: _) as t => negb (Qle_bool b a) && q_increasing t
  | _ => true
  end.

Lemma q_increasing_sound l : q_increasing l = true -> StronglySorted Qlt l.
Proof.
  intros H. apply Sorted_StronglySorted; [exact Qlt_trans|].
  induction l as [|a [|b t] IH]; [constructor | repeat constructor |].
  cbn [q_increasing] in H. apply andb_true_iff in H. destruct H as [H1 H2].
  constructor; [apply IH; exact H2|]. constructor.
  apply Qnot_le_lt. intros Hle. apply Qle_bool_iff in Hle. rewrite Hle in H1. discriminate.
Qed.

Theorem nl_table_increasing : StronglySorted Qlt (map fst nl_table).
Proof. apply q_increasing_sound. vm_compute. reflexivity. Qed.

(** the values are exactly 59, 58, ..., 2 *)
Theorem nl_table_values : map snd nl_table = map Z.of_nat (rev (seq 2 58)).
Proof. vm_compute. reflexivity. Qed.

Theorem nl_table_length : length nl_table = 58%nat.
Proof. reflexivity. Qed.

Theorem nl_default_1 : nl_default = 1%Z.
Proof. reflexivity. Qed.

(** first and last boundaries *)
Theorem nl_table_last : last nl_table (0%Q, 0%Z) = ((8700000000 # 100000000)%Q, 2%Z) /\
                        (8700000000 # 100000000 == 87)%Q.
Proof. split; reflexivity. Qed.

Print Assumptions nl_table_ok.
Print Assumptions nl_table_lat_half.
Print Assumptions nl_table_increasing.
Print Assumptions nl_table_values.
