(** Comm-B (DF20/21 MB field) stage by stage: what each recognised register writes into the row,
    exactly, and that nothing else moves.

    - BDS 1,0 / 2,0 / 3,0 (identified by the MB header): own parameter only, exact value;
    - BDS 1,7 capability report: the latest report replaces the recorded one;
    - nothing recognised (in particular the all-zero register): the row is returned unchanged;
    - the weather fields only ever come from BDS 4,4 / 4,5;
    - the same statements for [plane_update] (behind the CA / relaxed gate) and for the reader step. *)
From Coq Require Import QArith Lia.
From SQ Require Import Base RangeSpec Bds Update Table Footprint TableProofs TotalPipeline.
From SQ Require Import Doc9871 BdsProof Ia5 IdentProof FrameProofs EndToEnd.
Local Open Scope N_scope.

Lemma ok_inj {A} (a b : A) : Ok a = Ok b -> a = b.
Proof. intros H. injection H. exact (fun E => E). Qed.

(** ================= 0. the register identified from the MB header ================= *)

(** [bds] only ever answers one of four pairs *)
Lemma bds_range m b : bds m = Ok b -> b = (0, 0) \/ b = (1, 0) \/ b = (2, 0) \/ b = (3, 0).
Proof.
  unfold bds. intros H.
  destruct (idx m 8) as [m8|]; cbn [bind] in H; [|discriminate H].
  destruct (idx m 9) as [m9|]; cbn [bind] in H; [|discriminate H].
  cbv zeta in H.
  destruct ((N.land m8 15 =? 1) && (N.land m9 15 =? 0)).
  { destruct (idx m 10) as [m10|]; cbn [bind] in H; [|discriminate H].
    destruct (idx m 11) as [m11|]; cbn [bind] in H; [|discriminate H].
    destruct ((N.land m10 7 =? 0) && (N.land m11 12 =? 0)); apply ok_inj in H; subst b; tauto. }
  destruct ((N.land m8 15 =? 2) && (N.land m9 15 =? 0)).
  { apply ok_inj in H; subst b; tauto. }
  destruct ((N.land m8 15 =? 3) && (N.land m9 15 =? 0)).
  { destruct (range_value m 48 54) as [[v|]|]; cbn [bind] in H; [| |discriminate H].
    - destruct (idx m 15) as [m15|]; cbn [bind] in H; [|discriminate H].
      destruct (negb (N.land m15 12 =? 12) && (v <? 48)); apply ok_inj in H; subst b; tauto.
    - apply ok_inj in H; subst b; tauto. }
  apply ok_inj in H; subst b; tauto.
Qed.

(** ================= 1. identified registers ================= *)

(** T1  BDS 2,0: the aircraft identification, and only it *)
Theorem commb_20 r m relaxed r' :
  bds m = Ok (2, 0) -> update_from_mode_s r m relaxed = Ok r' ->
  exists a, ais m = Ok a /\ r' = r <| r_ais := a |>.
Proof.
  intros HB H. unfold update_from_mode_s in H. rewrite HB in H. cbn [bind fst snd] in H.
  change ((2 =? 2) && (0 =? 0)) with true in H.
  change ((2 =? 3) && (0 =? 0)) with false in H.
  change ((2 =? 0) && (0 =? 0)) with false in H.
  destruct (ais m) as [a|] eqn:EA; cbn [bind andb] in H; [|discriminate H].
  apply ok_inj in H. exists a. split; [reflexivity | symmetry; exact H].
Qed.

(** T2  BDS 3,0: the threat marker, and only it; a report without a threat bit CLEARS it *)
Theorem commb_30 r m relaxed r' :
  bds m = Ok (3, 0) -> update_from_mode_s r m relaxed = Ok r' ->
  exists t, threat_encounter m = Ok t /\ r' = r <| threat := t |>.
Proof.
  intros HB H. unfold update_from_mode_s in H. rewrite HB in H. cbn [bind fst snd] in H.
  change ((3 =? 2) && (0 =? 0)) with false in H.
  change ((3 =? 3) && (0 =? 0)) with true in H.
  change ((3 =? 0) && (0 =? 0)) with false in H.
  cbn [bind] in H.
  destruct (threat_encounter m) as [t|] eqn:ET; cbn [bind andb] in H; [|discriminate H].
  apply ok_inj in H. exists t. split; [reflexivity | symmetry; exact H].
Qed.

Corollary commb_30_clears r m relaxed r' :
  bds m = Ok (3, 0) -> threat_encounter m = Ok None ->
  update_from_mode_s r m relaxed = Ok r' -> r' = r <| threat := None |>.
Proof.
  intros HB HT H. destruct (commb_30 r m relaxed r' HB H) as (t & ET & ->).
  rewrite HT in ET. apply ok_inj in ET. subst t. reflexivity.
Qed.

(** T3  BDS 1,0 (data link capability report): recognised, nothing is written *)
Theorem commb_10 r m relaxed r' :
  bds m = Ok (1, 0) -> update_from_mode_s r m relaxed = Ok r' -> r' = r.
Proof.
  intros HB H. unfold update_from_mode_s in H. rewrite HB in H. cbn [bind fst snd] in H.
  change ((1 =? 2) && (0 =? 0)) with false in H.
  change ((1 =? 3) && (0 =? 0)) with false in H.
  change ((1 =? 0) && (0 =? 0)) with false in H.
  cbn [bind andb] in H. apply ok_inj in H. symmetry. exact H.
Qed.

(** ================= 2. capability reports ================= *)

(** T4  BDS 1,7: the latest report replaces whatever was recorded; nothing else changes *)
Theorem commb_17_latest r m relaxed r' c :
  bds m = Ok (0, 0) -> is_bds_1_7 m = Ok (Some c) ->
  update_from_mode_s r m relaxed = Ok r' -> r' = r <| cap := c |>.
Proof.
  intros HB H17 H. unfold update_from_mode_s in H. rewrite HB in H. cbn [bind fst snd] in H.
  change ((0 =? 2) && (0 =? 0)) with false in H.
  change ((0 =? 3) && (0 =? 0)) with false in H.
  change ((0 =? 0) && (0 =? 0)) with true in H.
  cbn [bind] in H. rewrite H17 in H. cbn [bind andb] in H.
  apply ok_inj in H. symmetry. exact H.
Qed.

(** ================= 3. nothing recognised, nothing changed ================= *)

(** when the header is (0,0) and 1,7 / 4,0 / 5,0 / 6,0 / 4,4 each reject the frame or are gated
    off, the whole update is the BDS 4,5 stage *)
Lemma commb_tail r m relaxed :
  bds m = Ok (0, 0) -> is_bds_1_7 m = Ok None ->
  (relaxed || c40 (cap r) = false \/ is_bds_4_0 m = Ok None) ->
  (relaxed || c50 (cap r) = false \/ is_bds_5_0 m = Ok None) ->
  (relaxed || c60 (cap r) = false \/ is_bds_6_0 m = Ok None) ->
  is_bds_4_4 m = Ok None ->
  update_from_mode_s r m relaxed =
  (v <- is_bds_4_5 m ;; match v with Some t => Ok (r <| temperature := Some t |>) | None => Ok r end).
Proof.
  intros HB H17 H40 H50 H60 H44. unfold update_from_mode_s. rewrite HB. cbn [bind fst snd].
  change ((0 =? 2) && (0 =? 0)) with false.
  change ((0 =? 3) && (0 =? 0)) with false.
  change ((0 =? 0) && (0 =? 0)) with true.
  cbn [bind]. rewrite H17. cbn [bind andb].
  assert ((if relaxed || c40 (cap r)
           then v <- is_bds_4_0 m ;;
                match v with
                | Some v => Ok (r <| selected_altitude := oor (b40_mcp v) (b40_fms v) |>
                                  <| target_alt_source := tas_char (b40_src v) |>
                                  <| baro_setting := b40_baro v |>, false)
                | None => Ok (r, true) end
           else Ok (r, true)) = Ok (r, true)) as E40.
  { destruct H40 as [G|T]; [rewrite G; reflexivity|].
    destruct (relaxed || c40 (cap r)); [rewrite T|]; reflexivity. }
  rewrite E40. clear E40. cbn [bind andb].
  assert ((if relaxed || c50 (cap r)
           then v <- is_bds_5_0 m ;;
                match v with
                | Some v => Ok (r <| roll_angle := b50_roll v |> <| track := b50_track v |>
                                  <| track_angle_rate := b50_tar v |> <| grspeed := b50_gs v |>
                                  <| true_airspeed := b50_tas v |> <| bds50_t := Some (timestamp r) |>
                                  <| track_source := 8325 |> <| track_t := Some (timestamp r) |>, false)
                | None => Ok (r, true) end
           else Ok (r, true)) = Ok (r, true)) as E50.
  { destruct H50 as [G|T]; [rewrite G; reflexivity|].
    destruct (relaxed || c50 (cap r)); [rewrite T|]; reflexivity. }
  rewrite E50. clear E50. cbn [bind andb].
  match goal with
  | |- bind ?s _ = _ => assert (s = Ok (r, true)) as E60
  end.
  { destruct H60 as [G|T]; [rewrite G; reflexivity|].
    destruct (relaxed || c60 (cap r)); [rewrite T|]; reflexivity. }
  rewrite E60. clear E60. cbn [bind andb].
  rewrite H44. cbn [bind]. reflexivity.
Qed.

(** T5 *)
Theorem commb_none r m relaxed r' :
  bds m = Ok (0, 0) -> is_bds_1_7 m = Ok None ->
  (relaxed || c40 (cap r) = false \/ is_bds_4_0 m = Ok None) ->
  (relaxed || c50 (cap r) = false \/ is_bds_5_0 m = Ok None) ->
  (relaxed || c60 (cap r) = false \/ is_bds_6_0 m = Ok None) ->
  is_bds_4_4 m = Ok None -> is_bds_4_5 m = Ok None ->
  update_from_mode_s r m relaxed = Ok r' -> r' = r.
Proof.
  intros HB H17 H40 H50 H60 H44 H45 H.
  rewrite (commb_tail r m relaxed HB H17 H40 H50 H60 H44) in H. rewrite H45 in H. cbn [bind] in H.
  apply ok_inj in H. symmetry. exact H.
Qed.

(** ---------- the all-zero register ---------- *)

Lemma bits_value_all_zero m : forall n sb,
  (forall k, (sb <= k < sb + n)%nat -> bit_at m k = 0) -> bits_value m sb n 0 = 0.
Proof.
  induction n as [|n IH]; intros sb H; cbn [bits_value]; [reflexivity|].
  rewrite (H sb) by lia. change (2 * 0 + 0) with 0. apply IH. intros k Hk. apply H. lia.
Qed.

Section EmptyRegister.
Variable m : list N.
Hypothesis W : wf m.
Hypothesis L : List.length m = 28%nat.
Hypothesis HZ : field m 33 88 = 0.

Lemma zbit k : (33 <= k <= 88)%nat -> bit_at m k = 0.
Proof. intros Hk. exact (field_zero_bits m 33 88 HZ k Hk). Qed.

Lemma zfield sb eb : (33 <= sb)%nat -> (eb <= 88)%nat -> field m sb eb = 0.
Proof. intros H1 H2. unfold field. apply bits_value_all_zero. intros k Hk. apply zbit. lia. Qed.

Lemma nth8_zero : nth 8 m 0 = 0.
Proof.
  pose proof (bits_value_nb m 8 4 0 0 ltac:(lia)) as E.
  rewrite nb_full in E by (apply wf_nth; exact W).
  rewrite <- E. exact (zfield 33 36 ltac:(lia) ltac:(lia)).
Qed.

(** the header of an all-zero MB field is none of 1,0 / 2,0 / 3,0 *)
Lemma bds_zero : bds m = Ok (0, 0).
Proof.
  unfold bds. rewrite (idx_nth m 8), (idx_nth m 9) by (rewrite L; lia). cbn [bind].
  rewrite nth8_zero. reflexivity.
Qed.

(** every recogniser rejects it *)
Lemma is_bds_1_7_zero : is_bds_1_7 m = Ok None.
Proof.
  unfold is_bds_1_7. rewrite flag_and_range_value_spec by (try exact W; rewrite ?L; lia).
  cbn [bind]. rewrite (zbit 39) by lia. reflexivity.
Qed.

Lemma is_bds_4_0_zero : is_bds_4_0 m = Ok None.
Proof.
  apply is_bds_4_0_reject; [exact W | exact L |]. intros (S1 & _).
  rewrite (zbit 33) in S1 by lia. discriminate S1.
Qed.

Lemma is_bds_5_0_zero : is_bds_5_0 m = Ok None.
Proof.
  apply is_bds_5_0_reject; [exact W | exact L |]. intros (S1 & _).
  rewrite (zbit 33) in S1 by lia. discriminate S1.
Qed.

Lemma is_bds_6_0_zero : is_bds_6_0 m = Ok None.
Proof.
  apply is_bds_6_0_reject; [exact W | exact L |]. intros (S1 & _).
  rewrite (zbit 33) in S1 by lia. discriminate S1.
Qed.

Lemma is_bds_4_4_zero : is_bds_4_4 m = Ok None.
Proof.
  unfold is_bds_4_4. rewrite range_value_spec by (try exact W; rewrite ?L; lia).
  cbn [bind]. rewrite (zfield 33 36) by lia. reflexivity.
Qed.

Lemma is_bds_4_5_zero : is_bds_4_5 m = Ok None.
Proof.
  unfold is_bds_4_5. rewrite (goodflags_doc m W L 33 34 35) by lia.
  rewrite (zbit 33) by lia. reflexivity.
Qed.

(** T6  a reply whose MB field is empty leaves the row exactly as it was, whatever the
    capabilities recorded for the aircraft and whether or not -r is given *)
Theorem commb_empty r relaxed : update_from_mode_s r m relaxed = Ok r.
Proof.
  rewrite (commb_tail r m relaxed bds_zero is_bds_1_7_zero
             (or_intror is_bds_4_0_zero) (or_intror is_bds_5_0_zero) (or_intror is_bds_6_0_zero)
             is_bds_4_4_zero).
  rewrite is_bds_4_5_zero. reflexivity.
Qed.
End EmptyRegister.

(** ================= 4. weather fields ================= *)

Definition weather_changed (r r' : row) : Prop :=
  temperature r' <> temperature r \/ wind r' <> wind r \/ humidity r' <> humidity r \/
  turbulence r' <> turbulence r \/ pressure r' <> pressure r.

Lemma weather_kept S r r' : modifies S r r' ->
  memf F_temp S = false -> memf F_wind S = false -> memf F_hum S = false ->
  memf F_turb S = false -> memf F_pres S = false -> ~ weather_changed r r'.
Proof.
  intros M H1 H2 H3 H4 H5 [C|[C|[C|[C|C]]]]; apply C; symmetry.
  - exact (M F_temp H1).
  - exact (M F_wind H2).
  - exact (M F_hum H3).
  - exact (M F_turb H4).
  - exact (M F_pres H5).
Qed.

(** T7, exact form: a weather field moves only when the header is (0,0), the frame is not a
    capability report, and either BDS 4,4 recognises it (then the row is [upd44]) or 4,4 rejects
    it and BDS 4,5 recognises it (then only the temperature is written) *)
Theorem weather_only_from_44_45_exact r m relaxed r' :
  update_from_mode_s r m relaxed = Ok r' -> weather_changed r r' ->
  bds m = Ok (0, 0) /\ is_bds_1_7 m = Ok None /\
  ((exists v, is_bds_4_4 m = Ok (Some v) /\ r' = upd44 r v) \/
   (is_bds_4_4 m = Ok None /\ exists t, is_bds_4_5 m = Ok (Some t) /\ r' = r <| temperature := Some t |>)).
Proof.
  intros H C. pose proof (update_from_mode_s_outcome r m relaxed r' H) as O.
  destruct O as [b EB Zb M | c EB T E | v EB T G T4 E | v EB T N4 G T5 E | v EB T N4 N5 G T6 E
                | v EB T N4 N5 N6 T44 E | EB T N4 N5 N6 T44 M].
  - exfalso. revert C. apply (weather_kept _ _ _ M); reflexivity.
  - exfalso. subst r'. revert C. apply (weather_kept _ _ _ (upd17_fp r c)); reflexivity.
  - exfalso. subst r'. revert C. apply (weather_kept _ _ _ (upd40_fp r v)); reflexivity.
  - exfalso. subst r'. revert C. apply (weather_kept _ _ _ (upd50_fp r v)); reflexivity.
  - exfalso. subst r'. revert C. apply (weather_kept _ _ _ (upd60_fp r v)); reflexivity.
  - split; [exact EB|]. split; [exact T|]. left. exists v. split; assumption.
  - split; [exact EB|]. split; [exact T|]. right. split; [exact T44|].
    rewrite (commb_tail r m relaxed EB T N4 N5 N6 T44) in H.
    destruct (is_bds_4_5 m) as [[t|]|]; cbn [bind] in H; [| |discriminate H].
    + exists t. split; [reflexivity|]. apply ok_inj in H. symmetry. exact H.
    + exfalso. apply ok_inj in H. subst r'. revert C.
      apply (weather_kept [] _ _ (modifies_refl [] r)); reflexivity.
Qed.

(** T7 as asked (the bracketing that is true: the header condition holds in both cases) *)
Corollary weather_only_from_44_45 r m relaxed r' :
  update_from_mode_s r m relaxed = Ok r' ->
  (temperature r' <> temperature r \/ wind r' <> wind r \/ humidity r' <> humidity r \/
   turbulence r' <> turbulence r \/ pressure r' <> pressure r) ->
  bds m = Ok (0, 0) /\
  ((exists v, is_bds_4_4 m = Ok (Some v)) \/ (exists t, is_bds_4_5 m = Ok (Some t))).
Proof.
  intros H C.
  destruct (weather_only_from_44_45_exact r m relaxed r' H C) as (EB & _ & [(v & T & _) | (_ & t & T & _)]).
  - split; [exact EB|]. left. exists v. exact T.
  - split; [exact EB|]. right. exists t. exact T.
Qed.

(** wind, humidity, turbulence and pressure come from BDS 4,4 alone *)
Corollary wind_only_from_44 r m relaxed r' :
  update_from_mode_s r m relaxed = Ok r' ->
  (wind r' <> wind r \/ humidity r' <> humidity r \/ turbulence r' <> turbulence r \/
   pressure r' <> pressure r) ->
  bds m = Ok (0, 0) /\ exists v, is_bds_4_4 m = Ok (Some v) /\ r' = upd44 r v.
Proof.
  intros H C.
  assert (weather_changed r r') as C' by (unfold weather_changed; tauto).
  destruct (weather_only_from_44_45_exact r m relaxed r' H C') as (EB & _ & [(v & T & E) | (_ & t & _ & E)]).
  - split; [exact EB|]. exists v. split; assumption.
  - exfalso. subst r'. destruct C as [C|[C|[C|C]]]; apply C; reflexivity.
Qed.

(** ================= 5. Plane::update and the reader step ================= *)

(** DF20/21 through [plane_update] with the gate open: the broadcast part (altitude for DF20,
    identity code for DF21) runs first and never writes CA, so the gate is decided by the CA of
    the row as it was; then the Comm-B decoder runs on the resulting row *)
Lemma plane_update_commb obs now r m df relaxed r' :
  plane_update obs now r m df relaxed = Ok r' -> df = 20 \/ df = 21 ->
  relaxed = true \/ 3 < cap_ca r ->
  exists r1,
    update_from_bcast (r <| timestamp := now |> <| last_df := df |>) m df = Ok r1 /\
    modifies [F_timestamp; F_last_df; F_altitude; F_altitude_source; F_squawk] r r1 /\
    update_from_mode_s r1 m relaxed = Ok r'.
Proof.
  unfold plane_update. intros H D G.
  match type of H with bind ?x _ = _ => destruct x as [r1|] eqn:E1; cbn [bind] in H; [|discriminate H] end.
  pose proof (update_from_bcast_fp _ _ _ _ E1) as M1.
  assert (cap_ca r1 = cap_ca r) as CC.
  { symmetry. apply (M1 F_cap_ca). destruct D; subst df; reflexivity. }
  assert ((df =? 17) || (df =? 18) = false) as X by (destruct D; subst df; reflexivity).
  rewrite X in H. cbn [bind] in H.
  assert (relaxed || (3 <? cap_ca r1) = true) as GG.
  { rewrite CC. destruct G as [->|G]; [reflexivity|].
    apply N.ltb_lt in G. rewrite G. apply orb_true_r. }
  assert ((df =? 20) || (df =? 21) = true) as Y by (destruct D; subst df; reflexivity).
  rewrite GG, Y in H. cbn [andb] in H.
  exists r1. split; [reflexivity|]. split; [|exact H].
  eapply modifies_trans with (b := r <| timestamp := now |> <| last_df := df |>); [mod_one|].
  eapply modifies_weaken; [|exact M1]. destruct D; subst df; reflexivity.
Qed.

(** T1 lifted: a BDS 2,0 reply sets the identification to the decoded one; apart from it only the
    time stamp, the DF and the altitude (DF20) / identity code (DF21) of the reply move *)
Theorem plane_commb_20 obs now r m df relaxed r' :
  plane_update obs now r m df relaxed = Ok r' -> df = 20 \/ df = 21 ->
  relaxed = true \/ 3 < cap_ca r -> bds m = Ok (2, 0) ->
  exists a, ais m = Ok a /\ r_ais r' = a /\
    modifies [F_timestamp; F_last_df; F_altitude; F_altitude_source; F_squawk; F_ais] r r'.
Proof.
  intros H D G HB. destruct (plane_update_commb _ _ _ _ _ _ _ H D G) as (r1 & _ & M1 & U).
  destruct (commb_20 r1 m relaxed r' HB U) as (a & EA & ->).
  exists a. split; [exact EA|]. split; [reflexivity|].
  eapply modifies_trans; [eapply modifies_weaken; [|exact M1]; reflexivity | mod_one].
Qed.

(** T2 lifted *)
Theorem plane_commb_30 obs now r m df relaxed r' :
  plane_update obs now r m df relaxed = Ok r' -> df = 20 \/ df = 21 ->
  relaxed = true \/ 3 < cap_ca r -> bds m = Ok (3, 0) ->
  exists t, threat_encounter m = Ok t /\ threat r' = t /\
    modifies [F_timestamp; F_last_df; F_altitude; F_altitude_source; F_squawk; F_threat] r r'.
Proof.
  intros H D G HB. destruct (plane_update_commb _ _ _ _ _ _ _ H D G) as (r1 & _ & M1 & U).
  destruct (commb_30 r1 m relaxed r' HB U) as (t & ET & ->).
  exists t. split; [exact ET|]. split; [reflexivity|].
  eapply modifies_trans; [eapply modifies_weaken; [|exact M1]; reflexivity | mod_one].
Qed.

(** T3 lifted: a data link capability report moves nothing beyond the reply's own surveillance part *)
Theorem plane_commb_10 obs now r m df relaxed r' :
  plane_update obs now r m df relaxed = Ok r' -> df = 20 \/ df = 21 ->
  relaxed = true \/ 3 < cap_ca r -> bds m = Ok (1, 0) ->
  modifies [F_timestamp; F_last_df; F_altitude; F_altitude_source; F_squawk] r r'.
Proof.
  intros H D G HB. destruct (plane_update_commb _ _ _ _ _ _ _ H D G) as (r1 & _ & M1 & U).
  rewrite (commb_10 r1 m relaxed r' HB U). exact M1.
Qed.

(** T4 lifted *)
Theorem plane_commb_17 obs now r m df relaxed r' c :
  plane_update obs now r m df relaxed = Ok r' -> df = 20 \/ df = 21 ->
  relaxed = true \/ 3 < cap_ca r -> bds m = Ok (0, 0) -> is_bds_1_7 m = Ok (Some c) ->
  cap r' = c /\
  modifies [F_timestamp; F_last_df; F_altitude; F_altitude_source; F_squawk; F_cap] r r'.
Proof.
  intros H D G HB H17. destruct (plane_update_commb _ _ _ _ _ _ _ H D G) as (r1 & _ & M1 & U).
  rewrite (commb_17_latest r1 m relaxed r' c HB H17 U). split; [reflexivity|].
  eapply modifies_trans; [eapply modifies_weaken; [|exact M1]; reflexivity | mod_one].
Qed.

(** T6 lifted: an empty MB field *)
Theorem plane_commb_empty obs now r m df relaxed r' :
  plane_update obs now r m df relaxed = Ok r' -> df = 20 \/ df = 21 ->
  wf m -> List.length m = 28%nat -> field m 33 88 = 0 ->
  modifies [F_timestamp; F_last_df; F_altitude; F_altitude_source; F_squawk] r r'.
Proof.
  intros H D W L HZ.
  destruct relaxed eqn:R.
  - destruct (plane_update_commb _ _ _ _ _ _ _ H D (or_introl eq_refl)) as (r1 & _ & M1 & U).
    rewrite (commb_empty m W L HZ r1 true) in U. apply ok_inj in U. subst r'. exact M1.
  - destruct (N.lt_ge_cases 3 (cap_ca r)) as [G|G].
    + destruct (plane_update_commb _ _ _ _ _ _ _ H D (or_intror G)) as (r1 & _ & M1 & U).
      rewrite (commb_empty m W L HZ r1 false) in U. apply ok_inj in U. subst r'. exact M1.
    + exact (gate_closed_fp obs now r m df r' H G D).
Qed.

(** ---------- the reader step ---------- *)

(** DF20/21 on an existing row always take the squitter path *)
Lemma commb_step o now s line s' rf df a r m :
  step_line o now s line = Ok (s', rf, Applied df a) ->
  lookup (tbl s) a = Some r -> (0 < delete_after o)%Z -> get_message line = Ok (Some m) ->
  df = 20 \/ df = 21 ->
  wf m /\ List.length m = 28%nat /\
  exists r', lookup (tbl s') a = Some r' /\
    plane_update (observer o) now r m df (relaxed o) = Ok r'.
Proof.
  intros H L D G C.
  destruct (existing_row_core _ _ _ _ _ _ _ _ _ _ H L D G) as (F & GD & GI & d & r' & DM & L' & RS).
  destruct (frame_long m df F GD ltac:(destruct C; subst df; lia)) as [W L28].
  split; [exact W|]. split; [exact L28|]. exists r'. split; [exact L'|].
  destruct RS as [[B _]|[_ PU]]; [|exact PU].
  exfalso. destruct C; subst df; discriminate B.
Qed.

(** T8  every accepted DF20/21 reply carrying BDS 2,0, for an aircraft in the table whose gate is
    open (-r, or announced CA > 3), leaves the row with the callsign of the specification *)
Theorem callsign_commb_end_to_end o now s line s' rf df a r m :
  step_line o now s line = Ok (s', rf, Applied df a) -> df = 20 \/ df = 21 ->
  lookup (tbl s) a = Some r -> (0 < delete_after o)%Z -> get_message line = Ok (Some m) ->
  relaxed o = true \/ 3 < cap_ca r -> bds m = Ok (2, 0) ->
  exists r', lookup (tbl s') a = Some r' /\ r_ais r' = Some (ais_spec m).
Proof.
  intros H C L D G GT HB.
  destruct (commb_step _ _ _ _ _ _ _ _ _ _ H L D G C) as (W & L28 & r' & L' & PU).
  exists r'. split; [exact L'|].
  destruct (plane_commb_20 _ _ _ _ _ _ _ PU C GT HB) as (x & EA & E & _).
  rewrite (ais_correct m W ltac:(lia)) in EA. apply ok_inj in EA. congruence.
Qed.

(** the threat marker, read in the standard's bit numbering *)
Definition threat_spec (m : list N) : option N :=
  if bit_at m 60 =? 1 then Some 8306 else if bit_at m 41 =? 1 then Some 8305 else None.

Lemma threat_encounter_spec m : (15 <= List.length m)%nat -> threat_encounter m = Ok (threat_spec m).
Proof.
  intros L. unfold threat_encounter. rewrite (idx_nth m 14), (idx_nth m 10) by lia. cbn [bind].
  unfold threat_spec.
  change (bit_at m 60) with (N.land (nth 14 m 0) 1).
  change (bit_at m 41) with (N.land (N.shiftr (nth 10 m 0) 3) 1).
  destruct (N.land (nth 14 m 0) 1 =? 1); [reflexivity|].
  destruct (N.land (N.shiftr (nth 10 m 0) 3) 1 =? 1); reflexivity.
Qed.

(** T2 at the reader: an ACAS resolution advisory report sets the marker from bits 60 / 41 and a
    report with neither bit set clears a marker shown before *)
Theorem threat_commb_end_to_end o now s line s' rf df a r m :
  step_line o now s line = Ok (s', rf, Applied df a) -> df = 20 \/ df = 21 ->
  lookup (tbl s) a = Some r -> (0 < delete_after o)%Z -> get_message line = Ok (Some m) ->
  relaxed o = true \/ 3 < cap_ca r -> bds m = Ok (3, 0) ->
  exists r', lookup (tbl s') a = Some r' /\ threat r' = threat_spec m.
Proof.
  intros H C L D G GT HB.
  destruct (commb_step _ _ _ _ _ _ _ _ _ _ H L D G C) as (W & L28 & r' & L' & PU).
  exists r'. split; [exact L'|].
  destruct (plane_commb_30 _ _ _ _ _ _ _ PU C GT HB) as (x & ET & E & _).
  rewrite (threat_encounter_spec m ltac:(lia)) in ET. apply ok_inj in ET. congruence.
Qed.

(** T4 at the reader: the capability report of the latest accepted reply is the one recorded *)
Theorem capability_commb_end_to_end o now s line s' rf df a r m c :
  step_line o now s line = Ok (s', rf, Applied df a) -> df = 20 \/ df = 21 ->
  lookup (tbl s) a = Some r -> (0 < delete_after o)%Z -> get_message line = Ok (Some m) ->
  relaxed o = true \/ 3 < cap_ca r -> bds m = Ok (0, 0) -> is_bds_1_7 m = Ok (Some c) ->
  exists r', lookup (tbl s') a = Some r' /\ cap r' = c.
Proof.
  intros H C L D G GT HB H17.
  destruct (commb_step _ _ _ _ _ _ _ _ _ _ H L D G C) as (W & L28 & r' & L' & PU).
  exists r'. split; [exact L'|].
  exact (proj1 (plane_commb_17 _ _ _ _ _ _ _ _ PU C GT HB H17)).
Qed.

(** T6 at the reader: a reply with an empty MB field changes, of the displayed parameters, only
    the reply's own altitude / identity code *)
Theorem empty_commb_end_to_end o now s line s' rf df a r m :
  step_line o now s line = Ok (s', rf, Applied df a) -> df = 20 \/ df = 21 ->
  lookup (tbl s) a = Some r -> (0 < delete_after o)%Z -> get_message line = Ok (Some m) ->
  field m 33 88 = 0 ->
  exists r', lookup (tbl s') a = Some r' /\
    modifies [F_timestamp; F_last_df; F_altitude; F_altitude_source; F_squawk] r r'.
Proof.
  intros H C L D G HZ.
  destruct (commb_step _ _ _ _ _ _ _ _ _ _ H L D G C) as (W & L28 & r' & L' & PU).
  exists r'. split; [exact L'|].
  exact (plane_commb_empty _ _ _ _ _ _ _ PU C W L28 HZ).
Qed.

(** ---------- the hypotheses are satisfiable ---------- *)
(** DF20, MB = 20 2C C3 71 C3 2C E0 : BDS 2,0, "KLM1023 " *)
Definition sample20 : list N := [10;0;0;0;0;8;3;14;2;0;2;12;12;3;7;1;12;3;2;12;14;0;5;7;6;0;9;8].
(** DF20, MB = 30 00 00 00 00 00 00 : BDS 3,0 with no threat bit *)
Definition sample30 : list N := [10;0;0;0;0;8;3;14;3;0;0;0;0;0;0;0;0;0;0;0;0;0;5;7;6;0;9;8].

Example sample20_header : bds sample20 = Ok (2, 0) /\
  ais sample20 = Ok (Some [75;76;77;49;48;50;51]).
Proof. vm_compute. split; reflexivity. Qed.

Example sample30_clears :
  bds sample30 = Ok (3, 0) /\ threat_encounter sample30 = Ok None /\
  update_from_mode_s (row_new 0%Z <| threat := Some 8306 |>) sample30 false = Ok (row_new 0%Z).
Proof. vm_compute. repeat split; reflexivity. Qed.

Print Assumptions commb_20.
Print Assumptions commb_30.
Print Assumptions commb_30_clears.
Print Assumptions commb_10.
Print Assumptions commb_17_latest.
Print Assumptions commb_none.
Print Assumptions commb_empty.
Print Assumptions weather_only_from_44_45_exact.
Print Assumptions weather_only_from_44_45.
Print Assumptions wind_only_from_44.
Print Assumptions plane_commb_20.
Print Assumptions plane_commb_30.
Print Assumptions plane_commb_10.
Print Assumptions plane_commb_17.
Print Assumptions plane_commb_empty.
Print Assumptions callsign_commb_end_to_end.
Print Assumptions threat_commb_end_to_end.
Print Assumptions capability_commb_end_to_end.
Print Assumptions empty_commb_end_to_end.
