(** C17: the regenerated prefix table against the frozen Annex 10 block list, for all 2^24 addresses. *)
From SQ Require Import Base Tables Row Annex10 Update Footprint.
Local Open Scope N_scope.

(** specification lookup: the block containing the address *)
Fixpoint block_of (bs : list (N * N * string)) (a : N) : option string :=
  match bs with
  | [] => None
  | (first, size, code) :: t => if (first <=? a) && (a <? first + size) then Some code else block_of t a
  end.
Definition country_spec (a : N) : string :=
  match block_of annex_blocks a with Some c => c | None => "??"%string end.

(** ---- both sides only look at the top 14 bits ---- *)
Definition round10 (a : N) : N := N.shiftl (N.shiftr a 10) 10.

Lemma shiftr_round10 a sh : 10 <= sh -> N.shiftr (round10 a) sh = N.shiftr a sh.
Proof.
  intros H. unfold round10. apply N.bits_inj. intros i.
  rewrite !N.shiftr_spec by apply N.le_0_l.
  rewrite N.shiftl_spec_high by (try apply N.le_0_l; lia).
  rewrite N.shiftr_spec by apply N.le_0_l. f_equal. lia.
Qed.

Definition shifts_ge10 (arms : list (N * N * string)) : bool :=
  forallb (fun '(sh, _, _) => 10 <=? sh) arms.

Lemma country_go_round arms a : shifts_ge10 arms = true -> country_go arms (round10 a) = country_go arms a.
Proof.
  induction arms as [|[[sh pat] code] t IH]; cbn [country_go shifts_ge10 forallb]; [reflexivity|].
  intros H. apply andb_prop in H. destruct H as [H1 H2]. apply N.leb_le in H1.
  rewrite shiftr_round10 by exact H1. destruct (N.shiftr a sh =? pat); [reflexivity|]. apply IH. exact H2.
Qed.

Definition aligned (bs : list (N * N * string)) : bool :=
  forallb (fun '(first, size, _) => (first mod 1024 =? 0) && (size mod 1024 =? 0)) bs.

Lemma round10_div a : round10 a = 1024 * (a / 1024).
Proof. unfold round10. rewrite N.shiftl_mul_pow2, N.shiftr_div_pow2. change (2 ^ 10) with 1024. lia. Qed.

Lemma block_of_round bs a : aligned bs = true -> block_of bs (round10 a) = block_of bs a.
Proof.
  induction bs as [|[[first size] code] t IH]; cbn [block_of aligned forallb]; [reflexivity|].
  intros H. apply andb_prop in H. destruct H as [H1 H2]. apply andb_prop in H1. destruct H1 as [Hf Hs].
  apply N.eqb_eq in Hf. apply N.eqb_eq in Hs.
  rewrite IH by exact H2.
  assert (((first <=? round10 a) && (round10 a <? first + size)) = ((first <=? a) && (a <? first + size))) as E.
  { rewrite round10_div.
    assert (1024 <> 0) as NZ by discriminate.
    pose proof (N.div_mod a 1024 NZ) as Da. pose proof (N.mod_lt a 1024 NZ) as Ma.
    pose proof (N.div_mod first 1024 NZ) as Df. pose proof (N.div_mod size 1024 NZ) as Ds.
    rewrite Hf in Df. rewrite Hs in Ds.
    set (qa := a / 1024) in *. set (qf := first / 1024) in *. set (qs := size / 1024) in *.
    set (ra := a mod 1024) in *.
    destruct (first <=? 1024 * qa) eqn:A1; destruct (first <=? a) eqn:A2;
    destruct (1024 * qa <? first + size) eqn:B1; destruct (a <? first + size) eqn:B2; try reflexivity;
    repeat match goal with
    | H : (_ <=? _) = true |- _ => apply N.leb_le in H
    | H : (_ <=? _) = false |- _ => apply N.leb_gt in H
    | H : (_ <? _) = true |- _ => apply N.ltb_lt in H
    | H : (_ <? _) = false |- _ => apply N.ltb_ge in H
    end; exfalso; lia. }
  rewrite E. reflexivity.
Qed.

(** ---- the finite part: all 2^14 prefixes ---- *)
Fixpoint all_below (n : nat) (P : N -> bool) : bool :=
  match n with O => true | S k => P (N.of_nat k) && all_below k P end.
Lemma all_below_sound n P : all_below n P = true -> forall c, c < N.of_nat n -> P c = true.
Proof.
  induction n as [|k IH]; cbn [all_below]; intros H c Hc; [lia|].
  apply andb_prop in H. destruct H as [H1 H2].
  destruct (N.eq_dec c (N.of_nat k)) as [->|Hne]; [exact H1|]. apply IH; [exact H2|lia].
Qed.

Definition prefix_ok (p : N) : bool :=
  String.eqb (icao_to_country (N.shiftl p 10)) (country_spec (N.shiftl p 10)).

Lemma arms_shifts_ok : shifts_ge10 country_arms = true.
Proof. vm_compute. reflexivity. Qed.
Lemma blocks_aligned : aligned annex_blocks = true.
Proof. vm_compute. reflexivity. Qed.
Lemma prefix_sweep : all_below (Z.to_nat 16384) prefix_ok = true.
Proof. vm_cast_no_check (eq_refl true). Qed.

Theorem country_correct a : a < 16777216 -> icao_to_country a = country_spec a.
Proof.
  intros H. unfold icao_to_country, country_spec.
  rewrite <- (country_go_round country_arms a arms_shifts_ok).
  rewrite <- (block_of_round annex_blocks a blocks_aligned).
  unfold round10.
  assert (N.shiftr a 10 < 16384) as B.
  { rewrite N.shiftr_div_pow2. apply N.div_lt_upper_bound; [discriminate|]. exact H. }
  pose proof (all_below_sound (Z.to_nat 16384) prefix_ok prefix_sweep (N.shiftr a 10)) as S.
  assert (N.of_nat (Z.to_nat 16384) = 16384) as E by reflexivity. rewrite E in S. specialize (S B).
  unfold prefix_ok, icao_to_country, country_spec in S. apply String.eqb_eq in S. exact S.
Qed.

(** no address belongs to two blocks *)
Definition disjoint2 (x y : N * N * string) : bool :=
  let '(f1, s1, _) := x in let '(f2, s2, _) := y in (f1 + s1 <=? f2) || (f2 + s2 <=? f1).
Fixpoint pairwise (l : list (N * N * string)) : bool :=
  match l with [] => true | x :: t => forallb (disjoint2 x) t && pairwise t end.
Lemma blocks_pairwise : pairwise annex_blocks = true.
Proof. vm_compute. reflexivity. Qed.

Definition in_block (a : N) (b : N * N * string) : Prop := fst (fst b) <= a < fst (fst b) + snd (fst b).

Lemma pairwise_sound l : pairwise l = true ->
  forall a b1 b2, In b1 l -> In b2 l -> in_block a b1 -> in_block a b2 -> b1 = b2.
Proof.
  induction l as [|x t IH]; cbn [pairwise]; intros H a b1 b2 I1 I2 A1 A2; [destruct I1|].
  apply andb_prop in H. destruct H as [H1 H2]. rewrite forallb_forall in H1.
  assert (forall y, In y t -> in_block a x -> in_block a y -> False) as X.
  { intros y Iy Ax Ay. specialize (H1 y Iy). unfold disjoint2, in_block in *.
    destruct x as [[f1 s1] c1], y as [[f2 s2] c2]. cbn [fst snd] in *.
    apply orb_prop in H1. destruct H1 as [H1|H1]; apply N.leb_le in H1; lia. }
  destruct I1 as [<-|I1], I2 as [<-|I2]; [reflexivity | exfalso; eauto | exfalso; eauto | eapply IH; eassumption].
Qed.

Theorem blocks_disjoint a b1 b2 :
  In b1 annex_blocks -> In b2 annex_blocks -> in_block a b1 -> in_block a b2 -> b1 = b2.
Proof. apply pairwise_sound. exact blocks_pairwise. Qed.

(** the country code stored in a new row *)
Lemma row_reg obs now d a : reg (row_from_downlink obs now d a) = icao_to_country a.
Proof.
  unfold row_from_downlink.
  pose proof (Footprint.update_from_downlink_fp obs now (row_new now <| icao := a |> <| reg := icao_to_country a |>) d Footprint.F_reg) as H.
  cbn [Footprint.same] in H. rewrite <- H; [reflexivity|].
  unfold Footprint.fp_downlink. rewrite Footprint.memf_app. cbn [Footprint.memf orb].
  destruct (Footprint.fld_eq_dec Footprint.F_reg Footprint.F_timestamp); [discriminate|].
  destruct (Footprint.fld_eq_dec Footprint.F_reg Footprint.F_last_df); [discriminate|].
  destruct d as [s|e|df ic].
  - unfold Footprint.fp_srt. destruct (s_df s) as [[|p]|]; try reflexivity.
    repeat (destruct p as [p|p|]; try reflexivity).
  - unfold Footprint.fp_ext_dl, Footprint.fp_ext19. cbn [Footprint.memf].
    destruct (Footprint.fld_eq_dec Footprint.F_reg Footprint.F_last_tc); [discriminate|].
    repeat match goal with |- context [if ?c then _ else _] => destruct c end; reflexivity.
  - reflexivity.
Qed.
