(** Generic lemmas: indexing, well-formed nibbles, finite sweeps over nibbles. *)
From SQ Require Export Decode.
Local Open Scope N_scope.

Lemma idx_nth m i : (i < List.length m)%nat -> idx m i = Ok (nth i m 0).
Proof.
  intros H. unfold idx.
  destruct (nth_error m i) eqn:E.
  - f_equal. symmetry. apply nth_error_nth with (d := 0) in E. exact E.
  - apply nth_error_None in E. lia.
Qed.

Lemma wf_nth m i : wf m -> nth i m 0 < 16.
Proof.
  intros H. destruct (Nat.lt_ge_cases i (List.length m)) as [Hi | Hi].
  - unfold wf in H. rewrite Forall_forall in H. apply H. apply nth_In. exact Hi.
  - rewrite nth_overflow by exact Hi. reflexivity.
Qed.

Lemma wfb_wf m : wfb m = true <-> wf m.
Proof.
  unfold wfb, wf. rewrite forallb_forall, Forall_forall.
  split; intros H x Hx; specialize (H x Hx); [apply N.ltb_lt | apply N.ltb_lt]; exact H.
Qed.

(** ---- finite sweeps ---- *)
Definition nibs : list N := [0;1;2;3;4;5;6;7;8;9;10;11;12;13;14;15].

Lemma in_nibs a : a < 16 -> In a nibs.
Proof.
  intros H. unfold nibs.
  assert (a = 0 \/ a = 1 \/ a = 2 \/ a = 3 \/ a = 4 \/ a = 5 \/ a = 6 \/ a = 7 \/ a = 8 \/
          a = 9 \/ a = 10 \/ a = 11 \/ a = 12 \/ a = 13 \/ a = 14 \/ a = 15) as D by lia.
  simpl. intuition.
Qed.

Definition all1 (P : N -> bool) : bool := forallb P nibs.
Definition all2 (P : N -> N -> bool) : bool := forallb (fun a => all1 (P a)) nibs.
Definition all3 (P : N -> N -> N -> bool) : bool := forallb (fun a => all2 (P a)) nibs.
Definition all4 (P : N -> N -> N -> N -> bool) : bool := forallb (fun a => all3 (P a)) nibs.

Lemma all1_sound P : all1 P = true -> forall a, a < 16 -> P a = true.
Proof. unfold all1. rewrite forallb_forall. intros H a Ha. apply H, in_nibs, Ha. Qed.
Lemma all2_sound P : all2 P = true -> forall a b, a < 16 -> b < 16 -> P a b = true.
Proof.
  unfold all2. rewrite forallb_forall. intros H a b Ha Hb.
  apply (all1_sound (P a)); [apply H, in_nibs, Ha | exact Hb].
Qed.
Lemma all3_sound P : all3 P = true -> forall a b c, a < 16 -> b < 16 -> c < 16 -> P a b c = true.
Proof.
  unfold all3. rewrite forallb_forall. intros H a b c Ha Hb Hc.
  apply (all2_sound (P a)); [apply H, in_nibs, Ha | exact Hb | exact Hc].
Qed.
Lemma all4_sound P : all4 P = true ->
  forall a b c d, a < 16 -> b < 16 -> c < 16 -> d < 16 -> P a b c d = true.
Proof.
  unfold all4. rewrite forallb_forall. intros H a b c d Ha Hb Hc Hd.
  apply (all3_sound (P a)); [apply H, in_nibs, Ha | exact Hb | exact Hc | exact Hd].
Qed.

(** The standard's view of a frame: bit k (1 = first transmitted = most significant). *)
Definition bit_at (m : list N) (k : nat) : N :=
  N.land (N.shiftr (nth (Nat.div (k - 1) 4) m 0) (N.of_nat (3 - Nat.modulo (k - 1) 4))) 1.

(** value of bits sb..eb, most significant first *)
Fixpoint bits_value (m : list N) (sb : nat) (n : nat) (acc : N) : N :=
  match n with
  | O => acc
  | S n' => bits_value m (S sb) n' (2 * acc + bit_at m sb)
  end.
Definition field (m : list N) (sb eb : nat) : N := bits_value m sb (S eb - sb) 0.

Ltac res_simpl := cbn [bind ret].
