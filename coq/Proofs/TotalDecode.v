(** Totality (absence of [Panic]) of every field decoder on a well-formed frame of the
    length with which it is reachable.  Property: "no input line can crash the decoder",
    part 1: Frame.v, Decode.v, Velocity.v, Cpr.v, Bds.v. *)
From SQ Require Import Base RangeSpec Tables.
From SQ Require Import Bds.
Local Open Scope N_scope.

(** ---------- the generic engine ---------- *)

(** one read of the frame: rewrite it to its [Ok] value; every side condition is linear
    arithmetic over [List.length m], closed by the length hypothesis in the context *)
Ltac tot_read W :=
  match goal with
  | |- context [idx ?m ?i] => rewrite (idx_nth m i) by lia
  | |- context [status_flag_and_range_value ?m ?s ?f ?a ?b] =>
      rewrite (status_flag_and_range_value_spec m s f a b W) by lia
  | |- context [flag_and_range_value ?m ?f ?a ?b] =>
      rewrite (flag_and_range_value_spec m f a b W) by lia
  | |- context [range_value ?m ?a ?b] =>
      rewrite (range_value_spec m a b W) by lia
  end; cbn [bind].

Ltac tot_reads W := repeat tot_read W.

(** close a goal whose left-hand side is a tree of [if]/[match] over [Ok] leaves *)
Ltac tot_fin :=
  cbv zeta; cbn [bind];
  repeat first
    [ match goal with |- exists v, Ok _ = Ok v => eexists; reflexivity end
    | match goal with
      | |- context [match ?c with _ => _ end] => destruct c eqn:?; cbn [bind]
      end ].

Ltac tot W := tot_reads W; tot_fin.

(** use the totality lemma of a callee *)
Ltac callee lem :=
  let v := fresh "v" in let E := fresh "E" in
  destruct lem as [v E]; rewrite E; clear E; cbn [bind].

(** ---------- Frame.v ---------- *)

Lemma get_downlink_format_eq m : wf m -> (2 <= List.length m)%nat ->
  get_downlink_format m = Ok (Some (field m 1 5)).
Proof. intros W L. unfold get_downlink_format. apply range_value_spec; (assumption || lia). Qed.

Lemma get_downlink_format_total m : wf m -> (2 <= List.length m)%nat ->
  exists v, get_downlink_format m = Ok v.
Proof. intros W L. rewrite get_downlink_format_eq by assumption. eauto. Qed.

Lemma crc56_ge m : wf m -> (8 <= List.length m)%nat -> exists v, crc56 m = Ok v.
Proof. intros W L. unfold crc56. tot_reads W. cbn [expect bind]. eauto. Qed.

Lemma crc56_total_14 m : wf m -> List.length m = 14%nat -> exists v, crc56 m = Ok v.
Proof. intros W L. apply crc56_ge; [assumption | lia]. Qed.
Lemma crc56_total m : wf m -> List.length m = 28%nat -> exists v, crc56 m = Ok v.
Proof. intros W L. apply crc56_ge; [assumption | lia]. Qed.

Lemma crc112_ge m : wf m -> (22 <= List.length m)%nat -> exists v, crc112 m = Ok v.
Proof.
  intros W L. unfold crc112. tot_reads W. cbn [expect omap bind].
  destruct (iter 88 crc112_step _) as [[d d1] d2]. eauto.
Qed.

Lemma crc112_total m : wf m -> List.length m = 28%nat -> exists v, crc112 m = Ok v.
Proof. intros W L. apply crc112_ge; [assumption | lia]. Qed.

Lemma get_crc_total m df : wf m -> List.length m = 28%nat -> exists v, get_crc m df = Ok v.
Proof.
  intros W L. unfold get_crc. destruct (df <=? 15); [apply crc56_total | apply crc112_total]; assumption.
Qed.

Lemma get_crc_total_14 m df : wf m -> List.length m = 14%nat -> df <= 15 -> exists v, get_crc m df = Ok v.
Proof.
  intros W L D. unfold get_crc. apply N.leb_le in D. rewrite D. apply crc56_total_14; assumption.
Qed.

Lemma reminder_total_14 m : wf m -> List.length m = 14%nat -> exists v, reminder m = Ok v.
Proof.
  intros W L. unfold reminder. rewrite L. cbv beta iota.
  callee (crc56_total_14 m W L). tot_reads W. cbn [expect bind]. eauto.
Qed.

Lemma reminder_total m : wf m -> List.length m = 28%nat -> exists v, reminder m = Ok v.
Proof.
  intros W L. unfold reminder. rewrite L. cbv beta iota.
  callee (crc112_total m W L). tot_reads W. cbn [expect bind]. eauto.
Qed.

Lemma get_icao_total m df : wf m -> List.length m = 28%nat -> exists v, get_icao m df = Ok v.
Proof.
  intros W L. unfold get_icao. destruct (ap_format df).
  - rewrite L. change (28 * 4)%nat with 112%nat. cbv zeta.
    change (Nat.ltb 112 23) with false. cbv iota.
    tot_reads W. callee (get_crc_total m df W L). eauto.
  - tot W.
Qed.

Lemma get_icao_total_14 m df : wf m -> List.length m = 14%nat -> df <= 15 ->
  exists v, get_icao m df = Ok v.
Proof.
  intros W L D. unfold get_icao. destruct (ap_format df).
  - rewrite L. change (14 * 4)%nat with 56%nat. cbv zeta.
    change (Nat.ltb 56 23) with false. cbv iota.
    tot_reads W. callee (get_crc_total_14 m df W L D). eauto.
  - tot W.
Qed.

Lemma get_message_type_total m : wf m -> List.length m = 28%nat -> exists v, get_message_type m = Ok v.
Proof. intros W L. unfold get_message_type. tot W. Qed.

Lemma get_capability_ge m : (2 <= List.length m)%nat -> exists v, get_capability m = Ok v.
Proof. intros L. unfold get_capability. rewrite idx_nth by lia. cbn [bind]. eauto. Qed.
Lemma get_capability_total m : wf m -> List.length m = 28%nat -> exists v, get_capability m = Ok v.
Proof. intros _ L. apply get_capability_ge. lia. Qed.
Lemma get_capability_total_14 m : wf m -> List.length m = 14%nat -> exists v, get_capability m = Ok v.
Proof. intros _ L. apply get_capability_ge. lia. Qed.

(** ---------- Decode.v ---------- *)

Lemma ma_code_ge m : (8 <= List.length m)%nat -> exists c, ma_code m = Ok (Some c).
Proof.
  intros L. unfold ma_code, ma_bits. cbn [ma_go].
  repeat (rewrite idx_nth by lia; cbn [bind]). eauto.
Qed.
Lemma ma_code_total m : wf m -> List.length m = 28%nat -> exists v, ma_code m = Ok v.
Proof. intros _ L. destruct (ma_code_ge m) as [c E]; [lia | eauto]. Qed.
Lemma ma_code_total_14 m : wf m -> List.length m = 14%nat -> exists v, ma_code m = Ok v.
Proof. intros _ L. destruct (ma_code_ge m) as [c E]; [lia | eauto]. Qed.

Lemma me_code_total m : wf m -> List.length m = 28%nat -> exists v, me_code m = Ok v.
Proof. intros W L. unfold me_code. tot W. Qed.

Lemma graytobin_ge m : (8 <= List.length m)%nat -> exists v, graytobin m = Ok v.
Proof.
  intros L. unfold graytobin. destruct (ma_code_ge m L) as [c E]. rewrite E. cbn [bind]. eauto.
Qed.
Lemma graytobin_total m : wf m -> List.length m = 28%nat -> exists v, graytobin m = Ok v.
Proof. intros _ L. apply graytobin_ge. lia. Qed.
Lemma graytobin_total_14 m : wf m -> List.length m = 14%nat -> exists v, graytobin m = Ok v.
Proof. intros _ L. apply graytobin_ge. lia. Qed.

Lemma altitude_value_ge m code : (8 <= List.length m)%nat -> exists v, altitude_value m code = Ok v.
Proof.
  intros L. unfold altitude_value. destruct code as [code|]; [|eauto].
  destruct (N.land code 2 =? 0); [|eauto].
  destruct (N.land code 1 =? 0).
  - destruct (N.shiftr code 2 =? 0); [eauto|].
    destruct (graytobin_ge m L) as [[h l] E]. rewrite E. cbn [bind]. cbv zeta.
    destruct (1200 <=? _); eauto.
  - cbv zeta. destruct (1000 <=? _); eauto.
Qed.

(** short and long frames, any DF other than 17: the 13-bit AC field of the first 8 nibbles *)
Lemma altitude_ma_ge m df : (8 <= List.length m)%nat -> (df =? 17) = false ->
  exists v, altitude m df = Ok v.
Proof.
  intros L D. unfold altitude. rewrite D.
  destruct (ma_code_ge m L) as [c E]. rewrite E. cbn [bind].
  callee (altitude_value_ge m (Some c) L). eauto.
Qed.

Lemma altitude_total m df : wf m -> List.length m = 28%nat -> exists v, altitude m df = Ok v.
Proof.
  intros W L. destruct (df =? 17) eqn:D.
  - unfold altitude. rewrite D. callee (me_code_total m W L).
    callee (altitude_value_ge m v ltac:(lia)). eauto.
  - apply altitude_ma_ge; [lia | exact D].
Qed.

Lemma altitude_total_14 m df : wf m -> List.length m = 14%nat -> df <> 17 ->
  exists v, altitude m df = Ok v.
Proof.
  intros _ L D. apply altitude_ma_ge; [lia | apply N.eqb_neq; exact D].
Qed.

Lemma squawk_ge m : (8 <= List.length m)%nat -> exists v, squawk m = Ok v.
Proof.
  intros L. unfold squawk. destruct (ma_code_ge m L) as [c E]. rewrite E. cbn [bind]. eauto.
Qed.
Lemma squawk_total m : wf m -> List.length m = 28%nat -> exists v, squawk m = Ok v.
Proof. intros _ L. apply squawk_ge. lia. Qed.
Lemma squawk_total_14 m : wf m -> List.length m = 14%nat -> exists v, squawk m = Ok v.
Proof. intros _ L. apply squawk_ge. lia. Qed.

Lemma ais_total m : wf m -> List.length m = 28%nat -> exists v, ais m = Ok v.
Proof. intros W L. unfold ais. tot_reads W. eauto. Qed.

Lemma threat_encounter_total m : wf m -> List.length m = 28%nat -> exists v, threat_encounter m = Ok v.
Proof. intros W L. unfold threat_encounter. tot W. Qed.

Lemma surveillance_status_total m : wf m -> List.length m = 28%nat ->
  exists v, surveillance_status m = Ok v.
Proof. intros W L. unfold surveillance_status. tot_reads W. eauto. Qed.

Lemma version_total m : wf m -> List.length m = 28%nat -> exists v, version m = Ok v.
Proof. intros W L. unfold version. tot W. Qed.

(** the one checked subtraction: [value - 1] after the filter has removed [value = 0] *)
Lemma vertical_rate_total m : wf m -> List.length m = 28%nat -> exists v, vertical_rate m = Ok v.
Proof.
  intros W L. unfold vertical_rate. tot_reads W. cbn [ofilter].
  destruct (field m 70 78 =? 0) eqn:Z; cbn [negb]; [eauto|].
  apply N.eqb_neq in Z. unfold u32_sub.
  assert (H : (1 <=? field m 70 78) = true) by (apply N.leb_le; lia).
  rewrite H. cbn [bind]. eauto.
Qed.

Lemma altitude_delta_total m : wf m -> List.length m = 28%nat -> exists v, altitude_delta m = Ok v.
Proof. intros W L. unfold altitude_delta. tot_reads W. eauto. Qed.

Lemma altitude_gnss_total m : wf m -> List.length m = 28%nat -> exists v, altitude_gnss m = Ok v.
Proof. intros W L. unfold altitude_gnss. tot W. Qed.

Lemma ground_movement_total m : wf m -> List.length m = 28%nat -> exists v, ground_movement m = Ok v.
Proof. intros W L. unfold ground_movement. tot_reads W. eauto. Qed.

Lemma ground_track_total m : wf m -> List.length m = 28%nat -> exists v, ground_track m = Ok v.
Proof. intros W L. unfold ground_track. tot_reads W. eauto. Qed.

Lemma heading_total m : wf m -> List.length m = 28%nat -> exists v, heading m = Ok v.
Proof. intros W L. unfold heading. tot W. Qed.

(** ---------- Velocity.v, Cpr.v ---------- *)

Lemma track_and_groundspeed_total m ss : wf m -> List.length m = 28%nat ->
  exists v, track_and_groundspeed m ss = Ok v.
Proof.
  intros W L. unfold track_and_groundspeed. tot_reads W. cbn [ofilter].
  destruct (negb (field m 47 56 =? 0)); [|eauto].
  destruct (negb (field m 58 67 =? 0)); eauto.
Qed.

Lemma cpr_total m : wf m -> List.length m = 28%nat -> exists v, cpr m = Ok v.
Proof. intros W L. unfold cpr. tot_reads W. eauto. Qed.

(** ---------- Bds.v ---------- *)

Lemma bds_total m : wf m -> List.length m = 28%nat -> exists v, bds m = Ok v.
Proof. intros W L. unfold bds. tot W. Qed.

Lemma goodflags_total m f a b : wf m -> List.length m = 28%nat ->
  (f <= 112)%nat -> (1 <= a)%nat -> (a <= b)%nat -> (b <= 112)%nat -> (b - a < 32)%nat ->
  exists v, goodflags m f a b = Ok v.
Proof. intros W L ? ? ? ? ?. unfold goodflags. tot_reads W. eauto. Qed.

(** every [goodflags] call in the goal, with literal bit positions *)
Ltac goodflags_all W L :=
  repeat match goal with
  | |- context [goodflags ?m ?f ?a ?b] =>
      let v := fresh "g" in let E := fresh "E" in
      destruct (goodflags_total m f a b W L) as [v E]; [lia | lia | lia | lia | lia |];
      rewrite E; clear E
  end.

Ltac simple_decoder W := intros W ?; tot_reads W; eauto.

Lemma is_bds_1_7_total m : wf m -> List.length m = 28%nat -> exists v, is_bds_1_7 m = Ok v.
Proof. intros W L. unfold is_bds_1_7. tot_reads W. destruct (_ || _); [eauto|]. tot_reads W. eauto. Qed.

Lemma mcp_selected_altitude_total m : wf m -> List.length m = 28%nat -> exists v, mcp_selected_altitude m = Ok v.
Proof. unfold mcp_selected_altitude. simple_decoder W. Qed.
Lemma fms_selected_altitude_total m : wf m -> List.length m = 28%nat -> exists v, fms_selected_altitude m = Ok v.
Proof. unfold fms_selected_altitude. simple_decoder W. Qed.
Lemma barometric_pressure_setting_total m : wf m -> List.length m = 28%nat -> exists v, barometric_pressure_setting m = Ok v.
Proof. unfold barometric_pressure_setting. simple_decoder W. Qed.
Lemma target_altitude_source_total m : wf m -> List.length m = 28%nat -> exists v, target_altitude_source m = Ok v.
Proof. unfold target_altitude_source. simple_decoder W. Qed.

Lemma roll_angle_5_0_total m : wf m -> List.length m = 28%nat -> exists v, roll_angle_5_0 m = Ok v.
Proof. unfold roll_angle_5_0. simple_decoder W. Qed.
Lemma track_angle_5_0_total m : wf m -> List.length m = 28%nat -> exists v, track_angle_5_0 m = Ok v.
Proof. unfold track_angle_5_0. simple_decoder W. Qed.
Lemma track_angle_rate_5_0_total m : wf m -> List.length m = 28%nat -> exists v, track_angle_rate_5_0 m = Ok v.
Proof. unfold track_angle_rate_5_0. simple_decoder W. Qed.
Lemma ground_speed_5_0_total m : wf m -> List.length m = 28%nat -> exists v, ground_speed_5_0 m = Ok v.
Proof. unfold ground_speed_5_0. simple_decoder W. Qed.
Lemma true_airspeed_5_0_total m : wf m -> List.length m = 28%nat -> exists v, true_airspeed_5_0 m = Ok v.
Proof. unfold true_airspeed_5_0. simple_decoder W. Qed.

Lemma magnetic_heading_6_0_total m : wf m -> List.length m = 28%nat -> exists v, magnetic_heading_6_0 m = Ok v.
Proof. unfold magnetic_heading_6_0. simple_decoder W. Qed.
Lemma indicated_airspeed_6_0_total m : wf m -> List.length m = 28%nat -> exists v, indicated_airspeed_6_0 m = Ok v.
Proof. unfold indicated_airspeed_6_0. simple_decoder W. Qed.
Lemma mach_number_6_0_total m : wf m -> List.length m = 28%nat -> exists v, mach_number_6_0 m = Ok v.
Proof. unfold mach_number_6_0. simple_decoder W. Qed.
Lemma barometric_altitude_rate_6_0_total m : wf m -> List.length m = 28%nat -> exists v, barometric_altitude_rate_6_0 m = Ok v.
Proof. unfold barometric_altitude_rate_6_0. simple_decoder W. Qed.
Lemma internal_vertical_velocity_6_0_total m : wf m -> List.length m = 28%nat -> exists v, internal_vertical_velocity_6_0 m = Ok v.
Proof. unfold internal_vertical_velocity_6_0. simple_decoder W. Qed.

Lemma temperature_4_4_total m : wf m -> List.length m = 28%nat -> exists v, temperature_4_4 m = Ok v.
Proof. unfold temperature_4_4. simple_decoder W. Qed.
Lemma wind_speed_total m : wf m -> List.length m = 28%nat -> exists v, wind_speed m = Ok v.
Proof. unfold wind_speed. simple_decoder W. Qed.
Lemma wind_direction_total m : wf m -> List.length m = 28%nat -> exists v, wind_direction m = Ok v.
Proof. unfold wind_direction. simple_decoder W. Qed.
Lemma wind_4_4_total m : wf m -> List.length m = 28%nat -> exists v, wind_4_4 m = Ok v.
Proof.
  intros W L. unfold wind_4_4. callee (wind_speed_total m W L).
  destruct v; [|eauto]. callee (wind_direction_total m W L). eauto.
Qed.
Lemma turbulence_4_4_total m : wf m -> List.length m = 28%nat -> exists v, turbulence_4_4 m = Ok v.
Proof. unfold turbulence_4_4. simple_decoder W. Qed.
Lemma humidity_4_4_total m : wf m -> List.length m = 28%nat -> exists v, humidity_4_4 m = Ok v.
Proof. unfold humidity_4_4. simple_decoder W. Qed.
Lemma pressure_4_4_total m : wf m -> List.length m = 28%nat -> exists v, pressure_4_4 m = Ok v.
Proof. unfold pressure_4_4. simple_decoder W. Qed.
Lemma temperature_4_5_total m : wf m -> List.length m = 28%nat -> exists v, temperature_4_5 m = Ok v.
Proof. unfold temperature_4_5. simple_decoder W. Qed.

(** the short-circuit chains [orelse]/[andalso]/[rnot]: every operand is an [Ok] boolean *)
Lemma is_bds_4_0_total m : wf m -> List.length m = 28%nat -> exists v, is_bds_4_0 m = Ok v.
Proof.
  intros W L. unfold is_bds_4_0.
  callee (mcp_selected_altitude_total m W L). callee (fms_selected_altitude_total m W L).
  callee (barometric_pressure_setting_total m W L). callee (target_altitude_source_total m W L).
  goodflags_all W L. unfold orelse, andalso, rnot. cbn [b40_mcp b40_fms]. tot_fin.
Qed.

Lemma is_bds_5_0_total m : wf m -> List.length m = 28%nat -> exists v, is_bds_5_0 m = Ok v.
Proof.
  intros W L. unfold is_bds_5_0.
  callee (roll_angle_5_0_total m W L). callee (track_angle_5_0_total m W L).
  callee (track_angle_rate_5_0_total m W L). callee (ground_speed_5_0_total m W L).
  callee (true_airspeed_5_0_total m W L).
  goodflags_all W L. unfold orelse, andalso, rnot. cbn [b50_gs b50_tas b50_roll b50_track b50_tar]. tot_fin.
Qed.

Lemma is_bds_6_0_total m : wf m -> List.length m = 28%nat -> exists v, is_bds_6_0 m = Ok v.
Proof.
  intros W L. unfold is_bds_6_0.
  callee (magnetic_heading_6_0_total m W L). callee (indicated_airspeed_6_0_total m W L).
  callee (mach_number_6_0_total m W L). callee (barometric_altitude_rate_6_0_total m W L).
  callee (internal_vertical_velocity_6_0_total m W L).
  goodflags_all W L. unfold orelse, andalso, rnot. tot_fin.
Qed.

Lemma is_bds_4_4_total m : wf m -> List.length m = 28%nat -> exists v, is_bds_4_4 m = Ok v.
Proof.
  intros W L. unfold is_bds_4_4. tot_reads W.
  callee (temperature_4_4_total m W L). callee (wind_4_4_total m W L).
  callee (humidity_4_4_total m W L). callee (turbulence_4_4_total m W L).
  callee (pressure_4_4_total m W L).
  goodflags_all W L. unfold orelse, andalso, rnot. cbn [me_temp me_hum me_turb me_pres]. tot_fin.
Qed.

Lemma is_bds_4_5_total m : wf m -> List.length m = 28%nat -> exists v, is_bds_4_5 m = Ok v.
Proof.
  intros W L. unfold is_bds_4_5.
  callee (temperature_4_5_total m W L).
  goodflags_all W L. unfold orelse, andalso, rnot. tot_fin.
Qed.
