(** Footprints: which fields of a row an update may change.  [modifies S r r'] says that
    every field outside S has the same value in r' as in r.  Footprints are proved once per
    update function, compositionally; "no cross-talk" statements for all parameters follow. *)
From SQ Require Import Base Update.
Local Open Scope N_scope.

Inductive fld :=
| F_icao | F_cap_ca | F_cap | F_category | F_reg | F_ais | F_altitude | F_altitude_gnss
| F_altitude_source | F_selected_altitude | F_baro | F_tas_src | F_squawk | F_surv | F_threat
| F_vrate | F_vrate_source | F_cpr_lat0 | F_cpr_lat1 | F_cpr_lon0 | F_cpr_lon1 | F_cpr_t0 | F_cpr_t1
| F_cpr_s0 | F_cpr_s1 | F_lat | F_lon | F_dist | F_grspeed | F_tas | F_ias | F_mach | F_gm | F_turn
| F_track | F_track_source | F_heading | F_heading_source | F_roll | F_tar | F_b5t | F_temp | F_wind
| F_turb | F_hum | F_pres | F_timestamp | F_pos_t | F_track_t | F_heading_t | F_last_tc | F_last_df
| F_version.

Definition fld_eq_dec (a b : fld) : {a = b} + {a <> b}.
Proof. decide equality. Defined.

(** equality of one field between two rows *)
Definition same (f : fld) (a b : row) : Prop :=
  match f with
  | F_icao => icao a = icao b | F_cap_ca => cap_ca a = cap_ca b | F_cap => cap a = cap b
  | F_category => category a = category b | F_reg => reg a = reg b | F_ais => r_ais a = r_ais b
  | F_altitude => r_altitude a = r_altitude b | F_altitude_gnss => altitude_gnss_ a = altitude_gnss_ b
  | F_altitude_source => altitude_source a = altitude_source b
  | F_selected_altitude => selected_altitude a = selected_altitude b
  | F_baro => baro_setting a = baro_setting b | F_tas_src => target_alt_source a = target_alt_source b
  | F_squawk => r_squawk a = r_squawk b | F_surv => surv_status a = surv_status b
  | F_threat => threat a = threat b | F_vrate => vrate a = vrate b
  | F_vrate_source => vrate_source a = vrate_source b
  | F_cpr_lat0 => cpr_lat0 a = cpr_lat0 b | F_cpr_lat1 => cpr_lat1 a = cpr_lat1 b
  | F_cpr_lon0 => cpr_lon0 a = cpr_lon0 b | F_cpr_lon1 => cpr_lon1 a = cpr_lon1 b
  | F_cpr_t0 => cpr_t0 a = cpr_t0 b | F_cpr_t1 => cpr_t1 a = cpr_t1 b
  | F_cpr_s0 => cpr_s0 a = cpr_s0 b | F_cpr_s1 => cpr_s1 a = cpr_s1 b
  | F_lat => lat a = lat b | F_lon => lon a = lon b | F_dist => dist a = dist b
  | F_grspeed => grspeed a = grspeed b | F_tas => true_airspeed a = true_airspeed b
  | F_ias => indicated_airspeed a = indicated_airspeed b | F_mach => mach a = mach b
  | F_gm => ground_mov a = ground_mov b | F_turn => turn a = turn b | F_track => track a = track b
  | F_track_source => track_source a = track_source b | F_heading => r_heading a = r_heading b
  | F_heading_source => heading_source a = heading_source b | F_roll => roll_angle a = roll_angle b
  | F_tar => track_angle_rate a = track_angle_rate b | F_b5t => bds50_t a = bds50_t b
  | F_temp => temperature a = temperature b | F_wind => wind a = wind b
  | F_turb => turbulence a = turbulence b | F_hum => humidity a = humidity b
  | F_pres => pressure a = pressure b | F_timestamp => timestamp a = timestamp b
  | F_pos_t => position_t a = position_t b | F_track_t => track_t a = track_t b
  | F_heading_t => heading_t a = heading_t b | F_last_tc => last_tc a = last_tc b
  | F_last_df => last_df a = last_df b | F_version => adsb_version a = adsb_version b
  end.

Fixpoint memf (f : fld) (S : list fld) : bool :=
  match S with [] => false | g :: t => if fld_eq_dec f g then true else memf f t end.

Definition modifies (S : list fld) (r r' : row) : Prop :=
  forall f, memf f S = false -> same f r r'.

Lemma same_refl f r : same f r r.
Proof. destruct f; reflexivity. Qed.
Lemma same_trans f a b c : same f a b -> same f b c -> same f a c.
Proof. destruct f; cbn; intros H1 H2; congruence. Qed.

Lemma modifies_refl S r : modifies S r r.
Proof. intros f _. apply same_refl. Qed.
Lemma modifies_trans S a b c : modifies S a b -> modifies S b c -> modifies S a c.
Proof. intros H1 H2 f Hf. eapply same_trans; [apply H1 | apply H2]; exact Hf. Qed.

Lemma memf_incl f S S' : (forall g, memf g S = true -> memf g S' = true) -> memf f S' = false -> memf f S = false.
Proof. intros H Hf. destruct (memf f S) eqn:E; [|reflexivity]. rewrite (H f E) in Hf. discriminate. Qed.

Definition subset (S S' : list fld) : bool := forallb (fun g => memf g S') S.
Lemma subset_sound S S' : subset S S' = true -> forall g, memf g S = true -> memf g S' = true.
Proof.
  unfold subset. rewrite forallb_forall. intros H g Hg.
  induction S as [|x t IH]; cbn in Hg; [discriminate|].
  destruct (fld_eq_dec g x) as [->|].
  - apply H. left. reflexivity.
  - apply IH; [|exact Hg]. intros y Hy. apply H. right. exact Hy.
Qed.
Lemma modifies_weaken S S' r r' : subset S S' = true -> modifies S r r' -> modifies S' r r'.
Proof. intros Hs H f Hf. apply H. eapply memf_incl; [apply subset_sound; exact Hs | exact Hf]. Qed.

(** a single field update *)
Ltac mod_one :=
  let f := fresh "f" in let Hf := fresh "Hf" in
  intros f Hf; destruct f; try reflexivity; cbn in Hf; try discriminate Hf.

(** [modifies] goals whose right-hand side is a (possibly conditional) chain of setters *)
Ltac mod_leaf :=
  lazymatch goal with
  | |- modifies _ ?r ?r => apply modifies_refl
  | |- modifies _ _ _ => mod_one
  end.
Ltac mod_split :=
  repeat match goal with
  | |- modifies _ _ (if ?c then _ else _) => destruct c
  | |- modifies _ _ (match ?x with Some _ => _ | None => _ end) => destruct x
  | |- modifies _ _ (let '(_, _) := ?x in _) => destruct x
  | |- modifies _ _ ?t => match t with context [if ?c then _ else _] => destruct c end
  end.
Ltac mod_auto := mod_split; mod_leaf.

(** ---- update_position / store_cpr ---- *)
Definition fp_position : list fld := [F_lat; F_lon; F_dist; F_pos_t].

Lemma update_position_fp obs r tc form : modifies fp_position r (update_position obs r tc form).
Proof.
  unfold update_position.
  destruct (_ && _ && _ && _ && _ && _)%bool; [|apply modifies_refl].
  destruct (if in_tc 5 8 tc then _ else _) as [[la lo]|]; [|apply modifies_refl].
  destruct (_ && _ && _ && _)%bool; [|apply modifies_refl].
  destruct obs as [[ola olo]|]; mod_one.
Qed.

Definition fp_cpr : list fld :=
  [F_cpr_lat0; F_cpr_lat1; F_cpr_lon0; F_cpr_lon1; F_cpr_t0; F_cpr_t1; F_cpr_s0; F_cpr_s1;
   F_lat; F_lon; F_dist; F_pos_t].

Lemma store_cpr_fp obs r tc c : modifies fp_cpr r (store_cpr obs r tc c).
Proof.
  unfold store_cpr. destruct c as [[form la] lo].
  eapply modifies_trans; [| eapply modifies_weaken; [| apply update_position_fp]; reflexivity].
  destruct (form =? 1); mod_one.
Qed.

Ltac inv_bind H :=
  match type of H with
  | bind ?x _ = Ok _ => let E := fresh "E" in destruct x eqn:E; cbn [bind] in H; [|discriminate H]
  end.

(** invert every hypothesis of the form [bind .. = Ok _] / [Ok _ = Ok _] (head position only) *)
Ltac inv_res :=
  repeat match goal with
  | H : Ok _ = Ok _ |- _ => inversion H; subst; clear H
  | H : Panic _ = Ok _ |- _ => discriminate H
  | H : bind ?x _ = Ok _ |- _ =>
      let E := fresh "E" in destruct x eqn:E; cbn [bind] in H; [|discriminate H]
  | H : match ?x with Some _ => _ | None => _ end = Ok _ |- _ => is_var x; destruct x
  end.

Lemma update_cpr_fp obs r m tc r' : update_cpr obs r m tc = Ok r' -> modifies fp_cpr r r'.
Proof.
  unfold update_cpr. intros H. inv_bind H.
  destruct (ofilter _ _); inversion H; subst; [apply store_cpr_fp | apply modifies_refl].
Qed.

(** ---- squitter path ---- *)
Definition fp_bcast (df : N) : list fld :=
  (if (df =? 4) || (df =? 20) then [F_altitude; F_altitude_source] else [])
  ++ (if (df =? 5) || (df =? 21) then [F_squawk] else [])
  ++ (if (df =? 11) || (df =? 17) then [F_cap_ca] else []).

Lemma update_from_bcast_fp r m df r' : update_from_bcast r m df = Ok r' -> modifies (fp_bcast df) r r'.
Proof.
  unfold update_from_bcast, fp_bcast. intros H.
  destruct ((df =? 4) || (df =? 20)); destruct ((df =? 5) || (df =? 21)); destruct ((df =? 11) || (df =? 17));
    cbn [bind] in H; inv_res; cbn [app]; mod_auto.
Qed.

Definition fp_ext19 (st : N) : list fld :=
  [F_vrate; F_vrate_source; F_altitude_gnss]
  ++ (if (st =? 1) || (st =? 2) then [F_track; F_grspeed; F_track_source] else [])
  ++ (if (st =? 3) || (st =? 4) then [F_heading; F_heading_source; F_altitude_source] else []).

Lemma ext19_alt_fp r m r1 :
  match r_altitude r with
  | Some alt => d <- altitude_delta m ;;
                Ok (match d with Some d => r <| altitude_gnss_ := Some (gnss_of alt d) |> | None => r end)
  | None => Ok r
  end = Ok r1 -> modifies [F_altitude_gnss] r r1.
Proof. intros H. destruct (r_altitude r); inv_res; mod_auto. Qed.

(** use a previously established footprint of an intermediate row *)
Ltac mod_via M :=
  eapply modifies_trans; [eapply modifies_weaken; [|exact M]; reflexivity|].

Lemma update_from_ext_19_fp r m st r' : update_from_ext_19 r m st = Ok r' -> modifies (fp_ext19 st) r r'.
Proof.
  unfold update_from_ext_19, fp_ext19. intros H.
  inv_bind H.
  match type of H with bind ?x _ = _ => destruct x as [r1|] eqn:E1; cbn [bind] in H; [|discriminate H] end.
  apply ext19_alt_fp in E1.
  assert (modifies [F_vrate; F_vrate_source; F_altitude_gnss] r r1) as M1.
  { eapply modifies_trans; [|eapply modifies_weaken; [|exact E1]; reflexivity]. mod_one. }
  clear E1.
  destruct (st =? 1); [|destruct (st =? 2); [|destruct ((st =? 3) || (st =? 4))]]; cbn [orb app];
    inv_res; repeat match goal with p : (_ * _)%type |- _ => destruct p end; inv_res;
    mod_via M1; mod_auto.
Qed.

Definition fp_ext (tc st : N) : list fld :=
  F_last_tc ::
  (if in_tc 1 4 tc then [F_ais; F_category]
   else if in_tc 5 8 tc then [F_gm; F_altitude; F_altitude_source; F_track; F_track_source] ++ fp_cpr
   else if in_tc 9 18 tc then [F_altitude; F_altitude_source; F_surv] ++ fp_cpr
   else if tc =? 19 then fp_ext19 st
   else if in_tc 20 22 tc then [F_altitude_gnss; F_surv]
   else if tc =? 31 then [F_version]
   else []).

Lemma update_from_ext_fp obs r m df r' tc st :
  get_message_type m = Ok (tc, st) ->
  update_from_ext obs r m df = Ok r' -> modifies (fp_ext tc st) r r'.
Proof.
  unfold update_from_ext, fp_ext. intros T H. rewrite T in H. cbn [bind] in H.
  destruct (in_tc 1 4 tc).
  { inv_bind H. inversion H; subst. mod_one. }
  destruct (in_tc 5 8 tc).
  { inv_bind H. inv_bind H. apply update_cpr_fp in H.
    eapply modifies_trans; [| eapply modifies_weaken; [| exact H]; reflexivity]. mod_one. }
  destruct (in_tc 9 18 tc).
  { inv_bind H. inv_bind H. apply update_cpr_fp in H.
    eapply modifies_trans; [| eapply modifies_weaken; [| exact H]; reflexivity]. mod_one. }
  destruct (tc =? 19).
  { apply update_from_ext_19_fp in H.
    eapply modifies_trans; [| eapply modifies_weaken; [| exact H]].
    - mod_one.
    - unfold fp_ext19. destruct ((st =? 1) || (st =? 2)); destruct ((st =? 3) || (st =? 4)); reflexivity. }
  destruct (in_tc 20 22 tc).
  { inv_bind H. inv_bind H. inversion H; subst. mod_one. }
  destruct (tc =? 31).
  { inv_bind H. inversion H; subst. mod_one. }
  inversion H; subst. mod_one.
Qed.

Definition fp_mode_s : list fld :=
  [F_ais; F_threat; F_cap; F_selected_altitude; F_tas_src; F_baro; F_roll; F_track; F_tar; F_grspeed;
   F_tas; F_b5t; F_track_source; F_track_t; F_heading; F_ias; F_mach; F_vrate; F_vrate_source;
   F_heading_source; F_heading_t; F_temp; F_wind; F_hum; F_turb; F_pres].

Ltac stage_r H r1 E :=
  match type of H with
  | bind ?x _ = Ok _ => destruct x as [r1|] eqn:E; cbn [bind] in H; [|discriminate H]
  end.
Ltac stage_p H r1 z1 E :=
  match type of H with
  | bind ?x _ = Ok _ => destruct x as [[r1 z1]|] eqn:E; cbn [bind] in H; [|discriminate H]
  end.
Ltac stage_fp E :=
  match type of E with
  | (if ?c then _ else _) = _ => destruct c
  end; inv_res; mod_auto.

Lemma update_from_mode_s_fp r m relaxed r' :
  update_from_mode_s r m relaxed = Ok r' -> modifies fp_mode_s r r'.
Proof.
  unfold update_from_mode_s. intros H.
  inv_bind H.
  stage_r H r0 E0. assert (modifies fp_mode_s r r0) as M0 by (clear H; stage_fp E0). clear E0.
  stage_r H r1 E1. assert (modifies fp_mode_s r0 r1) as M1 by (clear H; stage_fp E1). clear E1.
  stage_p H r2 z2 E2. assert (modifies fp_mode_s r1 r2) as M2 by (clear H; stage_fp E2). clear E2.
  stage_p H r3 z3 E3. assert (modifies fp_mode_s r2 r3) as M3 by (clear H; stage_fp E3). clear E3.
  stage_p H r4 z4 E4. assert (modifies fp_mode_s r3 r4) as M4 by (clear H; stage_fp E4). clear E4.
  stage_p H r5 z5 E5. assert (modifies fp_mode_s r4 r5) as M5 by (clear H; stage_fp E5). clear E5.
  stage_p H r6 z6 E6. assert (modifies fp_mode_s r5 r6) as M6 by (clear H; stage_fp E6). clear E6.
  assert (modifies fp_mode_s r6 r') as M7 by (stage_fp H).
  repeat (eapply modifies_trans; [eassumption|]). apply modifies_refl.
Qed.

(** ---- Plane::update as a whole ---- *)
Definition is_ext (df : N) : bool := (df =? 17) || (df =? 18).
Definition is_commb (df : N) : bool := (df =? 20) || (df =? 21).

Definition fp_update (df tc st : N) : list fld :=
  [F_timestamp; F_last_df] ++ fp_bcast df
  ++ (if is_ext df then fp_ext tc st else [])
  ++ (if is_commb df then fp_mode_s else []).

Lemma memf_app f A B : memf f (A ++ B) = (memf f A || memf f B)%bool.
Proof. induction A as [|a t IH]; cbn; [reflexivity|]. destruct (fld_eq_dec f a); [reflexivity|exact IH]. Qed.

Lemma modifies_app_l A B r r' : modifies A r r' -> modifies (A ++ B) r r'.
Proof. intros H f Hf. apply H. rewrite memf_app in Hf. apply orb_false_elim in Hf. tauto. Qed.
Lemma modifies_app_r A B r r' : modifies B r r' -> modifies (A ++ B) r r'.
Proof. intros H f Hf. apply H. rewrite memf_app in Hf. apply orb_false_elim in Hf. tauto. Qed.

Lemma plane_update_fp obs now r m df relaxed r' tc st :
  (is_ext df = true -> get_message_type m = Ok (tc, st)) ->
  plane_update obs now r m df relaxed = Ok r' -> modifies (fp_update df tc st) r r'.
Proof.
  unfold plane_update, fp_update. intros T H.
  match type of H with bind ?x _ = _ => destruct x as [r1|] eqn:E1; cbn [bind] in H; [|discriminate H] end.
  apply update_from_bcast_fp in E1.
  match type of H with bind ?x _ = _ => destruct x as [r2|] eqn:E2; cbn [bind] in H; [|discriminate H] end.
  assert (modifies (if is_ext df then fp_ext tc st else []) r1 r2) as M2.
  { unfold is_ext in *. destruct ((df =? 17) || (df =? 18)).
    - eapply update_from_ext_fp; [apply T; reflexivity | exact E2].
    - inversion E2; subst. apply modifies_refl. }
  assert (modifies (if is_commb df then fp_mode_s else []) r2 r') as M3.
  { unfold is_commb. destruct ((df =? 20) || (df =? 21)).
    - destruct (relaxed || (3 <? cap_ca r2)); cbn [andb] in H.
      + apply update_from_mode_s_fp in H. exact H.
      + inversion H; subst. apply modifies_refl.
    - rewrite andb_false_r in H. inversion H; subst. apply modifies_refl. }
  eapply modifies_trans with (b := r <| timestamp := now |> <| last_df := df |>); [apply modifies_app_l; mod_one|].
  eapply modifies_trans; [apply modifies_app_r, modifies_app_l; exact E1|].
  eapply modifies_trans; [apply modifies_app_r, modifies_app_r, modifies_app_l; exact M2|].
  apply modifies_app_r, modifies_app_r, modifies_app_r. exact M3.
Qed.

(** ---- downlink path ---- *)
Definition fp_srt (s : srt) : list fld :=
  match s_df s with
  | Some 4 => [F_altitude; F_altitude_source]
  | Some 5 => [F_squawk]
  | Some 11 => [F_cap_ca]
  | _ => []
  end.

Lemma update_from_srt_dl_fp r s : modifies (fp_srt s) r (update_from_srt_dl r s).
Proof.
  unfold update_from_srt_dl, fp_srt.
  destruct (is_some (s_icao s)); [|apply modifies_refl].
  destruct (s_df s) as [[|p]|]; try (destruct (s_alt s), (s_squawk s), (s_cap s); apply modifies_refl).
  destruct (s_alt s), (s_squawk s), (s_cap s);
    repeat (destruct p as [p|p|]; try apply modifies_refl); mod_one.
Qed.

Definition fp_ext_dl (tc st : N) : list fld :=
  F_last_tc ::
  (if in_tc 1 4 tc then [F_ais; F_category]
   else if in_tc 5 8 tc then [F_gm; F_altitude; F_altitude_source; F_track; F_track_source] ++ fp_cpr
   else if in_tc 9 18 tc then [F_altitude; F_altitude_source; F_surv] ++ fp_cpr
   else if tc =? 19 then fp_ext19 st
   else if in_tc 20 22 tc then [F_altitude_gnss; F_surv]
   else if tc =? 31 then [F_version]
   else []).

Lemma amend_cpr_fp obs r e : modifies fp_cpr r (amend_cpr obs r e).
Proof. unfold amend_cpr. destruct (e_cpr e); [apply store_cpr_fp | apply modifies_refl]. Qed.

Lemma amend_from_ext_19_fp r e : modifies (fp_ext19 (snd (e_mt e))) r (amend_from_ext_19 r e).
Proof.
  unfold amend_from_ext_19, fp_ext19.
  set (st := snd (e_mt e)).
  assert (modifies [F_vrate; F_vrate_source; F_altitude_gnss] r
            (match e_alt_delta e, r_altitude (r <| vrate := e_vrate e |> <| vrate_source := SP |>) with
             | Some d, Some alt => r <| vrate := e_vrate e |> <| vrate_source := SP |>
                                     <| altitude_gnss_ := Some (gnss_of alt d) |>
             | _, _ => r <| vrate := e_vrate e |> <| vrate_source := SP |> end)) as M1.
  { destruct (e_alt_delta e); [destruct (r_altitude _)|]; mod_one. }
  destruct (st =? 1); [|destruct (st =? 2); [|destruct ((st =? 3) || (st =? 4))]]; cbn [orb app];
    first [ mod_via M1; mod_one | eapply modifies_weaken; [|exact M1]; reflexivity ].
Qed.

Lemma update_from_ext_dl_fp obs r e :
  modifies (fp_ext_dl (fst (e_mt e)) (snd (e_mt e))) r (update_from_ext_dl obs r e).
Proof.
  unfold update_from_ext_dl, fp_ext_dl. set (tc := fst (e_mt e)). set (st := snd (e_mt e)).
  destruct (is_some (e_icao e)); [|apply modifies_refl].
  destruct (in_tc 1 4 tc).
  { destruct (is_some (e_ais e)); mod_one. }
  destruct (in_tc 5 8 tc).
  { eapply modifies_trans; [| eapply modifies_weaken; [| apply amend_cpr_fp]; reflexivity]. mod_one. }
  destruct (in_tc 9 18 tc).
  { eapply modifies_trans; [| eapply modifies_weaken; [| apply amend_cpr_fp]; reflexivity]. mod_one. }
  destruct (tc =? 19).
  { eapply modifies_trans; [| eapply modifies_weaken; [| apply amend_from_ext_19_fp]].
    - mod_one.
    - fold st. unfold fp_ext19. destruct ((st =? 1) || (st =? 2)); destruct ((st =? 3) || (st =? 4)); reflexivity. }
  destruct (in_tc 20 22 tc); [mod_one|].
  destruct (tc =? 31); mod_one.
Qed.

Definition fp_downlink (d : downlink) : list fld :=
  [F_timestamp; F_last_df] ++
  match d with
  | DSrt s => fp_srt s
  | DExt e => fp_ext_dl (fst (e_mt e)) (snd (e_mt e))
  | DMds _ _ => [F_icao]
  end.

Lemma update_from_downlink_fp obs now r d : modifies (fp_downlink d) r (update_from_downlink obs now r d).
Proof.
  unfold update_from_downlink, fp_downlink.
  eapply modifies_trans with (b := match dl_df d with
                                   | Some df => r <| timestamp := now |> <| last_df := df |>
                                   | None => r <| timestamp := now |> end).
  { apply modifies_app_l. destruct (dl_df d); mod_one. }
  apply modifies_app_r.
  destruct d as [s|e|df ic].
  - apply update_from_srt_dl_fp.
  - apply update_from_ext_dl_fp.
  - destruct ic; mod_one.
Qed.
