(** Layout of the text table (Model/Display.v): the header, the separator and every row whose
    values fit their cells have the same display width, cell by cell; unknown values print as
    blanks; the optional column groups appear in header and rows exactly when their flag
    letter is given.  Display width = [List.length] of the code-point list. *)
From SQ Require Import Display Tables Obs.
From Coq Require Import List Lia String ZArith NArith QArith Qabs Qround.
Import ListNotations.
Local Open Scope N_scope.

(** ---- padding primitives ---- *)

Lemma spaces_length n : List.length (spaces n) = n.
Proof. apply repeat_length. Qed.

Lemma pad_left_length w s : List.length (pad_left w s) = Nat.max w (List.length s).
Proof. unfold pad_left. rewrite app_length, spaces_length. lia. Qed.

Lemma pad_right_length w s : List.length (pad_right w s) = Nat.max w (List.length s).
Proof. unfold pad_right. rewrite app_length, spaces_length. lia. Qed.

Lemma zero_pad_length w s : List.length (zero_pad w s) = Nat.max w (List.length s).
Proof. unfold zero_pad. rewrite app_length, repeat_length. lia. Qed.

Lemma pad_left_fits w s : (List.length s <= w)%nat -> List.length (pad_left w s) = w.
Proof. rewrite pad_left_length. lia. Qed.

Lemma pad_right_fits w s : (List.length s <= w)%nat -> List.length (pad_right w s) = w.
Proof. rewrite pad_right_length. lia. Qed.

Lemma zero_pad_fits w s : (List.length s <= w)%nat -> List.length (zero_pad w s) = w.
Proof. rewrite zero_pad_length. lia. Qed.

(** padding never truncates: an oversize value widens the line *)
Lemma pad_left_overflow w s : (w < List.length s)%nat -> pad_left w s = s.
Proof. intros H. unfold pad_left. replace (w - List.length s)%nat with 0%nat by lia. reflexivity. Qed.

Lemma Forall_repeat {A} (P : A -> Prop) x n : P x -> Forall P (repeat x n).
Proof. intros H. induction n; simpl; constructor; auto. Qed.

Definition blank (s : bytes) : Prop := Forall (fun c => c = 32) s.

Lemma blank_spaces n : blank (spaces n).
Proof. apply Forall_repeat. reflexivity. Qed.

Lemma blank_app a b : blank a -> blank b -> blank (a ++ b).
Proof. intros. apply Forall_app. split; assumption. Qed.

Lemma blank_sp : blank [32].
Proof. repeat constructor. Qed.

(** ---- rendered numbers ---- *)

Lemma str_length s : List.length (str s) = String.length s.
Proof. induction s; simpl; congruence. Qed.

Lemma hex_go_length k : forall n acc, List.length (hex_go k n acc) = (k + List.length acc)%nat.
Proof.
  induction k; intros n acc; cbn [hex_go].
  - reflexivity.
  - rewrite IHk. simpl. lia.
Qed.

Lemma dec_go_S f n acc :
  dec_go (S f) n acc = if n <? 10 then (48 + n mod 10) :: acc else dec_go f (n / 10) ((48 + n mod 10) :: acc).
Proof. reflexivity. Qed.

Lemma dec_go_length_le : forall fuel k n acc,
  (1 <= k)%nat -> (k <= fuel)%nat -> n < 10 ^ N.of_nat k ->
  (List.length (dec_go fuel n acc) <= k + List.length acc)%nat.
Proof.
  induction fuel; intros k n acc H1 Hk Hn; [lia|].
  rewrite dec_go_S. destruct (n <? 10) eqn:E.
  - simpl. lia.
  - apply N.ltb_ge in E.
    destruct k as [|[|k]]; [lia| |].
    + change (10 ^ N.of_nat 1) with 10 in Hn. lia.
    + specialize (IHfuel (S k) (n / 10) ((48 + n mod 10) :: acc)).
      cbn [List.length] in IHfuel.
      assert (n / 10 < 10 ^ N.of_nat (S k)).
      { apply N.div_lt_upper_bound; [lia|].
        rewrite <- N.pow_succ_r'. rewrite <- Nnat.Nat2N.inj_succ. exact Hn. }
      assert (Hf : (S k <= fuel)%nat) by lia.
      assert (Hone : (1 <= S k)%nat) by lia.
      specialize (IHfuel Hone Hf H). lia.
Qed.

Lemma dec_go_length_ge : forall fuel n acc, (List.length acc <= List.length (dec_go fuel n acc))%nat.
Proof.
  induction fuel; intros n acc; [simpl; lia|].
  rewrite dec_go_S. destruct (n <? 10).
  - simpl. lia.
  - specialize (IHfuel (n / 10) ((48 + n mod 10) :: acc)). cbn [List.length] in IHfuel. lia.
Qed.

(** a number below 10^k prints in at most k characters (k >= 1) *)
Lemma dec_length_le k n : (1 <= k <= 400)%nat -> n < 10 ^ N.of_nat k -> (List.length (dec n) <= k)%nat.
Proof.
  intros [H1 H2] Hn. unfold dec.
  pose proof (dec_go_length_le 400 k n [] H1 H2 Hn) as H. cbn [List.length] in H. lia.
Qed.

Lemma dec_digit n : n < 10 -> List.length (dec n) = 1%nat.
Proof.
  intros H. unfold dec. change 400%nat with (S 399). rewrite dec_go_S.
  apply N.ltb_lt in H. rewrite H. reflexivity.
Qed.

Lemma decz_neg p : decz (Z.neg p) = 45 :: dec (N.pos p).
Proof. reflexivity. Qed.

Lemma len_cons {A} (x : A) l : List.length (x :: l) = S (List.length l).
Proof. reflexivity. Qed.

Lemma decz_length_le w x : (1 <= w <= 400)%nat ->
  (- 10 ^ Z.of_nat (w - 1) < x < 10 ^ Z.of_nat w)%Z -> (List.length (decz x) <= w)%nat.
Proof.
  intros Hw [Hlo Hhi].
  assert (Hpow : forall k, Z.of_N (10 ^ N.of_nat k) = (10 ^ Z.of_nat k)%Z).
  { intros k. rewrite N2Z.inj_pow. rewrite nat_N_Z. reflexivity. }
  destruct x as [|p|p]; [unfold decz | unfold decz | ].
  - apply dec_length_le; [exact Hw|]. apply N2Z.inj_lt. rewrite Hpow. exact Hhi.
  - apply dec_length_le; [exact Hw|]. apply N2Z.inj_lt. rewrite Hpow. exact Hhi.
  - destruct w as [|[|w]]; [lia| |].
    + change (- 10 ^ Z.of_nat (1 - 1))%Z with (-1)%Z in Hlo. lia.
    + rewrite decz_neg, len_cons. apply le_n_S.
      apply dec_length_le; [lia|]. apply N2Z.inj_lt. rewrite Hpow.
      replace (S (S w) - 1)%nat with (S w) in Hlo by lia.
      change (Z.of_N (N.pos p)) with (Z.pos p). lia.
Qed.

(** ---- fixed-point rendering ---- *)

Lemma rhe_ge_floor x : (Qfloor x <= round_half_even x)%Z.
Proof.
  unfold round_half_even.
  destruct (Qcompare (x - (Qfloor x # 1)) (1 # 2)); [destruct (Z.even (Qfloor x))| |]; lia.
Qed.

Lemma rhe_le_int x K : (x <= K # 1)%Q -> (round_half_even x <= K)%Z.
Proof.
  intros H.
  assert (Hf : (Qfloor x <= K)%Z).
  { rewrite <- (Qfloor_Z K). apply Qfloor_resp_le. exact H. }
  destruct (Z.eq_dec (Qfloor x) K) as [E|E].
  - unfold round_half_even. rewrite E.
    assert (Hlt : (x - (K # 1) < 1 # 2)%Q).
    { apply Qle_lt_trans with (y := 0%Q); [|reflexivity].
      apply Qle_minus_iff in H. apply Qle_minus_iff.
      setoid_replace (0 + - (x - (K # 1)))%Q with ((K # 1) + - x)%Q by ring. exact H. }
    assert (C : Qcompare (x - (K # 1)) (1 # 2) = Lt) by (apply -> Qlt_alt; exact Hlt).
    rewrite C. lia.
  - unfold round_half_even.
    destruct (Qcompare (x - (Qfloor x # 1)) (1 # 2)); [destruct (Z.even (Qfloor x))| |]; lia.
Qed.

Lemma fmt_fixed_length_sign p k q : (1 <= p <= 400)%nat -> (1 <= k <= 400)%nat ->
  (Qabs q <= (10 ^ Z.of_nat k - 1) # 1)%Q ->
  (List.length (fmt_fixed p q) <= (if Qlt_bool q 0 then 1 else 0) + (k + 1 + p))%nat.
Proof.
  intros Hp Hk Hq. unfold fmt_fixed.
  set (scale := (10 ^ Z.of_nat p)%Z).
  set (n := round_half_even (Qabs q * (scale # 1))).
  assert (Hs : (0 < scale)%Z) by (apply Z.pow_pos_nonneg; lia).
  assert (Hn0 : (0 <= n)%Z).
  { apply Z.le_trans with (m := Qfloor (Qabs q * (scale # 1))); [|apply rhe_ge_floor].
    change 0%Z with (Qfloor 0). apply Qfloor_resp_le.
    apply Qmult_le_0_compat; [apply Qabs_nonneg|]. unfold Qle; simpl; lia. }
  assert (Hn1 : (n <= (10 ^ Z.of_nat k - 1) * scale)%Z).
  { apply rhe_le_int.
    setoid_replace (((10 ^ Z.of_nat k - 1) * scale) # 1)%Q
      with (((10 ^ Z.of_nat k - 1) # 1) * (scale # 1))%Q by (unfold Qeq; simpl; lia).
    apply Qmult_le_compat_r; [exact Hq|]. unfold Qle; simpl; lia. }
  assert (Hip : (0 <= n / scale < 10 ^ Z.of_nat k)%Z).
  { split; [apply Z.div_pos; lia|].
    apply Z.div_lt_upper_bound; [lia|]. nia. }
  assert (Hfp : (0 <= n mod scale < scale)%Z) by (apply Z.mod_pos_bound; lia).
  assert (L1 : (List.length (decz (n / scale)) <= k)%nat).
  { apply decz_length_le; [exact Hk|]. split; [|lia].
    assert (0 < 10 ^ Z.of_nat (k - 1))%Z by (apply Z.pow_pos_nonneg; lia). lia. }
  assert (L2 : (List.length (decz (n mod scale)) <= p)%nat).
  { apply decz_length_le; [exact Hp|]. split; [|exact (proj2 Hfp)].
    assert (0 < 10 ^ Z.of_nat (p - 1))%Z by (apply Z.pow_pos_nonneg; lia). lia. }
  assert (L3 : (List.length (decz (n / scale) ++
      match p with O => [] | S _ => [46%N] ++ zero_pad p (decz (n mod scale)) end) <= k + 1 + p)%nat).
  { rewrite app_length. destruct p as [|p']; [lia|].
    rewrite app_length, zero_pad_fits by exact L2. rewrite len_cons. simpl List.length. lia. }
  destruct (Qlt_bool q 0); [rewrite len_cons|]; lia.
Qed.

(** |q| <= 10^k - 1 prints in at most sign + k + point + p characters *)
Lemma fmt_fixed_length_le p k q : (1 <= p <= 400)%nat -> (1 <= k <= 400)%nat ->
  (Qabs q <= (10 ^ Z.of_nat k - 1) # 1)%Q ->
  (List.length (fmt_fixed p q) <= 1 + k + 1 + p)%nat.
Proof.
  intros Hp Hk Hq. pose proof (fmt_fixed_length_sign p k q Hp Hk Hq) as H.
  destruct (Qlt_bool q 0); lia.
Qed.

Lemma fmt_fixed_length_le_nonneg p k q : (1 <= p <= 400)%nat -> (1 <= k <= 400)%nat ->
  (0 <= q)%Q -> (q <= (10 ^ Z.of_nat k - 1) # 1)%Q ->
  (List.length (fmt_fixed p q) <= k + 1 + p)%nat.
Proof.
  intros Hp Hk H0 Hq.
  assert (Ha : (Qabs q <= (10 ^ Z.of_nat k - 1) # 1)%Q) by (rewrite Qabs_pos; assumption).
  pose proof (fmt_fixed_length_sign p k q Hp Hk Ha) as H.
  assert (E : Qlt_bool q 0 = false).
  { unfold Qlt_bool. apply Bool.negb_false_iff. apply Qle_bool_iff. exact H0. }
  rewrite E in H. lia.
Qed.

Lemma dec_0 : dec 0 = [48].
Proof. vm_compute. reflexivity. Qed.

Lemma decz_0 : decz 0 = [48].
Proof. vm_compute. reflexivity. Qed.

(** from here on numbers are black boxes *)
Global Opaque dec decz fmt_fixed.

(** ---- header and separator ---- *)

(** [group_on] depends on the options only through the five flags *)
Definition group_onb (fa fs fg fw fe : bool) (g : string) : bool :=
  if String.eqb g "" then true
  else if String.eqb g "altitude" then fa
  else if String.eqb g "speed" then fs
  else if String.eqb g "angles" then fg
  else if String.eqb g "weather" then fw
  else if String.eqb g "extra" then fe
  else false.

Lemma group_on_flags o g :
  group_on o g = group_onb (fl_altitude o) (fl_speed o) (fl_angles o) (fl_weather o) (fl_extra o) g.
Proof. reflexivity. Qed.

(** width taken by the enabled columns: each is its width plus one separating blank *)
Definition cols_width (on : string -> bool) (cols : list (string * string * nat)) : nat :=
  fold_right (fun (c : string * string * nat) acc => let '(g, _, w) := c in if on g then (S w + acc)%nat else acc) 0%nat cols.

Definition names_fit (cols : list (string * string * nat)) : bool :=
  forallb (fun c : string * string * nat => let '(_, name, w) := c in Nat.leb (String.length name) w) cols.

Lemma header_cols_names_fit : names_fit header_cols = true.
Proof. vm_compute. reflexivity. Qed.

Lemma header_tails_same_width : String.length header_tail = String.length separator_tail.
Proof. reflexivity. Qed.

Lemma header_concat_length (on : string -> bool) (cols : list (string * string * nat)) : names_fit cols = true ->
  List.length (List.concat (map (fun '(g, name, w) =>
      if on g then pad_left w (str name) ++ [32] else []) cols)) = cols_width on cols.
Proof.
  induction cols as [|[[g name] w] t IH]; intros H; [reflexivity|].
  unfold names_fit in H. cbn [forallb] in H. apply andb_prop in H. destruct H as [Hn Ht].
  apply Nat.leb_le in Hn.
  cbn [map List.concat cols_width fold_right]. rewrite app_length.
  fold (cols_width on t). rewrite (IH Ht).
  destruct (on g); [|reflexivity].
  rewrite app_length, pad_left_fits by (rewrite str_length; exact Hn).
  simpl. lia.
Qed.

Lemma separator_concat_length (on : string -> bool) (cols : list (string * string * nat)) :
  List.length (List.concat (map (fun '(g, name, w) =>
      if on g then repeat 45 w ++ [32] else []) cols)) = cols_width on cols.
Proof.
  induction cols as [|[[g name] w] t IH]; [reflexivity|].
  cbn [map List.concat cols_width fold_right]. rewrite app_length.
  fold (cols_width on t). rewrite IH.
  destruct (on g); [|reflexivity].
  rewrite app_length, repeat_length. simpl. lia.
Qed.

(** the header width as a function of the five flags, summed over the generated table *)
Definition header_width (fa fs fg fw fe : bool) : nat :=
  (cols_width (group_onb fa fs fg fw fe) header_cols + String.length header_tail)%nat.

Definition flags_width (o : opts) : nat :=
  header_width (fl_altitude o) (fl_speed o) (fl_angles o) (fl_weather o) (fl_extra o).

Lemma flags_width_eq o :
  flags_width o = (cols_width (group_on o) header_cols + String.length header_tail)%nat.
Proof. unfold flags_width, header_width. reflexivity. Qed.

Theorem header_length o : List.length (header_line o) = flags_width o.
Proof.
  unfold header_line, flags_width, header_width.
  rewrite app_length, str_length.
  rewrite (header_concat_length (group_on o) header_cols header_cols_names_fit).
  reflexivity.
Qed.

Theorem separator_length o : List.length (separator_line o) = flags_width o.
Proof.
  unfold separator_line, flags_width, header_width.
  rewrite app_length, str_length, <- header_tails_same_width.
  rewrite (separator_concat_length (group_on o) header_cols).
  reflexivity.
Qed.

(** 1. *)
Theorem header_separator_same_width o :
  List.length (header_line o) = List.length (separator_line o).
Proof. rewrite header_length, separator_length. reflexivity. Qed.

(** the numbers, from the generated table: 80 columns for the base layout, then per group *)
Lemma header_width_eq fa fs fg fw fe :
  header_width fa fs fg fw fe =
  (80 + (if fa then 17 else 0) + (if fs then 13 else 0) + (if fg then 8 else 0)
      + (if fw then 26 else 0) + (if fe then 17 else 0))%nat.
Proof. destruct fa, fs, fg, fw, fe; vm_compute; reflexivity. Qed.

(** 4. the header is exactly the base columns plus the columns of the enabled groups *)
Theorem header_groups o :
  header_line o =
  List.concat (map (fun '(g, name, w) =>
      if group_on o g then pad_left w (str name) ++ [32] else []) header_cols) ++ str header_tail.
Proof. reflexivity. Qed.

Theorem header_groups_width o :
  List.length (header_line o) =
  (80 + (if fl_altitude o then 17 else 0) + (if fl_speed o then 13 else 0)
      + (if fl_angles o then 8 else 0) + (if fl_weather o then 26 else 0)
      + (if fl_extra o then 17 else 0))%nat.
Proof. rewrite header_length. unfold flags_width. rewrite header_width_eq. reflexivity. Qed.

(** a flag is on exactly when its letter occurs in the -i strings *)
Lemma has_flag_iff o c : has_flag o c = true <-> In c (display_info o).
Proof.
  unfold has_flag. rewrite existsb_exists. split.
  - intros [x [Hin Hx]]. apply N.eqb_eq in Hx. subst. exact Hin.
  - intros H. exists c. split; [exact H | apply N.eqb_refl].
Qed.

(** ---- rows, cell by cell ---- *)

(** the text taken by the enabled cells of a list of (group, text) *)
Definition enabled (o : opts) (cs : list (string * bytes)) : bytes :=
  List.concat (map snd (filter (fun c => group_on o (fst c)) cs)).

Lemma enabled_nil o : enabled o [] = [].
Proof. reflexivity. Qed.

Lemma enabled_cons o c cs :
  enabled o (c :: cs) = (if group_on o (fst c) then snd c else []) ++ enabled o cs.
Proof. unfold enabled. cbn [filter]. destruct (group_on o (fst c)); reflexivity. Qed.

Lemma enabled_cons_on o g x cs : group_on o g = true -> enabled o ((g, x) :: cs) = x ++ enabled o cs.
Proof. intros H. rewrite enabled_cons. cbn [fst snd]. rewrite H. reflexivity. Qed.

Lemma enabled_cons_off o g x cs : group_on o g = false -> enabled o ((g, x) :: cs) = enabled o cs.
Proof. intros H. rewrite enabled_cons. cbn [fst snd]. rewrite H. reflexivity. Qed.

Lemma enabled_app o a b : enabled o (a ++ b) = enabled o a ++ enabled o b.
Proof. unfold enabled. rewrite filter_app, map_app, concat_app. reflexivity. Qed.

Definition pos_shown (r : row) : bool := negb (Qeq_bool (lat r) 0) && negb (Qeq_bool (lon r) 0).

Section Cells.
Variables (o : opts) (now : Z) (dcell : row -> bytes) (r : row).

(** one cell per header column, in header order, tagged with the column's group *)
Definition cells_base1 : list (string * bytes) := [
  (""%string, zero_pad 6 (hex_go 6 (icao r) []) ++ [32]);
  (""%string, pad_right 2 (str (reg r)) ++ [32]);
  (""%string, (match r_squawk r with Some s => zero_pad 4 (dec s) | None => spaces 4 end)
              ++ (match threat r with Some c => [c] | None => [32] end));
  (""%string, match get_wake_turbulence_category (category r) with Some w => [w; 32] | None => [32; 32] end);
  (""%string, match r_ais r with Some a => pad_right 8 a ++ [32] | None => spaces 8 ++ [32] end);
  (""%string, if pos_shown r then pad_left 9 (fmt_fixed 5 (lat r)) ++ [32] else spaces 9 ++ [32]);
  (""%string, if pos_shown r then pad_left 11 (fmt_fixed 5 (lon r)) ++ [32] else spaces 11 ++ [32]);
  (""%string, match dist r with Some _ => pad_left 5 (dcell r) ++ [32] | None => spaces 5 ++ [32] end);
  (""%string, match r_altitude r with Some a => pad_left 5 (dec a) ++ [altitude_source r] | None => spaces 5 ++ [32] end)].

Definition cells_altitude : list (string * bytes) := [
  ("altitude"%string, cell_oN 5 (altitude_gnss_ r));
  ("altitude"%string, match selected_altitude r with Some a => pad_left 5 (dec a) ++ [target_alt_source r] | None => spaces 5 ++ [32] end);
  ("altitude"%string, cell_oN 4 (baro_setting r))].

Definition cells_base2 : list (string * bytes) := [
  (""%string, match vrate r with Some v => pad_left 5 (decz v) ++ [vrate_source r] | None => spaces 6 end);
  (""%string, match track r with Some v => pad_left 3 (dec v) ++ [track_source r] | None => spaces 4 end);
  (""%string, match r_heading r with Some v => pad_left 3 (dec v) ++ [heading_source r] | None => spaces 4 end);
  (""%string, cell_oN 3 (grspeed r))].

Definition cells_speed : list (string * bytes) := [
  ("speed"%string, cell_oN 3 (true_airspeed r));
  ("speed"%string, cell_oN 3 (indicated_airspeed r));
  ("speed"%string, match mach r with Some q => pad_left 4 (fmt_fixed 2 q) ++ [32] | None => spaces 4 ++ [32] end)].

Definition cells_angles : list (string * bytes) := [
  ("angles"%string, cell_oZ 3 (roll_angle r));
  ("angles"%string, cell_oZ 3 (track_angle_rate r))].

Definition cells_weather : list (string * bytes) := [
  ("weather"%string, match temperature r with Some q => pad_left 5 (fmt_fixed 1 q) ++ [32] | None => spaces 5 ++ [32] end);
  ("weather"%string, match wind r with Some (a, _) => pad_left 3 (dec a) ++ [32] | None => spaces 3 ++ [32] end);
  ("weather"%string, match wind r with Some (_, b) => pad_left 3 (dec b) ++ [32] | None => spaces 3 ++ [32] end);
  ("weather"%string, cell_oN 3 (humidity r));
  ("weather"%string, cell_oN 4 (pressure r));
  ("weather"%string, cell_oN 2 (turbulence r))].

Definition cells_extra : list (string * bytes) := [
  ("extra"%string, dec (fst (category r)) ++ dec (snd (category r)) ++ [32]);
  ("extra"%string, if negb (last_df r =? 0) then pad_left 2 (dec (last_df r)) ++ [32] else spaces 2 ++ [32]);
  ("extra"%string, if negb (last_tc r =? 0) then pad_left 2 (dec (last_tc r)) ++ [32] else spaces 2 ++ [32]);
  ("extra"%string, match adsb_version r with Some v => pad_right 1 (dec v) ++ [32] | None => [32; 32] end);
  ("extra"%string, [surv_status r; 32]);
  ("extra"%string, age10 now (position_t r) ++ age10 now (track_t r)
                   ++ (match heading_t r with Some _ => age10 now (heading_t r) ++ [32] | None => [32; 32] end))].

Definition cells : list (string * bytes) :=
  cells_base1 ++ cells_altitude ++ cells_base2 ++ cells_speed ++ cells_angles ++ cells_weather ++ cells_extra.

Definition age_cell : bytes := pad_left 2 (decz (num_seconds now (timestamp r))).

Ltac all_on := rewrite ?enabled_cons_on by first [reflexivity | assumption]; rewrite enabled_nil.
Ltac all_off := rewrite ?enabled_cons_off by assumption; rewrite enabled_nil.

Lemma spaces_split a b : spaces (a + b) = spaces a ++ spaces b.
Proof. apply repeat_app. Qed.

Lemma enabled_base1 : enabled o cells_base1 =
  zero_pad 6 (hex_go 6 (icao r) []) ++ [32]
  ++ pad_right 2 (str (reg r)) ++ [32]
  ++ (match r_squawk r with Some s => zero_pad 4 (dec s) | None => spaces 4 end)
  ++ (match threat r with Some c => [c] | None => [32] end)
  ++ (match get_wake_turbulence_category (category r) with Some w => [w; 32] | None => [32; 32] end)
  ++ (match r_ais r with Some a => pad_right 8 a ++ [32] | None => spaces 8 ++ [32] end)
  ++ (if negb (Qeq_bool (lat r) 0) && negb (Qeq_bool (lon r) 0)
      then pad_left 9 (fmt_fixed 5 (lat r)) ++ [32] ++ pad_left 11 (fmt_fixed 5 (lon r)) ++ [32]
      else spaces 9 ++ [32] ++ spaces 11 ++ [32])
  ++ (match dist r with Some _ => pad_left 5 (dcell r) ++ [32] | None => spaces 5 ++ [32] end)
  ++ (match r_altitude r with Some a => pad_left 5 (dec a) ++ [altitude_source r] | None => spaces 5 ++ [32] end).
Proof.
  unfold cells_base1. all_on. fold (pos_shown r).
  destruct (pos_shown r); rewrite <- ?app_assoc, ?app_nil_r; reflexivity.
Qed.

Lemma enabled_altitude : enabled o cells_altitude =
  if fl_altitude o then
    cell_oN 5 (altitude_gnss_ r)
    ++ (match selected_altitude r with Some a => pad_left 5 (dec a) ++ [target_alt_source r] | None => spaces 5 ++ [32] end)
    ++ cell_oN 4 (baro_setting r)
  else [].
Proof.
  unfold cells_altitude. destruct (fl_altitude o) eqn:G; [all_on | all_off];
    rewrite <- ?app_assoc, ?app_nil_r; reflexivity.
Qed.

Lemma enabled_base2 : enabled o cells_base2 =
  (match vrate r with Some v => pad_left 5 (decz v) ++ [vrate_source r] | None => spaces 6 end)
  ++ (match track r with Some v => pad_left 3 (dec v) ++ [track_source r] | None => spaces 4 end)
  ++ (match r_heading r with Some v => pad_left 3 (dec v) ++ [heading_source r] | None => spaces 4 end)
  ++ cell_oN 3 (grspeed r).
Proof. unfold cells_base2. all_on. rewrite <- ?app_assoc, ?app_nil_r. reflexivity. Qed.

Lemma enabled_speed : enabled o cells_speed =
  if fl_speed o then
    cell_oN 3 (true_airspeed r) ++ cell_oN 3 (indicated_airspeed r)
    ++ (match mach r with Some q => pad_left 4 (fmt_fixed 2 q) ++ [32] | None => spaces 4 ++ [32] end)
  else [].
Proof.
  unfold cells_speed. destruct (fl_speed o) eqn:G; [all_on | all_off];
    rewrite <- ?app_assoc, ?app_nil_r; reflexivity.
Qed.

Lemma enabled_angles : enabled o cells_angles =
  if fl_angles o then cell_oZ 3 (roll_angle r) ++ cell_oZ 3 (track_angle_rate r) else [].
Proof.
  unfold cells_angles. destruct (fl_angles o) eqn:G; [all_on | all_off];
    rewrite <- ?app_assoc, ?app_nil_r; reflexivity.
Qed.

Lemma enabled_weather : enabled o cells_weather =
  if fl_weather o then
    (match temperature r with Some q => pad_left 5 (fmt_fixed 1 q) ++ [32] | None => spaces 5 ++ [32] end)
    ++ (match wind r with
        | Some (a, b) => pad_left 3 (dec a) ++ [32] ++ pad_left 3 (dec b) ++ [32]
        | None => spaces 7 ++ [32] end)
    ++ cell_oN 3 (humidity r) ++ cell_oN 4 (pressure r) ++ cell_oN 2 (turbulence r)
  else [].
Proof.
  unfold cells_weather. destruct (fl_weather o) eqn:G; [all_on | all_off; reflexivity].
  destruct (wind r) as [[a b]|]; rewrite <- ?app_assoc, ?app_nil_r; reflexivity.
Qed.

Lemma enabled_extra : enabled o cells_extra =
  if fl_extra o then
    dec (fst (category r)) ++ dec (snd (category r)) ++ [32]
    ++ (if negb (last_df r =? 0) then pad_left 2 (dec (last_df r)) ++ [32] else spaces 2 ++ [32])
    ++ (if negb (last_tc r =? 0) then pad_left 2 (dec (last_tc r)) ++ [32] else spaces 2 ++ [32])
    ++ (match adsb_version r with Some v => pad_right 1 (dec v) ++ [32] | None => [32; 32] end)
    ++ [surv_status r; 32]
    ++ age10 now (position_t r) ++ age10 now (track_t r)
    ++ (match heading_t r with Some _ => age10 now (heading_t r) ++ [32] | None => [32; 32] end)
  else [].
Proof.
  unfold cells_extra. destruct (fl_extra o) eqn:G; [all_on | all_off; reflexivity].
  rewrite <- ?app_assoc, ?app_nil_r. reflexivity.
Qed.

(** the row is exactly the enabled cells, in header order, followed by the age *)
Theorem row_cells : render_row o now dcell r = enabled o cells ++ age_cell.
Proof.
  unfold cells. rewrite !enabled_app.
  rewrite enabled_base1, enabled_altitude, enabled_base2, enabled_speed, enabled_angles,
    enabled_weather, enabled_extra.
  unfold render_row, age_cell. rewrite <- ?app_assoc. reflexivity.
Qed.

End Cells.

(** ---- 2. values that fit their cells ---- *)

Definition fitsN (bound : N) (v : option N) : Prop := forall x, v = Some x -> x < bound.
Definition fitsZ (lo hi : Z) (v : option Z) : Prop := forall x, v = Some x -> (lo < x < hi)%Z.
Definition fitsQ (p w : nat) (v : option Q) : Prop :=
  forall q, v = Some q -> (List.length (fmt_fixed p q) <= w)%nat.

(** every value fits its cell.  The conditions on the optional groups are only required when
    the group is displayed.  Single-character fields (threat, wake category, the altitude /
    vrate / track / heading source marks, surveillance status, the three age digits) and the
    address (always six hex digits) need no condition. *)
Record fits_with (dcell : row -> bytes) (o : opts) (now : Z) (r : row) : Prop := {
  fit_reg : (String.length (reg r) <= 2)%nat;
  fit_squawk : fitsN 10000 (r_squawk r);
  fit_callsign : forall a, r_ais r = Some a -> (List.length a <= 8)%nat;
  fit_lat : pos_shown r = true -> (List.length (fmt_fixed 5 (lat r)) <= 9)%nat;
  fit_lon : pos_shown r = true -> (List.length (fmt_fixed 5 (lon r)) <= 11)%nat;
  fit_dist : dist r <> None -> (List.length (dcell r) <= 5)%nat;
  fit_altitude : fitsN 100000 (r_altitude r);
  fit_gnss : fl_altitude o = true -> fitsN 100000 (altitude_gnss_ r);
  fit_selected : fl_altitude o = true -> fitsN 100000 (selected_altitude r);
  fit_baro : fl_altitude o = true -> fitsN 10000 (baro_setting r);
  fit_vrate : fitsZ (-10000) 100000 (vrate r);
  fit_track : fitsN 1000 (track r);
  fit_heading : fitsN 1000 (r_heading r);
  fit_grspeed : fitsN 1000 (grspeed r);
  fit_tas : fl_speed o = true -> fitsN 1000 (true_airspeed r);
  fit_ias : fl_speed o = true -> fitsN 1000 (indicated_airspeed r);
  fit_mach : fl_speed o = true -> fitsQ 2 4 (mach r);
  fit_roll : fl_angles o = true -> fitsZ (-100) 1000 (roll_angle r);
  fit_tar : fl_angles o = true -> fitsZ (-100) 1000 (track_angle_rate r);
  fit_temperature : fl_weather o = true -> fitsQ 1 5 (temperature r);
  fit_wind : fl_weather o = true -> forall a b, wind r = Some (a, b) -> a < 1000 /\ b < 1000;
  fit_humidity : fl_weather o = true -> fitsN 1000 (humidity r);
  fit_pressure : fl_weather o = true -> fitsN 10000 (pressure r);
  fit_turbulence : fl_weather o = true -> fitsN 100 (turbulence r);
  fit_category : fl_extra o = true -> fst (category r) < 10 /\ snd (category r) < 10;
  fit_last_df : fl_extra o = true -> last_df r < 100;
  fit_last_tc : fl_extra o = true -> last_tc r < 100;
  fit_version : fl_extra o = true -> fitsN 10 (adsb_version r);
  fit_age : (-10 < num_seconds now (timestamp r) < 100)%Z
}.

(** arithmetic conditions sufficient for the fixed-point cells *)
Lemma lat_fits q : (Qabs q <= 99 # 1)%Q -> (List.length (fmt_fixed 5 q) <= 9)%nat.
Proof. intros H. apply (fmt_fixed_length_le 5 2 q); [lia | lia | exact H]. Qed.

Lemma lon_fits q : (Qabs q <= 999 # 1)%Q -> (List.length (fmt_fixed 5 q) <= 11)%nat.
Proof.
  intros H. pose proof (fmt_fixed_length_le 5 3 q) as L.
  assert (List.length (fmt_fixed 5 q) <= 1 + 3 + 1 + 5)%nat by (apply L; [lia | lia | exact H]). lia.
Qed.

Lemma mach_fits q : (0 <= q)%Q -> (q <= 9 # 1)%Q -> (List.length (fmt_fixed 2 q) <= 4)%nat.
Proof. intros H0 H. apply (fmt_fixed_length_le_nonneg 2 1 q); [lia | lia | exact H0 | exact H]. Qed.

Lemma temperature_fits q : (Qabs q <= 99 # 1)%Q -> (List.length (fmt_fixed 1 q) <= 5)%nat.
Proof. intros H. apply (fmt_fixed_length_le 1 2 q); [lia | lia | exact H]. Qed.

Lemma age10_length now t : List.length (age10 now t) = 1%nat.
Proof. destruct t; reflexivity. Qed.

(** a cell is aligned with a header column: same group, and (when displayed) the column's
    width plus the separating blank *)
Definition cell_ok (o : opts) (c : string * bytes) (col : string * string * nat) : Prop :=
  fst c = fst (fst col) /\ (group_on o (fst c) = true -> List.length (snd c) = S (snd col)).

Ltac dec_side :=
  match goal with
  | |- (List.length (dec ?x) <= ?w)%nat =>
      apply (dec_length_le w); [lia | first [assumption | lia]]
  | |- (List.length (decz ?x) <= ?w)%nat =>
      apply (decz_length_le w);
      [lia | let lo := eval vm_compute in (- 10 ^ Z.of_nat (w - 1))%Z in
             let hi := eval vm_compute in (10 ^ Z.of_nat w)%Z in
             change (lo < x < hi)%Z; lia]
  | |- (List.length (str _) <= _)%nat => rewrite str_length; assumption
  | |- (List.length (hex_go _ _ _) <= _)%nat => rewrite hex_go_length; apply Nat.le_refl
  | _ => first [assumption | lia]
  end.

Ltac use_fits :=
  repeat match goal with
  | H : ?b = true -> _, G : ?b = true |- _ => specialize (H G)
  | H : true = true -> _ |- _ => specialize (H eq_refl)
  | H : Some _ <> None -> _ |- _ => specialize (H ltac:(discriminate))
  end;
  repeat match goal with
  | H : fitsN _ (Some ?x) |- _ => pose proof (H x eq_refl); clear H
  | H : fitsZ _ _ (Some ?x) |- _ => pose proof (H x eq_refl); clear H
  | H : fitsQ _ _ (Some ?x) |- _ => pose proof (H x eq_refl); clear H
  | H : forall a, Some ?x = Some a -> _ |- _ => pose proof (H x eq_refl); clear H
  | H : forall a b, Some (?x, ?y) = Some (a, b) -> _ |- _ => destruct (H x y eq_refl); clear H
  | H : _ /\ _ |- _ => destruct H
  end.

Ltac cell_len :=
  repeat match goal with
  | |- context [match ?v with Some _ => _ | None => _ end] => destruct v eqn:?
  | |- context [let (_, _) := ?p in _] => destruct p
  | |- context [if ?b then _ else _] => destruct b eqn:?
  end;
  use_fits;
  rewrite ?app_length;
  rewrite ?pad_left_fits by dec_side;
  rewrite ?pad_right_fits by dec_side;
  rewrite ?zero_pad_fits by dec_side;
  rewrite ?dec_digit by assumption;
  rewrite ?spaces_length, ?age10_length;
  try reflexivity.

Theorem cells_aligned dcell o now r : fits_with dcell o now r ->
  Forall2 (cell_ok o) (cells now dcell r) header_cols.
Proof.
  intros [].
  unfold cells, cells_base1, cells_altitude, cells_base2, cells_speed, cells_angles,
    cells_weather, cells_extra, header_cols, cell_oN, cell_oZ.
  cbn [app].
  repeat (apply Forall2_cons; [split; [reflexivity | cbn [fst snd]; intro G] | ]);
    [.. | apply Forall2_nil].
  all: try change (fl_altitude o = true) in G.
  all: try change (fl_speed o = true) in G.
  all: try change (fl_angles o = true) in G.
  all: try change (fl_weather o = true) in G.
  all: try change (fl_extra o = true) in G.
  all: unfold pos_shown in *.
  all: cell_len.
Qed.

Lemma cols_width_cons on g name w cols :
  cols_width on ((g, name, w) :: cols) =
  if on g then (S w + cols_width on cols)%nat else cols_width on cols.
Proof. reflexivity. Qed.

(** aligned cells take exactly the width of their (enabled) columns *)
Lemma enabled_length o cs cols :
  Forall2 (cell_ok o) cs cols -> List.length (enabled o cs) = cols_width (group_on o) cols.
Proof.
  induction 1 as [|c [[g name] w] cs cols [Hg Hw] _ IH]; [reflexivity|].
  rewrite enabled_cons, app_length, IH, cols_width_cons.
  cbn [fst snd] in Hg, Hw. rewrite <- Hg.
  destruct (group_on o (fst c)); [rewrite Hw by reflexivity | ]; simpl; lia.
Qed.

Lemma age_cell_length now r : (-10 < num_seconds now (timestamp r) < 100)%Z ->
  List.length (age_cell now r) = String.length header_tail.
Proof.
  intros H. unfold age_cell. rewrite pad_left_fits; [reflexivity|].
  apply (decz_length_le 2); [lia|]. change (-10 < num_seconds now (timestamp r) < 100)%Z. exact H.
Qed.

(** 2. whenever every value fits its column, the row is as wide as the header (and, by
    [header_separator_same_width], as the separator) *)
Theorem row_width o now dcell r : fits_with dcell o now r ->
  List.length (render_row o now dcell r) = List.length (header_line o).
Proof.
  intros F. rewrite row_cells, app_length.
  rewrite (enabled_length o _ _ (cells_aligned dcell o now r F)).
  rewrite (age_cell_length now r (fit_age _ _ _ _ F)).
  rewrite header_length, flags_width_eq. reflexivity.
Qed.

Corollary row_separator_width o now dcell r : fits_with dcell o now r ->
  List.length (render_row o now dcell r) = List.length (separator_line o).
Proof. intros F. rewrite <- header_separator_same_width. apply row_width. exact F. Qed.

(** 4 (rows). the row width as a function of the flags: same groups, same numbers *)
Corollary row_groups_width o now dcell r : fits_with dcell o now r ->
  List.length (render_row o now dcell r) =
  (80 + (if fl_altitude o then 17 else 0) + (if fl_speed o then 13 else 0)
      + (if fl_angles o then 8 else 0) + (if fl_weather o then 26 else 0)
      + (if fl_extra o then 17 else 0))%nat.
Proof. intros F. rewrite (row_width o now dcell r F). apply header_groups_width. Qed.

(** each cell starts under its header column: the first k cells and the first k header
    columns take the same width, for every k *)
Definition header_cell (o : opts) (col : string * string * nat) : bytes :=
  let '(g, name, w) := col in if group_on o g then pad_left w (str name) ++ [32] else [].

Lemma Forall2_firstn {A B} (P : A -> B -> Prop) l1 l2 k :
  Forall2 P l1 l2 -> Forall2 P (firstn k l1) (firstn k l2).
Proof.
  intros H. revert k. induction H; intros [|k]; cbn [firstn]; constructor; auto.
Qed.

Lemma In_firstn {A} (x : A) k : forall l, In x (firstn k l) -> In x l.
Proof.
  induction k; intros [|y l]; cbn [firstn]; intros H; try contradiction.
  destruct H as [H|H]; [left; exact H | right; apply IHk; exact H].
Qed.

Lemma names_fit_firstn k cols : names_fit cols = true -> names_fit (firstn k cols) = true.
Proof.
  unfold names_fit. rewrite !forallb_forall. intros H x Hx. apply H. eapply In_firstn. exact Hx.
Qed.

Theorem cell_offsets o now dcell r : fits_with dcell o now r -> forall k,
  List.length (enabled o (firstn k (cells now dcell r))) =
  List.length (List.concat (map (header_cell o) (firstn k header_cols))).
Proof.
  intros F k.
  rewrite (enabled_length o _ (firstn k header_cols)
             (Forall2_firstn _ _ _ k (cells_aligned dcell o now r F))).
  symmetry. apply (header_concat_length (group_on o)).
  apply names_fit_firstn. exact header_cols_names_fit.
Qed.

(** ... and is as wide as that column (plus the separating blank) *)
Theorem cell_widths o now dcell r : fits_with dcell o now r ->
  Forall2 (fun c col => group_on o (fst (fst col)) = true ->
                        List.length (snd c) = List.length (header_cell o col))
    (cells now dcell r) header_cols.
Proof.
  intros F. pose proof (cells_aligned dcell o now r F) as H.
  pose proof header_cols_names_fit as N. unfold names_fit in N. rewrite forallb_forall in N.
  assert (N' : Forall (fun col : string * string * nat =>
             let '(_, name, w) := col in (String.length name <= w)%nat) header_cols).
  { apply Forall_forall. intros [[g name] w] Hin. apply Nat.leb_le. exact (N _ Hin). }
  clear N. revert N'. induction H as [|c [[g name] w] cs cols [Hg Hw] _ IH]; intros N'.
  - constructor.
  - inversion N' as [|? ? Hn Ht]; subst. constructor; [|exact (IH Ht)].
    cbn [fst snd] in *. intros G. unfold header_cell. rewrite G.
    transitivity (S w); [apply Hw; rewrite Hg; exact G|].
    rewrite app_length, pad_left_fits by (rewrite str_length; exact Hn). simpl. lia.
Qed.

(** the same with arithmetic bounds only (sufficient, not necessary: e.g. |lat| <= 99) *)
Record fits_bounds (dcell : row -> bytes) (o : opts) (now : Z) (r : row) : Prop := {
  bnd_reg : (String.length (reg r) <= 2)%nat;
  bnd_squawk : fitsN 10000 (r_squawk r);
  bnd_callsign : forall a, r_ais r = Some a -> (List.length a <= 8)%nat;
  bnd_lat : pos_shown r = true -> (Qabs (lat r) <= 99 # 1)%Q;
  bnd_lon : pos_shown r = true -> (Qabs (lon r) <= 999 # 1)%Q;
  bnd_dist : dist r <> None -> (List.length (dcell r) <= 5)%nat;
  bnd_altitude : fitsN 100000 (r_altitude r);
  bnd_gnss : fl_altitude o = true -> fitsN 100000 (altitude_gnss_ r);
  bnd_selected : fl_altitude o = true -> fitsN 100000 (selected_altitude r);
  bnd_baro : fl_altitude o = true -> fitsN 10000 (baro_setting r);
  bnd_vrate : fitsZ (-10000) 100000 (vrate r);
  bnd_track : fitsN 1000 (track r);
  bnd_heading : fitsN 1000 (r_heading r);
  bnd_grspeed : fitsN 1000 (grspeed r);
  bnd_tas : fl_speed o = true -> fitsN 1000 (true_airspeed r);
  bnd_ias : fl_speed o = true -> fitsN 1000 (indicated_airspeed r);
  bnd_mach : fl_speed o = true -> forall q, mach r = Some q -> (0 <= q)%Q /\ (q <= 9 # 1)%Q;
  bnd_roll : fl_angles o = true -> fitsZ (-100) 1000 (roll_angle r);
  bnd_tar : fl_angles o = true -> fitsZ (-100) 1000 (track_angle_rate r);
  bnd_temperature : fl_weather o = true -> forall q, temperature r = Some q -> (Qabs q <= 99 # 1)%Q;
  bnd_wind : fl_weather o = true -> forall a b, wind r = Some (a, b) -> a < 1000 /\ b < 1000;
  bnd_humidity : fl_weather o = true -> fitsN 1000 (humidity r);
  bnd_pressure : fl_weather o = true -> fitsN 10000 (pressure r);
  bnd_turbulence : fl_weather o = true -> fitsN 100 (turbulence r);
  bnd_category : fl_extra o = true -> fst (category r) < 10 /\ snd (category r) < 10;
  bnd_last_df : fl_extra o = true -> last_df r < 100;
  bnd_last_tc : fl_extra o = true -> last_tc r < 100;
  bnd_version : fl_extra o = true -> fitsN 10 (adsb_version r);
  bnd_age : (-10 < num_seconds now (timestamp r) < 100)%Z
}.

Theorem fits_bounds_fits dcell o now r : fits_bounds dcell o now r -> fits_with dcell o now r.
Proof.
  intros []. constructor; try assumption.
  - intros H. apply lat_fits. auto.
  - intros H. apply lon_fits. auto.
  - intros H q E. destruct (bnd_mach0 H q E). apply mach_fits; assumption.
  - intros H q E. apply temperature_fits. exact (bnd_temperature0 H q E).
Qed.

Corollary row_width_bounds o now dcell r : fits_bounds dcell o now r ->
  List.length (render_row o now dcell r) = List.length (header_line o).
Proof. intros F. apply row_width. apply fits_bounds_fits. exact F. Qed.

(** ---- 3. blank when unknown ---- *)

(** for each header column, in order: the condition under which its value is unknown.
    The address and the category digits are always printed ([False]); latitude/longitude are
    unknown when either is the 0.0 sentinel. *)
Definition unknown_conds (r : row) : list Prop := [
  (* ICAO *) False;
  (* RG *) reg r = EmptyString;
  (* SQWK *) r_squawk r = None /\ threat r = None;
  (* W *) get_wake_turbulence_category (category r) = None;
  (* CALLSIGN *) r_ais r = None;
  (* LATITUDE *) pos_shown r = false;
  (* LONGITUDE *) pos_shown r = false;
  (* DIST *) dist r = None;
  (* ALT B *) r_altitude r = None;
  (* ALT G *) altitude_gnss_ r = None;
  (* ALT S *) selected_altitude r = None;
  (* BARO *) baro_setting r = None;
  (* VRATE *) vrate r = None;
  (* TRK *) track r = None;
  (* HDG *) r_heading r = None;
  (* GSP *) grspeed r = None;
  (* TAS *) true_airspeed r = None;
  (* IAS *) indicated_airspeed r = None;
  (* MACH *) mach r = None;
  (* RLL *) roll_angle r = None;
  (* TAR *) track_angle_rate r = None;
  (* TEMP *) temperature r = None;
  (* WND *) wind r = None;
  (* WDR *) wind r = None;
  (* HUM *) humidity r = None;
  (* PRES *) pressure r = None;
  (* TB *) turbulence r = None;
  (* VX *) False;
  (* DF *) last_df r = 0;
  (* TC *) last_tc r = 0;
  (* V *) adsb_version r = None;
  (* S *) surv_status r = 32;
  (* PTH *) position_t r = None /\ track_t r = None /\ heading_t r = None].

Lemma unknown_conds_per_column r : List.length (unknown_conds r) = List.length header_cols.
Proof. reflexivity. Qed.

(** a cell whose value is unknown consists of blanks only *)
Theorem blank_when_unknown now dcell r :
  Forall2 (fun c (unknown : Prop) => unknown -> blank (snd c)) (cells now dcell r) (unknown_conds r).
Proof.
  unfold cells, cells_base1, cells_altitude, cells_base2, cells_speed, cells_angles,
    cells_weather, cells_extra, unknown_conds, cell_oN, cell_oZ.
  cbn [app].
  repeat (apply Forall2_cons; [cbn [snd]; intros H | ]); [.. | apply Forall2_nil].
  all: try contradiction.
  all: repeat match goal with H : _ /\ _ |- _ => destruct H end.
  all: repeat match goal with E : _ = _ |- _ => rewrite E; clear E end.
  all: unfold blank; vm_compute; repeat constructor.
Qed.

(** the row as first created: nothing known but the address *)
Lemma num_seconds_diag t : num_seconds t t = 0%Z.
Proof. unfold num_seconds. rewrite Z.sub_diag. reflexivity. Qed.

Lemma zero_pad_exact w s : List.length s = w -> zero_pad w s = s.
Proof. intros H. unfold zero_pad. rewrite H, Nat.sub_diag. reflexivity. Qed.

Theorem row_new_render o now dcell a :
  render_row o now dcell (row_new now <| icao := a |>) =
  hex_go 6 a []
  ++ spaces (54 + (if fl_altitude o then 17 else 0) + 18 + (if fl_speed o then 13 else 0)
             + (if fl_angles o then 8 else 0) + (if fl_weather o then 26 else 0))
  ++ (if fl_extra o then [48; 48] ++ spaces 15 else [])
  ++ [32; 48].
Proof.
  unfold render_row.
  change (timestamp (row_new now <| icao := a |>)) with now.
  change (icao (row_new now <| icao := a |>)) with a.
  rewrite num_seconds_diag, decz_0.
  rewrite (zero_pad_exact 6) by (rewrite hex_go_length; reflexivity).
  generalize (hex_go 6 a []). intros h.
  destruct (fl_altitude o), (fl_speed o), (fl_angles o), (fl_weather o), (fl_extra o);
    vm_compute; reflexivity.
Qed.

Theorem row_new_width o now dcell a :
  List.length (render_row o now dcell (row_new now <| icao := a |>)) = List.length (header_line o).
Proof.
  rewrite row_new_render, header_groups_width.
  rewrite !app_length, hex_go_length, spaces_length.
  destruct (fl_altitude o), (fl_speed o), (fl_angles o), (fl_weather o), (fl_extra o); reflexivity.
Qed.

(** all of [row_new]'s optional values are unknown *)
Theorem row_new_unknown now a :
  Forall2 (fun (unknown : Prop) col => unknown \/ In (snd (fst col)) ["ICAO"; "VX"]%string)
    (unknown_conds (row_new now <| icao := a |>)) header_cols.
Proof.
  unfold unknown_conds, header_cols.
  repeat (apply Forall2_cons; [cbn [fst snd] | ]); [.. | apply Forall2_nil].
  all: first [ left; repeat split; reflexivity | right; simpl; tauto ].
Qed.

(** the fitting condition is satisfiable: a freshly created row fits, whatever the options *)
Theorem row_new_fits dcell o now a : fits_with dcell o now (row_new now <| icao := a |>).
Proof.
  constructor; unfold fitsN, fitsZ, fitsQ; try (intros; discriminate).
  - simpl. lia.
  - intros H. exfalso. apply H. reflexivity.
  - intros _. split; reflexivity.
  - intros _. reflexivity.
  - intros _. reflexivity.
  - change (timestamp (row_new now <| icao := a |>)) with now. rewrite num_seconds_diag. lia.
Qed.

(** ---- 4. groups appear exactly when their letter is given ---- *)

Lemma group_on_iff o g :
  group_on o g = true <->
  g = ""%string
  \/ (g = "altitude"%string /\ In 65 (display_info o))     (* A *)
  \/ (g = "speed"%string /\ In 115 (display_info o))       (* s *)
  \/ (g = "angles"%string /\ In 97 (display_info o))       (* a *)
  \/ (g = "weather"%string /\ In 119 (display_info o))     (* w *)
  \/ (g = "extra"%string /\ In 101 (display_info o)).      (* e *)
Proof.
  unfold group_on, fl_altitude, fl_speed, fl_angles, fl_weather, fl_extra.
  repeat match goal with
  | |- context [String.eqb g ?s] => destruct (String.eqb_spec g s) as [->|?]
  end; rewrite ?has_flag_iff; split; intros H; try tauto; try discriminate;
  repeat match goal with
  | H : _ \/ _ |- _ => destruct H
  | H : _ /\ _ |- _ => destruct H
  end; try tauto; try discriminate; congruence.
Qed.

(** the letters are those of the generated flag table *)
Lemma flag_letters_agree :
  map (fun p : string * string => (fst p, str (snd p))) flag_letters =
  [("weather"%string, [119]); ("angles"%string, [97]); ("speed"%string, [115]);
   ("altitude"%string, [65]); ("extra"%string, [101]); ("quiet"%string, [81])].
Proof. reflexivity. Qed.

Lemma concat_map_if {A} (p : A -> bool) (f : A -> bytes) (l : list A) :
  List.concat (map (fun x => if p x then f x else []) l) = List.concat (map f (filter p l)).
Proof.
  induction l as [|x l IH]; [reflexivity|].
  cbn [map filter List.concat]. destruct (p x); cbn [map List.concat]; rewrite IH; reflexivity.
Qed.

(** the header shows exactly the columns whose group is enabled, in table order ... *)
Theorem header_shows_enabled_columns o :
  header_line o =
  List.concat (map (fun col : string * string * nat => pad_left (snd col) (str (snd (fst col))) ++ [32])
                 (filter (fun col => group_on o (fst (fst col))) header_cols))
  ++ str header_tail.
Proof.
  unfold header_line. f_equal. rewrite <- concat_map_if.
  apply (f_equal (@List.concat N)). apply map_ext. intros [[g name] w]. reflexivity.
Qed.

(** ... and so does every row ([row_cells], restated) *)
Theorem row_shows_enabled_cells o now dcell r :
  render_row o now dcell r =
  List.concat (map snd (filter (fun c => group_on o (fst c)) (cells now dcell r))) ++ age_cell now r.
Proof. apply row_cells. Qed.

Theorem cells_groups now dcell r :
  map fst (cells now dcell r) = map (fun col : string * string * nat => fst (fst col)) header_cols.
Proof. reflexivity. Qed.

(** ---- a whole frame ---- *)

Lemma In_insert_by {A} (key : A -> Z) x y l : In x (insert_by key y l) -> x = y \/ In x l.
Proof.
  induction l as [|z l IH]; cbn [insert_by]; intros H.
  - destruct H as [H|[]]. left. symmetry. exact H.
  - destruct (key y <? key z)%Z.
    + destruct H as [H|H]; [left; symmetry; exact H | right; exact H].
    + destruct H as [H|H]; [right; left; exact H|].
      destruct (IH H) as [E|E]; [left; exact E | right; right; exact E].
Qed.

Lemma In_stable_sort {A} (key : A -> Z) x l : In x (stable_sort key l) -> In x l.
Proof.
  unfold stable_sort.
  assert (G : forall l acc, In x (fold_left (fun acc x => insert_by key x acc) l acc) -> In x l \/ In x acc).
  { clear l. induction l as [|y l IH]; intros acc H; cbn [fold_left] in H; [right; exact H|].
    destruct (IH _ H) as [E|E]; [left; right; exact E|].
    destruct (In_insert_by _ _ _ _ E) as [->|E']; [left; left; reflexivity | right; exact E']. }
  intros H. destruct (G _ _ H) as [E|[]]. exact E.
Qed.

Lemma In_apply_sort dkey l c x : In x (apply_sort dkey l c) -> In x l.
Proof.
  unfold apply_sort. destruct (sort_action_of dkey c) as [key rv|]; [|auto].
  destruct rv; intros H; [apply in_rev in H|]; apply In_stable_sort in H; exact H.
Qed.

Lemma In_print_order dkey ob t x : In x (print_order dkey ob t) -> In x t.
Proof.
  unfold print_order. generalize (List.concat ob). intros cs.
  assert (G : forall cs l, In x (fold_left (apply_sort dkey) cs l) -> In x l).
  { clear cs. induction cs as [|c cs IH]; intros l H; cbn [fold_left] in H; [exact H|].
    apply IH in H. apply In_apply_sort in H. exact H. }
  intros H. apply G in H. apply In_stable_sort in H. exact H.
Qed.

(** every table line of a refresh (header, separator, rows, closing separator) has the same
    display width when every row of the table fits *)
Theorem frame_lines_same_width o now dkey dcell s :
  (forall p, In p (tbl s) -> fits_with dcell o now (snd p)) ->
  Forall (fun l => List.length l = List.length (header_line o))
    ([header_line o; separator_line o]
     ++ map (fun p => render_row o now dcell (snd p)) (print_order dkey (order_by o) (tbl s))
     ++ [separator_line o]).
Proof.
  intros F. apply Forall_app. split; [|apply Forall_app; split].
  - repeat constructor. symmetry. apply header_separator_same_width.
  - apply Forall_forall. intros l Hl. apply in_map_iff in Hl. destruct Hl as [p [<- Hp]].
    apply row_width. apply F. eapply In_print_order. exact Hp.
  - repeat constructor. symmetry. apply header_separator_same_width.
Qed.

Print Assumptions header_separator_same_width.
Print Assumptions row_width.
Print Assumptions cells_aligned.
Print Assumptions cell_offsets.
Print Assumptions cell_widths.
Print Assumptions blank_when_unknown.
Print Assumptions row_new_render.
Print Assumptions row_new_width.
Print Assumptions header_groups_width.
Print Assumptions row_groups_width.
Print Assumptions group_on_iff.
Print Assumptions header_shows_enabled_columns.
Print Assumptions row_shows_enabled_cells.
Print Assumptions frame_lines_same_width.
Print Assumptions fmt_fixed_length_le.
Print Assumptions row_width_bounds.
Print Assumptions row_new_fits.
