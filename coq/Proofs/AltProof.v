(** C05: the altitude decoder against the altitude-code specification. *)
From SQ Require Import Base RangeSpec Decode Tables Known AltSpec SquawkProof TotalDecode.
Local Open Scope N_scope.

(** ---- locality: for df <> 17 the decoder only looks at nibbles 4..7 ---- *)
Definition loc47 (m : list N) : list N := [0;0;0;0; nth 4 m 0; nth 5 m 0; nth 6 m 0; nth 7 m 0].

Lemma ma_go_local m i acc : (8 <= List.length m)%nat -> ma_go m ma_bits i acc = ma_go (loc47 m) ma_bits i acc.
Proof.
  intros L. apply ma_go_ext. intros p Hp.
  pose proof ma_reads_ok as R. unfold ma_reads_4_7 in R. rewrite forallb_forall in R.
  specialize (R p Hp). apply andb_prop in R. destruct R as [R1 R2].
  apply Nat.leb_le in R1. apply Nat.leb_le in R2.
  assert (fst p = 4 \/ fst p = 5 \/ fst p = 6 \/ fst p = 7)%nat as D by lia.
  destruct m as [|m0 [|m1 [|m2 [|m3 [|m4 [|m5 [|m6 [|m7 mt]]]]]]]]; cbn [List.length] in L; try lia.
  unfold loc47. cbn [nth].
  destruct D as [D | [D | [D | D]]]; rewrite D; reflexivity.
Qed.

Lemma ma_code_local m : (8 <= List.length m)%nat -> ma_code m = ma_code (loc47 m).
Proof. intros L. unfold ma_code. rewrite (ma_go_local m 0 0 L). reflexivity. Qed.

Lemma graytobin_local m : (8 <= List.length m)%nat -> graytobin m = graytobin (loc47 m).
Proof. intros L. unfold graytobin. rewrite (ma_code_local m L). reflexivity. Qed.

Lemma altitude_value_local m c : (8 <= List.length m)%nat -> altitude_value m c = altitude_value (loc47 m) c.
Proof. intros L. unfold altitude_value. rewrite (graytobin_local m L). reflexivity. Qed.

Lemma altitude_local m df : (8 <= List.length m)%nat -> (df =? 17) = false ->
  altitude m df = altitude (loc47 m) 4.
Proof.
  intros L D. unfold altitude. rewrite D. change (4 =? 17) with false. cbv iota.
  rewrite (ma_code_local m L).
  destruct (ma_code (loc47 m)) as [c|]; cbn [bind]; [|reflexivity].
  rewrite (altitude_value_local m c L). reflexivity.
Qed.

Lemma field_20_32_local m : field m 20 32 = field (loc47 m) 20 32.
Proof. reflexivity. Qed.

(** ---- the known finding K1a: codes on which the Gillham branch is wrong, with the value produced ---- *)
Fixpoint known_lookup (l : list (N * N)) (c : N) : option N :=
  match l with
  | [] => None
  | (k, v) :: t => if k =? c then Some v else known_lookup t c
  end.
Definition known_ac13 (c : N) : bool :=
  match known_lookup known_c05_ac13 c with Some _ => true | None => false end.

Definition enc_alt (a : option N) : N := match a with Some v => v | None => 4294967295 end.
Definition oeqb (a b : option N) : bool :=
  match a, b with Some x, Some y => x =? y | None, None => true | _, _ => false end.
Lemma oeqb_eq a b : oeqb a b = true -> a = b.
Proof. destruct a, b; cbn; intros H; try discriminate; [apply N.eqb_eq in H; subst|]; reflexivity. Qed.

(** sweep: for every content of nibbles 4..7, M = 0: either the code is a listed known finding and the
    model produces exactly the listed value, or the model equals the specification *)
Definition alt_ok4 (a b c d : N) : bool :=
  let m := [0;0;0;0;a;b;c;d] in
  let code := field m 20 32 in
  match altitude m 4 with
  | Ok v =>
      if m_bit code then true
      else match known_lookup known_c05_ac13 code with
           | Some w => (enc_alt v =? w) && negb (oeqb v (alt13_spec code)) && negb (q_bit13 code)
           | None => oeqb v (alt13_spec code)
           end
  | Panic _ => false
  end.

Lemma alt_sweep : all4 alt_ok4 = true.
Proof. vm_cast_no_check (eq_refl true). Qed.

Lemma alt_ok4_elim a b c d :
  alt_ok4 a b c d = true ->
  let m := [0;0;0;0;a;b;c;d] in
  m_bit (field m 20 32) = false -> known_ac13 (field m 20 32) = false ->
  altitude m 4 = Ok (alt13_spec (field m 20 32)).
Proof.
  unfold alt_ok4, known_ac13. cbv zeta.
  generalize (field [0;0;0;0;a;b;c;d] 20 32). intros code.
  destruct (altitude [0;0;0;0;a;b;c;d] 4) as [v|]; [|discriminate].
  intros H M K. rewrite M in H.
  destruct (known_lookup known_c05_ac13 code); [discriminate|].
  apply oeqb_eq in H. subst. reflexivity.
Qed.

Lemma altitude_lt m df v : altitude m df = Ok (Some v) -> v < 100000.
Proof.
  unfold altitude. intros H.
  destruct (if df =? 17 then me_code m else ma_code m) as [c|]; cbn [bind] in H; [|discriminate].
  destruct (altitude_value m c) as [a|]; cbn [bind] in H; [|discriminate].
  destruct a as [x|]; cbn in H; [|discriminate].
  destruct (x <? 100000) eqn:E; inversion H; subst. apply N.ltb_lt. exact E.
Qed.

(** 13-bit altitude code of DF4 / DF20 (and every df <> 17), M = 0, not a listed known finding *)
Theorem altitude_ac13_correct m df :
  (8 <= List.length m)%nat -> wf m -> (df =? 17) = false ->
  m_bit (field m 20 32) = false -> known_ac13 (field m 20 32) = false ->
  altitude m df = Ok (alt13_spec (field m 20 32)).
Proof.
  intros L W D M K. rewrite (altitude_local m df L D). rewrite field_20_32_local in *.
  apply (alt_ok4_elim (nth 4 m 0) (nth 5 m 0) (nth 6 m 0) (nth 7 m 0)); [|exact M|exact K].
  apply (all4_sound alt_ok4 alt_sweep); apply wf_nth; exact W.
Qed.

(** witness: the known-finding class is not empty and the model really is wrong on it *)
Lemma known_ac13_witness :
  exists m, known_ac13 (field m 20 32) = true /\ m_bit (field m 20 32) = false /\
            altitude m 4 <> Ok (alt13_spec (field m 20 32)).
Proof. exists [2;0;0;0;0;0;0;8;0;0;0;0;0;0]. vm_compute. repeat split; discriminate. Qed.

(** ---- 12-bit code of DF17 TC 9..18 : Q = 1 or all zero (Q = 0, non-zero is known finding K1b) ---- *)

(** the part of altitude_value that does not need the Gillham branch *)
Definition av_nog (code : N) : option (option N) :=
  if N.land code 2 =? 0 then
    if N.land code 1 =? 0 then
      (if N.shiftr code 2 =? 0 then Some None else None)
    else
      let n := N.lor (N.shiftl (N.shiftr code 7) 4) (N.land (N.shiftr code 2) 15) in
      Some (if 1000 <=? n * 25 then Some (n * 25 - 1000) else None)
  else
    let n := N.lor (N.land (N.shiftl (N.shiftr code 7) 4) 2032) (N.land (N.shiftr code 2) 15) in
    Some (Some (f32_mul031_trunc n)).

Lemma altitude_value_nog m code r : av_nog code = Some r -> altitude_value m (Some code) = Ok r.
Proof.
  unfold av_nog, altitude_value.
  destruct (N.land code 2 =? 0); [destruct (N.land code 1 =? 0); [destruct (N.shiftr code 2 =? 0)|]|];
    intros H; inversion H; subst; try reflexivity.
  destruct (1000 <=? _); reflexivity.
Qed.

Definition me_code_of (c : N) : N := (N.lor (N.shiftl c 2) (tb c 4)) mod 65536.
Definition alt_of_me (c : N) : option N :=
  match av_nog (me_code_of c) with
  | Some r => ofilter (fun a => a <? 100000) r
  | None => None
  end.

Fixpoint all_below (n : nat) (P : N -> bool) : bool :=
  match n with O => true | S k => P (N.of_nat k) && all_below k P end.
Lemma all_below_sound n P : all_below n P = true -> forall c, c < N.of_nat n -> P c = true.
Proof.
  induction n as [|k IH]; cbn [all_below]; intros H c Hc; [lia|].
  apply andb_prop in H. destruct H as [H1 H2].
  destruct (N.eq_dec c (N.of_nat k)) as [->|Hne]; [exact H1|]. apply IH; [exact H2|lia].
Qed.

Definition me_ok (c : N) : bool :=
  if negb (N.testbit c 4) && negb (c =? 0) then true
  else match av_nog (me_code_of c) with
       | Some r => oeqb (ofilter (fun a => a <? 100000) r) (alt12_spec c)
       | None => false
       end.
Lemma me_sweep : all_below 4096 me_ok = true.
Proof. vm_cast_no_check (eq_refl true). Qed.

Definition loc1012 (m : list N) : list N :=
  [0;0;0;0;0;0;0;0;0;0; nth 10 m 0; nth 11 m 0; nth 12 m 0].
Lemma field_41_52_local m : field m 41 52 = field (loc1012 m) 41 52.
Proof. reflexivity. Qed.
Lemma bit_48_local m : bit_at m 48 = bit_at (loc1012 m) 48.
Proof. reflexivity. Qed.

Definition bit48_ok (a b c : N) : bool :=
  let m := [0;0;0;0;0;0;0;0;0;0;a;b;c] in bit_at m 48 =? tb (field m 41 52) 4.
Lemma bit48_sweep : all3 bit48_ok = true.
Proof. vm_cast_no_check (eq_refl true). Qed.
Lemma bit48_field m : wf m -> bit_at m 48 = tb (field m 41 52) 4.
Proof.
  intros W. rewrite bit_48_local, field_41_52_local. apply N.eqb_eq.
  apply (all3_sound bit48_ok bit48_sweep); apply wf_nth; exact W.
Qed.

Lemma me_code_eq m : wf m -> List.length m = 28%nat -> me_code m = Ok (Some (me_code_of (field m 41 52))).
Proof.
  intros W L. unfold me_code.
  rewrite flag_and_range_value_spec by (try exact W; rewrite ?L; lia). cbn [bind omap].
  rewrite (bit48_field m W). reflexivity.
Qed.

(** DF17: 12-bit altitude code with Q = 1, or all zero *)
Theorem altitude_ac12_correct m :
  wf m -> List.length m = 28%nat ->
  N.testbit (field m 41 52) 4 = true \/ field m 41 52 = 0 ->
  altitude m 17 = Ok (alt12_spec (field m 41 52)).
Proof.
  intros W L Q. unfold altitude. change (17 =? 17) with true. cbv iota.
  rewrite (me_code_eq m W L). cbn [bind].
  assert (field m 41 52 < 4096) as B by (apply (field_bound m 41 52)).
  pose proof (all_below_sound 4096 me_ok me_sweep (field m 41 52) B) as S.
  unfold me_ok in S.
  assert ((negb (N.testbit (field m 41 52) 4) && negb (field m 41 52 =? 0)) = false) as G.
  { destruct Q as [Q|Q]; rewrite Q; reflexivity. }
  rewrite G in S.
  destruct (av_nog (me_code_of (field m 41 52))) as [r|] eqn:A; [|discriminate].
  rewrite (altitude_value_nog m _ r A). cbn [bind].
  apply oeqb_eq in S. rewrite S. reflexivity.
Qed.
