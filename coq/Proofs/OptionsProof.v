(** Options: what each command-line option can and cannot change in the decoded table.
    1. presentation options (-c count_df, -i display_info, -o order_by, -u update_s) never change
       the table, although [step_line] reads them;
    2. the observer position (-O) changes nothing but the [dist] field of rows;
    3. -U (use_update) is decode-neutral on the displayed parameters of an existing row, for
       DF4 / DF5 / DF11 / DF17 frames whose carried value is present. *)
From SQ Require Import Base Table Footprint TableProofs TotalPipeline SquawkProof.
Local Open Scope N_scope.

(** ===================================================================================== *)
(** * 1. Presentation options                                                            *)
(** ===================================================================================== *)

Definition same_core (o1 o2 : opts) : Prop :=
  use_update o1 = use_update o2 /\ relaxed o1 = relaxed o2 /\ filter_df o1 = filter_df o2 /\
  delete_after o1 = delete_after o2 /\ observer o1 = observer o2.

Lemma same_core_refl o : same_core o o.
Proof. repeat split. Qed.
Lemma same_core_sym o1 o2 : same_core o1 o2 -> same_core o2 o1.
Proof. unfold same_core. intuition congruence. Qed.

Lemma update_aircraft_core o1 o2 now t d m df a :
  same_core o1 o2 -> update_aircraft o1 now t d m df a = update_aircraft o2 now t d m df a.
Proof.
  intros (U & R & _ & _ & O). unfold update_aircraft. rewrite U, R, O. reflexivity.
Qed.

(** the sweep looks at the table and at the sweep counter only *)
Lemma cleanup_core t c1 c2 now da :
  cleanup_count c1 = cleanup_count c2 ->
  fst (cleanup t c1 now da) = fst (cleanup t c2 now da) /\
  cleanup_count (snd (cleanup t c1 now da)) = cleanup_count (snd (cleanup t c2 now da)).
Proof.
  intros E. unfold cleanup. rewrite E. destruct (10 <? cleanup_count c2); split; reflexivity.
Qed.

Theorem presentation_step : forall o1 o2 now s1 s2 line s1' rf1 oc1,
  same_core o1 o2 -> tbl s1 = tbl s2 -> cleanup_count (cnt s1) = cleanup_count (cnt s2) ->
  step_line o1 now s1 line = Ok (s1', rf1, oc1) ->
  exists s2' rf2, step_line o2 now s2 line = Ok (s2', rf2, oc1) /\
                  tbl s2' = tbl s1' /\ cleanup_count (cnt s2') = cleanup_count (cnt s1').
Proof.
  intros o1 o2 now s1 s2 line s1' rf1 oc1 SC ET EC H.
  pose proof SC as (_ & _ & EF & ED & _).
  unfold step_line in *.
  destruct (get_message line) as [[m|]|]; cbn [bind] in *; try discriminate;
    [|inversion H; subst; eauto].
  destruct (get_downlink_format m) as [[df|]|]; cbn [bind] in *; try discriminate;
    [|inversion H; subst; eauto].
  destruct (get_icao m df) as [[a|]|]; cbn [bind] in *; try discriminate;
    [|inversion H; subst; eauto].
  rewrite <- EF.
  destruct (match filter_df o1 with Some only => _ | None => false end);
    [inversion H; subst; eauto|].
  destruct (df_from_message m) as [d|]; cbn [bind] in *; [|discriminate].
  destruct d as [d|].
  - rewrite <- ET, <- (update_aircraft_core o1 o2 now (tbl s1) d m df a SC), <- ED.
    destruct (update_aircraft o1 now (tbl s1) d m df a) as [t1|]; cbn [bind] in *; [|discriminate].
    set (c1 := if count_df o1 then _ else cnt s1) in H.
    set (c2 := if count_df o2 then _ else cnt s2).
    assert (cleanup_count c1 = cleanup_count c2) as EC'.
    { subst c1 c2. destruct (count_df o1), (count_df o2); cbn [cleanup_count]; congruence. }
    destruct (cleanup_core t1 c1 c2 now (delete_after o1) EC') as [Ef Es].
    destruct (cleanup t1 c1 now (delete_after o1)) as [t1' c1'].
    destruct (cleanup t1 c2 now (delete_after o1)) as [t2' c2'].
    cbn [fst snd bind] in *. inversion H; subst; clear H.
    eexists. eexists. split; [reflexivity|]. cbn [tbl cnt]. split; [reflexivity|].
    destruct (_ && _)%bool; destruct (_ && _)%bool; cbn [cleanup_count]; congruence.
  - cbn [bind] in *. inversion H; subst; clear H.
    eexists. eexists. split; [reflexivity|]. cbn [tbl cnt]. split; [congruence|].
    destruct (_ && _)%bool; destruct (_ && _)%bool;
      destruct (count_df o1), (count_df o2); cbn [cleanup_count]; congruence.
Qed.

Lemma presentation_step' : forall o1 o2 now s1 s2 l s1' rf1 oc1,
  same_core o1 o2 -> tbl s1 = tbl s2 -> cleanup_count (cnt s1) = cleanup_count (cnt s2) ->
  step o1 now s1 l = Ok (s1', rf1, oc1) ->
  exists s2' rf2, step o2 now s2 l = Ok (s2', rf2, oc1) /\
                  tbl s2' = tbl s1' /\ cleanup_count (cnt s2') = cleanup_count (cnt s1').
Proof.
  intros o1 o2 now s1 s2 l s1' rf1 oc1 SC ET EC H. destruct l as [line|]; cbn [step] in *.
  - eapply presentation_step; eassumption.
  - inversion H; subst. exists s2, false. repeat split; congruence.
Qed.

Theorem presentation_run : forall o1 o2 now ls s1 s2 s1',
  same_core o1 o2 -> tbl s1 = tbl s2 -> cleanup_count (cnt s1) = cleanup_count (cnt s2) ->
  run_lines o1 now s1 ls = Ok s1' ->
  exists s2', run_lines o2 now s2 ls = Ok s2' /\
              tbl s2' = tbl s1' /\ cleanup_count (cnt s2') = cleanup_count (cnt s1').
Proof.
  intros o1 o2 now ls. induction ls as [|l t IH]; intros s1 s2 s1' SC ET EC H; cbn [run_lines] in *.
  - inversion H; subst. exists s2. repeat split; congruence.
  - destruct (step o1 now s1 l) as [[[sa rf] oc]|] eqn:E; cbn [bind] in H; [|discriminate].
    destruct (presentation_step' _ _ _ _ _ _ _ _ _ SC ET EC E) as (sb & rf2 & E2 & ET' & EC').
    rewrite E2. cbn [bind]. apply (IH sa sb s1' SC); [congruence | congruence | exact H].
Qed.

(** -i, -o, -c, -u never change which aircraft are in the table nor any decoded parameter *)
Corollary presentation_read_lines : forall o1 o2 now t bs,
  same_core o1 o2 -> read_lines o1 now t bs = read_lines o2 now t bs.
Proof.
  intros o1 o2 now t bs SC. unfold read_lines.
  destruct (run_lines_total o1 now (mkState t (counters_new now (update_s o1))) (text_lines bs)) as [s1 E1].
  destruct (presentation_run o1 o2 now (text_lines bs) (mkState t (counters_new now (update_s o1)))
              (mkState t (counters_new now (update_s o2))) s1
              SC eq_refl eq_refl E1) as (s2 & E2 & ET & _).
  rewrite E1, E2. cbn [bind]. congruence.
Qed.

(** ===================================================================================== *)
(** * 2. The observer position only reaches [dist]                                        *)
(** ===================================================================================== *)

Definition sd (x : option (Q * Q * Q * Q)) (r : row) : row := r <| dist := x |>.
Definition eq_but_dist (r1 r2 : row) : Prop := r1 = r2 <| dist := dist r1 |>.

Lemma sd_sd x y r : sd x (sd y r) = sd x r.
Proof. reflexivity. Qed.
Lemma sd_dist r : sd (dist r) r = r.
Proof. destruct r; reflexivity. Qed.
Lemma dist_sd x r : dist (sd x r) = x.
Proof. reflexivity. Qed.

Lemma eq_but_dist_iff r1 r2 : eq_but_dist r1 r2 <-> exists x, r1 = sd x r2.
Proof.
  split.
  - intros H. exists (dist r1). exact H.
  - intros [x ->]. unfold eq_but_dist. reflexivity.
Qed.
Lemma eq_but_dist_refl r : eq_but_dist r r.
Proof. unfold eq_but_dist. symmetry. apply sd_dist. Qed.
Lemma eq_but_dist_sym r1 r2 : eq_but_dist r1 r2 -> eq_but_dist r2 r1.
Proof.
  intros H. apply eq_but_dist_iff in H. destruct H as [x ->]. apply eq_but_dist_iff.
  exists (dist r2). rewrite sd_sd, sd_dist. reflexivity.
Qed.
Lemma eq_but_dist_trans r1 r2 r3 : eq_but_dist r1 r2 -> eq_but_dist r2 r3 -> eq_but_dist r1 r3.
Proof.
  rewrite !eq_but_dist_iff. intros [x ->] [y ->]. exists x. apply sd_sd.
Qed.
(** what the relation means field by field: everything but [dist] is equal *)
Lemma eq_but_dist_same r1 r2 : eq_but_dist r1 r2 -> forall f, f <> F_dist -> same f r1 r2.
Proof.
  intros H f Hf. apply eq_but_dist_iff in H. destruct H as [x ->].
  destruct f; try reflexivity. congruence.
Qed.
Definition rmap {A B} (f : A -> B) (x : res A) : res B :=
  match x with Ok a => Ok (f a) | Panic w => Panic w end.

Lemma bind_rmap {A A' B B'} (fa : A -> A') (fb : B -> B') (X : res A') (Y : res A)
      (G : A' -> res B') (G' : A -> res B) :
  X = rmap fa Y -> (forall a, G (fa a) = rmap fb (G' a)) -> bind X G = rmap fb (bind Y G').
Proof. intros -> H. destruct Y as [a|w]; cbn [rmap bind]; [apply H | reflexivity]. Qed.

(** move [sd] outwards through the other setters; drop it under the projections that are read *)
Ltac pull_sd :=
  repeat match goal with
  | |- context [@RecordSet.set ?R ?T ?F ?I ?v (sd ?x ?r')] =>
      progress change (@RecordSet.set R T F I v (sd x r')) with (sd x (@RecordSet.set R T F I v r'))
  end.
Ltac proj_sd :=
  repeat match goal with
  | |- context [?p (sd ?x ?r')] =>
      is_const p; progress change (p (sd x r')) with (p r')
  end.

Lemma update_position_sd o1 o2 x r tc form :
  exists y, update_position o1 (sd x r) tc form = sd y (update_position o2 r tc form).
Proof.
  unfold update_position. proj_sd.
  destruct (_ && _ && _ && _ && _ && _)%bool; [|exists x; reflexivity].
  destruct (if in_tc 5 8 tc then _ else _) as [[la lo]|]; [|exists x; reflexivity].
  destruct (_ && _ && _ && _)%bool; [|exists x; reflexivity].
  exists (match o1 with Some (ola, olo) => Some (la, lo, ola, olo) | None => x end).
  destruct o1 as [[a b]|], o2 as [[a' b']|]; destruct r; vm_compute; reflexivity.
Qed.

(** leaves: both sides are setter chains over a row; compute on the constructor form *)
Ltac leaf r := destruct r; vm_compute; reflexivity.

Lemma store_cpr_sd o1 o2 x r tc c :
  exists y, store_cpr o1 (sd x r) tc c = sd y (store_cpr o2 r tc c).
Proof.
  unfold store_cpr. destruct c as [[form la] lo]. proj_sd.
  destruct (form =? 1); pull_sd; apply update_position_sd.
Qed.

Lemma update_from_bcast_sd x r m df :
  update_from_bcast (sd x r) m df = rmap (sd x) (update_from_bcast r m df).
Proof.
  unfold update_from_bcast.
  destruct ((df =? 4) || (df =? 20)); [destruct (altitude m df) as [a|]; [|reflexivity]|];
  (destruct ((df =? 5) || (df =? 21)); [destruct (squawk m) as [s|]; [|reflexivity]|]);
  (destruct ((df =? 11) || (df =? 17)); [destruct (get_capability m) as [c|]; [|reflexivity]|]);
  cbn [bind rmap]; f_equal; leaf r.
Qed.

Lemma update_cpr_sd o1 o2 x r m tc :
  exists y, update_cpr o1 (sd x r) m tc = rmap (sd y) (update_cpr o2 r m tc).
Proof.
  unfold update_cpr. destruct (cpr m) as [c|]; [cbn [bind]|exists x; reflexivity].
  destruct (ofilter _ c) as [c'|]; [|exists x; reflexivity].
  destruct (store_cpr_sd o1 o2 x r tc c') as [y E]. exists y. cbn [rmap]. rewrite E. reflexivity.
Qed.

Lemma update_from_ext_19_sd x r m st :
  update_from_ext_19 (sd x r) m st = rmap (sd x) (update_from_ext_19 r m st).
Proof.
  unfold update_from_ext_19.
  destruct (vertical_rate m) as [v|]; [cbn [bind]|reflexivity]. pull_sd.
  eapply (bind_rmap (sd x) (sd x)).
  { proj_sd. destruct (r_altitude _); [destruct (altitude_delta m) as [[d|]|]|]; reflexivity. }
  intros r1.
  destruct (st =? 1); [destruct (track_and_groundspeed m false) as [[t g]|]; [cbn [bind rmap]; f_equal; leaf r1|reflexivity]|].
  destruct (st =? 2); [destruct (track_and_groundspeed m true) as [[t g]|]; [cbn [bind rmap]; f_equal; leaf r1|reflexivity]|].
  destruct ((st =? 3) || (st =? 4)); [destruct (heading m) as [h|]; [cbn [bind rmap]; f_equal; leaf r1|reflexivity]|].
  reflexivity.
Qed.

Lemma update_from_ext_sd o1 o2 x r m df :
  exists y, update_from_ext o1 (sd x r) m df = rmap (sd y) (update_from_ext o2 r m df).
Proof.
  unfold update_from_ext.
  destruct (get_message_type m) as [[tc st]|]; [cbn [bind]|exists x; reflexivity]. pull_sd.
  destruct (in_tc 1 4 tc).
  { exists x. destruct (ais m) as [a|]; [cbn [bind rmap]; f_equal; leaf r|reflexivity]. }
  destruct (in_tc 5 8 tc).
  { destruct (ground_movement m) as [g|]; [cbn [bind]|exists x; reflexivity].
    destruct (ground_track m) as [t|]; [cbn [bind]|exists x; reflexivity].
    pull_sd. apply update_cpr_sd. }
  destruct (in_tc 9 18 tc).
  { destruct (altitude m df) as [a|]; [cbn [bind]|exists x; reflexivity].
    destruct (surveillance_status m) as [s|]; [cbn [bind]|exists x; reflexivity].
    pull_sd. apply update_cpr_sd. }
  exists x.
  destruct (tc =? 19); [apply update_from_ext_19_sd|].
  destruct (in_tc 20 22 tc).
  { destruct (altitude_gnss m) as [g|]; [cbn [bind]|reflexivity].
    destruct (surveillance_status m) as [s|]; [cbn [bind rmap]; f_equal; leaf r|reflexivity]. }
  destruct (tc =? 31).
  { destruct (version m) as [v|]; [cbn [bind rmap]; f_equal; leaf r|reflexivity]. }
  reflexivity.
Qed.

Definition sdp (x : option (Q * Q * Q * Q)) (p : row * bool) : row * bool := (sd x (fst p), snd p).

Lemma update_from_mode_s_sd x r m rel :
  update_from_mode_s (sd x r) m rel = rmap (sd x) (update_from_mode_s r m rel).
Proof.
  unfold update_from_mode_s.
  destruct (bds m) as [b|]; [cbn [bind]|reflexivity].
  eapply (bind_rmap (sd x) (sd x)).
  { destruct (_ && _)%bool; [destruct (ais m) as [a|]; [cbn [bind rmap]; f_equal; leaf r|]|]; reflexivity. }
  intros r1. eapply (bind_rmap (sd x) (sd x)).
  { destruct (_ && _)%bool; [destruct (threat_encounter m) as [a|]; [cbn [bind rmap]; f_equal; leaf r1|]|]; reflexivity. }
  intros r2. eapply (bind_rmap (sdp x) (sd x)).
  { destruct (_ && _)%bool; [destruct (is_bds_1_7 m) as [[c|]|]; [cbn [bind rmap sdp fst snd]; do 2 f_equal; leaf r2| |]|]; reflexivity. }
  intros [r3 z3]. cbn [sdp fst snd]. proj_sd. eapply (bind_rmap (sdp x) (sd x)).
  { destruct (_ && _)%bool; [destruct (is_bds_4_0 m) as [[c|]|]; [cbn [bind rmap sdp fst snd]; do 2 f_equal; leaf r3| |]|]; reflexivity. }
  intros [r4 z4]. cbn [sdp fst snd]. proj_sd. eapply (bind_rmap (sdp x) (sd x)).
  { destruct (_ && _)%bool; [destruct (is_bds_5_0 m) as [[c|]|]; [cbn [bind rmap sdp fst snd]; do 2 f_equal; leaf r4| |]|]; reflexivity. }
  intros [r5 z5]. cbn [sdp fst snd]. proj_sd. eapply (bind_rmap (sdp x) (sd x)).
  { destruct (_ && _)%bool; [destruct (is_bds_6_0 m) as [[c|]|];
      [cbn [bind rmap sdp fst snd]; destruct (is_some _); do 2 f_equal; leaf r5| |]|]; reflexivity. }
  intros [r6 z6]. cbn [sdp fst snd]. eapply (bind_rmap (sdp x) (sd x)).
  { destruct z6; [destruct (is_bds_4_4 m) as [[c|]|];
      [cbn [bind rmap sdp fst snd]; destruct (is_some _); do 2 f_equal; leaf r6| |]|]; reflexivity. }
  intros [r7 z7]. cbn [sdp fst snd].
  destruct z7; [destruct (is_bds_4_5 m) as [[c|]|]; [cbn [bind rmap]; f_equal; leaf r7| |]|]; reflexivity.
Qed.

Lemma plane_update_sd o1 o2 now x r m df rel :
  exists y, plane_update o1 now (sd x r) m df rel = rmap (sd y) (plane_update o2 now r m df rel).
Proof.
  unfold plane_update. pull_sd. rewrite update_from_bcast_sd.
  destruct (update_from_bcast _ m df) as [r1|]; [cbn [rmap bind]|exists x; reflexivity].
  destruct ((df =? 17) || (df =? 18)).
  - destruct (update_from_ext_sd o1 o2 x r1 m df) as [y E]. rewrite E. exists y.
    destruct (update_from_ext o2 r1 m df) as [r2|]; [cbn [rmap bind]|reflexivity].
    proj_sd. destruct (_ && _)%bool; [apply update_from_mode_s_sd|reflexivity].
  - exists x. cbn [bind]. proj_sd.
    destruct (_ && _)%bool; [apply update_from_mode_s_sd|reflexivity].
Qed.

(** downlink path *)
Lemma amend_cpr_sd o1 o2 x r e :
  exists y, amend_cpr o1 (sd x r) e = sd y (amend_cpr o2 r e).
Proof. unfold amend_cpr. destruct (e_cpr e); [apply store_cpr_sd|exists x; reflexivity]. Qed.

Lemma amend_from_ext_19_sd x r e : amend_from_ext_19 (sd x r) e = sd x (amend_from_ext_19 r e).
Proof.
  unfold amend_from_ext_19. cbv zeta. pull_sd. proj_sd.
  destruct (e_alt_delta e) as [dd|]; [destruct (r_altitude _) as [alt|]; [generalize (gnss_of alt dd); intros gg|]|];
    (destruct (snd (e_mt e) =? 1); [leaf r|]);
    (destruct (snd (e_mt e) =? 2); [leaf r|]);
    (destruct ((snd (e_mt e) =? 3) || (snd (e_mt e) =? 4)); leaf r).
Qed.

Lemma update_from_ext_dl_sd o1 o2 x r e :
  exists y, update_from_ext_dl o1 (sd x r) e = sd y (update_from_ext_dl o2 r e).
Proof.
  unfold update_from_ext_dl. cbv zeta.
  destruct (is_some (e_icao e)); [|exists x; reflexivity]. pull_sd.
  destruct (in_tc 1 4 _). { exists x. destruct (is_some (e_ais e)); leaf r. }
  destruct (in_tc 5 8 _). { apply amend_cpr_sd. }
  destruct (in_tc 9 18 _). { apply amend_cpr_sd. }
  exists x.
  destruct (_ =? 19). { apply amend_from_ext_19_sd. }
  destruct (in_tc 20 22 _). { leaf r. }
  destruct (_ =? 31); leaf r.
Qed.

Lemma update_from_srt_dl_sd x r s : update_from_srt_dl (sd x r) s = sd x (update_from_srt_dl r s).
Proof.
  unfold update_from_srt_dl. destruct (is_some (s_icao s)); [|reflexivity].
  destruct (s_df s) as [[|p]|]; destruct (s_alt s), (s_squawk s), (s_cap s); try reflexivity;
    repeat (destruct p as [p|p|]; try reflexivity); leaf r.
Qed.

Lemma update_from_downlink_sd o1 o2 now x r d :
  exists y, update_from_downlink o1 now (sd x r) d = sd y (update_from_downlink o2 now r d).
Proof.
  unfold update_from_downlink. cbv zeta. destruct (dl_df d) as [df|]; pull_sd.
  - destruct d as [s|e|df' ic]; [exists x; apply update_from_srt_dl_sd | apply update_from_ext_dl_sd |].
    exists x. destruct ic; leaf r.
  - destruct d as [s|e|df' ic]; [exists x; apply update_from_srt_dl_sd | apply update_from_ext_dl_sd |].
    exists x. destruct ic; leaf r.
Qed.

(** one row update, in terms of the relation *)
Theorem plane_update_eq_but_dist : forall o1 o2 now r1 r2 m df rel r1',
  eq_but_dist r1 r2 -> plane_update o1 now r1 m df rel = Ok r1' ->
  exists r2', plane_update o2 now r2 m df rel = Ok r2' /\ eq_but_dist r1' r2'.
Proof.
  intros o1 o2 now r1 r2 m df rel r1' R H. apply eq_but_dist_iff in R. destruct R as [x ->].
  destruct (plane_update_sd o1 o2 now x r2 m df rel) as [y E]. rewrite E in H.
  destruct (plane_update o2 now r2 m df rel) as [r2'|]; [|discriminate].
  cbn [rmap] in H. inversion H; subst. exists r2'. split; [reflexivity|].
  apply eq_but_dist_iff. exists y. reflexivity.
Qed.

Theorem update_from_downlink_eq_but_dist : forall o1 o2 now r1 r2 d,
  eq_but_dist r1 r2 ->
  eq_but_dist (update_from_downlink o1 now r1 d) (update_from_downlink o2 now r2 d).
Proof.
  intros o1 o2 now r1 r2 d R. apply eq_but_dist_iff in R. destruct R as [x ->].
  destruct (update_from_downlink_sd o1 o2 now x r2 d) as [y E]. rewrite E.
  apply eq_but_dist_iff. exists y. reflexivity.
Qed.

Lemma row_from_downlink_eq_but_dist o1 o2 now d a :
  eq_but_dist (row_from_downlink o1 now d a) (row_from_downlink o2 now d a).
Proof. unfold row_from_downlink. apply update_from_downlink_eq_but_dist, eq_but_dist_refl. Qed.

(** tables: same addresses in the same order, rows equal but for [dist] *)
Definition tbl_rel (t1 t2 : table) : Prop :=
  Forall2 (fun p q => fst p = fst q /\ eq_but_dist (snd p) (snd q)) t1 t2.

Lemma tbl_rel_refl t : tbl_rel t t.
Proof. induction t as [|[k r] t IH]; constructor; [split; [reflexivity|apply eq_but_dist_refl]|exact IH]. Qed.

Lemma tbl_rel_keys t1 t2 : tbl_rel t1 t2 -> keys t1 = keys t2.
Proof.
  unfold keys. induction 1 as [|[k1 r1] [k2 r2] t1 t2 [K _] _ IH]; cbn [map fst] in *; [reflexivity|].
  rewrite K, IH. reflexivity.
Qed.

Lemma lookup_rel t1 t2 a : tbl_rel t1 t2 ->
  match lookup t1 a, lookup t2 a with
  | Some r1, Some r2 => eq_but_dist r1 r2
  | None, None => True
  | _, _ => False
  end.
Proof.
  induction 1 as [|[k1 r1] [k2 r2] t1 t2 [K R] _ IH]; cbn [lookup]; [exact I|].
  cbn [fst snd] in *. subst k2. destruct (k1 =? a); [exact R | exact IH].
Qed.

Lemma upsert_rel t1 t2 a r1 r2 :
  tbl_rel t1 t2 -> eq_but_dist r1 r2 -> tbl_rel (upsert t1 a r1) (upsert t2 a r2).
Proof.
  intros T R. induction T as [|[k1 q1] [k2 q2] t1 t2 [K Q] T IH]; cbn [upsert].
  - constructor; [split; [reflexivity|exact R]|constructor].
  - cbn [fst snd] in *. subst k2. destruct (k1 =? a).
    + constructor; [split; [reflexivity|exact R]|exact T].
    + constructor; [split; [reflexivity|exact Q]|exact IH].
Qed.

Lemma eq_but_dist_timestamp r1 r2 : eq_but_dist r1 r2 -> timestamp r1 = timestamp r2.
Proof. intros H. apply eq_but_dist_iff in H. destruct H as [x ->]. reflexivity. Qed.

Lemma cleanup_rel t1 t2 c1 c2 now da :
  tbl_rel t1 t2 -> cleanup_count c1 = cleanup_count c2 ->
  tbl_rel (fst (cleanup t1 c1 now da)) (fst (cleanup t2 c2 now da)) /\
  cleanup_count (snd (cleanup t1 c1 now da)) = cleanup_count (snd (cleanup t2 c2 now da)).
Proof.
  intros T E. unfold cleanup. rewrite E.
  destruct (10 <? cleanup_count c2); cbn [fst snd cleanup_count]; (split; [|reflexivity]); [|exact T].
  induction T as [|[k1 q1] [k2 q2] t1 t2 [K Q] T IH]; cbn [filter]; [constructor|].
  cbn [fst snd] in *. rewrite (eq_but_dist_timestamp _ _ Q).
  destruct (_ <? da)%Z; [constructor; [split; assumption|exact IH] | exact IH].
Qed.

(** options that decode alike, whatever the observer and the presentation *)
Definition same_decode (o1 o2 : opts) : Prop :=
  use_update o1 = use_update o2 /\ relaxed o1 = relaxed o2 /\ filter_df o1 = filter_df o2 /\
  delete_after o1 = delete_after o2.

(** options differing ONLY in the observer *)
Definition only_observer (o1 o2 : opts) : Prop :=
  use_update o1 = use_update o2 /\ relaxed o1 = relaxed o2 /\ filter_df o1 = filter_df o2 /\
  count_df o1 = count_df o2 /\ display_info o1 = display_info o2 /\ order_by o1 = order_by o2 /\
  update_s o1 = update_s o2 /\ delete_after o1 = delete_after o2.

Lemma only_observer_decode o1 o2 : only_observer o1 o2 -> same_decode o1 o2.
Proof. unfold only_observer, same_decode. tauto. Qed.

Lemma update_aircraft_rel o1 o2 now t1 t2 d m df a t1' :
  same_decode o1 o2 -> tbl_rel t1 t2 ->
  update_aircraft o1 now t1 d m df a = Ok t1' ->
  exists t2', update_aircraft o2 now t2 d m df a = Ok t2' /\ tbl_rel t1' t2'.
Proof.
  intros (U & R & _ & _) T H. unfold update_aircraft in *. rewrite <- U, <- R.
  pose proof (lookup_rel t1 t2 a T) as L.
  destruct (lookup t1 a) as [r1|], (lookup t2 a) as [r2|]; try contradiction.
  - destruct ((df <? 20) && negb (use_update o1)).
    + inversion H; subst. eexists. split; [reflexivity|].
      apply upsert_rel; [exact T|]. apply update_from_downlink_eq_but_dist. exact L.
    + destruct (plane_update (observer o1) now r1 m df (relaxed o1)) as [r1'|] eqn:E;
        cbn [bind] in H; [|discriminate].
      destruct (plane_update_eq_but_dist _ (observer o2) _ _ _ _ _ _ _ L E) as (r2' & E2 & R2).
      rewrite E2. cbn [bind]. inversion H; subst. eexists. split; [reflexivity|].
      apply upsert_rel; assumption.
  - inversion H; subst. eexists. split; [reflexivity|].
    apply upsert_rel; [exact T|]. apply row_from_downlink_eq_but_dist.
Qed.

Theorem observer_step : forall o1 o2 now s1 s2 line s1' rf1 oc,
  same_decode o1 o2 -> tbl_rel (tbl s1) (tbl s2) ->
  cleanup_count (cnt s1) = cleanup_count (cnt s2) ->
  step_line o1 now s1 line = Ok (s1', rf1, oc) ->
  exists s2' rf2, step_line o2 now s2 line = Ok (s2', rf2, oc) /\
                  tbl_rel (tbl s1') (tbl s2') /\
                  cleanup_count (cnt s1') = cleanup_count (cnt s2').
Proof.
  intros o1 o2 now s1 s2 line s1' rf1 oc SD T EC H.
  pose proof SD as (_ & _ & EF & ED).
  unfold step_line in *.
  destruct (get_message line) as [[m|]|]; cbn [bind] in *; try discriminate;
    [|inversion H; subst; eauto].
  destruct (get_downlink_format m) as [[df|]|]; cbn [bind] in *; try discriminate;
    [|inversion H; subst; eauto].
  destruct (get_icao m df) as [[a|]|]; cbn [bind] in *; try discriminate;
    [|inversion H; subst; eauto].
  rewrite <- EF.
  destruct (match filter_df o1 with Some only => _ | None => false end);
    [inversion H; subst; eauto|].
  destruct (df_from_message m) as [d|]; cbn [bind] in *; [|discriminate].
  destruct d as [d|].
  - destruct (update_aircraft o1 now (tbl s1) d m df a) as [t1|] eqn:U; cbn [bind] in H; [|discriminate].
    destruct (update_aircraft_rel _ _ _ _ _ _ _ _ _ _ SD T U) as (t2 & U2 & T2).
    rewrite U2. cbn [bind]. rewrite <- ED.
    set (c1 := if count_df o1 then _ else cnt s1) in H.
    set (c2 := if count_df o2 then _ else cnt s2).
    assert (cleanup_count c1 = cleanup_count c2) as EC'.
    { subst c1 c2. destruct (count_df o1), (count_df o2); cbn [cleanup_count]; congruence. }
    destruct (cleanup_rel t1 t2 c1 c2 now (delete_after o1) T2 EC') as [Ef Es].
    destruct (cleanup t1 c1 now (delete_after o1)) as [t1' c1'].
    destruct (cleanup t2 c2 now (delete_after o1)) as [t2' c2'].
    cbn [fst snd bind] in *. inversion H; subst; clear H.
    eexists. eexists. split; [reflexivity|]. cbn [tbl cnt]. split; [exact Ef|].
    destruct (_ && _)%bool; destruct (_ && _)%bool; cbn [cleanup_count]; congruence.
  - cbn [bind] in *. inversion H; subst; clear H.
    eexists. eexists. split; [reflexivity|]. cbn [tbl cnt]. split; [exact T|].
    destruct (_ && _)%bool; destruct (_ && _)%bool;
      destruct (count_df o1), (count_df o2); cbn [cleanup_count]; congruence.
Qed.

Theorem observer_run : forall o1 o2 now ls s1 s2 s1',
  same_decode o1 o2 -> tbl_rel (tbl s1) (tbl s2) ->
  cleanup_count (cnt s1) = cleanup_count (cnt s2) ->
  run_lines o1 now s1 ls = Ok s1' ->
  exists s2', run_lines o2 now s2 ls = Ok s2' /\ tbl_rel (tbl s1') (tbl s2') /\
              cleanup_count (cnt s1') = cleanup_count (cnt s2').
Proof.
  intros o1 o2 now ls. induction ls as [|l t IH]; intros s1 s2 s1' SD T EC H; cbn [run_lines] in *.
  - inversion H; subst. exists s2. repeat split; assumption.
  - destruct (step o1 now s1 l) as [[[sa rf] oc]|] eqn:E; cbn [bind] in H; [|discriminate].
    assert (exists sb rf2, step o2 now s2 l = Ok (sb, rf2, oc) /\ tbl_rel (tbl sa) (tbl sb) /\
                           cleanup_count (cnt sa) = cleanup_count (cnt sb)) as (sb & rf2 & E2 & T' & EC').
    { destruct l as [line|]; cbn [step] in *.
      - eapply observer_step; eassumption.
      - inversion E; subst. exists s2, false. repeat split; assumption. }
    rewrite E2. cbn [bind]. apply (IH sa sb s1' SD T' EC' H).
Qed.

(** -O affects only the distance: two runs of the reader that differ only in the observer
    position produce tables with the same aircraft in the same order, whose rows agree on every
    field except [dist] *)
Theorem observer_only_distance : forall o1 o2 now t bs t1,
  only_observer o1 o2 -> read_lines o1 now t bs = Ok t1 ->
  exists t2, read_lines o2 now t bs = Ok t2 /\ tbl_rel t1 t2.
Proof.
  intros o1 o2 now t bs t1 OO H. unfold read_lines in *.
  destruct (run_lines o1 now _ (text_lines bs)) as [s1|] eqn:E1; cbn [bind] in H; [|discriminate].
  inversion H; subst; clear H.
  destruct (observer_run o1 o2 now (text_lines bs) (mkState t (counters_new now (update_s o1)))
              (mkState t (counters_new now (update_s o2))) s1
              (only_observer_decode _ _ OO) (tbl_rel_refl t) eq_refl E1) as (s2 & E2 & T & _).
  rewrite E2. cbn [bind]. exists (tbl s2). split; [reflexivity|exact T].
Qed.

(** reading the relation: same addresses, and any parameter other than the distance is equal *)
Corollary tbl_rel_lookup t1 t2 a r1 : tbl_rel t1 t2 -> lookup t1 a = Some r1 ->
  exists r2, lookup t2 a = Some r2 /\ forall f, f <> F_dist -> same f r1 r2.
Proof.
  intros T L. pose proof (lookup_rel t1 t2 a T) as R. rewrite L in R.
  destruct (lookup t2 a) as [r2|]; [|contradiction].
  exists r2. split; [reflexivity|]. apply eq_but_dist_same. exact R.
Qed.

(** with ONLY the observer different, the counters and the refresh decisions are equal too *)
Lemma cleanup_snd t1 t2 c now da : snd (cleanup t1 c now da) = snd (cleanup t2 c now da).
Proof. unfold cleanup. destruct (10 <? cleanup_count c); reflexivity. Qed.

Theorem observer_step_counters : forall o1 o2 now s1 s2 line s1' rf oc,
  only_observer o1 o2 -> tbl_rel (tbl s1) (tbl s2) -> cnt s1 = cnt s2 ->
  step_line o1 now s1 line = Ok (s1', rf, oc) ->
  exists s2', step_line o2 now s2 line = Ok (s2', rf, oc) /\
              tbl_rel (tbl s1') (tbl s2') /\ cnt s1' = cnt s2'.
Proof.
  intros o1 o2 now s1 s2 line s1' rf oc OO T EC H.
  pose proof (only_observer_decode _ _ OO) as SD.
  destruct OO as (_ & _ & EF & ECD & EDI & _ & EUS & ED).
  assert (quiet o1 = quiet o2) as EQ by (unfold quiet; rewrite EDI; reflexivity).
  unfold step_line in *.
  destruct (get_message line) as [[m|]|]; cbn [bind] in *; try discriminate;
    [|inversion H; subst; eauto].
  destruct (get_downlink_format m) as [[df|]|]; cbn [bind] in *; try discriminate;
    [|inversion H; subst; eauto].
  destruct (get_icao m df) as [[a|]|]; cbn [bind] in *; try discriminate;
    [|inversion H; subst; eauto].
  rewrite <- EF, <- ECD, <- EQ, <- EUS, <- EC.
  destruct (match filter_df o1 with Some only => _ | None => false end);
    [inversion H; subst; eauto|].
  destruct (df_from_message m) as [d|]; cbn [bind] in *; [|discriminate].
  destruct d as [d|].
  - destruct (update_aircraft o1 now (tbl s1) d m df a) as [t1|] eqn:U; cbn [bind] in H; [|discriminate].
    destruct (update_aircraft_rel _ _ _ _ _ _ _ _ _ _ SD T U) as (t2 & U2 & T2).
    rewrite U2. cbn [bind]. rewrite <- ED.
    set (c := if count_df o1 then _ else cnt s1) in *.
    destruct (cleanup_rel t1 t2 c c now (delete_after o1) T2 eq_refl) as [Ef _].
    pose proof (cleanup_snd t1 t2 c now (delete_after o1)) as Es.
    destruct (cleanup t1 c now (delete_after o1)) as [t1' c1'].
    destruct (cleanup t2 c now (delete_after o1)) as [t2' c2'].
    cbn [fst snd bind] in *. subst c2'. inversion H; subst; clear H.
    eexists. split; [reflexivity|]. cbn [tbl cnt]. split; [exact Ef|reflexivity].
  - cbn [bind] in *. inversion H; subst; clear H.
    eexists. split; [reflexivity|]. cbn [tbl cnt]. split; [exact T|reflexivity].
Qed.

(** ===================================================================================== *)
(** * 3. -U is decode-neutral on the displayed parameters of an existing row              *)
(** ===================================================================================== *)

(** the displayed parameters of a row, and the CPR slot state with the two clocks *)
Definition P (r : row) :=
  (r_ais r, r_altitude r, r_squawk r, lat r, lon r, dist r, grspeed r, track r, vrate r,
   category r, surv_status r).
Definition Pc (r : row) :=
  (cpr_lat0 r, cpr_lat1 r, cpr_lon0 r, cpr_lon1 r, cpr_t0 r, cpr_t1 r, cpr_s0 r, cpr_s1 r,
   position_t r, timestamp r).
Definition agree (r1 r2 : row) : Prop := P r1 = P r2 /\ Pc r1 = Pc r2.

Lemma agree_refl r : agree r r.
Proof. split; reflexivity. Qed.

(** both rows are setter chains over r1 / r2 *)
Ltac agree_solve A :=
  let A1 := fresh in let A2 := fresh in
  destruct A as [A1 A2]; unfold P, Pc in A1, A2; injection A1; injection A2; intros;
  split; unfold P, Pc; cbn; congruence.

Lemma update_position_agree obs r1 r2 tc form :
  agree r1 r2 -> agree (update_position obs r1 tc form) (update_position obs r2 tc form).
Proof.
  intros A. unfold update_position.
  assert (cpr_lat0 r1 = cpr_lat0 r2 /\ cpr_lat1 r1 = cpr_lat1 r2 /\ cpr_lon0 r1 = cpr_lon0 r2 /\
          cpr_lon1 r1 = cpr_lon1 r2 /\ cpr_s0 r1 = cpr_s0 r2 /\ cpr_s1 r1 = cpr_s1 r2 /\
          cpr_t0 r1 = cpr_t0 r2 /\ cpr_t1 r1 = cpr_t1 r2) as (E1 & E2 & E3 & E4 & E5 & E6 & E7 & E8).
  { destruct A as [_ A2]. unfold Pc in A2. injection A2. intros. repeat split; assumption. }
  rewrite E1, E2, E3, E4, E5, E6, E7, E8.
  destruct (_ && _ && _ && _ && _ && _)%bool; [|exact A].
  destruct (if in_tc 5 8 tc then _ else _) as [[la lo]|]; [|exact A].
  destruct (_ && _ && _ && _)%bool; [|exact A].
  destruct obs as [[ola olo]|]; agree_solve A.
Qed.

Lemma store_cpr_agree obs r1 r2 tc c :
  agree r1 r2 -> agree (store_cpr obs r1 tc c) (store_cpr obs r2 tc c).
Proof.
  intros A. unfold store_cpr. destruct c as [[form la] lo].
  destruct (form =? 1); apply update_position_agree; agree_solve A.
Qed.

Lemma land_1_le y : N.land y 1 <= 1.
Proof.
  change 1 with (N.ones 1) at 1. rewrite N.land_ones.
  pose proof (N.mod_upper_bound y (2 ^ 1)). change (2 ^ 1) with 2 in *. lia.
Qed.

(** the format bit of a CPR record is one bit *)
Lemma cpr_form m form la lo : cpr m = Ok (Some (form, la, lo)) -> form <= 1.
Proof.
  unfold cpr, flag_and_range_value, flag_value. cbn [bit_location bind].
  destruct (idx m _) as [x|]; cbn [bind]; [|discriminate].
  destruct (range_value m 55 71) as [[v|]|]; cbn [bind omap]; try discriminate.
  destruct (range_value m 72 88) as [[w|]|]; cbn [bind omap]; try discriminate.
  intros H. inversion H; subst. apply land_1_le.
Qed.

Lemma cpr_filter m p : cpr m = Ok p -> ofilter (fun '(form, _, _) => form <=? 1) p = p.
Proof.
  intros H. destruct p as [[[form la] lo]|]; [|reflexivity]. cbn [ofilter].
  apply cpr_form in H. apply N.leb_le in H. rewrite H. reflexivity.
Qed.

Lemma squawk_some m s : squawk m = Ok s -> exists v, s = Some v.
Proof.
  unfold squawk, ma_code. destruct (ma_go m _ 0 0) as [c|]; cbn [bind omap]; [|discriminate].
  intros H. inversion H. eauto.
Qed.

Lemma ais_some m a : ais m = Ok a -> is_some a = true.
Proof.
  unfold ais. intros H.
  repeat (match type of H with bind ?x _ = _ => destruct x; cbn [bind] in H; [|discriminate] end).
  inversion H. reflexivity.
Qed.

Lemma in_tc_true lo hi tc : in_tc lo hi tc = true <-> lo <= tc <= hi.
Proof. unfold in_tc. rewrite andb_true_iff, !N.leb_le. tauto. Qed.
Lemma in_tc_false lo hi tc : in_tc lo hi tc = false <-> tc < lo \/ hi < tc.
Proof. unfold in_tc. rewrite andb_false_iff, !N.leb_gt. tauto. Qed.

(** ---- the two paths, unfolded down to the frame kind ---- *)
Lemma dl_short m df d : get_downlink_format m = Ok (Some df) -> df <= 16 ->
  df_from_message m = Ok (Some d) -> exists s, d = DSrt s /\ srt_from_message m = Ok s.
Proof.
  intros DF L D. unfold df_from_message in D. rewrite DF in D. cbn [bind] in D.
  apply N.leb_le in L. rewrite L in D.
  destruct (srt_from_message m) as [s|]; cbn [bind] in D; [|discriminate].
  inversion D. eauto.
Qed.

Lemma plane_update_short obs now r m df rel r' : df < 17 ->
  plane_update obs now r m df rel = Ok r' ->
  update_from_bcast (r <| timestamp := now |> <| last_df := df |>) m df = Ok r'.
Proof.
  intros L H. unfold plane_update in H.
  destruct (update_from_bcast _ m df) as [r1|]; cbn [bind] in H; [|discriminate].
  assert ((df =? 17) = false) as E17 by (apply N.eqb_neq; lia).
  assert ((df =? 18) = false) as E18 by (apply N.eqb_neq; lia).
  assert ((df =? 20) = false) as E20 by (apply N.eqb_neq; lia).
  assert ((df =? 21) = false) as E21 by (apply N.eqb_neq; lia).
  rewrite E17, E18, E20, E21 in H. cbn [orb bind] in H. rewrite andb_false_r in H. exact H.
Qed.

Theorem u_neutral_df4 : forall obs now r1 r2 m d rel r1' a alt,
  agree r1 r2 -> get_downlink_format m = Ok (Some 4) -> get_icao m 4 = Ok (Some a) ->
  altitude m 4 = Ok (Some alt) -> df_from_message m = Ok (Some d) ->
  plane_update obs now r1 m 4 rel = Ok r1' ->
  agree r1' (update_from_downlink obs now r2 d).
Proof.
  intros obs now r1 r2 m d rel r1' a alt A DF IC AL D H.
  destruct (dl_short m 4 d DF ltac:(lia) D) as (s & -> & S).
  unfold srt_from_message in S. rewrite DF in S. cbn [bind] in S. rewrite IC in S. cbn [bind] in S.
  change (4 =? 4) with true in S. cbv iota in S. rewrite AL in S. cbn [bind] in S.
  inversion S; subst s; clear S.
  apply plane_update_short in H; [|lia]. unfold update_from_bcast in H.
  change ((4 =? 4) || (4 =? 20)) with true in H. change ((4 =? 5) || (4 =? 21)) with false in H.
  change ((4 =? 11) || (4 =? 17)) with false in H. cbv iota in H. rewrite AL in H. cbn [bind] in H.
  inversion H; subst r1'; clear H.
  unfold update_from_downlink, update_from_srt_dl. cbn [dl_df s_df s_icao s_alt s_squawk s_cap is_some].
  agree_solve A.
Qed.

Theorem u_neutral_df5 : forall obs now r1 r2 m d rel r1' a,
  agree r1 r2 -> get_downlink_format m = Ok (Some 5) -> get_icao m 5 = Ok (Some a) ->
  df_from_message m = Ok (Some d) ->
  plane_update obs now r1 m 5 rel = Ok r1' ->
  agree r1' (update_from_downlink obs now r2 d).
Proof.
  intros obs now r1 r2 m d rel r1' a A DF IC D H.
  destruct (dl_short m 5 d DF ltac:(lia) D) as (s & -> & S).
  unfold srt_from_message in S. rewrite DF in S. cbn [bind] in S. rewrite IC in S. cbn [bind] in S.
  change (5 =? 4) with false in S. change (5 =? 5) with true in S. cbv iota in S.
  destruct (squawk m) as [q|] eqn:SQ; cbn [bind] in S; [|discriminate].
  destruct (squawk_some m q SQ) as [v ->].
  inversion S; subst s; clear S.
  apply plane_update_short in H; [|lia]. unfold update_from_bcast in H.
  change ((5 =? 4) || (5 =? 20)) with false in H. change ((5 =? 5) || (5 =? 21)) with true in H.
  change ((5 =? 11) || (5 =? 17)) with false in H. cbv iota in H. rewrite SQ in H. cbn [bind] in H.
  inversion H; subst r1'; clear H.
  unfold update_from_downlink, update_from_srt_dl. cbn [dl_df s_df s_icao s_alt s_squawk s_cap is_some].
  agree_solve A.
Qed.

Theorem u_neutral_df11 : forall obs now r1 r2 m d rel r1' a,
  agree r1 r2 -> get_downlink_format m = Ok (Some 11) -> get_icao m 11 = Ok (Some a) ->
  df_from_message m = Ok (Some d) ->
  plane_update obs now r1 m 11 rel = Ok r1' ->
  agree r1' (update_from_downlink obs now r2 d).
Proof.
  intros obs now r1 r2 m d rel r1' a A DF IC D H.
  destruct (dl_short m 11 d DF ltac:(lia) D) as (s & -> & S).
  unfold srt_from_message in S. rewrite DF in S. cbn [bind] in S. rewrite IC in S. cbn [bind] in S.
  change (11 =? 4) with false in S. change (11 =? 5) with false in S.
  change (11 =? 11) with true in S. cbv iota in S.
  destruct (get_capability m) as [c|] eqn:GC; cbn [bind] in S; [|discriminate].
  inversion S; subst s; clear S.
  apply plane_update_short in H; [|lia]. unfold update_from_bcast in H.
  change ((11 =? 4) || (11 =? 20)) with false in H. change ((11 =? 5) || (11 =? 21)) with false in H.
  change ((11 =? 11) || (11 =? 17)) with true in H. cbv iota in H. rewrite GC in H. cbn [bind] in H.
  inversion H; subst r1'; clear H.
  unfold update_from_downlink, update_from_srt_dl. cbn [dl_df s_df s_icao s_alt s_squawk s_cap is_some].
  agree_solve A.
Qed.

(** ---- DF17 ---- *)
Lemma dl_ext m d : get_downlink_format m = Ok (Some 17) ->
  df_from_message m = Ok (Some d) -> exists e, d = DExt e /\ ext_from_message m = Ok e.
Proof.
  intros DF D. unfold df_from_message in D. rewrite DF in D. cbn [bind] in D.
  change (17 <=? 16) with false in D. change (17 =? 17) with true in D. cbv iota in D.
  destruct (ext_from_message m) as [e|]; cbn [bind] in D; [|discriminate].
  inversion D. eauto.
Qed.

Lemma plane_update_ext obs now r m rel r' :
  plane_update obs now r m 17 rel = Ok r' ->
  exists c, get_capability m = Ok c /\
    update_from_ext obs (r <| timestamp := now |> <| last_df := 17 |> <| cap_ca := c |>) m 17 = Ok r'.
Proof.
  intros H. unfold plane_update, update_from_bcast in H.
  change ((17 =? 4) || (17 =? 20)) with false in H. change ((17 =? 5) || (17 =? 21)) with false in H.
  change ((17 =? 11) || (17 =? 17)) with true in H. change ((17 =? 17) || (17 =? 18)) with true in H.
  change ((17 =? 20) || (17 =? 21)) with false in H. cbv iota in H. cbn [bind] in H.
  destruct (get_capability m) as [c|]; cbn [bind] in H; [|discriminate].
  exists c. split; [reflexivity|].
  destruct (update_from_ext obs _ m 17) as [r2|]; cbn [bind] in H; [|discriminate].
  rewrite andb_false_r in H. exact H.
Qed.

Lemma cpr_paths obs rA rB m tc p r1' :
  cpr m = Ok p -> agree rA rB -> update_cpr obs rA m tc = Ok r1' ->
  agree r1' (match p with Some c => store_cpr obs rB tc c | None => rB end).
Proof.
  intros C A H. unfold update_cpr in H. rewrite C in H. cbn [bind] in H.
  rewrite (cpr_filter m p C) in H. destruct p as [c|]; inversion H; subst; [|exact A].
  apply store_cpr_agree. exact A.
Qed.

Ltac tc_bool b v :=
  let E := fresh "TB" in
  assert (b = v) as E
    by (first [apply in_tc_true | apply in_tc_false | apply N.eqb_neq | apply N.eqb_eq]; lia);
  rewrite ?E in *.

(** unfold both DF17 paths up to the type-code dispatch *)
Ltac df17_open A DF IC MT D H e c GC E U :=
  destruct (dl_ext _ _ DF D) as (e & -> & E);
  destruct (plane_update_ext _ _ _ _ _ _ H) as (c & GC & U); clear H;
  unfold ext_from_message in E; rewrite DF in E; cbn [bind] in E; rewrite IC in E; cbn [bind] in E;
  rewrite GC in E; cbn [bind] in E; rewrite MT in E; cbn [bind fst snd] in E;
  unfold update_from_ext in U; rewrite MT in U; cbn [bind] in U.

(** normalise the ext record built by ext_from_message (closed but for variables) *)
Ltac ext_norm E :=
  match type of E with
  | Ok ?t = Ok _ => let t' := eval vm_compute in t in change t with t' in E
  end.

Ltac dl_open :=
  unfold update_from_downlink, update_from_ext_dl;
  cbn [dl_df e_df e_icao e_cap e_mt e_ais e_cpr e_gm e_grspeed e_track e_track_source e_heading
       e_altitude e_alt_delta e_alt_gnss e_vrate e_ss e_version is_some fst snd].

Theorem u_neutral_tc_1_4 : forall obs now r1 r2 m d rel r1' a tc st,
  agree r1 r2 -> get_downlink_format m = Ok (Some 17) -> get_icao m 17 = Ok (Some a) ->
  get_message_type m = Ok (tc, st) -> in_tc 1 4 tc = true ->
  df_from_message m = Ok (Some d) -> plane_update obs now r1 m 17 rel = Ok r1' ->
  agree r1' (update_from_downlink obs now r2 d).
Proof.
  intros obs now r1 r2 m d rel r1' a tc st A DF IC MT T D H.
  df17_open A DF IC MT D H e c GC E U.
  rewrite T in E, U.
  destruct (ais m) as [ai|] eqn:AI; cbn [bind] in E, U; [|discriminate].
  pose proof (ais_some m ai AI) as S. destruct ai as [l|]; [clear S|discriminate].
  ext_norm E. inversion E; subst e; clear E. inversion U; subst r1'; clear U.
  dl_open. rewrite T. agree_solve A.
Qed.

Theorem u_neutral_tc_5_8 : forall obs now r1 r2 m d rel r1' a tc st,
  agree r1 r2 -> get_downlink_format m = Ok (Some 17) -> get_icao m 17 = Ok (Some a) ->
  get_message_type m = Ok (tc, st) -> in_tc 5 8 tc = true ->
  df_from_message m = Ok (Some d) -> plane_update obs now r1 m 17 rel = Ok r1' ->
  agree r1' (update_from_downlink obs now r2 d).
Proof.
  intros obs now r1 r2 m d rel r1' a tc st A DF IC MT T D H.
  df17_open A DF IC MT D H e c GC E U.
  pose proof T as T'. apply in_tc_true in T'.
  tc_bool (in_tc 1 4 tc) false. tc_bool (in_tc 5 18 tc) true. rewrite T in E, U.
  destruct (cpr m) as [p|] eqn:C; cbn [bind] in E; [|discriminate].
  destruct (ground_movement m) as [g|]; cbn [bind] in E, U; [|discriminate].
  destruct (ground_track m) as [t|]; cbn [bind] in E, U; [|discriminate].
  ext_norm E. inversion E; subst e; clear E.
  dl_open. rewrite TB, T. unfold amend_cpr. cbn [e_cpr e_mt fst].
  eapply cpr_paths; [exact C | | exact U]. agree_solve A.
Qed.

Theorem u_neutral_tc_9_18 : forall obs now r1 r2 m d rel r1' a tc st,
  agree r1 r2 -> get_downlink_format m = Ok (Some 17) -> get_icao m 17 = Ok (Some a) ->
  get_message_type m = Ok (tc, st) -> in_tc 9 18 tc = true ->
  df_from_message m = Ok (Some d) -> plane_update obs now r1 m 17 rel = Ok r1' ->
  agree r1' (update_from_downlink obs now r2 d).
Proof.
  intros obs now r1 r2 m d rel r1' a tc st A DF IC MT T D H.
  df17_open A DF IC MT D H e c GC E U.
  pose proof T as T'. apply in_tc_true in T'.
  tc_bool (in_tc 1 4 tc) false. tc_bool (in_tc 5 8 tc) false. tc_bool (in_tc 5 18 tc) true.
  rewrite T in E, U.
  destruct (cpr m) as [p|] eqn:C; cbn [bind] in E; [|discriminate].
  destruct (altitude m 17) as [al|]; cbn [bind] in E, U; [|discriminate].
  destruct (surveillance_status m) as [s|]; cbn [bind] in E, U; [|discriminate].
  ext_norm E. inversion E; subst e; clear E.
  dl_open. rewrite TB, TB0, T. unfold amend_cpr. cbn [e_cpr e_mt fst].
  eapply cpr_paths; [exact C | | exact U]. agree_solve A.
Qed.

Ltac ext_cbn :=
  cbn [e_df e_icao e_cap e_mt e_ais e_cpr e_gm e_grspeed e_track e_track_source e_heading
       e_altitude e_alt_delta e_alt_gnss e_vrate e_ss e_version is_some fst snd].

Ltac fin19 A E U r2 :=
  ext_norm E; inversion E; subst; clear E; inversion U; subst; clear U;
  dl_open;
  change (in_tc 1 4 19) with false; change (in_tc 5 8 19) with false;
  change (in_tc 9 18 19) with false; change (19 =? 19) with true; cbv iota;
  unfold amend_from_ext_19; ext_cbn;
  try match goal with |- context [r_altitude ?X] => change (r_altitude X) with (r_altitude r2) end;
  repeat match goal with S : _ = _ |- _ => rewrite S end;
  agree_solve A.

Theorem u_neutral_tc_19 : forall obs now r1 r2 m d rel r1' a st,
  agree r1 r2 -> get_downlink_format m = Ok (Some 17) -> get_icao m 17 = Ok (Some a) ->
  get_message_type m = Ok (19, st) ->
  df_from_message m = Ok (Some d) -> plane_update obs now r1 m 17 rel = Ok r1' ->
  agree r1' (update_from_downlink obs now r2 d).
Proof.
  intros obs now r1 r2 m d rel r1' a st A DF IC MT D H.
  df17_open A DF IC MT D H e c GC E U.
  change (in_tc 1 4 19) with false in *. change (in_tc 5 8 19) with false in *.
  change (in_tc 9 18 19) with false in *. change (in_tc 5 18 19) with false in *.
  change (19 =? 19) with true in *. cbv iota in E, U.
  unfold update_from_ext_19 in U.
  destruct (vertical_rate m) as [v|]; cbn [bind] in E, U; [|discriminate].
  destruct (altitude_delta m) as [dd|]; cbn [bind] in E; [|discriminate].
  assert (r_altitude r1 = r_altitude r2) as RA
    by (destruct A as [A1 _]; unfold P in A1; injection A1; intros; assumption).
  match type of U with context [r_altitude ?X] => change (r_altitude X) with (r_altitude r1) in U end.
  rewrite RA in U. clear DF IC MT GC RA.
  destruct (r_altitude r2) as [alt|] eqn:RA2; cbn [bind] in U.
  - destruct dd as [dd|];
    (destruct (st =? 1) eqn:S1;
     [destruct (track_and_groundspeed m false) as [[t g]|]; cbn [bind] in E, U; [|discriminate];
      fin19 A E U r2|]);
    (destruct (st =? 2) eqn:S2;
     [destruct (track_and_groundspeed m true) as [[t g]|]; cbn [bind] in E, U; [|discriminate];
      fin19 A E U r2|]);
    (destruct ((st =? 3) || (st =? 4)) eqn:S3;
     [destruct (heading m) as [h|]; cbn [bind] in E, U; [|discriminate]; fin19 A E U r2|]);
    fin19 A E U r2.
  - destruct dd as [dd|];
    (destruct (st =? 1) eqn:S1;
     [destruct (track_and_groundspeed m false) as [[t g]|]; cbn [bind] in E, U; [|discriminate];
      fin19 A E U r2|]);
    (destruct (st =? 2) eqn:S2;
     [destruct (track_and_groundspeed m true) as [[t g]|]; cbn [bind] in E, U; [|discriminate];
      fin19 A E U r2|]);
    (destruct ((st =? 3) || (st =? 4)) eqn:S3;
     [destruct (heading m) as [h|]; cbn [bind] in E, U; [|discriminate]; fin19 A E U r2|]);
    fin19 A E U r2.
Qed.

Theorem u_neutral_tc_20_22 : forall obs now r1 r2 m d rel r1' a tc st,
  agree r1 r2 -> get_downlink_format m = Ok (Some 17) -> get_icao m 17 = Ok (Some a) ->
  get_message_type m = Ok (tc, st) -> in_tc 20 22 tc = true ->
  df_from_message m = Ok (Some d) -> plane_update obs now r1 m 17 rel = Ok r1' ->
  agree r1' (update_from_downlink obs now r2 d).
Proof.
  intros obs now r1 r2 m d rel r1' a tc st A DF IC MT T D H.
  df17_open A DF IC MT D H e c GC E U.
  pose proof T as T'. apply in_tc_true in T'.
  tc_bool (in_tc 1 4 tc) false. tc_bool (in_tc 5 8 tc) false. tc_bool (in_tc 9 18 tc) false.
  tc_bool (in_tc 5 18 tc) false. tc_bool (tc =? 19) false. rewrite T in E, U.
  destruct (altitude_gnss m) as [g|]; cbn [bind] in E, U; [|discriminate].
  destruct (surveillance_status m) as [s|]; cbn [bind] in E, U; [|discriminate].
  ext_norm E. inversion E; subst e; clear E. inversion U; subst r1'; clear U.
  dl_open. rewrite TB, TB0, TB1, TB3, T. agree_solve A.
Qed.

Theorem u_neutral_tc_31 : forall obs now r1 r2 m d rel r1' a st,
  agree r1 r2 -> get_downlink_format m = Ok (Some 17) -> get_icao m 17 = Ok (Some a) ->
  get_message_type m = Ok (31, st) ->
  df_from_message m = Ok (Some d) -> plane_update obs now r1 m 17 rel = Ok r1' ->
  agree r1' (update_from_downlink obs now r2 d).
Proof.
  intros obs now r1 r2 m d rel r1' a st A DF IC MT D H.
  df17_open A DF IC MT D H e c GC E U.
  change (in_tc 1 4 31) with false in *. change (in_tc 5 8 31) with false in *.
  change (in_tc 9 18 31) with false in *. change (in_tc 5 18 31) with false in *.
  change (in_tc 20 22 31) with false in *.
  change (31 =? 19) with false in *. change (31 =? 31) with true in *. cbv iota in E, U.
  destruct (version m) as [v|]; cbn [bind] in E, U; [|discriminate].
  ext_norm E. inversion E; subst e; clear E. inversion U; subst r1'; clear U.
  dl_open.
  change (in_tc 1 4 31) with false. change (in_tc 5 8 31) with false.
  change (in_tc 9 18 31) with false. change (in_tc 20 22 31) with false.
  change (31 =? 19) with false. change (31 =? 31) with true. cbv iota.
  agree_solve A.
Qed.

(** any other type code (0, 23..30): only the clocks and last_tc move, on both paths *)
Theorem u_neutral_tc_other : forall obs now r1 r2 m d rel r1' a tc st,
  agree r1 r2 -> get_downlink_format m = Ok (Some 17) -> get_icao m 17 = Ok (Some a) ->
  get_message_type m = Ok (tc, st) ->
  in_tc 1 4 tc = false -> in_tc 5 8 tc = false -> in_tc 9 18 tc = false -> (tc =? 19) = false ->
  in_tc 20 22 tc = false -> (tc =? 31) = false ->
  df_from_message m = Ok (Some d) -> plane_update obs now r1 m 17 rel = Ok r1' ->
  agree r1' (update_from_downlink obs now r2 d).
Proof.
  intros obs now r1 r2 m d rel r1' a tc st A DF IC MT T1 T2 T3 T4 T5 T6 D H.
  df17_open A DF IC MT D H e c GC E U.
  assert (in_tc 5 18 tc = false) as T7.
  { apply in_tc_false in T2. apply in_tc_false in T3. apply in_tc_false. lia. }
  rewrite T1, T2, T3, T4, T5, T6, ?T7 in E, U. rewrite T7 in E.
  ext_norm E. inversion E; subst e; clear E. inversion U; subst r1'; clear U.
  dl_open. rewrite T1, T2, T3, T4, T5, T6. agree_solve A.
Qed.

(** all DF17 type codes *)
Theorem u_neutral_df17 : forall obs now r1 r2 m d rel r1' a,
  agree r1 r2 -> get_downlink_format m = Ok (Some 17) -> get_icao m 17 = Ok (Some a) ->
  df_from_message m = Ok (Some d) -> plane_update obs now r1 m 17 rel = Ok r1' ->
  agree r1' (update_from_downlink obs now r2 d).
Proof.
  intros obs now r1 r2 m d rel r1' a A DF IC D H.
  destruct (plane_update_ext _ _ _ _ _ _ H) as (c & GC & U).
  unfold update_from_ext in U.
  destruct (get_message_type m) as [[tc st]|] eqn:MT; cbn [bind] in U; [|discriminate]. clear U.
  destruct (in_tc 1 4 tc) eqn:T1; [eapply u_neutral_tc_1_4; eassumption|].
  destruct (in_tc 5 8 tc) eqn:T2; [eapply u_neutral_tc_5_8; eassumption|].
  destruct (in_tc 9 18 tc) eqn:T3; [eapply u_neutral_tc_9_18; eassumption|].
  destruct (tc =? 19) eqn:T4; [apply N.eqb_eq in T4; subst tc; eapply u_neutral_tc_19; eassumption|].
  destruct (in_tc 20 22 tc) eqn:T5; [eapply u_neutral_tc_20_22; eassumption|].
  destruct (tc =? 31) eqn:T6; [apply N.eqb_eq in T6; subst tc; eapply u_neutral_tc_31; eassumption|].
  eapply u_neutral_tc_other; eassumption.
Qed.

(** -U is decode-neutral on an existing row, for DF 4, 5, 11, 17.  [get_icao .. = Ok (Some a)] is
    what the reader has established before it updates a row; the only validity condition is
    that a DF4 reply carries a decodable altitude (without one the squitter path clears the
    altitude and the downlink path keeps the previous value). *)
Theorem u_neutral : forall obs now r1 r2 m df d rel r1' a,
  agree r1 r2 -> get_downlink_format m = Ok (Some df) -> get_icao m df = Ok (Some a) ->
  df = 4 \/ df = 5 \/ df = 11 \/ df = 17 ->
  (df = 4 -> exists alt, altitude m 4 = Ok (Some alt)) ->
  df_from_message m = Ok (Some d) -> plane_update obs now r1 m df rel = Ok r1' ->
  agree r1' (update_from_downlink obs now r2 d).
Proof.
  intros obs now r1 r2 m df d rel r1' a A DF IC C V D H.
  destruct C as [-> | [-> | [-> | ->]]].
  - destruct (V eq_refl) as [alt AL]. eapply u_neutral_df4; eassumption.
  - eapply u_neutral_df5; eassumption.
  - eapply u_neutral_df11; eassumption.
  - eapply u_neutral_df17; eassumption.
Qed.

(** at the level of the table: with and without -U, a DF4/5/11/17 frame for an aircraft that is
    already in the table leaves rows that agree on the displayed parameters *)
Corollary u_neutral_update_aircraft : forall o1 o2 now t d m df a r t1,
  use_update o1 = true -> use_update o2 = false ->
  relaxed o1 = relaxed o2 -> observer o1 = observer o2 ->
  lookup t a = Some r ->
  get_downlink_format m = Ok (Some df) -> get_icao m df = Ok (Some a) ->
  df = 4 \/ df = 5 \/ df = 11 \/ df = 17 ->
  (df = 4 -> exists alt, altitude m 4 = Ok (Some alt)) ->
  df_from_message m = Ok (Some d) ->
  update_aircraft o1 now t d m df a = Ok t1 ->
  exists t2 ra rb, update_aircraft o2 now t d m df a = Ok t2 /\
    lookup t1 a = Some ra /\ lookup t2 a = Some rb /\ agree ra rb /\ keys t1 = keys t2.
Proof.
  intros o1 o2 now t d m df a r t1 U1 U2 R O L DF IC C V D H.
  unfold update_aircraft in *. rewrite L in *. rewrite U1 in H. rewrite U2.
  assert ((df <? 20) = true) as L20 by (apply N.ltb_lt; lia).
  rewrite L20. rewrite andb_false_r in H. cbn [negb andb].
  destruct (plane_update (observer o1) now r m df (relaxed o1)) as [ra|] eqn:E;
    cbn [bind] in H; [|discriminate].
  inversion H; subst t1; clear H.
  eexists. exists ra. eexists. split; [reflexivity|].
  split; [apply lookup_upsert_same|]. split; [apply lookup_upsert_same|]. split.
  - rewrite <- O. eapply u_neutral; try eassumption. apply agree_refl.
  - assert (In a (keys t)) as I.
    { destruct (in_dec N.eq_dec a (keys t)) as [I|I]; [exact I|].
      apply lookup_none_keys in I. congruence. }
    rewrite !keys_upsert_in by exact I. reflexivity.
Qed.

Print Assumptions presentation_step.
Print Assumptions presentation_run.
Print Assumptions presentation_read_lines.
Print Assumptions plane_update_eq_but_dist.
Print Assumptions update_from_downlink_eq_but_dist.
Print Assumptions observer_step.
Print Assumptions observer_run.
Print Assumptions observer_step_counters.
Print Assumptions observer_only_distance.
Print Assumptions u_neutral_df4.
Print Assumptions u_neutral_df5.
Print Assumptions u_neutral_df11.
Print Assumptions u_neutral_df17.
Print Assumptions u_neutral.
Print Assumptions u_neutral_update_aircraft.
