From SQ Require Import Base RangeSpec Decode Tables Ia5 Update Footprint.
Local Open Scope N_scope.

(** the model's two slicing patterns, on two nibbles, against the field value *)
Definition hi_ok (a : nat) (x y : N) : bool :=
  let m := repeat 0 a ++ [x; y] in
  N.lor (N.shiftl x 2) (N.shiftr y 2) =? field m (4 * a + 1) (4 * a + 6).
Definition lo_ok (a : nat) (x y : N) : bool :=
  let m := repeat 0 a ++ [x; y] in
  N.lor (N.shiftl (N.land x 3) 4) y =? field m (4 * a + 3) (4 * a + 8).

Lemma hi10 : all2 (hi_ok 10) = true. Proof. vm_cast_no_check (eq_refl true). Qed.
Lemma hi13 : all2 (hi_ok 13) = true. Proof. vm_cast_no_check (eq_refl true). Qed.
Lemma hi16 : all2 (hi_ok 16) = true. Proof. vm_cast_no_check (eq_refl true). Qed.
Lemma hi19 : all2 (hi_ok 19) = true. Proof. vm_cast_no_check (eq_refl true). Qed.
Lemma lo11 : all2 (lo_ok 11) = true. Proof. vm_cast_no_check (eq_refl true). Qed.
Lemma lo14 : all2 (lo_ok 14) = true. Proof. vm_cast_no_check (eq_refl true). Qed.
Lemma lo17 : all2 (lo_ok 17) = true. Proof. vm_cast_no_check (eq_refl true). Qed.
Lemma lo20 : all2 (lo_ok 20) = true. Proof. vm_cast_no_check (eq_refl true). Qed.

Ltac char_tac H :=
  intros W; apply N.eqb_eq;
  match goal with |- (_ =? field ?m ?sb ?eb) = true =>
    let m' := fresh in idtac end;
  apply (all2_sound _ H); apply wf_nth; exact W.

Lemma char0 m : wf m -> N.lor (N.shiftl (nth 10 m 0) 2) (N.shiftr (nth 11 m 0) 2) = char_field m 0.
Proof.
  intros W. change (char_field m 0) with (field (repeat 0 10 ++ [nth 10 m 0; nth 11 m 0]) 41 46).
  apply N.eqb_eq. apply (all2_sound _ hi10); apply wf_nth; exact W.
Qed.
Lemma char1 m : wf m -> N.lor (N.shiftl (N.land (nth 11 m 0) 3) 4) (nth 12 m 0) = char_field m 1.
Proof.
  intros W. change (char_field m 1) with (field (repeat 0 11 ++ [nth 11 m 0; nth 12 m 0]) 47 52).
  apply N.eqb_eq. apply (all2_sound _ lo11); apply wf_nth; exact W.
Qed.
Lemma char2 m : wf m -> N.lor (N.shiftl (nth 13 m 0) 2) (N.shiftr (nth 14 m 0) 2) = char_field m 2.
Proof.
  intros W. change (char_field m 2) with (field (repeat 0 13 ++ [nth 13 m 0; nth 14 m 0]) 53 58).
  apply N.eqb_eq. apply (all2_sound _ hi13); apply wf_nth; exact W.
Qed.
Lemma char3 m : wf m -> N.lor (N.shiftl (N.land (nth 14 m 0) 3) 4) (nth 15 m 0) = char_field m 3.
Proof.
  intros W. change (char_field m 3) with (field (repeat 0 14 ++ [nth 14 m 0; nth 15 m 0]) 59 64).
  apply N.eqb_eq. apply (all2_sound _ lo14); apply wf_nth; exact W.
Qed.
Lemma char4 m : wf m -> N.lor (N.shiftl (nth 16 m 0) 2) (N.shiftr (nth 17 m 0) 2) = char_field m 4.
Proof.
  intros W. change (char_field m 4) with (field (repeat 0 16 ++ [nth 16 m 0; nth 17 m 0]) 65 70).
  apply N.eqb_eq. apply (all2_sound _ hi16); apply wf_nth; exact W.
Qed.
Lemma char5 m : wf m -> N.lor (N.shiftl (N.land (nth 17 m 0) 3) 4) (nth 18 m 0) = char_field m 5.
Proof.
  intros W. change (char_field m 5) with (field (repeat 0 17 ++ [nth 17 m 0; nth 18 m 0]) 71 76).
  apply N.eqb_eq. apply (all2_sound _ lo17); apply wf_nth; exact W.
Qed.
Lemma char6 m : wf m -> N.lor (N.shiftl (nth 19 m 0) 2) (N.shiftr (nth 20 m 0) 2) = char_field m 6.
Proof.
  intros W. change (char_field m 6) with (field (repeat 0 19 ++ [nth 19 m 0; nth 20 m 0]) 77 82).
  apply N.eqb_eq. apply (all2_sound _ hi19); apply wf_nth; exact W.
Qed.
Lemma char7 m : wf m -> N.lor (N.shiftl (N.land (nth 20 m 0) 3) 4) (nth 21 m 0) = char_field m 7.
Proof.
  intros W. change (char_field m 7) with (field (repeat 0 20 ++ [nth 20 m 0; nth 21 m 0]) 83 88).
  apply N.eqb_eq. apply (all2_sound _ lo20); apply wf_nth; exact W.
Qed.

(** character map: the model's ia5 + blank filter = the specification, for all 64 codes (and beyond) *)
Lemma ia5_keep c t :
  filter (fun c => negb (c =? 32)) (ia5 c :: t) =
  match ia5_spec c with Some x => x :: filter (fun c => negb (c =? 32)) t
                      | None => filter (fun c => negb (c =? 32)) t end.
Proof.
  unfold ia5, ia5_spec. cbn [filter].
  destruct ((48 <=? c) && (c <=? 57)) eqn:D.
  - apply andb_prop in D. destruct D as [D1 D2]. apply N.leb_le in D1. apply N.leb_le in D2.
    assert (((1 <=? c) && (c <=? 26)) = false) as E.
    { apply andb_false_intro2. apply N.leb_gt. lia. }
    rewrite E. destruct (c =? 32) eqn:F; [apply N.eqb_eq in F; lia|]. reflexivity.
  - destruct ((1 <=? c) && (c <=? 26)) eqn:E.
    + apply andb_prop in E. destruct E as [E1 E2]. apply N.leb_le in E1. apply N.leb_le in E2.
      assert (N.lor c 64 = 64 + c) as L.
      { assert (c < 64) as B by lia.
        rewrite N.lor_comm. change 64 with (1 * 2 ^ 6).
        apply (lor_shl_add 1 c 6). exact B. }
      rewrite L. destruct (64 + c =? 32) eqn:F; [apply N.eqb_eq in F; lia|]. reflexivity.
    + reflexivity.
Qed.

Theorem ais_correct m : wf m -> (22 <= List.length m)%nat -> ais m = Ok (Some (ais_spec m)).
Proof.
  intros W L. unfold ais.
  rewrite !idx_nth by lia. cbn [bind].
  rewrite char0, char1, char2, char3, char4, char5, char6, char7 by exact W.
  unfold ais_spec. cbn [map]. repeat rewrite ia5_keep. cbn [filter keep_some].
  reflexivity.
Qed.

(** wake letter: the regenerated table against the specification, for ALL (tc, ca) *)
Theorem wake_correct tc ca : get_wake_turbulence_category (tc, ca) = wake_spec tc ca.
Proof.
  unfold get_wake_turbulence_category, wake_spec. cbn [wake_lookup wake_table fst snd].
  rewrite !(N.eqb_sym _ tc), !(N.eqb_sym _ ca).
  destruct (tc =? 4); cbn [andb]; [|reflexivity].
  destruct (ca =? 1); [reflexivity|]. destruct (ca =? 2); [reflexivity|].
  destruct (ca =? 3); [reflexivity|]. destruct (ca =? 4); [reflexivity|].
  destruct (ca =? 5); [reflexivity|]. destruct (ca =? 7); reflexivity.
Qed.

(** row effect on the squitter path: TC 1-4 sets callsign and category *)
Lemma update_from_ext_ident obs r m df r' tc st :
  get_message_type m = Ok (tc, st) -> in_tc 1 4 tc = true ->
  update_from_ext obs r m df = Ok r' ->
  exists a, ais m = Ok a /\ r_ais r' = a /\ category r' = (tc, st).
Proof.
  unfold update_from_ext. intros T C H. rewrite T in H. cbn [bind] in H. rewrite C in H.
  destruct (ais m) as [a|]; cbn [bind] in H; [|discriminate].
  inversion H; subst. exists a. repeat split.
Qed.
